// C18: coin-set arithmetic matches the multiset model.
//
// Exhaustive small scope: every coin set over denoms {aaa,bbb,ccc} (each absent or carrying one of 8 amounts
// including 0, negatives and the int64 extremes) = 729 sets; all 729^2 ordered pairs (+ the aliased pair A,A)
// x {Add, AddUnsafe, Sub, SubUnsafe}, operands handed over as sub-slices of a poisoned larger backing array.
// Oracle: map[denom]*big.Int model (sorted zero-free per-denom sum/difference; panic <=> an amount leaves int64
// or, for the checked variants, the result is not a valid coin set; operands bit-identical afterwards).
// Comparison helpers: all pairs of VALID sets (216^2) against per-denomination comparison; ParseCoins(String())
// round trip for every valid set over two denom alphabets; single-coin arithmetic over all amount pairs.
package main

import (
	"fmt"
	"math"
	"math/big"
	"sort"
	"strings"
	"sync"
	"time"

	"github.com/gnolang/gno/tm2/pkg/std"
	"verif/engine/vk"
)

var r *vk.Run

var denoms = []string{"aaa", "bbb", "ccc"}

// order chosen so that small indices are "simple" inputs (minimal failing inputs read well)
var amounts = []int64{1, 2, 0, -1, -2, math.MaxInt64 - 1, math.MaxInt64, math.MinInt64}

type cset []std.Coin // sorted by denom, at most one entry per denom

func mkSets(dn []string, am []int64) []cset {
	n := len(am) + 1
	total := 1
	for range dn {
		total *= n
	}
	out := make([]cset, 0, total)
	for i := 0; i < total; i++ {
		var s cset
		x := i
		// most significant digit = first denom
		digs := make([]int, len(dn))
		for k := len(dn) - 1; k >= 0; k-- {
			digs[k] = x % n
			x /= n
		}
		for k, d := range digs {
			if d > 0 {
				s = append(s, std.Coin{Denom: dn[k], Amount: am[d-1]})
			}
		}
		out = append(out, s)
	}
	return out
}

func show(s []std.Coin) string {
	var b strings.Builder
	b.WriteString("{")
	for i, c := range s {
		if i > 0 {
			b.WriteString(",")
		}
		fmt.Fprintf(&b, "%d%s", c.Amount, c.Denom)
	}
	b.WriteString("}")
	return b.String()
}

var poison = std.Coin{Denom: "zzzpoison", Amount: 777}

// operand returns s as a sub-slice of a larger poisoned backing array (cap > len) and the backing array.
func operand(s cset) (std.Coins, []std.Coin) {
	back := make([]std.Coin, len(s)+3)
	back[0] = poison
	copy(back[1:], s)
	back[len(s)+1] = poison
	back[len(s)+2] = poison
	return std.Coins(back[1 : 1+len(s) : len(back)]), back
}

// ---- failure bookkeeping: one violation per class, minimal input by enumeration index -----------------------

type frec struct {
	idx    int64
	n      int64
	input  string
	detail string
}

var (
	fmu   sync.Mutex
	fails = map[string]*frec{}
)

func fail(class string, idx int64, input, detail string) {
	fmu.Lock()
	f := fails[class]
	if f == nil {
		fails[class] = &frec{idx, 1, input, detail}
	} else {
		f.n++
		if idx < f.idx {
			f.idx, f.input, f.detail = idx, input, detail
		}
	}
	fmu.Unlock()
}

// ---- model -------------------------------------------------------------------------------------------------

var (
	bigMin = big.NewInt(math.MinInt64)
	bigMax = big.NewInt(math.MaxInt64)
)

type mres struct {
	overflow bool
	coins    []std.Coin // sorted zero-free
	valid    bool       // all amounts > 0
}

func model(a, b cset, sub bool) mres {
	m := map[string]*big.Int{}
	for _, c := range a {
		m[c.Denom] = big.NewInt(c.Amount)
	}
	for _, c := range b {
		v := big.NewInt(c.Amount)
		if sub {
			v.Neg(v)
		}
		if x, ok := m[c.Denom]; ok {
			x.Add(x, v)
		} else {
			m[c.Denom] = v
		}
	}
	var ks []string
	for k := range m {
		ks = append(ks, k)
	}
	sort.Strings(ks)
	res := mres{valid: true}
	for _, k := range ks {
		v := m[k]
		if v.Cmp(bigMin) < 0 || v.Cmp(bigMax) > 0 {
			return mres{overflow: true}
		}
		if v.Sign() == 0 {
			continue
		}
		if v.Sign() < 0 {
			res.valid = false
		}
		res.coins = append(res.coins, std.Coin{Denom: k, Amount: v.Int64()})
	}
	return res
}

func eqCoins(a []std.Coin, b []std.Coin) bool {
	if len(a) != len(b) {
		return false
	}
	for i := range a {
		if a[i] != b[i] {
			return false
		}
	}
	return true
}

func hasMin(s cset) bool {
	for _, c := range s {
		if c.Amount == math.MinInt64 {
			return true
		}
	}
	return false
}

type arith struct {
	name    string
	sub     bool
	checked bool
	f       func(a, b std.Coins) std.Coins
}

var ariths = []arith{
	{"AddUnsafe", false, false, func(a, b std.Coins) std.Coins { return a.AddUnsafe(b) }},
	{"Add", false, true, func(a, b std.Coins) std.Coins { return a.Add(b) }},
	{"SubUnsafe", true, false, func(a, b std.Coins) std.Coins { return a.SubUnsafe(b) }},
	{"Sub", true, true, func(a, b std.Coins) std.Coins { return a.Sub(b) }},
}

type counters struct{ ok, panicOK, spare, results int64 }

func arithPair(idx int64, sa, sb cset, aliased bool, cnt *counters) {
	for _, op := range ariths {
		var A, B std.Coins
		var backA, backB []std.Coin
		A, backA = operand(sa)
		if aliased {
			B, backB = A, backA
		} else {
			B, backB = operand(sb)
		}
		snapA := append([]std.Coin(nil), backA...)
		snapB := append([]std.Coin(nil), backB...)
		var got std.Coins
		rec := vk.Catch(func() { got = op.f(A, B) })
		input := fmt.Sprintf("%s(%s,%s)", op.name, show(sa), show(sb))
		if aliased {
			input += "[same slice]"
		}
		// 1. operands untouched (within len; the leading poison cell can never be legally written either)
		mut := ""
		for i := 0; i <= len(sa); i++ {
			if backA[i] != snapA[i] {
				mut = fmt.Sprintf("receiver cell %d: %v -> %v", i-1, snapA[i], backA[i])
				break
			}
		}
		if mut == "" {
			for i := 0; i <= len(sb) && i < len(backB); i++ {
				if backB[i] != snapB[i] {
					mut = fmt.Sprintf("argument cell %d: %v -> %v", i-1, snapB[i], backB[i])
					break
				}
			}
		}
		if mut != "" {
			fail("operand-mutated:"+op.name, idx, input, mut+fmt.Sprintf("; receiver after=%s argument after=%s", show(backA[1:1+len(sa)]), show(backB[1:1+min(len(sb), len(backB)-1)])))
		}
		// observation only: writes into spare capacity beyond len
		for i := len(sa) + 1; i < len(backA); i++ {
			if backA[i] != snapA[i] {
				cnt.spare++
			}
		}
		for i := len(sb) + 1; i < len(backB); i++ {
			if backB[i] != snapB[i] {
				cnt.spare++
			}
		}
		// 2. result vs model
		m := model(sa, sb, op.sub)
		wantPanic := m.overflow || (op.checked && !m.valid)
		class := ""
		detail := ""
		switch {
		case rec != nil && !wantPanic:
			class, detail = "unexpected-panic", fmt.Sprintf("panic %q; model result %s", fmt.Sprint(rec), show(m.coins))
		case rec == nil && wantPanic:
			why := "result not a valid coin set"
			if m.overflow {
				why = "an amount leaves int64"
			}
			class, detail = "missing-panic", fmt.Sprintf("returned %s; model: %s", show(got), why)
		case rec == nil && !eqCoins(got, m.coins):
			class, detail = "wrong-result", fmt.Sprintf("returned %s; model %s", show(got), show(m.coins))
		}
		if class != "" {
			if op.sub && hasMin(sb) {
				// narrow class: negation of an int64-minimum amount in the subtrahend
				fail("negate-MinInt64:"+op.name+":"+class, idx, input, detail)
			} else {
				fail(class+":"+op.name, idx, input, detail)
			}
			continue
		}
		if rec != nil {
			cnt.panicOK++
		} else {
			cnt.ok++
		}
	}
}

// ---- comparison helpers on valid sets ------------------------------------------------------------------------

func asMap(s cset) map[string]int64 {
	m := map[string]int64{}
	for _, c := range s {
		m[c.Denom] = c.Amount
	}
	return m
}

func hasNonPositive(s cset) bool {
	for _, c := range s {
		if c.Amount <= 0 {
			return true
		}
	}
	return false
}

func cmpPair(idx int64, sa, sb cset, hist map[string]int64) {
	// On sets carrying zero/negative entries only IsAllGTE / IsAllLTE are judged against the per-denomination
	// model (absent denom = 0): that IS what the code implements for them. The other helpers treat such entries
	// by conventions of their own (zero = absent, ...), which the statement does not settle; for those only
	// "no panic, operands untouched" is required there.
	extended := hasNonPositive(sa) || hasNonPositive(sb)
	ma, mb := asMap(sa), asMap(sb)
	allB := func(p func(a, b int64, inA bool) bool) bool {
		for d, b := range mb {
			a, in := ma[d]
			if !p(a, b, in) {
				return false
			}
		}
		return true
	}
	allA := func(p func(a, b int64, inB bool) bool) bool {
		for d, a := range ma {
			b, in := mb[d]
			if !p(a, b, in) {
				return false
			}
		}
		return true
	}
	anyA := func(p func(a, b int64, inB bool) bool) bool {
		for d, a := range ma {
			b, in := mb[d]
			if p(a, b, in) {
				return true
			}
		}
		return false
	}
	type h struct {
		name string
		want bool
		f    func(a, b std.Coins) bool
	}
	hs := []h{
		// conventions for empty sets are the ones pinned by the repo's own tests
		{"IsAllGT", len(sa) > 0 && allB(func(a, b int64, in bool) bool { return in && a > b }), func(a, b std.Coins) bool { return a.IsAllGT(b) }},
		{"IsAllGTE", len(sb) == 0 || (len(sa) > 0 && allB(func(a, b int64, in bool) bool { return a >= b })), func(a, b std.Coins) bool { return a.IsAllGTE(b) }},
		{"IsAllLT", len(sb) > 0 && allA(func(a, b int64, in bool) bool { return in && a < b }), func(a, b std.Coins) bool { return a.IsAllLT(b) }},
		{"IsAllLTE", len(sa) == 0 || (len(sb) > 0 && allA(func(a, b int64, in bool) bool { return a <= b })), func(a, b std.Coins) bool { return a.IsAllLTE(b) }},
		{"IsAnyGT", anyA(func(a, b int64, in bool) bool { return in && a > b }), func(a, b std.Coins) bool { return a.IsAnyGT(b) }},
		{"IsAnyGTE", anyA(func(a, b int64, in bool) bool { return in && a >= b }), func(a, b std.Coins) bool { return a.IsAnyGTE(b) }},
		{"DenomsSubsetOf", allA(func(a, b int64, in bool) bool { return in }), func(a, b std.Coins) bool { return a.DenomsSubsetOf(b) }},
	}
	for _, x := range hs {
		A, backA := operand(sa)
		B, backB := operand(sb)
		snapA := append([]std.Coin(nil), backA...)
		snapB := append([]std.Coin(nil), backB...)
		var got bool
		rec := vk.Catch(func() { got = x.f(A, B) })
		input := fmt.Sprintf("%s(%s,%s)", x.name, show(sa), show(sb))
		if rec != nil {
			fail("helper-panic:"+x.name, idx, input, fmt.Sprint(rec))
			continue
		}
		if got != x.want && (!extended || x.name == "IsAllGTE" || x.name == "IsAllLTE") {
			fail("helper-wrong:"+x.name, idx, input, fmt.Sprintf("returned %v; per-denomination comparison says %v", got, x.want))
		}
		if !eqCoins(backA, snapA) || !eqCoins(backB, snapB) {
			fail("operand-mutated:"+x.name, idx, input, "operand changed")
		}
		hist[fmt.Sprintf("%s=%v", x.name, got)]++
	}
	// IsEqual: same value <=> true. For equal-length sets with different denominations the repository's own test
	// (TestEqualCoins) pins a panic; the model accepts panic or false there, never true.
	{
		A, backA := operand(sa)
		B, backB := operand(sb)
		snapA := append([]std.Coin(nil), backA...)
		snapB := append([]std.Coin(nil), backB...)
		var got bool
		rec := vk.Catch(func() { got = A.IsEqual(B) })
		want := eqCoins(sa, sb)
		sameDenoms := len(sa) == len(sb)
		if sameDenoms {
			for i := range sa {
				if sa[i].Denom != sb[i].Denom {
					sameDenoms = false
				}
			}
		}
		input := fmt.Sprintf("IsEqual(%s,%s)", show(sa), show(sb))
		switch {
		case rec != nil && (len(sa) != len(sb) || sameDenoms):
			fail("helper-panic:IsEqual", idx, input, fmt.Sprint(rec))
		case rec == nil && got != want:
			fail("helper-wrong:IsEqual", idx, input, fmt.Sprintf("returned %v want %v", got, want))
		case rec != nil:
			hist["IsEqual=panic(denom mismatch, pinned by repo test)"]++
		default:
			hist[fmt.Sprintf("IsEqual=%v", got)]++
		}
		if !eqCoins(backA, snapA) || !eqCoins(backB, snapB) {
			fail("operand-mutated:IsEqual", idx, input, "operand changed")
		}
	}
}

// ---- single coins ------------------------------------------------------------------------------------------

func singleCoins() int64 {
	var n int64
	type cop struct {
		name    string
		sub     bool
		checked bool
		f       func(a, b std.Coin) std.Coin
	}
	ops := []cop{
		{"Coin.AddUnsafe", false, false, func(a, b std.Coin) std.Coin { return a.AddUnsafe(b) }},
		{"Coin.Add", false, true, func(a, b std.Coin) std.Coin { return a.Add(b) }},
		{"Coin.SubUnsafe", true, false, func(a, b std.Coin) std.Coin { return a.SubUnsafe(b) }},
		{"Coin.Sub", true, true, func(a, b std.Coin) std.Coin { return a.Sub(b) }},
	}
	var idx int64
	for _, x := range amounts {
		for _, y := range amounts {
			for _, db := range []string{"aaa", "bbb"} {
				for _, op := range ops {
					idx++
					n++
					a, b := std.Coin{Denom: "aaa", Amount: x}, std.Coin{Denom: db, Amount: y}
					var got std.Coin
					rec := vk.Catch(func() { got = op.f(a, b) })
					v := big.NewInt(y)
					if op.sub {
						v.Neg(v)
					}
					v.Add(v, big.NewInt(x))
					wantPanic := db != "aaa" || !v.IsInt64() || (op.checked && v.Sign() < 0)
					input := fmt.Sprintf("%s(%d%s,%d%s)", op.name, x, "aaa", y, db)
					switch {
					case (rec != nil) != wantPanic:
						fail("coin-panic-mismatch:"+op.name, idx, input, fmt.Sprintf("panic=%v want panic=%v exact=%s", rec, wantPanic, v))
					case rec == nil && (got.Denom != "aaa" || got.Amount != v.Int64()):
						fail("coin-wrong-result:"+op.name, idx, input, fmt.Sprintf("got %v exact %s", got, v))
					}
				}
			}
		}
	}
	return n
}

// ---- parse round trip ----------------------------------------------------------------------------------------

func parseRoundTrip(sets []cset, tag string) int64 {
	var n int64
	for i, s := range sets {
		n++
		cs := std.Coins(append([]std.Coin(nil), s...))
		if !cs.IsValid() {
			fail("parse:generated-set-not-valid", int64(i), show(s), "harness alphabet error")
			continue
		}
		str := cs.String()
		var got std.Coins
		var err error
		rec := vk.Catch(func() { got, err = std.ParseCoins(str) })
		switch {
		case rec != nil:
			fail("parse-panic:ParseCoins", int64(i), str, fmt.Sprint(rec))
		case err != nil:
			fail("parse-rejects-own-string:ParseCoins", int64(i), str, err.Error())
		case !eqCoins(got, s):
			fail("parse-roundtrip-differs:ParseCoins", int64(i), str, fmt.Sprintf("got %s want %s", show(got), show(s)))
		}
		for _, c := range s {
			n++
			var gc std.Coin
			rec := vk.Catch(func() { gc, err = std.ParseCoin(c.String()) })
			if rec != nil || err != nil || gc != c {
				fail("parse-roundtrip-differs:ParseCoin", int64(i), c.String(), fmt.Sprintf("panic=%v err=%v got=%v", rec, err, gc))
			}
		}
		r.Distinct(tag + str)
	}
	return n
}

func main() {
	r = vk.New("exploration")
	r.SetBudget(80*time.Second, 10*time.Minute)

	sets := mkSets(denoms, amounts)
	n := len(sets)
	var cmu sync.Mutex
	var tot counters
	// all ordered pairs, row-parallel
	r.ParFor(n, func(i int) {
		var c counters
		for j := 0; j < n; j++ {
			arithPair(int64(i)*int64(n+1)+int64(j), sets[i], sets[j], false, &c)
			r.Distinct(fmt.Sprintf("pair:%d,%d", i, j))
		}
		arithPair(int64(i)*int64(n+1)+int64(n), sets[i], sets[i], true, &c)
		r.EvalN(int64(4 * (n + 1)))
		cmu.Lock()
		tot.ok += c.ok
		tot.panicOK += c.panicOK
		tot.spare += c.spare
		cmu.Unlock()
	})
	r.OutcomeN("arith_result_matches_model", tot.ok)
	r.OutcomeN("arith_panic_expected_and_observed", tot.panicOK)
	r.OutcomeN("observation_writes_into_spare_capacity_beyond_len(not judged)", tot.spare)

	// comparison helpers on valid sets
	vAmounts := []int64{1, 2, 3, math.MaxInt64 - 1, math.MaxInt64}
	if r.Thorough() {
		vAmounts = []int64{1, 2, 3, 4, 1 << 32, math.MaxInt64 - 2, math.MaxInt64 - 1, math.MaxInt64}
	}
	vsets := mkSets(denoms, vAmounts)
	// second family: sorted sets that also carry zero and negative entries (legal operands of the Unsafe
	// arithmetic, so the helpers meet them): per-denomination comparison with an absent denom read as 0
	validSets := vsets
	vsets = append(append([]cset{}, vsets...), mkSets(denoms, []int64{-1, 0, 1, 2})...)
	nv := len(vsets)
	hist := map[string]int64{}
	r.ParFor(nv, func(i int) {
		h := map[string]int64{}
		for j := 0; j < nv; j++ {
			cmpPair(int64(i)*int64(nv)+int64(j), vsets[i], vsets[j], h)
		}
		r.EvalN(int64(8 * nv))
		cmu.Lock()
		for k, v := range h {
			hist[k] += v
		}
		cmu.Unlock()
	})
	for k, v := range hist {
		r.OutcomeN(k, v)
	}
	// AmountOf on every set of the big universe (binary search incl. zero/negative entries) + an absent denom
	for i, s := range sets {
		m := asMap(s)
		for _, d := range []string{"aaa", "bbb", "ccc", "bbc", "ddd"} {
			A, _ := operand(s)
			var got int64
			rec := vk.Catch(func() { got = A.AmountOf(d) })
			r.Eval()
			if rec != nil || got != m[d] {
				fail("helper-wrong:AmountOf", int64(i), fmt.Sprintf("AmountOf(%s,%s)", show(s), d), fmt.Sprintf("panic=%v got=%d want=%d", rec, got, m[d]))
			}
		}
	}
	r.EvalN(singleCoins())
	r.EvalN(parseRoundTrip(validSets, "p1:"))
	r.EvalN(parseRoundTrip(mkSets([]string{"/gno.land/r/demo/foo:bar", "a-b", "ugnot", "x0_.:/-"}, []int64{1, 10, math.MaxInt64}), "p2:"))

	var names []string
	for c := range fails {
		names = append(names, c)
	}
	sort.Strings(names)
	for _, c := range names {
		f := fails[c]
		key := c
		// classes that can only be told apart by their input carry the minimal input in the key
		if strings.HasPrefix(c, "negate-MinInt64:") {
			key = c + ":" + f.input
		}
		r.Violation(key, map[string]any{"class": c, "minimal_input": f.input, "detail": f.detail, "failing_cases_in_class": f.n})
	}
	r.Sample(map[string]any{"op": "AddUnsafe", "a": show(sets[1*81]), "b": show(sets[3*9+1]), "note": "operands are len-limited views into poisoned backing arrays"})
	r.Sample(map[string]any{"op": "Sub", "a": show(sets[n-1]), "b": show(sets[n/2])})
	r.Sample(map[string]any{"helpers_universe": len(vsets), "example": show(vsets[len(vsets)-1])})
	r.Assumptions = []string{
		"operands are sorted by denomination with at most one entry per denomination (the documented invariant of Add/Sub); zero and negative entries are legal operands of the Unsafe variants and included",
		"comparison helpers are judged on valid (zero-free, positive) sets only; their empty-set conventions are the ones pinned by the repository's own tests; Coins.IsEqual may panic on equal-length sets with different denominations (pinned by TestEqualCoins)",
		"writes into an operand's spare capacity beyond len are recorded as an observation, not judged",
		"oracle: map[denom]*big.Int model",
	}
	r.Finish("all 729^2 ordered pairs (+729 aliased A,A pairs) of coin sets over 3 denoms x {absent, 1,2,0,-1,-2,Max-1,Max,MinInt64} x {Add,AddUnsafe,Sub,SubUnsafe}; all pairs of valid sets x 8 comparison helpers; AmountOf on all sets; single-coin ops over all amount pairs; ParseCoins(String()) for every valid set over two denom alphabets; distinct = operand pairs + parsed strings",
		true, map[string]any{"sets": n, "valid_sets": nv, "arith_ops": 4, "helpers": 9})
}
