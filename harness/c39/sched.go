// C39, schedule-enumeration phase: concurrent AddPart / readers on one PartSet under the controlled scheduler.
//
// part_set.go is built with its "sync" import rewritten to the verifsync shim (overlay; repo untouched), so every
// ps.mtx.Lock() of AddPart / GetPart / BitArray is a scheduling point of a cooperative scheduler.  Scenarios are
// GENERATED, not hand-picked: part count n in {2,3}; pre-filled indices (so that thread operations are duplicates);
// 2 threads with every program of 1-2 operations, 3 threads with every 1-operation program (thorough: more), the
// operation alphabet being AddPart(good part i), AddPart(byte-flipped struct copy of the accepted part i), observe
// (GetPart(every index) + BitArray()); thread symmetry is reduced (multisets of programs); when two operations offer
// the same index the scenario also exists in a "shared" flavour (the very same *Part pointer instead of own copies).
// For every scenario ALL schedules with <= bound preemptions are executed (CHESS iterative context bounding) and
// after every complete execution:
//
//	S1 no panic, no deadlock, every thread terminates
//	S2 a good part never returns an error; among all AddPart(good i) (incl. the pre-fill) exactly one reports
//	   added=true; one that reports "not added" overlaps or follows an operation that offered the same index
//	S3 a corrupted part is never added; it returns ErrPartSetInvalidProof, or nil only if the index was offered
//	   (duplicate short cut) before the call returned
//	S4 an observer sees at index i only nil or a good part i with the original bytes, never before it was offered,
//	   and never misses a part whose AddPart had returned added=true before the observation started (same for bits)
//	S5 final state == model: Count() == number of distinct indices offered, bit array, stored bytes, IsComplete() iff
//	   all indices present; the stored part is the one whose AddPart reported added=true; a complete set reads back
//	   the original bytes (several buffer sizes), an incomplete one refuses GetReader().
//
// The same scenario bodies also run free (real goroutines, real sync) in a separate -race build.
package main

import (
	"bytes"
	"crypto/sha256"
	"encoding/hex"
	"encoding/json"
	"fmt"
	"io"
	"os"
	"os/exec"
	"runtime"
	"sort"
	"strings"
	"sync"
	"sync/atomic"
	"time"

	"github.com/gnolang/gno/tm2/pkg/bft/types"
	vs "github.com/gnolang/gno/tm2/pkg/verifsync"
	"verif/engine/vk"
)

const schedHorizon = 300

type sop struct {
	Kind string `json:"k"` // g = AddPart(good part Idx) | b = AddPart(corrupted copy of accepted part Idx) | o = observe
	Idx  int    `json:"i"`
}

func (o sop) String() string {
	if o.Kind == "o" {
		return "obs"
	}
	return fmt.Sprintf("%s%d", o.Kind, o.Idx)
}

type sscen struct {
	Total  int     `json:"n"`
	Pre    []int   `json:"pre"`
	Progs  [][]sop `json:"progs"`
	Shared bool    `json:"shared"`
}

func (sc *sscen) name() string {
	var ts []string
	for t, p := range sc.Progs {
		var ops []string
		for _, o := range p {
			ops = append(ops, o.String())
		}
		ts = append(ts, fmt.Sprintf("T%d=[%s]", t, strings.Join(ops, ",")))
	}
	sh := ""
	if sc.Shared {
		sh = " shared-pointers"
	}
	return fmt.Sprintf("n=%d pre=%v%s %s", sc.Total, sc.Pre, sh, strings.Join(ts, " "))
}

func (sc *sscen) size() int {
	n := 0
	for _, p := range sc.Progs {
		n += len(p)
	}
	return n
}

// genScenarios: the generated scenario family, smallest first (so that the first reported violation is minimal).
func genScenarios(thorough bool) []sscen {
	var out []sscen
	for _, n := range []int{2, 3} {
		var alpha []sop
		for i := 0; i < n; i++ {
			alpha = append(alpha, sop{"g", i})
		}
		for i := 0; i < n; i++ {
			alpha = append(alpha, sop{"b", i})
		}
		alpha = append(alpha, sop{"o", 0})
		var p1, p2 [][]sop // programs of length 1 / of length <= 2
		for _, a := range alpha {
			p1 = append(p1, []sop{a})
		}
		p2 = append(p2, p1...)
		for _, a := range alpha {
			for _, b := range alpha {
				p2 = append(p2, []sop{a, b})
			}
		}
		pres := [][]int{{}, {0}}
		if thorough {
			all := []int{}
			for i := 0; i < n; i++ {
				all = append(all, i)
			}
			pres = append(pres, []int{n - 1}, all)
		}
		emit := func(pre []int, progs ...[]sop) {
			nAdd := 0
			offered := map[int]int{}
			for _, p := range progs {
				for _, o := range p {
					if o.Kind != "o" {
						nAdd++
					}
					if o.Kind == "g" {
						offered[o.Idx]++
					}
				}
			}
			if nAdd == 0 {
				return // observers only: nothing concurrent with them
			}
			for _, i := range pre {
				offered[i]++
			}
			sc := sscen{Total: n, Pre: pre, Progs: progs}
			out = append(out, sc)
			for _, c := range offered {
				if c >= 2 {
					sc.Shared = true
					out = append(out, sc)
					break
				}
			}
		}
		for _, pre := range pres {
			// 2 threads: every multiset of two programs of length <= 2
			for a := 0; a < len(p2); a++ {
				for b := a; b < len(p2); b++ {
					emit(pre, p2[a], p2[b])
				}
			}
			// 3 threads: every multiset of three programs (length 1; thorough and n=2: length <= 2)
			p3 := p1
			if thorough && n == 2 {
				p3 = p2
			}
			for a := 0; a < len(p3); a++ {
				for b := a; b < len(p3); b++ {
					for c := b; c < len(p3); c++ {
						emit(pre, p3[a], p3[b], p3[c])
					}
				}
			}
		}
	}
	sort.SliceStable(out, func(a, b int) bool {
		x, y := &out[a], &out[b]
		if x.size() != y.size() {
			return x.size() < y.size()
		}
		if len(x.Progs) != len(y.Progs) {
			return len(x.Progs) < len(y.Progs)
		}
		return x.Total < y.Total
	})
	return out
}

var schedCases = map[int]*tcase{}

func initSchedCases() { // before any goroutine is started (free-running mode shares the map read-only)
	schedCase(2)
	schedCase(3)
}

func schedCase(n int) *tcase {
	if tc := schedCases[n]; tc != nil {
		return tc
	}
	const P = 4
	tc := mkCase(fmt.Sprintf("sched,n=%d", n), P, mkData("distinct", P*(n-1)+2)) // short last part; every good part accepted once (mkCase)
	for i, res := range tc.accRes {
		if res != "" {
			fmt.Printf("HARNESS-ERROR: schedule phase: good part %d not accepted sequentially: %s (the sequential phase reports this)\n", i, res)
			os.Exit(2)
		}
	}
	schedCases[n] = tc
	return tc
}

type sres struct {
	op     sop
	part   *types.Part
	added  bool
	err    error
	pan    string
	tc, tr int64
	seen   []*types.Part // observe: GetPart(i)
	bits   uint32
	basize int
}

type sworld struct {
	sc     *sscen
	tc     *tcase
	ps     *types.PartSet
	clock  atomic.Int64
	res    [][]sres
	preBad string
	pre    map[int]*types.Part
}

func newSWorld(sc *sscen) *sworld {
	tc := schedCase(sc.Total)
	w := &sworld{sc: sc, tc: tc, ps: types.NewPartSetFromHeader(tc.header), pre: map[int]*types.Part{}}
	shared := map[int]*types.Part{}
	goodFor := func(i int) *types.Part {
		if !sc.Shared {
			return clonePart(tc.good[i]) // every "peer" sends its own copy
		}
		if shared[i] == nil {
			shared[i] = clonePart(tc.good[i])
		}
		return shared[i]
	}
	for _, i := range sc.Pre {
		p := goodFor(i)
		w.pre[i] = p
		if added, err := w.ps.AddPart(p); !added || err != nil {
			w.preBad = fmt.Sprintf("pre-fill of part %d: added=%v err=%v", i, added, err)
		}
	}
	w.res = make([][]sres, len(sc.Progs))
	for t, prog := range sc.Progs {
		w.res[t] = make([]sres, len(prog))
		for k, o := range prog {
			r := &w.res[t][k]
			r.op = o
			switch o.Kind {
			case "g":
				r.part = goodFor(o.Idx)
			case "b":
				q := structCopy(tc.good[o.Idx]) // copy of a part value that has been accepted (tc.accSet)
				q.Bytes[0] ^= 0x01
				r.part = q
			}
		}
	}
	return w
}

func (w *sworld) runProg(t int) {
	for k := range w.res[t] {
		r := &w.res[t][k]
		r.tc = w.clock.Add(1)
		rec := vk.Catch(func() {
			switch r.op.Kind {
			case "g", "b":
				r.added, r.err = w.ps.AddPart(r.part)
			case "o":
				r.seen = make([]*types.Part, w.tc.total)
				for i := 0; i < w.tc.total; i++ {
					r.seen[i] = w.ps.GetPart(i)
				}
				ba := w.ps.BitArray()
				r.basize = ba.Size()
				for i := 0; i < w.tc.total; i++ {
					if ba.GetIndex(i) {
						r.bits |= 1 << uint(i)
					}
				}
			}
		})
		if rec != nil {
			r.pan = fmt.Sprint(rec)
		}
		r.tr = w.clock.Add(1)
	}
}

func (w *sworld) obsVector() string {
	var sb []string
	for t := range w.res {
		for _, r := range w.res[t] {
			switch {
			case r.pan != "":
				sb = append(sb, fmt.Sprintf("T%d.%s=panic", t, r.op))
			case r.op.Kind == "o":
				var m uint32
				for i, p := range r.seen {
					if p != nil {
						m |= 1 << uint(i)
					}
				}
				sb = append(sb, fmt.Sprintf("T%d.obs=parts:%b,bits:%b", t, m, r.bits))
			case r.err != nil:
				sb = append(sb, fmt.Sprintf("T%d.%s=err", t, r.op))
			case r.added:
				sb = append(sb, fmt.Sprintf("T%d.%s=added", t, r.op))
			default:
				sb = append(sb, fmt.Sprintf("T%d.%s=dup", t, r.op))
			}
		}
	}
	return strings.Join(sb, " ")
}

// check is the oracle applied after one complete execution (x == nil: free-running execution).
func (w *sworld) check(x *vs.Exec) (string, string) {
	if w.preBad != "" {
		return "prefill-rejected", w.preBad
	}
	if x != nil {
		if len(x.Panics) > 0 {
			var ks []string
			for k, v := range x.Panics {
				ks = append(ks, k+": "+firstLine(fmt.Sprint(v)))
			}
			sort.Strings(ks)
			return "panic", strings.Join(ks, "; ")
		}
		if x.Horizon {
			return "no-termination", "execution exceeded the scheduling-point horizon; blocked=" + strings.Join(x.Blocked, ",")
		}
		if x.Deadlock {
			return "deadlock", "threads blocked forever: " + strings.Join(x.Blocked, ",")
		}
	}
	tc := w.tc
	type ref struct {
		t, k int
		r    *sres
	}
	goodOps := map[int][]ref{}
	var all []ref
	for t := range w.res {
		for k := range w.res[t] {
			r := &w.res[t][k]
			all = append(all, ref{t, k, r})
			if r.op.Kind == "g" {
				goodOps[r.op.Idx] = append(goodOps[r.op.Idx], ref{t, k, r})
			}
			if r.pan != "" {
				return "operation-panicked", fmt.Sprintf("T%d op %s panicked: %s", t, r.op, firstLine(r.pan))
			}
		}
	}
	// offeredBefore: had some AddPart(good i) been invoked before time `t` (or was i pre-filled)?
	offeredBefore := func(i int, t int64, except *sres) bool {
		if _, ok := w.pre[i]; ok {
			return true
		}
		for _, g := range goodOps[i] {
			if g.r != except && g.r.tc < t {
				return true
			}
		}
		return false
	}
	present := map[int]bool{}
	winner := map[int]*types.Part{}
	for i, p := range w.pre {
		present[i] = true
		winner[i] = p
	}
	// S2
	for i := 0; i < tc.total; i++ {
		n := 0
		if _, ok := w.pre[i]; ok {
			n++
		}
		for _, g := range goodOps[i] {
			present[i] = true
			if g.r.err != nil {
				return "good-part-error", fmt.Sprintf("T%d AddPart(good part %d) returned error %v", g.t, i, g.r.err)
			}
			if g.r.added {
				n++
				winner[i] = g.r.part
			} else if !offeredBefore(i, g.r.tr, g.r) {
				return "duplicate-reported-for-absent-part", fmt.Sprintf("T%d AddPart(good part %d) reported not-added although nobody had offered index %d before it returned", g.t, i, i)
			}
		}
		if present[i] && n != 1 {
			return "added-reported-not-exactly-once", fmt.Sprintf("index %d: added=true reported %d times over %d AddPart(good part %d) calls (pre-filled: %v); Count()=%d", i, n, len(goodOps[i]), i, w.pre[i] != nil, w.ps.Count())
		}
	}
	// S3
	for _, a := range all {
		r := a.r
		if r.op.Kind != "b" {
			continue
		}
		switch {
		case r.added:
			return "mismatching-part-accepted", fmt.Sprintf("T%d AddPart(corrupted copy of accepted part %d) reported added=true (err=%v)", a.t, r.op.Idx, r.err)
		case r.err == nil:
			if !offeredBefore(r.op.Idx, r.tr, nil) {
				return "mismatching-part-no-error", fmt.Sprintf("T%d AddPart(corrupted part %d) returned (false,nil) although index %d had not been offered", a.t, r.op.Idx, r.op.Idx)
			}
		case r.err != types.ErrPartSetInvalidProof:
			return "unexpected-error-kind", fmt.Sprintf("T%d AddPart(corrupted part %d): %v", a.t, r.op.Idx, r.err)
		}
	}
	// S4
	for _, a := range all {
		r := a.r
		if r.op.Kind != "o" {
			continue
		}
		if r.basize != tc.total {
			return "observer-bitarray-size", fmt.Sprintf("T%d BitArray size %d", a.t, r.basize)
		}
		for i := 0; i < tc.total; i++ {
			p := r.seen[i]
			bit := r.bits&(1<<uint(i)) != 0
			if p != nil {
				if p.Index != i || !bytes.Equal(p.Bytes, tc.chunk[i]) {
					return "observer-saw-foreign-part", fmt.Sprintf("T%d GetPart(%d) returned index=%d bytes=%x, want %x", a.t, i, p.Index, p.Bytes, tc.chunk[i])
				}
			}
			if (p != nil || bit) && !offeredBefore(i, r.tr, nil) {
				return "observer-saw-part-never-offered", fmt.Sprintf("T%d saw index %d (part=%v bit=%v) before anybody offered it", a.t, i, p != nil, bit)
			}
			must := w.pre[i] != nil
			for _, g := range goodOps[i] {
				if g.r.added && g.r.tr < r.tc {
					must = true
				}
			}
			if must && (p == nil || !bit) {
				return "observer-missed-added-part", fmt.Sprintf("T%d did not see index %d (part=%v bit=%v) although its AddPart had returned added=true before", a.t, i, p != nil, bit)
			}
		}
	}
	// S5
	m := &model{have: map[int][]byte{}}
	for i := range present {
		m.have[i] = tc.chunk[i]
	}
	var final snap
	if rec := vk.Catch(func() { final = observe(w.ps, tc.total) }); rec != nil {
		return "final-observation-panicked", fmt.Sprint(rec)
	}
	if d := m.diff(tc, final); d != "" {
		return "final-state-differs-from-model", fmt.Sprintf("%d distinct indices offered %v; %s", len(present), keys(present), d)
	}
	for _, i := range keys(present) {
		if final.parts[i] != winner[i] {
			return "stored-part-is-not-the-added-one", fmt.Sprintf("index %d", i)
		}
	}
	if len(present) == tc.total {
		for _, bs := range []int{0, 1, 3} {
			var got []byte
			var err error
			rec := vk.Catch(func() {
				rd := w.ps.GetReader()
				if bs == 0 {
					got, err = io.ReadAll(rd)
					return
				}
				buf := make([]byte, bs)
				for g := 0; g < 10*len(tc.data)+100; g++ {
					var n int
					n, err = rd.Read(buf)
					got = append(got, buf[:n]...)
					if err != nil {
						break
					}
				}
				if err == io.EOF {
					err = nil
				}
			})
			if rec != nil || err != nil || !bytes.Equal(got, tc.data) {
				return "read-back-differs", fmt.Sprintf("buf=%d panic=%v err=%v got=%x want=%x", bs, rec, err, got, tc.data)
			}
		}
	} else if rec := vk.Catch(func() { w.ps.GetReader() }); rec == nil {
		return "reader-on-incomplete-set", "GetReader did not refuse an incomplete set"
	}
	return "", ""
}

func keys(m map[int]bool) []int {
	var ks []int
	for k := range m {
		ks = append(ks, k)
	}
	sort.Ints(ks)
	return ks
}

func firstLine(s string) string {
	if i := strings.IndexByte(s, '\n'); i >= 0 {
		return s[:i]
	}
	return s
}

func tail(s string, n int) string {
	if len(s) > n {
		return s[len(s)-n:]
	}
	return s
}

// ---- worker: explores a slice of the scenario list ------------------------------------------------

type sviol struct {
	Scenario string   `json:"scenario"`
	Spec     sscen    `json:"scenario_spec"`
	Class    string   `json:"class"`
	Detail   string   `json:"detail"`
	Schedule []int    `json:"schedule"`
	Trace    []string `json:"trace"`
	Results  string   `json:"results"`
	Stable   bool     `json:"stable"`
}

type wresult struct {
	Scenarios   int            `json:"scenarios"`
	Execs       int            `json:"execs"`
	ExecsByT    map[string]int `json:"execs_by_threads"`
	MaxPoints   int            `json:"max_points"`
	MaxExecs    int            `json:"max_execs_one_scenario"`
	Preempted   int            `json:"execs_with_preemption"`
	Capped      bool           `json:"capped"`
	Distinct    []string       `json:"distinct"`
	Outcomes    map[string]int `json:"outcomes"`
	Violations  []sviol        `json:"violations"`
	Err         string         `json:"err,omitempty"`
	SampleName  string         `json:"sample_name"`
	SampleTrace []string       `json:"sample_trace"`
}

func exploreScenario(sc *sscen, bound int, stop func() bool, res *wresult) {
	var w *sworld
	body := func() {
		w = newSWorld(sc)
		for t := range sc.Progs {
			t := t
			vs.Go(fmt.Sprintf("T%d", t), func() { w.runProg(t) })
		}
	}
	name := sc.name()
	seenV := map[string]bool{}
	seenO := map[string]bool{}
	ex := &vs.Explorer{Bound: bound, Horizon: schedHorizon, Stop: stop}
	ex.Check = func(x *vs.Exec) bool {
		class, detail := w.check(x)
		ov := w.obsVector()
		if !seenO[ov] {
			seenO[ov] = true
			h := sha256.Sum256([]byte(name + "|" + ov))
			res.Distinct = append(res.Distinct, hex.EncodeToString(h[:8]))
		}
		for k := range x.Points {
			if x.Points[k].RunningStillEnabled && x.Points[k].Chosen != 0 {
				res.Preempted++
				break
			}
		}
		for t := range w.res {
			for _, r := range w.res[t] {
				switch {
				case r.op.Kind == "o":
					res.Outcomes["observe"]++
				case r.added:
					res.Outcomes["AddPart("+r.op.Kind+"):added"]++
				case r.err != nil:
					res.Outcomes["AddPart("+r.op.Kind+"):error"]++
				default:
					res.Outcomes["AddPart("+r.op.Kind+"):not-added-no-error"]++
				}
			}
		}
		if class != "" && !seenV[class] {
			seenV[class] = true
			v := sviol{Scenario: name, Spec: *sc, Class: class, Detail: detail, Schedule: append([]int{}, x.Choices...), Results: ov, Stable: true}
			for k := 0; k < 3; k++ { // the same schedule must fail identically
				x2, err := vs.Replay(v.Schedule, schedHorizon, body)
				c2 := ""
				if err == nil {
					c2, _ = w.check(x2)
					v.Trace = x2.Trace
				}
				if err != nil || c2 != class {
					v.Stable = false
				}
			}
			res.Violations = append(res.Violations, v)
		}
		return true
	}
	if err := ex.Explore(body); err != nil && res.Err == "" {
		res.Err = name + ": " + err.Error()
	}
	res.Scenarios++
	res.Execs += ex.Execs
	res.ExecsByT[fmt.Sprintf("threads=%d", len(sc.Progs))] += ex.Execs
	if ex.MaxPoints > res.MaxPoints {
		res.MaxPoints = ex.MaxPoints
	}
	if ex.Execs > res.MaxExecs {
		res.MaxExecs = ex.Execs
		res.SampleName = name
	}
	if ex.Capped {
		res.Capped = true
	}
	if ex.HorizonHit > 0 && res.Err == "" && len(res.Violations) == 0 {
		res.Err = name + ": horizon hit without a reported violation"
	}
}

func schedWorker(spec string, thorough bool) {
	var k, n, bound, budget int
	fmt.Sscanf(spec, "%d:%d:%d:%d", &k, &n, &bound, &budget)
	initSchedCases()
	scs := genScenarios(thorough)
	res := wresult{ExecsByT: map[string]int{}, Outcomes: map[string]int{}}
	start := time.Now()
	stop := func() bool { return time.Since(start) > time.Duration(budget)*time.Second }
	for i := k; i < len(scs); i += n {
		if stop() {
			res.Capped = true
			break
		}
		exploreScenario(&scs[i], bound, stop, &res)
	}
	if res.SampleName != "" {
		for i := range scs {
			if scs[i].name() == res.SampleName {
				var w *sworld
				x, _ := vs.Replay(nil, schedHorizon, func() {
					w = newSWorld(&scs[i])
					for t := range scs[i].Progs {
						t := t
						vs.Go(fmt.Sprintf("T%d", t), func() { w.runProg(t) })
					}
				})
				res.SampleTrace = x.Trace
			}
		}
	}
	b, _ := json.Marshal(res)
	fmt.Println("RESULT " + string(b))
}

// ---- free-running pass (the -race build of this harness) -------------------------------------------

func freeRun(iters int, thorough bool) {
	initSchedCases()
	scs := genScenarios(thorough)
	var mu sync.Mutex
	reported := map[string]bool{}
	var next, progress atomic.Int64
	var current sync.Map
	go func() { // watchdog: some execution must finish every 30 s
		last := int64(-1)
		for {
			time.Sleep(30 * time.Second)
			p := progress.Load()
			if p == last {
				current.Range(func(k, v any) bool { fmt.Printf("FREERUN-STUCK scenario=%s\n", v); return true })
				os.Exit(3)
			}
			last = p
		}
	}()
	var wg sync.WaitGroup
	for g := 0; g < 4; g++ {
		g := g
		wg.Add(1)
		go func() {
			defer wg.Done()
			for {
				i := int(next.Add(1) - 1)
				if i >= len(scs) {
					current.Delete(g)
					return
				}
				sc := &scs[i]
				current.Store(g, sc.name())
				for it := 0; it < iters; it++ {
					w := newSWorld(sc)
					start := make(chan struct{})
					var tw sync.WaitGroup
					for t := range sc.Progs {
						t := t
						tw.Add(1)
						go func() { defer tw.Done(); <-start; w.runProg(t) }()
					}
					close(start)
					tw.Wait()
					progress.Add(1)
					if c, d := w.check(nil); c != "" {
						mu.Lock()
						if !reported[c] {
							reported[c] = true
							fmt.Printf("FREERUN-ORACLE class=%s scenario=%q results=%q %s\n", c, sc.name(), w.obsVector(), d)
						}
						mu.Unlock()
					}
				}
			}
		}()
	}
	wg.Wait()
	fmt.Printf("FREERUN-OK scenarios=%d iterations=%d\n", len(scs), iters)
}

// ---- main-process side ----------------------------------------------------------------------------

func raceKey(s string) string {
	i := strings.Index(s, "DATA RACE")
	for _, l := range strings.Split(s[i:], "\n") {
		l = strings.TrimSpace(l)
		if strings.HasPrefix(l, "github.com/gnolang/gno") {
			return l
		}
	}
	return "unknown"
}

// schedulePhase runs the exploration and the race pass; the returned function reports their violations (called by main
// after the sequential phase so that the 20 violations vk prints are not all taken by one phase).
func schedulePhase(r *vk.Run, raceBin string, workerBudget time.Duration) (map[string]any, func()) {
	var deferred []func()
	report := func(key string, detail any) { deferred = append(deferred, func() { r.Violation(key, detail) }) }
	bound := 2
	nw := 8
	if r.Thorough() {
		bound = 3
		nw = runtime.GOMAXPROCS(0)
	}
	budget := int(workerBudget.Seconds())
	if budget < 10 {
		budget = 10
	}
	nScen := len(genScenarios(r.Thorough()))
	tSched := time.Now()
	results := make([]wresult, nw)
	r.ParFor(nw, func(k int) {
		cmd := exec.Command(os.Args[0], "-id", r.ID, "-tier", r.Tier, "-worker", fmt.Sprintf("%d:%d:%d:%d", k, nw, bound, budget))
		cmd.Env = append(os.Environ(), "GOMAXPROCS=1")
		out, err := cmd.CombinedOutput()
		ok := false
		for _, line := range strings.Split(string(out), "\n") {
			if strings.HasPrefix(line, "RESULT ") {
				ok = json.Unmarshal([]byte(line[7:]), &results[k]) == nil
			}
		}
		if !ok {
			results[k] = wresult{Err: fmt.Sprintf("worker %d failed: %v: %s", k, err, tail(string(out), 1200))}
		}
	})
	tot := wresult{ExecsByT: map[string]int{}, Outcomes: map[string]int{}}
	var viols []sviol
	for k := range results {
		wr := &results[k]
		if wr.Err != "" {
			r.HarnessError("schedule phase: %s", wr.Err)
		}
		tot.Scenarios += wr.Scenarios
		tot.Execs += wr.Execs
		tot.Preempted += wr.Preempted
		for t, n := range wr.ExecsByT {
			tot.ExecsByT[t] += n
		}
		for o, n := range wr.Outcomes {
			tot.Outcomes[o] += n
		}
		if wr.MaxPoints > tot.MaxPoints {
			tot.MaxPoints = wr.MaxPoints
		}
		if wr.MaxExecs > tot.MaxExecs {
			tot.MaxExecs = wr.MaxExecs
			tot.SampleName, tot.SampleTrace = wr.SampleName, wr.SampleTrace
		}
		if wr.Capped {
			r.MarkCapped()
			tot.Capped = true
		}
		for _, h := range wr.Distinct {
			r.Distinct("sched|" + h)
		}
		viols = append(viols, wr.Violations...)
	}
	if !tot.Capped && tot.Scenarios != nScen {
		r.HarnessError("schedule phase: %d of %d scenarios explored", tot.Scenarios, nScen)
	}
	r.EvalN(int64(tot.Execs))
	for o, n := range tot.Outcomes {
		r.OutcomeN("sched:"+o, int64(n))
	}
	// smallest scenario first
	sort.SliceStable(viols, func(a, b int) bool {
		x, y := &viols[a], &viols[b]
		if x.Spec.size() != y.Spec.size() {
			return x.Spec.size() < y.Spec.size()
		}
		if len(x.Schedule) != len(y.Schedule) {
			return len(x.Schedule) < len(y.Schedule)
		}
		return x.Scenario < y.Scenario
	})
	perClass := map[string]int{}
	for _, v := range viols {
		perClass[v.Class]++
	}
	shown := map[string]int{}
	for _, v := range viols {
		if !v.Stable {
			r.HarnessError("unstable schedule violation (same schedule did not fail 3x): %s %s", v.Scenario, v.Class)
		}
		if shown[v.Class]++; shown[v.Class] > 4 {
			continue // the 4 smallest scenarios per class are reported; the count of the others is in the detail
		}
		report(fmt.Sprintf("sched[%s]:%s", v.Scenario, v.Class), map[string]any{"violation": v, "scenario_spec": v.Spec, "schedule": v.Schedule,
			"scenarios_violating_with_this_class": perClass[v.Class]})
	}
	if tot.SampleName != "" {
		r.Sample(map[string]any{"schedule_scenario": tot.SampleName, "schedules_explored": tot.MaxExecs, "default_schedule_trace": tot.SampleTrace})
	}
	schedWall := time.Since(tSched).Seconds()
	tRace := time.Now()
	raceNote := "race pass not run (no -race binary)"
	if raceBin != "" {
		iters := "5"
		if r.Thorough() {
			iters = "10"
		}
		cmd := exec.Command(raceBin, "-id", r.ID, "-tier", r.Tier, "-freerun", iters)
		out, err := cmd.CombinedOutput()
		s := string(out)
		switch {
		case strings.Contains(s, "DATA RACE"):
			report("data-race:"+raceKey(s), map[string]any{"output": tail(s, 6000)})
			raceNote = "DATA RACE reported"
		case strings.Contains(s, "FREERUN-STUCK"):
			report("freerun:stuck", map[string]any{"output": tail(s, 4000)})
			raceNote = "free-running execution did not terminate"
		case strings.Contains(s, "FREERUN-ORACLE"):
			for _, l := range strings.Split(s, "\n") {
				if strings.HasPrefix(l, "FREERUN-ORACLE class=") {
					c := strings.Fields(l[len("FREERUN-ORACLE class="):])[0]
					report("freerun:"+c, map[string]any{"line": l})
				}
			}
			raceNote = "free-running oracle failure"
		case err != nil || !strings.Contains(s, "FREERUN-OK"):
			r.HarnessError("race pass failed: %v %s", err, tail(s, 800))
		default:
			raceNote = "free-running -race pass of the same scenarios (" + iters + " iterations each): no race, oracle held"
		}
	}
	return map[string]any{
			"schedule_scenarios": tot.Scenarios, "schedules": tot.Execs, "schedules_with_preemption": tot.Preempted,
			"schedules_by_threads": tot.ExecsByT, "preemption_bound": bound, "max_scheduling_points": tot.MaxPoints,
			"max_schedules_one_scenario": tot.MaxExecs, "race_pass": raceNote,
			"phase_wall_s": map[string]float64{"schedules": schedWall, "race_pass": time.Since(tRace).Seconds()},
		}, func() {
			for _, f := range deferred {
				f()
			}
		}
}

func replaySched(r *vk.Run) {
	b, err := os.ReadFile(r.ReplayIn)
	if err != nil {
		r.HarnessError("%v", err)
	}
	var f struct {
		Key    string `json:"key"`
		Detail struct {
			Spec     sscen `json:"scenario_spec"`
			Schedule []int `json:"schedule"`
		} `json:"detail"`
	}
	json.Unmarshal(b, &f)
	if len(f.Detail.Spec.Progs) == 0 {
		fmt.Printf("replay %s: recorded by the sequential enumeration, which is deterministic and exhaustive; re-running the quick tier re-reports the recorded key if it still occurs\n  key: %s\n", r.ReplayIn, f.Key)
		os.Exit(0)
	}
	sc := f.Detail.Spec
	initSchedCases()
	var w *sworld
	x, err := vs.Replay(f.Detail.Schedule, schedHorizon, func() {
		w = newSWorld(&sc)
		for t := range sc.Progs {
			t := t
			vs.Go(fmt.Sprintf("T%d", t), func() { w.runProg(t) })
		}
	})
	if err != nil {
		r.HarnessError("%v", err)
	}
	c, d := w.check(x)
	fmt.Printf("scenario %s\ntrace:\n  %s\nresults: %s\nverdict: class=%q %s\n", sc.name(), strings.Join(x.Trace, "\n  "), w.obsVector(), c, d)
	if c != "" {
		fmt.Printf("VIOLATION property=%s replay=%s\n", r.ID, r.ReplayIn)
		os.Exit(1)
	}
	os.Exit(0)
}
