// C39: block part sets reassemble exactly the proposed block.
//
// Exhaustive small scope on the REAL types.PartSet / merkle.SimpleProof:
//   - every data length 1..maxParts*P+? for part sizes P in {1,2,3,16} (thorough: more), two byte patterns
//     (one forcing identical chunks => identical leaf hashes, the adversarial case for index confusion);
//   - every arrival sequence of good parts with duplicates up to length total+1 (=> every permutation, every duplication);
//   - at every reachable subset state, every member of a corrupted-part catalogue (flipped byte at every position,
//     truncated/extended bytes, foreign proof, foreign bytes, index/total rewrites, leaf-hash/aunt corruption,
//     out-of-range indices, parts of a different set with the same / another total).  Every catalogue member is
//     derived in THREE ways: from a freshly built part (as decoded from the network), from a struct copy of a part
//     VALUE that has already been accepted by a set (copy carries whatever hidden state the struct has), and by
//     mutating in place a part value that has already been accepted by another set with the same header.  Because
//     the sets of the arrival enumeration hold those very accepted values, each candidate meets both "the set that
//     accepted its origin" (index present) and "a fresh set with the same header" (index absent).
//   - schedule enumeration (sched.go): 2-3 threads, each 1-2 operations out of {AddPart(good i), AddPart(corrupted
//     copy of accepted i), observe} on a 2-3 part set (optionally pre-filled => duplicates), part_set.go built with
//     its "sync" import rewritten to the controlled scheduler: ALL schedules with <= 2 preemptions, oracle after
//     every execution; plus a free-running pass of the same scenarios under the race detector.
//
// Oracle: an independent re-implementation of the RFC-6962 style merkle tree (sha256, 0x00/0x01 prefixes, split at the
// largest power of two < n) decides whether a part "matches the part-set header"; the model of the set is a map
// index->bytes.  AddPart must return (true,nil) exactly for matching new parts, (false,nil) for duplicates, an error
// for everything else, and the observable state (count, bit array, stored bytes, header, completeness, reader output
// through several buffer sizes) must equal the model after every step.  Any accepted part must carry the original
// chunk bytes (content ground truth, independent of any merkle code).
package main

import (
	"bytes"
	"crypto/sha256"
	"flag"
	"fmt"
	"io"
	"math"
	"os"
	"runtime/pprof"
	"sort"
	"sync/atomic"
	"time"

	"github.com/gnolang/gno/tm2/pkg/amino"
	"github.com/gnolang/gno/tm2/pkg/bft/types"
	"github.com/gnolang/gno/tm2/pkg/crypto/merkle"
	"verif/engine/vk"
)

var r *vk.Run

var (
	nStates      atomic.Int64 // distinct (case, subset) states whose full catalogue was applied
	nTransitions atomic.Int64 // AddPart calls checked against the model
	nSeq         atomic.Int64 // arrival sequences (DFS nodes)
	nCases       atomic.Int64

	nScratchRejected atomic.Int64 // good parts rejected by a scratch set while deriving acc-inplace candidates
)

// ---------- reference merkle (independent of tm2/pkg/crypto/merkle) ----------

func refLeaf(b []byte) []byte {
	h := sha256.New()
	h.Write([]byte{0})
	h.Write(b)
	return h.Sum(nil)
}

func refInner(l, rr []byte) []byte {
	h := sha256.New()
	h.Write([]byte{1})
	h.Write(l)
	h.Write(rr)
	return h.Sum(nil)
}

func refSplit(n int) int { // largest power of two strictly less than n (n>=2)
	k := 1
	for k*2 < n {
		k *= 2
	}
	return k
}

func refRoot(items [][]byte) []byte {
	switch len(items) {
	case 0:
		return nil
	case 1:
		return refLeaf(items[0])
	}
	k := refSplit(len(items))
	return refInner(refRoot(items[:k]), refRoot(items[k:]))
}

// refPathRoot recomputes the root from a leaf hash and its audit path (aunts ordered leaf->root).
// Top-down formulation: determine the left/right turns from (index,total), then fold bottom-up.
func refPathRoot(index, total int, leaf []byte, aunts [][]byte) []byte {
	if total <= 0 || index < 0 || index >= total {
		return nil
	}
	var turns []bool // true = we are the right child at this level (top-down)
	lo, n := 0, total
	for n > 1 {
		k := refSplit(n)
		if index-lo < k {
			turns = append(turns, false)
			n = k
		} else {
			turns = append(turns, true)
			lo += k
			n -= k
		}
	}
	if len(turns) != len(aunts) {
		return nil
	}
	h := leaf
	for lvl := 0; lvl < len(aunts); lvl++ {
		right := turns[len(turns)-1-lvl]
		if right {
			h = refInner(aunts[lvl], h)
		} else {
			h = refInner(h, aunts[lvl])
		}
	}
	return h
}

// refMatches: does the part match header (total, root) according to the reference?
func refMatches(p *types.Part, total int, root []byte) bool {
	if p.Index < 0 || p.Index >= total {
		return false
	}
	if p.Proof.Index != p.Index || p.Proof.Total != total {
		return false
	}
	lh := refLeaf(p.Bytes)
	if !bytes.Equal(lh, p.Proof.LeafHash) {
		return false
	}
	got := refPathRoot(p.Index, total, lh, p.Proof.Aunts)
	return got != nil && bytes.Equal(got, root)
}

// ---------- helpers ----------

func clonePart(p *types.Part) *types.Part {
	q := &types.Part{Index: p.Index, Bytes: append([]byte(nil), p.Bytes...)}
	q.Proof = merkle.SimpleProof{Total: p.Proof.Total, Index: p.Proof.Index, LeafHash: append([]byte(nil), p.Proof.LeafHash...)}
	if p.Proof.Aunts != nil {
		q.Proof.Aunts = make([][]byte, len(p.Proof.Aunts))
		for i, a := range p.Proof.Aunts {
			q.Proof.Aunts[i] = append([]byte(nil), a...)
		}
	}
	return q
}

// structCopy copies the Part VALUE (so it carries along whatever unexported / cached state the struct may hold) and
// then gives the copy private slices, so that mutating the copy never touches the origin.
func structCopy(p *types.Part) *types.Part {
	q := *p
	q.Bytes = append([]byte(nil), p.Bytes...)
	q.Proof.LeafHash = append([]byte(nil), p.Proof.LeafHash...)
	if p.Proof.Aunts != nil {
		q.Proof.Aunts = make([][]byte, len(p.Proof.Aunts))
		for i, a := range p.Proof.Aunts {
			q.Proof.Aunts[i] = append([]byte(nil), a...)
		}
	}
	return &q
}

// How a catalogue candidate is derived from good part i of a case.
type deriv int

const (
	dFresh           deriv = iota // field-wise rebuilt part: never seen by any AddPart (network input)
	dAcceptedCopy                 // struct copy of a part value that was accepted by a set (tc.accSet and the enumeration's sets)
	dAcceptedInPlace              // its own part value, accepted by a scratch set with the same header, then mutated in place
)

var derivs = []deriv{dFresh, dAcceptedCopy, dAcceptedInPlace}

func (d deriv) prefix() string {
	switch d {
	case dAcceptedCopy:
		return "acc-copy:"
	case dAcceptedInPlace:
		return "acc-inplace:"
	}
	return ""
}

func derive(d deriv, owner *tcase, i int) *types.Part {
	switch d {
	case dAcceptedCopy:
		return structCopy(owner.good[i])
	case dAcceptedInPlace:
		o := clonePart(owner.good[i])
		scratch := types.NewPartSetFromHeader(owner.header)
		if added, err := scratch.AddPart(o); !added || err != nil {
			nScratchRejected.Add(1) // judged in main (a good part must be accepted by a fresh set)
		}
		return o
	}
	return clonePart(owner.good[i])
}

func mkData(pattern string, n int) []byte {
	d := make([]byte, n)
	for i := range d {
		switch pattern {
		case "const": // all chunks identical (except a shorter tail)
			d[i] = 0xAB
		case "mod3":
			d[i] = byte(i % 3)
		default: // "distinct"
			d[i] = byte(17*i + 5)
		}
	}
	return d
}

func chunks(data []byte, p int) [][]byte {
	var out [][]byte
	for i := 0; i < len(data); i += p {
		e := i + p
		if e > len(data) {
			e = len(data)
		}
		out = append(out, data[i:e])
	}
	return out
}

type tcase struct {
	name   string
	P      int
	data   []byte
	chunk  [][]byte
	total  int
	root   []byte
	src    *types.PartSet
	header types.PartSetHeader
	good   []*types.Part // copies of the source parts; every one has been accepted by accSet (mkCase)
	accSet *types.PartSet
	accRes []string // AddPart results of building accSet ("" = added,nil)
	hist   map[string]int64
	evals  int64
}

func (tc *tcase) outcome(c string) { tc.hist[c]++ }
func (tc *tcase) flush() {
	for k, v := range tc.hist {
		r.OutcomeN(k, v)
	}
	r.EvalN(tc.evals)
	nTransitions.Add(tc.evals)
	tc.hist, tc.evals = map[string]int64{}, 0
}

type model struct {
	have map[int][]byte
}

// snapshot of the real set's observable state (comparable); stored parts are compared by identity AND by content.
type snap struct {
	count, total, basize, hdrTotal int
	complete                       bool
	mask                           uint32
	parts                          [8]*types.Part
	content                        string
	hdrHash                        string
}

func observe(ps *types.PartSet, total int) snap {
	var s snap
	s.count, s.total, s.complete = ps.Count(), ps.Total(), ps.IsComplete()
	ba := ps.BitArray()
	s.basize = ba.Size()
	var sb []byte
	for i := 0; i < total; i++ {
		if ba.GetIndex(i) {
			s.mask |= 1 << uint(i)
		}
		p := ps.GetPart(i)
		s.parts[i] = p
		if p != nil {
			sb = append(sb, byte(p.Index), byte(p.Index>>8), byte(len(p.Bytes)))
			sb = append(sb, p.Bytes...)
		} else {
			sb = append(sb, 0xff, 0xff, 0xff)
		}
	}
	s.content = string(sb)
	h := ps.Header()
	s.hdrTotal, s.hdrHash = h.Total, string(h.Hash)
	return s
}

func (s snap) String() string {
	return fmt.Sprintf("count=%d total=%d complete=%v bits=%b basize=%d content=%x hdr=%d:%x", s.count, s.total, s.complete, s.mask, s.basize, s.content, s.hdrTotal, s.hdrHash)
}

// modelDiff returns "" when the observed state equals the model.
func (m *model) diff(tc *tcase, s snap) string {
	var mask uint32
	for i := range m.have {
		mask |= 1 << uint(i)
	}
	if s.count != len(m.have) || s.total != tc.total || s.complete != (len(m.have) == tc.total) || s.mask != mask ||
		s.basize != tc.total || s.hdrTotal != tc.total || s.hdrHash != string(tc.root) {
		return "scalar state differs: " + s.String()
	}
	for i := 0; i < tc.total; i++ {
		b, ok := m.have[i]
		p := s.parts[i]
		if ok != (p != nil) {
			return fmt.Sprintf("part %d presence differs", i)
		}
		if ok && (p.Index != i || !bytes.Equal(p.Bytes, b)) {
			return fmt.Sprintf("part %d content differs: index=%d bytes=%x want %x", i, p.Index, p.Bytes, b)
		}
	}
	return ""
}

func viol(tc *tcase, seq []int, what string, detail map[string]any) {
	if detail == nil {
		detail = map[string]any{}
	}
	detail["case"] = tc.name
	detail["part_size"] = tc.P
	detail["data_hex"] = fmt.Sprintf("%x", tc.data)
	detail["good_arrivals_before"] = seq
	r.Violation(fmt.Sprintf("%s seq=%v %s", tc.name, seq, what), detail)
}

type cand struct {
	label string
	p     *types.Part
}

// catalogue of corrupted / foreign / out-of-range parts for a case.
func catalogue(tc *tcase, other *tcase, bigger *tcase, smaller *tcase) []cand {
	var cs []cand
	for _, d := range derivs {
		cs = append(cs, catalogue1(d, tc, other, bigger, smaller)...)
	}
	return cs
}

func catalogue1(d deriv, tc *tcase, other *tcase, bigger *tcase, smaller *tcase) []cand {
	var cs []cand
	add := func(label string, p *types.Part) { cs = append(cs, cand{d.prefix() + label, p}) }
	for i := 0; i < tc.total; i++ {
		g := tc.good[i] // read only (lengths); candidates come from derive()
		i := i
		cloneG := func() *types.Part { return derive(d, tc, i) }
		for b := 0; b < len(g.Bytes); b++ {
			for _, x := range []byte{0x01, 0x80} {
				p := cloneG()
				p.Bytes[b] ^= x
				add(fmt.Sprintf("i%d:flipbyte%d^%02x", i, b, x), p)
			}
		}
		{
			p := cloneG()
			p.Bytes = p.Bytes[:len(p.Bytes)-1]
			add(fmt.Sprintf("i%d:truncbytes", i), p)
			p = cloneG()
			p.Bytes = append(p.Bytes, 0)
			add(fmt.Sprintf("i%d:extendbytes", i), p)
			p = cloneG()
			p.Bytes = nil
			add(fmt.Sprintf("i%d:nilbytes", i), p)
		}
		for j := 0; j < tc.total; j++ {
			if j == i {
				continue
			}
			o := tc.good[j] // read only
			cloneO := func() *types.Part { return derive(d, tc, j) }
			// bytes of j under i's proof
			p := cloneG()
			p.Bytes = append([]byte(nil), o.Bytes...)
			add(fmt.Sprintf("i%d:bytesOf%d", i, j), p)
			// i's bytes, j's proof untouched (Proof.Index=j)
			p = cloneG()
			p.Proof = cloneO().Proof
			add(fmt.Sprintf("i%d:proofOf%d", i, j), p)
			// i's bytes, j's proof with Proof.Index rewritten to i
			p = cloneG()
			p.Proof = cloneO().Proof
			p.Proof.Index = i
			add(fmt.Sprintf("i%d:proofOf%d-reindexed", i, j), p)
			// the whole valid part j, only Part.Index rewritten to i (the "store at wrong position" attack)
			p = cloneO()
			p.Index = i
			add(fmt.Sprintf("i%d:wholePart%d-partindex-rewritten", i, j), p)
			// whole part j with both indices rewritten
			p = cloneO()
			p.Index = i
			p.Proof.Index = i
			add(fmt.Sprintf("i%d:wholePart%d-bothindex-rewritten", i, j), p)
		}
		for _, d := range []int{-1, 1} {
			p := cloneG()
			p.Proof.Total += d
			add(fmt.Sprintf("i%d:proofTotal%+d", i, d), p)
			p = cloneG()
			p.Proof.Index += d
			add(fmt.Sprintf("i%d:proofIndex%+d", i, d), p)
		}
		{
			p := cloneG()
			p.Proof.LeafHash[0] ^= 1
			add(fmt.Sprintf("i%d:leafhashflip", i), p)
			p = cloneG()
			p.Proof.LeafHash = nil
			add(fmt.Sprintf("i%d:leafhashnil", i), p)
			p = cloneG()
			p.Proof.LeafHash = p.Proof.LeafHash[:31]
			add(fmt.Sprintf("i%d:leafhashshort", i), p)
		}
		for a := range g.Proof.Aunts {
			p := cloneG()
			p.Proof.Aunts[a][31] ^= 0x80
			add(fmt.Sprintf("i%d:aunt%dflip", i, a), p)
			p = cloneG()
			p.Proof.Aunts = append(p.Proof.Aunts[:a:a], p.Proof.Aunts[a+1:]...)
			add(fmt.Sprintf("i%d:aunt%ddropped", i, a), p)
			if a+1 < len(g.Proof.Aunts) {
				p = cloneG()
				p.Proof.Aunts[a], p.Proof.Aunts[a+1] = p.Proof.Aunts[a+1], p.Proof.Aunts[a]
				add(fmt.Sprintf("i%d:aunt%dswapped", i, a), p)
			}
		}
		{
			p := cloneG()
			p.Proof.Aunts = append(p.Proof.Aunts, refLeaf([]byte("extra")))
			add(fmt.Sprintf("i%d:auntextra", i), p)
			p = cloneG()
			p.Proof.Aunts = nil
			add(fmt.Sprintf("i%d:auntsnil", i), p) // valid when total==1
		}
		// out-of-range indices carrying otherwise valid content
		for _, idx := range []int{tc.total, tc.total + 1, math.MaxInt32, -1, math.MinInt32} {
			p := cloneG()
			p.Index = idx
			add(fmt.Sprintf("i%d:index=%d", i, idx), p)
			p = cloneG()
			p.Index = idx
			p.Proof.Index = idx
			add(fmt.Sprintf("i%d:index=proofindex=%d", i, idx), p)
		}
		if other != nil && i < other.total {
			add(fmt.Sprintf("i%d:otherSetSameTotal", i), derive(d, other, i))
		}
		if bigger != nil && i < bigger.total {
			add(fmt.Sprintf("i%d:biggerSet", i), derive(d, bigger, i))
		}
		if smaller != nil && i < smaller.total {
			add(fmt.Sprintf("i%d:smallerSet", i), derive(d, smaller, i))
		}
	}
	if bigger != nil {
		add("biggerSet:last", derive(d, bigger, bigger.total-1))
	}
	return cs
}

func mkCase(name string, P int, data []byte) *tcase {
	tc := &tcase{name: name, P: P, data: data, hist: map[string]int64{}}
	tc.chunk = chunks(data, P)
	tc.total = len(tc.chunk)
	tc.root = refRoot(tc.chunk)
	tc.src = types.NewPartSetFromData(data, P)
	tc.header = tc.src.Header()
	for i := 0; i < tc.src.Total(); i++ {
		tc.good = append(tc.good, clonePart(tc.src.GetPart(i)))
	}
	// every good part value goes through AddPart once (reverse order), so that everything derived from tc.good by
	// struct copy is "derived from an accepted part"
	tc.accSet = types.NewPartSetFromHeader(tc.header)
	tc.accRes = make([]string, tc.total)
	for i := tc.total - 1; i >= 0; i-- {
		if added, err := tc.accSet.AddPart(tc.good[i]); !added || err != nil {
			tc.accRes[i] = fmt.Sprintf("added=%v err=%v", added, err)
		}
	}
	return tc
}

// apply one candidate to ps (model m), check result and state; returns false if the real set is no longer in sync
// with the model (caller must rebuild).
func applyCand(tc *tcase, ps *types.PartSet, m *model, seq []int, c cand) bool {
	tc.evals++
	before := observe(ps, tc.total)
	p := c.p
	var added bool
	var err error
	rec := vk.Catch(func() { added, err = ps.AddPart(p) })
	after := observe(ps, tc.total)
	_, dup := m.have[c.p.Index]
	matches := refMatches(c.p, tc.total, tc.root)
	if matches && !bytes.Equal(c.p.Bytes, tc.chunk[c.p.Index]) {
		r.HarnessError("reference merkle accepted foreign content: %s %s", tc.name, c.label)
	}
	if rec != nil {
		if c.p.Index < 0 {
			// Documented precondition (Part.ValidateBasic rejects negative Index before AddPart is reached from the
			// network). The property only demands that the set is not corrupted.
			tc.outcome("negative_index:panic_recovered_state_unchanged")
			if after != before {
				viol(tc, seq, "cand="+c.label+" negative-index panic corrupted the set", map[string]any{"before": before.String(), "after": after.String()})
				return false
			}
			return true
		}
		viol(tc, seq, "cand="+c.label+" AddPart panicked", map[string]any{"panic": fmt.Sprint(rec)})
		return after == before
	}
	switch {
	case c.p.Index < 0:
		tc.outcome("negative_index:rejected")
		if added || err == nil || after != before {
			viol(tc, seq, "cand="+c.label+" negative index not rejected", map[string]any{"added": added, "err": fmt.Sprint(err)})
		}
	case c.p.Index >= tc.total:
		tc.outcome("index_out_of_range:rejected")
		if added || err != types.ErrPartSetUnexpectedIndex || after != before {
			viol(tc, seq, "cand="+c.label+" out-of-range index mishandled", map[string]any{"added": added, "err": fmt.Sprint(err), "before": before.String(), "after": after.String()})
		}
	case dup:
		tc.outcome("index_already_present:not_added")
		if added || after != before {
			viol(tc, seq, "cand="+c.label+" part for an already present index changed the set", map[string]any{"added": added, "err": fmt.Sprint(err), "before": before.String(), "after": after.String()})
		}
		if matches && err != nil {
			viol(tc, seq, "cand="+c.label+" duplicate of a matching part returned an error", map[string]any{"err": fmt.Sprint(err)})
		}
	case matches:
		tc.outcome("alternative_encoding_of_matching_part:accepted")
		if !added || err != nil {
			viol(tc, seq, "cand="+c.label+" matching part rejected", map[string]any{"added": added, "err": fmt.Sprint(err)})
		}
		if added {
			m2 := &model{have: map[int][]byte{}}
			for k, v := range m.have {
				m2.have[k] = v
			}
			m2.have[c.p.Index] = tc.chunk[c.p.Index]
			if d := m2.diff(tc, after); d != "" {
				viol(tc, seq, "cand="+c.label+" state after accepting matching part differs from model", map[string]any{"after": after.String(), "diff": d})
			}
		}
		return false // state changed (legitimately): caller rebuilds
	default:
		tc.outcome("mismatching_part:rejected")
		if added || err == nil {
			viol(tc, seq, "cand="+c.label+" mismatching part accepted", map[string]any{"added": added, "err": fmt.Sprint(err), "before": before.String(), "after": after.String()})
		} else if err != types.ErrPartSetInvalidProof && err != types.ErrPartSetUnexpectedIndex {
			viol(tc, seq, "cand="+c.label+" unexpected error kind", map[string]any{"err": fmt.Sprint(err)})
		}
		if after != before {
			if !(added && err == nil) {
				viol(tc, seq, "cand="+c.label+" rejected part changed the set", map[string]any{"before": before.String(), "after": after.String()})
			}
		}
	}
	return after == before
}

func rebuild(tc *tcase, seq []int) (*types.PartSet, *model) {
	ps := types.NewPartSetFromHeader(tc.header)
	m := &model{have: map[int][]byte{}}
	for _, i := range seq {
		ps.AddPart(tc.good[i])
		m.have[i] = tc.chunk[i]
	}
	return ps, m
}

func checkComplete(tc *tcase, ps *types.PartSet, seq []int) {
	if rec := vk.Catch(func() { checkComplete1(tc, ps, seq) }); rec != nil {
		viol(tc, seq, "reading back the completed set panicked", map[string]any{"panic": fmt.Sprint(rec)})
	}
}

func checkComplete1(tc *tcase, ps *types.PartSet, seq []int) {
	for _, bs := range []int{1, 2, 3, 5, 7, tc.P, tc.P + 1, len(tc.data), len(tc.data) + 9} {
		if bs <= 0 {
			continue
		}
		rd := ps.GetReader()
		var out []byte
		buf := make([]byte, bs)
		guard := 0
		for {
			n, err := rd.Read(buf)
			out = append(out, buf[:n]...)
			if err == io.EOF {
				break
			}
			if err != nil {
				viol(tc, seq, fmt.Sprintf("reader(buf=%d) error", bs), map[string]any{"err": fmt.Sprint(err)})
				return
			}
			guard++
			if guard > 10*len(tc.data)+100 {
				viol(tc, seq, fmt.Sprintf("reader(buf=%d) does not terminate", bs), nil)
				return
			}
		}
		if !bytes.Equal(out, tc.data) {
			viol(tc, seq, fmt.Sprintf("reader(buf=%d) reassembled different bytes", bs), map[string]any{"got": fmt.Sprintf("%x", out)})
			return
		}
	}
	all, err := io.ReadAll(ps.GetReader())
	if err != nil || !bytes.Equal(all, tc.data) {
		viol(tc, seq, "io.ReadAll reassembled different bytes", map[string]any{"got": fmt.Sprintf("%x", all), "err": fmt.Sprint(err)})
	}
	if !bytes.Equal(ps.Hash(), tc.root) || !ps.HasHeader(tc.header) || !ps.HashesTo(tc.root) {
		viol(tc, seq, "hash/header of completed set differs", map[string]any{"hash": fmt.Sprintf("%x", ps.Hash())})
	}
}

func runCase(tc *tcase, cat []cand, maxExtra int) {
	nCases.Add(1)
	// source set sanity vs reference
	if tc.header.Total != tc.total || !bytes.Equal(tc.header.Hash, tc.root) {
		viol(tc, nil, "NewPartSetFromData header differs from reference merkle root/total",
			map[string]any{"total": tc.header.Total, "hash": fmt.Sprintf("%x", tc.header.Hash), "ref_root": fmt.Sprintf("%x", tc.root)})
		return
	}
	if !tc.src.IsComplete() || tc.src.Count() != tc.total {
		viol(tc, nil, "source set not complete", nil)
	}
	for i, g := range tc.good {
		if !bytes.Equal(g.Bytes, tc.chunk[i]) || !refMatches(g, tc.total, tc.root) {
			viol(tc, nil, fmt.Sprintf("source part %d does not match reference", i), nil)
			return
		}
	}
	checkComplete(tc, tc.src, []int{-1})
	for i, res := range tc.accRes {
		if res != "" {
			viol(tc, nil, fmt.Sprintf("good part %d rejected by an empty set built from the header", i), map[string]any{"result": res})
			return
		}
	}
	if !tc.accSet.IsComplete() {
		viol(tc, nil, "set that accepted every good part is not complete", nil)
		return
	}
	checkComplete(tc, tc.accSet, []int{-2})
	defer func() {
		// the set that accepted the origins of all acc-copy candidates is untouched by everything done to the copies
		full := &model{have: map[int][]byte{}}
		for i := range tc.chunk {
			full.have[i] = tc.chunk[i]
		}
		if d := full.diff(tc, observe(tc.accSet, tc.total)); d != "" {
			viol(tc, nil, "set holding the accepted origin parts changed while copies of them were mutated/offered elsewhere", map[string]any{"diff": d})
		}
		checkComplete(tc, tc.accSet, []int{-2})
	}()

	seenSubset := map[uint32]bool{}
	var seq []int
	var dfs func()
	dfs = func() {
		if r.Expired() {
			return
		}
		nSeq.Add(1)
		// state at this node
		var mask uint32
		for _, i := range seq {
			mask |= 1 << uint(i)
		}
		ps, m := rebuild(tc, dedupSeq(seq))
		// replay the literal sequence (with duplicates) on a second instance, checking each return value
		ps2 := types.NewPartSetFromHeader(tc.header)
		m2 := &model{have: map[int][]byte{}}
		for k, i := range seq {
			tc.evals++
			_, dup := m2.have[i]
			added, err := ps2.AddPart(tc.good[i])
			if added == dup || err != nil {
				viol(tc, seq[:k+1], "good part: wrong AddPart result", map[string]any{"added": added, "err": fmt.Sprint(err), "duplicate": dup})
			}
			if dup {
				tc.outcome("good_part:duplicate")
			} else {
				tc.outcome("good_part:added")
			}
			m2.have[i] = tc.chunk[i]
			if d := m2.diff(tc, observe(ps2, tc.total)); d != "" {
				viol(tc, seq[:k+1], "state differs from model after good part", map[string]any{"diff": d})
				return
			}
		}
		if observe(ps, tc.total) != observe(ps2, tc.total) {
			viol(tc, seq, "set state depends on arrival order/duplicates", map[string]any{"a": observe(ps, tc.total).String(), "b": observe(ps2, tc.total).String()})
		}
		if ps2.IsComplete() {
			tc.outcome("completed_and_read_back")
			checkComplete(tc, ps2, seq)
		} else {
			if rec := vk.Catch(func() { ps2.GetReader() }); rec == nil {
				viol(tc, seq, "GetReader on incomplete set did not panic", nil)
			}
		}
		if !seenSubset[mask] {
			seenSubset[mask] = true
			nStates.Add(1)
			r.Distinct(fmt.Sprintf("%s|%b", tc.name, mask))
			ds := dedupSeq(seq)
			for _, c := range cat {
				if !applyCand(tc, ps, m, ds, c) {
					ps, m = rebuild(tc, ds)
				}
			}
		}
		if len(seq) >= tc.total+maxExtra {
			return
		}
		for i := 0; i < tc.total; i++ {
			seq = append(seq, i)
			dfs()
			seq = seq[:len(seq)-1]
		}
	}
	dfs()
	tc.flush()
}

func dedupSeq(seq []int) []int {
	seen := map[int]bool{}
	var out []int
	for _, i := range seq {
		if !seen[i] {
			seen[i] = true
			out = append(out, i)
		}
	}
	return out
}

// real block round trip: MakePartSet(65536) -> parts in several orders -> amino decode -> same hash/bytes.
func realBlock(ntx, txsize int) {
	if rec := vk.Catch(func() { realBlock1(ntx, txsize) }); rec != nil {
		r.Violation(fmt.Sprintf("realblock(ntx=%d,txsize=%d) panicked", ntx, txsize), map[string]any{"panic": fmt.Sprint(rec)})
	}
}

func realBlock1(ntx, txsize int) {
	txs := make([]types.Tx, ntx)
	for i := range txs {
		b := make([]byte, txsize)
		for k := range b {
			b[k] = byte(i*31 + k*7)
		}
		txs[i] = b
	}
	blk := types.MakeBlock(5, txs, types.NewCommit(types.BlockID{}, nil))
	blk.Header.ChainID = "c39"
	blk.Header.Time = time.Unix(1700000000, 0).UTC()
	want := amino.MustMarshalSized(blk)
	src := blk.MakePartSet(types.BlockPartSizeBytes)
	name := fmt.Sprintf("realblock(ntx=%d,txsize=%d,parts=%d)", ntx, txsize, src.Total())
	tc := &tcase{name: name, P: types.BlockPartSizeBytes, data: nil, hist: map[string]int64{}}
	total := src.Total()
	orders := [][]int{}
	fwd := make([]int, total)
	for i := range fwd {
		fwd[i] = i
	}
	rev := make([]int, total)
	for i := range rev {
		rev[i] = total - 1 - i
	}
	orders = append(orders, fwd, rev)
	if total >= 3 {
		mid := append([]int{total / 2}, fwd...)
		orders = append(orders, mid)
	}
	for _, ord := range orders {
		r.Eval()
		dst := types.NewPartSetFromHeader(src.Header())
		for _, i := range ord {
			nTransitions.Add(1)
			p := src.GetPart(i)
			had := dst.GetPart(i) != nil
			added, err := dst.AddPart(p)
			if added == had || err != nil {
				viol(tc, ord, "real block: wrong AddPart result", map[string]any{"i": i, "added": added, "err": fmt.Sprint(err)})
			}
			// corrupted copy must be rejected at any time
			bad := clonePart(p)
			bad.Bytes[len(bad.Bytes)/2] ^= 0x10
			dst2 := types.NewPartSetFromHeader(src.Header())
			if a, e := dst2.AddPart(bad); a || e == nil {
				viol(tc, ord, "real block: corrupted part accepted", map[string]any{"i": i})
			}
			// the same corruption on a struct copy of the part value dst has just accepted: offered to a fresh set
			// (must be rejected) and to dst itself (index present: not added, nothing changes)
			bad2 := structCopy(p)
			bad2.Bytes[len(bad2.Bytes)/2] ^= 0x10
			dst3 := types.NewPartSetFromHeader(src.Header())
			if a, e := dst3.AddPart(bad2); a || e == nil {
				viol(tc, ord, "real block: corrupted copy of an accepted part accepted by a fresh set", map[string]any{"i": i})
			}
			cnt := dst.Count()
			if a, _ := dst.AddPart(bad2); a || dst.Count() != cnt || dst.GetPart(i) != p {
				viol(tc, ord, "real block: corrupted copy of an accepted part changed the set that holds the original", map[string]any{"i": i})
			}
		}
		if !dst.IsComplete() {
			viol(tc, ord, "real block: not complete", nil)
			continue
		}
		got, _ := io.ReadAll(dst.GetReader())
		if !bytes.Equal(got, want) {
			viol(tc, ord, "real block: reassembled bytes differ", nil)
			continue
		}
		var blk2 types.Block
		if _, err := amino.UnmarshalSizedReader(dst.GetReader(), &blk2, int64(len(want))+10); err != nil {
			viol(tc, ord, "real block: decode failed", map[string]any{"err": fmt.Sprint(err)})
			continue
		}
		if !bytes.Equal(blk2.Hash(), blk.Hash()) || !bytes.Equal(amino.MustMarshalSized(&blk2), want) {
			viol(tc, ord, "real block: decoded block differs", nil)
		}
		r.Outcome("real_block_roundtrip_ok")
	}
	r.Distinct(name)
	r.Sample(map[string]any{"real_block": name, "bytes": len(want), "orders": orders})
}

func main() {
	worker := flag.String("worker", "", "internal: schedule worker k:n:bound:budgetSeconds")
	free := flag.Int("freerun", 0, "internal: free-running iterations per scenario (race binary)")
	raceBin := flag.String("racebin", "", "path of the -race build of this harness")
	r = vk.New("exploration")
	if *free > 0 {
		freeRun(*free, r.Thorough())
		return
	}
	if *worker != "" {
		schedWorker(*worker, r.Thorough())
		return
	}
	if r.ReplayIn != "" {
		replaySched(r)
		return
	}
	if pf := os.Getenv("VERIF_PROF"); pf != "" {
		f, _ := os.Create(pf)
		pprof.StartCPUProfile(f)
		defer pprof.StopCPUProfile()
	}
	r.SetBudget(80*time.Second, 25*time.Minute)

	// Phase A: schedule enumeration (worker subprocesses: one exploration per process) + free-running -race pass.
	// It runs first so that its (bounded) cost is never squeezed out by the sequential enumeration's budget.
	schedCov, reportSched := schedulePhase(r, *raceBin, r.Budget*4/10)
	tSeq := time.Now()

	// Phase B: sequential enumeration

	partSizes := []int{1, 2, 3, 16}
	maxParts := 5
	patterns := []string{"const", "mod3", "distinct"}
	maxExtra := 1
	if r.Thorough() {
		partSizes = []int{1, 2, 3, 4, 16, 17}
		maxParts = 6
		maxExtra = 1
	}
	type job struct {
		tc                  *tcase
		other, bigger, smal *tcase
	}
	var jobs []job
	for _, P := range partSizes {
		for _, pat := range patterns {
			for L := 0; L <= maxParts*P; L++ {
				if (L+P-1)/P > maxParts {
					continue
				}
				if L == 0 {
					// An empty byte string is not a block (a serialized block always has a header); recorded, not judged.
					rec := vk.Catch(func() {
						ps := types.NewPartSetFromData(nil, P)
						_ = ps.IsComplete()
						ps.GetReader()
					})
					if rec != nil {
						r.Outcome("empty_data:panics(outside property domain)")
					} else {
						r.Outcome("empty_data:no_panic")
					}
					continue
				}
				name := fmt.Sprintf("P=%d,len=%d,%s", P, L, pat)
				tc := mkCase(name, P, mkData(pat, L))
				// a different set with the same total
				od := mkData(pat, L)
				od[len(od)-1] ^= 0x55
				od[0] ^= 0x33
				other := mkCase(name+"/other", P, od)
				var bigger, smaller *tcase
				bigger = mkCase(name+"/bigger", P, mkData(pat, L+P))
				if L > P {
					smaller = mkCase(name+"/smaller", P, mkData(pat, L-P))
				}
				jobs = append(jobs, job{tc, other, bigger, smaller})
			}
		}
	}
	// largest cases first for load balance
	sort.SliceStable(jobs, func(a, b int) bool { return jobs[a].tc.total > jobs[b].tc.total })
	var catTotal atomic.Int64
	r.ParFor(len(jobs), func(i int) {
		j := jobs[i]
		cat := catalogue(j.tc, j.other, j.bigger, j.smal)
		catTotal.Add(int64(len(cat)))
		runCase(j.tc, cat, maxExtra)
	})
	if len(jobs) > 0 {
		j := jobs[len(jobs)/2]
		cat := catalogue(j.tc, j.other, j.bigger, j.smal)
		var labels []string
		for k := 0; k < len(cat) && k < 400; k += 37 {
			labels = append(labels, cat[k].label)
		}
		r.Sample(map[string]any{"case": j.tc.name, "total_parts": j.tc.total, "catalogue_size": len(cat), "some_candidates": labels})
	}

	realBlock(3, 100)   // 1 part
	realBlock(4, 40000) // 3 parts
	if r.Thorough() {
		realBlock(40, 40000) // ~25 parts
	}

	if n := nScratchRejected.Load(); n != 0 {
		r.Violation("good part rejected by a scratch set built from the header", map[string]any{"times": n})
	}
	pprof.StopCPUProfile()
	reportSched()
	schedCov["phase_wall_s"].(map[string]float64)["sequential"] = time.Since(tSeq).Seconds()

	r.Assumptions = []string{
		"schedule phase: scheduling points are the mutex operations of part_set.go (import-rewritten shim); code between them is atomic, which is sound for data-race-free code - races are looked for by the separate free-running -race pass; small scope: <=3 threads, <=2 operations each, <=3 parts, <=2 preemptions (thorough: 3)",
		"sha256 is collision free on the enumerated inputs (checked: the reference never accepts foreign content)",
		"Part.Index >= 0 is a documented precondition of AddPart (Part.ValidateBasic, enforced by BlockPartMessage.ValidateBasic); a negative index panics with index-out-of-range and is only required to leave the set unchanged",
		"empty data (0 parts) is outside the property's domain (a serialized block is never empty): NewPartSetFromData(nil) panics; recorded in the outcome histogram only",
	}
	cov := map[string]any{"cases": nCases.Load(), "states": nStates.Load(), "transitions": nTransitions.Load(), "arrival_sequences": nSeq.Load(),
		"catalogue_entries_total": catTotal.Load(), "catalogue_derivations": []string{"fresh", "struct copy of an accepted part value", "accepted part value mutated in place"},
		"max_parts": maxParts, "part_sizes": partSizes}
	for k, v := range schedCov {
		cov[k] = v
	}
	r.Finish(fmt.Sprintf("every data length 1..%d*P for part sizes %v x 3 byte patterns; every arrival sequence of good parts with duplicates up to length total+%d; at every subset state the full corrupted-part catalogue, each member derived from a fresh part / a struct copy of an accepted part / an accepted part mutated in place; real 64kB-part block round trips; oracle = independent RFC6962 merkle + map model. Then every generated concurrent scenario (2-3 threads x 1-2 ops of {AddPart good, AddPart corrupted, observe} on 2-3 part sets, pre-fills, own/shared part pointers) under every schedule with <= %v preemptions, oracle after each execution; free-running -race pass",
		maxParts, partSizes, maxExtra, schedCov["preemption_bound"]), true, cov)
}
