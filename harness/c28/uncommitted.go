// C28 phase "uncommitted": executions that are never committed (simulations on the query connection, mempool checks,
// queries about packages that do not exist yet, txs that fail in a block) leave no trace in the node: twin-node
// differential on the real gno.land application (PebbleDB on an in-memory filesystem, started like a node).
//
// Node A and node B execute the same blocks. Between the blocks ONLY node A serves the uncommitted execution U of the
// case. U is a MULTI-MESSAGE deploy whose later messages import / run / call what its earlier messages deployed (a
// DRAFT of a library at a path where a DIFFERENT library is really deployed afterwards):
//
//	carrier  : simulate (.app/simulate of U) | simulate-fail (U + a failing last message) |
//	           failtx (A delivers U + failing message in a block; B delivers the boring twin [failing message] of the
//	           same signer/fee: a failed tx may change nothing but fee and sequence) |
//	           probe (CheckTx of U + qfile/qeval/qfuncs/qdoc/qpaths/qstorage about the paths BEFORE they exist)
//	lib kind : /p/ package | /r/ realm
//	U shape  : [lib] | [lib, importer] | [lib, importer, importer of the importer] | [lib, MsgRun importing lib] |
//	           [lib, MsgCall lib.Inc]
//	draft    : differs from the real lib by an exported NAME | a SIGNATURE | a BODY/const value | a TYPE's fields | nothing
//	follow-up: the real lib and a realm importing it (valid ONLY against the real lib) deployed in the same tx |
//	           the same block | consecutive blocks; then (after A served a state-writing simulate of calls into the
//	           committed packages + queries) a block calling the importer, calling lib.Inc and running a script importing lib
//
// Oracle: every DeliverTx result (error class, gas used/wanted, data, events) and every app hash of A == B's; the clean
// twin's follow-up txs all succeed (non-vacuity); when a pair of nodes retires, A (which served everything) and B answer
// the same final queries per case identically (qeval of the importer, qfile of lib, simulate of a further importer).
package main

import (
	"encoding/hex"
	"fmt"
	"sort"
	"strings"
	"sync"
	"sync/atomic"

	"github.com/gnolang/gno/gno.land/pkg/gnoland"
	"github.com/gnolang/gno/tm2/pkg/amino"
	abci "github.com/gnolang/gno/tm2/pkg/bft/abci/types"
	"github.com/gnolang/gno/tm2/pkg/sdk/bank"
	"github.com/gnolang/gno/tm2/pkg/std"
	"verif/engine/chainx"
	"verif/engine/vk"
)

var (
	uCarriers  = []string{"simulate", "simulate-fail", "failtx", "probe"}
	uKinds     = []string{"p", "r"}
	uShapes    = []string{"lib", "lib+importer", "lib+importer+importer2", "lib+run", "lib+call"}
	uDiffs     = []string{"name", "signature", "body", "type", "same"}
	uFollowups = []string{"same-tx", "same-block", "next-block"}
)

type ucase struct {
	id                                    int
	carrier, kind, shape, diff, followup string
}

func (c *ucase) label() string {
	return fmt.Sprintf("%s:%s:%s:%s:%s", c.carrier, c.kind, c.shape, c.diff, c.followup)
}
func (c *ucase) dir() string  { return fmt.Sprintf("verif/u%d", c.id) }
func (c *ucase) lib() string  { return "gno.land/" + c.kind + "/" + c.dir() + "/lib" }
func (c *ucase) imp() string  { return "gno.land/r/" + c.dir() + "/imp" }
func (c *ucase) imp2() string { return "gno.land/r/" + c.dir() + "/imptwo" }
func (c *ucase) use() string  { return "gno.land/r/" + c.dir() + "/use" }
func (c *ucase) use2() string { return "gno.land/r/" + c.dir() + "/usetwo" }

const itoaSrc = `
func itoa(n int) string {
	if n == 0 {
		return "0"
	}
	s := ""
	for n > 0 {
		s = string(rune('0'+n%10)) + s
		n /= 10
	}
	return s
}
`

// libSrc: the real library (draft == "") or the draft differing by the given aspect.
func (c *ucase) libSrc(draft string) string {
	world, ty, mk, v := `func World() string { return "real" }`, `type T struct{ A int }`, `func Mk() T { return T{A: V} }`, "2"
	switch draft {
	case "name":
		world = `func Hello() string { return "real" }`
	case "signature":
		world = `func World() int { return 1 }`
	case "body":
		world, v = `func World() string { return "draft" }`, "1"
	case "type":
		ty, mk = `type T struct{ A string }`, `func Mk() T { return T{A: "x"} }`
	}
	s := "package lib\n\n" + ty + "\n\nconst V = " + v + "\n\n" + world + "\n\n" + mk + "\n"
	if c.kind == "r" {
		s += "\nvar cnt int\n\nfunc Inc(cur realm) int { cnt += V; return cnt }\n\nfunc Cnt() int { return cnt }\n"
	}
	return s
}

// draftExpr: a string expression over lib that compiles against the draft of the given aspect.
func draftExpr(diff string) string {
	switch diff {
	case "name":
		return "lib.Hello()"
	case "signature":
		return "string(rune('0' + lib.World()))"
	case "type":
		return "lib.Mk().A"
	}
	return "lib.World()"
}

func (c *ucase) files(name, body string) map[string]string { return map[string]string{name + ".gno": body} }

// uMsgs: the messages of the uncommitted execution.
func (c *ucase) uMsgs() []std.Msg {
	ms := []std.Msg{chainx.AddPkg(Z.Addr, c.lib(), c.files("lib", c.libSrc(c.diff)))}
	impSrc := fmt.Sprintf("package imp\n\nimport %q\n\nfunc Q() string { return %s }\n", c.lib(), draftExpr(c.diff))
	switch c.shape {
	case "lib+importer", "lib+importer+importer2":
		ms = append(ms, chainx.AddPkg(Z.Addr, c.imp(), c.files("imp", impSrc)))
		if c.shape == "lib+importer+importer2" {
			ms = append(ms, chainx.AddPkg(Z.Addr, c.imp2(), c.files("imptwo",
				fmt.Sprintf("package imptwo\n\nimport %q\n\nfunc Q2() string { return imp.Q() + \"!\" }\n", c.imp()))))
		}
	case "lib+run":
		ms = append(ms, chainx.Run(Z.Addr, nil, fmt.Sprintf("package main\n\nimport %q\n\nfunc main() { println(%s) }\n", c.lib(), draftExpr(c.diff))))
	case "lib+call":
		ms = append(ms, chainx.Call(Z.Addr, nil, c.lib(), "Inc"))
	}
	return ms
}

func failMsg() std.Msg {
	return bank.MsgSend{FromAddress: Z.Addr, ToAddress: B.Addr, Amount: coins(900_000_000_000_000)}
}

func (c *ucase) useSrc(pkg string) string {
	return fmt.Sprintf("package %s\n\nimport %q\n\nfunc Peek() string { return lib.World() + \":\" + itoa(lib.Mk().A+lib.V) }\n\nfunc Use(cur realm) string { return Peek() }\n%s",
		pkg, c.lib(), itoaSrc)
}

var uOpt = chainx.TxOpt{GasWanted: 300_000_000, FeeAmount: 6_000_000}

type upair struct {
	a, b  *chainx.Chain
	cases []*ucase // completed cases (for the final queries)
	checks int64   // CheckTx calls of signer Z accepted since the last commit (the check state's sequence runs ahead)
}

func uSpec() chainx.Spec {
	return chainx.Spec{Keys: keys, Fund: 1_000_000_000_000,
		// a failed tx and its boring twin burn different amounts of gas: dynamic gas pricing off
		Mutate: func(gs *gnoland.GnoGenesisState) { gs.Auth.Params.TargetGasRatio = 0 }}
}

func newUPair() (*upair, error) {
	p := &upair{}
	var err error
	if p.a, err = chainx.NewLikeNode(chainx.NewMemPebble(), uSpec()); err != nil {
		return nil, err
	}
	if p.b, err = chainx.NewLikeNode(chainx.NewMemPebble(), uSpec()); err != nil {
		return nil, err
	}
	p.a.Block()
	p.b.Block()
	return p, nil
}

func (p *upair) close() {
	for _, c := range []*chainx.Chain{p.a, p.b} {
		if c != nil {
			vk.Catch(func() { c.Base.Close() })
		}
	}
}

type ufinding struct{ key, detail string }

type uphase struct {
	r       *vk.Run
	mu      sync.Mutex
	found   map[string]ufinding
	herr    []string
	txs     atomic.Int64
	blocks  atomic.Int64
	served  atomic.Int64
	finals  atomic.Int64
	casesOK atomic.Int64
}

func (u *uphase) violation(key, detail string) {
	u.mu.Lock()
	if _, ok := u.found[key]; !ok {
		u.found[key] = ufinding{key, detail}
	}
	u.mu.Unlock()
}

func (u *uphase) harnessErr(format string, a ...any) {
	u.mu.Lock()
	u.herr = append(u.herr, fmt.Sprintf(format, a...))
	u.mu.Unlock()
}

type utx struct {
	c     *ucase
	label string
	msgs  []std.Msg
	bMsgs []std.Msg // boring twin for node B (nil: same tx bytes on both)
	must  bool      // must succeed on the clean twin
}

func resLine(r abci.ResponseDeliverTx) string {
	s := chainx.ResKey(r)
	if r.Error != nil {
		s += " log=" + clip(strings.Join(strings.Fields(firstLines(r.Log, 3)), " "), 260)
	}
	return s
}

func firstLines(s string, n int) string {
	l := strings.SplitN(s, "\n", n+1)
	if len(l) > n {
		l = l[:n]
	}
	return strings.Join(l, "\n")
}

// block delivers the txs on both nodes (A and B in parallel) and compares results and app hash. Returns false when the
// nodes are out of step.
func (u *uphase) block(p *upair, stage string, carrier string, txs []utx) bool {
	p.a.BeginBlock()
	p.b.BeginBlock()
	ok := true
	for _, t := range txs {
		ta := amino.MustMarshal(p.a.MakeTx(keys, t.msgs, uOpt))
		tb := ta
		if t.bMsgs != nil {
			tb = amino.MustMarshal(p.b.MakeTx(keys, t.bMsgs, uOpt))
		}
		var ra, rb abci.ResponseDeliverTx
		var wg sync.WaitGroup
		wg.Add(1)
		go func() { defer wg.Done(); rb = p.b.DeliverRaw(tb) }()
		ra = p.a.DeliverRaw(ta)
		wg.Wait()
		u.txs.Add(2)
		cls := "ok"
		if rb.Error != nil {
			cls = "fails"
		}
		u.r.Outcome(fmt.Sprintf("uncommitted: block tx %s on the clean twin: %s", t.label, cls))
		if t.bMsgs != nil {
			// different txs by construction: only the app hash is compared; both must fail
			if ra.Error == nil || rb.Error == nil {
				u.harnessErr("case %s: the failing tx did not fail (A: %s; B: %s)", t.c.label(), resLine(ra), resLine(rb))
			}
			u.r.Outcome("uncommitted: failtx on A: " + clip(numRe.ReplaceAllString(strings.Join(strings.Fields(firstLines(ra.Log, 2)), " "), "N"), 90))
			continue
		}
		if t.must && rb.Error != nil {
			u.harnessErr("case %s: follow-up tx %s fails on the clean twin: %s", t.c.label(), t.label, resLine(rb))
		}
		if ka, kb := chainx.ResKey(ra), chainx.ResKey(rb); ka != kb {
			ok = false
			u.violation("uncommitted-exec-changes-block-result:"+t.c.label()+":"+t.label,
				fmt.Sprintf("node A served the uncommitted execution (%s) of case %s, node B did not; block tx %q: A: %s | B: %s", t.c.carrier, t.c.label(), t.label, resLine(ra), resLine(rb)))
		}
	}
	_, ha := p.a.EndBlockCommit()
	_, hb := p.b.EndBlockCommit()
	p.checks = 0
	u.blocks.Add(2)
	if hex.EncodeToString(ha) != hex.EncodeToString(hb) && ok {
		ok = false
		var ls []string
		seen := map[string]bool{}
		for _, t := range txs {
			if !seen[t.c.label()] {
				seen[t.c.label()] = true
				ls = append(ls, t.c.label())
			}
		}
		u.violation("uncommitted-exec-changes-apphash:"+stage+":batch-starting-at:"+txs[0].c.label(),
			fmt.Sprintf("all tx results equal but app hash after the %s block differs: A %x, B %x; cases in the block: %v", stage, ha, hb, ls))
	}
	return ok
}

func (u *uphase) serve(p *upair, c *ucase, what string, path string, data []byte) string {
	u.served.Add(1)
	a := ask(p.a.App, qdef{path: path, data: func(*epoch) []byte { return data }}, &epoch{})
	cls := a
	if i := strings.Index(cls, "gasUsed="); i >= 0 {
		cls = cls[:i] + numRe.ReplaceAllString(cls[i:], "N")
	}
	u.r.Outcome(fmt.Sprintf("uncommitted: node A serves %s: %s", what, clip(bigRe.ReplaceAllString(strings.ReplaceAll(cls, c.dir(), "verif/uN"), "#"), 100)))
	return a
}

// interfere runs the carrier of the case on node A (except failtx, which travels in the first block).
func (u *uphase) interfere(p *upair, c *ucase) {
	msgs := c.uMsgs()
	switch c.carrier {
	case "simulate", "simulate-fail":
		if c.carrier == "simulate-fail" {
			msgs = append(msgs, failMsg())
		}
		bz := amino.MustMarshal(p.a.MakeTx(keys, msgs, uOpt))
		ans := u.serve(p, c, c.carrier+" "+c.shape+"/"+c.kind, ".app/simulate", bz)
		wantOK := c.carrier == "simulate"
		if isOK := strings.Contains(ans, `err=""`); isOK != wantOK {
			u.harnessErr("case %s: simulate of U answered %s (expected success=%v)", c.label(), clip(ans, 300), wantOK)
		}
	case "probe":
		o := uOpt
		o.SeqDelta = p.checks
		bz := amino.MustMarshal(p.a.MakeTx(keys, msgs, o))
		u.served.Add(1)
		rc := p.a.App.CheckTx(abci.RequestCheckTx{Tx: bz})
		u.r.Outcome(fmt.Sprintf("uncommitted: node A CheckTx of U: err=%v", rc.Error != nil))
		if rc.Error != nil {
			u.harnessErr("case %s: CheckTx of U rejected: %s", c.label(), clip(firstLine(rc.Log), 200))
		} else {
			p.checks++
		}
		u.probeQueries(p, c, "before deploy")
	}
}

func (u *uphase) probeQueries(p *upair, c *ucase, when string) {
	u.serve(p, c, "qfile lib "+when, "vm/qfile", []byte(c.lib()))
	u.serve(p, c, "qeval lib.World() "+when, "vm/qeval", []byte(c.lib()+".World()"))
	u.serve(p, c, "qfuncs lib "+when, "vm/qfuncs", []byte(c.lib()))
	u.serve(p, c, "qdoc lib "+when, "vm/qdoc", []byte(c.lib()))
	u.serve(p, c, "qpaths "+when, "vm/qpaths", []byte("gno.land/r/"+c.dir()))
	u.serve(p, c, "qstorage lib "+when, "vm/qstorage", []byte(c.lib()))
	u.serve(p, c, "qeval use.Peek() "+when, "vm/qeval", []byte(c.use()+".Peek()"))
}

// mid: after everything is deployed node A serves a state-WRITING simulate of calls into the committed packages and
// reads of them.
func (u *uphase) mid(p *upair, c *ucase) {
	msgs := []std.Msg{chainx.Call(Z.Addr, nil, c.use(), "Use")}
	if c.kind == "r" {
		msgs = append(msgs, chainx.Call(Z.Addr, nil, c.lib(), "Inc"), chainx.Call(Z.Addr, nil, c.lib(), "Inc"))
	}
	bz := amino.MustMarshal(p.a.MakeTx(keys, msgs, uOpt))
	u.serve(p, c, "simulate of calls into the committed packages ("+c.kind+")", ".app/simulate", bz)
	if c.carrier == "probe" {
		u.probeQueries(p, c, "after deploy")
	}
}

// batch runs the cases (all of one carrier) on the pair. Returns false when the pair is out of step.
func (u *uphase) batch(p *upair, cs []*ucase) bool {
	carrier := cs[0].carrier
	var b1, b2, b3, b4 []utx
	for _, c := range cs {
		u.interfere(p, c)
		if c.carrier == "failtx" {
			b1 = append(b1, utx{c: c, label: "failing-tx", msgs: append(c.uMsgs(), failMsg()), bMsgs: []std.Msg{failMsg()}})
		}
		lib := chainx.AddPkg(A.Addr, c.lib(), c.files("lib", c.libSrc("")))
		use := chainx.AddPkg(A.Addr, c.use(), c.files("use", c.useSrc("use")))
		switch c.followup {
		case "same-tx":
			b2 = append(b2, utx{c: c, label: "deploy[real lib, importer]", msgs: []std.Msg{lib, use}, must: true})
		case "same-block":
			b2 = append(b2, utx{c: c, label: "deploy[real lib]", msgs: []std.Msg{lib}, must: true}, utx{c: c, label: "deploy[importer]", msgs: []std.Msg{use}, must: true})
		default:
			b2 = append(b2, utx{c: c, label: "deploy[real lib]", msgs: []std.Msg{lib}, must: true})
			b3 = append(b3, utx{c: c, label: "deploy[importer]", msgs: []std.Msg{use}, must: true})
		}
		b4 = append(b4, utx{c: c, label: "call importer.Use", msgs: []std.Msg{chainx.Call(B.Addr, nil, c.use(), "Use")}, must: true})
		if c.kind == "r" {
			b4 = append(b4, utx{c: c, label: "call lib.Inc", msgs: []std.Msg{chainx.Call(B.Addr, nil, c.lib(), "Inc")}, must: true})
		}
		b4 = append(b4, utx{c: c, label: "run script importing lib", must: true, msgs: []std.Msg{chainx.Run(B.Addr, nil,
			fmt.Sprintf("package main\n\nimport %q\n\nfunc main() { println(lib.World(), lib.Mk().A+lib.V) }\n", c.lib()))}})
	}
	if len(b1) > 0 && !u.block(p, "failing-tx", carrier, b1) {
		return false
	}
	if !u.block(p, "deploy", carrier, b2) {
		return false
	}
	if len(b3) > 0 && !u.block(p, "deploy-importer", carrier, b3) {
		return false
	}
	for _, c := range cs {
		u.mid(p, c)
	}
	if !u.block(p, "use", carrier, b4) {
		return false
	}
	p.cases = append(p.cases, cs...)
	u.casesOK.Add(int64(len(cs)))
	return true
}

// finals: the retiring pair answers the same queries per case on both nodes (B has recorded all its block results).
func (u *uphase) finalQueries(p *upair) {
	for _, c := range p.cases {
		sim := amino.MustMarshal(p.a.MakeTx(keys, []std.Msg{chainx.AddPkg(Z.Addr, c.use2(), c.files("usetwo", c.useSrc("usetwo")))}, uOpt))
		for _, q := range []struct{ name, path string; data []byte }{
			{"qeval importer.Peek()", "vm/qeval", []byte(c.use() + ".Peek()")},
			{"qfile lib/lib.gno", "vm/qfile", []byte(c.lib() + "/lib.gno")},
			{"simulate deploy of a further importer", ".app/simulate", sim},
		} {
			qd := qdef{path: q.path, data: func(*epoch) []byte { return q.data }}
			aa, ab := ask(p.a.App, qd, &epoch{}), ask(p.b.App, qd, &epoch{})
			u.finals.Add(2)
			good := strings.HasPrefix(ab, "OK:") && (q.path != ".app/simulate" || strings.Contains(ab, `err=""`))
			u.r.Outcome("uncommitted: final " + q.name + " on the clean twin: " + map[bool]string{true: "OK", false: "error"}[good])
			if !good {
				u.harnessErr("case %s: final %s fails on the clean twin: %s", c.label(), q.name, clip(ab, 300))
			}
			if aa != ab {
				u.violation("uncommitted-exec-changes-query-answer:"+c.label()+":"+q.name,
					fmt.Sprintf("case %s, final %s at the same height: node A (served the uncommitted executions) answers %s | node B answers %s", c.label(), q.name, clip(aa, 300), clip(ab, 300)))
			}
		}
	}
}

func uCases(r *vk.Run) []*ucase {
	var out []*ucase
	for _, ca := range uCarriers {
		for _, k := range uKinds {
			for _, sh := range uShapes {
				for _, d := range uDiffs {
					for _, f := range uFollowups {
						if r.Quick() && f != "same-block" && !(ca == "simulate" || ca == "failtx") {
							continue
						}
						if sh == "lib+call" && k == "p" {
							continue // MsgCall needs a realm (ValidateBasic would reject the whole tx before the ante handler)
						}
						out = append(out, &ucase{id: len(out), carrier: ca, kind: k, shape: sh, diff: d, followup: f})
					}
				}
			}
		}
	}
	return out
}

func uncommittedPhase(r *vk.Run, workers int) map[string]any {
	u := &uphase{r: r, found: map[string]ufinding{}}
	cases := uCases(r)
	const batchSize = 8
	var batches [][]*ucase
	for i := 0; i < len(cases); {
		j := i
		for j < len(cases) && j-i < batchSize && cases[j].carrier == cases[i].carrier {
			j++
		}
		batches = append(batches, cases[i:j])
		i = j
	}
	var next atomic.Int64
	var pairs, skipped atomic.Int64
	var wg sync.WaitGroup
	for w := 0; w < workers; w++ {
		wg.Add(1)
		go func() {
			defer wg.Done()
			var p *upair
			retire := func() {
				if p != nil {
					if pe := vk.Catch(func() { u.finalQueries(p) }); pe != nil {
						u.violation("uncommitted:panic:final-queries", fmt.Sprint(pe))
					}
					p.close()
					p = nil
				}
			}
			for {
				i := int(next.Add(1)) - 1
				if i >= len(batches) {
					break
				}
				if r.Expired() {
					skipped.Add(1)
					continue
				}
				if p == nil {
					var err error
					if p, err = newUPair(); err != nil {
						u.harnessErr("node pair: %v", err)
						return
					}
					pairs.Add(1)
				}
				good := false
				if pe := vk.Catch(func() { good = u.batch(p, batches[i]) }); pe != nil {
					u.violation("uncommitted:panic:"+batches[i][0].carrier, fmt.Sprintf("%v (batch of cases %s ...)", pe, batches[i][0].label()))
				}
				for _, c := range batches[i] {
					r.Distinct("uncommitted|" + c.label())
				}
				r.EvalN(int64(len(batches[i])))
				if !good {
					p.close() // out of step: nothing further can be compared on this pair
					p = nil
				}
			}
			retire()
		}()
	}
	wg.Wait()
	if len(u.herr) > 0 {
		sort.Strings(u.herr)
		r.HarnessError("uncommitted phase: %d problems, first: %s", len(u.herr), u.herr[0])
	}
	var ks []string
	for k := range u.found {
		ks = append(ks, k)
	}
	sort.Strings(ks)
	for _, k := range ks {
		r.Violation(k, map[string]any{"phase": "uncommitted", "detail": u.found[k].detail})
	}
	if skipped.Load() > 0 {
		r.MarkCapped()
	}
	return map[string]any{"cases": len(cases), "node_pairs": pairs.Load(), "cases_completed_in_step": u.casesOK.Load(), "batches": len(batches), "batches_skipped_budget": skipped.Load(),
		"txs_delivered(both nodes)": u.txs.Load(), "blocks(both nodes)": u.blocks.Load(), "uncommitted_executions_and_queries_served_by_A": u.served.Load(),
		"final_query_answers_compared": u.finals.Load() / 2,
		"alphabet": map[string]any{"carriers": uCarriers, "lib_kinds": uKinds, "shapes_of_U": uShapes, "draft_differs_by": uDiffs, "followups": uFollowups}}
}
