// C28 phase "views": a query view describes exactly ONE committed height, for every read kind, on every backend.
//
// Production topology at the store layer (rootmulti with the bptree fast main store and the un-versioned dbadapter
// base store mounted on the same root DB, exactly like gnoland.NewAppWithOptions), on the real PebbleDB backend (on an
// in-memory filesystem) and on memdb. An episode is
//
//	commit a : brings a 3-key alphabet (in both stores) to a start state s0 in {absent, present}^3
//	view V1 = MultiImmutableCacheWrapWithVersion(a)      (what Simulate and custom queries read through)
//	commit b : op vector o1 in {keep, set, delete}^3     (overwrite / create / delete inside every iterated range)
//	view V2 = MultiImmutableCacheWrapWithVersion(b)
//	commit c : op vector o2 in {keep, set, delete}^3
//
// and after commit b (V1) and after commit c (V1 and V2) EVERY read kind is issued through the held views, on both
// stores: Get and Has of every key of the alphabet plus a never-written key, Iterator and ReverseIterator over every
// pair of bounds of a bounds alphabet (keys, gaps between keys, the prefix limits, nil for the tree store). Finally the
// view's own cache layer is written (set of an absent/overwritten key, delete of a present key: what a simulated tx
// does) and the iterators are read again. Oracle: a boring map model of the state at the view's height (+ the local
// overlay). Every (s0, o1, o2) is enumerated.
package main

import (
	"bytes"
	"fmt"
	"sort"
	"strings"
	"sync"

	dbm "github.com/gnolang/gno/tm2/pkg/db"
	"github.com/gnolang/gno/tm2/pkg/db/memdb"
	storebptree "github.com/gnolang/gno/tm2/pkg/store/bptree"
	"github.com/gnolang/gno/tm2/pkg/store/dbadapter"
	"github.com/gnolang/gno/tm2/pkg/store/rootmulti"
	"github.com/gnolang/gno/tm2/pkg/store/types"
	"verif/engine/chainx"
	"verif/engine/vk"
)

var (
	vKeys   = []string{"k/1", "k/3", "k/5"}
	vAbsent = "k/4" // never written
	// bounds alphabet: keys, gaps, prefix limits ("" = nil, only used for the tree store whose key space is private)
	vStarts = []string{"k/", "k/1", "k/2", "k/3", ""}
	vEnds   = []string{"k0", "k/5", "k/4", "k/3", ""}
)

type viewStats struct {
	episodes, reads, commits int64
	kinds                    map[string]int64
}

type viewFinding struct{ key, detail string }

type viewRig struct {
	backend string
	db      dbm.DB
	ms      types.CommitMultiStore
	mainKey types.StoreKey
	baseKey types.StoreKey
	model   [2]map[string]string // committed state: [0]=base, [1]=main
	n       int
}

// backend = "<db>/<pruning>"
func newViewRig(backend string) *viewRig {
	var db dbm.DB
	if strings.HasPrefix(backend, "pebble") {
		db = chainx.NewMemPebble()
	} else {
		db = memdb.NewMemDB()
	}
	g := &viewRig{backend: backend, db: db, mainKey: types.NewStoreKey("main"), baseKey: types.NewStoreKey("base")}
	ms := rootmulti.NewMultiStore(db)
	po := types.PruneSyncable
	if strings.HasSuffix(backend, "/prune-everything") {
		po = types.PruneEverything
	}
	ms.SetStoreOptions(types.StoreOptions{PruningOptions: po})
	ms.MountStoreWithDB(g.mainKey, storebptree.FastStoreConstructor, db)
	ms.MountStoreWithDB(g.baseKey, dbadapter.StoreConstructor, db)
	if err := ms.LoadLatestVersion(); err != nil {
		panic(err)
	}
	g.ms = ms
	g.model = [2]map[string]string{{}, {}}
	return g
}

func (g *viewRig) close() {
	if c, ok := g.ms.(interface{ Close() error }); ok {
		c.Close()
	}
	g.db.Close()
}

// commit applies, like BaseApp does, the ops through a cache-wrap of the live multistore, MultiWrite and Commit.
// ops[i]: 0 keep, 1 set (a value naming the version), 2 delete.
func (g *viewRig) commit(ops [3]int) int64 {
	cms := g.ms.MultiCacheWrap()
	next := g.ms.LastCommitID().Version + 1
	for si, sk := range []types.StoreKey{g.baseKey, g.mainKey} {
		st := cms.GetStore(sk)
		for i, k := range vKeys {
			switch ops[i] {
			case 1:
				v := fmt.Sprintf("%s@%d", k, next)
				st.Set(nil, []byte(k), []byte(v))
				g.model[si][k] = v
			case 2:
				st.Delete(nil, []byte(k))
				delete(g.model[si], k)
			}
		}
	}
	cms.MultiWrite()
	cid := g.ms.Commit()
	if cid.Version != next {
		panic(fmt.Sprintf("commit produced version %d, expected %d", cid.Version, next))
	}
	return next
}

func cloneModel(m [2]map[string]string) (out [2]map[string]string) {
	for i := range m {
		out[i] = map[string]string{}
		for k, v := range m[i] {
			out[i][k] = v
		}
	}
	return
}

func bnd(s string) []byte {
	if s == "" {
		return nil
	}
	return []byte(s)
}

func modelRange(m map[string]string, start, end string, rev bool) string {
	var ks []string
	for k := range m {
		if (start == "" || k >= start) && (end == "" || k < end) {
			ks = append(ks, k)
		}
	}
	sort.Strings(ks)
	if rev {
		for i, j := 0, len(ks)-1; i < j; i, j = i+1, j-1 {
			ks[i], ks[j] = ks[j], ks[i]
		}
	}
	var b strings.Builder
	for _, k := range ks {
		b.WriteString(k + "=" + m[k] + " ")
	}
	return b.String()
}

func collectIt(it types.Iterator) string {
	defer it.Close()
	var b strings.Builder
	n := 0
	for ; it.Valid(); it.Next() {
		b.WriteString(string(it.Key()) + "=" + string(it.Value()) + " ")
		if n++; n > 64 {
			b.WriteString("...")
			break
		}
	}
	return b.String()
}

type heldView struct {
	ms      types.MultiStore
	release func()
	height  int64
	want    [2]map[string]string
}

func (g *viewRig) acquire(h int64) *heldView {
	v, rel, err := g.ms.MultiImmutableCacheWrapWithVersion(h)
	if err != nil {
		panic(fmt.Sprintf("view at %d: %v", h, err))
	}
	return &heldView{ms: v, release: rel, height: h, want: cloneModel(g.model)}
}

// readAll issues every read kind through the view and compares with the model. age = commits since acquisition.
func (g *viewRig) readAll(v *heldView, age int, phase string, st *viewStats, report func(kind, store, what string)) {
	for si, sk := range []types.StoreKey{g.baseKey, g.mainKey} {
		sname := []string{"base", "main"}[si]
		s := v.ms.GetStore(sk)
		want := v.want[si]
		for _, k := range append(append([]string{}, vKeys...), vAbsent) {
			wv, wh := want[k]
			var got []byte
			var has bool
			if p := vk.Catch(func() { got = s.Get(nil, []byte(k)); has = s.Has(nil, []byte(k)) }); p != nil {
				report("panic", sname, fmt.Sprintf("Get/Has(%q) panicked: %v", k, p))
				continue
			}
			st.reads += 2
			if !bytes.Equal(got, []byte(wv)) && !(got == nil && !wh) {
				report("Get"+phase, sname, fmt.Sprintf("Get(%q)=%q, the view's height has %q", k, got, wv))
			} else if got != nil && !wh {
				report("Get"+phase, sname, fmt.Sprintf("Get(%q)=%q, absent at the view's height", k, got))
			}
			if has != wh {
				report("Has"+phase, sname, fmt.Sprintf("Has(%q)=%v, want %v", k, has, wh))
			}
		}
		for _, a := range vStarts {
			for _, e := range vEnds {
				if si == 0 && (a == "" || e == "") {
					continue // the base store shares the raw DB with the tree's physical records: stay inside the prefix
				}
				if a != "" && e != "" && a >= e {
					continue // Store contract: start must be less than end
				}
				for _, rev := range []bool{false, true} {
					kind := "Iterator"
					if rev {
						kind = "ReverseIterator"
					}
					var got string
					if p := vk.Catch(func() {
						if rev {
							got = collectIt(s.ReverseIterator(nil, bnd(a), bnd(e)))
						} else {
							got = collectIt(s.Iterator(nil, bnd(a), bnd(e)))
						}
					}); p != nil {
						report("panic", sname, fmt.Sprintf("%s[%q,%q) panicked: %v", kind, a, e, p))
						continue
					}
					st.reads++
					st.kinds[fmt.Sprintf("%s:%s:%s age=%d%s", g.backend, sname, kind, age, phase)]++
					if w := modelRange(want, a, e, rev); got != w {
						report(kind+phase, sname, fmt.Sprintf("%s[%q,%q) = {%s}, the view's height %d has {%s}", kind, a, e, got, v.height, w))
					}
				}
			}
		}
	}
}

// overlay writes the view's own cache layer like a simulated tx would: delete the first present key, set the first
// absent key and overwrite the last present key.
func (g *viewRig) overlay(v *heldView) {
	for si, sk := range []types.StoreKey{g.baseKey, g.mainKey} {
		s := v.ms.GetStore(sk)
		want := v.want[si]
		del, set, last := "", "", ""
		for _, k := range vKeys {
			if _, ok := want[k]; ok {
				if del == "" {
					del = k
				}
				last = k
			} else if set == "" {
				set = k
			}
		}
		if del != "" {
			s.Delete(nil, []byte(del))
			delete(want, del)
		}
		if set != "" {
			s.Set(nil, []byte(set), []byte(set+"@local"))
			want[set] = set + "@local"
		}
		if last != "" && last != del {
			s.Set(nil, []byte(last), []byte(last+"@local"))
			want[last] = last + "@local"
		}
	}
}

func opsOf(n, base int) (o [3]int) {
	for i := 0; i < 3; i++ {
		o[i] = n % base
		n /= base
	}
	return
}

func opStr(o [3]int, names []string) string {
	var p []string
	for i, k := range vKeys {
		p = append(p, names[o[i]]+" "+k)
	}
	return strings.Join(p, ", ")
}

// runViews enumerates every episode on one backend. o2set limits the second later commit (nil = all 27).
func runViews(r *vk.Run, backend string, o2set []int, st *viewStats, mu *sync.Mutex, found map[string]viewFinding) (done bool) {
	g := newViewRig(backend)
	defer func() { g.close() }()
	if o2set == nil {
		for i := 0; i < 27; i++ {
			o2set = append(o2set, i)
		}
	}
	for s0 := 0; s0 < 8; s0++ {
		for o1 := 0; o1 < 27; o1++ {
			if r.Expired() {
				return false
			}
			for _, o2 := range o2set {
				// a fresh DB instance every 128 episodes (dead versions pile up in the memtable otherwise)
				if g.n++; g.n%128 == 0 {
					g.close()
					g = newViewRig(backend)
				}
				// commit a: bring the alphabet to s0 (set what must be present, delete what must be absent)
				var oa [3]int
				for i := 0; i < 3; i++ {
					if s0>>i&1 == 1 {
						oa[i] = 1
					} else {
						oa[i] = 2
					}
				}
				desc := fmt.Sprintf("start {%s}; commit+1 {%s}; commit+2 {%s}", opStr(oa, []string{"keep", "present", "absent"}),
					opStr(opsOf(o1, 3), []string{"keep", "set", "delete"}), opStr(opsOf(o2, 3), []string{"keep", "set", "delete"}))
				rep := func(view string) func(kind, store, what string) {
					return func(kind, store, what string) {
						key := fmt.Sprintf("view-not-single-height:%s:%s:%s", backend, store, kind)
						mu.Lock()
						if _, ok := found[key]; !ok {
							found[key] = viewFinding{key, fmt.Sprintf("backend %s, %s store, %s: %s [%s]", backend, store, view, what, desc)}
						}
						mu.Unlock()
					}
				}
				if p := vk.Catch(func() {
					ha := g.commit(oa)
					v1 := g.acquire(ha)
					hb := g.commit(opsOf(o1, 3))
					g.readAll(v1, 1, "", st, rep("view acquired at the latest height, read after 1 later commit"))
					v2 := g.acquire(hb)
					g.commit(opsOf(o2, 3))
					g.readAll(v1, 2, "", st, rep("view acquired at the latest height, read after 2 later commits"))
					g.readAll(v2, 1, "", st, rep("second view acquired at the latest height, read after 1 later commit"))
					g.overlay(v1)
					g.readAll(v1, 2, "+own-writes", st, rep("view with own cache-layer writes, read after 2 later commits"))
					v1.release()
					v2.release()
					st.commits += 3
				}); p != nil {
					mu.Lock()
					key := "view-panic:" + backend
					if _, ok := found[key]; !ok {
						found[key] = viewFinding{key, fmt.Sprintf("%v [%s]", p, desc)}
					}
					mu.Unlock()
					g.close()
					g = newViewRig(backend)
				}
				st.episodes++
				r.Distinct(fmt.Sprintf("views|%s|%d|%d|%d", backend, s0, o1, o2))
			}
		}
	}
	return true
}

// viewsPhase runs both backends in parallel; returns the coverage map.
func viewsPhase(r *vk.Run) map[string]any {
	var o2set []int
	if r.Quick() {
		// second later commit in quick: keep-all, set-all, delete-all, and the three single-key mixes
		o2set = []int{0, 13, 26, 1 + 2*3, 2 + 0*3 + 1*9, 0 + 1*3 + 2*9}
	}
	backends := []string{"pebble/prune-syncable", "pebble/prune-everything", "memdb/prune-syncable"}
	stats := make([]*viewStats, len(backends))
	complete := make([]bool, len(backends))
	found := map[string]viewFinding{}
	var mu sync.Mutex
	var wg sync.WaitGroup
	for i, b := range backends {
		stats[i] = &viewStats{kinds: map[string]int64{}}
		wg.Add(1)
		go func(i int, b string) {
			defer wg.Done()
			complete[i] = runViews(r, b, o2set, stats[i], &mu, found)
		}(i, b)
	}
	wg.Wait()
	var keys []string
	for k := range found {
		keys = append(keys, k)
	}
	sort.Strings(keys)
	for _, k := range keys {
		r.Violation(k, map[string]any{"phase": "views", "detail": found[k].detail})
	}
	per := map[string]any{}
	var reads, eps int64
	for i, b := range backends {
		per[b] = map[string]any{"episodes": stats[i].episodes, "reads": stats[i].reads, "commits": stats[i].commits, "complete": complete[i]}
		reads += stats[i].reads
		eps += stats[i].episodes
		if !complete[i] {
			r.MarkCapped()
		}
		for k, n := range stats[i].kinds {
			r.OutcomeN("views "+k, n)
		}
	}
	r.EvalN(eps)
	return map[string]any{"episodes": eps, "reads_through_held_views": reads, "per_backend": per,
		"alphabet": map[string]any{"keys": vKeys, "never_written": vAbsent, "starts": vStarts, "ends": vEnds,
			"second_later_commit_vectors": map[bool]any{true: "all 27", false: len(o2set)}[o2set == nil]}}
}
