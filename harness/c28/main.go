// C28: queries never interfere with consensus and see one committed version (exploration over schedules).
//
// ONE real gno.land application (engine chainx, started like a node: genesis committed with block 1 so that store
// version == header height) on crashdb, driven by controlled threads of the verifsync scheduler:
//
//	consensus thread C : 2 blocks x (BeginBlock, DeliverTx[MsgCall pair.Bump(n) + bank.MsgSend], DeliverTx[MsgAddPackage d<k>],
//	                     EndBlock, Commit)
//	query thread(s) Q  : a scenario-specific list of ABCI queries at height 0 (= latest) and explicit heights:
//	                     vm/qeval of two heap objects the block updates together (+ the block height the VM sees),
//	                     vm/qfile and vm/qeval of the package being deployed, .store, bank/balances, auth/accounts,
//	                     .app/simulate of a state-reading tx
//
// A second, query-free application REF executes the same tx bytes block by block outside the scheduler; it provides
// the oracle:
//
//	(i)   per-block app hashes and per-tx results of C == REF's
//	(ii)  every query answer == REF's answer to the same request with REF quiescent at ONE committed height L,
//	      entry <= L <= exit (entry = latest published height when the query was issued; exit = latest committed height
//	      when it returned, i.e. max(published height, number of block batches durably written)); the two heap objects
//	      are never observed unequal; the height the VM reports equals the height of the state it shows; an object and
//	      a bank balance changed by the same block are never observed at different heights
//	(iii) no deadlock, no panic (a use of a closed DB snapshot panics like pebble's does)
//
// Every schedule with <= bound preemptions is enumerated (own DFS over vs.RunOnce; every replay is checked to reach
// the same scheduling points as its parent, so the enumeration is systematic even though the chain keeps growing
// from one execution to the next).
//
// Two sequential phases (no scheduler) run beside the schedule workers, in the main process:
// views.go (every read kind through query views held across later commits, on real PebbleDB and memdb, vs. a map
// model) and uncommitted.go (twin-node differential: only node A serves simulates / failing txs / mempool checks /
// queries carrying multi-message deploys of a DRAFT of a library that is really deployed, differently, afterwards).
package main

import (
	"encoding/hex"
	"encoding/json"
	"flag"
	"fmt"
	"os"
	"os/exec"
	"regexp"
	"runtime"
	"runtime/debug"
	"runtime/pprof"
	"sort"
	"strconv"
	"strings"
	"sync"
	"time"

	"github.com/gnolang/gno/tm2/pkg/amino"
	abci "github.com/gnolang/gno/tm2/pkg/bft/abci/types"
	"github.com/gnolang/gno/tm2/pkg/crypto"
	dbm "github.com/gnolang/gno/tm2/pkg/db"
	"github.com/gnolang/gno/tm2/pkg/sdk"
	"github.com/gnolang/gno/tm2/pkg/sdk/bank"
	"github.com/gnolang/gno/tm2/pkg/std"
	"github.com/gnolang/gno/tm2/pkg/store/types"
	vs "github.com/gnolang/gno/tm2/pkg/verifsync"
	"verif/engine/chainx"
	"verif/engine/crashdb"
	"verif/engine/vk"
)

const pairPath = "gno.land/r/verif/pair"

const realmPair = `package pair

import (
	"chain/banker"
	"chain/runtime"
	"strconv"
)

type box struct{ v int }

var (
	pa = &box{}
	pb = &box{}
	hw int64
)

func Bump(cur realm, n int) { pa.v = n; pb.v = n; hw = runtime.ChainHeight() }

func Vars() string { return strconv.Itoa(pa.v) + " " + strconv.Itoa(pb.v) }

func Snap() string {
	return Vars() + " " + strconv.FormatInt(hw, 10) + " " + strconv.FormatInt(runtime.ChainHeight(), 10)
}

// Mix reads a heap object (gno objects live in the unversioned base store) and a bank balance (versioned main store)
// that every block changes together.
func Mix() string {
	return strconv.Itoa(pa.v) + " " + strconv.FormatInt(banker.NewReadonlyBanker().GetCoin(address("WATCHADDR"), "ugnot"), 10)
}

func Read(cur realm) string { return Vars() }
`

var (
	A, B, Z = chainx.NewKey("A"), chainx.NewKey("B"), chainx.NewKey("Z")
	keys    = []chainx.Key{A, B, Z}
)

func coins(n int64) std.Coins { return std.Coins{std.NewCoin("ugnot", n)} }

func spec(p types.PruneStrategy) chainx.Spec {
	s := chainx.Spec{Keys: keys, Fund: 1_000_000_000_000, Prune: p}
	s.GenesisTxs = []std.Tx{{
		Msgs:       []std.Msg{chainx.AddPkg(A.Addr, pairPath, map[string]string{"pair.gno": strings.ReplaceAll(realmPair, "WATCHADDR", B.Addr.String())})},
		Fee:        std.NewFee(100_000_000, std.NewCoin("ugnot", 1_000_000)),
		Signatures: []std.Signature{{}},
	}}
	return s
}

// ---------------------------------------------------------------------------------------------
// DB wrapper: scheduling points + closed-snapshot detection

var (
	armed    bool           // scheduling points of the harness on (inside an exploration, after setup)
	qthreads = map[int64]bool{} // goroutine ids of query threads of the current execution
)

func goid() int64 {
	var buf [64]byte
	n := runtime.Stack(buf[:], false)
	s := string(buf[:n]) // "goroutine 123 [running]:..."
	s = s[len("goroutine "):]
	if i := strings.IndexByte(s, ' '); i > 0 {
		s = s[:i]
	}
	id, _ := strconv.ParseInt(s, 10, 64)
	return id
}

// viaLiveStore reports whether the caller was reached through the LIVE multistore's CollectingDB, i.e. through the
// live store's shared PrefixDB, which holds a real mutex across the inner read: parking there would block the other
// thread for real (only the legacy `.store` fallback path reads the live store from a query thread).
func viaLiveStore() bool {
	var buf [8192]byte
	n := runtime.Stack(buf[:], false)
	return strings.Contains(string(buf[:n]), "db.(*CollectingDB)")
}

func pt(op string) {
	if armed {
		vs.PointOp(op)
	}
}

// ptQ: live-DB READS are scheduling points only when a query thread performs them. The query threads never write the
// DB, so a read by the consensus thread is independent of every query-thread operation (partial-order reduction).
func ptQ(op string, k []byte) {
	if !armed {
		return
	}
	if qthreads[goid()] && !viaLiveStore() {
		s := string(k)
		if len(s) > 16 {
			s = s[:16]
		}
		vs.PointOp(fmt.Sprintf("%s %q", op, s))
	}
}

type pointDB struct {
	*crashdb.DB
	free bool
}

func (p *pointDB) Get(k []byte) ([]byte, error) { ptQ("db.Get", k); return p.DB.Get(k) }
func (p *pointDB) Has(k []byte) (bool, error)   { ptQ("db.Has", k); return p.DB.Has(k) }
func (p *pointDB) Iterator(s, e []byte) (dbm.Iterator, error) {
	ptQ("db.Iterator", s)
	return p.DB.Iterator(s, e)
}
func (p *pointDB) ReverseIterator(s, e []byte) (dbm.Iterator, error) {
	ptQ("db.ReverseIterator", s)
	return p.DB.ReverseIterator(s, e)
}
func (p *pointDB) NewSnapshot() (dbm.Snapshot, error) {
	pt("db.NewSnapshot")
	s, err := p.DB.NewSnapshot()
	if err != nil {
		return nil, err
	}
	return &checkedSnap{Snapshot: s}, nil
}

// checkedSnap behaves like a pebble snapshot: any use after Close panics.
type checkedSnap struct {
	dbm.Snapshot
	mu     sync.Mutex
	closed bool
}

func (c *checkedSnap) chk() {
	c.mu.Lock()
	cl := c.closed
	c.mu.Unlock()
	if cl {
		panic("snapshot closed")
	}
}
func (c *checkedSnap) Close() error {
	c.mu.Lock()
	c.closed = true
	c.mu.Unlock()
	return c.Snapshot.Close()
}
func (c *checkedSnap) Get(k []byte) ([]byte, error) { c.chk(); return c.Snapshot.Get(k) }
func (c *checkedSnap) Has(k []byte) (bool, error)   { c.chk(); return c.Snapshot.Has(k) }
func (c *checkedSnap) Iterator(s, e []byte) (dbm.Iterator, error) {
	c.chk()
	return c.Snapshot.Iterator(s, e)
}
func (c *checkedSnap) ReverseIterator(s, e []byte) (dbm.Iterator, error) {
	c.chk()
	return c.Snapshot.ReverseIterator(s, e)
}

// ---------------------------------------------------------------------------------------------
// Queries

type epoch struct {
	h    int64 // height both chains are at when the epoch starts
	k    int   // epoch counter (names of the deployed packages)
	simu []byte
}

func (e *epoch) pkg(i int) string { return fmt.Sprintf("gno.land/r/verif/d%d", 2*e.k+i) }

type qdef struct {
	name   string
	path   string
	data   func(e *epoch) []byte
	height func(e *epoch) int64 // nil = 0 (latest)
	// kind of extra sub-oracle on the decoded answer
	sub string // "" | vars | snap
}

func str(s string) func(*epoch) []byte { return func(*epoch) []byte { return []byte(s) } }

var queries = map[string]qdef{
	"eval-vars":    {name: "eval-vars", path: "vm/qeval", data: str(pairPath + ".Vars()"), sub: "vars"},
	"eval-mix":     {name: "eval-mix", path: "vm/qeval", data: str(pairPath + ".Mix()")},
	"eval-snap":    {name: "eval-snap", path: "vm/qeval", data: str(pairPath + ".Snap()"), sub: "snap"},
	"eval-vars@h":  {name: "eval-vars@h", path: "vm/qeval", data: str(pairPath + ".Vars()"), height: func(e *epoch) int64 { return e.h }, sub: "vars"},
	"qfile-new":    {name: "qfile-new", path: "vm/qfile", data: func(e *epoch) []byte { return []byte(e.pkg(0)) }},
	"eval-new":     {name: "eval-new", path: "vm/qeval", data: func(e *epoch) []byte { return []byte(e.pkg(0) + ".Get()") }},
	"store-acct":   {name: "store-acct", path: ".store/main/key", data: func(*epoch) []byte { return append([]byte("/a/"), A.Addr[:]...) }},
	"store-acct@n": {name: "store-acct@n", path: ".store/main/key", data: func(*epoch) []byte { return append([]byte("/a/"), A.Addr[:]...) }, height: func(e *epoch) int64 { return e.h + 1 }},
	"balances":     {name: "balances", path: "bank/balances/" + A.Addr.String(), data: str("")},
	"account":      {name: "account", path: "auth/accounts/" + A.Addr.String(), data: str("")},
	"simulate":     {name: "simulate", path: ".app/simulate", data: func(e *epoch) []byte { return e.simu }},
}

func (q qdef) req(e *epoch) abci.RequestQuery {
	r := abci.RequestQuery{Path: q.path, Data: q.data(e)}
	if q.height != nil {
		r.Height = q.height(e)
	}
	return r
}

func firstLine(s string) string {
	if i := strings.IndexByte(s, '\n'); i >= 0 {
		return s[:i]
	}
	return s
}

func clip(s string, n int) string {
	if len(s) > n {
		return s[:n] + "…"
	}
	return s
}

// ask runs one query and canonicalises the answer (panics become answers too: they never match the reference).
func ask(app abci.Application, q qdef, e *epoch) (ans string) {
	defer func() {
		if r := recover(); r != nil {
			ans = "PANIC: " + clip(firstLine(fmt.Sprint(r)), 160)
		}
	}()
	res := app.Query(q.req(e))
	if res.Error != nil {
		return "ERR: " + clip(firstLine(res.Error.Error()), 200) + " | " + clip(firstLine(res.Log), 200)
	}
	if q.path == ".app/simulate" {
		var r sdk.Result
		if err := amino.Unmarshal(res.Value, &r); err != nil {
			return "ERR: undecodable simulate result"
		}
		es := ""
		if r.Error != nil {
			es = clip(firstLine(r.Error.Error()), 120)
		}
		return fmt.Sprintf("OK: data=%q gasUsed=%d err=%q", r.Data, r.GasUsed, es)
	}
	d := res.Data
	if len(d) == 0 {
		d = res.Value
	}
	printable := true
	for _, c := range d {
		if (c < 32 && c != '\n' && c != '\t') || c > 126 {
			printable = false
		}
	}
	if printable {
		return "OK: " + strings.ReplaceAll(string(d), "\n", " ") + logOf(res)
	}
	return "OK: 0x" + hex.EncodeToString(d) + logOf(res)
}

func logOf(res abci.ResponseQuery) string {
	if res.Log == "" {
		return ""
	}
	return " log=" + clip(firstLine(res.Log), 120)
}

// ---------------------------------------------------------------------------------------------
// Scenarios

type scenario struct {
	name    string
	prune   types.PruneStrategy
	qs      [][]string // one list of query names per query thread
	bound   [2]int     // preemption bound quick / thorough
	pruneOK bool       // a "failed to load state at height" answer is acceptable for a height pruned under the reader
}

var scenarios = []scenario{
	{name: "eval-pair+cross-store", prune: types.PruneNothingStrategy, qs: [][]string{{"eval-snap", "eval-mix"}}, bound: [2]int{1, 2}},
	{name: "deploy:qfile+eval", prune: types.PruneNothingStrategy, qs: [][]string{{"qfile-new", "eval-new"}}, bound: [2]int{1, 2}},
	{name: "store+bank+auth", prune: types.PruneNothingStrategy, qs: [][]string{{"store-acct", "balances", "account"}}, bound: [2]int{1, 2}},
	{name: "simulate", prune: types.PruneNothingStrategy, qs: [][]string{{"simulate"}}, bound: [2]int{1, 2}},
	{name: "explicit-heights", prune: types.PruneNothingStrategy, qs: [][]string{{"eval-vars@h", "store-acct@n"}}, bound: [2]int{1, 2}},
	{name: "prune-everything:eval+store", prune: types.PruneEverythingStrategy, qs: [][]string{{"eval-snap", "store-acct"}}, bound: [2]int{1, 2}, pruneOK: true},
	{name: "two-query-threads", prune: types.PruneNothingStrategy, qs: [][]string{{"eval-snap"}, {"balances"}}, bound: [2]int{1, 2}},
}

// ---------------------------------------------------------------------------------------------
// The two chains

type world struct {
	sc   *scenario
	sut  *chainx.Chain
	ref  *chainx.Chain
	sdb  *pointDB
	k    int
	free bool
}

func newChain(db dbm.DB, p types.PruneStrategy) (*chainx.Chain, error) {
	c, err := chainx.NewLikeNode(db, spec(p))
	if err != nil {
		return nil, err
	}
	for _, tr := range c.Init.TxResponses {
		if tr.Error != nil {
			return nil, fmt.Errorf("genesis tx failed: %v", tr.Log)
		}
	}
	return c, nil
}

func newWorld(sc *scenario) (*world, error) {
	w := &world{sc: sc}
	cdb := crashdb.New()
	w.sdb = &pointDB{DB: cdb}
	cdb.Hook = func(u *crashdb.Unit) { pt(fmt.Sprintf("db.write %s(%d ops)", u.Kind, len(u.Ops))) }
	var err error
	if w.sut, err = newChain(w.sdb, sc.prune); err != nil {
		return nil, err
	}
	if w.ref, err = newChain(crashdb.New(), sc.prune); err != nil {
		return nil, err
	}
	// block 1 (commits the genesis state) establishes the invariant a == b == hw == height
	txs := w.blockTxs(w.ref, &epoch{h: 0, k: 0}, 1, 0)
	w.k = 1
	for _, c := range []*chainx.Chain{w.ref, w.sut} {
		c.BeginBlock()
		for _, tx := range txs {
			if r := c.DeliverRaw(tx); r.Error != nil {
				return nil, fmt.Errorf("setup tx failed: %s", r.Log)
			}
		}
		c.EndBlockCommit()
	}
	return w, nil
}

// blockTxs builds the two txs of the block that takes chain c (in its current state) to height nh.
func (w *world) blockTxs(c *chainx.Chain, e *epoch, nh int64, seqDelta int64) [][]byte {
	i := int(nh - e.h - 1)
	pk := e.pkg(i)
	name := pk[strings.LastIndexByte(pk, '/')+1:]
	t1 := c.MakeTx(keys, []std.Msg{
		chainx.Call(A.Addr, nil, pairPath, "Bump", fmt.Sprint(nh)),
		bank.MsgSend{FromAddress: A.Addr, ToAddress: B.Addr, Amount: coins(7)},
	}, chainx.TxOpt{SeqDelta: seqDelta})
	t2 := c.MakeTx(keys, []std.Msg{chainx.AddPkg(B.Addr, pk, map[string]string{
		"a.gno": fmt.Sprintf("package %s\n\nvar N = %d\n\nfunc Get() int { return N }\n", name, nh)})}, chainx.TxOpt{SeqDelta: seqDelta})
	return [][]byte{amino.MustMarshal(t1), amino.MustMarshal(t2)}
}

type blockRes struct {
	Txs  []string
	Hash string
}

type qobs struct {
	Thread string
	Q      string
	// Entry: latest PUBLISHED height (LastBlockHeight) when the query was issued. Exit: latest COMMITTED height when it
	// returned = max(published height, number of block batches durably written): rootmulti.Commit makes a block
	// durable (WriteSync) and readable (snapshot swap) a few instructions before it publishes lastCommitID.
	Entry, Exit int64
	ExitPub     int64
	Ans         string
}

type prepared struct {
	e    *epoch
	txs  [2][][]byte
	ref  [2]blockRes
	refA map[string][3]string // query name -> answers with REF quiescent at h, h+1, h+2
}

func (w *world) qnames() []string {
	seen := map[string]bool{}
	var out []string
	for _, l := range w.sc.qs {
		for _, n := range l {
			if !seen[n] {
				seen[n] = true
				out = append(out, n)
			}
		}
	}
	return out
}

// prepare builds the tx bytes of the two blocks of the epoch (block 2's signatures use sequence+1).
func (w *world) prepare() *prepared {
	e := &epoch{h: w.ref.Height, k: w.k}
	w.k++
	simTx := w.ref.MakeTx(keys, []std.Msg{chainx.Call(Z.Addr, nil, pairPath, "Read")}, chainx.TxOpt{})
	e.simu = amino.MustMarshal(simTx)
	p := &prepared{e: e, refA: map[string][3]string{}}
	for b := 0; b < 2; b++ {
		p.txs[b] = w.blockTxs(w.ref, e, e.h+int64(b)+1, int64(b))
	}
	return p
}

// reference runs REF (outside the scheduler, after the scheduled execution) through the two blocks and records its
// answers, quiescent at each height L, to the queries whose [entry, exit] interval (widened by one) contains L.
func (w *world) reference(x *execution) {
	p := x.p
	e := p.e
	need := map[string][3]bool{}
	for _, l := range x.obs {
		for _, o := range l {
			n := need[o.Q]
			for L := o.Entry - e.h; L <= o.Exit-e.h+1; L++ {
				if L >= 0 && L <= 2 {
					n[L] = true
				}
			}
			need[o.Q] = n
		}
	}
	rec := func(i int) {
		for _, qn := range w.qnames() {
			if need[qn][i] {
				a := p.refA[qn]
				a[i] = ask(w.ref.App, queries[qn], e)
				p.refA[qn] = a
			}
		}
	}
	rec(0)
	for b := 0; b < 2; b++ {
		w.ref.BeginBlock()
		for _, tx := range p.txs[b] {
			p.ref[b].Txs = append(p.ref[b].Txs, chainx.ResKey(w.ref.DeliverRaw(tx)))
		}
		_, h := w.ref.EndBlockCommit()
		p.ref[b].Hash = hex.EncodeToString(h)
		rec(b + 1)
	}
}

type execution struct {
	units0 int // physical write units of the SUT DB when the execution started
	unitsN int // ... written by the execution
	p      *prepared
	blocks [2]blockRes
	obs    [][]qobs // per query thread
	cPanic string
}

// consensus is the body of thread C.
func (w *world) consensus(x *execution) {
	defer func() {
		if r := recover(); r != nil {
			x.cPanic = clip(firstLine(fmt.Sprint(r)), 200)
		}
	}()
	for b := 0; b < 2; b++ {
		w.sut.BeginBlock()
		for _, tx := range x.p.txs[b] {
			x.blocks[b].Txs = append(x.blocks[b].Txs, chainx.ResKey(w.sut.DeliverRaw(tx)))
		}
		_, h := w.sut.EndBlockCommit()
		x.blocks[b].Hash = hex.EncodeToString(h)
	}
}

// querier is the body of query thread i.
func (w *world) querier(x *execution, i int) {
	name := fmt.Sprintf("Q%d", i+1)
	for _, qn := range w.sc.qs[i] {
		o := qobs{Thread: name, Q: qn}
		o.Entry = w.sut.Base.LastBlockHeight()
		o.Ans = ask(w.sut.App, queries[qn], x.p.e)
		o.ExitPub = w.sut.Base.LastBlockHeight()
		o.Exit = max(o.ExitPub, x.p.e.h+int64(w.sdb.DB.NumUnits()-x.units0))
		x.obs[i] = append(x.obs[i], o)
	}
}

type finding struct{ class, detail string }

var (
	numRe = regexp.MustCompile(`[0-9]+`)
	bigRe = regexp.MustCompile(`[0-9a-f]{6,}`)
)

// rel rewrites the numbers h, h+1, h+2 of an answer as H+0, H+1, H+2 (observation keys must not depend on how long the
// chain already is).
func rel(ans string, h int64) string {
	return numRe.ReplaceAllStringFunc(ans, func(n string) string {
		v, err := strconv.ParseInt(n, 10, 64)
		if err == nil && v >= h && v <= h+2 && h > 2 {
			return fmt.Sprintf("H+%d", v-h)
		}
		return n
	})
}

func snapFields(ans string) []string {
	if !strings.HasPrefix(ans, "OK: ") {
		return nil
	}
	return strings.Fields(strings.Trim(strings.TrimPrefix(ans, "OK: "), "()\" string"))
}

// judge applies the oracles to a finished execution; returns every violation and the observation key.
func (w *world) judge(x *execution) (fs []finding, obsKey string) {
	var ob []string
	h := x.p.e.h
	for _, l := range x.obs {
		for _, o := range l {
			// canonical form: which single-height reference answer it equals, else the answer with epoch-dependent
			// numbers masked
			lab := ""
			for L := 0; L <= 2; L++ {
				if x.p.refA[o.Q][L] == o.Ans {
					lab = fmt.Sprintf("REF@H+%d", L)
					break
				}
			}
			if lab == "" {
				lab = clip(bigRe.ReplaceAllString(rel(o.Ans, h), "#"), 80)
			}
			ob = append(ob, fmt.Sprintf("%s.%s[entry H+%d, exit H+%d(published)/H+%d(committed)]=%s", o.Thread, o.Q, o.Entry-h, o.ExitPub-h, o.Exit-h, lab))
		}
	}
	obsKey = strings.Join(ob, " | ")
	if x.cPanic != "" {
		return []finding{{"panic:consensus", x.cPanic}}, obsKey
	}
	for b := 0; b < 2; b++ {
		if x.blocks[b].Hash != x.p.ref[b].Hash {
			fs = append(fs, finding{"apphash-differs", fmt.Sprintf("block +%d: %s with queries, %s without", b+1, x.blocks[b].Hash, x.p.ref[b].Hash)})
		}
		if fmt.Sprint(x.blocks[b].Txs) != fmt.Sprint(x.p.ref[b].Txs) {
			fs = append(fs, finding{"txresult-differs", fmt.Sprintf("block +%d: %v with queries, %v without", b+1, x.blocks[b].Txs, x.p.ref[b].Txs)})
		}
	}
	if n := x.unitsN; n != 2 && x.cPanic == "" {
		fs = append(fs, finding{"write-units-per-block", fmt.Sprintf("2 blocks produced %d physical write units (expected one atomic batch per block)", n)})
	}
	for _, l := range x.obs {
		for _, o := range l {
			q := queries[o.Q]
			lo, hi := o.Entry-h, o.Exit-h
			if lo < 0 || hi > 2 || lo > hi {
				fs = append(fs, finding{"height-regression:" + o.Q, fmt.Sprintf("latest height %d at entry, %d at exit (epoch base %d)", o.Entry, o.Exit, h)})
				continue
			}
			refs := x.p.refA[o.Q]
			ok := false
			var acc []string
			for L := lo; L <= hi; L++ {
				acc = append(acc, fmt.Sprintf("@H+%d: %s", L, clip(rel(refs[L], h), 160)))
				if refs[L] == o.Ans {
					ok = true
				}
			}
			if ok {
				continue
			}
			if w.sc.pruneOK && hi > lo && (o.Ans == "ERR: internal error | " || strings.Contains(o.Ans, "version does not exist")) {
				// a commit landed while the query ran and pruned the height it had resolved (the "failed to load state at
				// height" message does not survive ABCIError, only "internal error" reaches the client)
				continue
			}
			class := "mixed-heights"
			switch {
			case strings.HasPrefix(o.Ans, "PANIC:"):
				class = "panic:query"
			case strings.HasPrefix(o.Ans, "ERR:"):
				class = "query-fails"
			default:
				for L := int64(0); L <= 2; L++ {
					if refs[L] == o.Ans && L > hi {
						class = "uncommitted-height-observed" // the answer of a height that was not yet durably written when the query returned
					} else if refs[L] == o.Ans && L < lo {
						class = "stale-height-observed"
					}
				}
				if f := snapFields(o.Ans); class == "mixed-heights" && q.sub != "" && len(f) >= 2 {
					if f[0] != f[1] {
						class = "torn-pair"
					} else if q.sub == "snap" && len(f) == 4 {
						// state part (a b hw) vs the height the VM reports
						state := strings.Join(f[:3], " ")
						for L := int64(0); L <= 2; L++ {
							rf := snapFields(refs[L])
							if len(rf) == 4 && strings.Join(rf[:3], " ") == state {
								switch {
								case L >= lo && L <= hi:
									class = "vm-height-differs-from-state-height"
								case L > hi:
									class = "uncommitted-height-observed"
								default:
									class = "stale-height-observed"
								}
							}
						}
					}
				}
			}
			fs = append(fs, finding{class + ":" + o.Q, fmt.Sprintf("scenario %q: %s %s (latest published height H+%d at entry, latest committed height H+%d at exit; H=%d) answered %q; acceptable (REF quiescent at ONE height between entry and exit): %v",
				w.sc.name, o.Thread, o.Q, lo, hi, h, clip(rel(o.Ans, h), 300), acc)})
		}
	}
	return fs, obsKey
}

// ---------------------------------------------------------------------------------------------
// Worker: DFS over schedules

type schedViolation struct {
	Class    string   `json:"class"`
	Detail   string   `json:"detail"`
	Schedule []int    `json:"schedule"`
	Trace    []string `json:"trace"`
	Stable   bool     `json:"stable"`
}

type jobResult struct {
	Scenario   string           `json:"scenario"`
	Bound      int              `json:"bound"`
	Execs      int              `json:"execs"`
	MaxPoints  int              `json:"max_points"`
	PointsC    int              `json:"points_consensus"`
	PointsQ    int              `json:"points_query"`
	Capped     bool             `json:"capped"`
	Outcomes   map[string]int   `json:"outcomes"`
	Violations []schedViolation `json:"violations"`
	Err        string           `json:"err,omitempty"`
	Sample     []string         `json:"sample"`
	OpHist     map[string]int   `json:"op_histogram"`
	WallS      float64          `json:"wall_s"`
	Fatal      bool             `json:"fatal"`
	Diverged   int              `json:"replay_divergences"`
	DivergedAt string           `json:"first_divergence,omitempty"`
}

const horizon = 400000

func (w *world) runOnce(prefix []int, trace bool) (*execution, *vs.Exec, error) {
	p := w.prepare()
	x := &execution{p: p, obs: make([][]qobs, len(w.sc.qs)), units0: w.sdb.DB.NumUnits()}
	body := func() {
		for k := range qthreads {
			delete(qthreads, k)
		}
		armed = true
		vs.Go("C", func() { w.consensus(x) })
		for i := range w.sc.qs {
			i := i
			vs.Go(fmt.Sprintf("Q%d", i+1), func() { qthreads[goid()] = true; w.querier(x, i) })
		}
	}
	ex, err := vs.RunOnce(prefix, horizon, trace, body)
	armed = false
	x.unitsN = w.sdb.DB.NumUnits() - x.units0
	if err == nil && !ex.Horizon && !ex.Deadlock {
		w.reference(x)
	}
	return x, ex, err
}

// opKind is the data-independent part of a point label (keys, versions and batch sizes differ from epoch to epoch).
func opKind(op string) string {
	if i := strings.IndexByte(op, ' '); i > 0 {
		return op[:i]
	}
	return op
}

func preemptionsBefore(x *vs.Exec, i int) int {
	n := 0
	for k := 0; k < i; k++ {
		if x.Points[k].RunningStillEnabled && x.Points[k].Chosen != 0 {
			n++
		}
	}
	return n
}

func isFatal(class string) bool {
	return strings.HasPrefix(class, "panic:consensus") || strings.HasPrefix(class, "panic:thread") || class == "deadlock" || class == "horizon" ||
		class == "apphash-differs" || class == "txresult-differs"
}

// explore enumerates every schedule of scenario w.sc with <= bound preemptions on world w.
func explore(w *world, bound int, deadline time.Time) (res jobResult) {
	sc := w.sc
	res = jobResult{Scenario: sc.name, Bound: bound, Outcomes: map[string]int{}, OpHist: map[string]int{}}
	t0 := time.Now()
	defer func() { res.WallS = time.Since(t0).Seconds() }()
	// warm-up epochs (caches, lazily preprocessed packages) so that every explored execution starts structurally alike
	for i := 0; i < 2; i++ {
		x, ex, err := w.runOnce(nil, false)
		if err != nil {
			res.Err = err.Error()
			return
		}
		for _, f := range w.judgeAll(x, ex) {
			if isFatal(f.class) {
				res.Violations = append(res.Violations, schedViolation{Class: f.class, Detail: "(default schedule) " + f.detail, Stable: true})
				res.Fatal = true
				return
			}
		}
	}
	seen := map[string]bool{}
	stop := false
	var rec func(prefix []int, parent *vs.Exec)
	rec = func(prefix []int, parent *vs.Exec) {
		if stop {
			return
		}
		if time.Now().After(deadline) {
			res.Capped = true
			stop = true
			return
		}
		x, ex, err := w.runOnce(prefix, false)
		if err != nil {
			res.Err = err.Error()
			stop = true
			return
		}
		res.Execs++
		if len(ex.Points) > res.MaxPoints {
			res.MaxPoints = len(ex.Points)
		}
		// systematic-enumeration guard: the replayed prefix must reach the same points as in the parent
		if parent != nil {
			for i := 0; i < len(prefix) && i < len(ex.Points) && i < len(parent.Points); i++ {
				a, b := parent.Points[i], ex.Points[i]
				if a.Thread != b.Thread || opKind(a.Op) != opKind(b.Op) || len(a.Enabled) != len(b.Enabled) {
					// the same choices reached different points: the enumeration is no longer systematic below this
					// prefix (counted; the run is then reported exhaustive:false). Never happens on the unchanged
					// tree, where query threads read a frozen snapshot; with mutants that route queries to the live DB
					// the number of live reads of a query depends on how tall the growing tree is.
					res.Diverged++
					if res.DivergedAt == "" {
						res.DivergedAt = fmt.Sprintf("point %d: parent %d:%s enabled=%d, replay %d:%s enabled=%d", i, a.Thread, a.Op, len(a.Enabled), b.Thread, b.Op, len(b.Enabled))
					}
					break
				}
			}
		}
		if res.Execs == 1 {
			for _, p := range ex.Points {
				res.OpHist[fmt.Sprintf("t%d:%s", p.Thread, opKind(p.Op))]++
				if p.Thread == 1 {
					res.PointsC++
				} else if p.Thread > 1 {
					res.PointsQ++
				}
			}
		}
		fs := w.judgeAll(x, ex)
		_, ok := w.judge(x)
		res.Outcomes[ok]++
		for _, f := range fs {
			fatal := isFatal(f.class)
			if !seen[f.class] {
				seen[f.class] = true
				v := schedViolation{Class: f.class, Detail: f.detail, Schedule: append([]int{}, ex.Choices...), Stable: true}
				if !fatal {
					for k := 0; k < 2; k++ {
						x2, ex2, err := w.runOnce(v.Schedule, true)
						again := false
						if err == nil {
							for _, f2 := range w.judgeAll(x2, ex2) {
								if f2.class == f.class {
									again = true
								}
							}
							v.Trace = compressTrace(ex2.Trace)
						}
						if !again {
							v.Stable = false
						}
					}
				}
				res.Violations = append(res.Violations, v)
			}
			if fatal {
				res.Fatal = true // the chains are out of step: nothing further can be compared
				stop = true
				return
			}
		}
		for i := len(prefix); i < len(ex.Points); i++ {
			p := ex.Points[i]
			cost := preemptionsBefore(ex, i)
			if p.RunningStillEnabled {
				cost++
			}
			if cost > bound {
				continue
			}
			for alt := 1; alt < len(p.Enabled); alt++ {
				np := append(append([]int{}, ex.Choices[:i]...), alt)
				rec(np, ex)
				if stop {
					return
				}
			}
		}
	}
	rec(nil, nil)
	if res.Err == "" && !res.Fatal {
		_, ex, err := w.runOnce(nil, true)
		if err == nil {
			res.Sample = compressTrace(ex.Trace)
		}
	}
	return
}

func (w *world) judgeAll(x *execution, ex *vs.Exec) []finding {
	if len(ex.Panics) > 0 {
		var ks []string
		for k, v := range ex.Panics {
			ks = append(ks, k+": "+firstLine(fmt.Sprint(v)))
		}
		sort.Strings(ks)
		return []finding{{"panic:thread", strings.Join(ks, "; ")}}
	}
	if ex.Horizon {
		return []finding{{"horizon", "execution exceeded the point horizon; blocked=" + strings.Join(ex.Blocked, ",")}}
	}
	if ex.Deadlock {
		return []finding{{"deadlock", "threads blocked forever: " + strings.Join(ex.Blocked, ",")}}
	}
	fs, _ := w.judge(x)
	return fs
}

// compressTrace collapses runs of identical consecutive lines ("C:Mutex.Lock x412").
func compressTrace(tr []string) []string {
	var out []string
	for i := 0; i < len(tr); {
		j := i
		for j < len(tr) && tr[j] == tr[i] {
			j++
		}
		if j-i > 1 {
			out = append(out, fmt.Sprintf("%s x%d", tr[i], j-i))
		} else {
			out = append(out, tr[i])
		}
		i = j
	}
	if len(out) > 300 {
		out = append(append([]string{}, out[:150]...), append([]string{"..."}, out[len(out)-150:]...)...)
	}
	return out
}

// worlds are shared by the scenarios of one process that use the same pruning strategy (an app start costs seconds).
type worlds map[types.PruneStrategy]*world

func (ws worlds) get(sc *scenario) (*world, error) {
	w := ws[sc.prune]
	if w == nil {
		var err error
		if w, err = newWorld(sc); err != nil {
			return nil, err
		}
		ws[sc.prune] = w
	}
	w.sc = sc
	return w, nil
}

func workerMain(arg string) {
	// "<si,si,...>:<tier q|t>:<budgetSeconds>"
	parts := strings.Split(arg, ":")
	tier := parts[1]
	bs, _ := strconv.Atoi(parts[2])
	deadline := time.Now().Add(time.Duration(bs) * time.Second)
	ws := worlds{}
	var out []jobResult
	ids := strings.Split(parts[0], ",")
	for n, f := range ids {
		si, _ := strconv.Atoi(f)
		// share the remaining budget evenly among the remaining scenarios
		deadline := deadline
		if tier == "t" {
			deadline = time.Now().Add(time.Until(deadline) / time.Duration(len(ids)-n))
		}
		sc := &scenarios[si]
		bound := sc.bound[0]
		if tier == "t" {
			bound = sc.bound[1]
		}
		w, err := ws.get(sc)
		if err != nil {
			out = append(out, jobResult{Scenario: sc.name, Bound: bound, Err: "setup: " + err.Error()})
			continue
		}
		jr := explore(w, bound, deadline)
		out = append(out, jr)
		if jr.Fatal {
			delete(ws, sc.prune) // chains out of step: start afresh for the next scenario
		}
	}
	b, _ := json.Marshal(out)
	fmt.Println("RESULT " + string(b))
}

// ---------------------------------------------------------------------------------------------
// Free-running pass (for the -race binary): same bodies, real goroutines, real sync.

func freeRun(iters int, budget time.Duration) {
	ws := worlds{}
	t0 := time.Now()
	epochs := 0

	for si := range scenarios {
		sc := &scenarios[si]
		if iters < 100 && sc.prune != types.PruneNothingStrategy {
			continue // quick: one application start under the race detector costs ~1-2 min; the pruning scenario runs in thorough
		}
		fmt.Printf("FREERUN-T %.1fs scenario %s\n", time.Since(t0).Seconds(), sc.name)
		w, err := ws.get(sc)
		if err != nil {
			fmt.Println("FREERUN-SETUP", err)
			os.Exit(3)
		}
		for it := 0; it < iters; it++ {
			if budget > 0 && time.Since(t0) > budget {
				break
			}
			epochs++
			p := w.prepare()
			x := &execution{p: p, obs: make([][]qobs, len(sc.qs)), units0: w.sdb.DB.NumUnits()}
			var wg sync.WaitGroup
			wg.Add(1)
			go func() { defer wg.Done(); w.consensus(x) }()
			for i := range sc.qs {
				i := i
				wg.Add(1)
				go func() {
					defer wg.Done()
					// stagger so that queries overlap different phases of the two blocks
					time.Sleep(time.Duration(it%9) * 2 * time.Millisecond)
					w.querier(x, i)
					w.querier(x, i)
				}()
			}
			done := make(chan struct{})
			go func() { wg.Wait(); close(done) }()
			select {
			case <-done:
			case <-time.After(120 * time.Second):
				fmt.Printf("FREERUN-STUCK scenario=%s\n", sc.name)
				os.Exit(3)
			}
			x.unitsN = w.sdb.DB.NumUnits() - x.units0
			w.reference(x)
			fs, _ := w.judge(x)
			fatal := false
			for _, f := range fs {
				fmt.Printf("FREERUN-ORACLE class=%s %s\n", f.class, f.detail)
				fatal = fatal || isFatal(f.class)
			}
			if fatal {
				delete(ws, sc.prune)
				break
			}
		}
	}
	fmt.Printf("FREERUN-EPOCHS %d\n", epochs)
	fmt.Println("FREERUN-OK")
}

// ---------------------------------------------------------------------------------------------

func tail(s string, n int) string {
	if len(s) > n {
		return s[len(s)-n:]
	}
	return s
}

func main() {
	worker := flag.String("worker", "", "internal: <scenario,...>:<q|t>:<budgetSeconds>")
	free := flag.Int("freerun", 0, "internal: free-running iterations per scenario (race binary)")
	raceBin := flag.String("racebin", "", "path of the -race build of this harness")
	only := flag.Int("only", -1, "run only this scenario index")
	prof := flag.String("cpuprofile", "", "internal: CPU profile of a worker")
	phase := flag.String("phase", "all", "all | sched | views | uncommitted (debugging: run one phase only)")
	r := vk.New("exploration")
	debug.SetGCPercent(400)
	if *prof != "" {
		f, _ := os.Create(*prof)
		pprof.StartCPUProfile(f)
		defer pprof.StopCPUProfile()
	}
	if *free > 0 {
		freeRun(*free, r.Budget)
		return
	}
	if *worker != "" {
		workerMain(*worker)
		return
	}
	if r.ReplayIn != "" {
		replayFile(r)
		return
	}
	r.SetBudget(600*time.Second, 25*time.Minute) // soft safety nets; an unloaded 16-core box needs ~2 min for quick
	// scenarios are spread over a few worker processes (one exploration at a time per process; an app start is expensive)
	groups := [][]int{{0, 4}, {1, 3}, {2, 5}} // quick: the 3-thread scenario (index 6) runs in thorough only
	if r.Thorough() {
		groups = [][]int{{0}, {1}, {2}, {3}, {4}, {5}, {6}}
	}
	if *only >= 0 {
		groups = [][]int{{*only}}
		*phase = "sched"
	}
	if *phase != "all" && *phase != "sched" {
		groups = nil
	}
	// the two sequential phases (no scheduler) run in this process beside the schedule workers
	var viewsCov, uncCov map[string]any
	var phases sync.WaitGroup
	if *phase == "all" || *phase == "views" {
		phases.Add(1)
		go func() { defer phases.Done(); viewsCov = viewsPhase(r) }()
	}
	if *phase == "all" || *phase == "uncommitted" {
		phases.Add(1)
		go func() { defer phases.Done(); uncCov = uncommittedPhase(r, 4) }()
	}
	// the race pass runs concurrently with the schedule workers
	raceNote := "race pass not run (no -race binary)"
	raceDone := make(chan struct{})
	var raceOut string
	var raceErr error
	if *raceBin != "" && *phase == "all" {
		go func() {
			cmd := exec.Command(*raceBin, "-id", r.ID, "-freerun", map[bool]string{true: "4", false: "150"}[r.Quick()], "-budget", fmt.Sprintf("%ds", int(r.Budget.Seconds()*0.8)))
			cmd.Env = append(os.Environ(), "GORACE=halt_on_error=0")
			out, err := cmd.CombinedOutput()
			raceOut, raceErr = string(out), err
			close(raceDone)
		}()
	} else {
		close(raceDone)
	}
	perJob := int(r.Budget.Seconds() * 0.85)
	results := make([][]jobResult, len(groups))
	errs := make([]string, len(groups))
	var wg sync.WaitGroup
	for i := range groups {
		wg.Add(1)
		go func(i int) {
			defer wg.Done()
			var ids []string
			for _, si := range groups[i] {
				ids = append(ids, strconv.Itoa(si))
			}
			cmd := exec.Command(os.Args[0], "-id", r.ID, "-worker", fmt.Sprintf("%s:%s:%d", strings.Join(ids, ","), map[bool]string{true: "q", false: "t"}[r.Quick()], perJob))
			cmd.Env = append(os.Environ(), "GOMAXPROCS=3")
			out, err := cmd.CombinedOutput()
			ok := false
			for _, line := range strings.Split(string(out), "\n") {
				if strings.HasPrefix(line, "RESULT ") {
					ok = json.Unmarshal([]byte(line[7:]), &results[i]) == nil
				}
			}
			if !ok {
				errs[i] = fmt.Sprintf("worker %v failed: %v: %s", groups[i], err, tail(string(out), 1500))
			}
		}(i)
	}
	wg.Wait()
	var per []map[string]any
	total := 0
	for i := range groups {
		if errs[i] != "" {
			r.HarnessError("%s", errs[i])
		}
		for _, jr := range results[i] {
			if jr.Err != "" {
				r.HarnessError("scenario %q bound %d: %s", jr.Scenario, jr.Bound, jr.Err)
			}
			total += jr.Execs
			r.EvalN(int64(jr.Execs))
			if jr.Capped || jr.Diverged > 0 {
				r.MarkCapped()
			}
			for o := range jr.Outcomes {
				r.Distinct(jr.Scenario + "|" + o)
			}
			r.OutcomeN(fmt.Sprintf("schedules bound=%d", jr.Bound), int64(jr.Execs))
			var top []string
			for o, n := range jr.Outcomes {
				top = append(top, fmt.Sprintf("%6d x %s", n, o))
			}
			sort.Strings(top)
			if len(top) > 10 {
				top = top[len(top)-10:]
			}
			per = append(per, map[string]any{"scenario": jr.Scenario, "preemption_bound": jr.Bound, "schedules": jr.Execs, "max_points": jr.MaxPoints,
				"points_consensus_thread": jr.PointsC, "points_query_threads": jr.PointsQ, "point_kinds(default schedule)": jr.OpHist,
				"distinct_observations": len(jr.Outcomes), "capped": jr.Capped, "most_frequent_observations": top,
				"replay_divergences": jr.Diverged, "first_divergence": jr.DivergedAt})
			for _, v := range jr.Violations {
				if !v.Stable {
					// A violation whose recorded schedule does not fail again is not believed (some nondeterminism the
					// scheduler does not own was involved): it is counted and printed, the run is marked non-exhaustive,
					// and it is never reported as a VIOLATION.
					r.Outcome("unstable-observation-not-believed:" + jr.Scenario + ":" + v.Class)
					r.MarkCapped()
					fmt.Printf("UNSTABLE (same schedule did not fail again; not reported): %s %s: %.300s\n", jr.Scenario, v.Class, v.Detail)
					continue
				}
				// query-answer classes are keyed by class:query only (the same defect shows up in several scenarios)
				key := v.Class
				if isFatal(v.Class) {
					key = jr.Scenario + ":" + v.Class
				} else if strings.HasPrefix(jr.Scenario, "prune-everything") {
					key += "@prune-everything"
				}
				r.Violation(key, map[string]any{"scenario": jr.Scenario, "bound": jr.Bound, "class": v.Class, "detail": v.Detail, "schedule": v.Schedule, "trace": v.Trace})
			}
			if len(jr.Sample) > 0 {
				r.Sample(map[string]any{"scenario": jr.Scenario, "default_schedule_trace": jr.Sample})
			}
		}
	}
	<-raceDone
	phases.Wait()
	if *raceBin != "" && *phase == "all" {
		s := raceOut
		if strings.Contains(s, "DATA RACE") {
			r.Violation("data-race:"+raceKey(s), map[string]any{"output": tail(s, 8000)})
			raceNote = "DATA RACE reported"
		}
		switch {
		case strings.Contains(s, "FREERUN-STUCK"):
			r.Violation("freerun:stuck", map[string]any{"output": tail(s, 4000)})
			raceNote += "; free-running pass stuck"
		case raceErr != nil || !strings.Contains(s, "FREERUN-OK"):
			if !strings.Contains(s, "DATA RACE") {
				r.HarnessError("race pass failed: %v %s", raceErr, tail(s, 800))
			}
		default:
			n := strings.Count(s, "FREERUN-ORACLE")
			cls := map[string]bool{}
			for _, l := range strings.Split(s, "\n") {
				if strings.HasPrefix(l, "FREERUN-ORACLE class=") {
					cls[strings.Fields(l[len("FREERUN-ORACLE class="):])[0]] = true
				}
			}
			var cl []string
			for c := range cls {
				cl = append(cl, c)
			}
			sort.Strings(cl)
			if !strings.Contains(s, "DATA RACE") {
				ep := "?"
				if i := strings.LastIndex(s, "FREERUN-EPOCHS "); i >= 0 {
					ep = strings.Fields(s[i+len("FREERUN-EPOCHS "):])[0]
				}
				raceNote = fmt.Sprintf("free-running -race pass of the same bodies (%s; %s epochs run): no data race reported", map[bool]string{true: "4 epochs x the 6 scenarios without pruning", false: "up to 150 epochs x all 7 scenarios, budget-capped"}[r.Quick()], ep)
			}
			if n > 0 {
				// timing-dependent: informational only (the controlled enumeration decides)
				raceNote += fmt.Sprintf("; oracle classes also seen free-running (informational, timing dependent): %v", cl)
			}
		}
	}
	r.Assumptions = []string{
		"scheduling points: every physical DB write unit (crashdb hook), DB.NewSnapshot, live-DB reads performed by query threads, and every sync/atomic operation of the import-rewritten files (coverage.hooked_files); code between points runs atomically",
		"NOT scheduling points: live-DB reads by the consensus thread (query threads never write the DB, so these are independent of all their operations), reads of frozen memdb snapshots, channel operations, and the real mutexes/pools inside memdb, db.BatchCollector, store/cache, hashicorp-lru, ristretto, sync.Pool/sync.Map/OnceValue users in gnovm (machine pool, pkgID cache, amino type cache) and gnolang/internal/txlog — those are exercised by the free-running -race pass only",
		"memdb's snapshot (map copy under its mutex) stands in for pebble's; the wrapper makes a closed snapshot panic on use like pebble",
		"the chain keeps growing across executions (a fresh app per schedule would cost seconds); every replay is checked to hit the same points as its parent, and a query-free twin application executing the same tx bytes provides the per-height reference answers",
	}
	r.Finish("every schedule with <= bound preemptions per scenario; distinct = distinct (scenario, vector of query observations relative to the epoch height)",
		true, map[string]any{"schedules": total, "per_scenario": per, "race_pass": raceNote, "views_phase": viewsCov, "uncommitted_phase": uncCov})
}

func raceKey(s string) string {
	i := strings.Index(s, "DATA RACE")
	for _, l := range strings.Split(s[i:], "\n") {
		l = strings.TrimSpace(l)
		if strings.HasPrefix(l, "github.com/gnolang/gno") {
			if j := strings.IndexByte(l, '('); j > 0 {
				l = l[:j]
			}
			return l
		}
	}
	return "unknown"
}

func replayFile(r *vk.Run) {
	b, err := os.ReadFile(r.ReplayIn)
	if err != nil {
		r.HarnessError("%v", err)
	}
	var f struct {
		Detail struct {
			Scenario string `json:"scenario"`
			Class    string `json:"class"`
			Schedule []int  `json:"schedule"`
		} `json:"detail"`
	}
	json.Unmarshal(b, &f)
	for si := range scenarios {
		sc := &scenarios[si]
		if sc.name != f.Detail.Scenario {
			continue
		}
		w, err := newWorld(sc)
		if err != nil {
			r.HarnessError("%v", err)
		}
		for i := 0; i < 2; i++ {
			w.runOnce(nil, false)
		}
		x, ex, err := w.runOnce(f.Detail.Schedule, true)
		if err != nil {
			r.HarnessError("%v", err)
		}
		fs := w.judgeAll(x, ex)
		_, o := w.judge(x)
		fmt.Printf("scenario %q\ntrace:\n  %s\nobservations: %s\n", sc.name, strings.Join(compressTrace(ex.Trace), "\n  "), o)
		hit := false
		for _, fd := range fs {
			fmt.Printf("finding: %s: %s\n", fd.class, fd.detail)
			hit = hit || fd.class == f.Detail.Class
		}
		if hit {
			fmt.Printf("VIOLATION property=%s replay=%s\n", r.ID, r.ReplayIn)
			os.Exit(1)
		}
		os.Exit(0)
	}
	r.HarnessError("unknown scenario in replay file")
}

var _ = crypto.Address{}
