package main

// Worker side: one VM keeper test environment (re-creation of gno.land/pkg/sdk/vm/common_test.go
// setupTestEnv) per worker process; every case is a MsgRun / MsgAddPackage executed on a throw-away
// cache-wrapped store with its own gas meter, under RLIMIT_AS.

import (
	"bufio"
	"errors"
	"fmt"
	"os"
	"path/filepath"
	"runtime"
	"runtime/debug"
	"runtime/pprof"
	"strconv"
	"strings"
	"syscall"

	"github.com/gnolang/gno/gno.land/pkg/sdk/vm"
	gno "github.com/gnolang/gno/gnovm/pkg/gnolang"
	bft "github.com/gnolang/gno/tm2/pkg/bft/types"
	"github.com/gnolang/gno/tm2/pkg/crypto"
	"github.com/gnolang/gno/tm2/pkg/db/memdb"
	"github.com/gnolang/gno/tm2/pkg/log"
	"github.com/gnolang/gno/tm2/pkg/sdk"
	authm "github.com/gnolang/gno/tm2/pkg/sdk/auth"
	bankm "github.com/gnolang/gno/tm2/pkg/sdk/bank"
	pm "github.com/gnolang/gno/tm2/pkg/sdk/params"
	"github.com/gnolang/gno/tm2/pkg/std"
	"github.com/gnolang/gno/tm2/pkg/store"
	storebptree "github.com/gnolang/gno/tm2/pkg/store/bptree"
	"github.com/gnolang/gno/tm2/pkg/store/dbadapter"
	stypes "github.com/gnolang/gno/tm2/pkg/store/types"
	"verif/engine/vk"
)

const memCapBytes = 12 << 30 // RLIMIT_AS of a worker (backstop; the parent enforces a 3 GiB RSS cap)

type env struct {
	ctx  sdk.Context
	ms   store.CommitMultiStore
	vmk  *vm.VMKeeper
	addr crypto.Address
}

func repoDir() string {
	if d := os.Getenv("VERIF_REPO"); d != "" {
		return d
	}
	return "/repo"
}

func setupEnv() *env {
	db := memdb.NewMemDB()
	baseCapKey := store.NewStoreKey("baseCapKey")
	iavlCapKey := store.NewStoreKey("iavlCapKey")
	ms := store.NewCommitMultiStore(db)
	ms.MountStoreWithDB(baseCapKey, dbadapter.StoreConstructor, db)
	ms.MountStoreWithDB(iavlCapKey, storebptree.FastStoreConstructor, db)
	ms.LoadLatestVersion()
	ctx := sdk.NewContext(sdk.RunTxModeDeliver, ms, &bft.Header{ChainID: "test-chain-id", Height: 42}, log.NewNoopLogger())
	prmk := pm.NewParamsKeeper(iavlCapKey)
	acck := authm.NewAccountKeeper(iavlCapKey, prmk.ForModule(authm.ModuleName), std.ProtoBaseAccount, std.ProtoBaseSessionAccount)
	bankk := bankm.NewBankKeeper(acck, prmk.ForModule(bankm.ModuleName), iavlCapKey, []string{"ugnot"})
	vmk := vm.NewVMKeeper(baseCapKey, iavlCapKey, acck, bankk, prmk)
	prmk.Register(authm.ModuleName, acck)
	prmk.Register(bankm.ModuleName, bankk)
	prmk.Register(vm.ModuleName, vmk)
	acck.SetParams(ctx, authm.DefaultParams())
	bankk.SetParams(ctx, bankm.DefaultParams())
	vmk.SetParams(ctx, vm.DefaultParams())
	mcw := ms.MultiCacheWrap()
	vmk.Initialize(log.NewNoopLogger(), mcw)
	stdlibCtx := vmk.MakeGnoTransactionStore(ctx.WithMultiStore(mcw))
	vmk.LoadStdlibCached(stdlibCtx, filepath.Join(repoDir(), "gnovm", "stdlibs"))
	vmk.CommitGnoTransactionStore(stdlibCtx)
	mcw.MultiWrite()
	vmk.PopulateStdlibCache()
	// the submitting account
	addr := crypto.AddressFromPreimage([]byte("c11-user"))
	acc := acck.NewAccountWithAddress(ctx, addr)
	acck.SetAccount(ctx, acc)
	bankk.SetCoins(ctx, addr, std.MustParseCoins("1000000000000ugnot"))
	return &env{ctx: ctx, ms: ms, vmk: vmk, addr: addr}
}

// outcome classes
const (
	clOK = iota
	clTypeCheck
	clValidation
	clGnoPanic
	clOutOfGas
	clAllocLimit
	clPreprocessErr
	clOtherGoPanic
	clRuntimeFault // VIOLATION
	nClasses
)

var className = [nClasses]string{"OK", "typecheck-error", "validation-error", "gno-panic", "out-of-gas", "alloc-limit", "preprocess-error", "other-go-panic(review)", "GO-RUNTIME-FAULT"}

type rawPanic struct {
	val   any
	stack string
}

var lastRaw *rawPanic

var debugOn = os.Getenv("C11_DEBUG") != ""

func gnoSite(stack string) string {
	// The ORIGINAL panic site: the first gno frame below the deepest panic( frame (re-panics from deferred
	// recover-and-rethrow handlers such as Machine.runOnce sit above it on the same stack).
	site := "?"
	armed := false
	for _, ln := range strings.Split(stack, "\n") {
		if strings.HasPrefix(ln, "panic(") {
			armed = true
			continue
		}
		if strings.HasPrefix(ln, "runtime.") || strings.HasPrefix(ln, "\t") {
			continue
		}
		if armed && (strings.HasPrefix(ln, "github.com/gnolang/gno/") || strings.HasPrefix(ln, "go/")) {
			fn := strings.TrimPrefix(ln, "github.com/gnolang/gno/")
			if i := strings.LastIndex(fn, "("); i > 0 {
				fn = fn[:i]
			}
			site = fn
			armed = false
		}
	}
	return site
}

func shortMsg(v any) string {
	s := fmt.Sprint(v)
	if i := strings.IndexByte(s, '\n'); i >= 0 {
		s = s[:i]
	}
	if len(s) > 140 {
		s = s[:140]
	}
	return s
}

func isRuntimeErr(v any) bool {
	if e, ok := v.(error); ok {
		var re runtime.Error
		return errors.As(e, &re)
	}
	return false
}

// classifyRaw classifies a raw recovered value.
func classifyRaw(v any) int {
	if e, ok := v.(error); ok {
		var oog stypes.OutOfGasError
		if errors.As(e, &oog) {
			return clOutOfGas
		}
		var up gno.UnhandledPanicError
		if errors.As(e, &up) {
			return clGnoPanic
		}
		if isRuntimeErr(v) {
			return clRuntimeFault
		}
		var pe *gno.PreprocessError
		if errors.As(e, &pe) {
			if strings.Contains(e.Error(), "allocation limit exceeded") {
				return clAllocLimit
			}
			return clPreprocessErr
		}
	}
	if _, ok := v.(stypes.OutOfGasError); ok {
		return clOutOfGas
	}
	s := fmt.Sprint(v)
	if strings.Contains(s, "allocation limit exceeded") {
		return clAllocLimit
	}
	return clOtherGoPanic
}

type caseResult struct {
	class int
	msg   string // for classes other-go-panic / runtime fault
	site  string
}

const realmPath = "gno.land/r/c11user/pkg"

func (e *env) runCase(c Case) (res caseResult) {
	base := e.ctx.WithMultiStore(e.ms.MultiCacheWrap()) // throw-away state of this case
	files := []*std.MemFile{{Name: "main.gno", Body: c.Src}}
	addPkg := func(ctx sdk.Context) error {
		fs := append([]*std.MemFile{{Name: "gnomod.toml", Body: gno.GenGnoModLatest(realmPath)}}, files...) // sorted by name
		msg := vm.MsgAddPackage{Creator: e.addr, Package: &std.MemPackage{Name: "pkg", Path: realmPath, Files: fs}}
		if err := msg.ValidateBasic(); err != nil {
			return err
		}
		return e.vmk.AddPackage(ctx, msg)
	}
	switch c.Kind {
	case kindRun:
		return e.step(c.ID, base, c.Gas, false, func(ctx sdk.Context) error {
			msg := vm.MsgRun{Caller: e.addr, Package: &std.MemPackage{Name: "main", Path: "", Files: files}}
			if err := msg.ValidateBasic(); err != nil {
				return err
			}
			_, err := e.vmk.Run(ctx, msg)
			return err
		})
	case kindAddPkg:
		return e.step(c.ID, base, c.Gas, false, addPkg)
	case kindRealm:
		// the package is added and COMMITTED to the case's state; every step then runs in its own transaction
		// store (or query store) on that state, so what it touches is loaded back from the store
		res = e.step(c.ID, base, c.Gas, true, addPkg)
		if res.class != clOK {
			return res
		}
		for _, st := range c.Steps {
			op, arg, _ := strings.Cut(st, ":")
			r := e.step(c.ID+" "+st, base, c.Gas, op == "call", func(ctx sdk.Context) error {
				var err error
				switch op {
				case "call":
					msg := vm.MsgCall{Caller: e.addr, PkgPath: realmPath, Func: arg}
					if err = msg.ValidateBasic(); err != nil {
						return err
					}
					_, err = e.vmk.Call(ctx, msg)
				case "qeval":
					_, err = e.vmk.QueryEval(ctx, realmPath, arg)
				case "qjson":
					_, err = e.vmk.QueryEvalJSON(ctx, realmPath, arg)
				default:
					panic("c11 harness: unknown step " + st)
				}
				return err
			})
			if r.class == clRuntimeFault || r.class == clOtherGoPanic {
				r.msg = st + ": " + r.msg
				return r
			}
			res = r
		}
		return res
	}
	panic("c11 harness: unknown case kind")
}

// step runs one message (or query) in a fresh transaction store on the state `base` and classifies how it
// ended; commit: write the transaction store back to `base` when the message succeeded.
func (e *env) step(id string, base sdk.Context, gas int64, commit bool, run func(ctx sdk.Context) error) (res caseResult) {
	lastRaw = nil
	ctx := e.vmk.MakeGnoTransactionStore(base.WithGasMeter(stypes.NewGasMeter(gas)))
	var err error
	var esc any
	escStack := ""
	func() {
		defer func() {
			if r := recover(); r != nil {
				// escaped the keeper: out-of-gas is re-panicked on purpose (the baseapp handles it); anything
				// else was not covered by the keeper's doRecover at all (e.g. a panic inside type checking)
				esc = r
				escStack = string(debug.Stack())
			}
		}()
		err = run(ctx)
		if err == nil && commit {
			e.vmk.CommitGnoTransactionStore(ctx)
		}
	}()
	if debugOn {
		fmt.Fprintf(os.Stderr, "# %s: err=%v esc=%v raw=%v\n", id, shortMsg(err), shortMsg(esc), lastRaw != nil)
	}
	if esc != nil {
		cl := classifyRaw(esc)
		res.class = cl
		if cl == clRuntimeFault || cl == clOtherGoPanic {
			res.msg = "escaped keeper: " + shortMsg(esc)
			res.site = gnoSite(escStack)
		}
		return res
	}
	if err == nil {
		return caseResult{class: clOK}
	}
	if lastRaw != nil { // went through the keeper's doRecover: classify the RAW value
		cl := classifyRaw(lastRaw.val)
		res.class = cl
		if cl == clRuntimeFault || cl == clOtherGoPanic {
			res.msg = shortMsg(lastRaw.val)
			res.site = gnoSite(lastRaw.stack)
		}
		return res
	}
	var oog stypes.OutOfGasError
	if errors.As(err, &oog) {
		return caseResult{class: clOutOfGas}
	}
	es := err.Error()
	// a Go runtime fault recovered deeper (parser / Go2Gno) and rendered as an error is still a fault
	if strings.Contains(es, "runtime error: ") && (strings.Contains(es, "invalid memory address") || strings.Contains(es, "index out of range") || strings.Contains(es, "slice bounds out of range") || strings.Contains(es, "interface conversion") || strings.Contains(es, "nil map")) {
		i := strings.Index(es, "runtime error: ")
		return caseResult{class: clRuntimeFault, msg: "rendered as error: " + shortMsg(es[i:]), site: "error-path"}
	}
	if strings.Contains(es, "type check failed") {
		return caseResult{class: clTypeCheck}
	}
	return caseResult{class: clValidation}
}

func workerMain() {
	// memory cap for this process
	capBytes := uint64(memCapBytes)
	if g, err := strconv.Atoi(os.Getenv("C11_MEMCAP_GB")); err == nil && g > 0 { // experiments only
		capBytes = uint64(g) << 30
	}
	lim := syscall.Rlimit{Cur: capBytes, Max: capBytes}
	if err := syscall.Setrlimit(syscall.RLIMIT_AS, &lim); err != nil {
		fmt.Println("E cannot set RLIMIT_AS:", err)
		os.Exit(3)
	}
	// no GOMEMLIMIT: a soft limit near the live heap makes the GC thrash and turns memory growth into CPU time
	vm.VerifRecoverHook = func(r any) { lastRaw = &rawPanic{val: r, stack: string(debug.Stack())} }
	if pf := os.Getenv("C11_PROF"); pf != "" { // debugging: CPU profile of the worker (including environment set-up)
		f, _ := os.Create(pf)
		pprof.StartCPUProfile(f)
		defer pprof.StopCPUProfile()
	}
	e := setupEnv()
	g := newGen(os.Getenv("C11_TIER") == "thorough")
	if lf := os.Getenv("C11_LISTIDS"); lf != "" { // debugging: print the ids of a family
		f := g.family(lf)
		for i := int64(0); i < f.Size(); i++ {
			if l, ok := f.(*lazyFamily); ok {
				fmt.Println(i, l.ids[i])
			} else {
				fmt.Println(i, f.Case(i).ID)
			}
		}
		pprof.StopCPUProfile()
		os.Exit(0)
	}
	if sf := os.Getenv("C11_SRCFILE"); sf != "" { // ad-hoc replay of one source file
		b, _ := os.ReadFile(sf)
		kind := kindRun
		var steps []string
		if strings.HasPrefix(string(b), "package pkg") {
			kind = kindAddPkg
			if st := os.Getenv("C11_STEPS"); st != "" { // e.g. "call:Show,qeval:G"
				kind, steps = kindRealm, strings.Split(st, ",")
			}
		}
		gas := int64(20_000_000)
		if g, err := strconv.ParseInt(os.Getenv("C11_GAS"), 10, 64); err == nil {
			gas = g
		}
		debugOn = true
		res := e.runCase(Case{ID: sf, Kind: kind, Src: string(b), Gas: gas, Steps: steps})
		fmt.Printf("class=%s msg=%q site=%s\n", className[res.class], res.msg, res.site)
		pprof.StopCPUProfile()
		os.Exit(0)
	}
	out := bufio.NewWriterSize(os.Stdout, 1<<16)
	fmt.Fprintln(out, "READY")
	out.Flush()
	sc := bufio.NewScanner(os.Stdin)
	for sc.Scan() {
		var fam string
		var from, to int64
		if _, err := fmt.Sscan(sc.Text(), &fam, &from, &to); err != nil {
			continue
		}
		f := g.family(fam)
		if f == nil {
			fmt.Fprintln(out, "E unknown family", fam)
			out.Flush()
			continue
		}
		for i := from; i < to; i++ {
			if only := os.Getenv("C11_ONLY"); only != "" {
				if lf, ok := f.(*lazyFamily); ok && !strings.Contains(lf.ids[i], only) {
					continue
				}
			}
			c := f.Case(i)
			if only := os.Getenv("C11_ONLY"); only != "" && !strings.Contains(c.ID, only) {
				continue
			}
			fmt.Fprintf(out, "S %d\n", i)
			out.Flush()
			var ru0, ru1 syscall.Rusage
			if debugOn {
				syscall.Getrusage(syscall.RUSAGE_SELF, &ru0)
			}
			res := e.runCase(c)
			if debugOn {
				syscall.Getrusage(syscall.RUSAGE_SELF, &ru1)
				cpu := float64(ru1.Utime.Nano()+ru1.Stime.Nano()-ru0.Utime.Nano()-ru0.Stime.Nano()) / 1e9
				fmt.Fprintf(os.Stderr, "#T %.3f %s %s maxrss=%dMB\n", cpu, className[res.class], c.ID, ru1.Maxrss/1024)
			}
			if res.class == clRuntimeFault || res.class == clOtherGoPanic {
				fmt.Fprintf(out, "X %d %s\n", i, vk.J(map[string]any{"cl": res.class, "msg": res.msg, "site": res.site}))
			}
			fmt.Fprintf(out, "D %d\n", res.class)
		}
		fmt.Fprintln(out, "C")
		out.Flush()
	}
	pprof.StopCPUProfile()
	os.Exit(0)
}
