package main

// Case generators (all deterministic, index-addressable so that parent and workers agree without
// shipping sources around).

import (
	"fmt"
	"go/scanner"
	"go/token"
	"strings"
)

const (
	kindRun = iota
	kindAddPkg
)

type Case struct {
	ID   string
	Kind int
	Src  string
	Gas  int64
	// kindRealm only: what happens after the package has been added and committed, one transaction (or query)
	// each: "call:<Func>", "qeval:<expr>", "qjson:<expr>"
	Steps []string
}

type family interface {
	Name() string
	Size() int64
	Case(i int64) Case
}

type gen struct {
	fams []family
}

func (g *gen) family(name string) family {
	for _, f := range g.fams {
		if f.Name() == name {
			return f
		}
	}
	return nil
}

// ---------------------------------------------------------------------------------------------
// (a) token sequences

// 34 tokens. Identifiers refer to the prelude (x: var of struct type T, f: variadic func, T: struct type).
var alphabet = []string{
	"x", "f", "T", "int", "nil", "_",
	"0", "1e9", `"s"`, "'a'",
	"(", ")", "{", "}", "[", "]", ",", ";", ".", ":",
	"=", ":=", "+", "*", "&", "<-", "...", "!",
	"func", "type", "var", "struct", "for", "return",
}

// 16-token sub-alphabet for one extra level of depth
var subAlphabet = []string{"x", "f", "T", "0", "(", ")", "{", "}", "[", "]", ".", "=", "*", "func", "struct", "for"}

const prelude = "package main\n\ntype T struct {\n\tx int\n\tf func(...int) T\n}\n\nvar x T\n\nfunc f(a ...int) int { return len(a) }\n\n"

type template struct {
	name      string
	pre, post string
}

var templates = []template{
	{"raw", "package main;", ""},                                 // literally: appended to `package main;`
	{"rawfn", "package main; func main(){", ""},                  // literally: appended to `package main; func main(){`
	{"decl", prelude + "func main() {}\n\n", "\n"},               // top-level context with names in scope
	{"stmt", prelude + "func main() {\n\t", "\n}\n"},             // statement context, body closed
	{"expr", prelude + "func main() {\n\tprintln(", ")\n}\n"},    // expression context
}

type seqFamily struct {
	name  string
	alpha []string
	k     int
	tpl   template
	gas   int64
}

func (s *seqFamily) Name() string { return s.name }
func (s *seqFamily) Size() int64 {
	n := int64(1)
	for i := 0; i < s.k; i++ {
		n *= int64(len(s.alpha))
	}
	return n
}

func (s *seqFamily) Case(i int64) Case {
	toks := make([]string, s.k)
	x := i
	for p := s.k - 1; p >= 0; p-- {
		toks[p] = s.alpha[x%int64(len(s.alpha))]
		x /= int64(len(s.alpha))
	}
	seq := strings.Join(toks, " ")
	return Case{ID: s.tpl.name + ":" + seq, Kind: kindRun, Src: s.tpl.pre + seq + s.tpl.post, Gas: s.gas}
}

// ---------------------------------------------------------------------------------------------
// generic list family

type listFamily struct {
	name  string
	cases []Case
}

func (l *listFamily) Name() string      { return l.name }
func (l *listFamily) Size() int64       { return int64(len(l.cases)) }
func (l *listFamily) Case(i int64) Case { return l.cases[i] }

// lazy list family (sources built on demand: ladders can be megabytes)
type lazyFamily struct {
	name string
	ids  []string
	mk   []func() Case
}

func (l *lazyFamily) Name() string { return l.name }
func (l *lazyFamily) Size() int64  { return int64(len(l.mk)) }
func (l *lazyFamily) Case(i int64) Case {
	c := l.mk[i]()
	c.ID = l.ids[i]
	return c
}

func (l *lazyFamily) add(id string, f func() Case) { l.ids = append(l.ids, id); l.mk = append(l.mk, f) }

// ---------------------------------------------------------------------------------------------
// (b) nesting ladders

type ladder struct {
	name string
	mk   func(n int) string // full program
}

func rep(s string, n int) string { return strings.Repeat(s, n) }

func mainWrap(decls, body string) string {
	return "package main\n\n" + decls + "\nfunc main() {\n" + body + "\n}\n"
}

var ladders = []ladder{
	{"parens", func(n int) string { return mainWrap("", "println("+rep("(", n)+"1"+rep(")", n)+")") }},
	{"unary-minus", func(n int) string { return mainWrap("", "println("+rep("- ", n)+"1)") }},
	{"unary-not", func(n int) string { return mainWrap("", "println("+rep("!", n)+"true)") }},
	{"unary-xor", func(n int) string { return mainWrap("", "println("+rep("^", n)+"1)") }},
	{"deref-chain", func(n int) string { return mainWrap("var p "+rep("*", n)+"int", "println("+rep("*", n)+"p)") }},
	{"addr-of-composite", func(n int) string { return mainWrap("type T struct{ p *T }", "v := "+rep("&T{p: ", n)+"nil"+rep("}", n)+"\n_ = v") }},
	{"slice-type", func(n int) string { return mainWrap("var v "+rep("[]", n)+"int", "println(len(v))") }},
	{"array-type", func(n int) string { return mainWrap("var v "+rep("[1]", n)+"int", "println(len(v))") }},
	{"pointer-type", func(n int) string { return mainWrap("var v "+rep("*", n)+"int", "println(v == nil)") }},
	{"map-type", func(n int) string { return mainWrap("var v "+rep("map[int]", n)+"int", "println(len(v))") }},
	{"func-type", func(n int) string { return mainWrap("var v "+rep("func() ", n)+"int", "println(v == nil)") }},
	{"struct-in-struct", func(n int) string { return mainWrap("var v "+rep("struct{ a ", n)+"int"+rep(" }", n), "_ = v") }},
	{"interface-in-interface", func(n int) string {
		return mainWrap("var v "+rep("interface{ m() ", n)+"int"+rep(" }", n), "println(v == nil)")
	}},
	{"composite-literal", func(n int) string { return mainWrap("", "v := "+rep("[]", n)+"int"+rep("{", n)+rep("}", n)+"\n_ = v") }},
	{"func-literal", func(n int) string { return mainWrap("", rep("func() {\n", n)+rep("}()\n", n)) }},
	{"func-literal-expr", func(n int) string {
		return mainWrap("", "v := "+rep("func() any { return ", n)+"1"+rep(" }", n)+"\n_ = v")
	}},
	{"blocks", func(n int) string { return mainWrap("", rep("{", n)+rep("}", n)) }},
	{"nested-if", func(n int) string { return mainWrap("var c = true", rep("if c {\n", n)+rep("}\n", n)) }},
	{"else-if-chain", func(n int) string { return mainWrap("var c = false", "if c {\n}"+rep(" else if c {\n}", n)) }},
	{"nested-for", func(n int) string { return mainWrap("", rep("for i := 0; i < 1; i++ {\n", n)+rep("}\n", n)) }},
	{"nested-switch", func(n int) string { return mainWrap("var c = 1", rep("switch c {\ncase 1:\n", n)+rep("}\n", n)) }},
	{"selector-chain", func(n int) string { return mainWrap("type T struct{ a *T }\nvar x = &T{}", "println(x"+rep(".a", n)+" == nil)") }},
	{"call-chain", func(n int) string {
		return mainWrap("type F func() F\nfunc g() F { return g }", "v := g"+rep("()", n)+"\n_ = v")
	}},
	{"index-chain", func(n int) string { return mainWrap("var a "+rep("[]", n)+"int", "_ = a"+rep("[0]", n)) }},
	{"binary-left", func(n int) string { return mainWrap("var a = 1", "println(a"+rep(" + a", n)+")") }},
	{"binary-right", func(n int) string { return mainWrap("var a = 1", "println("+rep("a + (", n)+"a"+rep(")", n)+")") }},
	{"const-binary-left", func(n int) string { return mainWrap("", "println(1"+rep(" + 1", n)+")") }},
	{"string-concat", func(n int) string { return mainWrap("", "println(len(\"a\""+rep(" + \"a\"", n)+"))") }},
	{"logical-and", func(n int) string { return mainWrap("var c = true", "println(c"+rep(" && c", n)+")") }},
	{"statements", func(n int) string { return mainWrap("var a int", rep("a++\n", n)) }},
	{"var-decls", func(n int) string {
		var b strings.Builder
		for i := 0; i < n; i++ {
			fmt.Fprintf(&b, "var v%d = %d\n", i, i)
		}
		return mainWrap(b.String(), "")
	}},
	{"const-chain", func(n int) string {
		var b strings.Builder
		b.WriteString("const c0 = 1\n")
		for i := 1; i <= n; i++ {
			fmt.Fprintf(&b, "const c%d = c%d + 1\n", i, i-1)
		}
		return mainWrap(b.String(), fmt.Sprintf("println(c%d)", n))
	}},
	{"var-init-chain", func(n int) string { // reverse dependency order: v0 depends on v1 ... on vn
		var b strings.Builder
		for i := 0; i < n; i++ {
			fmt.Fprintf(&b, "var v%d = v%d + 1\n", i, i+1)
		}
		fmt.Fprintf(&b, "var v%d = 0\n", n)
		return mainWrap(b.String(), "println(v0)")
	}},
	{"type-alias-chain", func(n int) string {
		var b strings.Builder
		b.WriteString("type t0 int\n")
		for i := 1; i <= n; i++ {
			fmt.Fprintf(&b, "type t%d t%d\n", i, i-1)
		}
		return mainWrap(b.String(), fmt.Sprintf("var v t%d\nprintln(v)", n))
	}},
	{"func-params", func(n int) string {
		var ps, as []string
		for i := 0; i < n; i++ {
			ps = append(ps, fmt.Sprintf("p%d int", i))
			as = append(as, "0")
		}
		return mainWrap("func g("+strings.Join(ps, ", ")+") {}", "g("+strings.Join(as, ", ")+")")
	}},
	{"struct-fields", func(n int) string {
		var b strings.Builder
		b.WriteString("type S struct {\n")
		for i := 0; i < n; i++ {
			fmt.Fprintf(&b, "\tf%d int\n", i)
		}
		b.WriteString("}\n")
		return mainWrap(b.String(), "var s S\n_ = s")
	}},
	{"slice-literal-elems", func(n int) string { return mainWrap("", "v := []int{"+rep("1, ", n)+"}\nprintln(len(v))") }},
	{"switch-cases", func(n int) string {
		var b strings.Builder
		b.WriteString("switch c {\n")
		for i := 0; i < n; i++ {
			fmt.Fprintf(&b, "case %d:\n", i)
		}
		b.WriteString("}\n")
		return mainWrap("var c = -1", b.String())
	}},
	{"embedded-structs", func(n int) string {
		var b strings.Builder
		b.WriteString("type e0 struct{ v int }\n")
		for i := 1; i <= n; i++ {
			fmt.Fprintf(&b, "type e%d struct{ e%d }\n", i, i-1)
		}
		return mainWrap(b.String(), fmt.Sprintf("var s e%d\nprintln(s.v)", n))
	}},
	{"runtime-recursion", func(n int) string {
		return mainWrap("func r(n int) int {\n\tif n == 0 {\n\t\treturn 0\n\t}\n\treturn 1 + r(n-1)\n}", fmt.Sprintf("println(r(%d))", n))
	}},
	{"runtime-defer-stack", func(n int) string {
		return mainWrap("var c int", fmt.Sprintf("for i := 0; i < %d; i++ {\n\tdefer func() { c++ }()\n}", n))
	}},
	{"runtime-nested-slices", func(n int) string { // value nesting built at run time
		return mainWrap("", fmt.Sprintf("var v any = 0\nfor i := 0; i < %d; i++ {\n\tv = []any{v}\n}\nprintln(v != nil)", n))
	}},
	{"runtime-linked-print", func(n int) string { // deep object graph rendered by println
		return mainWrap("type N struct{ next *N }", fmt.Sprintf("var h *N\nfor i := 0; i < %d; i++ {\n\th = &N{h}\n}\nprintln(h)", n))
	}},
	{"runtime-panic-deep-value", func(n int) string { // panic value rendering of a deep value
		return mainWrap("", fmt.Sprintf("var v any = 0\nfor i := 0; i < %d; i++ {\n\tv = []any{v}\n}\npanic(v)", n))
	}},
}

func ladderSizes(thorough bool) []int {
	ns := []int{1, 2, 3, 4, 8, 16, 32, 64, 99, 100, 101, 128, 256, 512, 1000, 1024, 2048}
	if thorough {
		ns = append(ns, 4096, 8192, 10000, 16384, 30000, 65536, 99999, 100000, 100001, 131072, 200000)
	}
	return ns
}

// sources above this size are not generated (a transaction cannot carry them)
const maxSrcBytes = 1 << 20

// ---------------------------------------------------------------------------------------------
// (c) huge constants

func constCases(thorough bool) []Case {
	var cs []Case
	add := func(id, decls, body string) {
		cs = append(cs, Case{ID: "const:" + id, Kind: kindRun, Src: mainWrap(decls, body), Gas: 100_000_000})
	}
	shifts := []string{"0", "1", "7", "8", "31", "32", "62", "63", "64", "65", "127", "128", "255", "256", "511", "512", "513", "1023", "1024", "10000", "100000", "1000000", "1000000000", "4611686018427387904", "18446744073709551615", "-1"}
	for _, k := range shifts {
		add("constshift-roundtrip/"+k, "const c = 1 << "+k, "println(c >> "+k+")")
		add("constshift-int/"+k, "", "var v int = 1 << "+k+"\nprintln(v)")
		add("constshift-untyped-var/"+k, "", "v := 1 << "+k+"\nprintln(v)")
		add("varshift/"+k, "", "s := uint("+k+")\nprintln(1 << s)")
		add("floatshift/"+k, "", "println(1.0 << "+k+")")
		add("bigmul/"+k, "const c = 1 << "+k, "println(c * c / c / c)")
		add("array-len-shift/"+k, "", "var a [1 << "+k+"]byte\nprintln(len(a))")
		add("make-shift/"+k, "", "a := make([]byte, 1 << "+k+")\nprintln(len(a))")
	}
	// constant len/cap of array composite literals: evaluated by a preprocess-time sub-machine
	for _, k := range []string{"4", "10", "16", "20", "22", "24", "25", "26", "28", "30", "33", "40", "62"} {
		add("array-literal-len/"+k, "const n = len([1 << "+k+"]int{})", "println(n)")
		add("array-literal-len-struct/"+k, "", "println(len([1 << "+k+"]struct{ a, b int }{}))")
		add("array-literal-cap-nested/"+k, "const n = cap([1 << "+k+"][2]byte{})", "println(n)")
		add("array-literal-len-in-type/"+k, "var a [len([1 << "+k+"]byte{}) >> "+k+"]bool", "println(len(a))")
	}
	digits := []int{1, 10, 18, 19, 20, 38, 39, 40, 77, 78, 100, 154, 155, 1000, 10000, 100000}
	if thorough {
		digits = append(digits, 1000000)
	}
	for _, d := range digits {
		nine := rep("9", d)
		add(fmt.Sprintf("int-literal/%d", d), "const c = "+nine, "println(c / c)")
		add(fmt.Sprintf("int-literal-var/%d", d), "", "v := "+nine+"\nprintln(v)")
		add(fmt.Sprintf("hex-literal/%d", d), "const c = 0x"+rep("f", d), "println(c % 7)")
		add(fmt.Sprintf("float-literal-frac/%d", d), "const c = 0."+nine, "println(c)")
		add(fmt.Sprintf("float-literal-int/%d", d), "const c = "+nine+".0", "println(c > 1)")
		add(fmt.Sprintf("float64-conv/%d", d), "", "var v float64 = "+nine+".5\nprintln(v)")
		add(fmt.Sprintf("string-literal/%d", d), "const c = \""+rep("a", d)+"\"", "println(len(c))")
		add(fmt.Sprintf("rune-string/%d", d), "", "println(len(string(rune("+nine+"))))")
	}
	exps := []string{"1", "10", "38", "39", "308", "309", "1000", "10000", "100000", "1000000", "10000000", "1000000000", "2147483647", "2147483648", "9223372036854775807", "99999999999999999999"}
	for _, e := range exps {
		for _, sign := range []string{"", "-"} {
			add("exp-const/"+sign+e, "const c = 1e"+sign+e, "println(c > 0)")
			add("exp-const-arith/"+sign+e, "const c = 1e"+sign+e, "const d = c * c / c\nprintln(d > 0)")
			add("exp-float64/"+sign+e, "", "var v float64 = 1e"+sign+e+"\nprintln(v)")
			add("exp-int/"+sign+e, "", "var v int = 1e"+sign+e+"\nprintln(v)")
			add("hexfloat-exp/"+sign+e, "const c = 0x1p"+sign+e, "println(c > 0)")
		}
	}
	// constant growth by repeated squaring / doubling
	maxD := 27
	if thorough {
		maxD = 30
	}
	for d := 1; d <= maxD; d++ {
		if !thorough && d > 20 && d != 27 {
			continue // quick: 1..20 and 27 (21..26 cost 5-50 s CPU each and add nothing to the verdict)
		}
		var b strings.Builder
		b.WriteString("const c0 = 1 << 62\n")
		for i := 1; i <= d; i++ {
			fmt.Fprintf(&b, "const c%d = c%d * c%d\n", i, i-1, i-1)
		}
		add(fmt.Sprintf("squaring/%d", d), b.String(), fmt.Sprintf("println(c%d > 0)", d))
		b.Reset()
		b.WriteString("const s0 = \"ab\"\n")
		for i := 1; i <= d; i++ {
			fmt.Fprintf(&b, "const s%d = s%d + s%d\n", i, i-1, i-1)
		}
		add(fmt.Sprintf("string-doubling-const/%d", d), b.String(), fmt.Sprintf("println(len(s%d))", d))
		b.Reset()
		b.WriteString("var s0 = \"ab\"\n")
		for i := 1; i <= d; i++ {
			fmt.Fprintf(&b, "var s%d = s%d + s%d\n", i, i-1, i-1)
		}
		add(fmt.Sprintf("string-doubling-var/%d", d), b.String(), fmt.Sprintf("println(len(s%d))", d))
		b.Reset()
		b.WriteString("const f0 = 1e300\n")
		for i := 1; i <= d; i++ {
			fmt.Fprintf(&b, "const f%d = f%d * f%d\n", i, i-1, i-1)
		}
		add(fmt.Sprintf("float-squaring/%d", d), b.String(), fmt.Sprintf("println(f%d > 0)", d))
	}
	return cs
}

// ---------------------------------------------------------------------------------------------
// (d) cycles and resource-exhaustion menu

var cycleDecls = []string{
	"type T T",
	"type T struct{ t T }",
	"type T struct{ t [1]T }",
	"type T struct{ t [0]T }",
	"type T [1]T",
	"type T []T",
	"type T *T",
	"type T map[T]int",
	"type T map[int]T",
	"type T func(T) T",
	"type T interface{ m() T }",
	"type T interface{ T }",
	"type T struct{ T }",
	"type T struct{ *T }",
	"type T struct{ p *T; s []T; m map[string]T; f func(T) }",
	"type A B\ntype B A",
	"type A struct{ b B }\ntype B struct{ a A }",
	"type A struct{ b *B }\ntype B struct{ a *A }",
	"type A interface{ B }\ntype B interface{ A }",
	"type A interface{ m() B }\ntype B interface{ m() A }",
	"type A []B\ntype B []A",
	"type A [len(B{})]int\ntype B [len(A{})]int",
	"type A B\ntype B C\ntype C A",
	"type T [len(T{})]int",
	"type T struct{ a [len(T{}.a)]int }",
	"const a = a",
	"const a = b\nconst b = a",
	"const a = b + 1\nconst b = c + 1\nconst c = a + 1",
	"const a = len([a]int{})",
	"const (\n\ta = iota + b\n\tb\n)",
	"var a = a",
	"var a = b\nvar b = a",
	"var a, b = b, a",
	"var a = g()\nfunc g() int { return a }",
	"var a = func() int { return a }()",
	"var a = &a",
	"var a any = &a",
	"var a = []any{a}",
	"var a [len(a)]int",
	"var a = len(a)",
	"var a int = b\nvar b int = c\nvar c int = a",
	"func g() { g() }\nvar a = g",
	"func (t T) m() T { return t.m() }\ntype T struct{}",
	"type T struct{}\nfunc (T) m() {}\nfunc (T) m() {}",
	"type I interface{ m(I) I }\ntype S struct{}\nfunc (s S) m(i I) I { return i.m(s) }",
	"func init() { init() }",
	"func main() {}",
	"func init() { main() }",
	"import \"main\"",
	"import m \"gno.land/e/x/run\"",
	"type T = T",
	"type A = B\ntype B = A",
	"type A = []A",
	"type A = struct{ a *A }",
	"type T[P any] struct{ p P }",
	"func g[P any](p P) P { return p }",
	"var _ = T{}\ntype T struct{ _ int; _ int }",
	"type T struct{ a, a int }",
	"var x, x int",
	"func main() {}\nfunc main() {}",
}

var resourceBodies = []string{
	"for {\n}",
	"for {\n\tprintln(1)\n}",
	"var a []int\nfor {\n\ta = append(a, 1)\n}",
	"s := \"a\"\nfor {\n\ts += s\n}",
	"m := map[int]int{}\nfor i := 0; ; i++ {\n\tm[i] = i\n}",
	"var f func()\nf = func() { f() }\nf()",
	"var f func(int) int\nf = func(n int) int { return f(n+1) + 1 }\nprintln(f(0))",
	"defer func() {\n\trecover()\n\tmain()\n}()\npanic(1)",
	"for {\n\tdefer func() {}()\n}",
	"for {\n\tfunc() {\n\t\tdefer func() { recover() }()\n\t\tpanic(\"x\")\n\t}()\n}",
	"a := make([]int, 1<<40)\nprintln(len(a))",
	"a := make([]int, 1<<62)\nprintln(len(a))",
	"a := make([]int, -1)\nprintln(len(a))",
	"n := -1\na := make([]int, n)\nprintln(len(a))",
	"n := 1 << 40\na := make([]byte, n)\nprintln(len(a))",
	"n := 1 << 28\na := make([]byte, n)\nb := make([]byte, n)\nprintln(len(a), len(b))",
	"n := 1 << 20\na := make([][]byte, n)\nfor i := range a {\n\ta[i] = make([]byte, n)\n}",
	"a := make(map[int]int, 1<<40)\nprintln(len(a))",
	"a := new([1 << 33]byte)\nprintln(len(a))",
	"var a [1 << 33]byte\nprintln(len(a))",
	"var a [1 << 20][1 << 20]int\nprintln(len(a))",
	"type B struct{ a [1 << 30]int64 }\nvar b B\nprintln(len(b.a))",
	"type B struct{ a [1 << 16]int64 }\nvar b [1 << 16]B\nprintln(len(b))",
	"a := [1 << 24]int{}\nb := a\nc := b\nprintln(len(c))",
	"a := make([]int, 1<<24)\nfor {\n\ta = append(a, a...)\n}",
	"s := string(make([]byte, 1<<28))\nprintln(len(s + s + s + s))",
	"var p *int\nprintln(*p)",
	"var a []int\nprintln(a[5])",
	"a := []int{1}\ni := -1\nprintln(a[i])",
	"var m map[string]int\nm[\"a\"] = 1",
	"var i any = \"s\"\nprintln(i.(int))",
	"a, b := 1, 0\nprintln(a / b)",
	"a, b := 1, 0\nprintln(a % b)",
	"a := -9223372036854775808\nb := -1\nprintln(a / b)",
	"var f func()\nf()",
	"type I interface{ m() }\nvar i I\ni.m()",
	"a := []int{1, 2, 3}\nprintln(a[2:1])",
	"a := []int{1, 2, 3}\ni := 5\nprintln(a[:i])",
	"a := [3]int{}\np := &a\np = nil\nprintln(p[1])",
	"s := \"abc\"\ni := 10\nprintln(s[i])",
	"a := [3]int{1, 2, 3}\ni := 5\nprintln(a[i])",
	"a := [3]int{1, 2, 3}\ni := -1\nprintln(a[i])",
	"var p *[3]int\nprintln(len(p[0:2]))",
	"var p *[3]int\nfor i, v := range p {\n\tprintln(i, v)\n}",
	"var p *struct{ a [3]int }\nprintln(p.a[1])",
	"var m map[string][]int\nm[\"a\"][0] = 1",
	"a := []int{1, 2, 3}\ni, j := 2, 1\nprintln(len(a[i:j]))",
	"a := make([]int, 2, 4)\ni := 5\nprintln(len(a[:i]))",
	"s := \"abc\"\ni, j := 2, 1\nprintln(s[i:j])",
	"x := uint(1) << 70\nprintln(x)",
	"var s uint = 1 << 63\nprintln(1 << s)",
	"n := -1\nprintln(1 << n)",
	"panic(nil)",
	"panic(panic)",
	"var e error\npanic(e)",
	"panic(main)",
	"panic(struct{ a []int }{nil})",
	"defer panic(1)\npanic(2)",
	"defer func() { panic(recover()) }()\npanic(1)",
	"defer func() {\n\tdefer func() { recover() }()\n\tpanic(2)\n}()\npanic(1)",
	"var a any\na = &a\nprintln(a)",
	"type N struct{ n *N }\nn := &N{}\nn.n = n\nprintln(n)",
	"type N struct{ n *N }\nn := &N{}\nn.n = n\npanic(n)",
	"m := map[any]any{}\nm[1] = m\nprintln(m)",
	"a := []any{nil}\na[0] = a\nprintln(a)",
	"a := []any{nil}\na[0] = a\npanic(a)",
	"m := map[any]int{}\nm[[]int{1}] = 1",
	"m := map[any]int{}\nm[func() {}] = 1",
	"var a, b any = []int{1}, []int{1}\nprintln(a == b)",
	"var a, b any = func() {}, func() {}\nprintln(a == b)",
	"goto L\nL:\n\tgoto L",
	"L:\n\tfor {\n\t\tcontinue L\n\t}",
	"for i := 0; i < 1<<62; i++ {\n}",
	"for range 1 << 62 {\n}",
	"for i := range make([]struct{}, 1<<40) {\n\t_ = i\n}",
	"println(string(rune(-1)), string(rune(0x10ffff+1)))",
	"var f float64\nprintln(1/f, -1/f, f/f, int(1/f), uint8(f/f))",
	"f := 1e308\nprintln(f*10, int64(f), uint64(f), int8(f))",
	"print(\"\\xff\\xfe\", \"\\x00\")",
	"println(len(\"\"[0:0]), cap([]int(nil)[0:0]))",
	"type T struct{ a [0]int }\nprintln(T{} == T{})",
	"var a [0]int\nfor range a {\n}\nprintln(len(a[:]))",
	"c := make(chan int)\nc <- 1",
	"go main()",
	"select {}",
	"import \"os\"",
	"var x = unsafe.Pointer(nil)",
}

func menuCases() []Case {
	var cs []Case
	for i, d := range cycleDecls {
		src := d
		if !strings.Contains(d, "func main()") {
			src = d + "\n\nfunc main() {}"
		}
		cs = append(cs, Case{ID: fmt.Sprintf("cycle-run/%02d:%s", i, oneLine(d)), Kind: kindRun, Src: "package main\n\n" + src + "\n", Gas: 20_000_000})
		cs = append(cs, Case{ID: fmt.Sprintf("cycle-addpkg/%02d:%s", i, oneLine(d)), Kind: kindAddPkg, Src: "package pkg\n\n" + d + "\n", Gas: 20_000_000})
		// the same declarations used from main
		cs = append(cs, Case{ID: fmt.Sprintf("cycle-used/%02d:%s", i, oneLine(d)), Kind: kindRun, Src: "package main\n\n" + strings.ReplaceAll(d, "func main() {}", "") + "\n\nfunc main() {\n\tvar v struct{}\n\t_ = v\n\tprintln(\"ok\")\n}\n", Gas: 20_000_000})
	}
	for i, b := range resourceBodies {
		if strings.HasPrefix(b, "import ") || strings.HasPrefix(b, "var x = unsafe") {
			cs = append(cs, Case{ID: fmt.Sprintf("resource/%02d:%s", i, oneLine(b)), Kind: kindRun, Src: "package main\n\n" + b + "\n\nfunc main() {}\n", Gas: 20_000_000})
			continue
		}
		cs = append(cs, Case{ID: fmt.Sprintf("resource/%02d:%s", i, oneLine(b)), Kind: kindRun, Src: mainWrap("", b), Gas: 20_000_000})
		if strings.Contains(b, "append(") || strings.Contains(b, "make(") || strings.Contains(b, "s += s") || strings.Contains(b, "1 << 2") || strings.Contains(b, "1 << 3") || strings.Contains(b, "m[i] = i") {
			// allocation-heavy: also with the block-maximum gas, so that the allocation limit (not gas) is the bound
			cs = append(cs, Case{ID: fmt.Sprintf("resource-maxgas/%02d:%s", i, oneLine(b)), Kind: kindRun, Src: mainWrap("", b), Gas: 3_000_000_000})
		}
		// the same body in a package-level initialiser of a realm (runs at AddPackage time)
		cs = append(cs, Case{ID: fmt.Sprintf("resource-init/%02d:%s", i, oneLine(b)), Kind: kindAddPkg, Src: "package pkg\n\nfunc main() {\n" + b + "\n}\n\nfunc init() { main() }\n", Gas: 20_000_000})
	}
	return cs
}

func oneLine(s string) string {
	s = strings.ReplaceAll(s, "\n", "; ")
	s = strings.ReplaceAll(s, "\t", "")
	if len(s) > 70 {
		s = s[:70] + "~"
	}
	return s
}

// ---------------------------------------------------------------------------------------------
// (e) single-token mutations of small valid programs

var seeds = []string{
	"package main\n\nfunc main() {\n\tprintln(1 + 2)\n}\n",
	"package main\n\nvar a = []int{1, 2, 3}\n\nfunc main() {\n\tfor i, v := range a {\n\t\tprintln(i, v)\n\t}\n}\n",
	"package main\n\ntype T struct {\n\ta int\n\tb string\n}\n\nfunc main() {\n\tt := T{a: 1, b: \"x\"}\n\tprintln(t.a, t.b)\n}\n",
	"package main\n\ntype I interface {\n\tm() int\n}\n\ntype S struct{ v int }\n\nfunc (s S) m() int { return s.v }\n\nfunc main() {\n\tvar i I = S{3}\n\tprintln(i.m())\n}\n",
	"package main\n\nfunc fib(n int) int {\n\tif n < 2 {\n\t\treturn n\n\t}\n\treturn fib(n-1) + fib(n-2)\n}\n\nfunc main() {\n\tprintln(fib(10))\n}\n",
	"package main\n\nfunc main() {\n\tm := map[string]int{\"a\": 1}\n\tm[\"b\"] = 2\n\tdelete(m, \"a\")\n\tv, ok := m[\"b\"]\n\tprintln(v, ok, len(m))\n}\n",
	"package main\n\nfunc main() {\n\tdefer func() {\n\t\tr := recover()\n\t\tprintln(r)\n\t}()\n\tpanic(\"boom\")\n}\n",
	"package main\n\nfunc main() {\n\ts := make([]int, 2, 4)\n\ts = append(s, 5)\n\tt := s[1:3]\n\tcopy(t, s)\n\tprintln(len(t), cap(t), t[0])\n}\n",
	"package main\n\nfunc main() {\n\tx := 5\n\tp := &x\n\t*p = 7\n\tprintln(x, *p)\n}\n",
	"package main\n\nfunc main() {\n\tswitch x := 3; {\n\tcase x > 2:\n\t\tprintln(\"big\")\n\t\tfallthrough\n\tdefault:\n\t\tprintln(\"d\")\n\t}\n}\n",
	"package main\n\nfunc main() {\n\tvar i any = 3\n\tswitch v := i.(type) {\n\tcase int:\n\t\tprintln(v + 1)\n\tcase string:\n\t\tprintln(v)\n\t}\n}\n",
	"package main\n\nfunc main() {\n\tf := func(a ...int) int { return len(a) }\n\tprintln(f(), f(1, 2), f([]int{1}...))\n}\n",
	"package main\n\nconst (\n\ta = iota\n\tb\n\tc = 1 << iota\n)\n\nfunc main() {\n\tprintln(a, b, c)\n}\n",
	"package main\n\nfunc main() {\nouter:\n\tfor i := 0; i < 3; i++ {\n\t\tfor j := 0; j < 3; j++ {\n\t\t\tif j == 1 {\n\t\t\t\tcontinue outer\n\t\t\t}\n\t\t\tif i == 2 {\n\t\t\t\tbreak outer\n\t\t\t}\n\t\t}\n\t}\n}\n",
	"package main\n\ntype E struct{ msg string }\n\nfunc (e *E) Error() string { return e.msg }\n\nfunc g() error { return &E{\"e\"} }\n\nfunc main() {\n\tif err := g(); err != nil {\n\t\tprintln(err.Error())\n\t}\n}\n",
	"package main\n\nfunc main() {\n\tvar a [3]int\n\tb := a\n\tb[0] = 1\n\tprintln(a[0], b[0], a == b)\n}\n",
	"package main\n\nfunc main() {\n\ts := \"héllo\"\n\tfor i, r := range s {\n\t\tprintln(i, r)\n\t}\n\tprintln(len(s), s[1:3], []byte(s)[0])\n}\n",
	"package main\n\ntype A struct{ x int }\n\ntype B struct {\n\tA\n\ty int\n}\n\nfunc (a A) get() int { return a.x }\n\nfunc main() {\n\tb := B{A{1}, 2}\n\tprintln(b.x, b.get(), b.y)\n}\n",
	"package main\n\nfunc main() {\n\tfs := []func() int{}\n\tfor i := 0; i < 3; i++ {\n\t\tfs = append(fs, func() int { return i })\n\t}\n\tfor _, f := range fs {\n\t\tprintln(f())\n\t}\n}\n",
	"package main\n\nfunc div(a, b int) (q, r int) {\n\tq = a / b\n\tr = a % b\n\treturn\n}\n\nfunc main() {\n\tq, r := div(7, 2)\n\tprintln(q, r)\n}\n",
	"package main\n\nimport \"strings\"\n\nfunc main() {\n\tprintln(strings.ToUpper(\"abc\"), strings.Repeat(\"x\", 3))\n}\n",
	"package main\n\nimport \"strconv\"\n\nfunc main() {\n\tn, err := strconv.Atoi(\"12\")\n\tprintln(n, err == nil, strconv.Itoa(n*2))\n}\n",
	"package main\n\nvar (\n\ta = b + 1\n\tb = c * 2\n\tc = 3\n)\n\nfunc init() { c++ }\n\nfunc main() {\n\tprintln(a, b, c)\n}\n",
	"package main\n\nfunc main() {\n\tvar x uint8 = 250\n\tx += 10\n\tvar y int8 = 127\n\ty++\n\tprintln(x, y, 7>>1, -7>>1, 1<<3|1, 6&^2)\n}\n",
	"package main\n\nfunc main() {\n\tf := 1.5\n\tg := float32(f) * 2\n\tprintln(f+1, g, int(f), f > 1, -f)\n}\n",
	"package main\n\ntype Stack []int\n\nfunc (s *Stack) Push(v int) { *s = append(*s, v) }\n\nfunc (s *Stack) Pop() int {\n\tv := (*s)[len(*s)-1]\n\t*s = (*s)[:len(*s)-1]\n\treturn v\n}\n\nfunc main() {\n\tvar s Stack\n\ts.Push(1)\n\tprintln(s.Pop())\n}\n",
	"package main\n\nfunc main() {\n\tm := map[[2]int]struct{ a, b int }{}\n\tm[[2]int{1, 2}] = struct{ a, b int }{3, 4}\n\tprintln(m[[2]int{1, 2}].b)\n}\n",
	"package main\n\ntype F func(int) F\n\nfunc main() {\n\tvar f F\n\tf = func(n int) F {\n\t\tprintln(n)\n\t\treturn f\n\t}\n\tf(1)(2)\n}\n",
	"package main\n\nfunc main() {\n\tx := []any{1, \"a\", nil, 2.5, []int{1}, map[string]int{}, struct{}{}}\n\tfor _, v := range x {\n\t\tprintln(v)\n\t}\n}\n",
	"package main\n\nfunc main() {\n\ta, b := 1, 2\n\ta, b = b, a\n\tvar c, d = a+b, a-b\n\tc, d = d, c\n\tprintln(a, b, c, d)\n}\n",
	"package main\n\nfunc main() {\n\tdefer println(\"a\")\n\tfor i := 0; i < 2; i++ {\n\t\tdefer func(n int) { println(n) }(i)\n\t}\n}\n",
	"package main\n\nfunc main() {\n\tvar p *struct{ a int }\n\tdefer func() { println(recover() != nil) }()\n\tprintln(p.a)\n}\n",
	"package main\n\nfunc main() {\n\ti := 0\nloop:\n\tif i < 3 {\n\t\ti++\n\t\tgoto loop\n\t}\n\tprintln(i)\n}\n",
	"package main\n\ntype T int\n\nconst (\n\tA T = iota\n\tB\n)\n\nfunc (t T) String() string { return [...]string{\"A\", \"B\"}[t] }\n\nfunc main() {\n\tprintln(A.String(), B)\n}\n",
	"package main\n\nfunc gen() func() int {\n\tn := 0\n\treturn func() int {\n\t\tn++\n\t\treturn n\n\t}\n}\n\nfunc main() {\n\tg := gen()\n\tg()\n\tprintln(g())\n}\n",
	"package main\n\nfunc main() {\n\tb := []byte(\"abc\")\n\tb[0] = 'z'\n\tr := []rune(\"héé\")\n\tprintln(string(b), len(r), string(r[1:]))\n}\n",
	"package main\n\nfunc main() {\n\tvar e1, e2 error\n\tprintln(e1 == e2, e1 == nil)\n\tvar i any = (*int)(nil)\n\tprintln(i == nil)\n}\n",
	"package main\n\nimport \"chain/runtime\"\n\nfunc main() {\n\tprintln(runtime.ChainHeight() > 0)\n}\n",
	"package main\n\nimport \"errors\"\n\nvar ErrX = errors.New(\"x\")\n\nfunc main() {\n\tprintln(ErrX.Error())\n}\n",
	"package main\n\nfunc main() {\n\tx := struct {\n\t\ta int\n\t\tb []string\n\t}{1, []string{\"p\", \"q\"}}\n\ty := x\n\ty.b[0] = \"z\"\n\tprintln(x.b[0], y.a)\n}\n",
}

type tok struct {
	off, end int
	lit      string
}

func tokenize(src string) []tok {
	fs := token.NewFileSet()
	file := fs.AddFile("", fs.Base(), len(src))
	var s scanner.Scanner
	s.Init(file, []byte(src), nil, 0)
	var ts []tok
	for {
		pos, t, lit := s.Scan()
		if t == token.EOF {
			break
		}
		if t == token.SEMICOLON && lit == "\n" {
			continue // automatic semicolon
		}
		off := file.Offset(pos)
		l := lit
		if l == "" {
			l = t.String()
		}
		ts = append(ts, tok{off, off + len(l), l})
	}
	return ts
}

func mutationFamily() *lazyFamily {
	lf := &lazyFamily{name: "mutations"}
	const gas = 20_000_000
	for si, src := range seeds {
		src := src
		ts := tokenize(src)
		lf.add(fmt.Sprintf("mut/seed%02d/identity", si), func() Case { return Case{Kind: kindRun, Src: src, Gas: gas} })
		for ti, t := range ts {
			if ti < 2 { // keep `package main`
				continue
			}
			t := t
			lf.add(fmt.Sprintf("mut/seed%02d/del[%d:%s]", si, ti, t.lit), func() Case {
				return Case{Kind: kindRun, Src: src[:t.off] + src[t.end:], Gas: gas}
			})
			for _, a := range alphabet {
				if a == t.lit {
					continue
				}
				a := a
				lf.add(fmt.Sprintf("mut/seed%02d/sub[%d:%s->%s]", si, ti, t.lit, a), func() Case {
					return Case{Kind: kindRun, Src: src[:t.off] + a + src[t.end:], Gas: gas}
				})
			}
			lf.add(fmt.Sprintf("mut/seed%02d/dup[%d:%s]", si, ti, t.lit), func() Case {
				return Case{Kind: kindRun, Src: src[:t.end] + " " + t.lit + src[t.end:], Gas: gas}
			})
		}
	}
	return lf
}

// ---------------------------------------------------------------------------------------------

func newGen(thorough bool) *gen {
	g := &gen{}
	const seqGas = 10_000_000
	maxK := 3
	if thorough {
		maxK = 4
	}
	for _, tp := range templates {
		for k := 0; k <= maxK; k++ {
			if k == 0 && (tp.name == "expr") {
				// println() with no args is fine too; keep
			}
			g.fams = append(g.fams, &seqFamily{name: fmt.Sprintf("seq/%s/k=%d", tp.name, k), alpha: alphabet, k: k, tpl: tp, gas: seqGas})
		}
		// one more level over the 16-token sub-alphabet
		g.fams = append(g.fams, &seqFamily{name: fmt.Sprintf("seq16/%s/k=%d", tp.name, maxK+1), alpha: subAlphabet, k: maxK + 1, tpl: tp, gas: seqGas})
	}
	lf := &lazyFamily{name: "ladders"}
	for _, ld := range ladders {
		for _, n := range ladderSizes(thorough) {
			ld, n := ld, n
			if n > 4096 && len(ld.mk(64))/64*n > maxSrcBytes {
				continue
			}
			if ld.name == "type-alias-chain" && n > 8192 {
				continue // go/types is cubic here: 4096 ~ 100 s CPU, 8192 ~ 15 min; larger rungs add nothing but hours
			}
			lf.add(fmt.Sprintf("ladder/%s/%d", ld.name, n), func() Case {
				return Case{Kind: kindRun, Src: ld.mk(n), Gas: 3_000_000_000}
			})
		}
	}
	g.fams = append(g.fams, lf)
	g.fams = append(g.fams, &listFamily{name: "consts", cases: constCases(thorough)})
	g.fams = append(g.fams, &listFamily{name: "menu", cases: menuCases()})
	g.fams = append(g.fams, &listFamily{name: "cycles", cases: cycleCases(thorough)})
	g.fams = append(g.fams, mutationFamily())
	return g
}

// ---------------------------------------------------------------------------------------------
// (f) reference cycles: cycle length x tail length x link kind x placement x consumer
//
// N = tail+cyc nodes n0..n(N-1); node i refers to node i+1, the last one back to node `tail` (a rho shape;
// tail 0 = a pure cycle). Every node owns one slot that holds the reference to its successor. Node kinds:
//
//	A  interface variable            var aI any           aI = R        referred to as &aI      (pointer to interface)
//	S  pointer to struct             var sI = &S{}        sI.p = R      referred to as sI       (pointer field in struct)
//	F  pointer to a struct field     var fI = &S{}        fI.p = R      referred to as &fI.p
//	E  pointer to a slice element    var eI = make([]any,1) eI[0] = R   referred to as &eI[0]
//	M  map value                     var mI = map[string]any{} mI["k"]=R referred to as mI
//	P  pointer of a recursive pointer type (type P *P)  var pI P  pI = &pJ   (no interface in the chain; pure only)
//
// A link pattern assigns a kind to every node (pure patterns and two rotations mixing all interface-slot kinds).
// Placement: nodes are locals of the building function (heap items) or package-level variables (block slots).
// Consumers walk the structure from the entry reference: println, uncaught panic (message rendering by the
// keeper), recover + println, map key (hash), interface equality; and as a realm: built by init and stored in a
// package variable (persistence walks it), then - each in its own transaction on the committed state, i.e.
// loaded back from the store - printed by a MsgCall, rendered by the qeval and JSON-eval queries, used as a
// panic value by a MsgCall, and printed once more.

const kindRealm = 2 // MsgAddPackage, commit, then Case.Steps one by one (each in a fresh transaction store)

var cyclePatterns = []struct{ name, rot string }{
	{"ptr-to-iface", "A"}, {"struct-ptr-field", "S"}, {"field-ptr", "F"}, {"slice-elem", "E"}, {"map-value", "M"}, {"ptr-type", "P"},
	{"mixed", "ASFEM"}, {"mixed-rev", "MEFSA"},
}

var cycleConsumers = []struct{ name, body string }{
	{"println", "println(ent)"},
	{"panic", "panic(ent)"},
	{"recover-println", "defer func() {\n\tr := recover()\n\tprintln(r)\n}()\npanic(ent)"},
	{"mapkey", "m := map[any]int{}\nm[ent] = 1\nprintln(m[ent], len(m))"},
	{"equal", "var o any = ent\nprintln(o == ent, o != nil)"},
}

// cycleParts returns the node declarations, the linking statements and the entry expression.
func cycleParts(rot string, cyc, tail int) (decls []string, links []string, entry string) {
	n := tail + cyc
	kind := func(i int) byte { return rot[i%len(rot)] }
	ref := func(i int) string {
		switch kind(i) {
		case 'A':
			return fmt.Sprintf("&a%d", i)
		case 'S':
			return fmt.Sprintf("s%d", i)
		case 'F':
			return fmt.Sprintf("&f%d.p", i)
		case 'E':
			return fmt.Sprintf("&e%d[0]", i)
		case 'M':
			return fmt.Sprintf("m%d", i)
		}
		return fmt.Sprintf("&p%d", i)
	}
	for i := 0; i < n; i++ {
		next := i + 1
		if next == n {
			next = tail
		}
		r := ref(next)
		switch kind(i) {
		case 'A':
			decls = append(decls, fmt.Sprintf("var a%d any", i))
			links = append(links, fmt.Sprintf("a%d = %s", i, r))
		case 'S':
			decls = append(decls, fmt.Sprintf("var s%d = &S{}", i))
			links = append(links, fmt.Sprintf("s%d.p = %s", i, r))
		case 'F':
			decls = append(decls, fmt.Sprintf("var f%d = &S{}", i))
			links = append(links, fmt.Sprintf("f%d.p = %s", i, r))
		case 'E':
			decls = append(decls, fmt.Sprintf("var e%d = make([]any, 1)", i))
			links = append(links, fmt.Sprintf("e%d[0] = %s", i, r))
		case 'M':
			decls = append(decls, fmt.Sprintf("var m%d = map[string]any{}", i))
			links = append(links, fmt.Sprintf("m%d[\"k\"] = %s", i, r))
		default:
			decls = append(decls, fmt.Sprintf("var p%d P", i))
			links = append(links, fmt.Sprintf("p%d = %s", i, r))
		}
	}
	entry = ref(0)
	if kind(0) == 'P' {
		entry = "p0"
	}
	return
}

func indent(lines []string) string {
	var b strings.Builder
	for _, l := range lines {
		for _, ll := range strings.Split(l, "\n") {
			b.WriteString("\t" + ll + "\n")
		}
	}
	return b.String()
}

func cycleBounds(thorough bool) (maxCyc, maxTail int) {
	if thorough {
		return 17, 5
	}
	return 9, 3
}

// cycleGroupSize: cases per (link pattern, consumer) group = cycle lengths x tail lengths x placements.
func cycleGroupSize(thorough bool) int64 {
	c, t := cycleBounds(thorough)
	return int64(c * (t + 1) * 2)
}

// cycleCases: ordered by (link pattern, consumer) group, within a group by cycle length, tail length, placement.
func cycleCases(thorough bool) []Case {
	maxCyc, maxTail := cycleBounds(thorough)
	const types = "type S struct{ p any }\n\ntype P *P\n\n"
	var cs []Case
	for _, pat := range cyclePatterns {
		for ci := 0; ci <= len(cycleConsumers); ci++ {
			for cyc := 1; cyc <= maxCyc; cyc++ {
				for tail := 0; tail <= maxTail; tail++ {
					decls, links, entry := cycleParts(pat.rot, cyc, tail)
					for _, place := range []string{"local", "global"} {
						shape := fmt.Sprintf("%s/cyc%d/tail%d/%s", pat.name, cyc, tail, place)
						top, build := "", ""
						if place == "global" {
							top = strings.Join(decls, "\n") + "\n\n"
							build = indent(links)
						} else {
							build = indent(decls) + indent(links)
						}
						if ci < len(cycleConsumers) {
							con := cycleConsumers[ci]
							src := "package main\n\n" + types + top + "func main() {\n" + build + "\tvar ent any = " + entry + "\n" + indent([]string{con.body}) + "}\n"
							cs = append(cs, Case{ID: "cycle-shape/" + shape + "/" + con.name, Kind: kindRun, Src: src, Gas: 20_000_000})
							continue
						}
						src := "package pkg\n\n" + types + top + "var G any\n\nfunc init() {\n" + build + "\tG = " + entry + "\n}\n\n" +
							"func Show(cur realm) { println(G) }\n\nfunc Boom(cur realm) { panic(G) }\n"
						cs = append(cs, Case{ID: "cycle-shape/" + shape + "/persist", Kind: kindRealm, Src: src, Gas: 50_000_000,
							Steps: []string{"call:Show", "qeval:G", "qjson:G", "call:Boom", "call:Show"}})
					}
				}
			}
		}
	}
	return cs
}
