// C11: the VM never crashes and stays within its resource limits.
//
// Bounded-exhaustive input enumeration, every case through the keeper path a user submission takes
// (MsgRun / MsgAddPackage: ValidateBasic, type check, preprocess, run; gas meter; allocation limit) on a
// re-creation of the vm package's test environment, inside worker subprocesses under RLIMIT_AS:
//   (a) all token sequences of length <= k over a 34-token alphabet in 5 templates (+ one more level over
//       a 16-token sub-alphabet);  (b) nesting / length ladders for 44 constructs (thorough: N past the parser's 100000 limit);  (c) huge-constant menus;  (d) recursive type/const/var cycle menu + resource-exhaustion menu
//       (also as realm init code via MsgAddPackage);  (f) reference cycles: cycle length x tail length x link pattern x
//       placement x consumer (println, panic, recover, map key, equality, persistence + reload by MsgCall / queries);
//       (e) every single-token deletion / substitution by each
//       alphabet token / duplication of 40 small valid programs.
// Oracle: outcome in {OK, type-check/validation error, Gno panic, out-of-gas, alloc-limit}. Violations: a Go
// runtime.Error (raw recovered value seen through a hook in the keeper's doRecover), worker death (Go fatal
// error), CPU or memory budget exceeded when re-run alone.
package main

import (
	"bufio"
	"encoding/json"
	"flag"
	"fmt"
	"io"
	"os"
	"os/exec"
	"sort"
	"strconv"
	"strings"
	"sync"
	"sync/atomic"
	"syscall"
	"time"

	"verif/engine/vk"
)

var r *vk.Run

// debugging aids (never used by vcheck): C11_DUMP=<file> writes one "family index class" line per case,
// C11_FAMS=<substring> restricts the run to matching families.
var (
	dumpF  *os.File
	dumpMu sync.Mutex
)

type chunk struct {
	fam      family
	from, to int64
	alone    bool // confirmation run: one case, fresh worker, the aloneCPU budget
	tight    bool // quick tier only: a case whose budget key is a listed known finding, run with REDUCED budgets
	//             (it only has to be seen running away; it is not confirmed against the full budget)
}

type incident struct {
	fam   string
	idx   int64
	kind  string // death | cpu | memory
	msg   string
	alone bool // observed in a confirmation run (fresh worker, aloneCPU budget)
	tight bool // observed under the reduced budgets of a known-finding case (quick)
}

// budgets of a `tight` chunk (quick tier, known resource-exhaustion cases only)
const (
	tightCPU = 10 * time.Second
	tightRSS = 2 << 30
)

// maxAlone bounds the number of concurrent confirmation runs (each may grow to the resident-set cap)
const maxAlone = 5

type sched struct {
	mu        sync.Mutex
	queue     []chunk
	hist      [nClasses]int64
	famDone   map[string]int64
	famHist   map[string]*[nClasses]int64
	incidents []incident
	faults    map[string][]string // class key -> case IDs
	faultSrc  map[string]string   // case ID -> source (kept for the minimal one)
	review    map[string]int64    // other-go-panic message -> count
	reviewEx  map[string]string
	cpuLimit  time.Duration // per-case CPU budget in a batch (first pass: a filter that only nominates suspects)
	aloneCPU  time.Duration // CPU budget of a confirmation run (the budget a violation is judged against)
	thorough  bool
	spawned   atomic.Int64

	known        map[string]bool // keys listed as known findings for this property
	aloneRunning int
	deadline     time.Time // hard wall deadline for confirmation runs (zero: none)
	overdue      []string  // case ids whose confirmation run was cut by the deadline
	skipped      int64     // cycles family: cases not run because a smaller shape of their group killed the worker
	skippedAfter []string  // ... the cases that did
}

// next hands out the first runnable chunk; confirmation (alone) chunks are limited to maxAlone at a time.
// wait=true: nothing runnable right now, but the queue is not empty.
func (s *sched) next() (c chunk, ok, wait bool) {
	s.mu.Lock()
	defer s.mu.Unlock()
	for i, q := range s.queue {
		if q.alone && s.aloneRunning >= maxAlone {
			continue
		}
		s.queue = append(s.queue[:i:i], s.queue[i+1:]...)
		if q.alone {
			s.aloneRunning++
		}
		return q, true, false
	}
	return chunk{}, false, len(s.queue) > 0
}

func (s *sched) release(c chunk) {
	if c.alone {
		s.mu.Lock()
		s.aloneRunning--
		s.mu.Unlock()
	}
}

// loadKnownKeys reads the keys listed as known findings of this property (the same file vk matches
// r.Violation keys against).
func loadKnownKeys(id string) map[string]bool {
	m := map[string]bool{}
	f, err := os.Open(vk.Root + "/known_findings.jsonl")
	if err != nil {
		return m
	}
	defer f.Close()
	sc := bufio.NewScanner(f)
	sc.Buffer(make([]byte, 1<<20), 1<<20)
	for sc.Scan() {
		var e struct {
			Property, Kind, Key string
		}
		if json.Unmarshal(sc.Bytes(), &e) == nil && e.Property == id && e.Kind == "known" {
			m[e.Key] = true
		}
	}
	return m
}

func incidentKey(in incident, caseID string) string {
	if in.kind == "death" && strings.HasPrefix(caseID, "cycle-shape/") {
		// reference-cycle family: the recursion that overflows runs through several functions, so the frame on
		// top when the stack limit is hit varies; the key is the link pattern + consumer (all cycle / tail lengths
		// and placements of that group are listed in the detail)
		p := strings.Split(caseID, "/")
		what := in.msg
		if i := strings.Index(what, ": "); i >= 0 {
			what = what[i+2:]
		}
		return "worker-death: cycle-shape/" + p[1] + "/" + p[len(p)-1] + ": " + what
	}
	if in.kind == "death" {
		return "worker-death" + in.msg // grouped by crash site: a Go fatal error is deterministic
	}
	return "resource-budget-exceeded: " + caseID // one key per failing input
}

func (s *sched) pushFront(c chunk) {
	s.mu.Lock()
	s.queue = append([]chunk{c}, s.queue...)
	s.mu.Unlock()
}

type worker struct {
	ncases int64 // cases started on this worker
	cmd    *exec.Cmd
	in     io.WriteCloser
	out    *bufio.Scanner
	errbuf *tailBuf
	lines  chan string
}

type tailBuf struct {
	mu   sync.Mutex
	head []byte
	tail []byte
}

func (t *tailBuf) Write(p []byte) (int, error) {
	t.mu.Lock()
	defer t.mu.Unlock()
	if len(t.head) < 1<<17 {
		n := 1<<17 - len(t.head)
		if n > len(p) {
			n = len(p)
		}
		t.head = append(t.head, p[:n]...)
	}
	t.tail = append(t.tail, p...)
	if len(t.tail) > 2048 {
		t.tail = t.tail[len(t.tail)-2048:]
	}
	return len(p), nil
}

func (t *tailBuf) String() string {
	t.mu.Lock()
	defer t.mu.Unlock()
	return string(t.head)
}

func (s *sched) spawn() (*worker, error) {
	exe, _ := os.Executable()
	cmd := exec.Command(exe, "-worker", "-id", r.ID, "-tier", r.Tier)
	tier := "quick"
	if s.thorough {
		tier = "thorough"
	}
	cmd.Env = append(os.Environ(), "C11_TIER="+tier, "GOMAXPROCS=2", "GOTRACEBACK=all")
	in, _ := cmd.StdinPipe()
	outp, _ := cmd.StdoutPipe()
	w := &worker{cmd: cmd, in: in, errbuf: &tailBuf{}, lines: make(chan string, 1024)}
	cmd.Stderr = w.errbuf
	if err := cmd.Start(); err != nil {
		return nil, err
	}
	s.spawned.Add(1)
	sc := bufio.NewScanner(outp)
	sc.Buffer(make([]byte, 1<<16), 1<<22)
	go func() {
		for sc.Scan() {
			w.lines <- sc.Text()
		}
		close(w.lines)
	}()
	// wait for READY (environment set-up: stdlib load)
	select {
	case ln, ok := <-w.lines:
		if !ok || ln != "READY" {
			cmd.Process.Kill()
			cmd.Wait()
			return nil, fmt.Errorf("worker did not start: %q %s", ln, firstLines(w.errbuf.String(), 6))
		}
	case <-time.After(10 * time.Minute):
		cmd.Process.Kill()
		cmd.Wait()
		return nil, fmt.Errorf("worker start timeout")
	}
	return w, nil
}

func (w *worker) kill() {
	w.cmd.Process.Kill()
	w.cmd.Wait()
}

// quitDump asks the Go runtime of the worker for a goroutine dump (SIGQUIT) and reaps it.
func (w *worker) quitDump() string {
	w.cmd.Process.Signal(syscall.SIGQUIT)
	done := make(chan struct{})
	go func() {
		for range w.lines {
		}
		w.cmd.Wait()
		close(done)
	}()
	select {
	case <-done:
	case <-time.After(20 * time.Second):
		w.cmd.Process.Kill()
		<-done
	}
	return w.errbuf.String()
}

// rssBytes of a process from /proc.
func rssBytes(pid int) int64 {
	b, err := os.ReadFile(fmt.Sprintf("/proc/%d/statm", pid))
	if err != nil {
		return 0
	}
	f := strings.Fields(string(b))
	if len(f) < 2 {
		return 0
	}
	p, _ := strconv.ParseInt(f[1], 10, 64)
	return p * int64(os.Getpagesize())
}

const rssCap = 4 << 30 // resident-set cap of a worker (the VM's allocation limit is 500 MB of accounted bytes)

// cpuTime of a process (user+sys) from /proc.
func cpuTime(pid int) time.Duration {
	b, err := os.ReadFile(fmt.Sprintf("/proc/%d/stat", pid))
	if err != nil {
		return 0
	}
	s := string(b)
	i := strings.LastIndexByte(s, ')')
	if i < 0 {
		return 0
	}
	f := strings.Fields(s[i+1:])
	if len(f) < 13 {
		return 0
	}
	ut, _ := strconv.ParseInt(f[11], 10, 64)
	st, _ := strconv.ParseInt(f[12], 10, 64)
	return time.Duration(ut+st) * 10 * time.Millisecond
}

// runChunk feeds one chunk to the worker; returns false if the worker is gone afterwards.
func (s *sched) runChunk(w *worker, c chunk) (alive bool) {
	fmt.Fprintf(w.in, "%s %d %d\n", c.fam.Name(), c.from, c.to)
	cur := int64(-1)
	var curCPU time.Duration
	var curStart time.Time
	limit := s.cpuLimit
	memCap := int64(rssCap)
	if c.alone {
		limit = s.aloneCPU
	}
	if c.tight {
		limit, memCap = tightCPU, tightRSS
	}
	var local [nClasses]int64
	var done int64
	flush := func() {
		s.mu.Lock()
		for i, v := range local {
			s.hist[i] += v
			s.famHistOf(c.fam.Name())[i] += v
		}
		s.famDone[c.fam.Name()] += done
		s.mu.Unlock()
	}
	tick := time.NewTicker(60 * time.Millisecond)
	defer tick.Stop()
	for {
		select {
		case ln, ok := <-w.lines:
			if !ok {
				// worker died
				w.cmd.Wait()
				flush()
				if cur >= 0 {
					msg := deathLine(w.errbuf.String(), w.cmd.ProcessState)
					s.incident(c, cur, "death", msg)
					if cur+1 < c.to && c.fam.Name() == "cycles" && !c.alone {
						// one (link pattern, consumer) group per chunk, smallest shapes first: the remaining (larger)
						// shapes of the group would die the same way at 30-60 CPU-s each; they are not run
						s.mu.Lock()
						s.skipped += c.to - (cur + 1)
						s.skippedAfter = append(s.skippedAfter, idOf(c.fam, cur))
						s.mu.Unlock()
					} else if cur+1 < c.to {
						s.pushFront(chunk{fam: c.fam, from: cur + 1, to: c.to})
					}
				} else {
					s.pushFront(c)
				}
				return false
			}
			switch {
			case strings.HasPrefix(ln, "S "):
				cur, _ = strconv.ParseInt(ln[2:], 10, 64)
				w.ncases++
				curCPU = cpuTime(w.cmd.Process.Pid)
				curStart = time.Now()
			case strings.HasPrefix(ln, "D "):
				cl, _ := strconv.Atoi(ln[2:])
				if cl >= 0 && cl < nClasses {
					local[cl]++
				}
				done++
				if dumpF != nil {
					dumpMu.Lock()
					fmt.Fprintf(dumpF, "%s %d %d pid=%d\n", c.fam.Name(), cur, cl, w.cmd.Process.Pid)
					dumpMu.Unlock()
				}
				r.Eval()
				r.Distinct(c.fam.Name() + "#" + strconv.FormatInt(cur, 10))
				cur = -1
			case strings.HasPrefix(ln, "X "):
				s.noteX(c, ln[2:])
			case ln == "C":
				flush()
				return true
			case strings.HasPrefix(ln, "E "):
				r.HarnessError("worker: %s", ln)
			}
		case <-tick.C:
			if cur >= 0 {
				used := cpuTime(w.cmd.Process.Pid) - curCPU
				rss := rssBytes(w.cmd.Process.Pid)
				kind, msg := "", ""
				switch {
				case rss > memCap:
					kind = "memory"
				case used > limit || time.Since(curStart) > 20*limit:
					kind = "cpu"
				}
				if kind == "" && c.alone && !s.deadline.IsZero() && time.Now().After(s.deadline) {
					// the tier's wall budget is used up: the confirmation run is cut, the case stays unattributed
					w.kill()
					flush()
					s.mu.Lock()
					s.overdue = append(s.overdue, idOf(c.fam, cur))
					s.mu.Unlock()
					return false
				}
				if kind != "" {
					if c.tight {
						w.kill() // no goroutine dump needed for a listed case
					} else {
						w.quitDump()
					}
					flush()
					msg = fmt.Sprintf("%s: %.0fs CPU used (limit %.0fs), RSS %d MB (cap %d MB)", kind, used.Seconds(), limit.Seconds(), rss>>20, memCap>>20)
					s.incident(c, cur, kind, msg)
					if cur+1 < c.to {
						s.pushFront(chunk{fam: c.fam, from: cur + 1, to: c.to})
					}
					return false
				}
			}
		}
	}
}

func (s *sched) famHistOf(name string) *[nClasses]int64 {
	h := s.famHist[name]
	if h == nil {
		h = new([nClasses]int64)
		s.famHist[name] = h
	}
	return h
}

func (s *sched) incident(c chunk, idx int64, kind, msg string) {
	s.mu.Lock()
	s.incidents = append(s.incidents, incident{fam: c.fam.Name(), idx: idx, kind: kind, msg: msg, alone: c.alone, tight: c.tight})
	s.mu.Unlock()
}

func (s *sched) noteX(c chunk, rest string) {
	sp := strings.IndexByte(rest, ' ')
	if sp < 0 {
		return
	}
	idx, _ := strconv.ParseInt(rest[:sp], 10, 64)
	var x struct {
		Cl   int    `json:"cl"`
		Msg  string `json:"msg"`
		Site string `json:"site"`
	}
	if err := json.Unmarshal([]byte(rest[sp+1:]), &x); err != nil {
		return
	}
	s.mu.Lock()
	defer s.mu.Unlock()
	if x.Cl == clRuntimeFault {
		cs := c.fam.Case(idx)
		key := "go-runtime-fault@" + x.Site + ": " + normMsg(x.Msg)
		s.faults[key] = append(s.faults[key], cs.ID)
		if old, ok := s.faultSrc[key]; !ok || len(cs.Src) < len(old) {
			s.faultSrc[key] = cs.Src
		}
		return
	}
	m := normMsg(x.Msg)
	s.review[m]++
	ex := fmt.Sprintf("%s#%09d", c.fam.Name(), idx)
	if old, ok := s.reviewEx[m]; !ok || ex < old { // deterministic: the smallest (family, index)
		s.reviewEx[m] = ex
	}
}

// normMsg strips volatile details (numbers, addresses) so that keys are stable classes.
func normMsg(m string) string {
	var b strings.Builder
	prevDigit := false
	for _, ch := range m {
		if ch >= '0' && ch <= '9' {
			if !prevDigit {
				b.WriteByte('N')
			}
			prevDigit = true
			continue
		}
		prevDigit = false
		b.WriteRune(ch)
	}
	s := b.String()
	if len(s) > 110 {
		s = s[:110]
	}
	return s
}

// deathLine: "<first non-runtime frame of the failing goroutine>: <fatal message>" from a Go crash dump.
func deathLine(stderr string, ps *os.ProcessState) string {
	lines := strings.Split(stderr, "\n")
	msg := ""
	for i, ln := range lines {
		if strings.HasPrefix(ln, "fatal error:") || strings.HasPrefix(ln, "panic:") {
			msg = normMsg(ln)
			if strings.HasPrefix(ln, "fatal error: stack overflow") || strings.HasPrefix(ln, "fatal error: out of memory") {
				msg = ln
			}
			site := "?"
			for _, l2 := range lines[i+1:] {
				if l2 == "" || strings.HasPrefix(l2, "\t") || strings.HasPrefix(l2, "runtime.") || strings.HasPrefix(l2, "runtime:") || strings.HasPrefix(l2, "goroutine ") || strings.HasPrefix(l2, "[") || strings.HasPrefix(l2, "stack:") || strings.HasPrefix(l2, "panic(") {
					continue
				}
				if j := strings.LastIndex(l2, "("); j > 0 && strings.Contains(l2, ".") {
					site = strings.TrimPrefix(l2[:j], "github.com/gnolang/gno/")
					break
				}
			}
			return "@" + site + ": " + msg
		}
	}
	if ps != nil {
		if ws, ok := ps.Sys().(syscall.WaitStatus); ok && ws.Signaled() {
			return "killed by signal " + ws.Signal().String()
		}
		return "exit: " + ps.String()
	}
	return "(unknown)"
}

func idOf(f family, i int64) string {
	if lf, ok := f.(*lazyFamily); ok {
		return lf.ids[i]
	}
	return f.Case(i).ID
}

func firstLines(s string, n int) string {
	ls := strings.Split(s, "\n")
	if len(ls) > n {
		ls = ls[:n]
	}
	return strings.Join(ls, "\n")
}

func (s *sched) runAll(nw int, ignoreBudget bool) {
	var wg sync.WaitGroup
	for k := 0; k < nw; k++ {
		wg.Add(1)
		go func() {
			defer wg.Done()
			var w *worker
			defer func() {
				if w != nil {
					w.in.Close()
					w.kill()
				}
			}()
			for {
				if !ignoreBudget && r.Expired() {
					return
				}
				c, ok, wait := s.next()
				if !ok {
					if wait {
						time.Sleep(200 * time.Millisecond)
						continue
					}
					return
				}
				if c.alone && !s.deadline.IsZero() && time.Now().After(s.deadline) {
					s.mu.Lock()
					s.overdue = append(s.overdue, idOf(c.fam, c.from))
					s.mu.Unlock()
					s.release(c)
					continue
				}
				if w != nil && c.alone && w.ncases > 0 { // confirmation runs get a fresh worker
					w.in.Close()
					w.kill()
					w = nil
				}
				if w == nil {
					var err error
					if w, err = s.spawn(); err != nil {
						r.HarnessError("%v", err)
					}
				}
				alive := s.runChunk(w, c)
				s.release(c)
				if !alive {
					w = nil
				}
			}
		}()
	}
	wg.Wait()
}

func main() {
	isWorker := flag.Bool("worker", false, "internal: worker mode")
	r = vk.New("exploration")
	if *isWorker {
		workerMain()
		return
	}
	// wall budgets. quick: never reached on a normal box (the tier takes ~2 min). thorough: the first pass stops
	// after 16 min, confirmation runs are cut at 26 min (cases cut there are listed as unattributed).
	r.SetBudget(15*time.Minute, 16*time.Minute)
	t0 := time.Now()
	g := newGen(r.Thorough())
	s := &sched{famDone: map[string]int64{}, famHist: map[string]*[nClasses]int64{}, faults: map[string][]string{}, faultSrc: map[string]string{},
		review: map[string]int64{}, reviewEx: map[string]string{}, thorough: r.Thorough()}
	s.known = loadKnownKeys(r.ID)
	// quick: the first-pass filter is deliberately generous (80 s): on a loaded box legitimate heavy cases (string
	// doubling up to the allocation limit: 10 CPU-s idle, 40-60 CPU-s measured at load 60) would otherwise be
	// nominated and cost a worker respawn plus a confirmation run each. Listed runaways do not pay it (tight chunks).
	s.cpuLimit, s.aloneCPU = 80*time.Second, 160*time.Second
	if r.Thorough() {
		s.cpuLimit, s.aloneCPU = 90*time.Second, 360*time.Second
		s.deadline = t0.Add(r.Budget + 10*time.Minute)
	}
	// queue: heavy singletons first, bulk token sequences last (budget cap hits the bulk, per-family completion is reported)
	// and within the token sequences: shorter first across all templates, so that a capped run has covered every
	// template up to the same depth
	order := func(name string) int {
		switch {
		case name == "ladders":
			return 0
		case name == "consts":
			return 1
		case name == "menu":
			return 2
		case name == "cycles":
			return 3
		case name == "mutations":
			return 4
		case strings.HasPrefix(name, "seq/"):
			k := 0
			fmt.Sscanf(name[strings.LastIndex(name, "=")+1:], "%d", &k)
			return 10 + k
		}
		return 100 // seq16 (sub-alphabet, deepest level) last
	}
	fams := append([]family(nil), g.fams...)
	sort.SliceStable(fams, func(i, j int) bool { return order(fams[i].Name()) < order(fams[j].Name()) })
	if d := os.Getenv("C11_DUMP"); d != "" {
		dumpF, _ = os.Create(d)
	}
	// Cases whose budget key ("resource-budget-exceeded: <case id>") is a listed known finding are taken out of the
	// batches and run on their own at the head of the queue:
	//  quick:    under REDUCED budgets (tightCPU / tightRSS) — they only have to be seen running away; they are NOT
	//            confirmed alone against the full budget (this is said in the evidence);
	//  thorough: directly as a confirmation run (fresh worker, aloneCPU budget), skipping the pointless first pass.
	var total int64
	var head []chunk
	var knownCases []string
	for _, f := range fams {
		if sub := os.Getenv("C11_FAMS"); sub != "" && !strings.Contains(sub, f.Name()) {
			continue
		}
		step := int64(400)
		switch f.Name() {
		case "ladders":
			step = 1
		case "consts", "menu":
			step = 4
		case "cycles":
			step = cycleGroupSize(r.Thorough()) // one (link pattern, consumer) group per chunk
		case "mutations":
			step = 150
		}
		var cuts []int64 // indices of known budget cases (only the small hand-written families can have them)
		if len(s.known) > 0 && !strings.HasPrefix(f.Name(), "seq") {
			for i := int64(0); i < f.Size(); i++ {
				if id := idOf(f, i); s.known["resource-budget-exceeded: "+id] {
					cuts = append(cuts, i)
					knownCases = append(knownCases, id)
					head = append(head, chunk{fam: f, from: i, to: i + 1, alone: r.Thorough(), tight: r.Quick()})
				}
			}
		}
		for a := int64(0); a < f.Size(); {
			b := a + step
			if b > f.Size() {
				b = f.Size()
			}
			for _, c := range cuts {
				if c == a {
					b = a // the known case itself: skipped here
					break
				}
				if c > a && c < b {
					b = c
				}
			}
			if b > a {
				s.queue = append(s.queue, chunk{fam: f, from: a, to: b})
				a = b
			} else {
				a++
			}
		}
		total += f.Size()
	}
	s.queue = append(head, s.queue...)
	nw := 12
	s.runAll(nw, false)
	tFirst := time.Since(t0)

	// attribution: every death / hang-suspect is re-run ALONE in a fresh worker with the aloneCPU budget (160 s quick, 360 s thorough)
	first := s.incidents
	s.incidents = nil
	sort.Slice(first, func(i, j int) bool {
		if first[i].fam != first[j].fam {
			return first[i].fam < first[j].fam
		}
		return first[i].idx < first[j].idx
	})
	// (always done, also after the budget expired: at most maxAttr suspects, the rest is listed as unattributed)
	// Deaths are always re-run (they end quickly); of the budget suspects the two smallest rungs per construct
	// (case id without its trailing number) are re-run, at most maxAttr in total — larger rungs of the same
	// ladder add nothing to the verdict.
	// Quick tier: a suspect whose key is already a listed known finding is NOT re-run alone (that costs 160 CPU-s
	// per case and only re-establishes what is listed); it is reported through r.Violation (-> KNOWN-FINDING) on the
	// strength of the first-pass observation, and listed under coverage.known_findings_not_reconfirmed. Suspects with
	// any other key get the full confirmation run. Thorough tier: every suspect is confirmed alone.
	const maxAttr = 12
	var unattributed []string
	var notReconfirmed []map[string]any
	s.mu.Lock()
	var carry []chunk // confirmation runs of listed cases that the first pass did not get to (thorough, budget expired)
	for _, c := range s.queue {
		if c.alone {
			carry = append(carry, c)
		}
	}
	s.queue = carry
	s.mu.Unlock()
	perConstruct := map[string]int{}
	nAttr := 0
	for _, in := range first {
		id := idOf(g.family(in.fam), in.idx)
		if in.alone { // thorough: a known budget case, run directly as a confirmation run
			s.incidents = append(s.incidents, in)
			continue
		}
		fmt.Printf("(informative) first-pass incident: %s [%s] %s\n", id, in.kind, in.msg)
		if key := incidentKey(in, id); r.Quick() && s.known[key] {
			budgets := fmt.Sprintf("in a batch: CPU %.0fs, RSS cap %d MB", s.cpuLimit.Seconds(), rssCap>>20)
			if in.tight {
				budgets = fmt.Sprintf("on its own, reduced budgets: CPU %.0fs, RSS cap %d MB", tightCPU.Seconds(), int64(tightRSS)>>20)
			}
			observed := "worker death (Go fatal error)"
			if in.kind != "death" {
				observed = "budget exceeded" // which of the CPU / RSS caps trips first is a matter of timing: not recorded
			}
			notReconfirmed = append(notReconfirmed, map[string]any{"case": id, "known_key": key, "observed": observed, "budgets": budgets})
			s.incidents = append(s.incidents, in)
			continue
		}
		construct := strings.TrimRight(id, "0123456789")
		if in.kind != "death" {
			if perConstruct[construct] >= 2 || nAttr >= maxAttr {
				unattributed = append(unattributed, id)
				continue
			}
			perConstruct[construct]++
			nAttr++
		}
		s.queue = append(s.queue, chunk{fam: g.family(in.fam), from: in.idx, to: in.idx + 1, alone: true})
	}
	if len(s.queue) > 0 {
		s.runAll(maxAlone, true)
	}
	sort.Strings(s.overdue)
	sort.Strings(s.skippedAfter)
	unattributed = append(unattributed, s.overdue...)
	if len(unattributed) > 0 {
		r.MarkCapped()
	}
	tAttr := time.Since(t0) - tFirst
	confirmed := s.incidents
	sort.Slice(confirmed, func(i, j int) bool {
		if confirmed[i].fam != confirmed[j].fam {
			return confirmed[i].fam < confirmed[j].fam
		}
		return confirmed[i].idx < confirmed[j].idx
	})
	type group struct {
		cases []Case
		notes []string
	}
	classes := map[string]*group{}
	for _, in := range confirmed {
		c := g.family(in.fam).Case(in.idx)
		key := incidentKey(in, c.ID) // budget cases: one key per failing input (which of the two budgets trips first is a matter of timing)
		gr := classes[key]
		if gr == nil {
			gr = &group{}
			classes[key] = gr
		}
		gr.cases = append(gr.cases, c)
		gr.notes = append(gr.notes, in.msg)
	}
	var keys []string
	for k := range classes {
		keys = append(keys, k)
	}
	sort.Strings(keys)
	for _, k := range keys {
		cs := classes[k].cases
		sort.SliceStable(cs, func(i, j int) bool {
			if len(cs[i].Src) != len(cs[j].Src) {
				return len(cs[i].Src) < len(cs[j].Src)
			}
			return cs[i].ID < cs[j].ID
		})
		var ids []string
		for i, c := range cs {
			if i < 15 {
				ids = append(ids, c.ID)
			}
		}
		src := cs[0].Src
		if len(src) > 4000 {
			src = src[:2000] + fmt.Sprintf("\n... (%d bytes) ...\n", len(cs[0].Src)) + src[len(src)-500:]
		}
		if strings.HasPrefix(k, "worker-death") {
			r.Outcome("VIOLATION:" + k)
		} else {
			r.Outcome("VIOLATION:resource-budget-exceeded")
		}
		r.Violation(k, map[string]any{"count": len(cs), "minimal_case": cs[0].ID, "minimal_source": src, "gas_limit": cs[0].Gas, "cases": ids,
			"observations": classes[k].notes,
			"budgets": fmt.Sprintf("CPU %.0fs in a batch, %.0fs when re-run alone, RSS cap %d MB, VM allocation limit 500 MB", s.cpuLimit.Seconds(), s.aloneCPU.Seconds(), rssCap>>20)})
	}
	keys = keys[:0]
	for k := range s.faults {
		keys = append(keys, k)
	}
	sort.Strings(keys)
	for _, k := range keys {
		ids := s.faults[k]
		sort.Strings(ids)
		n := len(ids)
		if len(ids) > 15 {
			ids = ids[:15]
		}
		r.Violation(k, map[string]any{"count": n, "minimal_source": s.faultSrc[k], "cases": ids})
	}
	for i, v := range s.hist {
		if v > 0 {
			r.OutcomeN(className[i], v)
		}
	}
	// review list: Go-level panics that are not runtime.Error (not flagged)
	var rev []map[string]any
	var rk []string
	for k := range s.review {
		rk = append(rk, k)
	}
	sort.Strings(rk)
	for _, k := range rk {
		rev = append(rev, map[string]any{"panic": k, "count": s.review[k], "example": s.reviewEx[k]})
	}
	if len(rev) > 40 {
		rev = rev[:40]
	}
	fmt.Printf("(informative, timing-dependent) workers spawned=%d, first-pass incidents=%d, reported=%d (of which known findings not re-confirmed alone=%d); first pass %.0fs, confirmation runs %.0fs\n",
		s.spawned.Load(), len(first), len(confirmed), len(notReconfirmed), tFirst.Seconds(), tAttr.Seconds())
	perFam := map[string]any{}
	var executed int64
	for _, f := range g.fams {
		d := s.famDone[f.Name()]
		executed += d
		h := map[string]int64{}
		if fh := s.famHist[f.Name()]; fh != nil {
			for i, v := range fh {
				if v > 0 {
					h[className[i]] = v
				}
			}
		}
		perFam[f.Name()] = map[string]any{"size": f.Size(), "executed": d, "outcomes": h}
	}
	exhaustive := executed+int64(len(confirmed)) >= total && !r.Capped()
	if !exhaustive {
		r.MarkCapped()
	}
	r.Sample(map[string]any{"family": "seq/stmt/k=3", "example": g.family("seq/stmt/k=3").Case(12345).Src})
	r.Sample(map[string]any{"family": "ladders", "example_id": g.family("ladders").(*lazyFamily).ids[40]})
	r.Sample(map[string]any{"family": "mutations", "example_id": g.family("mutations").Case(777).ID})
	r.Assumptions = []string{
		"cases enter at the keeper (MsgRun/MsgAddPackage ValidateBasic + VMKeeper.Run/AddPackage) of a re-created vm test environment; ante handler, signatures and the baseapp's own recover are not in the loop",
		"raw recovered values are observed through a hook inserted (build overlay) at the top of the keeper's doRecoverInternal; values recovered and rendered as errors deeper (parser/Go2Gno) are recognised by their 'runtime error:' text",
		"Go-level panics that are not runtime.Error (strings/errors thrown by the preprocessor or machine) are NOT flagged; they are listed under review_candidates",
		"worker memory: parent-enforced 4 GiB resident-set cap (the VM allocator limit is 500 MB of accounted bytes) with RLIMIT_AS 12 GiB as backstop; per-case budget is CPU time of the worker process (not wall clock): 80 s quick / 90 s thorough in a batch (a filter that nominates suspects), suspects are re-run alone in a fresh worker with 160 s quick / 360 s thorough before being reported",
		"known findings (keys listed for this property in known_findings.jsonl): in the QUICK tier a suspect whose key is already listed is not re-run alone, and the cases with a listed budget key are run on their own under reduced budgets (CPU 10 s, RSS 2 GiB) just to see them run away - they are reported as KNOWN-FINDING on that observation and enumerated in coverage.known_findings_not_reconfirmed; any suspect with an unlisted key still gets the full confirmation run. In the THOROUGH tier listed budget cases are run directly as confirmation runs (fresh worker, 360 s) and every other suspect is confirmed alone; confirmation runs still going at the tier's hard deadline (first-pass budget + 10 min) are cut and listed as unattributed_suspects",
		"gas limits: 1e7 token sequences, 2e7 mutations, 2e7 menus and reference-cycle scripts, 5e7 per message of a reference-cycle realm case, 1e8 constants, 3e9 (block maximum) ladders",
		"reference-cycle family: a realm case adds the package, commits it to the case's throw-away state and runs each follow-up (MsgCall / qeval / JSON-eval query) in a fresh transaction store on that state; when a case kills the worker the remaining (larger) shapes of its (link pattern, consumer) group are not run (coverage.cycle_cases_skipped_after_a_death_in_their_group), and its death key names pattern and consumer instead of the crash frame",
	}
	r.Finish("all token sequences of length <= k over the 34-token alphabet in 5 templates (quick k<=3 + k=4 over 16 tokens; thorough k<=4 + k=5 over 16 tokens); ladders: 44 constructs x 17 sizes up to 2048 (quick) / 27 sizes up to 200000 or 1 MB of source (thorough); constant, cycle and resource menus; reference cycles: length 1..9 (thorough 17) x tail 0..3 (thorough 5) x 8 link patterns x 2 placements x 6 consumers; all single-token deletions/substitutions/duplications of 40 programs. distinct = distinct (family, index) cases executed",
		exhaustive, map[string]any{
			"families": perFam, "total_cases": total, "executed": executed, "reported_incidents": len(confirmed), "confirmed_alone": len(confirmed) - len(notReconfirmed), "unattributed_suspects": unattributed,
			"cycle_cases_skipped_after_a_death_in_their_group": s.skipped, "cycle_groups_cut_at": s.skippedAfter,
			"known_findings_not_reconfirmed": notReconfirmed, "known_budget_cases_run_on_their_own": knownCases,
			"review_candidates": rev, "alphabet": alphabet, "sub_alphabet": subAlphabet, "cpu_limit_s": s.cpuLimit.Seconds(), "cpu_limit_alone_s": s.aloneCPU.Seconds(),
		})
}
