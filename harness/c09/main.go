// C09: realm storage usage and deposits are accounted exactly.
//
// Real gno.land app (engine chainx), one tx per block. Histories of menu operations are replayed from genesis
// (each history on its own chain); after EVERY committed tx the harness re-derives, from raw store bytes only:
//
//	bytes(R)   = Σ len(value) over base-store keys  oid:<pkgid(R)>:*  (the "#realm" record excluded)
//	           + Σ len("vm:<R>:<name>") + len(value) over main-store keys /pv/vm:<R>:<name>
//	record(R)  = amino-decoded oid:<pkgid(R)>:1#realm  -> Storage, Deposit
//	bal(a)     = account object coins + split-tier balance keys of address a
//
// and checks against a boring reference model (price register + previous records):
//
//	I1 bytes(R) == record(R).Storage                       (every deployed realm)
//	I2 bal(depositAddr(R)).ugnot >= record(R).Deposit
//	I3 ΔStorage(R) > 0  => ΔDeposit(R) == ΔStorage(R) × price in effect when the charging message started
//	I4 ΔStorage(R) < 0  => refund == floor(Deposit×released/Storage) (== Deposit when everything is released);
//	                       Storage==0 => Deposit==0 ; ΔStorage == 0 => ΔDeposit == 0
//	I5 coins are conserved around the deposit: Δbal(depositAddr(R)) == ΔDeposit(R) and
//	   Δbal(signer) == −fee − Σ locks + Σ refunds ; no other funded key changes
//	I6 failed tx => no record / bytes / deposit balance changed
//	I7 a message with a deposit limit: succeeded => Σ locks <= limit ; the menu's too-small-limit growth must fail.
//	   limits.go quantifies this over BINDING limits: per state and message (growing 0..3 realms) the requirement is
//	   measured on a snapshot, the limit menu is derived from it, and the message must succeed iff limit >= Σ requirement
//	I8 with no price change in the history: Deposit(R) == Storage(R) × price   (linearity; implies "free all => refund all")
//	I9 the persisted per-realm params counter (_realmmeta_<R>) == re-derived params bytes
package main

import (
	"encoding/binary"
	"fmt"
	"math/big"
	"os"
	"runtime/debug"
	"runtime/pprof"
	"sort"
	"strings"
	"sync"
	"sync/atomic"
	"time"

	"github.com/gnolang/gno/gno.land/pkg/sdk/vm"
	"github.com/gnolang/gno/gnovm/pkg/gnolang"
	abci "github.com/gnolang/gno/tm2/pkg/bft/abci/types"
	"github.com/gnolang/gno/tm2/pkg/crypto"
	"github.com/gnolang/gno/tm2/pkg/db/memdb"
	"github.com/gnolang/gno/tm2/pkg/std"
	"verif/engine/chainx"
	"verif/engine/vk"
)

const (
	pathSP = "gno.land/r/sys/params"
	pathX  = "gno.land/r/verif/xr"
	pathY  = "gno.land/r/verif/yr"
	pathZ  = "gno.land/r/verif/zr"
	pathW  = "gno.land/r/verif/wr" // limits.go: calls into yr and xr, so one message can grow three realms
	pathV  = "gno.land/r/verif/vr" // limits.go: deployed by the limited MsgAddPackage templates (init crosses into xr/yr)
	fee    = int64(1_000_000)
)

// stub of the governance-designated realm: the only package path sys/params accepts writes from.
const realmSP = `package params

import sp "sys/params"

func SetPrice(cur realm, v string) { sp.SetSysParamString("vm", "p", "storage_price", v) }
func SetDefault(cur realm, v string) { sp.SetSysParamString("vm", "p", "default_deposit", v) }
`

const realmX = `package xr

import (
	"chain/params"

	sysp "gno.land/r/sys/params"
)

type Node struct {
	S    string
	Next *Node
	V    any
}

var (
	head *Node
	pub  = &Node{S: "pub"}
)

func Grow(cur realm, k int) {
	for i := 0; i < k; i++ {
		head = &Node{S: "xxxxxxxxxxxxxxxxxxxxxxxxxxxxxxxx", Next: head}
	}
}

func Shrink(cur realm, k int) {
	for i := 0; i < k && head != nil; i++ {
		head = head.Next
	}
}

func Free(cur realm) { head = nil; pub.Next = nil }

// the old pub object dies unless another realm still holds it (then it lives on, still carrying x's object id)
func ReplacePub(cur realm) { pub = &Node{S: "pub-again"} }

func GrowThenPanic(cur realm, k int) {
	for i := 0; i < k; i++ {
		head = &Node{S: "qqqqqqqqqqqqqqqq", Next: head}
	}
	panic("boom")
}

func PriceThenGrow(cur realm, price string, k int) {
	sysp.SetPrice(cross(cur), price)
	for i := 0; i < k; i++ {
		head = &Node{S: "pppppppppppppppppppppppp", Next: head}
	}
}

// the default deposit (the limit of a message without MaxDeposit) changes INSIDE the message, before the growth
func DefaultThenGrow(cur realm, v string, k int) {
	sysp.SetDefault(cross(cur), v)
	for i := 0; i < k; i++ {
		head = &Node{S: "dddddddddddddddddddddddd", Next: head}
	}
}

func Pub() *Node { return pub }

// non-crossing methods: a caller in another realm borrows x's realm for the duration of the call
func (n *Node) Append(s string) { n.Next = &Node{S: s, Next: n.Next} }
func (n *Node) Put(v any)       { n.V = v }
func (n *Node) Cut()            { n.Next = nil }

func SetP(cur realm, key, val string)  { params.SetString(key, val) }
func SetPB(cur realm, key, val string) { params.SetBytes(key, []byte(val)) }
func DelP(cur realm, key string)       { params.SetBytes(key, nil) }
func AddPS(cur realm, key, val string) { params.UpdateParamStrings(key, []string{val}, true) }
func RemPS(cur realm, key, val string) { params.UpdateParamStrings(key, []string{val}, false) }
`

const realmY = `package yr

import x "gno.land/r/verif/xr"

type Item struct{ S string }

var (
	keep *x.Node
	own  []*Item
)

func GrowForeign(cur realm, k int) {
	for i := 0; i < k; i++ {
		x.Pub().Append("yyyyyyyyyyyyyyyyyyyyyyyy")
	}
}
func AttachForeign(cur realm) { x.Pub().Put(&Item{S: "made-in-y-attached-to-x"}) }
func DetachForeign(cur realm) { x.Pub().Put(nil) }
func CutForeign(cur realm)    { x.Pub().Cut() }
func Hold(cur realm)          { keep = x.Pub() }
func Drop(cur realm)          { keep = nil }
func GrowOwn(cur realm, k int) {
	for i := 0; i < k; i++ {
		own = append(own, &Item{S: "oooooooooooooooo"})
	}
}
func FreeOwn(cur realm)          { own = nil }
func CallX(cur realm, k int)     { x.Grow(cross(cur), k) }
func ShrinkBoth(cur realm, k int) { own = nil; x.Shrink(cross(cur), k) }
func GrowXShrinkOwn(cur realm, k int) { own = nil; x.Grow(cross(cur), k) }
func GrowOwnThenXPanicsRecovered(cur realm) {
	own = append(own, &Item{S: "before-the-recovered-panic"})
	defer func() { recover() }()
	x.GrowThenPanic(cross(cur), 2)
}
`

func realmZ(gen int) map[string]string {
	body := fmt.Sprintf("package zr\n\nvar items = []string{%s}\n\nfunc Add(cur realm, s string) { items = append(items, s) }\n",
		strings.Repeat("\"zzzzzzzzzzzzzzzz\", ", 1+gen*3))
	return map[string]string{"z.gno": body, "gnomod.toml": "module = \"" + pathZ + "\"\ngno = \"0.9\"\nprivate = true\n"}
}

var (
	A, B = chainx.NewKey("A"), chainx.NewKey("B")
	keys = []chainx.Key{A, B}
	r    *vk.Run
)

func coins(n int64) std.Coins { return std.Coins{std.NewCoin("ugnot", n)} }

func genesisTx(creator crypto.Address, path string, files map[string]string) std.Tx {
	return std.Tx{Msgs: []std.Msg{chainx.AddPkg(creator, path, files)}, Fee: std.NewFee(100_000_000, std.NewCoin("ugnot", fee)), Signatures: []std.Signature{{}}}
}

func newChain(withY, withZ bool, withW ...bool) *chainx.Chain {
	s := chainx.Spec{Keys: keys, Fund: 1_000_000_000_000}
	s.GenesisTxs = []std.Tx{
		genesisTx(A.Addr, pathSP, map[string]string{"p.gno": realmSP}),
		genesisTx(A.Addr, pathX, map[string]string{"x.gno": realmX}),
	}
	if withY {
		s.GenesisTxs = append(s.GenesisTxs, genesisTx(A.Addr, pathY, map[string]string{"y.gno": realmY}))
	}
	if withZ {
		s.GenesisTxs = append(s.GenesisTxs, genesisTx(A.Addr, pathZ, realmZ(0)))
	}
	if len(withW) > 0 && withW[0] {
		s.GenesisTxs = append(s.GenesisTxs, genesisTx(A.Addr, pathW, map[string]string{"w.gno": realmW}))
	}
	c, err := chainx.New(memdb.NewMemDB(), s)
	if err != nil {
		r.HarnessError("chain init: %v", err)
	}
	for i, tr := range c.Init.TxResponses {
		if tr.Error != nil {
			r.HarnessError("genesis tx %d failed: %v %s", i, tr.Error, tr.Log)
		}
	}
	return c
}

// ---- model --------------------------------------------------------------------------------------------------

type model struct {
	price        int64 // reference price register (ugnot per byte)
	priceChanged bool
	zGen         int
	defDep       int64 // reference register of vm:p:default_deposit: the limit of a message that carries no MaxDeposit
}

const defaultDeposit0 = int64(600_000_000) // vm params default; checked against the store at genesis

func newModel(g genesis) model {
	m := model{price: 100, defDep: defaultDeposit0}
	if g.withZ {
		m.zGen = 1
	}
	return m
}

type opDef struct {
	name   string
	signer *chainx.Key
	// build returns the messages; limit is the MaxDeposit put on the (single) charging message (0 = none).
	build func(m *model) (msgs []std.Msg, limit int64)
	// chargePrice: price in effect when the message that touches storage starts, given the price before the tx.
	// after: price after the tx if it succeeds.
	chargePrice func(before int64) int64
	after       func(before int64) int64
	mustFail    bool  // the statement requires this tx to fail (too-small deposit limit on real growth)
	mustOK      bool  // limits.go: the same message succeeded without a binding limit and every limit covers its requirement
	afterDef    int64 // >0: default_deposit after the tx if it succeeds
	limitPhase  bool  // only used by the deposit-limit phase (needs realm wr)
	needsY      bool
	deploy      bool // MsgAddPackage: only explored in replay mode (fresh chain, real commits)
}

func same(p int64) int64 { return p }

func call(k *chainx.Key, path, fn string, args ...string) func(*model) ([]std.Msg, int64) {
	return func(*model) ([]std.Msg, int64) { return []std.Msg{chainx.Call(k.Addr, nil, path, fn, args...)}, 0 }
}

func priceStr(p int64) string { return fmt.Sprintf("%dugnot", p) }
func dbl(p int64) int64       { return p * 2 }
func half(p int64) int64 {
	if p/2 < 1 {
		return 1
	}
	return p / 2
}

var menu = []opDef{
	{name: "growX3", signer: &A, build: call(&A, pathX, "Grow", "3")},
	{name: "shrinkX2", signer: &A, build: call(&A, pathX, "Shrink", "2")},
	{name: "freeX", signer: &A, build: call(&A, pathX, "Free")},
	{name: "growX3-limit1ugnot", signer: &A, mustFail: true, build: func(*model) ([]std.Msg, int64) {
		m := vm.NewMsgCall(A.Addr, nil, pathX, "Grow", []string{"3"})
		m.MaxDeposit = coins(1)
		return []std.Msg{m}, 1
	}},
	{name: "runB-growX2", signer: &B, build: func(*model) ([]std.Msg, int64) {
		return []std.Msg{chainx.Run(B.Addr, nil, "package main\n\nimport x \""+pathX+"\"\n\nfunc main(cur realm) { x.Grow(cross(cur), 2) }\n")}, 0
	}},
	{name: "shrinkX1-byB", signer: &B, build: call(&B, pathX, "Shrink", "1")},
	{name: "deployY", signer: &A, deploy: true, build: func(*model) ([]std.Msg, int64) {
		return []std.Msg{chainx.AddPkg(A.Addr, pathY, map[string]string{"y.gno": realmY})}, 0
	}},
	{name: "y.growForeign2", signer: &A, needsY: true, build: call(&A, pathY, "GrowForeign", "2")},
	{name: "y.attachForeign", signer: &B, needsY: true, build: call(&B, pathY, "AttachForeign")},
	{name: "y.detachForeign", signer: &A, needsY: true, build: call(&A, pathY, "DetachForeign")},
	{name: "x.replacePub", signer: &B, build: call(&B, pathX, "ReplacePub")},
	{name: "y.growOwn-xPanics-recovered", signer: &A, needsY: true, build: call(&A, pathY, "GrowOwnThenXPanicsRecovered")},
	{name: "y.hold", signer: &A, needsY: true, build: call(&A, pathY, "Hold")},
	{name: "y.drop", signer: &A, needsY: true, build: call(&A, pathY, "Drop")},
	{name: "y.cutForeign", signer: &B, needsY: true, build: call(&B, pathY, "CutForeign")},
	{name: "y.growOwn2", signer: &A, needsY: true, build: call(&A, pathY, "GrowOwn", "2")},
	{name: "y.growX-shrinkOwn", signer: &A, needsY: true, build: call(&A, pathY, "GrowXShrinkOwn", "2")},
	{name: "y.shrinkBoth", signer: &B, needsY: true, build: call(&B, pathY, "ShrinkBoth", "1")},
	{name: "param.setStr-long", signer: &A, build: call(&A, pathX, "SetP", "k", "vvvvvvvvvvvvvvvvvvvv")},
	{name: "param.setStr-short", signer: &A, build: call(&A, pathX, "SetP", "k", "v")},
	{name: "param.setBytes-empty", signer: &A, build: call(&A, pathX, "SetPB", "k", "")},
	{name: "param.setBytes3", signer: &A, build: call(&A, pathX, "SetPB", "k", "abc")},
	{name: "param.delete", signer: &B, build: call(&B, pathX, "DelP", "k")},
	{name: "param.addStrings", signer: &A, build: call(&A, pathX, "AddPS", "l", "elem")},
	{name: "param.remStrings", signer: &A, build: call(&A, pathX, "RemPS", "l", "elem")},
	{name: "price*2", signer: &A, after: dbl, build: func(m *model) ([]std.Msg, int64) {
		return []std.Msg{chainx.Call(A.Addr, nil, pathSP, "SetPrice", priceStr(dbl(m.price)))}, 0
	}},
	{name: "price/2", signer: &A, after: half, build: func(m *model) ([]std.Msg, int64) {
		return []std.Msg{chainx.Call(A.Addr, nil, pathSP, "SetPrice", priceStr(half(m.price)))}, 0
	}},
	// the price changes INSIDE the message, before the growth: the growth is charged at the price at message start
	{name: "x.price*2-then-grow-same-msg", signer: &A, after: dbl, chargePrice: same, build: func(m *model) ([]std.Msg, int64) {
		return []std.Msg{chainx.Call(A.Addr, nil, pathX, "PriceThenGrow", priceStr(dbl(m.price)), "2")}, 0
	}},
	// two messages in one tx: the second message starts after the price change took effect
	{name: "tx[price*2 ; growX3]", signer: &A, after: dbl, chargePrice: dbl, build: func(m *model) ([]std.Msg, int64) {
		return []std.Msg{chainx.Call(A.Addr, nil, pathSP, "SetPrice", priceStr(dbl(m.price))), chainx.Call(A.Addr, nil, pathX, "Grow", "3")}, 0
	}},
	{name: "deploy/redeploy-private-Z", signer: &A, deploy: true, build: func(m *model) ([]std.Msg, int64) {
		return []std.Msg{chainx.AddPkg(A.Addr, pathZ, realmZ(m.zGen))}, 0
	}},
	{name: "z.add", signer: &B, build: call(&B, pathZ, "Add", "wwwwwwwwwwwwwwwwwwwwwwww")},
	// contexts of the deposit-limit phase (limits.go): give wr/yr/xr something to free, give wr and xr a parameter
	{name: "w.spread(w+3,y+3,x+3)", signer: &A, limitPhase: true, build: call(&A, pathW, "Spread", "3", "3", "3")},
	{name: "w.spreadP(w:long,x:long,y0)", signer: &A, limitPhase: true, build: call(&A, pathW, "SpreadP", longVal, longVal, "0")},
}

func opIndex(name string) int {
	for i, o := range menu {
		if o.name == name {
			return i
		}
	}
	panic("no op " + name)
}

// ---- observation ---------------------------------------------------------------------------------------------

var realms = []string{pathSP, pathV, pathW, pathX, pathY, pathZ} // sorted by path: the order processStorageDeposit charges them in

type realmObs struct {
	rec                chainx.RealmRecord
	objBytes, parBytes int64
	nObj, nPar         int
	meta               int64
	hasMeta            bool
	depositBal         int64
}

type obs struct {
	realm  map[string]realmObs
	bal    map[crypto.Address]std.Coins
	price  string
	defDep string
	maxN   map[string]uint64 // per realm: largest object counter seen so far on this branch
}

// observe reads everything with direct key reads (an iterator on the memdb-backed stores costs O(whole DB)):
// objects oid:<pkgid>:1..N where N is the largest object counter the realm has ever shown on this branch (+2), the
// parameter names the menu uses, the byte counter, the realm record, the balances of the keys and deposit addresses.
var paramNames = []string{"k", "l"}

func observe(c *chainx.Chain, prev *obs) obs {
	o := obs{realm: map[string]realmObs{}, bal: map[crypto.Address]std.Coins{}, maxN: map[string]uint64{}}
	for _, k := range keys {
		o.bal[k.Addr] = c.BalanceOf(k.Addr)
	}
	for _, p := range realms {
		var mx uint64
		if prev != nil {
			mx = prev.maxN[p]
		}
		var ro realmObs
		ro.rec, ro.objBytes, ro.nObj = c.RealmScan(p, mx)
		if ro.rec.Time > mx {
			mx = ro.rec.Time
		}
		o.maxN[p] = mx
		// params bytes, re-implemented: every key "vm:<R>:<name>" costs len(key)+len(value)
		for _, n := range paramNames {
			k := "vm:" + p + ":" + n
			if v, ok := c.ReadKey("main", "/pv/"+k); ok {
				ro.parBytes += int64(len(k)) + int64(len(v))
				ro.nPar++
			}
		}
		if mv, ok := c.ReadKey("main", "/pv/_realmmeta_"+p); ok && len(mv) == 8 {
			ro.meta, ro.hasMeta = int64(binary.BigEndian.Uint64([]byte(mv))), true
		}
		ro.depositBal = chainx.Amount(c.BalanceOf(gnolang.DeriveStorageDepositCryptoAddr(p)), "ugnot")
		o.realm[p] = ro
	}
	o.price, _ = c.ReadKey("main", "/pv/vm:p:storage_price")
	o.defDep, _ = c.ReadKey("main", "/pv/vm:p:default_deposit")
	return o
}

var (
	nTx      atomic.Int64
	stateSet sync.Map
	nStates  atomic.Int64
)

func (o obs) stateKey() string {
	var b strings.Builder
	for _, p := range realms {
		ro := o.realm[p]
		fmt.Fprintf(&b, "%v/%d/%d/%d/%d/%d|", ro.rec.Exists, ro.rec.Storage, ro.rec.Deposit, ro.objBytes, ro.parBytes, ro.depositBal)
	}
	b.WriteString(o.price)
	b.WriteString(o.defDep)
	return b.String()
}

func firstLine(s string) string {
	if i := strings.IndexByte(s, '\n'); i >= 0 {
		s = s[:i]
	}
	if len(s) > 220 {
		s = s[:220]
	}
	return s
}

// ---- one transition: deliver, observe, check ---------------------------------------------------------------------

var probe = os.Getenv("C09_PROBE") != ""

func hname(h []int) string {
	var n []string
	for _, i := range h {
		n = append(n, menu[i].name)
	}
	return strings.Join(n, " ; ")
}

func short(p string) string { return p[strings.LastIndex(p, "/")+1:] }

type finding struct {
	key    string
	detail map[string]any
}

// checkStatic: invariants of a single state (I1, I2, I4-zero, I8, I9).
func checkStatic(m *model, o obs) *finding {
	for _, p := range realms {
		ro := o.realm[p]
		if !ro.rec.Exists {
			continue
		}
		switch {
		case uint64(ro.objBytes+ro.parBytes) != ro.rec.Storage:
			return &finding{"I1 recorded Storage != bytes re-derived from the store (" + short(p) + ")", map[string]any{"realm": p,
				"recorded_storage": ro.rec.Storage, "object_bytes": ro.objBytes, "objects": ro.nObj, "params_bytes": ro.parBytes, "params_keys": ro.nPar}}
		case uint64(ro.depositBal) < ro.rec.Deposit:
			return &finding{"I2 deposit address holds less than recorded Deposit (" + short(p) + ")", map[string]any{"realm": p, "balance": ro.depositBal, "recorded_deposit": ro.rec.Deposit}}
		case ro.rec.Storage == 0 && ro.rec.Deposit != 0:
			return &finding{"I4 Storage==0 but Deposit!=0 (" + short(p) + ")", map[string]any{"realm": p, "deposit": ro.rec.Deposit}}
		case !m.priceChanged && ro.rec.Deposit != ro.rec.Storage*uint64(m.price):
			return &finding{"I8 Deposit != Storage x price in a price-stable history (" + short(p) + ")", map[string]any{"realm": p, "deposit": ro.rec.Deposit, "storage": ro.rec.Storage, "price": m.price}}
		case ro.hasMeta && ro.meta != ro.parBytes || !ro.hasMeta && ro.parBytes != 0:
			return &finding{"I9 persisted params byte counter != re-derived params bytes (" + short(p) + ")", map[string]any{"realm": p, "meta": ro.meta, "has_meta": ro.hasMeta, "derived": ro.parBytes}}
		}
	}
	return nil
}

// step delivers op on c (the caller has arranged block boundaries), observes and checks the transition against the
// model. It returns the new observation, the updated model, whether the tx failed and the first finding (nil = ok).
func step(c *chainx.Chain, commit bool, m model, prev obs, oi int) (obs, model, bool, *finding) {
	return stepOp(c, commit, commit, m, prev, &menu[oi])
}

// stepOp: begin/end say whether the tx gets its own block (begin=false,end=true: the caller opened the block to measure
// the message's requirement on a snapshot first; the tx is then delivered and the block committed).
func stepOp(c *chainx.Chain, begin, end bool, m model, prev obs, op *opDef) (obs, model, bool, *finding) {
	msgs, limit := op.build(&m)
	tx := c.MakeTx(keys, msgs, chainx.TxOpt{GasWanted: 100_000_000})
	if begin {
		c.BeginBlock()
	}
	dr := c.DeliverTx(tx)
	if end {
		c.EndBlockCommit()
	}
	nTx.Add(1)
	r.Eval()
	cur := observe(c, &prev)
	if _, loaded := stateSet.LoadOrStore(cur.stateKey(), true); !loaded {
		nStates.Add(1)
	}
	failed := dr.Error != nil
	if probe {
		fmt.Printf("  %-32s failed=%v gas=%d %s\n", op.name, failed, dr.GasUsed, strings.ReplaceAll(dr.Log[:min(len(dr.Log), 300)], "\n", " | "))
		for _, p := range realms {
			a, b := prev.realm[p], cur.realm[p]
			if b.rec.Exists && a != b {
				fmt.Printf("      %-8s storage %d->%d deposit %d->%d objB %d (%d objs) parB %d meta %d bal %d\n", short(p), a.rec.Storage, b.rec.Storage, a.rec.Deposit, b.rec.Deposit, b.objBytes, b.nObj, b.parBytes, b.meta, b.depositBal)
			}
		}
	}
	if failed {
		r.Outcome(op.name + ":failed:" + errClass(dr))
	} else {
		r.Outcome(op.name + ":ok")
	}
	if failed {
		// I6: a failed tx leaves everything but the signer's fee untouched
		for _, p := range realms {
			a, b := prev.realm[p], cur.realm[p]
			if a != b {
				return cur, m, true, &finding{"I6 failed tx changed realm accounting (" + short(p) + ")", map[string]any{"realm": p, "before": fmt.Sprint(a), "after": fmt.Sprint(b), "log": firstLine(dr.Log)}}
			}
		}
		for _, k := range keys {
			want := chainx.Amount(prev.bal[k.Addr], "ugnot")
			if k.Addr == op.signer.Addr {
				want -= fee
			}
			if got := chainx.Amount(cur.bal[k.Addr], "ugnot"); got != want {
				return cur, m, true, &finding{"I6 failed tx moved coins of " + k.Name, map[string]any{"want": want, "got": got, "log": firstLine(dr.Log)}}
			}
		}
		if cur.price != prev.price || cur.defDep != prev.defDep {
			return cur, m, true, &finding{"I6 failed tx changed the storage price", map[string]any{}}
		}
		if op.mustOK {
			return cur, m, true, &finding{"I7 message failed although every deposit limit covers the message's total requirement", map[string]any{"limit": limit, "log": firstLine(dr.Log)}}
		}
		return cur, m, true, nil
	}
	if op.mustFail {
		return cur, m, false, &finding{"I7 growth with a too-small deposit limit succeeded", map[string]any{"limit": limit}}
	}
	chargeP := m.price
	if op.chargePrice != nil {
		chargeP = op.chargePrice(m.price)
	}
	var locks, refunds int64
	for _, p := range realms {
		a, b := prev.realm[p], cur.realm[p]
		if !b.rec.Exists {
			continue
		}
		dS := int64(b.rec.Storage) - int64(a.rec.Storage)
		dD := int64(b.rec.Deposit) - int64(a.rec.Deposit)
		switch {
		case dS > 0:
			r.Outcome("delta:grow:" + short(p))
			if dD != dS*chargeP {
				return cur, m, false, &finding{"I3 deposit delta != new bytes x price at message start (" + short(p) + ")", map[string]any{"realm": p, "delta_storage": dS, "delta_deposit": dD, "price_at_message_start": chargeP, "price_before_tx": m.price}}
			}
			locks += dD
		case dS < 0:
			r.Outcome("delta:shrink:" + short(p))
			rel := -dS
			var want int64
			if uint64(rel) == a.rec.Storage {
				want = int64(a.rec.Deposit)
			} else {
				x := new(big.Int).SetUint64(a.rec.Deposit)
				x.Mul(x, big.NewInt(rel))
				x.Div(x, new(big.Int).SetUint64(a.rec.Storage))
				want = x.Int64()
			}
			if -dD != want {
				return cur, m, false, &finding{"I4 refund != floor(Deposit x released / Storage) (" + short(p) + ")", map[string]any{"realm": p, "released": rel, "refund": -dD, "want": want, "deposit_before": a.rec.Deposit, "storage_before": a.rec.Storage}}
			}
			refunds += -dD
		default:
			if dD != 0 {
				return cur, m, false, &finding{"I4 deposit changed without storage change (" + short(p) + ")", map[string]any{"realm": p, "delta_deposit": dD}}
			}
		}
		// I5: the deposit address moved by exactly the recorded delta
		if b.depositBal-a.depositBal != dD {
			return cur, m, false, &finding{"I5 deposit address balance delta != recorded Deposit delta (" + short(p) + ")", map[string]any{"realm": p, "balance_delta": b.depositBal - a.depositBal, "deposit_delta": dD,
				"storage": fmt.Sprintf("%d->%d", a.rec.Storage, b.rec.Storage), "deposit": fmt.Sprintf("%d->%d", a.rec.Deposit, b.rec.Deposit), "object_bytes_after": b.objBytes}}
		}
	}
	for _, k := range keys {
		want := chainx.Amount(prev.bal[k.Addr], "ugnot")
		if k.Addr == op.signer.Addr {
			want += -fee - locks + refunds
		}
		if got := chainx.Amount(cur.bal[k.Addr], "ugnot"); got != want {
			return cur, m, false, &finding{"I5 balance of " + k.Name + " not explained by fee, locks and refunds", map[string]any{"want": want, "got": got, "locks": locks, "refunds": refunds, "signer": op.signer.Name}}
		}
	}
	if limit > 0 && locks > limit {
		return cur, m, false, &finding{"I7 locked more than the message's deposit limit", map[string]any{"limit": limit, "locked": locks}}
	}
	if op.after != nil {
		np := op.after(m.price)
		if np != m.price {
			m.priceChanged = true
		}
		m.price = np
		if want := "\"" + priceStr(np) + "\""; cur.price != want {
			r.HarnessError("price op did not take effect: store has %s want %s", cur.price, want)
		}
	}
	if op.afterDef > 0 {
		m.defDep = op.afterDef
	}
	if want := "\"" + priceStr(m.defDep) + "\""; cur.defDep != want && !(cur.defDep == "" && m.defDep == defaultDeposit0) {
		return cur, m, false, &finding{"harness: default_deposit register out of step with the store", map[string]any{"store": cur.defDep, "model": m.defDep}}
	}
	if op.deploy && strings.Contains(op.name, "private-Z") {
		m.zGen++
	}
	return cur, m, false, checkStatic(&m, cur)
}

func errClass(dr abci.ResponseDeliverTx) string {
	l := dr.Log
	switch {
	case strings.Contains(l, "not enough deposit"):
		return "not-enough-deposit"
	case strings.Contains(l, "already exists"):
		return "pkg-exists"
	case strings.Contains(l, "out of gas"):
		return "out-of-gas"
	case strings.Contains(l, "unexpected node with location"):
		return "no-such-package"
	case strings.Contains(l, "VM panic"):
		return "gno-panic"
	}
	return fmt.Sprintf("%T", dr.Error)
}

// ---- replay mode: fresh chain, one tx per block, state read after Commit -----------------------------------------------

type genesis struct{ withY, withZ, withW bool }

func (g genesis) String() string {
	return fmt.Sprintf("genesis{sp,xr%s%s%s}", map[bool]string{true: ",yr"}[g.withY], map[bool]string{true: ",zr"}[g.withZ], map[bool]string{true: ",wr"}[g.withW])
}

// replay runs history h on a fresh chain; returns the first finding (with the step index) or nil.
func replay(g genesis, h []int) (int, *finding) {
	c := newChain(g.withY, g.withZ, g.withW)
	m := newModel(g)
	prev := observe(c, nil)
	if f := checkStatic(&m, prev); f != nil {
		f.key += " @ genesis"
		return -1, f
	}
	for i, oi := range h {
		var f *finding
		prev, m, _, f = step(c, true, m, prev, oi)
		if f != nil {
			return i, f
		}
	}
	return len(h), nil
}

func report(g genesis, h []int, at int, f *finding, mode string) {
	opn := "genesis"
	if at >= 0 && at < len(h) {
		opn = menu[h[at]].name
		h = h[:at+1]
	}
	f.detail["history"] = g.String() + ": " + hname(h)
	f.detail["found_by"] = mode
	key := f.key + " @ " + opn
	if at > 0 && menu[h[at]].deploy && strings.Contains(opn, "private-Z") {
		for _, oi := range h[:at] {
			if oi == h[at] {
				// one root cause breaks I1/I3/I5/I8 in turn, depending on the history: report it under one stable key
				f.detail["first_broken_invariant"] = f.key
				key = "private-realm-redeploy-discards-realm-record: old Storage/Deposit counters are reset, the old deposit stays locked at the deposit address and the whole package is charged again"
			}
		}
	}
	r.Violation(key, f.detail)
}

// ---- DFS mode: one open block, O(1) snapshot/rollback of the deliver state between transactions ------------------------------

type dfsCtx struct {
	c          *chainx.Chain
	g          genesis
	ops        []int
	depth      int
	needDeploy bool // only histories containing a deployment (the others are covered from the full genesis)
}

var suspects sync.Map // history string -> true (findings of DFS mode, re-validated by replay before being reported)

type suspect struct {
	g   genesis
	h   []int
	key string
	lim *limSpec // deposit-limit phase: the template and variant evaluated after history h
}

func (d *dfsCtx) dfs(h []int, m model, prev obs) {
	if len(h) == d.depth || r.Expired() {
		return
	}
	for _, oi := range d.ops {
		if d.needDeploy && len(h)+1 == d.depth && !menu[oi].deploy && !hasDeploy(h) {
			continue
		}
		pop := d.c.Push()
		cur, m2, _, f := step(d.c, false, m, prev, oi)
		h2 := append(append([]int{}, h...), oi)
		if f != nil {
			suspects.Store(fmt.Sprint(d.g, h2), suspect{d.g, h2, f.key + menu[oi].name, nil})
		} else {
			d.dfs(h2, m2, cur)
		}
		pop()
	}
}

// ---- enumeration ---------------------------------------------------------------------------------------------------

func idx(names ...string) []int {
	var out []int
	for _, n := range names {
		out = append(out, opIndex(n))
	}
	return out
}

func seqs(sub []int, d int) [][]int {
	if d == 0 {
		return [][]int{{}}
	}
	var out [][]int
	for _, p := range seqs(sub, d-1) {
		for _, o := range sub {
			out = append(out, append(append([]int{}, p...), o))
		}
	}
	return out
}

func hasDeploy(h []int) bool {
	for _, i := range h {
		if menu[i].deploy {
			return true
		}
	}
	return false
}

func main() {
	debug.SetGCPercent(400)
	r = vk.New("model_checking")
	if pf := os.Getenv("C09_PROF"); pf != "" {
		f, _ := os.Create(pf)
		pprof.StartCPUProfile(f)
		defer pprof.StopCPUProfile()
		time.AfterFunc(60*time.Second, func() { pprof.StopCPUProfile(); f.Close(); os.Exit(3) })
	}
	r.SetBudget(300*time.Second, 30*time.Minute) // soft; quick needs ~60 s on a quiet 16-core box, 2-3x that when the box is loaded

	if probe {
		for i := 0; i < 4; i++ {
			t0 := time.Now()
			c := newChain(true, true, true)
			t1 := time.Now()
			o := observe(c, nil)
			t2 := time.Now()
			c.BeginBlock()
			pop := c.Push()
			step(c, false, newModel(genesis{true, true, true}), o, opIndex("growX3"))
			t3 := time.Now()
			pop()
			fmt.Println("newChain", t1.Sub(t0), "observe", t2.Sub(t1), "push+step(incl observe)", t3.Sub(t2))
			t4 := time.Now()
			mm := c.Items("main", "")
			t5 := time.Now()
			chainx.Balances(mm)
			t6 := time.Now()
			it := c.Items("base", chainx.RealmOIDPrefix(pathX))
			t7 := time.Now()
			tx := c.MakeTx(keys, []std.Msg{chainx.Call(A.Addr, nil, pathX, "Grow", "3")}, chainx.TxOpt{GasWanted: 100_000_000})
			t8 := time.Now()
			c.DeliverTx(tx)
			t9 := time.Now()
			fmt.Println("  main items", len(mm), t5.Sub(t4), "balances", t6.Sub(t5), "base prefix", len(it), t7.Sub(t6), "maketx", t8.Sub(t7), "deliver", t9.Sub(t8))
		}
		for _, hs := range [][]string{
			{"y.hold", "x.replacePub", "y.drop", "y.growOwn-xPanics-recovered"},
			{"y.attachForeign", "y.detachForeign", "y.attachForeign", "x.replacePub"},
		} {
			fmt.Println("HISTORY", hs)
			t0 := time.Now()
			at, f := replay(genesis{true, true, true}, idx(hs...))
			fmt.Println("   wall", time.Since(t0), at, f)
		}
		r.Finish("probe", false, map[string]any{"states": nStates.Load(), "transitions": nTx.Load(), "traces_validated_against_impl": nTx.Load()})
	}

	var all, nonDeploy []int
	for i := range menu {
		all = append(all, i)
		if !menu[i].deploy && !menu[i].limitPhase {
			nonDeploy = append(nonDeploy, i)
		}
	}
	dfsDepth, replayLen := 3, 2
	if r.Thorough() {
		dfsDepth, replayLen = 4, 3
	}
	_ = all

	// (1) replay mode (fresh chain per history, one tx per block, state read after Commit): every history of <= replayLen
	//     txs over the deploy theme, from the genesis without yr/zr
	deployTheme := idx("deployY", "deploy/redeploy-private-Z", "z.add")
	if r.Thorough() {
		deployTheme = idx("deployY", "deploy/redeploy-private-Z", "z.add", "y.growForeign2")
	}
	type rjob struct {
		g genesis
		h []int
	}
	var rjobs []rjob
	if r.Quick() {
		for _, h := range [][]string{{"deploy/redeploy-private-Z", "deploy/redeploy-private-Z"}, {"deploy/redeploy-private-Z", "z.add"}, {"deployY", "y.growForeign2"}, {"deployY", "deployY"}, {"growX3", "shrinkX2"}} {
			rjobs = append(rjobs, rjob{genesis{}, idx(h...)})
		}
		replayLen = 0
	}
	for d := 1; d <= replayLen; d++ {
		for _, h := range seqs(deployTheme, d) {
			if d == replayLen || hasDeploy(h) { // shorter non-deploy histories are prefixes of the longer ones
				rjobs = append(rjobs, rjob{genesis{}, h})
			}
		}
	}
	if os.Getenv("C09_PROF") != "" {
		rjobs = nil
	}
	t00 := time.Now()
	warm := newChain(true, true, true) // the first chain of a process loads and caches the stdlibs: do it once, not once per worker
	fmt.Printf("warm-up chain: %.1fs\n", time.Since(t00).Seconds())
	// The soft budget is meant as an amount of work, not of wall time: the warm-up chain is a fixed piece of work (~8 s on
	// an idle box), so its duration measures how loaded the box is; stretch the budget accordingly (at most 6x).
	if f := time.Since(t00).Seconds() / 8; f > 1 && (r.Budget == 300*time.Second || r.Budget == 30*time.Minute) {
		r.Budget = time.Duration(float64(r.Budget) * min(f, 6))
	}
	var rdone atomic.Int64
	r.ParFor(len(rjobs), func(i int) {
		if at, f := replay(rjobs[i].g, rjobs[i].h); f != nil {
			report(rjobs[i].g, rjobs[i].h, at, f, "replay")
		}
		r.Distinct("replay" + fmt.Sprint(rjobs[i].h))
		rdone.Add(1)
	})

	tReplay := time.Since(t00)
	// (2) DFS mode. A: every history of <= dfsDepth txs over the non-deploy menu from the genesis with all four realms;
	//     B: every history of <= dfsDepth txs over the FULL menu that contains a deployment, from the genesis without yr/zr.
	type djob struct {
		g      genesis
		ops    []int
		prefix []int
		need   bool
		depth  int
		tmpl   int // >= 0: deposit-limit job: evaluate template tmpl after the context history prefix
	}
	var djobs []djob
	type theme struct {
		name string
		ops  []int
	}
	themes := []theme{
		{"growth+price", idx("growX3", "shrinkX2", "freeX", "growX3-limit1ugnot", "shrinkX1-byB", "runB-growX2", "price*2", "price/2", "x.price*2-then-grow-same-msg", "tx[price*2 ; growX3]")},
		{"foreign-owned objects", idx("growX3", "freeX", "x.replacePub", "y.growForeign2", "y.attachForeign", "y.detachForeign", "y.hold", "y.drop", "y.cutForeign", "y.growX-shrinkOwn", "y.shrinkBoth", "y.growOwn2", "y.growOwn-xPanics-recovered")},
		{"params", idx("param.setStr-long", "param.setStr-short", "param.setBytes-empty", "param.setBytes3", "param.delete", "param.addStrings", "param.remStrings", "growX3", "shrinkX2", "price*2", "z.add")},
	}
	seenJob := map[string]bool{}
	addJob := func(ops, prefix []int, depth int) {
		if k := fmt.Sprint(prefix, depth >= dfsDepth); !seenJob[k] {
			seenJob[k] = true
			djobs = append(djobs, djob{genesis{true, true, true}, ops, prefix, false, depth, -1})
		}
	}
	if r.Quick() {
		// quick: every history of <=2 txs over the whole non-deploy menu, every history of <=3 txs inside each theme
		for _, p := range seqs(nonDeploy, 2) {
			addJob(nonDeploy, p, 2)
		}
		for _, t := range themes {
			for _, p := range seqs(t.ops, 2) {
				addJob(t.ops, p, 3)
			}
		}
	} else {
		// thorough: every history of <=3 txs over the whole non-deploy menu, every history of <=4 txs inside each theme
		for _, p := range seqs(nonDeploy, 2) {
			addJob(nonDeploy, p, 3)
		}
		for _, t := range themes {
			for _, p := range seqs(t.ops, 2) {
				addJob(t.ops, p, 4)
			}
		}
	}
	deployMenu := idx("deployY", "deploy/redeploy-private-Z", "z.add", "y.growForeign2", "y.hold", "y.drop", "y.growOwn2", "x.replacePub", "growX3", "shrinkX2", "price*2", "param.setStr-long")
	for _, p := range seqs(deployMenu, 2) {
		djobs = append(djobs, djob{genesis{}, deployMenu, p, true, 3, -1})
	}
	// (3) deposit-limit phase (limits.go): every template after every context, interleaved with the DFS jobs so that the
	//     workers do not all wait for the same chains
	templates := buildTemplates()
	ctxMenu := idx("w.spread(w+3,y+3,x+3)", "w.spreadP(w:long,x:long,y0)", "price*2", "price/2")
	ctxDepth := 1
	if r.Thorough() {
		ctxDepth = 2
	}
	var ljobs []djob
	var contexts [][]int
	for d := 0; d <= ctxDepth; d++ {
		contexts = append(contexts, seqs(ctxMenu, d)...)
	}
	for _, h := range contexts {
		for ti := range templates {
			ljobs = append(ljobs, djob{g: genesis{true, true, true}, prefix: h, tmpl: ti})
		}
	}
	if os.Getenv("C09_ONLY_LIMITS") != "" {
		djobs, rjobs = nil, nil
	}
	{
		var mixed []djob
		a, b := 0, 0
		for a < len(djobs) || b < len(ljobs) {
			if b < len(ljobs) && (a >= len(djobs) || b*len(djobs) <= a*len(ljobs)) {
				mixed = append(mixed, ljobs[b])
				b++
			} else {
				mixed = append(mixed, djobs[a])
				a++
			}
		}
		djobs = mixed
	}
	var nVariants, nLimJobs atomic.Int64
	pools := map[genesis]chan *chainx.Chain{{true, true, true}: make(chan *chainx.Chain, 64), {}: make(chan *chainx.Chain, 64)}
	warm.BeginBlock()
	pools[genesis{true, true, true}] <- warm
	created := map[genesis]*atomic.Int64{{true, true, true}: new(atomic.Int64), {}: new(atomic.Int64)}
	maxChains := map[genesis]int64{{true, true, true}: 6, {}: 2}
	var ddone atomic.Int64
	r.ParFor(len(djobs), func(i int) {
		j := djobs[i]
		// chain creation is the expensive part (it copies the whole stdlib store): a bounded number of chains per genesis
		var c *chainx.Chain
		select {
		case c = <-pools[j.g]:
		default:
			if created[j.g].Add(1) <= maxChains[j.g] {
				c = newChain(j.g.withY, j.g.withZ, j.g.withW)
				c.BeginBlock()
			} else {
				c = <-pools[j.g]
			}
		}
		defer func() { pools[j.g] <- c }()
		pop := c.Push()
		defer pop()
		m := newModel(j.g)
		prev := observe(c, nil)
		h := []int{}
		for _, oi := range j.prefix {
			var f *finding
			prev, m, _, f = step(c, false, m, prev, oi)
			h = append(h, oi)
			if f != nil {
				suspects.Store(fmt.Sprint(j.g, h), suspect{j.g, append([]int{}, h...), f.key + menu[oi].name, nil})
				ddone.Add(1)
				return
			}
		}
		if j.tmpl >= 0 {
			nv := evalTemplate(c, m, prev, j.tmpl, &templates[j.tmpl], func(ls limSpec, f *finding) {
				ls2 := ls
				suspects.Store(fmt.Sprint(j.g, h, ls.ti, ls.v), suspect{j.g, append([]int{}, h...), f.key + templates[ls.ti].name + ls.label, &ls2})
			})
			nVariants.Add(int64(nv))
			nLimJobs.Add(1)
			r.Distinct("limits" + fmt.Sprint(j.prefix, j.tmpl))
			ddone.Add(1)
			return
		}
		(&dfsCtx{c: c, g: j.g, ops: j.ops, depth: j.depth, needDeploy: j.need}).dfs(h, m, prev)
		r.Distinct("dfs" + fmt.Sprint(j.g, j.prefix, j.depth, len(j.ops)))
		ddone.Add(1)
	})
	tDFS := time.Since(t00) - tReplay
	// re-validate DFS findings on a fresh chain with real commits (shortest first)
	var sus []suspect
	suspects.Range(func(_, v any) bool { sus = append(sus, v.(suspect)); return true })
	sort.Slice(sus, func(i, j int) bool {
		if len(sus[i].h) != len(sus[j].h) {
			return len(sus[i].h) < len(sus[j].h)
		}
		if a, b := fmt.Sprint(sus[i].h), fmt.Sprint(sus[j].h); a != b {
			return a < b
		}
		return sus[i].key < sus[j].key
	})
	seenKey := map[string]bool{}
	nRep := map[bool]int{}
	for _, s := range sus {
		// the shortest history of each distinct finding; at most 12 replays per phase (history DFS / deposit-limit phase)
		if seenKey[s.key] || nRep[s.lim != nil] >= 12 {
			continue
		}
		seenKey[s.key] = true
		nRep[s.lim != nil]++
		if s.lim != nil {
			t := &templates[s.lim.ti]
			what := hname(s.h) + " ; " + t.name + " limit=" + s.lim.label
			at, f := replayLimited(s.g, s.h, templates, *s.lim)
			if f == nil {
				r.HarnessError("finding of the deposit-limit phase (rollback mode) not reproduced with real commits: %s", what)
			}
			if at < len(s.h) {
				report(s.g, s.h, at, f, "deposit-limit phase, confirmed by replay with real commits")
				continue
			}
			f.detail["history"] = s.g.String() + ": " + what + " " + fmt.Sprint(s.lim.v.lims)
			f.detail["found_by"] = "deposit-limit phase (requirement measured on a snapshot), confirmed by replay with real commits"
			r.Violation(f.key+" @ "+t.name+" limit="+s.lim.label, f.detail)
			continue
		}
		at, f := replay(s.g, s.h)
		if f == nil {
			r.HarnessError("finding of DFS (rollback) mode not reproduced with real commits: %s", hname(s.h))
		}
		report(s.g, s.h, at, f, "dfs, confirmed by replay with real commits")
	}

	r.Sample(map[string]any{"history": hname(idx("price*2", "growX3", "price/2", "shrinkX2")), "meaning": "growth charged at the doubled price, partial refund at the average rate"})
	r.Sample(map[string]any{"history": hname(idx("y.hold", "x.replacePub", "y.drop")), "meaning": "an object carrying xr's id ends up owned by yr and is deleted by yr's finalize: xr's counters must follow"})
	r.Assumptions = []string{
		"the storage price is changed through a stub realm deployed at gno.land/r/sys/params (the only path sys/params accepts); it stands for an executed governance proposal",
		"DFS mode keeps one block open and reads the deliver state after each DeliverTx (exactly what Commit would write), rolling back with a cache-wrap snapshot; every history containing a deployment, and every finding, runs in replay mode: fresh chain, one tx per block, raw store bytes read after Commit",
		"partial refunds are checked against the proportional rule floor(Deposit x released / Storage) implemented and documented in keeper.go; the statement itself only fixes the two ends (growth price, full refund)",
		"a realm can never release ALL its storage (its package objects stay), so 'free everything refunds everything' is checked as: Storage==0 => Deposit==0, the refund rule at every shrink, and Deposit == Storage x price in price-stable histories",
	}
	fmt.Printf("phases: replay %.1fs (%d chains) dfs %.1fs revalidate %.1fs\n", tReplay.Seconds(), len(rjobs), tDFS.Seconds(), (time.Since(t00) - tReplay - tDFS).Seconds())
	exh := rdone.Load() == int64(len(rjobs)) && ddone.Load() == int64(len(djobs))
	scope := "every history of <=2 txs over the %d non-deploy ops and of <=3 txs inside each of 3 themed sub-menus (growth+price 10 ops, foreign-owned objects 13 ops, params 11 ops)"
	if r.Thorough() {
		scope = "every history of <=3 txs over the %d non-deploy ops and of <=4 txs inside each of 3 themed sub-menus (10/13/11 ops)"
	}
	r.Finish(fmt.Sprintf("DFS (open block, snapshot/rollback) from the genesis with 5 realms: "+scope+"; from the genesis with 2 realms: every history of <=3 txs over a %d-op deploy menu containing a deployment; replay (fresh chain, commit per tx): %d histories; deposit-limit phase: %d message templates (one call/run/deployment or a 2-message tx growing/shrinking 0..3 realms) after each of %d contexts (histories of <=%d txs over 4 ops), requirement measured per realm on a snapshot, every limit of the menu derived from it (unset/1/min,max,prefix sums,total -1/+0/+1/2x, through MaxDeposit and through default_deposit) run from the same snapshot: %d limited deliveries; invariants I1-I9 re-derived from raw store bytes after every tx; distinct = completed replay histories + DFS subtrees + (context,template) pairs", len(nonDeploy), len(deployMenu), len(rjobs), len(templates), len(contexts), ctxDepth, nVariants.Load()),
		exh, map[string]any{"states": nStates.Load(), "transitions": nTx.Load(), "traces_validated_against_impl": nTx.Load(), "replay_histories": len(rjobs), "dfs_subtrees": len(djobs) - len(ljobs), "menu": len(menu),
			"limit_templates": len(templates), "limit_contexts": len(contexts), "limit_jobs_done": nLimJobs.Load(), "limit_variants": nVariants.Load()})
}
