// C09, deposit-limit phase: "a message whose deposit limit is too small fails", quantified over BINDING limits.
//
// For every context (a short history that varies what the realms own and the price) and every message template (one
// MsgCall / MsgRun / MsgAddPackage, or a two-message tx, that grows / shrinks storage in 0..3 realms at once through
// object growth, realm parameters or a deploying package's init) the harness
//
//  1. MEASURES the message's requirement on a snapshot of the state: the message runs with a non-binding MaxDeposit; the
//     per-realm locks (in the path order the keeper charges them in) and their total T are read off the realm records;
//  2. derives the limit menu FROM the measurement: unset (= vm:p:default_deposit), 1ugnot, every realm's need, the largest
//     need -1/+1, every prefix sum in charging order, T-1, T, T+1, 2T+1 (two-message txs: per message {unset, T_i-1, T_i,
//     T_0+T_1}, all pairs: the budget is per MESSAGE, it neither carries over nor pools);
//  3. runs the message once per limit from the same snapshot and checks: it succeeds iff every message's effective limit
//     >= that message's total requirement (I7 both directions); a success locks <= the limit, passes I1-I5/I8/I9 like any
//     other tx and ends in EXACTLY the state of the non-binding run; a failure leaves every record, byte and balance
//     untouched but the fee (I6);
//  4. repeats the boundary limits through the other source of the budget: a governance tx sets vm:p:default_deposit to the
//     limit and the message is sent WITHOUT MaxDeposit; messages that change default_deposit themselves keep the budget
//     they started with, the next message of the tx gets the new one.
package main

import (
	"fmt"
	"sort"
	"strconv"
	"strings"

	"github.com/gnolang/gno/gno.land/pkg/sdk/vm"
	"github.com/gnolang/gno/tm2/pkg/std"
	"verif/engine/chainx"
)

const realmW = `package wr

import (
	"chain/params"

	x "gno.land/r/verif/xr"
	y "gno.land/r/verif/yr"
)

type E struct{ S string }

var own []*E

// Spread touches up to three realms in ONE message; per realm: n > 0 adds n objects, n < 0 frees objects, 0 leaves it alone.
func Spread(cur realm, w, yk, xk int) {
	switch {
	case w > 0:
		for i := 0; i < w; i++ {
			own = append(own, &E{S: "wwwwwwwwwwwwwwwwwwww"})
		}
	case w < 0:
		own = nil
	}
	switch {
	case yk > 0:
		y.GrowOwn(cross(cur), yk)
	case yk < 0:
		y.FreeOwn(cross(cur))
	}
	switch {
	case xk > 0:
		x.Grow(cross(cur), xk)
	case xk < 0:
		x.Shrink(cross(cur), -xk)
	}
}

// SpreadP: realm parameters of wr and of xr ("" = leave alone, "-" = delete) plus objects of yr, in one message.
func SpreadP(cur realm, wv, xv string, yk int) {
	switch wv {
	case "":
	case "-":
		params.SetBytes("k", nil)
	default:
		params.SetString("k", wv)
	}
	switch xv {
	case "":
	case "-":
		x.DelP(cross(cur), "k")
	default:
		x.SetP(cross(cur), "k", xv)
	}
	if yk > 0 {
		y.GrowOwn(cross(cur), yk)
	}
}
`

// realmV: a package whose init grows xr by nx and yr by ny objects: one MsgAddPackage charging up to three realms.
func realmV(nx, ny int) map[string]string {
	var imp, body string
	if nx > 0 {
		imp += "import x \"" + pathX + "\"\n"
		body += fmt.Sprintf("\tx.Grow(cross(cur), %d)\n", nx)
	}
	if ny > 0 {
		imp += "import y \"" + pathY + "\"\n"
		body += fmt.Sprintf("\ty.GrowOwn(cross(cur), %d)\n", ny)
	}
	return map[string]string{"v.gno": "package vr\n\n" + imp + "\nvar items = []string{\"vvvvvvvvvvvvvvvv\"}\n\nfunc init(cur realm) {\n\titems = append(items, \"init\")\n" + body + "}\n"}
}

const hugeLimit = int64(100_000_000_000) // non-binding: 1/10 of a key's funds, far above every requirement in scope

type lmsg struct {
	mk      func(lim int64) std.Msg // lim == 0: no MaxDeposit
	setsDef int64                   // > 0: the message sets vm:p:default_deposit to this value
}

type ltmpl struct {
	name       string
	family     string
	signer     *chainx.Key
	msgs       []lmsg
	viaDefault bool // also drive the boundary limits through vm:p:default_deposit
}

func limited(m std.Msg, lim int64) std.Msg {
	if lim == 0 {
		return m
	}
	switch v := m.(type) {
	case vm.MsgCall:
		v.MaxDeposit = coins(lim)
		return v
	case vm.MsgRun:
		v.MaxDeposit = coins(lim)
		return v
	case vm.MsgAddPackage:
		v.MaxDeposit = coins(lim)
		return v
	}
	panic(fmt.Sprintf("limited: %T", m))
}

func lcall(k *chainx.Key, path, fn string, args ...string) lmsg {
	return lmsg{mk: func(lim int64) std.Msg { return limited(chainx.Call(k.Addr, nil, path, fn, args...), lim) }}
}

func sgn(n int) string {
	if n > 0 {
		return "+" + strconv.Itoa(n)
	}
	return strconv.Itoa(n)
}

const longVal = "vvvvvvvvvvvvvvvvvvvvvvvvvvvvvvvvvvvvvvvv"

func pname(v string) string {
	switch v {
	case "":
		return "keep"
	case "-":
		return "del"
	case longVal:
		return "long"
	}
	return "'" + v + "'"
}

func buildTemplates() []ltmpl {
	var ts []ltmpl
	// (a) one MsgCall spread over wr / yr / xr: every combination of {free, nothing, +1, +3} per realm
	amounts := []int{-1, 0, 1, 3}
	for _, w := range amounts {
		for _, y := range amounts {
			for _, x := range amounts {
				ts = append(ts, ltmpl{name: fmt.Sprintf("w.spread(w%s,y%s,x%s)", sgn(w), sgn(y), sgn(x)), family: "call", signer: &A, viaDefault: w%3 == 0 && y%3 == 0 && x%3 == 0,
					msgs: []lmsg{lcall(&A, pathW, "Spread", strconv.Itoa(w), strconv.Itoa(y), strconv.Itoa(x))}})
			}
		}
	}
	// (b) one MsgRun by the other signer calling into 1..3 realms
	for mask := 1; mask < 8; mask++ {
		var imp, body, nm []string
		if mask&1 != 0 {
			imp, body, nm = append(imp, "x \""+pathX+"\""), append(body, "x.Grow(cross(cur), 2)"), append(nm, "x+2")
		}
		if mask&2 != 0 {
			imp, body, nm = append(imp, "y \""+pathY+"\""), append(body, "y.GrowOwn(cross(cur), 1)"), append(nm, "y+1")
		}
		if mask&4 != 0 {
			imp, body, nm = append(imp, "w \""+pathW+"\""), append(body, "w.Spread(cross(cur), 2, 0, 0)"), append(nm, "w+2")
		}
		src := "package main\n\nimport (\n\t" + strings.Join(imp, "\n\t") + "\n)\n\nfunc main(cur realm) {\n\t" + strings.Join(body, "\n\t") + "\n}\n"
		ts = append(ts, ltmpl{name: "runB(" + strings.Join(nm, ",") + ")", family: "run", signer: &B, viaDefault: mask == 7,
			msgs: []lmsg{{mk: func(lim int64) std.Msg { return limited(chainx.Run(B.Addr, nil, src), lim) }}}})
	}
	// (c) realm parameters of two realms plus objects of a third
	vals := []string{"", "-", "v", longVal}
	for _, wv := range vals {
		for _, xv := range vals {
			for _, yk := range []int{0, 2} {
				ts = append(ts, ltmpl{name: fmt.Sprintf("w.spreadP(w:%s,x:%s,y%s)", pname(wv), pname(xv), sgn(yk)), family: "params", signer: &A, viaDefault: wv == longVal && xv == longVal,
					msgs: []lmsg{lcall(&A, pathW, "SpreadP", wv, xv, strconv.Itoa(yk))}})
			}
		}
	}
	// (d) one MsgAddPackage whose init crosses into 0..2 other realms
	for _, n := range [][2]int{{0, 0}, {2, 0}, {1, 2}} {
		files := realmV(n[0], n[1])
		ts = append(ts, ltmpl{name: fmt.Sprintf("deployV(init:x%s,y%s)", sgn(n[0]), sgn(n[1])), family: "addpkg", signer: &A, viaDefault: n[1] > 0,
			msgs: []lmsg{{mk: func(lim int64) std.Msg { return limited(chainx.AddPkg(A.Addr, pathV, files), lim) }}}})
	}
	// (e) two messages in one tx: each message has its own budget
	ts = append(ts,
		ltmpl{name: "tx[w.spread(w+1,y0,x0) ; growX2]", family: "2msg", signer: &A, msgs: []lmsg{lcall(&A, pathW, "Spread", "1", "0", "0"), lcall(&A, pathX, "Grow", "2")}},
		ltmpl{name: "tx[y.growOwn2 ; w.spread(w0,y+1,x+1)]", family: "2msg", signer: &A, msgs: []lmsg{lcall(&A, pathY, "GrowOwn", "2"), lcall(&A, pathW, "Spread", "0", "1", "1")}},
		// (a realm changed by both messages would need per-message observation: the per-tx deltas mix a lock and a refund)
		ltmpl{name: "tx[w.spread(w+3,y0,x0) ; w.spread(w0,y-1,x+1)]", family: "2msg", signer: &A, msgs: []lmsg{lcall(&A, pathW, "Spread", "3", "0", "0"), lcall(&A, pathW, "Spread", "0", "-1", "1")}},
	)
	// (f) the default budget changes inside the message / between two messages of one tx
	setDef := lcall(&A, pathSP, "SetDefault", "1ugnot")
	setDef.setsDef = 1
	dtg := lcall(&A, pathX, "DefaultThenGrow", "1ugnot", "2")
	dtg.setsDef = 1
	ts = append(ts,
		ltmpl{name: "x.default=1ugnot-then-grow-same-msg", family: "default", signer: &A, msgs: []lmsg{dtg}},
		ltmpl{name: "tx[default=1ugnot ; w.spread(w+1,y0,x+1)]", family: "default", signer: &A, msgs: []lmsg{setDef, lcall(&A, pathW, "Spread", "1", "0", "1")}},
	)
	return ts
}

// requirement of a template in one state, measured on a snapshot with non-binding limits
type reqs struct {
	needs [][]int64 // per message: the positive per-realm locks, in charging (path) order
	tot   []int64
	ref   obs // state after the whole tx with non-binding limits
	ok    bool
}

func (t *ltmpl) txMsgs(lims []int64) []std.Msg {
	var out []std.Msg
	for i, lm := range t.msgs {
		out = append(out, lm.mk(lims[i]))
	}
	return out
}

func (t *ltmpl) finalDef() int64 {
	var d int64
	for _, lm := range t.msgs {
		if lm.setsDef > 0 {
			d = lm.setsDef
		}
	}
	return d
}

// measure needs an open block on c; it leaves the chain state as it found it.
func measure(c *chainx.Chain, m model, prev obs, t *ltmpl) (reqs, *finding) {
	q := reqs{ok: true}
	pop := c.Push()
	mm, pv := m, prev
	for i := range t.msgs {
		lm := t.msgs[i]
		op := opDef{name: t.name + " (non-binding limit)", signer: t.signer, afterDef: lm.setsDef,
			build: func(*model) ([]std.Msg, int64) { return []std.Msg{lm.mk(hugeLimit)}, hugeLimit }}
		cur, m2, failed, f := stepOp(c, false, false, mm, pv, &op)
		if f != nil {
			pop()
			return q, f
		}
		if failed {
			q.ok = false
			break
		}
		var ns []int64
		var tot int64
		for _, p := range realms {
			a, b := pv.realm[p], cur.realm[p]
			if int64(b.rec.Storage) > int64(a.rec.Storage) {
				d := int64(b.rec.Deposit) - int64(a.rec.Deposit)
				ns, tot = append(ns, d), tot+d
			}
		}
		q.needs, q.tot = append(q.needs, ns), append(q.tot, tot)
		mm, pv = m2, cur
	}
	pop()
	if !q.ok {
		return q, nil
	}
	if len(t.msgs) == 1 {
		q.ref = pv
		return q, nil
	}
	pop = c.Push()
	lims := make([]int64, len(t.msgs))
	for i := range lims {
		lims[i] = hugeLimit
	}
	op := opDef{name: t.name + " (non-binding limits)", signer: t.signer, afterDef: t.finalDef(), mustOK: true,
		build: func(*model) ([]std.Msg, int64) { return t.txMsgs(lims), hugeLimit * int64(len(lims)) }}
	cur, _, _, f := stepOp(c, false, false, m, prev, &op)
	pop()
	q.ref = cur
	return q, f
}

func limitClass(v int64, needs []int64) string {
	var tot, mn int64
	for i, n := range needs {
		tot += n
		if i == 0 || n < mn {
			mn = n
		}
	}
	switch {
	case v == 0:
		return "unset"
	case tot == 0:
		return "no-growth"
	case v < mn:
		return "below-every-realm's-need"
	case v == tot:
		return "exactly-the-total"
	case v > tot:
		return "above-the-total"
	}
	for _, n := range needs {
		if v == n {
			return "exactly-one-realm's-need"
		}
	}
	return "between-one-realm's-need-and-the-total"
}

// limitMenu: the limits worth telling apart for one message, derived from its measured per-realm needs: unset, 1ugnot,
// every single realm's need, the largest need -1/+1 (where a keeper that checks each realm against the whole budget
// flips), every prefix sum in charging order (where the unchanged keeper runs dry), the total -1/+0/+1 and 2x+1.
func limitMenu(needs []int64) []int64 {
	set := map[int64]bool{0: true, 1: true}
	add := func(v int64, ds ...int64) {
		for _, d := range ds {
			if v+d > 0 {
				set[v+d] = true
			}
		}
	}
	var pre, mx int64
	for _, n := range needs {
		add(n, 0)
		pre += n
		add(pre, 0)
		mx = max(mx, n)
	}
	if pre > 0 {
		add(mx, -1, 1)
		add(pre, -1, 1)
		set[2*pre+1] = true
	}
	var out []int64
	for v := range set {
		out = append(out, v)
	}
	sort.Slice(out, func(i, j int) bool { return out[i] < out[j] })
	return out
}

type variant struct {
	lims   []int64
	viaDef int64 // > 0: a governance tx sets default_deposit to this first, the message then carries no MaxDeposit
	label  string
}

func variants(t *ltmpl, q reqs) []variant {
	var out []variant
	if len(t.msgs) == 1 {
		for _, v := range limitMenu(q.needs[0]) {
			out = append(out, variant{lims: []int64{v}, label: limitClass(v, q.needs[0])})
		}
		if t.viaDefault && q.tot[0] > 1 {
			seen := map[int64]bool{}
			mn := q.needs[0][0]
			for _, n := range q.needs[0] {
				mn = min(mn, n)
			}
			for _, v := range []int64{mn, q.tot[0] - 1, q.tot[0]} {
				if !seen[v] {
					seen[v] = true
					out = append(out, variant{lims: []int64{0}, viaDef: v, label: "default_deposit:" + limitClass(v, q.needs[0])})
				}
			}
		}
		return out
	}
	var all int64
	for _, x := range q.tot {
		all += x
	}
	per := make([][]int64, len(t.msgs))
	for i := range t.msgs {
		set := map[int64]bool{0: true, all: true}
		if q.tot[i] > 1 {
			set[q.tot[i]-1] = true
		}
		if q.tot[i] > 0 {
			set[q.tot[i]] = true
		}
		for v := range set {
			if v >= 0 {
				per[i] = append(per[i], v)
			}
		}
		sort.Slice(per[i], func(a, b int) bool { return per[i][a] < per[i][b] })
	}
	var rec func(i int, cur []int64, lab []string)
	rec = func(i int, cur []int64, lab []string) {
		if i == len(per) {
			out = append(out, variant{lims: append([]int64{}, cur...), label: strings.Join(lab, "|")})
			return
		}
		for _, v := range per[i] {
			l := limitClass(v, q.needs[i])
			if v == all && v != q.tot[i] && v != 0 {
				l = "the-tx-total"
			}
			rec(i+1, append(cur, v), append(lab, l))
		}
	}
	rec(0, nil, nil)
	return out
}

// runVariant delivers the template with the variant's limits on the current state (open block; end: commit afterwards).
func runVariant(c *chainx.Chain, end bool, m model, prev obs, t *ltmpl, q reqs, v variant, compareRef bool) (bool, *finding) {
	def, ok, sum := m.defDep, true, int64(0)
	for i, lm := range t.msgs {
		eff := v.lims[i]
		if eff == 0 {
			eff = def
		}
		if eff < q.tot[i] {
			ok = false
		}
		sum += eff
		if lm.setsDef > 0 {
			def = lm.setsDef
		}
	}
	op := opDef{name: t.name + " limit=" + v.label, signer: t.signer, mustFail: !ok, mustOK: ok, afterDef: t.finalDef(),
		build: func(*model) ([]std.Msg, int64) { return t.txMsgs(v.lims), sum }}
	cur, _, failed, f := stepOp(c, false, end, m, prev, &op)
	if f == nil && !failed && compareRef {
		if cur.stateKey() != q.ref.stateKey() || fmt.Sprint(cur.bal) != fmt.Sprint(q.ref.bal) {
			f = &finding{"I7 the outcome of a successful message depends on its (sufficient) deposit limit", map[string]any{"with_limit": cur.stateKey(), "non_binding": q.ref.stateKey()}}
		}
	}
	if f != nil {
		f.detail["limits"] = fmt.Sprint(v.lims)
		f.detail["requirement_per_message_per_realm"] = fmt.Sprint(q.needs)
		if v.viaDef > 0 {
			f.detail["default_deposit_set_to"] = v.viaDef
		}
	}
	return failed, f
}

func setDefaultOp(v int64) opDef {
	return opDef{name: "default_deposit=" + priceStr(v), signer: &A, afterDef: v, mustOK: true,
		build: func(*model) ([]std.Msg, int64) {
			return []std.Msg{chainx.Call(A.Addr, nil, pathSP, "SetDefault", priceStr(v))}, 0
		}}
}

type limSpec struct {
	ti    int
	v     variant // label "" = the finding came from the non-binding run
	label string
}

// evalTemplate: measure + every variant, each from the same snapshot. found is called per finding.
func evalTemplate(c *chainx.Chain, m model, prev obs, ti int, t *ltmpl, found func(limSpec, *finding)) (nVariants int) {
	q, f := measure(c, m, prev, t)
	if f != nil {
		found(limSpec{ti: ti, label: "non-binding"}, f)
		return 0
	}
	if !q.ok {
		r.Outcome("limit " + t.family + ": message fails even without a binding limit")
		return 0
	}
	for _, v := range variants(t, q) {
		if r.Expired() {
			return
		}
		pop := c.Push()
		mm, pv := m, prev
		var f *finding
		if v.viaDef > 0 {
			op := setDefaultOp(v.viaDef)
			pv, mm, _, f = stepOp(c, false, false, mm, pv, &op)
		}
		var failed bool
		if f == nil {
			failed, f = runVariant(c, false, mm, pv, t, q, v, v.viaDef == 0)
		}
		pop()
		nVariants++
		k := 0
		for _, ns := range q.needs {
			k = max(k, len(ns))
		}
		r.Outcome(fmt.Sprintf("limit %s growing<=%d realms/msg %s -> %s", t.family, k, v.label, map[bool]string{true: "rejected", false: "accepted"}[failed]))
		if f != nil {
			found(limSpec{ti: ti, v: v, label: v.label}, f)
		}
	}
	return
}

// replayLimited re-runs one (context, template, variant) on a fresh chain with one tx per block and real commits.
func replayLimited(g genesis, h []int, ts []ltmpl, ls limSpec) (int, *finding) {
	c := newChain(g.withY, g.withZ, g.withW)
	m := newModel(g)
	prev := observe(c, nil)
	for i, oi := range h {
		var f *finding
		prev, m, _, f = step(c, true, m, prev, oi)
		if f != nil {
			return i, f
		}
	}
	t := &ts[ls.ti]
	c.BeginBlock()
	q, f := measure(c, m, prev, t)
	if f != nil || !q.ok || ls.label == "non-binding" {
		c.EndBlockCommit()
		return len(h), f
	}
	if ls.v.viaDef > 0 {
		op := setDefaultOp(ls.v.viaDef)
		prev, m, _, f = stepOp(c, false, true, m, prev, &op)
		if f != nil {
			return len(h), f
		}
		c.BeginBlock()
	}
	_, f = runVariant(c, true, m, prev, t, q, ls.v, ls.v.viaDef == 0)
	return len(h), f
}
