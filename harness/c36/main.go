// C36: commit verification accepts exactly the commits with +2/3 valid signatures.
//
// Exhaustive small scope on the REAL ValidatorSet.VerifyCommit / VerifyFutureCommit with real ed25519 keys:
// for each power vector (n<=4, incl. one summing to MaxTotalVotingPower) EVERY assignment, per validator, of one of
// 11 precommit alternatives (absent, valid for X, valid stray for Y, valid stray for nil, corrupted signature for X,
// corrupted stray signature, signature by another validator's key, wrong height, wrong round, wrong type, wrong
// address/index fields) x outer variants (expected block id differs, commit for Y, wrong height argument, one precommit
// less/more, nil-block commit, other chain id).  VerifyFutureCommit: the same commits against every old set that differs
// from the new one by <=1 validator (removed / added / re-weighted).
//
// Oracle = the statement re-implemented from first principles (stdlib ed25519 + math/big):
//   accept <=> well-formed for the height  AND  every present precommit's signature verifies under the validator at
//   that index  AND  3 * (power of validators with a present precommit for the target block) > 2 * total power;
//   future: additionally 3 * (old-set power, by address, of those precommits) > 2 * old total.
package main

import (
	"bytes"
	stded "crypto/ed25519"
	"crypto/sha256"
	"fmt"
	"math/big"
	"sort"
	"strings"
	"sync/atomic"
	"time"

	"github.com/gnolang/gno/tm2/pkg/bft/types"
	"github.com/gnolang/gno/tm2/pkg/crypto/ed25519"
	"verif/engine/vk"
)

var r *vk.Run

const (
	chainID    = "c36-chain"
	otherChain = "c36-other-chain"
	H          = int64(3)
	R          = 1
)

type key struct {
	priv ed25519.PrivKeyEd25519
	pub  ed25519.PubKeyEd25519
	addr types.Address
}

var pool []key // sorted by address; the last one is the outsider

func h32(s string) []byte { x := sha256.Sum256([]byte(s)); return x[:] }

var (
	blockX = types.BlockID{Hash: h32("block-X"), PartsHeader: types.PartSetHeader{Total: 1, Hash: h32("parts-X")}}
	blockY = types.BlockID{Hash: h32("block-Y"), PartsHeader: types.PartSetHeader{Total: 2, Hash: h32("parts-Y")}}
	blockN = types.BlockID{}
)

func blockName(b types.BlockID) string {
	switch {
	case b.Equals(blockX):
		return "X"
	case b.Equals(blockY):
		return "Y"
	case b.IsZero():
		return "nil"
	}
	return "?"
}

const (
	aAbsent = iota
	aValidX
	aValidY
	aValidNil
	aBadSigX
	aBadSigY
	aOtherKeyX
	aWrongHeight
	aWrongRound
	aWrongType
	aWrongAddr
	nAlts
)

var altName = []string{"absent", "X", "strayY", "strayNil", "badsigX", "badsigY", "otherkeyX", "height+1", "round+1", "prevote", "wrongaddr"}

type vector struct {
	name   string
	powers []int64
	n      int
	vs     *types.ValidatorSet
	total  *big.Int
	ent    [][]*types.CommitSig // [i][alt]
	// sigOK[i][alt][hr][chain]: does entry (i,alt) verify under key i when the commit's height/round are hr
	sigOK [][][3][2]bool
}

var hrs = [3][2]int64{{H, int64(R)}, {H + 1, int64(R)}, {H, int64(R + 1)}}

func hrIndex(h int64, rd int) int {
	for k, x := range hrs {
		if x[0] == h && x[1] == int64(rd) {
			return k
		}
	}
	return -1
}

func sign(k key, v *types.Vote, chain string) {
	sig, err := k.priv.Sign(v.SignBytes(chain))
	if err != nil {
		panic(err)
	}
	v.Signature = sig
}

func mkVector(name string, powers []int64) *vector {
	n := len(powers)
	v := &vector{name: name, powers: powers, n: n, total: new(big.Int)}
	vals := make([]*types.Validator, n)
	for i := 0; i < n; i++ {
		vals[i] = types.NewValidator(pool[i].pub, powers[i])
		v.total.Add(v.total, big.NewInt(powers[i]))
	}
	v.vs = types.NewValidatorSet(vals)
	for i := 0; i < n; i++ {
		if v.vs.Validators[i].Address != pool[i].addr {
			panic("validator order")
		}
	}
	v.ent = make([][]*types.CommitSig, n)
	v.sigOK = make([][][3][2]bool, n)
	for i := 0; i < n; i++ {
		v.ent[i] = make([]*types.CommitSig, nAlts)
		v.sigOK[i] = make([][3][2]bool, nAlts)
		other := pool[(i+1)%n]
		otherIdx := (i + 1) % n
		if n == 1 {
			other = pool[len(pool)-1]
			otherIdx = 1
		}
		for a := 1; a < nAlts; a++ {
			vt := &types.Vote{Type: types.PrecommitType, Height: H, Round: R, BlockID: blockX,
				Timestamp: time.Unix(1700000000+int64(10*i+a), 0).UTC(), ValidatorAddress: pool[i].addr, ValidatorIndex: i}
			signer := pool[i]
			switch a {
			case aValidY, aBadSigY:
				vt.BlockID = blockY
			case aValidNil:
				vt.BlockID = blockN
			case aOtherKeyX:
				signer = other
			case aWrongHeight:
				vt.Height = H + 1
			case aWrongRound:
				vt.Round = R + 1
			case aWrongType:
				vt.Type = types.PrevoteType
			}
			sign(signer, vt, chainID)
			switch a {
			case aBadSigX, aBadSigY:
				vt.Signature[7] ^= 0x04
			case aWrongAddr:
				vt.ValidatorAddress = other.addr
				vt.ValidatorIndex = otherIdx
			}
			v.ent[i][a] = vt.CommitSig()
			for hk, hr := range hrs {
				for ck, ch := range []string{chainID, otherChain} {
					// the vote a verifier reconstructs for position i of a commit with height/round hr
					rv := &types.Vote{Type: types.PrecommitType, Height: hr[0], Round: int(hr[1]), BlockID: vt.BlockID, Timestamp: vt.Timestamp}
					v.sigOK[i][a][hk][ck] = stded.Verify(stded.PublicKey(pool[i].pub[:]), rv.SignBytes(ch), vt.Signature)
				}
			}
		}
	}
	return v
}

type call struct {
	chain   string
	target  types.BlockID
	height  int64
	commitB types.BlockID
	entries []*types.CommitSig
	alts    []int // alternative per position (-1 = appended nil)
}

func gt23(tally, total *big.Int) bool {
	l := new(big.Int).Mul(tally, big.NewInt(3))
	rr := new(big.Int).Mul(total, big.NewInt(2))
	return l.Cmp(rr) > 0
}

// oracle for VerifyCommit; returns accept and a reason class.
func (v *vector) oracle(c *call) (bool, string, int64, int) {
	if c.commitB.IsZero() {
		return false, "nil-block-commit", 0, 0
	}
	if len(c.entries) == 0 {
		return false, "no-precommits", 0, 0
	}
	var h0 int64
	var r0 int
	found := false
	for _, e := range c.entries {
		if e != nil {
			h0, r0, found = e.Height, e.Round, true
			break
		}
	}
	for _, e := range c.entries {
		if e == nil {
			continue
		}
		if e.Type != types.PrecommitType || e.Height != h0 || e.Round != r0 {
			return false, "inconsistent-precommits", h0, r0
		}
	}
	if len(c.entries) != v.n {
		return false, "size-mismatch", h0, r0
	}
	if !found || c.height != h0 {
		return false, "wrong-height", h0, r0
	}
	if !c.target.Equals(c.commitB) {
		return false, "wrong-block-id", h0, r0
	}
	hk := hrIndex(h0, r0)
	ck := 0
	if c.chain != chainID {
		ck = 1
	}
	tally := new(big.Int)
	for i, e := range c.entries {
		if e == nil {
			continue
		}
		if !v.sigOK[i][c.alts[i]][hk][ck] {
			return false, "invalid-signature", h0, r0
		}
		if e.BlockID.Equals(c.target) {
			tally.Add(tally, big.NewInt(v.powers[i]))
		}
	}
	if !gt23(tally, v.total) {
		return false, "insufficient-power", h0, r0
	}
	return true, "accept", h0, r0
}

func (c *call) key(v *vector, variant string) string {
	var sb strings.Builder
	fmt.Fprintf(&sb, "powers=%v variant=%s commit=[", v.powers, variant)
	for i, a := range c.alts {
		if i > 0 {
			sb.WriteByte(' ')
		}
		if a < 0 {
			sb.WriteString("+nil")
		} else {
			sb.WriteString(altName[a])
		}
	}
	fmt.Fprintf(&sb, "] commitBlock=%s target=%s height=%d chain=%s", blockName(c.commitB), blockName(c.target), c.height, c.chain)
	return sb.String()
}

var variants = []string{"plain", "target=Y,commit=X", "commit=Y,target=Y", "height+1", "one-precommit-less", "one-nil-precommit-more", "nil-block", "other-chain"}

func (v *vector) mkCall(assign []int, variant string) *call {
	c := &call{chain: chainID, target: blockX, height: H, commitB: blockX}
	c.alts = append([]int(nil), assign...)
	for i, a := range assign {
		if a == aAbsent {
			c.entries = append(c.entries, nil)
		} else {
			c.entries = append(c.entries, v.ent[i][a])
		}
	}
	switch variant {
	case "plain":
	case "target=Y,commit=X":
		c.target = blockY
	case "commit=Y,target=Y":
		c.target, c.commitB = blockY, blockY
	case "height+1":
		c.height = H + 1
	case "one-precommit-less":
		c.entries = c.entries[:len(c.entries)-1]
		c.alts = c.alts[:len(c.alts)-1]
	case "one-nil-precommit-more":
		c.entries = append(c.entries, nil)
		c.alts = append(c.alts, -1)
	case "nil-block":
		c.target, c.commitB = blockN, blockN
	case "other-chain":
		c.chain = otherChain
	}
	return c
}

var nCommit, nFuture, nAccept, nAcceptF atomic.Int64

type lhist map[string]int64

func (v *vector) runVerifyCommit(alts []int, vars []string) {
	n := v.n
	na := len(alts)
	count := 1
	for i := 0; i < n; i++ {
		count *= na
	}
	r.ParFor(count, func(code int) {
		h := lhist{}
		assign := make([]int, n)
		x := code
		for i := 0; i < n; i++ {
			assign[i] = alts[x%na]
			x /= na
		}
		for _, variant := range vars {
			c := v.mkCall(assign, variant)
			want, reason, _, _ := v.oracle(c)
			commit := types.NewCommit(c.commitB, append([]*types.CommitSig(nil), c.entries...))
			var err error
			rec := vk.Catch(func() { err = v.vs.VerifyCommit(c.chain, c.target, c.height, commit) })
			nCommit.Add(1)
			if rec != nil {
				r.Violation("VerifyCommit panicked: "+c.key(v, variant), map[string]any{"panic": fmt.Sprint(rec)})
				continue
			}
			got := err == nil
			if got != want {
				r.Violation("VerifyCommit "+c.key(v, variant)+fmt.Sprintf(" got_accept=%v want_accept=%v", got, want),
					map[string]any{"powers": v.powers, "variant": variant, "assignment": names(c.alts), "oracle_reason": reason, "impl_error": fmt.Sprint(err)})
			}
			if want {
				nAccept.Add(1)
				// informational: would the accepted commit survive CommitToVoteSet (LastCommit reconstruction)?
				if variant == "plain" {
					if rec := vk.Catch(func() { types.CommitToVoteSet(c.chain, commit, v.vs) }); rec != nil {
						lbl := "info:accepted_commit_but_CommitToVoteSet_panics(truthful address fields)"
						for _, a := range c.alts {
							if a == aWrongAddr {
								lbl = "info:accepted_commit_with_untruthful_unsigned_address_field:CommitToVoteSet_panics"
							}
						}
						h[lbl]++
					}
				}
			}
			h["VerifyCommit:"+reason+"|impl:"+errClass(err)]++
			r.Distinct(c.key(v, variant))
		}
		for k, n := range h {
			r.OutcomeN(k, n)
		}
		r.EvalN(int64(len(vars)))
	})
}

func names(alts []int) []string {
	var out []string
	for _, a := range alts {
		if a < 0 {
			out = append(out, "+nil")
		} else {
			out = append(out, altName[a])
		}
	}
	return out
}

func errClass(err error) string {
	if err == nil {
		return "nil"
	}
	s := err.Error()
	switch {
	case types.IsErrTooMuchChange(err) || strings.Contains(s, "insufficient old voting power"):
		return "insufficient-power"
	case strings.Contains(s, "invalid signature"):
		return "invalid-signature"
	case strings.Contains(s, "wrong block id"):
		return "wrong-block-id"
	case strings.Contains(s, "nil block"):
		return "nil-block"
	case strings.Contains(s, "wrong round"):
		return "wrong-round"
	case strings.Contains(s, "Blocks don't match"):
		return "future-height-mismatch"
	case strings.Contains(s, "not precommit"):
		return "future-not-precommit"
	case strings.Contains(s, "Expected precommit") || strings.Contains(s, "precommit height") || strings.Contains(s, "precommit round"):
		return "validatebasic-inconsistent"
	case strings.Contains(strings.ToLower(s), "height"):
		return "wrong-height"
	case strings.Contains(strings.ToLower(s), "precommits"):
		return "size-mismatch"
	}
	return "other"
}

// ---- future commit ----

type oldSet struct {
	name   string
	vs     *types.ValidatorSet
	power  map[types.Address]int64
	total  *big.Int
}

func (v *vector) oldSets() []oldSet {
	var out []oldSet
	mk := func(name string, idx []int, pw []int64) {
		vals := make([]*types.Validator, len(idx))
		os := oldSet{name: name, power: map[types.Address]int64{}, total: new(big.Int)}
		for k, i := range idx {
			vals[k] = types.NewValidator(pool[i].pub, pw[k])
			os.power[pool[i].addr] = pw[k]
			os.total.Add(os.total, big.NewInt(pw[k]))
		}
		os.vs = types.NewValidatorSet(vals)
		out = append(out, os)
	}
	all := make([]int, v.n)
	for i := range all {
		all[i] = i
	}
	mk("same", all, v.powers)
	small := v.total.IsInt64() && v.total.Int64() < 1<<40
	for k := 0; k < v.n; k++ {
		if v.n > 1 {
			var idx []int
			var pw []int64
			for i := 0; i < v.n; i++ {
				if i != k {
					idx = append(idx, i)
					pw = append(pw, v.powers[i])
				}
			}
			mk(fmt.Sprintf("without-v%d", k), idx, pw)
		}
		if small {
			pw := append([]int64(nil), v.powers...)
			pw[k] = v.powers[k] * 10
			mk(fmt.Sprintf("v%d-power-x10", k), all, pw)
		}
		if v.powers[k] > 1 {
			pw := append([]int64(nil), v.powers...)
			pw[k] = 1
			mk(fmt.Sprintf("v%d-power-1", k), all, pw)
		}
	}
	if small {
		out0 := len(pool) - 1
		mk("plus-outsider-power-1", append(append([]int(nil), all...), out0), append(append([]int64(nil), v.powers...), 1))
		mk("plus-outsider-power-total", append(append([]int(nil), all...), out0), append(append([]int64(nil), v.powers...), v.total.Int64()))
	}
	return out
}

func (v *vector) runFuture(alts []int, vars []string) {
	olds := v.oldSets()
	n := v.n
	na := len(alts)
	count := 1
	for i := 0; i < n; i++ {
		count *= na
	}
	r.ParFor(count, func(code int) {
		h := lhist{}
		assign := make([]int, n)
		x := code
		for i := 0; i < n; i++ {
			assign[i] = alts[x%na]
			x /= na
		}
		for _, variant := range vars {
			c := v.mkCall(assign, variant)
			okNew, reason, _, r0 := v.oracle(c)
			for oi := range olds {
				os := &olds[oi]
				want := okNew
				why := reason
				if want {
					// every present precommit already has height==arg, round==commit round, type precommit (well-formedness)
					_ = r0
					tally := new(big.Int)
					seen := map[types.Address]bool{}
					for _, e := range c.entries {
						if e == nil {
							continue
						}
						p, ok := os.power[e.ValidatorAddress]
						if !ok || seen[e.ValidatorAddress] {
							continue
						}
						seen[e.ValidatorAddress] = true
						if e.BlockID.Equals(c.target) {
							tally.Add(tally, big.NewInt(p))
						}
					}
					if !gt23(tally, os.total) {
						want, why = false, "insufficient-old-power"
					}
				}
				commit := types.NewCommit(c.commitB, append([]*types.CommitSig(nil), c.entries...))
				var err error
				rec := vk.Catch(func() { err = os.vs.VerifyFutureCommit(v.vs, c.chain, c.target, c.height, commit) })
				nFuture.Add(1)
				k := "VerifyFutureCommit old=" + os.name + " " + c.key(v, variant)
				if rec != nil {
					r.Violation(k+" panicked", map[string]any{"panic": fmt.Sprint(rec)})
					continue
				}
				got := err == nil
				if got != want {
					r.Violation(k+fmt.Sprintf(" got_accept=%v want_accept=%v", got, want),
						map[string]any{"powers": v.powers, "old_set": os.name, "variant": variant, "assignment": names(c.alts), "oracle_reason": why, "impl_error": fmt.Sprint(err)})
				}
				if want {
					nAcceptF.Add(1)
				}
				h["VerifyFutureCommit:"+why+"|impl:"+errClass(err)]++
				r.Distinct(k)
			}
		}
		for k, n := range h {
			r.OutcomeN(k, n)
		}
		r.EvalN(int64(len(vars) * len(olds)))
	})
}

func main() {
	r = vk.New("exploration")
	if r.ReplayIn != "" {
		fmt.Printf("replay %s: the exploration is deterministic and exhaustive; re-running the quick tier re-reports the recorded violation key if it still occurs\n", r.ReplayIn)
	}
	r.SetBudget(80*time.Second, 15*time.Minute)

	for i := 0; i < 6; i++ {
		p := ed25519.GenPrivKeyFromSecret([]byte(fmt.Sprintf("verif-c36-validator-%d", i)))
		pub := p.PubKey().(ed25519.PubKeyEd25519)
		pool = append(pool, key{p, pub, pub.Address()})
	}
	sort.Slice(pool, func(a, b int) bool { return bytes.Compare(pool[a].addr[:], pool[b].addr[:]) < 0 })

	M := types.MaxTotalVotingPower
	vecs := [][]int64{{1}, {1, 1, 1, 1}, {3, 1, 1, 1}, {2, 2, 1}, {5, 3, 1, 1}, {M / 2, M / 4, M / 8, M - M/2 - M/4 - M/8}, {1, 1}, {2, 1}, {1, 1, 1}}
	if r.Thorough() {
		vecs = append(vecs, []int64{4, 3, 2, 1}, []int64{2, 2, 1, 1, 1}, []int64{M - 3, 1, 1, 1}, []int64{7, 5, 3})
	}
	allAlts := make([]int, nAlts)
	for i := range allAlts {
		allAlts[i] = i
	}
	futAlts := []int{aAbsent, aValidX, aValidY, aValidNil, aBadSigX, aWrongHeight, aWrongRound}
	futVars := []string{"plain", "commit=Y,target=Y", "height+1", "one-precommit-less"}
	if r.Thorough() {
		futAlts = []int{aAbsent, aValidX, aValidY, aValidNil, aBadSigX, aBadSigY, aOtherKeyX, aWrongHeight, aWrongRound, aWrongType}
		futVars = variants
	}
	var vnames []string
	for _, pw := range vecs {
		if r.Expired() {
			break
		}
		v := mkVector(fmt.Sprint(pw), pw)
		vnames = append(vnames, v.name)
		alts := allAlts
		if v.n >= 5 {
			alts = []int{aAbsent, aValidX, aValidY, aValidNil, aBadSigX, aBadSigY, aWrongHeight, aWrongAddr}
		}
		v.runVerifyCommit(alts, variants)
		fa := futAlts
		if v.n >= 5 {
			fa = []int{aAbsent, aValidX, aValidY, aBadSigX}
		}
		v.runFuture(fa, futVars)
	}
	r.Sample(map[string]any{"alternatives_per_validator": altName, "outer_variants": variants, "power_vectors": vnames})
	r.Sample(map[string]any{"example": "powers=[2 2 1] commit=[X X absent] -> tally 4 of 5: 12>10 accept; commit=[X absent X] -> tally 3 of 5: 9>10 false -> reject"})
	r.Assumptions = []string{
		"sign-bytes encoding (CanonicalizeVote + amino) is shared with the implementation; signature validity itself is decided by stdlib crypto/ed25519",
		"'well-formed for the height' is spelled out as: non-nil block id, as many precommits as validators, all present precommits are precommits of one (height, round) taken from the first present one, that height equals the expected height, commit block id equals the expected one; an invalid signature on ANY present precommit (also a stray one) rejects the commit",
		"ValidatorAddress/ValidatorIndex fields are not covered by the signature and are ignored by VerifyCommit (accepted and tallied by position); VerifyFutureCommit is enumerated only over commits whose address fields are truthful",
	}
	r.Finish("all assignments of 11 precommit alternatives per validator x 8 outer variants per power vector for VerifyCommit; subset of alternatives x every <=1-validator old-set change for VerifyFutureCommit; oracle = statement re-implemented with stdlib ed25519 + math/big",
		true, map[string]any{"verify_commit_calls": nCommit.Load(), "verify_future_commit_calls": nFuture.Load(),
			"oracle_accepts_commit": nAccept.Load(), "oracle_accepts_future": nAcceptF.Load(), "power_vectors": len(vnames)})
}
