package main

// Observation of the chain state through the block's cache layer (every key written since BeginBlock, compared by
// EFFECTIVE value against the committed parent store) + the independent "ante effects only" decoder.

import (
	"bytes"
	"crypto/sha256"
	"encoding/hex"
	"fmt"
	"sort"
	"strings"

	"github.com/gnolang/gno/tm2/pkg/amino"
	"github.com/gnolang/gno/tm2/pkg/crypto"
	"github.com/gnolang/gno/tm2/pkg/sdk/auth"
	"github.com/gnolang/gno/tm2/pkg/std"
	"github.com/gnolang/gno/tm2/pkg/store/types"
	"verif/engine/chainx"
)

type dirtyLayer interface {
	VerifDirty(f func(key string, value []byte, deleted bool))
	VerifParent() types.Store
}

// lval: value of a key in the block's cache layer (v, ok) and in the committed store below it (pv, po).
type lval struct {
	v, pv  string
	ok, po bool
}

// layer: store-prefixed key ("main/…", "base/…") -> entry, only for keys whose effective value differs from the
// committed one.
type layer map[string]lval

func snap(c *chainx.Chain) layer {
	ms := c.Base.VerifDeliverMultiStore()
	if ms == nil {
		r.HarnessError("snapshot outside a block")
	}
	bk, mk := c.Base.VerifStoreKeys()
	out := layer{}
	for name, key := range map[string]types.StoreKey{"base/": bk, "main/": mk} {
		dl, ok := ms.GetStore(key).(dirtyLayer)
		if !ok {
			r.HarnessError("store of the block state is not a cache layer: %T", ms.GetStore(key))
		}
		par := dl.VerifParent()
		type kv struct {
			k   string
			v   []byte
			del bool
		}
		var es []kv
		dl.VerifDirty(func(k string, v []byte, deleted bool) { es = append(es, kv{k, append([]byte(nil), v...), deleted}) })
		for _, e := range es {
			lv := lval{v: string(e.v), ok: !e.del && e.v != nil}
			if !lv.ok {
				lv.v = ""
			}
			if pv := par.Get(nil, []byte(e.k)); pv != nil {
				lv.pv, lv.po = string(pv), true
			}
			if lv.v == lv.pv && lv.ok == lv.po {
				continue
			}
			out[name+e.k] = lv
		}
	}
	return out
}

func (l layer) hash() string {
	ks := make([]string, 0, len(l))
	for k := range l {
		ks = append(ks, k)
	}
	sort.Strings(ks)
	h := sha256.New()
	for _, k := range ks {
		e := l[k]
		fmt.Fprintf(h, "%d:%s=%v:%d:%s;", len(k), k, e.ok, len(e.v), e.v)
	}
	return hex.EncodeToString(h.Sum(nil)[:12])
}

type change struct {
	key       string
	pre, post string
	preOK     bool
	postOK    bool
}

// changes between two snapshots of the same open block.
func changes(a, b layer) []change {
	var out []change
	for k, eb := range b {
		pre, preOK := eb.pv, eb.po
		if ea, ok := a[k]; ok {
			pre, preOK = ea.v, ea.ok
		}
		if pre != eb.v || preOK != eb.ok {
			out = append(out, change{k, pre, eb.v, preOK, eb.ok})
		}
	}
	for k, ea := range a {
		if _, ok := b[k]; !ok { // back to the committed value
			out = append(out, change{k, ea.v, ea.pv, ea.ok, ea.po})
		}
	}
	sort.Slice(out, func(i, j int) bool { return out[i].key < out[j].key })
	return out
}

func abbrev(v string, ok bool) string {
	if !ok {
		return "(absent)"
	}
	h := sha256.Sum256([]byte(v))
	return fmt.Sprintf("<%dB:%s>", len(v), hex.EncodeToString(h[:4]))
}

func showChanges(cs []change) []string {
	var out []string
	for _, c := range cs {
		out = append(out, fmt.Sprintf("%s: %s -> %s", show(c.key), abbrev(c.pre, c.preOK), abbrev(c.post, c.postOK)))
	}
	return head(out, 12)
}

// layerDiff: keys on which two chains (same committed parent assumed, checked by the final dumps) disagree.
func layerDiff(w, x layer) []string {
	var out []string
	for k, ex := range x {
		if ew, ok := w[k]; !ok {
			out = append(out, fmt.Sprintf("%s: twin:(unchanged) vs %s", show(k), abbrev(ex.v, ex.ok)))
		} else if ew.v != ex.v || ew.ok != ex.ok {
			out = append(out, fmt.Sprintf("%s: twin:%s vs %s", show(k), abbrev(ew.v, ew.ok), abbrev(ex.v, ex.ok)))
		}
	}
	for k, ew := range w {
		if _, ok := x[k]; !ok {
			out = append(out, fmt.Sprintf("%s: twin:%s vs (unchanged)", show(k), abbrev(ew.v, ew.ok)))
		}
	}
	sort.Strings(out)
	return head(out, 12)
}

func show(k string) string {
	var b strings.Builder
	for _, c := range []byte(k) {
		if c >= 32 && c < 127 {
			b.WriteByte(c)
		} else {
			fmt.Fprintf(&b, "\\x%02x", c)
		}
	}
	return b.String()
}

func accKey(a crypto.Address) string { return "main//a/" + string(a[:]) }
func sessKey() string               { return "main/" + string(auth.SessionStoreKey(B.Addr, S.Addr)) }

// anteOnlyDecoded: independent check that a failed tx changed exactly what the ante handler changes for its signer
// configuration — nothing else, byte for byte:
//   - fee payer's master account: coins-fee (+ sequence+1 and public key when it signs with its master key);
//   - every other master-key signer: sequence+1 (+ public key on its first tx);
//   - a signer that signs through a session: its MASTER account is untouched (unless it pays the fee); the session
//     account gets sequence+1 and, when it pays the fee, spend_used+fee;
//   - the fee collector: +fee.
func anteOnlyDecoded(cs []change, sg []signerInfo, fee int64) string {
	want := map[string]string{} // key -> expected bytes
	seen := map[string]bool{}
	collector := 0
	byKey := map[string]change{}
	for _, c := range cs {
		byKey[c.key] = c
	}
	pre := func(k string) (string, bool) {
		// expected values are derived from the PRE value; for keys the tx did not change we do not need it
		c, ok := byKey[k]
		return c.pre, ok && c.preOK
	}
	for i, s := range sg {
		// master account
		mk := accKey(s.addr)
		masterChanges := i == 0 || !s.session
		if masterChanges {
			bz, ok := pre(mk)
			if !ok {
				return fmt.Sprintf("signer %d: master account not changed by a failed tx (fee/sequence missing)", i)
			}
			var acc std.Account
			if err := amino.Unmarshal([]byte(bz), &acc); err != nil {
				return "signer account undecodable"
			}
			if i == 0 {
				if err := acc.SetCoins(acc.GetCoins().Sub(coins(fee))); err != nil {
					return err.Error()
				}
			}
			if !s.session {
				acc.SetSequence(acc.GetSequence() + 1)
				if acc.GetPubKey() == nil {
					acc.SetPubKey(s.pub)
				}
			}
			want[mk] = string(amino.MustMarshalAny(acc))
		}
		if s.session {
			sk := sessKey()
			bz, ok := pre(sk)
			if !ok {
				return fmt.Sprintf("signer %d: session account not changed by a failed tx (sequence missing)", i)
			}
			var acc std.Account
			if err := amino.Unmarshal([]byte(bz), &acc); err != nil {
				return "session account undecodable"
			}
			da, ok := acc.(std.DelegatedAccount)
			if !ok {
				return fmt.Sprintf("session account has type %T", acc)
			}
			da.SetSequence(da.GetSequence() + 1)
			if da.GetPubKey() == nil {
				da.SetPubKey(s.pub)
			}
			if i == 0 {
				da.SetSpendUsed(da.GetSpendUsed().Add(coins(fee)))
			}
			want[sk] = string(amino.MustMarshalAny(da))
		}
	}
	for _, c := range cs {
		k := c.key
		if w, ok := want[k]; ok {
			seen[k] = true
			if !c.postOK || c.post != w {
				var a0, a1 std.Account
				amino.Unmarshal([]byte(c.pre), &a0)
				amino.Unmarshal([]byte(c.post), &a1)
				return fmt.Sprintf("account %s is not (pre + ante effects): pre=%s post=%s", show(k), accStr(a0), accStr(a1))
			}
			continue
		}
		switch {
		case strings.HasPrefix(k, "main//a/") && len(k) == len("main//a/")+crypto.AddressSize:
			for _, s := range sg {
				if k == accKey(s.addr) {
					var a0, a1 std.Account
					amino.Unmarshal([]byte(c.pre), &a0)
					amino.Unmarshal([]byte(c.post), &a1)
					return fmt.Sprintf("master account of a session-signing non-fee-payer changed by a failed tx: pre=%s post=%s", accStr(a0), accStr(a1))
				}
			}
			collector++
			var a0, a1 std.Account
			if c.preOK {
				amino.Unmarshal([]byte(c.pre), &a0)
			}
			if !c.postOK || amino.Unmarshal([]byte(c.post), &a1) != nil {
				return "collector account undecodable"
			}
			old := std.Coins{}
			if a0 != nil {
				old = a0.GetCoins()
				a0.SetCoins(old.Add(coins(fee)))
				if !bytes.Equal(amino.MustMarshalAny(a0), []byte(c.post)) {
					return fmt.Sprintf("non-signer account %x: pre=%s post=%s is not +fee", k[len("main//a/"):], accStr(a0), accStr(a1))
				}
			} else if !a1.GetCoins().IsEqual(old.Add(coins(fee))) {
				return fmt.Sprintf("account %x coins %v -> %v is not +fee", k[len("main//a/"):], old, a1.GetCoins())
			}
		case !c.preOK && (strings.Contains(k, "globalAccountNumber") || strings.Contains(k, "/supply/")):
			// account creation of the fee collector on its first credit
		default:
			return "non-ante key changed by a failed tx: " + show(k)
		}
	}
	for k := range want {
		if !seen[k] {
			return "ante effect missing on " + show(k)
		}
	}
	if collector != 1 {
		return fmt.Sprintf("%d non-signer accounts changed (want exactly the fee collector)", collector)
	}
	return ""
}

func accStr(a std.Account) string {
	if a == nil {
		return "(nil)"
	}
	s := fmt.Sprintf("{seq=%d coins=%v", a.GetSequence(), a.GetCoins())
	if da, ok := a.(std.DelegatedAccount); ok {
		s += fmt.Sprintf(" spend_used=%v", da.GetSpendUsed())
	}
	return s + "}"
}
