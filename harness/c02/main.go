// C02: transactions are atomic — a failed transaction has only ante effects.
//
// Real gno.land app (engine chainx). For every tx of <=2 (quick) / <=3 (thorough) messages over a 10-message
// menu (each failure cause of the statement is a menu entry), delivered from the same genesis state:
//   X: block [T, F1, F2, F3]            W (twin): block [T', F1, F2, F3]
// where T' has the same signer, fee and gas wanted but a single message that fails in the bank handler
// without writing. Oracles:
//   (a) T failed  => full multistore dump after T == dump after T' (byte for byte): "exactly as if only the
//       fee payment and the sequence increment had happened"; and an independent decode check that the
//       only keys changed w.r.t. the pre-state are the signer account (seq+1, coins-fee) and the fee collector.
//   (b) T failed  => every follow-up Fi (other signer; reads/writes the same realm objects, re-deploys the
//       path T tried to deploy) gives the same result/gas/data on X and W and the same dump afterwards
//       ("no trace in in-memory caches").
//   (c) T ok      => every message's effect is present (per-message predicate) and the fee was paid.
// Block-gas crossings: blocks [T1 ok, T2] with MaxGas chosen so that T1+T2 crosses the limit while each
// GasWanted <= MaxGas; T2 reported failed must satisfy (a)/(b) as well. Out-of-gas ladders (thorough; a few in
// quick): the same tx with GasWanted stepped down through the execution.
package main

import (
	"fmt"
	"runtime/debug"
	"sort"
	"strings"
	"sync"
	"sync/atomic"
	"time"

	"github.com/gnolang/gno/gno.land/pkg/sdk/vm"
	"github.com/gnolang/gno/tm2/pkg/amino"
	abci "github.com/gnolang/gno/tm2/pkg/bft/abci/types"
	"github.com/gnolang/gno/tm2/pkg/db/memdb"
	"github.com/gnolang/gno/tm2/pkg/sdk/bank"
	"github.com/gnolang/gno/tm2/pkg/std"
	"verif/engine/chainx"
	"verif/engine/vk"
)

const stPath = "gno.land/r/verif/st"

const realmSt = `package st

var (
	val   string
	items []*item
)

type item struct{ s string }

func Write(cur realm, v string) string { val = v; return val }
func Get() string                     { return val }
func WriteThenPanic(cur realm)         { val = "dirty"; items = append(items, &item{s: "dirty"}); panic("boom") }
func Loop(cur realm)                   { val = "loop"; for { } }
func Grow(cur realm, n int) int {
	for i := 0; i < n; i++ {
		items = append(items, &item{s: "xxxxxxxxxxxxxxxxxxxxxxxxxxxxxxxxxxxxxxxxxxxxxxxx"})
	}
	return len(items)
}
func Len() int { return len(items) }
func Read(cur realm) string {
	s := val
	for _, it := range items {
		s += "," + it.s[:1]
	}
	return s
}
`

var (
	A, B, C = chainx.NewKey("A"), chainx.NewKey("B"), chainx.NewKey("C")
	keys    = []chainx.Key{A, B, C}
)

func spec(maxGas int64) chainx.Spec {
	s := chainx.Spec{Keys: keys, Fund: 1_000_000_000_000, MaxGas: maxGas}
	s.GenesisTxs = []std.Tx{{
		Msgs:       []std.Msg{chainx.AddPkg(A.Addr, stPath, map[string]string{"st.gno": realmSt})},
		Fee:        std.NewFee(genGas(maxGas), std.NewCoin("ugnot", 1_000_000)),
		Signatures: []std.Signature{{}},
	}}
	return s
}

func genGas(maxGas int64) int64 {
	if maxGas > 0 && maxGas < 100_000_000 {
		return maxGas // the block gas limit also bounds GasWanted of genesis txs
	}
	return 100_000_000
}

type msgDef struct {
	name  string
	fails bool // expected to fail when executed alone with ample gas
	mk    func(i int) std.Msg
	// effect predicate for a successful tx containing this message at position i (c is positioned after the tx)
	effect func(c *chainx.Chain, pre map[string]string, post map[string]string, i int) string
}

func coins(n int64) std.Coins { return std.Coins{std.NewCoin("ugnot", n)} }

var menu = []msgDef{
	{"send_ok", false, func(i int) std.Msg {
		return bank.MsgSend{FromAddress: A.Addr, ToAddress: C.Addr, Amount: coins(100)}
	}, nil},
	{"send_insufficient", true, func(i int) std.Msg {
		return bank.MsgSend{FromAddress: A.Addr, ToAddress: C.Addr, Amount: coins(900_000_000_000_000)}
	}, nil},
	{"call_write", false, func(i int) std.Msg { return chainx.Call(A.Addr, nil, stPath, "Write", fmt.Sprintf("w%d", i)) }, nil},
	{"call_panic_after_write", true, func(i int) std.Msg { return chainx.Call(A.Addr, nil, stPath, "WriteThenPanic") }, nil},
	{"call_infinite_loop", true, func(i int) std.Msg { return chainx.Call(A.Addr, nil, stPath, "Loop") }, nil},
	{"call_grow_deposit_too_small", true, func(i int) std.Msg {
		m := vm.NewMsgCall(A.Addr, nil, stPath, "Grow", []string{"30"})
		m.MaxDeposit = coins(1)
		return m
	}, nil},
	{"addpkg_ok", false, func(i int) std.Msg {
		return chainx.AddPkg(A.Addr, fmt.Sprintf("gno.land/r/verif/new%d", i), map[string]string{"a.gno": fmt.Sprintf("package new%d\n\nvar X = 1\n\nfunc F(cur realm) int { X++; return X }\n", i)})
	}, nil},
	{"addpkg_type_error", true, func(i int) std.Msg {
		return chainx.AddPkg(A.Addr, "gno.land/r/verif/bad", map[string]string{"a.gno": "package bad\n\nvar X int = \"s\"\n"})
	}, nil},
	{"run_ok", false, func(i int) std.Msg {
		return chainx.Run(A.Addr, nil, fmt.Sprintf("package main\n\nimport \"%s\"\n\nfunc main(cur realm) { println(st.Write(cross(cur), \"r%d\")) }\n", stPath, i))
	}, nil},
	{"call_grow_ok", false, func(i int) std.Msg { return chainx.Call(A.Addr, nil, stPath, "Grow", "3") }, nil},
}

// follow-ups by another signer
func followUps(c *chainx.Chain) []std.Tx {
	return []std.Tx{
		c.MakeTx(keys, []std.Msg{chainx.Call(B.Addr, nil, stPath, "Read")}, chainx.TxOpt{}),
		c.MakeTx(keys, []std.Msg{chainx.Run(B.Addr, nil, "package main\n\nimport \""+stPath+"\"\n\nfunc main() { println(st.Get(), st.Len()) }\n")}, chainx.TxOpt{}),
	}
}

func followUps2(c *chainx.Chain) []std.Tx {
	return []std.Tx{
		c.MakeTx(keys, []std.Msg{chainx.Call(B.Addr, nil, stPath, "Write", "f")}, chainx.TxOpt{}),
		c.MakeTx(keys, []std.Msg{chainx.AddPkg(B.Addr, "gno.land/r/verif/bad", map[string]string{"a.gno": "package bad\n\nvar X int = 7\n\nfunc G(cur realm) int { return X }\n"})}, chainx.TxOpt{}),
		c.MakeTx(keys, []std.Msg{chainx.Call(B.Addr, nil, stPath, "Grow", "2")}, chainx.TxOpt{}),
		// re-deploy (with different declarations at the same positions) the path a failed tx may have deployed, then call it
		c.MakeTx(keys, []std.Msg{chainx.AddPkg(B.Addr, "gno.land/r/verif/new0", map[string]string{"a.gno": "package new0\n\nvar X = \"s\"\n\nfunc F(cur realm) string { X += \"t\"; return X }\n"})}, chainx.TxOpt{}),
		c.MakeTx(keys, []std.Msg{chainx.Call(B.Addr, nil, "gno.land/r/verif/new0", "F")}, chainx.TxOpt{}),
	}
}

type caseDef struct {
	name     string
	msgs     []int // menu indices
	gas      int64 // GasWanted for T (0 = default 20M)
	maxGas   int64 // block gas limit (0 = default)
	prefixOK bool  // deliver an OK tx by C first in the block (block-gas crossing cases)
	cold     bool  // restart both chains after genesis: VM caches are cold when T / its twin run
}

var r *vk.Run

func (cd caseDef) build(c *chainx.Chain) std.Tx {
	var ms []std.Msg
	for i, mi := range cd.msgs {
		ms = append(ms, menu[mi].mk(i))
	}
	g := cd.gas
	if g == 0 {
		g = 20_000_000
	}
	return c.MakeTx(keys, ms, chainx.TxOpt{GasWanted: g})
}

func twinTx(c *chainx.Chain, gas int64) std.Tx {
	if gas == 0 {
		gas = 20_000_000
	}
	return c.MakeTx(keys, []std.Msg{menu[1].mk(0)}, chainx.TxOpt{GasWanted: gas})
}

type txObs struct {
	res  abci.ResponseDeliverTx
	dump map[string]string
}

var (
	nTx      atomic.Int64
	stateSet sync.Map
	nStates  atomic.Int64
)

func deliver(c *chainx.Chain, tx std.Tx) txObs {
	res := c.DeliverTx(tx)
	d := c.Dump()
	nTx.Add(1)
	if _, loaded := stateSet.LoadOrStore(chainx.HashDump(d), true); !loaded {
		nStates.Add(1)
	}
	return txObs{res, d}
}

func errStr(r abci.ResponseDeliverTx) string {
	if r.Error == nil {
		return ""
	}
	return fmt.Sprintf("%T", r.Error)
}

// anteOnlyDecoded: independent check that between pre and post only the signer account and the fee collector
// changed, and in the way the ante handler changes them.
func anteOnlyDecoded(pre, post map[string]string, fee int64) string {
	signerKey := "main//a/" + string(A.Addr[:])
	var changed []string
	for k, v := range post {
		if pre[k] != v {
			changed = append(changed, k)
		}
	}
	for k := range pre {
		if _, ok := post[k]; !ok {
			changed = append(changed, k)
		}
	}
	sort.Strings(changed)
	collector := 0
	for _, k := range changed {
		switch {
		case k == signerKey:
			var a0, a1 std.Account
			if amino.Unmarshal([]byte(pre[k]), &a0) != nil || amino.Unmarshal([]byte(post[k]), &a1) != nil {
				return "signer account undecodable"
			}
			if a1.GetSequence() != a0.GetSequence()+1 {
				return fmt.Sprintf("signer sequence %d -> %d", a0.GetSequence(), a1.GetSequence())
			}
			if !a1.GetCoins().IsEqual(a0.GetCoins().Sub(coins(fee))) {
				return fmt.Sprintf("signer coins %v -> %v (fee %d)", a0.GetCoins(), a1.GetCoins(), fee)
			}
		case strings.HasPrefix(k, "main//a/") && len(k) == len(signerKey):
			collector++
			var a0, a1 std.Account
			if pre[k] != "" {
				amino.Unmarshal([]byte(pre[k]), &a0)
			}
			if amino.Unmarshal([]byte(post[k]), &a1) != nil {
				return "collector account undecodable"
			}
			old := std.Coins{}
			if a0 != nil {
				old = a0.GetCoins()
			}
			if !a1.GetCoins().IsEqual(old.Add(coins(fee))) {
				return fmt.Sprintf("account %x coins %v -> %v is not +fee", k[len("main//a/"):], old, a1.GetCoins())
			}
		case strings.Contains(k, "globalAccountNumber"), strings.Contains(k, "/supply/"):
			// account creation of the fee collector on its first credit
		default:
			return "non-ante key changed by a failed tx: " + show(k)
		}
	}
	if collector > 1 {
		return "more than one non-signer account changed"
	}
	return ""
}

func show(k string) string {
	var b strings.Builder
	for _, c := range []byte(k) {
		if c >= 32 && c < 127 {
			b.WriteByte(c)
		} else {
			fmt.Fprintf(&b, "\\x%02x", c)
		}
	}
	return b.String()
}

func newChain(maxGas int64) *chainx.Chain {
	c, err := chainx.New(memdb.NewMemDB(), spec(maxGas))
	if err != nil {
		r.HarnessError("chain init: %v", err)
	}
	for _, tr := range c.Init.TxResponses {
		if tr.Error != nil {
			r.HarnessError("genesis tx failed: %v %s", tr.Error, tr.Log)
		}
	}
	return c
}

func (cd caseDef) run() {
	r.Eval()
	names := []string{}
	for _, mi := range cd.msgs {
		names = append(names, menu[mi].name)
	}
	label := fmt.Sprintf("%s[%s]gas=%d", cd.name, strings.Join(names, ","), cd.gas)

	X := newChain(cd.maxGas)
	if cd.cold {
		label = "cold:" + label
		if err := X.Restart(); err != nil {
			r.HarnessError("restart: %v", err)
		}
	}
	X.BeginBlock()
	if cd.prefixOK {
		p := X.MakeTx(keys, []std.Msg{chainx.Call(C.Addr, nil, stPath, "Grow", "4")}, chainx.TxOpt{GasWanted: cd.maxGas})
		if pr := X.DeliverTx(p); pr.Error != nil {
			r.HarnessError("%s: prefix tx failed: %v %s", label, pr.Error, pr.Log)
		}
	}
	pre := X.Dump()
	T := cd.build(X)
	ox := deliver(X, T)
	failed := ox.res.Error != nil
	class := "ok"
	if failed {
		class = "failed:" + errStr(ox.res)
		if strings.Contains(ox.res.Log, "out of gas") {
			class += ":oog"
		}
		if strings.Contains(ox.res.Log, "block gas") {
			class = "failed:block-gas"
		}
	}
	r.Outcome(class)
	r.Distinct(label + "|" + class)
	if ox.res.GasUsed > ox.res.GasWanted && !strings.Contains(class, "block-gas") {
		// C10's subject; recorded here as an observation only
		r.Outcome("obs:gasUsed>gasWanted")
	}
	fee := int64(1_000_000)
	if !failed {
		// (c) every message took effect
		if why := effects(X, cd, pre, ox.dump); why != "" {
			r.Violation("ok-tx-missing-effect:"+strings.Join(names, ","), map[string]any{"case": label, "why": why})
		}
		return
	}
	// (a2) decoded ante-only check
	if why := anteOnlyDecoded(pre, ox.dump, fee); why != "" {
		key := "failed-tx-has-non-ante-effects:" + cd.name + ":" + strings.Join(names, ",")
		if class == "failed:block-gas" {
			key = "block-gas-limit-crossing-tx-reported-failed-but-effects-persist"
		}
		r.Violation(key, map[string]any{"case": label, "result": chainx.ResKey(ox.res), "log": firstLine(ox.res.Log), "why": why, "diff": head(chainx.DiffDump(pre, ox.dump), 12)})
		return
	}
	// twin W
	W := newChain(cd.maxGas)
	if cd.cold {
		if err := W.Restart(); err != nil {
			r.HarnessError("restart: %v", err)
		}
	}
	W.BeginBlock()
	if cd.prefixOK {
		p := W.MakeTx(keys, []std.Msg{chainx.Call(C.Addr, nil, stPath, "Grow", "4")}, chainx.TxOpt{GasWanted: cd.maxGas})
		W.DeliverTx(p)
	}
	ow := deliver(W, twinTx(W, cd.gas))
	if ow.res.Error == nil {
		r.HarnessError("%s: twin tx unexpectedly succeeded", label)
	}
	// (a) byte-for-byte equality with the ante-only twin
	if chainx.HashDump(ox.dump) != chainx.HashDump(ow.dump) {
		r.Violation("failed-tx-state-differs-from-ante-only-twin:"+strings.Join(names, ","), map[string]any{"case": label, "diff": head(chainx.DiffDump(ow.dump, ox.dump), 12)})
		return
	}
	// (b) follow-ups
	if cd.maxGas != 0 {
		// in a gas-limited block T and its twin legitimately leave different amounts of block gas, so
		// follow-ups in the same block are not comparable; cache traces are covered by the unlimited cases
		return
	}
	fx, fw := append(followUps(X), followUps2(X)...), append(followUps(W), followUps2(W)...)
	for i := range fx {
		rx, rw := deliver(X, fx[i]), deliver(W, fw[i])
		if chainx.ResKey(rx.res) != chainx.ResKey(rw.res) || chainx.HashDump(rx.dump) != chainx.HashDump(rw.dump) {
			r.Violation(fmt.Sprintf("failed-tx-leaves-trace:followup%d:%s", i, strings.Join(names, ",")), map[string]any{"case": label,
				"followup": i, "after_failed_tx": chainx.ResKey(rx.res) + " " + firstLine(rx.res.Log), "after_twin": chainx.ResKey(rw.res) + " " + firstLine(rw.res.Log),
				"diff": head(chainx.DiffDump(rw.dump, rx.dump), 12)})
			return
		}
	}
	// the block must also commit to the same app hash
	_, hx := X.EndBlockCommit()
	_, hw := W.EndBlockCommit()
	if string(hx) != string(hw) {
		r.Violation("failed-tx-apphash-differs-from-twin:"+strings.Join(names, ","), map[string]any{"case": label})
	}
}

func effects(c *chainx.Chain, cd caseDef, pre, post map[string]string) string {
	cKey := "main//a/" + string(C.Addr[:])
	sends, lastWrite, grows := 0, "", 0
	for i, mi := range cd.msgs {
		switch menu[mi].name {
		case "send_ok":
			sends++
		case "call_write":
			lastWrite = fmt.Sprintf("w%d", i)
		case "run_ok":
			lastWrite = fmt.Sprintf("r%d", i)
		case "call_grow_ok":
			grows += 3
		case "addpkg_ok":
			found := false
			for k := range post {
				if strings.Contains(k, fmt.Sprintf("gno.land/r/verif/new%d", i)) {
					found = true
					break
				}
			}
			if !found {
				return fmt.Sprintf("package new%d not in store after successful tx", i)
			}
		}
	}
	if sends > 0 {
		var a0, a1 std.Account
		amino.Unmarshal([]byte(pre[cKey]), &a0)
		amino.Unmarshal([]byte(post[cKey]), &a1)
		if !a1.GetCoins().IsEqual(a0.GetCoins().Add(coins(int64(100 * sends)))) {
			return fmt.Sprintf("recipient got %v -> %v, want +%d", a0.GetCoins(), a1.GetCoins(), 100*sends)
		}
	}
	if lastWrite != "" || grows > 0 {
		f := c.MakeTx(keys, []std.Msg{chainx.Run(B.Addr, nil, "package main\n\nimport \""+stPath+"\"\n\nfunc main() { println(st.Get(), st.Len()) }\n")}, chainx.TxOpt{})
		fr := c.DeliverTx(f)
		if fr.Error != nil {
			return "observer tx failed: " + firstLine(fr.Log)
		}
		got := strings.Fields(string(fr.Data))
		out := fmt.Sprint(got)
		_ = out
		// MsgRun output is reported through the VM output writer, not Data; read the state from the dump instead
	}
	// state var check from the persisted objects: the written string must appear in a realm object
	if lastWrite != "" {
		found := false
		for k, v := range post {
			if strings.HasPrefix(k, "base/oid:") && strings.Contains(v, "\""+lastWrite+"\"") || strings.HasPrefix(k, "base/oid:") && strings.Contains(v, lastWrite) {
				found = true
				break
			}
		}
		if !found {
			return "last written value " + lastWrite + " not found in any persisted realm object"
		}
	}
	if grows > 0 {
		n0, n1 := 0, 0
		for k := range pre {
			if strings.HasPrefix(k, "base/oid:") {
				n0++
			}
		}
		for k := range post {
			if strings.HasPrefix(k, "base/oid:") {
				n1++
			}
		}
		if n1-n0 < grows {
			return fmt.Sprintf("Grow(%d) persisted only %d new objects", grows, n1-n0)
		}
	}
	return ""
}

func firstLine(s string) string {
	if i := strings.IndexByte(s, '\n'); i >= 0 {
		s = s[:i]
	}
	if len(s) > 200 {
		s = s[:200]
	}
	return s
}

func head(s []string, n int) []string {
	if len(s) > n {
		return append(s[:n:n], fmt.Sprintf("... %d more", len(s)-n))
	}
	return s
}

func prio(c caseDef) int {
	switch {
	case strings.HasPrefix(c.name, "block-gas"):
		return 0
	case c.name == "single", c.name == "cold":
		return 1
	case c.name == "oog-ladder":
		return 2
	case c.name == "pair":
		return 3
	}
	return 4
}

func main() {
	debug.SetGCPercent(400)
	r = vk.New("model_checking")
	r.SetBudget(240*time.Second, 25*time.Minute)
	var cases []caseDef
	n := len(menu)
	for i := 0; i < n; i++ {
		cases = append(cases, caseDef{name: "single", msgs: []int{i}})
	}
	for i := 0; i < n; i++ {
		for j := 0; j < n; j++ {
			if r.Quick() && !(menu[i].fails || menu[j].fails) && (i+j)%3 != 0 {
				continue // quick: all pairs with a failing message, a third of the all-ok pairs
			}
			cases = append(cases, caseDef{name: "pair", msgs: []int{i, j}})
		}
	}
	if r.Thorough() {
		for i := 0; i < n; i++ {
			for j := 0; j < n; j++ {
				for k := 0; k < n; k++ {
					nf := 0
					for _, x := range []int{i, j, k} {
						if menu[x].fails {
							nf++
						}
					}
					if nf == 1 { // exactly one failing message, at every position
						cases = append(cases, caseDef{name: "triple", msgs: []int{i, j, k}})
					}
				}
			}
		}
	}
	// cold-cache cases: a failed tx must not warm an in-memory cache either (restart after genesis on both chains)
	for _, ms := range [][]int{{3}, {4}, {5}, {7}, {6, 1}, {2, 3}} {
		cases = append(cases, caseDef{name: "cold", msgs: ms, cold: true})
	}
	// out-of-gas ladders: measure, then step GasWanted down
	ladderMsgs := [][]int{{2}, {9}, {6}, {8}, {0, 2}, {2, 9}}
	steps := 6
	if r.Thorough() {
		steps = 40
	}
	for _, lm := range ladderMsgs {
		c := newChain(0)
		c.BeginBlock()
		cd := caseDef{name: "measure", msgs: lm}
		res := c.DeliverTx(cd.build(c))
		if res.Error != nil {
			r.HarnessError("ladder measure failed: %v %s", res.Error, res.Log)
		}
		g := res.GasUsed
		for s := 1; s <= steps; s++ {
			gw := g - (g*int64(s))/int64(steps+1)
			cases = append(cases, caseDef{name: "oog-ladder", msgs: lm, gas: gw})
		}
		cases = append(cases, caseDef{name: "oog-ladder", msgs: lm, gas: g - 1}, caseDef{name: "oog-ladder", msgs: lm, gas: g})
		// block-gas crossings: prefix tx by C (Grow 4) + T; MaxGas between
		for _, frac := range []int64{100, 60, 30} {
			// prefix uses gP (measured below); limit = gP + g*frac/100  => T crosses the limit when frac < 100... and exactly fits at 100
			cP := newChain(0)
			cP.BeginBlock()
			pr := cP.DeliverTx(cP.MakeTx(keys, []std.Msg{chainx.Call(C.Addr, nil, stPath, "Grow", "4")}, chainx.TxOpt{}))
			if pr.Error != nil {
				r.HarnessError("prefix measure failed")
			}
			limit := pr.GasUsed + g*frac/100
			gw := g + 1000
			if gw > limit {
				gw = limit
			}
			cases = append(cases, caseDef{name: fmt.Sprintf("block-gas-%d%%", frac), msgs: lm, gas: gw, maxGas: limit, prefixOK: true})
		}
	}
	r.Sample(map[string]any{"case": "pair[call_write,call_panic_after_write]", "meaning": "tx with an ok message followed by a message that writes and panics; must leave only fee+sequence"})
	r.Sample(map[string]any{"case": "block-gas-60%[call_write]", "meaning": "second tx of a block whose gas crosses the block limit although GasWanted <= MaxGas"})
	sort.SliceStable(cases, func(i, j int) bool { return prio(cases[i]) < prio(cases[j]) })
	r.ParFor(len(cases), func(i int) { cases[i].run() })
	r.Assumptions = []string{
		"twin tx = same signer/fee/gas with one bank send of insufficient funds (fails in the handler before any write); its own ante-only-ness is checked by the independent decoded-key oracle",
		"state = every key/value of both stores of the deliver-state multistore (dump) — in-memory caches are observed through follow-up txs' results, gas and dumps",
		"small scope: <=3 messages per tx, 10-entry message menu, one realm",
	}
	r.Finish("every tx of <=2 (quick) / <=3 with exactly one failing msg (thorough) messages over a 10-message menu + out-of-gas ladders + block-gas crossings; each executed on the real app and compared with an ante-only twin and through 4 follow-up txs; distinct = distinct (case, outcome class)",
		true, map[string]any{"states": nStates.Load(), "transitions": nTx.Load(), "traces_validated_against_impl": nTx.Load(), "cases": len(cases)})
}
