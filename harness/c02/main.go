// C02: transactions are atomic — a failed transaction has only ante effects.
//
// Real gno.land app (engine chainx). Every case is one transaction T; when T is reported failed, an ante-only TWIN tx T'
// (same signers, same signing mode, same fee and gas wanted; its first message fails in the bank handler without
// writing) is delivered from the same state on a second chain, and the same follow-up txs run after both.
//
// Two ways of executing a case:
//   * snapshot families (single/pair/triple, signers, oog-ladder): 8 workers, each with a PAIR of long-lived chains
//     (Xc for T, Wc for T') holding one open block; a case is executed on top of an O(1) cache-wrap snapshot
//     (chainx Push) that is dropped afterwards. The VM's in-memory caches are NOT rolled back by the snapshot — which is
//     what the property is about; the package paths a case deploys (new<case>x<i>, bad<case>) are unique per case, so
//     that what successful deployments of other cases leave there is never looked at.
//   * real-block families on fresh chains (block-gas, later, cold): real blocks are begun, ended and committed; app
//     hashes and a full dump of both stores are compared at the end.
// Case families:
//   single/pair(/triple)  every tx of <=2 (quick) / <=3 (thorough) messages over an 11-message menu, signer A; cases
//                         that deploy or run code also in a variant where the never-deployed paths were called BEFORE;
//   signers               signer configurations {A+B (A pays) ; A + B-through-a-session-key (A pays) ;
//                         B-through-a-session-key (pays) + A} x [anchor by the payer ; an earlier successful message of
//                         the SECOND signer (bank send / realm write / chain-parameter write) ; every failing kind, by
//                         either signer];
//   oog-ladder            the same tx with GasWanted stepped down through the execution;
//   block-gas             blocks [prefix ok, T] whose gas sum crosses the block limit while each GasWanted <= MaxGas;
//                         both blocks are ENDED and the follow-ups run in the next blocks (fresh block gas), with and
//                         without an earlier block calling the never-deployed paths; for the AddPackage / MsgRun
//                         crossings a third chain Y = X restarted after T's block (cold caches) runs the follow-ups too;
//   cold / later          restart before T (both chains) / ordinary failures with follow-ups in later blocks and Y.
// Oracles:
//   (a) T failed => the write set after T == the write set after T' (byte for byte); and an independent decode
//       check (anteOnlyDecoded) that the only keys changed are: the fee payer (coins-fee), every master-key signer
//       (sequence+1), the session account of a session signer (sequence+1, spend_used+fee when it pays), the fee
//       collector (+fee) — each compared byte for byte with (pre value + ante effect).
//   (b) T failed => every follow-up (other signers and the same signer; read/write the same realm objects, CALL the
//       paths T tried to deploy before re-deploying them, re-deploy them with different declarations, run another
//       script from T's run path, use the session again) gives the same result/gas/data/events and the same write set
//       on X, W (and Y); real blocks commit to the same app hash and the final full multistore dumps are identical.
//   (c) T ok => every message's effect is present (per-message predicate) and nothing is compared with a twin.
package main

import (
	"fmt"
	"os"
	"runtime/debug"
	"sort"
	"strings"
	"sync"
	"sync/atomic"
	"time"

	"github.com/gnolang/gno/gno.land/pkg/gnoland"
	"github.com/gnolang/gno/gno.land/pkg/sdk/vm"
	"github.com/gnolang/gno/tm2/pkg/amino"
	abci "github.com/gnolang/gno/tm2/pkg/bft/abci/types"
	"github.com/gnolang/gno/tm2/pkg/crypto"
	"github.com/gnolang/gno/tm2/pkg/db/memdb"
	"github.com/gnolang/gno/tm2/pkg/sdk/auth"
	"github.com/gnolang/gno/tm2/pkg/sdk/bank"
	"github.com/gnolang/gno/tm2/pkg/std"
	"verif/engine/chainx"
	"verif/engine/vk"
)

const (
	stPath   = "gno.land/r/verif/st"
	prmPath  = "gno.land/r/sys/params" // the only path the sys/params natives accept (stub of the governance realm)
	fee      = int64(1_000_000)
	defGas   = int64(20_000_000)
	loopGas  = int64(8_000_000)
)

const realmSt = `package st

var (
	val   string
	items []*item
)

type item struct{ s string }

func Write(cur realm, v string) string { val = v; return val }
func Get() string                     { return val }
func WriteThenPanic(cur realm)         { val = "dirty"; items = append(items, &item{s: "dirty"}); panic("boom") }
func Loop(cur realm)                   { val = "loop"; for { } }
func Grow(cur realm, n int) int {
	for i := 0; i < n; i++ {
		items = append(items, &item{s: "xxxxxxxxxxxxxxxxxxxxxxxxxxxxxxxxxxxxxxxxxxxxxxxx"})
	}
	return len(items)
}
func Len() int { return len(items) }
func Read(cur realm) string {
	s := val
	for _, it := range items {
		s += "," + it.s[:1]
	}
	return s
}
`

const realmPrm = `package params

import sp "sys/params"

func SetInt64(cur realm, m, s, n string, v int64) { sp.SetSysParamInt64(m, s, n, v) }
`

var (
	A, B, C = chainx.NewKey("A"), chainx.NewKey("B"), chainx.NewKey("C")
	S       = chainx.NewKey("S") // B's session key: no account of its own
	keys    = []chainx.Key{A, B, C}
	dbg     = os.Getenv("VERIF_C02_DEBUG") != ""
)

func spec(maxGas int64) chainx.Spec {
	s := chainx.Spec{Keys: keys, Fund: 1_000_000_000_000, MaxGas: maxGas}
	if maxGas > 0 {
		// the gas price the EndBlocker derives from the block's gas legitimately differs between T and its twin
		s.Mutate = func(gs *gnoland.GnoGenesisState) { gs.Auth.Params.TargetGasRatio = 0 }
	}
	for _, m := range []std.Msg{
		chainx.AddPkg(A.Addr, stPath, map[string]string{"st.gno": realmSt}),
		chainx.AddPkg(A.Addr, prmPath, map[string]string{"params.gno": realmPrm}),
	} {
		s.GenesisTxs = append(s.GenesisTxs, std.Tx{
			Msgs:       []std.Msg{m},
			Fee:        std.NewFee(genGas(maxGas), std.NewCoin("ugnot", fee)),
			Signatures: []std.Signature{{}},
		})
	}
	return s
}

func genGas(maxGas int64) int64 {
	if maxGas > 0 && maxGas < 100_000_000 {
		return maxGas // the block gas limit also bounds GasWanted of genesis txs
	}
	return 100_000_000
}

// ---- signer configurations ------------------------------------------------------------------------------------------

type cfgDef struct {
	name    string
	first   chainx.Key // fee payer
	second  *chainx.Key
	session bool // B signs through the session key S
}

var cfgs = []cfgDef{
	{name: "A", first: A},
	{name: "A+B", first: A, second: &B},
	{name: "A+B@session", first: A, second: &B, session: true},
	{name: "B@session+A", first: B, second: &A, session: true},
}

type signerInfo struct {
	addr    crypto.Address
	session bool
	pub     crypto.PubKey
}

func (cf cfgDef) role(who int) crypto.Address {
	if who == 1 {
		if cf.second == nil {
			panic("no second signer")
		}
		return cf.second.Addr
	}
	return cf.first.Addr
}

func (cf cfgDef) signers() []signerInfo {
	mk := func(k chainx.Key) signerInfo {
		if cf.session && k.Addr == B.Addr {
			return signerInfo{k.Addr, true, S.Pub}
		}
		return signerInfo{k.Addr, false, k.Pub}
	}
	out := []signerInfo{mk(cf.first)}
	if cf.second != nil {
		out = append(out, mk(*cf.second))
	}
	return out
}

func sessionAcc(c *chainx.Chain) std.Account {
	bz, ok := c.Get("main", string(auth.SessionStoreKey(B.Addr, S.Addr)))
	if !ok {
		return nil
	}
	var acc std.Account
	amino.MustUnmarshal([]byte(bz), &acc)
	return acc
}

// sign builds the tx for msgs, signed according to cf; the signer list of the messages must be exactly cf's.
func (cf cfgDef) sign(c *chainx.Chain, msgs []std.Msg, gas int64) std.Tx {
	tx := std.Tx{Msgs: msgs, Fee: std.NewFee(gas, std.NewCoin("ugnot", fee))}
	want := cf.signers()
	got := tx.GetSigners()
	if len(got) != len(want) {
		r.HarnessError("cfg %s: tx has %d signers", cf.name, len(got))
	}
	for i, sa := range got {
		if sa != want[i].addr {
			r.HarnessError("cfg %s: signer %d is %s", cf.name, i, sa)
		}
		var num, seq uint64
		var k chainx.Key
		var sessAddr crypto.Address
		if want[i].session {
			k, sessAddr = S, S.Addr
			sa := sessionAcc(c)
			if sa == nil {
				r.HarnessError("cfg %s: no session account", cf.name)
			}
			num, seq = sa.GetAccountNumber(), sa.GetSequence()
		} else {
			for _, kk := range keys {
				if kk.Addr == sa {
					k = kk
				}
			}
			ai := c.Account(sa)
			num, seq = ai.Num, ai.Seq
		}
		sb, err := tx.GetSignBytes(chainx.ChainID, num, seq)
		if err != nil {
			panic(err)
		}
		sig, err := k.Priv.Sign(sb)
		if err != nil {
			panic(err)
		}
		tx.Signatures = append(tx.Signatures, std.Signature{PubKey: k.Pub, Signature: sig, SessionAddr: sessAddr})
	}
	return tx
}

// ---- message menu -----------------------------------------------------------------------------------------------------

type msgDef struct {
	name  string
	fails bool // expected to fail when executed alone with ample gas
	mk    func(i int, who crypto.Address, inst string) std.Msg
}

// package paths are instance-renamed per case (see header)
func newName(inst string, i int) string { return fmt.Sprintf("new%sx%d", inst, i) }
func newPath(inst string, i int) string { return "gno.land/r/verif/" + newName(inst, i) }
func badPath(inst string) string        { return "gno.land/r/verif/bad" + inst }

func coins(n int64) std.Coins { return std.Coins{std.NewCoin("ugnot", n)} }

const (
	mSendOK = iota
	mSendInsufficient
	mCallWrite
	mCallPanic
	mCallLoop
	mCallDeposit
	mAddPkgOK
	mAddPkgTypeErr
	mRunOK
	mCallGrow
	mSetParam
)

var menu = []msgDef{
	{"send_ok", false, func(i int, who crypto.Address, inst string) std.Msg {
		return bank.MsgSend{FromAddress: who, ToAddress: C.Addr, Amount: coins(100)}
	}},
	{"send_insufficient", true, func(i int, who crypto.Address, inst string) std.Msg {
		return bank.MsgSend{FromAddress: who, ToAddress: C.Addr, Amount: coins(900_000_000_000_000)}
	}},
	{"call_write", false, func(i int, who crypto.Address, inst string) std.Msg {
		return chainx.Call(who, nil, stPath, "Write", fmt.Sprintf("w%d", i))
	}},
	{"call_panic_after_write", true, func(i int, who crypto.Address, inst string) std.Msg {
		return chainx.Call(who, nil, stPath, "WriteThenPanic")
	}},
	{"call_infinite_loop", true, func(i int, who crypto.Address, inst string) std.Msg { return chainx.Call(who, nil, stPath, "Loop") }},
	{"call_grow_deposit_too_small", true, func(i int, who crypto.Address, inst string) std.Msg {
		m := vm.NewMsgCall(who, nil, stPath, "Grow", []string{"30"})
		m.MaxDeposit = coins(1)
		return m
	}},
	{"addpkg_ok", false, func(i int, who crypto.Address, inst string) std.Msg {
		return chainx.AddPkg(who, newPath(inst, i), map[string]string{"a.gno": "package " + newName(inst, i) + "\n\nvar X = 1\n\nfunc F(cur realm) int { X++; return X }\n"})
	}},
	{"addpkg_type_error", true, func(i int, who crypto.Address, inst string) std.Msg {
		return chainx.AddPkg(who, badPath(inst), map[string]string{"a.gno": "package bad" + inst + "\n\nvar X int = \"s\"\n\nfunc G(cur realm) int { return X }\n"})
	}},
	{"run_ok", false, func(i int, who crypto.Address, inst string) std.Msg {
		return chainx.Run(who, nil, fmt.Sprintf("package main\n\nimport \"%s\"\n\nfunc main(cur realm) { println(st.Write(cross(cur), \"r%d\")) }\n", stPath, i))
	}},
	{"call_grow_ok", false, func(i int, who crypto.Address, inst string) std.Msg { return chainx.Call(who, nil, stPath, "Grow", "3") }},
	// writes a key the ante handler READS for every tx (auth params), through the governance realm stub
	{"call_setparam", false, func(i int, who crypto.Address, inst string) std.Msg {
		return chainx.Call(who, nil, prmPath, "SetInt64", "auth", "p", "max_memo_bytes", fmt.Sprint(65600+i))
	}},
}

type mref struct {
	m   int // menu index
	who int // 0 = fee payer, 1 = second signer
}

func refs(who int, ms ...int) []mref {
	var out []mref
	for _, m := range ms {
		out = append(out, mref{m, who})
	}
	return out
}

// ---- follow-ups ---------------------------------------------------------------------------------------------------------

type fuDef struct {
	name string
	mk   func(c *chainx.Chain, inst string, gas int64) std.Tx
}

func one(f func(inst string) std.Msg) func(c *chainx.Chain, inst string, gas int64) std.Tx {
	return func(c *chainx.Chain, inst string, gas int64) std.Tx {
		return c.MakeTx(keys, []std.Msg{f(inst)}, chainx.TxOpt{GasWanted: gas})
	}
}

// Each follow-up is built (signed with the CURRENT sequence) right before it is delivered.
var followUps = []fuDef{
	{"B:call st.Read", one(func(inst string) std.Msg { return chainx.Call(B.Addr, nil, stPath, "Read") })},
	{"B:run get", one(func(inst string) std.Msg {
		return chainx.Run(B.Addr, nil, "package main\n\nimport \""+stPath+"\"\n\nfunc main() { println(st.Get(), st.Len()) }\n")
	})},
	// the paths a failed tx may have tried to deploy are CALLED before anything deploys them
	{"B:call new0.F (never deployed)", one(func(inst string) std.Msg { return chainx.Call(B.Addr, nil, newPath(inst, 0), "F") })},
	{"A:call bad.G (never deployed)", one(func(inst string) std.Msg { return chainx.Call(A.Addr, nil, badPath(inst), "G") })},
	// another script from the run path of T's signer, with different declarations at the same positions
	{"A:run other script", one(func(inst string) std.Msg {
		return chainx.Run(A.Addr, nil, "package main\n\nimport \""+stPath+"\"\n\nvar pre = \"q\"\n\nfunc main(cur realm) { println(st.Write(cross(cur), pre+\"z\")) }\n")
	})},
	{"B:call st.Write", one(func(inst string) std.Msg { return chainx.Call(B.Addr, nil, stPath, "Write", "f") })},
	{"B:addpkg bad (valid decls)", one(func(inst string) std.Msg {
		return chainx.AddPkg(B.Addr, badPath(inst), map[string]string{"a.gno": "package bad" + inst + "\n\nvar X int = 7\n\nfunc G(cur realm) int { return X }\n"})
	})},
	{"B:call st.Grow", one(func(inst string) std.Msg { return chainx.Call(B.Addr, nil, stPath, "Grow", "2") })},
	// re-deploy (with different declarations at the same positions) the path a failed tx may have deployed, then call it
	{"B:addpkg new0 (other decls)", one(func(inst string) std.Msg {
		return chainx.AddPkg(B.Addr, newPath(inst, 0), map[string]string{"a.gno": "package " + newName(inst, 0) + "\n\nvar X = \"s\"\n\nfunc F(cur realm) string { X += \"t\"; return X }\n"})
	})},
	{"A:call new0.F", one(func(inst string) std.Msg { return chainx.Call(A.Addr, nil, newPath(inst, 0), "F") })},
	{"A:call bad.G", one(func(inst string) std.Msg { return chainx.Call(A.Addr, nil, badPath(inst), "G") })},
	{"C:send to B", one(func(inst string) std.Msg { return bank.MsgSend{FromAddress: C.Addr, ToAddress: B.Addr, Amount: coins(5)} })},
	// the session must still work (sequence, spend record) the same way
	{"B@session:send", func(c *chainx.Chain, inst string, gas int64) std.Tx {
		return cfgDef{name: "fu", first: B, session: true}.sign(c, []std.Msg{bank.MsgSend{FromAddress: B.Addr, ToAddress: C.Addr, Amount: coins(7)}}, gas)
	}},
}

// ---- cases --------------------------------------------------------------------------------------------------------------

type caseDef struct {
	name    string
	inst    string // instance id: part of every package path the case deploys
	cfg     int
	msgs    []mref
	gas     int64 // GasWanted for T (0 = default 20M)
	maxGas  int64 // block gas limit (0 = default 3e9, never reached)
	prefix  int   // block-gas cases: 0 none, 1 small (call), 2 big (AddPackage) OK tx by C first in T's block
	cold    bool  // restart after genesis/setup: VM caches are cold when T / its twin run
	probe   bool  // the never-deployed paths are called before T (real-block families: in an earlier block)
	later   bool  // T's block is ended right after T; every follow-up runs in a later block of its own
	restart bool  // (later only) additionally: chain Y = same history, restarted after T's block
}

// real: executed with real blocks on fresh chains (the other cases run on snapshots of a worker's chain pair)
func (cd caseDef) real() bool { return cd.maxGas != 0 || cd.cold || cd.later }

var r *vk.Run

func viol(key string, detail any) {
	if dbg {
		fmt.Printf("DBGV %s\n", key)
	}
	r.Violation(key, detail)
}

func (cd caseDef) gasT() int64 {
	if cd.gas == 0 {
		for _, m := range cd.msgs {
			if m.m == mCallLoop {
				return loopGas // the loop burns whatever is left: keep it short
			}
		}
		return defGas
	}
	return cd.gas
}

// gas wanted of setup/follow-up txs: the block limit bounds GasWanted
func (cd caseDef) gasAux() int64 {
	if cd.maxGas > 0 && cd.maxGas < 50_000_000 {
		return cd.maxGas
	}
	return 50_000_000
}

func (cd caseDef) names() []string {
	var out []string
	for _, m := range cd.msgs {
		n := menu[m.m].name
		if m.who == 1 {
			n += "@2"
		}
		out = append(out, n)
	}
	return out
}

func (cd caseDef) label() string {
	l := fmt.Sprintf("%s{%s}[%s]gas=%d", cd.name, cfgs[cd.cfg].name, strings.Join(cd.names(), ","), cd.gas)
	if cd.cold {
		l = "cold:" + l
	}
	if cd.probe {
		l += "+probe"
	}
	if cd.later {
		l += "+later"
	}
	return l
}

func (cd caseDef) build(c *chainx.Chain) std.Tx {
	cf := cfgs[cd.cfg]
	var ms []std.Msg
	for i, m := range cd.msgs {
		ms = append(ms, menu[m.m].mk(i, cf.role(m.who), cd.inst))
	}
	return cf.sign(c, ms, cd.gasT())
}

// twin: same signers, signing mode, fee and gas; one bank send of insufficient funds per signer (the first one fails in
// the handler before any write, the rest is never executed).
func (cd caseDef) twin(c *chainx.Chain) std.Tx {
	cf := cfgs[cd.cfg]
	ms := []std.Msg{menu[mSendInsufficient].mk(0, cf.first.Addr, cd.inst)}
	if cf.second != nil {
		ms = append(ms, menu[mSendInsufficient].mk(1, cf.second.Addr, cd.inst))
	}
	return cf.sign(c, ms, cd.gasT())
}

func prefixMsg(kind int) std.Msg {
	if kind == 2 {
		body := "package fill\n\nvar n int\n\nfunc Hello(cur realm) int {\n\tn++\n\treturn n\n}\n"
		for i := 0; i < 30; i++ {
			body += fmt.Sprintf("\nfunc Get%d() int { return n + %d }\n", i, i)
		}
		return chainx.AddPkg(C.Addr, "gno.land/r/verif/fill", map[string]string{"a.gno": body})
	}
	return chainx.Call(C.Addr, nil, stPath, "Grow", "4")
}

func (cd caseDef) probes() []std.Msg {
	return []std.Msg{chainx.Call(B.Addr, nil, newPath(cd.inst, 0), "F"), chainx.Call(B.Addr, nil, badPath(cd.inst), "G"), chainx.Call(A.Addr, nil, newPath(cd.inst, 0), "F")}
}

var (
	nTx, nChains, nRestarts, nSnapshots atomic.Int64
	stateSet                            sync.Map
	nStates                             atomic.Int64
	tChain, tT, tFU, tDump              atomic.Int64
)

func since(t0 time.Time, a *atomic.Int64) { a.Add(int64(time.Since(t0))) }

func countState(h string) {
	if _, loaded := stateSet.LoadOrStore(h, true); !loaded {
		nStates.Add(1)
	}
}

// newChain: genesis + one block in which B creates its session (present on every chain, used by some cases).
func newChain(maxGas int64) *chainx.Chain {
	defer since(time.Now(), &tChain)
	c, err := chainx.New(memdb.NewMemDB(), spec(maxGas))
	if err != nil {
		r.HarnessError("chain init: %v", err)
	}
	for _, tr := range c.Init.TxResponses {
		if tr.Error != nil {
			r.HarnessError("genesis tx failed (maxGas %d): %v %s", maxGas, tr.Error, firstLine(tr.Log))
		}
	}
	nChains.Add(1)
	m := auth.MsgCreateSession{Creator: B.Addr, SessionKey: S.Pub, AllowPaths: []string{"*"}, SpendLimit: coins(2_000_000_000_000_000)}
	rs, _ := c.Block(c.MakeTx(keys, []std.Msg{m}, chainx.TxOpt{GasWanted: caseDef{maxGas: maxGas}.gasAux()}))
	if rs[0].Error != nil {
		r.HarnessError("create session failed: %s", firstLine(rs[0].Log))
	}
	return c
}

func restart(c *chainx.Chain) {
	nRestarts.Add(1)
	if err := c.Restart(); err != nil {
		r.HarnessError("restart: %v", err)
	}
}

type step struct {
	name string
	res  abci.ResponseDeliverTx
	lay  layer
	hash string
	app  string // app hash when a block was committed after this step
}

type trace struct {
	pre, post layer // around T
	res       abci.ResponseDeliverTx
	ok        bool
	appT      string // app hash of T's block (later mode)
	steps     []step
	appEnd    string
	dump      string // hash of the final full dump of the committed state
	dumpMap   map[string]string
}

func errStr(r abci.ResponseDeliverTx) string {
	if r.Error == nil {
		return ""
	}
	return fmt.Sprintf("%T", r.Error)
}

// playReal executes the whole history of a case with real blocks on a fresh chain.
func (cd caseDef) playReal(useTwin, restartAfterT, keepDump bool) *trace {
	c := newChain(cd.maxGas)
	if cd.probe {
		c.BeginBlock()
		cd.deliverProbes(c)
		c.EndBlockCommit()
	}
	if cd.cold {
		restart(c)
	}
	c.BeginBlock()
	if cd.prefix != 0 {
		p := c.MakeTx(keys, []std.Msg{prefixMsg(cd.prefix)}, chainx.TxOpt{GasWanted: cd.maxGas})
		nTx.Add(1)
		if pr := c.DeliverTx(p); pr.Error != nil {
			r.HarnessError("%s: prefix tx failed: %v %s", cd.label(), pr.Error, firstLine(pr.Log))
		}
	}
	return cd.fromT(c, useTwin, restartAfterT, true, keepDump)
}

// playSnap executes the history on top of a snapshot of c's open block and drops it afterwards.
func (cd caseDef) playSnap(c *chainx.Chain, useTwin bool) *trace {
	pop := c.Push()
	defer pop()
	nSnapshots.Add(1)
	if cd.probe {
		cd.deliverProbes(c)
	}
	return cd.fromT(c, useTwin, false, false, false)
}

func (cd caseDef) deliverProbes(c *chainx.Chain) {
	for _, m := range cd.probes() {
		pr := c.DeliverTx(c.MakeTx(keys, []std.Msg{m}, chainx.TxOpt{GasWanted: cd.gasAux() / 4}))
		nTx.Add(1)
		if pr.Error == nil {
			r.HarnessError("%s: call to a never-deployed path succeeded", cd.label())
		}
	}
}

// fromT: T (or its ante-only twin), then the follow-ups. A successful T ends the history (oracle (c) needs no
// follow-ups).
func (cd caseDef) fromT(c *chainx.Chain, useTwin, restartAfterT, real, keepDump bool) *trace {
	aux := cd.gasAux()
	t := &trace{pre: snap(c)}
	var tx std.Tx
	if useTwin {
		tx = cd.twin(c)
	} else {
		tx = cd.build(c)
	}
	t0 := time.Now()
	t.res = c.DeliverTx(tx)
	since(t0, &tT)
	nTx.Add(1)
	t.post = snap(c)
	countState(t.post.hash())
	t.ok = t.res.Error == nil
	if t.ok {
		if useTwin {
			r.HarnessError("%s: twin tx unexpectedly succeeded", cd.label())
		}
		return t
	}
	hx := func(b []byte) string { return fmt.Sprintf("%x", b) }
	later := real && cd.later
	if later {
		_, h := c.EndBlockCommit()
		t.appT = hx(h)
		if dbg {
			t.dumpMap = c.Dump()
		}
		if restartAfterT {
			restart(c)
		}
	}
	for _, f := range followUps {
		if later {
			c.BeginBlock()
		}
		st := step{name: f.name}
		t1 := time.Now()
		st.res = c.DeliverTx(f.mk(c, cd.inst, aux))
		since(t1, &tFU)
		nTx.Add(1)
		st.lay = snap(c)
		st.hash = st.lay.hash()
		countState(st.hash)
		if later {
			_, h := c.EndBlockCommit()
			st.app = hx(h)
		}
		t.steps = append(t.steps, st)
	}
	if !real {
		return t
	}
	if !later {
		_, h := c.EndBlockCommit()
		t.appEnd = hx(h)
	}
	t3 := time.Now()
	d := c.Dump()
	t.dump = chainx.HashDump(d)
	since(t3, &tDump)
	if keepDump {
		t.dumpMap = d
	}
	return t
}

// ante-only twins of the real-block families are shared between the cases that have the same history around T
var twins sync.Map // key -> *twinOnce

type twinOnce struct {
	once sync.Once
	t    *trace
}

func (cd caseDef) twinKey() string {
	return fmt.Sprintf("%s|gas=%d|max=%d|prefix=%d|cold=%v|probe=%v|later=%v", cfgs[cd.cfg].name, cd.gasT(), cd.maxGas, cd.prefix, cd.cold, cd.probe, cd.later)
}

func (cd caseDef) twinReal() *trace {
	v, _ := twins.LoadOrStore(cd.twinKey(), &twinOnce{})
	to := v.(*twinOnce)
	to.once.Do(func() { to.t = cd.playReal(true, false, false) })
	return to.t
}

var fuChecked atomic.Bool

// checkTwin: the twin's own ante-only-ness (independent decoder) and non-vacuity of the follow-ups.
func (cd caseDef) checkTwin(w *trace) {
	if why := anteOnlyDecoded(changes(w.pre, w.post), cfgs[cd.cfg].signers(), fee); why != "" {
		viol("failed-tx-has-non-ante-effects:twin:"+cfgs[cd.cfg].name, map[string]any{"case": cd.label(), "why": why, "log": firstLine(w.res.Log)})
	}
	for _, st := range w.steps {
		// they must get past the ante handler on the reference chain
		if strings.Contains(st.res.Log, "signature verification failed") || strings.Contains(st.res.Log, "invalid gas-wanted") || strings.Contains(st.res.Log, "unknown session") {
			r.HarnessError("%s: follow-up %q rejected by the ante handler: %s", cd.label(), st.name, firstLine(st.res.Log))
		}
	}
}

// check runs one case; playX/playW execute the history with T / with its twin.
func (cd caseDef) check(playX, playW func() *trace) {
	r.Eval()
	names := strings.Join(cd.names(), ",")
	label := cd.label()
	cf := cfgs[cd.cfg]
	X := playX()
	class := "ok"
	if !X.ok {
		class = "failed:" + errStr(X.res)
		if strings.Contains(X.res.Log, "out of gas") {
			class += ":oog"
		}
		if strings.Contains(X.res.Log, "block gas") {
			class = "failed:block-gas"
		}
	}
	r.Outcome(class)
	if cd.cfg != 0 {
		r.Outcome("signers{" + cf.name + "}:" + class)
	}
	r.Distinct(label + "|" + class)
	if dbg {
		fmt.Printf("DBG %s => %s gasUsed=%d log=%s\n", label, class, X.res.GasUsed, firstLine(X.res.Log))
	}
	if X.res.GasUsed > X.res.GasWanted && class != "failed:block-gas" {
		r.Outcome("obs:gasUsed>gasWanted") // C10's subject; recorded here as an observation only
	}
	cs := changes(X.pre, X.post)
	if X.ok {
		// (c) every message took effect
		if why := effects(cd, cs); why != "" {
			viol("ok-tx-missing-effect:"+names, map[string]any{"case": label, "why": why})
		}
		return
	}
	if cd.maxGas != 0 && len(cs) == 0 && (strings.Contains(X.res.Log, "tx's gas wanted (0)") || strings.Contains(X.res.Log, "no block gas left")) {
		// not enough block gas left to get to the point where the ante handler installs the tx gas meter: the tx is
		// rejected like by the ante handler (no fee, no sequence) — not a delivered-and-failed tx; nothing changed.
		r.Outcome("rejected-before-ante:block-gas")
		return
	}
	fam := cd.name
	if cd.probe {
		fam += "+probe"
	}
	keyTail := fam + ":" + names
	if cd.cfg != 0 {
		keyTail = fam + "{" + cf.name + "}:" + names
	}
	// (a2) decoded ante-only check
	if why := anteOnlyDecoded(cs, cf.signers(), fee); why != "" {
		key := "failed-tx-has-non-ante-effects:" + keyTail
		if class == "failed:block-gas" {
			key = "block-gas-limit-crossing-tx-reported-failed-but-effects-persist"
		}
		viol(key, map[string]any{"case": label, "result": chainx.ResKey(X.res), "log": firstLine(X.res.Log), "why": why, "changed": showChanges(cs)})
		return
	}
	W := playW()
	// (a) byte-for-byte equality with the ante-only twin
	if X.post.hash() != W.post.hash() {
		viol("failed-tx-state-differs-from-ante-only-twin:"+keyTail, map[string]any{"case": label, "diff": layerDiff(W.post, X.post)})
		return
	}
	// (b) follow-ups
	if !cd.compare(X, W, "twin", "failed-tx-leaves-trace", keyTail) {
		return
	}
	for i, st := range X.steps {
		cl := "ok"
		if st.res.Error != nil {
			cl = "failed"
		}
		r.Outcome(fmt.Sprintf("followup%02d:%s", i, cl))
	}
	if cd.restart {
		Y := cd.playReal(false, true, false)
		if Y.ok || chainx.ResKey(Y.res) != chainx.ResKey(X.res) || Y.post.hash() != X.post.hash() {
			viol("nondeterministic-replay:"+keyTail, map[string]any{"case": label})
			return
		}
		if cd.compare(Y, X, "not-restarted", "failed-tx-leaves-trace-lost-by-restart", keyTail) {
			r.Outcome("restarted-chain-agrees")
		}
	}
}

// compare the histories after T of chain x against the reference chain w.
func (cd caseDef) compare(x, w *trace, wname, keyHead, keyTail string) bool {
	label := cd.label()
	if x.appT != w.appT {
		if dbg {
			fmt.Printf("DBG apphash diff %s: %v\n", label, chainx.DiffDump(w.dumpMap, x.dumpMap))
		}
		viol("failed-tx-apphash-differs-from-"+wname+":"+keyTail, map[string]any{"case": label, "block": "the failed tx's block"})
		return false
	}
	for i := range x.steps {
		sx, sw := x.steps[i], w.steps[i]
		if chainx.ResKey(sx.res) != chainx.ResKey(sw.res) || sx.hash != sw.hash || sx.app != sw.app {
			viol(fmt.Sprintf("%s:followup%02d:%s", keyHead, i, keyTail), map[string]any{"case": label,
				"followup": sx.name, "after_failed_tx": chainx.ResKey(sx.res) + " " + firstLine(sx.res.Log), "after_" + wname: chainx.ResKey(sw.res) + " " + firstLine(sw.res.Log),
				"diff": layerDiff(sw.lay, sx.lay), "apphash_equal": sx.app == sw.app})
			return false
		}
	}
	if x.appEnd != w.appEnd {
		viol("failed-tx-apphash-differs-from-"+wname+":"+keyTail, map[string]any{"case": label})
		return false
	}
	if x.dump != w.dump {
		// re-play both to show the difference
		dx, dw := cd.playReal(false, wname != "twin", true), cd.playReal(wname == "twin", false, true)
		viol("failed-tx-final-dump-differs-from-"+wname+":"+keyTail, map[string]any{"case": label, "diff": head(chainx.DiffDump(dw.dumpMap, dx.dumpMap), 12)})
		return false
	}
	return true
}

// effects: every message of a successful tx left its effect in the tx's write set.
func effects(cd caseDef, cs []change) string {
	sends, lastWrite, grows, lastParam := 0, "", 0, ""
	has := func(pred func(c change) bool) bool {
		for _, c := range cs {
			if pred(c) {
				return true
			}
		}
		return false
	}
	for i, m := range cd.msgs {
		switch menu[m.m].name {
		case "send_ok":
			sends++
		case "call_write":
			lastWrite = fmt.Sprintf("w%d", i)
		case "run_ok":
			lastWrite = fmt.Sprintf("r%d", i)
		case "call_grow_ok":
			grows += 3
		case "call_setparam":
			lastParam = fmt.Sprint(65600 + i)
		case "addpkg_ok":
			p := newPath(cd.inst, i)
			if !has(func(c change) bool { return c.postOK && !c.preOK && strings.Contains(c.key, p) }) {
				return "package " + p + " not in store after successful tx"
			}
		}
	}
	if sends > 0 {
		ok := has(func(c change) bool {
			if c.key != accKey(C.Addr) || !c.preOK || !c.postOK {
				return false
			}
			var a0, a1 std.Account
			amino.Unmarshal([]byte(c.pre), &a0)
			amino.Unmarshal([]byte(c.post), &a1)
			return a1.GetCoins().IsEqual(a0.GetCoins().Add(coins(int64(100 * sends))))
		})
		if !ok {
			return fmt.Sprintf("recipient did not get +%d", 100*sends)
		}
	}
	// state var check from the persisted objects: the written string must appear in a changed realm object
	if lastWrite != "" && !has(func(c change) bool {
		return strings.HasPrefix(c.key, "base/oid:") && c.postOK && strings.Contains(c.post, lastWrite)
	}) {
		return "last written value " + lastWrite + " not found in any persisted realm object"
	}
	if lastParam != "" && !has(func(c change) bool {
		return strings.Contains(c.key, "auth:p:max_memo_bytes") && c.postOK && strings.Contains(c.post, lastParam)
	}) {
		return "parameter value " + lastParam + " not stored"
	}
	if grows > 0 {
		n := 0
		for _, c := range cs {
			if strings.HasPrefix(c.key, "base/oid:") && c.postOK && !c.preOK {
				n++
			}
		}
		if n < grows {
			return fmt.Sprintf("Grow(%d) persisted only %d new objects", grows, n)
		}
	}
	return ""
}

func firstLine(s string) string {
	if i := strings.IndexByte(s, '\n'); i >= 0 {
		s = s[:i]
	}
	if len(s) > 200 {
		s = s[:200]
	}
	return s
}

func head(s []string, n int) []string {
	if len(s) > n {
		return append(s[:n:n], fmt.Sprintf("... %d more", len(s)-n))
	}
	return s
}

func prio(c caseDef) int {
	bg := strings.HasPrefix(c.name, "block-gas")
	switch {
	case bg && c.restart:
		return 0 // longest cases first
	case c.restart, c.cold:
		return 1
	case bg:
		return 2
	case c.name == "signers":
		return 3
	case c.name == "single":
		return 4
	case c.name == "oog-ladder":
		return 5
	case c.name == "pair":
		return 6
	}
	return 7
}

func measure(c *chainx.Chain, ms []std.Msg) int64 {
	pop := c.Push()
	defer pop()
	res := c.DeliverTx(c.MakeTx(keys, ms, chainx.TxOpt{}))
	if res.Error != nil {
		r.HarnessError("measure failed: %v %s", res.Error, firstLine(res.Log))
	}
	return res.GasUsed
}

const nWorkers = 8

func main() {
	debug.SetGCPercent(400)
	r = vk.New("model_checking")
	r.SetBudget(300*time.Second, 25*time.Minute)
	var cases []caseDef
	n := len(menu)
	fails := []int{}
	deploys := func(ms ...int) bool {
		for _, m := range ms {
			if m == mAddPkgOK || m == mAddPkgTypeErr || m == mRunOK {
				return true
			}
		}
		return false
	}
	add := func(cd caseDef) {
		cases = append(cases, cd)
		if !cd.real() && cd.cfg == 0 && cd.name != "oog-ladder" {
			var ms []int
			anyFail := false
			for _, m := range cd.msgs {
				ms = append(ms, m.m)
				anyFail = anyFail || menu[m.m].fails
			}
			if deploys(ms...) && anyFail {
				cd.probe = true // variant: the never-deployed paths were called before T
				cases = append(cases, cd)
			}
		}
	}
	for i := 0; i < n; i++ {
		add(caseDef{name: "single", msgs: refs(0, i)})
		if menu[i].fails {
			fails = append(fails, i)
		}
	}
	for i := 0; i < n; i++ {
		for j := 0; j < n; j++ {
			if r.Quick() && !(menu[i].fails || menu[j].fails) && (i+j)%3 != 0 {
				continue // quick: all pairs with a failing message, a third of the all-ok pairs
			}
			add(caseDef{name: "pair", msgs: refs(0, i, j)})
		}
	}
	if r.Thorough() {
		for i := 0; i < n; i++ {
			for j := 0; j < n; j++ {
				for k := 0; k < n; k++ {
					nf := 0
					for _, x := range []int{i, j, k} {
						if menu[x].fails {
							nf++
						}
					}
					if nf == 1 { // exactly one failing message, at every position
						cases = append(cases, caseDef{name: "triple", msgs: refs(0, i, j, k)})
					}
				}
			}
		}
	}
	// signer configurations: [anchor by the fee payer ; successful message of the SECOND signer ; failing message by
	// either signer]. vm/add_package can never be signed through a session (rejected by the ante handler: not a
	// delivered-and-failed tx), so that combination is left out.
	for ci := 1; ci < len(cfgs); ci++ {
		cf := cfgs[ci]
		for _, w := range []int{mSendOK, mCallWrite, mSetParam} {
			for _, f := range fails {
				for who := 0; who < 2; who++ {
					if f == mAddPkgTypeErr && cf.session && cf.role(who) == B.Addr {
						continue
					}
					cases = append(cases, caseDef{name: "signers", cfg: ci, msgs: []mref{{mSendOK, 0}, {w, 1}, {f, who}}})
				}
			}
			// all messages succeed: (c)
			cases = append(cases, caseDef{name: "signers", cfg: ci, msgs: []mref{{mSendOK, 0}, {w, 1}, {mCallGrow, 0}}})
		}
		// the second signer's only message is the failing one
		for _, f := range []int{mSendInsufficient, mCallPanic} {
			cases = append(cases, caseDef{name: "signers", cfg: ci, msgs: []mref{{mSendOK, 0}, {f, 1}}})
		}
	}
	// cold-cache cases: a failed tx must not warm an in-memory cache either (restart after genesis on both chains)
	for _, ms := range [][]int{{mCallPanic}, {mCallLoop}, {mCallDeposit}, {mAddPkgTypeErr}, {mAddPkgOK, mSendInsufficient}, {mCallWrite, mCallPanic}} {
		cases = append(cases, caseDef{name: "cold", msgs: refs(0, ms...), cold: true})
	}
	// follow-ups in later blocks + a restarted third chain, for ordinary failures
	for _, ms := range [][]int{{mAddPkgOK, mSendInsufficient}, {mRunOK, mCallPanic}, {mAddPkgTypeErr}} {
		cases = append(cases, caseDef{name: "later", msgs: refs(0, ms...), later: true, restart: true, probe: len(ms) == 2})
	}
	// out-of-gas ladders: measure, then step GasWanted down
	ladderMsgs := [][]int{{mCallWrite}, {mCallGrow}, {mAddPkgOK}, {mRunOK}, {mSendOK, mCallWrite}, {mCallWrite, mCallGrow}, {mSetParam}}
	bgT := []bool{false, true, true, true, true, false, false} // quick: block-gas crossings only for txs heavy enough to leave room
	steps := 6
	if r.Thorough() {
		steps = 40
	}
	mc := newChain(0) // measuring chain (also warms the process-wide stdlib cache before the workers start)
	var gGenesis int64
	for _, tr := range mc.Init.TxResponses {
		gGenesis = max(gGenesis, tr.GasUsed)
	}
	mc.BeginBlock()
	gPrefix := map[int]int64{}
	for _, k := range []int{1, 2} {
		gPrefix[k] = measure(mc, []std.Msg{prefixMsg(k)})
	}
	// gas of the ante-only twin (ante handler + a bank send that fails at once)
	gAnte := func() int64 {
		pop := mc.Push()
		defer pop()
		return mc.DeliverTx(caseDef{}.twin(mc)).GasUsed
	}()
	if dbg {
		fmt.Printf("DBG prefix gas %v genesis max gas %d twin gas %d\n", gPrefix, gGenesis, gAnte)
	}
	for li, lm := range ladderMsgs {
		cd := caseDef{name: "measure", msgs: refs(0, lm...), inst: fmt.Sprintf("m%d", li)}
		var ms []std.Msg
		for i, m := range cd.msgs {
			ms = append(ms, menu[m.m].mk(i, A.Addr, cd.inst))
		}
		g := measure(mc, ms)
		if dbg {
			fmt.Printf("DBG gas %v = %d\n", cd.names(), g)
		}
		// from just above what the ante handler needs (below that the tx is rejected by the ante handler, without a
		// fee: not a delivered-and-failed tx) up to what the tx needs
		lo := gAnte + gAnte/5
		for s := 1; s <= steps; s++ {
			gw := g - ((g-lo)*int64(s))/int64(steps)
			cases = append(cases, caseDef{name: "oog-ladder", msgs: cd.msgs, gas: gw})
		}
		cases = append(cases, caseDef{name: "oog-ladder", msgs: cd.msgs, gas: g - 1}, caseDef{name: "oog-ladder", msgs: cd.msgs, gas: g})
		// block-gas crossings: prefix tx by C + T. R = block gas left when T starts, as a percentage of T's measured gas:
		// 115 (fits), 96 / 88 (crosses by a little / more); T's own GasWanted (g+12.5%) is within the block limit
		// and enough for all its messages, so T is failed by the BLOCK limit only. (Gas depends a little on the state
		// the prefix leaves, and the part of the ante handler that runs before the tx gas meter is installed needs
		// ~1.7M of block gas: the outcome classes are observed, not assumed.)
		if !bgT[li] && r.Quick() {
			continue
		}
		fracs := []int64{115, 96, 88}
		if r.Thorough() {
			fracs = []int64{115, 100, 99, 97, 94, 90, 85, 80, 70}
		}
		for _, frac := range fracs {
			gw := g + g/8
			pk := 0
			for _, k := range []int{1, 2} {
				if limit := gPrefix[k] + g*frac/100; gw <= limit && gGenesis+gGenesis/20 <= limit {
					pk = k
					break
				}
			}
			if pk == 0 {
				r.Outcome("block-gas:infeasible-split-skipped")
				continue
			}
			limit := gPrefix[pk] + g*frac/100
			dep := len(lm) == 1 && deploys(lm[0])
			for _, probe := range []bool{false, true} {
				if probe && !dep && r.Quick() {
					continue
				}
				// a restarted third chain for the crossings of AddPackage / MsgRun
				rs := dep && (frac == 96 || r.Thorough())
				cases = append(cases, caseDef{name: fmt.Sprintf("block-gas-%d%%", frac), msgs: cd.msgs, gas: gw, maxGas: limit, prefix: pk, later: true, probe: probe, restart: rs})
			}
		}
	}
	r.Sample(map[string]any{"case": "pair{A}[call_write,call_panic_after_write]", "meaning": "tx with an ok message followed by a message that writes and panics; must leave only fee+sequence"})
	r.Sample(map[string]any{"case": "block-gas-96%{A}[addpkg_ok]+probe+later", "meaning": "second tx of a block whose gas crosses the block limit although GasWanted <= MaxGas; the package it deployed must not exist for the calls/re-deployment in the next blocks, on the same node and on a restarted one"})
	r.Sample(map[string]any{"case": "signers{A+B@session}[send_ok,send_ok@2,send_insufficient]", "meaning": "A pays the fee, B signs through a session key (its master account is only READ by the ante handler); B's send must be rolled back when A's last message fails"})
	sort.SliceStable(cases, func(i, j int) bool { return prio(cases[i]) < prio(cases[j]) })
	fam := map[string]int{}
	for _, c := range cases {
		fam[strings.SplitN(c.name, "-", 2)[0]]++
	}
	if dbg {
		fmt.Printf("DBG families %v\n", fam)
	}
	// tasks: the snapshot workers (static round-robin assignment => deterministic per-chain histories) + one task per
	// real-block case
	var realCases []caseDef
	snapCases := make([][]caseDef, nWorkers)
	for i := range cases {
		cases[i].inst = fmt.Sprintf("%04d", i)
		if cases[i].real() {
			cases[i].inst = "0000" // fresh chains: nothing to keep apart (and twins are shared between cases)
			realCases = append(realCases, cases[i])
		} else {
			k := i % nWorkers
			snapCases[k] = append(snapCases[k], cases[i])
		}
	}
	guard := func(cd caseDef, f func()) {
		if r.Expired() {
			r.MarkCapped()
			return
		}
		if rec := vk.Catch(f); rec != nil {
			viol("panic-while-checking:"+cd.label(), map[string]any{"panic": fmt.Sprint(rec)})
		}
	}
	r.ParFor(nWorkers+len(realCases), func(i int) {
		if i < nWorkers {
			if len(snapCases[i]) == 0 {
				return
			}
			Xc, Wc := newChain(0), newChain(0)
			Xc.BeginBlock()
			Wc.BeginBlock()
			for _, cd := range snapCases[i] {
				guard(cd, func() {
					cd.check(func() *trace { return cd.playSnap(Xc, false) }, func() *trace {
						w := cd.playSnap(Wc, true)
						cd.checkTwin(w)
						return w
					})
				})
			}
			return
		}
		cd := realCases[i-nWorkers]
		guard(cd, func() {
			cd.check(func() *trace { return cd.playReal(false, false, false) }, func() *trace {
				w := cd.twinReal()
				cd.checkTwin(w)
				return w
			})
		})
	})
	r.Assumptions = []string{
		"twin tx = same signers/signing mode/fee/gas with one bank send of insufficient funds per signer (the first fails in the handler before any write); its own ante-only-ness is checked by the independent decoded-key oracle",
		"state after a tx = every key written since the start of the history (snapshot families) / since BeginBlock (real-block families) in both stores, by effective value against the state below (cache layer); real-block families also compare app hashes and a full dump of both stores (every key/value) at the end of every history — in-memory caches are observed through follow-up txs' results, gas, write sets, and a restarted chain",
		"snapshot families: the chain state is rolled back between cases by dropping a cache-wrap layer, the VM's in-memory caches are not; package paths deployed by a case are unique to it; the block gas meter is infinite there",
		"gas-limited chains run with dynamic gas pricing off (auth TargetGasRatio = 0): the gas price written by the EndBlocker legitimately depends on the gas the failed tx burnt",
		"small scope: <=3 messages per tx, 11-entry message menu, 3 realms, one session (no expiry, lifetime spend limit far above every amount)",
		"ante handler rejections (no fee charged; includes a tx that finds too little block gas left to reach the point where the tx gas meter is installed) are not delivered-and-failed txs: they must change nothing",
	}
	if dbg {
		fmt.Printf("DBG time(s): chains=%.1f T=%.1f followups=%.1f dumps=%.1f\n", time.Duration(tChain.Load()).Seconds(), time.Duration(tT.Load()).Seconds(), time.Duration(tFU.Load()).Seconds(), time.Duration(tDump.Load()).Seconds())
	}
	twinN := 0
	twins.Range(func(_, _ any) bool { twinN++; return true })
	r.Finish("every tx of <=2 (quick) / <=3 with exactly one failing msg (thorough) messages over an 11-message menu (+ variants with earlier calls to the never-deployed paths), 3 multi-signer/session configurations x second-signer write x failing kind, out-of-gas ladders, block-gas crossings with follow-ups in later blocks; each executed on the real app and compared with an ante-only twin (and a restarted chain for a subset) through 13 follow-up txs; distinct = distinct (case, outcome class)",
		!r.Capped(), map[string]any{"states": nStates.Load(), "transitions": nTx.Load(), "traces_validated_against_impl": nTx.Load(), "cases": len(cases), "cases_per_family": fam,
			"cases_on_snapshots": len(cases) - len(realCases), "cases_with_real_blocks": len(realCases), "snapshots": nSnapshots.Load(),
			"chains_built": nChains.Load(), "restarts": nRestarts.Load(), "shared_twin_histories": twinN, "signer_configurations": len(cfgs), "followups_per_failed_tx": len(followUps)})
}
