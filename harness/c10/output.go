// C10 part (e): output metering — "every unit of output is charged".
//
// GnoVM Machine level (no app): every way a string can reach the output (print/println of the string itself, of a
// struct / pointer / slice / array / map / interface / declared type holding it, through String()/Error() methods,
// several arguments, the message of an unhandled panic, println of a recovered value) x string contents (plain, bytes
// that the quoted form escapes to 2x and 4x, quotes, multi-byte runes) x string sizes around the 1 KiB output buffer
// and far above it x K emissions. No expected gas numbers; the oracle is differential on the same tree:
//   - output is K-linear (the same value prints the same bytes every time);
//   - one more emission costs at least price x (bytes it emitted), price = the repo's per-output-byte constant;
//   - the marginal gas of an emission is monotone in the number of bytes emitted (same shape, same content);
//   - for every run, also out-of-gas ones: price x (bytes that reached the output) <= gas consumed up to the limit;
//   - GasWanted = need succeeds with identical figures; need-1, half-way and (price x bytes - 1) run out of gas.
package main

import (
	"errors"
	"fmt"
	"os"
	"runtime/debug"
	"runtime/pprof"
	"sort"
	"strings"
	"sync"

	gno "github.com/gnolang/gno/gnovm/pkg/gnolang"
	stypes "github.com/gnolang/gno/tm2/pkg/store/types"
)

type outShape struct {
	name  string
	setup string // statements executed once; `s` is the n-byte string
	emit  string // statement executed K times
	panik bool   // emit is a panic: K in {0,1}, the output is the unhandled-panic message
}

// declarations a shape may need (only the ones its setup mentions are emitted: preprocessing dominates the small cases)
var outDecls = []struct{ name, src string }{
	{"box2", "type box2 struct {\n\ta string\n\ti int\n\tb string\n}\n"},
	{"ibox", "type ibox struct{ v any }\n"},
	{"mbox", "type mbox struct{ m mystr }\n"},
	{"mystr", "type mystr string\n"},
	{"strT", "type strT struct{ s string }\n\nfunc (x strT) String() string { return x.s }\n"},
	{"errT", "type errT struct{ s string }\n\nfunc (x errT) Error() string { return x.s }\n"},
	{"box", "type box struct{ s string }\n"},
}

var outShapes = []outShape{
	{name: "println(s)", setup: "v := s", emit: "println(v)"},
	{name: "print(s)", setup: "v := s", emit: "print(v)"},
	{name: "println(struct{s})", setup: "v := box{s}", emit: "println(v)"},
	{name: "print(struct{s})", setup: "v := box{s}", emit: "print(v)"},
	{name: "println(&struct{s})", setup: "v := &box{s}", emit: "println(v)"},
	{name: "println([]string{short,s})", setup: `v := []string{"short", s}`, emit: "println(v)"},
	{name: "println([2]string{s,short})", setup: `v := [2]string{s, "short"}`, emit: "println(v)"},
	{name: "println(map[string]string{k:s})", setup: `v := map[string]string{"k": s}`, emit: "println(v)"},
	{name: "println(map[string]int{s:1})", setup: `v := map[string]int{s: 1}`, emit: "println(v)"},
	{name: "println(struct{any(s)})", setup: "v := ibox{s}", emit: "println(v)"},
	{name: "println(any(struct{s}))", setup: "var v any = box{s}", emit: "println(v)"},
	{name: "println([]struct{s}x2)", setup: "v := []box{{s}, {s}}", emit: "println(v)"},
	{name: "println(struct{s,int,s})", setup: "v := box2{s, 7, s}", emit: "println(v)"},
	{name: "println(declared-string)", setup: "v := mystr(s)", emit: "println(v)"},
	{name: "println(struct{declared-string})", setup: "v := mbox{mystr(s)}", emit: "println(v)"},
	{name: "println(Stringer)", setup: "v := strT{s}", emit: "println(v)"},
	{name: "println(error)", setup: "var v error = errT{s}", emit: "println(v)"},
	{name: "println([]Stringer)", setup: "v := []strT{{s}}", emit: "println(v)"},
	{name: "println([]byte(s))", setup: "v := []byte(s)", emit: "println(v)"},
	{name: "println(s,struct{s},s)", setup: "v := box{s}", emit: "println(s, v, s)"},
	{name: "println(short-x100,struct{s})", setup: `v := box{s}; p := "0123456789"`, emit: "println(p, p, p, p, p, p, p, p, p, p, p, p, p, p, p, p, p, p, p, p, p, p, p, p, p, p, p, p, p, p, p, p, p, p, p, p, p, p, p, p, p, p, p, p, p, p, p, p, p, p, p, p, p, p, p, p, p, p, p, p, p, p, p, p, p, p, p, p, p, p, p, p, p, p, p, p, p, p, p, p, p, p, p, p, p, p, p, p, p, p, v)"},
	{name: "recover->println(r)", setup: "v := box{s}", emit: "func() {\n\t\t\tdefer func() { println(recover()) }()\n\t\t\tpanic(v)\n\t\t}()"},
	{name: "panic(s)", setup: "v := s", emit: "panic(v)", panik: true},
	{name: "panic(struct{s})", setup: "v := box{s}", emit: "panic(v)", panik: true},
	{name: "panic([]string{short,s})", setup: `v := []string{"short", s}`, emit: "panic(v)", panik: true},
	{name: "panic(error)", setup: "var v error = errT{s}", emit: "panic(v)", panik: true},
}

type outContent struct{ name, unit string } // unit: 16 bytes

var outContents = []outContent{
	{"plain", "0123456789abcdef"},
	{"newlines(quoted x2)", strings.Repeat("\n", 16)},
	{"nul-bytes(quoted x4)", strings.Repeat("\x00", 16)},
	{"double-quotes", strings.Repeat(`"`, 16)},
	{"2-byte-runes", strings.Repeat("é", 8)},
}

func outSizes() []int {
	if e := os.Getenv("C10_OUT_SIZES"); e != "" { // profiling aid
		var l []int
		for _, f := range strings.Split(e, ",") {
			var n int
			fmt.Sscan(f, &n)
			l = append(l, n)
		}
		return l
	}
	return []int{0, 1, 1023, 1024, 1025, 4096, 64 << 10, 1 << 20}
}

func outProgram(sh outShape, ct outContent, n, k int) string {
	var b strings.Builder
	b.WriteString("package test\n\n")
	for _, d := range outDecls {
		if strings.Contains(sh.setup, d.name+"{") || strings.Contains(sh.setup, d.name+"(") {
			b.WriteString(d.src)
		}
	}
	fmt.Fprintf(&b, "\nvar K = %d\n\nfunc mk(n int) string {\n\ts := %q\n\tfor len(s) < n {\n\t\ts += s\n\t}\n\treturn s[:n]\n}\n\n", k, ct.unit)
	fmt.Fprintf(&b, "func main() {\n\ts := mk(%d)\n\t%s\n", n, sh.setup)
	if sh.panik {
		fmt.Fprintf(&b, "\tif K > 0 {\n\t\t%s\n\t}\n\t_ = v\n}\n", sh.emit)
	} else {
		fmt.Fprintf(&b, "\tfor i := 0; i < K; i++ {\n\t\t%s\n\t}\n\t_, _ = v, s\n}\n", sh.emit)
	}
	return b.String()
}

type countWriter struct{ n int64 }

func (w *countWriter) Write(p []byte) (int, error) { w.n += int64(len(p)); return len(p), nil }

type outRun struct {
	Class    string `json:"class"`     // ok | panic | oog | vm-panic
	Out      int64  `json:"out_bytes"` // bytes that reached the machine's output writer
	Msg      int64  `json:"panic_message_bytes"`
	Gas      int64  `json:"gas_consumed"`
	Limit    int64  `json:"gas_limit"`
	VMDetail string `json:"vm_panic,omitempty"`
}

func (o outRun) bytes() int64 { return o.Out + o.Msg }

const outAmple = int64(1) << 50

// outExec runs one program on a fresh machine (bare store, no stdlibs) under a gas limit.
func outExec(src string, limit int64) (res outRun) {
	gm := stypes.NewGasMeter(limit)
	w := &countWriter{}
	res.Limit = limit
	func() {
		var m *gno.Machine
		defer func() {
			if rec := recover(); rec != nil {
				switch e := rec.(type) {
				case stypes.OutOfGasError:
					res.Class = "oog"
				case gno.UnhandledPanicError:
					res.Class, res.Msg = "panic", int64(len(e.Descriptor))
				case *gno.UnhandledPanicError:
					res.Class, res.Msg = "panic", int64(len(e.Descriptor))
				case *gno.PreprocessError:
					// the limit was already crossed while preprocessing the file: the preprocessor wraps the meter's panic
					var oog stypes.OutOfGasError
					if errors.As(e, &oog) || strings.HasPrefix(e.Unwrap().Error(), "out of gas") {
						res.Class = "oog"
					} else {
						res.Class, res.VMDetail = "vm-panic", firstLine(fmt.Sprintf("%T: %v", rec, rec))
					}
				default:
					res.Class, res.VMDetail = "vm-panic", firstLine(fmt.Sprintf("%T: %v", rec, rec))
				}
			}
			if m != nil {
				vk_release(m)
			}
		}()
		m = gno.NewMachineWithOptions(gno.MachineOptions{PkgPath: "test", Output: w, GasMeter: gm, MaxAllocBytes: 500 * 1000 * 1000})
		fn := m.MustParseFile("main.gno", src)
		m.RunFiles(fn)
		m.RunMain()
		res.Class = "ok"
	}()
	res.Out, res.Gas = w.n, gm.GasConsumed()
	nTx.Add(1)
	r.Eval()
	return res
}

func vk_release(m *gno.Machine) {
	defer func() { recover() }()
	m.Release()
}

type outJob struct {
	sh outShape
	ct outContent
	n  int
	// results
	marg  int64 // gas of one emission (G_1 - G_0)
	bytes int64 // bytes of one emission
	ok    bool
}

func (j *outJob) label() string { return fmt.Sprintf("%s:%s:n=%d", j.sh.name, j.ct.name, j.n) }

func outJobRun(j *outJob, price int64) {
	label := j.label()
	ks := []int{0, 1, 3}
	wantClass := "ok"
	heavy := r.Quick() && j.n >= 1<<20 // quick: MiB strings are emitted twice per case only (quoting them is memmove-bound)
	if j.sh.panik || heavy {
		ks = []int{0, 1}
	}
	runs := make([]outRun, len(ks))
	src := map[int]string{}
	for i, k := range ks {
		src[k] = outProgram(j.sh, j.ct, j.n, k)
		runs[i] = outExec(src[k], outAmple)
		want := wantClass
		if j.sh.panik && k > 0 {
			want = "panic"
		}
		if runs[i].Class != want {
			if i == 0 {
				r.HarnessError("output program %s K=%d: %s %s\n%s", label, k, runs[i].Class, runs[i].VMDetail, src[k])
			}
			r.Violation("output-program-unexpected-end:"+label, map[string]any{"K": k, "run": runs[i], "expected": want, "source": src[k]})
			return
		}
	}
	det := func(extra map[string]any) map[string]any {
		d := map[string]any{"shape": j.sh.name, "content": j.ct.name, "string_bytes": j.n, "price_per_output_byte": price, "source(K=1)": src[1]}
		for i, k := range ks {
			d[fmt.Sprintf("ample_gas_run_K=%d", k)] = runs[i]
		}
		for k, v := range extra {
			d[k] = v
		}
		return d
	}
	if runs[0].bytes() != 0 {
		r.HarnessError("output program %s emits %d bytes with K=0", label, runs[0].bytes())
	}
	b1 := runs[1].bytes()
	if b1 < int64(j.n) && !strings.Contains(j.sh.name, "[]byte") {
		// every shape renders the whole string (the byte-slice form may abbreviate); otherwise the size menu is vacuous
		r.HarnessError("output program %s: one emission wrote %d bytes < string size", label, b1)
	}
	bad := false
	for i := 1; i < len(ks); i++ {
		if runs[i].bytes() != int64(ks[i])*b1 {
			r.Violation("output-not-linear-in-emissions:"+label, det(nil))
			bad = true
		}
		dG, dB := runs[i].Gas-runs[i-1].Gas, runs[i].bytes()-runs[i-1].bytes()
		if dG < price*dB {
			r.Violation("output-undercharged:"+label, det(map[string]any{"emissions": fmt.Sprintf("K=%d -> K=%d", ks[i-1], ks[i]), "extra_bytes_emitted": dB,
				"extra_gas_charged": dG, "minimum_expected": price * dB}))
			bad = true
			break
		}
	}
	for i := range runs {
		if price*runs[i].bytes() > runs[i].Gas {
			r.Violation("emitted-bytes-not-covered-by-gas-consumed:"+label, det(map[string]any{"K": ks[i]}))
			bad = true
			break
		}
	}
	j.marg, j.bytes, j.ok = runs[1].Gas-runs[0].Gas, b1, !bad
	top := runs[len(runs)-1]
	kTop := ks[len(ks)-1]
	// gas-limit ladder on the K=top program
	type lim struct {
		name string
		l    int64
		oog  bool
	}
	lims := []lim{{"need", top.Gas, false}, {"need-1", top.Gas - 1, true}, {"price*bytes-1", price*top.bytes() - 1, true}}
	if r.Quick() && (j.ct.name != outContents[0].name || heavy) {
		lims = lims[2:] // quick: the generic need / need-1 points (cf. part a) with the plain content only
	}
	if r.Thorough() {
		lims = append(lims, lim{"halfway", (runs[0].Gas + top.Gas) / 2, true})
	}
	classes := []string{}
	for _, l := range lims {
		if l.l <= 0 || l.l >= top.Gas && l.oog {
			if l.l >= top.Gas && l.oog && !bad {
				r.HarnessError("output %s: limit %s = %d >= need %d", label, l.name, l.l, top.Gas)
			}
			continue // (on an under-charging tree the explicit violation above already reported it)
		}
		o := outExec(src[kTop], l.l)
		classes = append(classes, l.name+"="+o.Class)
		d := det(map[string]any{"limit": l.name, "limited_run": o})
		r.Outcome("output:limit=" + l.name + "->" + o.Class)
		if !l.oog {
			if o.Class != top.Class || o.Gas != top.Gas || o.bytes() != top.bytes() {
				r.Violation("output-program-differs-at-gas-limit=need:"+label, d)
			}
			continue
		}
		if o.Class != "oog" {
			if l.name == "price*bytes-1" {
				r.Violation("program-emitted-more-output-than-its-gas-limit-pays-for:"+label, d)
			} else {
				r.Violation("no-out-of-gas-below-measured-need:"+label+"@"+l.name, d)
			}
			continue
		}
		if o.Gas <= l.l {
			r.Violation("out-of-gas-with-gas-consumed-within-limit:"+label+"@"+l.name, d)
		}
		if price*o.Out > l.l {
			r.Violation("out-of-gas-run-emitted-more-bytes-than-its-limit-pays-for:"+label+"@"+l.name, d)
		}
	}
	r.Distinct(fmt.Sprintf("output|%s|bytes=%d|%s", label, b1, strings.Join(classes, ",")))
	r.Outcome("output:" + top.Class)
}

var outStats struct {
	sync.Mutex
	jobs, maxBytes int64
}

func partOutput() {
	if g := os.Getenv("C10_OUT_GC"); g != "" { // profiling aid
		var n int
		fmt.Sscan(g, &n)
		debug.SetGCPercent(n)
	}
	if pf := os.Getenv("C10_OUT_PROF"); pf != "" { // profiling aid
		f, _ := os.Create(pf)
		pprof.StartCPUProfile(f)
		defer pprof.StopCPUProfile()
	}
	price := int64(gno.VerifStreamOutputGasPerByte)
	if price <= 0 {
		r.Violation("output-gas-price-per-byte-is-not-positive", map[string]any{"streamOutputGasPerByte": price})
		return
	}
	sizes := outSizes()
	var jobs []*outJob
	// heaviest first (big strings), so the tail of the pool is made of short jobs
	for si := len(sizes) - 1; si >= 0; si-- {
		n := sizes[si]
		for _, sh := range outShapes {
			for ci, ct := range outContents {
				if r.Quick() && (ci != 0 && ci != 2 && n != 1024 || ci == 2 && (n < 1023 || n >= 1<<20)) {
					continue // quick: plain at every size, the 4x-escaped content from 1023 bytes to 64 KiB, the other contents at the buffer size
				}
				jobs = append(jobs, &outJob{sh: sh, ct: ct, n: n})
			}
		}
	}
	// plain goroutines, not r.ParFor: this part always runs to the end (it is cheap), whatever the soft budget says
	const nw = 6
	var wg sync.WaitGroup
	next := make(chan *outJob)
	for w := 0; w < nw; w++ {
		wg.Add(1)
		go func() {
			defer wg.Done()
			for j := range next {
				outJobRun(j, price)
			}
		}()
	}
	for _, j := range jobs {
		next <- j
	}
	close(next)
	wg.Wait()
	// monotonicity of the marginal charge in the number of bytes emitted, per (shape, content)
	groups := map[string][]*outJob{}
	var maxB int64
	for _, j := range jobs {
		if j.ok {
			k := j.sh.name + ":" + j.ct.name
			groups[k] = append(groups[k], j)
			maxB = max(maxB, j.bytes)
		}
	}
	var gk []string
	for k := range groups {
		gk = append(gk, k)
	}
	sort.Strings(gk)
	var slopeMin, slopeMax float64 = 1e18, 0
	for _, k := range gk {
		g := groups[k]
		sort.Slice(g, func(a, b int) bool { return g[a].n < g[b].n })
		for i := 1; i < len(g); i++ {
			a, b := g[i-1], g[i]
			if b.bytes >= a.bytes && b.marg < a.marg {
				r.Violation("output-gas-not-monotone-in-bytes-emitted:"+k+fmt.Sprintf(":n=%d->%d", a.n, b.n), map[string]any{
					"smaller": map[string]int64{"string_bytes": int64(a.n), "bytes_per_emission": a.bytes, "gas_per_emission": a.marg},
					"larger":  map[string]int64{"string_bytes": int64(b.n), "bytes_per_emission": b.bytes, "gas_per_emission": b.marg}})
			}
			if b.bytes > a.bytes {
				s := float64(b.marg-a.marg) / float64(b.bytes-a.bytes)
				slopeMin, slopeMax = min(slopeMin, s), max(slopeMax, s)
			}
		}
	}
	r.Sample(map[string]any{"output_part": map[string]any{"shapes": len(outShapes), "contents": len(outContents), "string_sizes": sizes, "cases": len(jobs),
		"price_per_output_byte(repo constant)": price, "output_buffer_bytes": gno.VerifMeteredWriterBufSize, "max_bytes_per_emission": maxB,
		"observed_marginal_gas_per_extra_output_byte(min,max over shape/content/size steps)": []float64{slopeMin, slopeMax}}})
}
