// C10: gas metering is sound and consistent.
//
// Real gno.land app (engine chainx). Four explorations, all differential or invariant-based (no expected gas numbers):
//  (a) ladder: every tx of a 9-tx menu x a ladder of GasWanted values derived from its measured need G (G+10000, G+1,
//      G, G-1 ... G/4, 20000, 1000, 1), each from the same state on its own chain: success => GasUsed <= GasWanted;
//      out-of-gas only when GasWanted < G; below G - slack it MUST run out of gas; an out-of-gas tx leaves exactly
//      the ante effects (fee paid, sequence+1) or - when the ante handler itself ran out - nothing; the block meter is
//      charged min(GasUsed, GasWanted).
//  (b) determinism: the same tx from the same state on {fresh chain, second identical chain, after an unrelated failed
//      tx, after unrelated queries (+ after an app restart in thorough)} reports the identical result key
//      (error class, GasUsed, GasWanted, data+events).
//  (c) block accounting: all 24 orderings of a 4-tx menu {ok, ok 2 msgs, failing, out-of-gas} in one block under small
//      MaxGas values: after every DeliverTx the block meter moved by exactly min(GasUsed, GasWanted) of that tx; a tx
//      that crosses the limit fails; once the meter is exhausted every further DeliverTx fails with "no block gas
//      left", uses no gas and leaves the full state dump unchanged.
//  (e) output metering (output.go): every way a string reaches the output x contents x sizes x repetitions on bare
//      GnoVM machines: each extra emission is charged at least price x bytes emitted; limits below need run out of gas.
//  (d) termination: an unbounded-work program menu x gas limits 1e6..3e7 (1e8 thorough) in worker subprocesses under
//      an address-space cap: every run must end (error = out of gas or allocation limit), never succeed, never hang,
//      never exceed the memory cap, and charge the block meter at most GasWanted.
package main

import (
	"bufio"
	"encoding/json"
	"flag"
	"fmt"
	"os"
	"os/exec"
	"runtime/debug"
	"sort"
	"strings"
	"sync"
	"sync/atomic"
	"syscall"
	"time"

	"github.com/gnolang/gno/tm2/pkg/amino"
	abci "github.com/gnolang/gno/tm2/pkg/bft/abci/types"
	"github.com/gnolang/gno/tm2/pkg/sdk/bank"
	"github.com/gnolang/gno/tm2/pkg/std"
	"verif/engine/chainx"
	"verif/engine/vk"
)

const gasPath = "gno.land/r/verif/gas"

const realmSrc = `package gas

var (
	val   string
	items []*item
	cnt   int
)

type item struct{ s string }

func Write(cur realm, v string) string { val = v; return val }
func Read(cur realm) string            { return val }
func Peek() string                     { return val }
func Panic(cur realm)                  { val = "dirty"; items = append(items, &item{s: "dirty"}); panic("boom") }
func Loop(cur realm)                   { val = "loop"; for { cnt++ } }
func Grow(cur realm, n int) int {
	for i := 0; i < n; i++ {
		items = append(items, &item{s: "xxxxxxxxxxxxxxxxxxxxxxxxxxxxxxxxxxxxxxxxxxxxxxxx"})
	}
	return len(items)
}
func Fill(cur realm) {
	for i := 0; ; i++ {
		items = append(items, &item{s: "yyyyyyyyyyyyyyyyyyyyyyyyyyyyyyyy"})
	}
}
`

var (
	A, B, C = chainx.NewKey("c10-A"), chainx.NewKey("c10-B"), chainx.NewKey("c10-C")
	K       = []chainx.Key{chainx.NewKey("c10-K1"), chainx.NewKey("c10-K2"), chainx.NewKey("c10-K3"), chainx.NewKey("c10-K4")}
	keys    = append([]chainx.Key{A, B, C}, K...)
	r       *vk.Run
	nTx     atomic.Int64
	nChains atomic.Int64
	stateSet sync.Map
	nStates  atomic.Int64
)

const fee = int64(1_000_000)

func coins(n int64) std.Coins { return std.Coins{std.NewCoin("ugnot", n)} }

func newChain(maxGas int64) *chainx.Chain {
	s := chainx.Spec{Keys: keys, Fund: 1_000_000_000_000, MaxGas: maxGas}
	g := int64(100_000_000)
	if maxGas > 0 && maxGas < g {
		g = maxGas
	}
	s.GenesisTxs = []std.Tx{{
		Msgs:       []std.Msg{chainx.AddPkg(A.Addr, gasPath, map[string]string{"gas.gno": realmSrc})},
		Fee:        std.NewFee(g, std.NewCoin("ugnot", fee)),
		Signatures: []std.Signature{{}},
	}}
	c, err := chainx.New(chainx.NewMemPebble(), s)
	if err != nil {
		r.HarnessError("chain init: %v", err)
	}
	for _, tr := range c.Init.TxResponses {
		if tr.Error != nil {
			r.HarnessError("genesis tx failed: %v %s", tr.Error, tr.Log)
		}
	}
	nChains.Add(1)
	return c
}

// ---- tx menu -----------------------------------------------------------------------------------------------

type txDef struct {
	name      string
	fails     bool // fails for a reason other than gas when gas is ample
	alwaysOOG bool
	mk        func(s chainx.Key) []std.Msg
}

var menu = []txDef{
	{"send", false, false, func(s chainx.Key) []std.Msg {
		return []std.Msg{bank.MsgSend{FromAddress: s.Addr, ToAddress: C.Addr, Amount: coins(100)}}
	}},
	{"call_write", false, false, func(s chainx.Key) []std.Msg { return []std.Msg{chainx.Call(s.Addr, nil, gasPath, "Write", "hello")} }},
	{"call_read", false, false, func(s chainx.Key) []std.Msg { return []std.Msg{chainx.Call(s.Addr, nil, gasPath, "Read")} }},
	{"call_grow20", false, false, func(s chainx.Key) []std.Msg { return []std.Msg{chainx.Call(s.Addr, nil, gasPath, "Grow", "20")} }},
	{"addpkg", false, false, func(s chainx.Key) []std.Msg {
		return []std.Msg{chainx.AddPkg(s.Addr, "gno.land/r/verif/newpkg", map[string]string{"a.gno": "package newpkg\n\nvar X = 1\n\nfunc F(cur realm) int { X++; return X }\n"})}
	}},
	{"run", false, false, func(s chainx.Key) []std.Msg {
		return []std.Msg{chainx.Run(s.Addr, nil, "package main\n\nimport \""+gasPath+"\"\n\nfunc main(cur realm) { println(gas.Write(cross(cur), \"r\")) }\n")}
	}},
	{"send+call_write", false, false, func(s chainx.Key) []std.Msg {
		return []std.Msg{bank.MsgSend{FromAddress: s.Addr, ToAddress: C.Addr, Amount: coins(100)}, chainx.Call(s.Addr, nil, gasPath, "Write", "two")}
	}},
	{"call_panic", true, false, func(s chainx.Key) []std.Msg { return []std.Msg{chainx.Call(s.Addr, nil, gasPath, "Panic")} }},
	{"call_loop", true, true, func(s chainx.Key) []std.Msg { return []std.Msg{chainx.Call(s.Addr, nil, gasPath, "Loop")} }},
}

type obs struct {
	res         abci.ResponseDeliverTx
	pre, post   map[string]string
	blockBefore int64
	blockAfter  int64
}

func isOOG(res abci.ResponseDeliverTx) bool {
	_, ok := res.Error.(std.OutOfGasError)
	return ok
}

func errClass(res abci.ResponseDeliverTx) string {
	if res.Error == nil {
		return "ok"
	}
	return fmt.Sprintf("%T", res.Error)
}

func deliver(c *chainx.Chain, tx std.Tx, dump bool) obs {
	var o obs
	if dump {
		o.pre = c.Dump()
	}
	o.blockBefore, _, _ = c.Base.VerifBlockGas()
	o.res = c.DeliverTx(tx)
	o.blockAfter, _, _ = c.Base.VerifBlockGas()
	if dump {
		o.post = c.Dump()
		if _, loaded := stateSet.LoadOrStore(chainx.HashDump(o.post), true); !loaded {
			nStates.Add(1)
		}
	}
	nTx.Add(1)
	return o
}

// runCase: fresh chain, prefix tx P by C (creates the fee collector), condition, then T by A with GasWanted gw.
func runCase(t txDef, gw int64, cond string) obs {
	c := newChain(0)
	if rs, _ := c.Block(c.MakeTx(keys, []std.Msg{bank.MsgSend{FromAddress: C.Addr, ToAddress: B.Addr, Amount: coins(7)}}, chainx.TxOpt{})); rs[0].Error != nil {
		r.HarnessError("prefix tx failed: %s", rs[0].Log)
	}
	nTx.Add(1)
	switch cond {
	case "after-failed-tx":
		rs, _ := c.Block(c.MakeTx(keys, []std.Msg{chainx.Call(B.Addr, nil, gasPath, "Panic")}, chainx.TxOpt{}))
		nTx.Add(1)
		if rs[0].Error == nil {
			r.HarnessError("unrelated failing tx succeeded")
		}
	case "after-queries":
		for _, q := range [][2]string{{"vm/qeval", gasPath + ".Peek()"}, {"vm/qfile", gasPath}, {"vm/qfile", gasPath + "/gas.gno"}, {"vm/qfuncs", gasPath},
			{"vm/qeval", gasPath + ".val"}, {"vm/qstorage", gasPath}, {"auth/accounts/" + A.Addr.String(), ""}} {
			c.Query(q[0], []byte(q[1]))
		}
	case "after-restart":
		if err := c.Restart(); err != nil {
			r.HarnessError("restart: %v", err)
		}
	}
	c.BeginBlock()
	o := deliver(c, c.MakeTx(keys, t.mk(A), chainx.TxOpt{GasWanted: gw}), true)
	c.EndBlockCommit()
	return o
}

func show(k string) string {
	var b strings.Builder
	for _, c := range []byte(k) {
		if c >= 32 && c < 127 {
			b.WriteByte(c)
		} else {
			fmt.Fprintf(&b, "\\x%02x", c)
		}
	}
	return b.String()
}

// effects classifies the state change of a failed tx: "none", "ante-only" (signer seq+1 and coins-fee, collector
// +fee) or a description of anything else.
func effects(pre, post map[string]string, signer chainx.Key) string {
	signerKey := "main//a/" + string(signer.Addr[:])
	var changed []string
	for k, v := range post {
		if pre[k] != v {
			changed = append(changed, k)
		}
	}
	for k := range pre {
		if _, ok := post[k]; !ok {
			changed = append(changed, k)
		}
	}
	if len(changed) == 0 {
		return "none"
	}
	sort.Strings(changed)
	sawSigner := false
	for _, k := range changed {
		switch {
		case k == signerKey:
			var a0, a1 std.Account
			if amino.Unmarshal([]byte(pre[k]), &a0) != nil || amino.Unmarshal([]byte(post[k]), &a1) != nil {
				return "signer account undecodable"
			}
			if a1.GetSequence() != a0.GetSequence()+1 || !a1.GetCoins().IsEqual(a0.GetCoins().Sub(coins(fee))) {
				return fmt.Sprintf("signer %v/%d -> %v/%d", a0.GetCoins(), a0.GetSequence(), a1.GetCoins(), a1.GetSequence())
			}
			sawSigner = true
		case strings.HasPrefix(k, "main//a/") && len(k) == len(signerKey):
			var a0, a1 std.Account
			if amino.Unmarshal([]byte(pre[k]), &a0) != nil || amino.Unmarshal([]byte(post[k]), &a1) != nil {
				return "collector undecodable"
			}
			if !a1.GetCoins().IsEqual(a0.GetCoins().Add(coins(fee))) {
				return fmt.Sprintf("account %x: %v -> %v is not +fee", k[len("main//a/"):], a0.GetCoins(), a1.GetCoins())
			}
		default:
			return "non-ante key changed: " + show(k)
		}
	}
	if !sawSigner {
		return "collector changed without signer"
	}
	return "ante-only"
}

func firstLine(s string) string {
	s = strings.Join(strings.Fields(s), " ")
	if len(s) > 300 {
		s = s[:300]
	}
	return s
}

const slack = 8 * 10 // the tx encodes GasWanted as a varint: at most 8 bytes difference x TxSizeCostPerByte (10)

func partLadderAndDeterminism() {
	// measure G on a fresh chain with ample gas
	type meas struct {
		o obs
		G int64
	}
	ms := make([]meas, len(menu))
	r.ParFor(len(menu), func(i int) {
		o := runCase(menu[i], 50_000_000, "fresh")
		ms[i] = meas{o, o.res.GasUsed}
		r.Eval()
		if menu[i].alwaysOOG {
			if !isOOG(o.res) {
				r.Violation("unbounded-loop-did-not-run-out-of-gas:"+menu[i].name, map[string]any{"result": chainx.ResKey(o.res)})
			}
		} else if (o.res.Error != nil) != menu[i].fails {
			r.HarnessError("menu tx %s: unexpected result %s %s", menu[i].name, errClass(o.res), firstLine(o.res.Log))
		}
	})
	r.Sample(map[string]any{"measured_gas": func() map[string]int64 {
		m := map[string]int64{}
		for i, t := range menu {
			m[t.name] = ms[i].G
		}
		return m
	}()})
	type cs struct {
		ti   int
		gw   int64
		cond string
	}
	var cases []cs
	for i, t := range menu {
		G := ms[i].G
		var pts []int64
		if t.alwaysOOG {
			pts = []int64{10_000_000, 1_000_000, 1}
		} else {
			pts = []int64{G + 10_000, G, G - slack - 1, G / 2, 1}
			if r.Thorough() {
				pts = append(pts, G+1, G-1, 20_000, 1_000)
				for k := int64(1); k < 32; k++ {
					pts = append(pts, G*k/32)
				}
			}
		}
		for _, p := range pts {
			if p > 0 {
				cases = append(cases, cs{i, p, "fresh"})
			}
		}
		conds := []string{"fresh", "after-failed-tx", "after-queries"}
		if r.Thorough() || i == 1 {
			conds = append(conds, "after-restart")
		}
		for _, c := range conds {
			cases = append(cases, cs{i, 50_000_000, c})
		}
	}
	var maxOver atomic.Int64
	r.ParFor(len(cases), func(ci int) {
		c := cases[ci]
		t := menu[c.ti]
		G := ms[c.ti].G
		o := runCase(t, c.gw, c.cond)
		r.Eval()
		label := fmt.Sprintf("%s@%s", t.name, ladderLabel(c.gw, G, t))
		det := map[string]any{"tx": t.name, "gas_wanted": c.gw, "measured_need": G, "condition": c.cond, "result": chainx.ResKey(o.res), "log": firstLine(o.res.Log)}
		if c.gw == 50_000_000 {
			// (b) determinism
			r.Distinct("det|" + t.name + "|" + c.cond)
			if a, b := chainx.ResKey(ms[c.ti].o.res), chainx.ResKey(o.res); a != b {
				det["fresh_chain_result"] = a
				r.Violation("gas-or-result-differs:"+t.name+":"+c.cond, det)
			} else {
				r.Outcome("deterministic:" + c.cond)
			}
			if chainx.HashDump(o.post) != chainx.HashDump(ms[c.ti].o.post) && c.cond == "fresh" {
				r.Violation("state-differs-on-identical-chain:"+t.name, det)
			}
			return
		}
		// (a) ladder
		eff := "n/a"
		if o.res.Error != nil {
			eff = effects(o.pre, o.post, A)
		}
		class := errClass(o.res)
		r.Distinct("ladder|" + label + "|" + class + "|" + eff)
		r.Outcome(fmt.Sprintf("ladder:%s:effects=%s", class, eff))
		charged := o.blockAfter - o.blockBefore
		det["block_meter_delta"] = charged
		if o.res.Error != nil && o.res.GasWanted != c.gw {
			// the tx was rejected by the ante handler: the response must still carry the tx's own gas figures
			r.Outcome(fmt.Sprintf("ladder:ante-abort:reported-gasWanted=%d", o.res.GasWanted))
			if eff != "none" {
				det["effects"] = eff
				r.Violation("ante-aborted-tx-has-effects:"+label, det)
			}
			det["note"] = "the ante handler's own result said GasWanted=tx value and GasUsed=its meter (see log); runTx's deferred epilogue overwrites both from the pre-ante context"
			r.Violation("ante-aborted-tx-reports-gas-wanted-0-and-pre-ante-gas-used-and-charges-it-to-the-block", det)
			return
		}
		if o.res.GasWanted != c.gw {
			r.Violation("reported-gas-wanted-differs:"+label, det)
		}
		want := min(o.res.GasUsed, c.gw)
		if charged != want {
			r.Violation("block-meter-not-charged-min(used,wanted):"+label, det)
		}
		switch {
		case o.res.Error == nil:
			if o.res.GasUsed > c.gw {
				r.Violation("successful-tx-gas-used-exceeds-gas-wanted:"+label, det)
			}
			if c.gw < G-slack || t.fails {
				r.Violation("tx-succeeded-with-less-gas-than-it-needs:"+label, det)
			}
		case isOOG(o.res):
			if c.gw >= G && !t.alwaysOOG {
				r.Violation("out-of-gas-although-gas-wanted-covers-need:"+label, det)
			}
			if o.res.GasUsed < c.gw {
				r.Violation("out-of-gas-reported-with-gas-used-below-gas-wanted:"+label, det)
			}
			over := o.res.GasUsed - c.gw
			for {
				m := maxOver.Load()
				if over <= m || maxOver.CompareAndSwap(m, over) {
					break
				}
			}
			if over > 0 {
				r.Outcome("obs:oog-reports-gasUsed>gasWanted(crossing charge)")
			}
			if eff != "ante-only" && eff != "none" {
				det["effects"] = eff
				r.Violation("out-of-gas-tx-has-non-ante-effects:"+label, det)
			}
		default:
			if !t.fails || c.gw < G-slack {
				// a tx that needs G must run out of gas below G; other errors are only legitimate for the failing menu tx with enough gas
				det["effects"] = eff
				r.Violation("unexpected-error-class:"+label+":"+class, det)
			}
			if eff != "ante-only" && eff != "none" {
				det["effects"] = eff
				r.Violation("failed-tx-has-non-ante-effects:"+label, det)
			}
		}
	})
	r.Sample(map[string]any{"max_gasUsed_minus_gasWanted_on_out_of_gas": maxOver.Load()})
}

func ladderLabel(gw, G int64, t txDef) string {
	if t.alwaysOOG {
		return fmt.Sprint(gw)
	}
	switch {
	case gw == G+10_000:
		return "G+10000"
	case gw == G+1:
		return "G+1"
	case gw == G:
		return "G"
	case gw == G-1:
		return "G-1"
	case gw == G-slack-1:
		return "G-slack-1"
	case gw <= 20_000:
		return fmt.Sprint(gw)
	}
	return fmt.Sprintf("G*%d/32", gw*32/G)
}

// ---- (c) block accounting -------------------------------------------------------------------------------------

func perms(n int) [][]int {
	var out [][]int
	var rec func(cur []int, used int)
	rec = func(cur []int, used int) {
		if len(cur) == n {
			out = append(out, append([]int{}, cur...))
			return
		}
		for i := 0; i < n; i++ {
			if used&(1<<i) == 0 {
				rec(append(cur, i), used|1<<i)
			}
		}
	}
	rec(nil, 0)
	return out
}

const loopGas = 1_000_000 // GasWanted of the out-of-gas tx (the ante handler alone needs ~0.62M)

func partBlock() {
	// the 4-tx menu, one signer each
	bm := []int{1, 6, 7, 8} // call_write, send+call_write, call_panic, call_loop (none of them grows the state: the orderings share a chain)
	// measure each alone
	G := make([]int64, 4)
	r.ParFor(4, func(i int) {
		c := newChain(0)
		c.BeginBlock()
		gw := int64(50_000_000)
		if menu[bm[i]].alwaysOOG {
			gw = loopGas
		}
		o := deliver(c, c.MakeTx(keys, menu[bm[i]].mk(K[i]), chainx.TxOpt{GasWanted: gw}), false)
		G[i] = min(o.res.GasUsed, gw)
	})
	gws := []int64{G[0] + 300_000, G[1] + 300_000, G[2] + 300_000, loopGas}
	total := G[0] + G[1] + G[2] + loopGas
	r.Sample(map[string]any{"block_menu_gas": G, "gas_wanted": gws, "sum": total})
	floor := max(gws[0], gws[1], gws[2], gws[3]) + 1 // the ante handler rejects GasWanted > MaxGas outright
	maxGs := []int64{max(total*60/100, floor), max(total*35/100, floor), total + 1_000, floor}
	// The block gas limit is a genesis consensus parameter, so there is one chain per limit; the orderings run in
	// successive blocks of it (state grows a little from block to block, hence the generous GasWanted margins above;
	// nothing below depends on measured numbers except which tx is expected to fail).
	orders := perms(4)
	r.ParFor(len(maxGs), func(mi int) {
		maxGas := maxGs[mi]
		c := newChain(maxGas)
		for oi, perm := range orders {
			if r.Quick() && mi >= 2 && oi%2 == 1 {
				continue // quick: the two extra limits on half of the orderings
			}
			if !blockCase(c, perm, bm, gws, maxGas, total) {
				return
			}
		}
	})
}

func blockCase(c *chainx.Chain, perm, bm []int, gws []int64, maxGas, total int64) bool {
	c.BeginBlock()
	var names []string
	for _, i := range perm {
		names = append(names, menu[bm[i]].name)
	}
	label := fmt.Sprintf("maxGas=%d%%[%s]", maxGas*100/total, strings.Join(names, ","))
	r.Eval()
	var sum int64
	if b, _, _ := c.Base.VerifBlockGas(); b != 0 {
		r.Violation("block-meter-not-reset-in-next-block:"+label, map[string]any{"meter": b})
		return false
	}
	exhaustedSeen := false
	for pos, i := range perm {
		before, limit, ok := c.Base.VerifBlockGas()
		if !ok || limit != maxGas {
			r.HarnessError("block gas meter: ok=%v limit=%d", ok, limit)
		}
		if before != sum {
			r.Violation("block-meter-differs-from-sum-of-charges:"+label, map[string]any{"position": pos, "meter": before, "sum": sum})
			return false
		}
		exhausted := before >= limit
		o := deliver(c, c.MakeTx(keys, menu[bm[i]].mk(K[i]), chainx.TxOpt{GasWanted: gws[i]}), true)
		after := o.blockAfter
		det := map[string]any{"case": label, "position": pos, "tx": menu[bm[i]].name, "meter_before": before, "meter_after": after, "limit": limit,
			"result": chainx.ResKey(o.res), "log": firstLine(o.res.Log), "chain_height": c.Height + 1}
		if exhausted {
			exhaustedSeen = true
			r.Outcome("block:exhausted->" + errClass(o.res))
			if !isOOG(o.res) { // std.ErrOutOfGas("no block gas left to run tx"); the message is not carried in the response
				r.Violation("tx-processed-after-block-gas-exhausted:"+label, det)
				return false
			}
			if o.res.GasUsed != 0 || after != before || chainx.HashDump(o.pre) != chainx.HashDump(o.post) {
				det["diff"] = chainx.DiffDump(o.pre, o.post)
				r.Violation("rejected-tx-after-exhaustion-changed-state-or-meter:"+label, det)
				return false
			}
			continue
		}
		if o.res.Error != nil && o.res.GasWanted != gws[i] {
			// rejected before the tx got its own meter: the gno.land ante wrapper reads the vm params (metered, ~1.6M gas)
			// against the remaining block gas; with less than that left the tx is refused and the block meter filled up
			r.Outcome("block:remaining-gas-below-pre-ante-cost->" + errClass(o.res))
			if e := effects(o.pre, o.post, K[i]); !isOOG(o.res) || e != "none" || after != limit {
				det["effects"] = e
				r.Violation("tx-rejected-before-its-own-meter-but-not-cleanly:"+label, det)
				return false
			}
			sum = after
			continue
		}
		charge := min(o.res.GasUsed, gws[i])
		sum += charge
		if after != before+charge {
			r.Violation("block-meter-delta-is-not-min(used,wanted):"+label, det)
			return false
		}
		if before+charge > limit {
			r.Outcome("block:crossing->" + errClass(o.res))
			if o.res.Error == nil {
				r.Violation("tx-crossing-block-gas-limit-succeeded:"+label, det)
				return false
			}
			if e := effects(o.pre, o.post, K[i]); e != "ante-only" && e != "none" {
				det["effects"] = e
				r.Violation("tx-crossing-block-gas-limit-kept-effects:"+label, det)
				return false
			}
		} else {
			r.Outcome("block:within->" + errClass(o.res))
			if (o.res.Error != nil) != menu[bm[i]].fails {
				r.Violation("tx-within-block-gas-limit-has-unexpected-result:"+label, det)
				return false
			}
		}
	}
	r.Distinct(fmt.Sprintf("block|%s|exhausted=%v", label, exhaustedSeen))
	c.EndBlockCommit()
	return true
}

// ---- (d) termination workers -------------------------------------------------------------------------------------

type prog struct {
	name, kind, src string // kind: run | call
}

var progs = []prog{
	{"for{}", "run", "package main\n\nfunc main() {\n\tfor {\n\t}\n}\n"},
	{"deep-recursion", "run", "package main\n\nfunc f(n int) int { return f(n+1) + 1 }\n\nfunc main() { println(f(0)) }\n"},
	{"append-doubling", "run", "package main\n\nfunc main() {\n\ts := []int{1}\n\tfor {\n\t\ts = append(s, s...)\n\t}\n}\n"},
	{"string-doubling", "run", "package main\n\nfunc main() {\n\ts := \"x\"\n\tfor {\n\t\ts += s\n\t}\n}\n"},
	{"const-shift-500-in-loop", "run", "package main\n\nfunc main() {\n\tn := 0\n\tfor {\n\t\tn += (1 << 500) >> 490\n\t}\n}\n"},
	{"const-shift-1e5(rejected statically)", "run", "package main\n\nconst X = (1 << 100000) >> 99990\n\nfunc main() {\n\tfor {\n\t\tprintln(X)\n\t}\n}\n"},
	{"const-mul-chain(rejected statically)", "run", "package main\n\nconst (\n\tA = 1 << 500\n\tB = A * A * A * A * A * A * A * A\n)\n\nfunc main() {\n\tfor {\n\t\tprintln(B > 0)\n\t}\n}\n"},
	{"runtime-shift-loop", "run", "package main\n\nfunc main() {\n\tvar n uint64 = 1\n\tfor i := uint(0); ; i++ {\n\t\tn = n<<(i%64) | 1\n\t}\n}\n"},
	{"map-growth", "run", "package main\n\nfunc main() {\n\tm := map[int]int{}\n\tfor i := 0; ; i++ {\n\t\tm[i] = i\n\t}\n}\n"},
	{"storage-write-loop", "call", "Fill"},
	{"defer-in-loop", "run", "package main\n\nfunc main() {\n\tfor {\n\t\tdefer func() {}()\n\t}\n}\n"},
	{"strings.Repeat-doubling", "run", "package main\n\nimport \"strings\"\n\nfunc main() {\n\ts := \"x\"\n\tfor {\n\t\ts = strings.Repeat(s, 2)\n\t}\n}\n"},
	{"closure-chain", "run", "package main\n\nfunc main() {\n\tf := func() int { return 1 }\n\tfor {\n\t\tg := f\n\t\tf = func() int { return g() + 1 }\n\t}\n}\n"},
	{"goto-loop", "run", "package main\n\nfunc main() {\n\ti := 0\nL:\n\ti++\n\tgoto L\n}\n"},
}

func gasLimits() []int64 {
	l := []int64{1_000_000, 3_000_000, 10_000_000, 30_000_000}
	if r != nil && r.Thorough() || os.Getenv("C10_THOROUGH") != "" {
		l = append(l, 100_000_000)
	}
	return l
}

type wres struct {
	Prog      string `json:"prog"`
	Gas       int64  `json:"gas"`
	Err       string `json:"err"`
	Log       string `json:"log"`
	GasUsed   int64  `json:"gas_used"`
	GasWanted int64  `json:"gas_wanted"`
	Charged   int64  `json:"charged"`
	Effects   string `json:"effects"`
	HWMkB     int64  `json:"hwm_kb"`
	Millis    int64  `json:"millis"`
}

const memCapBytes = 12 << 30 // address-space cap of a worker
const hwmLimitKB = 4 << 20   // resident high-water mark allowed: 4 GiB (VM allocation limit is 500 MB of accounted bytes)

func vmHWM() int64 {
	f, err := os.Open("/proc/self/status")
	if err != nil {
		return -1
	}
	defer f.Close()
	sc := bufio.NewScanner(f)
	for sc.Scan() {
		if strings.HasPrefix(sc.Text(), "VmHWM:") {
			var kb int64
			fmt.Sscan(strings.TrimSpace(strings.TrimSuffix(strings.TrimPrefix(sc.Text(), "VmHWM:"), "kB")), &kb)
			return kb
		}
	}
	return -1
}

// worker: several programs x all gas limits on one chain (every run fails, so only fees/sequence change between runs);
// prints one JSON line per run.
func worker(list string) {
	lim := syscall.Rlimit{Cur: memCapBytes, Max: memCapBytes}
	syscall.Setrlimit(syscall.RLIMIT_AS, &lim)
	r = &vk.Run{}
	c := newChain(-1)
	for _, f := range strings.Split(list, ",") {
		var pi int
		fmt.Sscan(f, &pi)
		p := progs[pi]
		for _, g := range gasLimits() {
			var msg std.Msg
			if p.kind == "run" {
				msg = chainx.Run(A.Addr, nil, p.src)
			} else {
				msg = chainx.Call(A.Addr, nil, gasPath, p.src)
			}
			c.BeginBlock()
			t0 := time.Now()
			o := deliver(c, c.MakeTx(keys, []std.Msg{msg}, chainx.TxOpt{GasWanted: g}), true)
			ms := time.Since(t0).Milliseconds()
			c.EndBlockCommit()
			w := wres{Prog: p.name, Gas: g, Err: errClass(o.res), Log: firstLine(o.res.Log), GasUsed: o.res.GasUsed, GasWanted: o.res.GasWanted,
				Charged: o.blockAfter - o.blockBefore, HWMkB: vmHWM(), Millis: ms}
			if o.res.Error != nil {
				w.Effects = effects(o.pre, o.post, A)
			}
			b, _ := json.Marshal(w)
			fmt.Println("WRES " + string(b))
		}
	}
}

func partTermination() {
	self, err := os.Executable()
	if err != nil {
		r.HarnessError("executable: %v", err)
	}
	limits := gasLimits()
	var mu sync.Mutex
	var maxHWM, maxMs int64
	const nWorkers = 4 // each holds a chain + up to the VM allocation limit
	var wg sync.WaitGroup
	for wi := 0; wi < nWorkers; wi++ {
		wg.Add(1)
		go func(wi int) {
			defer wg.Done()
			var todo []int
			for pi := wi; pi < len(progs); pi += nWorkers {
				todo = append(todo, pi)
			}
			for len(todo) > 0 {
				var ls []string
				for _, pi := range todo {
					ls = append(ls, fmt.Sprint(pi))
				}
				cmd := exec.Command(self, "-worker", strings.Join(ls, ","))
				env := os.Environ()
				if r.Thorough() {
					env = append(env, "C10_THOROUGH=1")
				}
				cmd.Env = append(env, "GOMAXPROCS=2")
				out, _ := cmd.StdoutPipe()
				if err := cmd.Start(); err != nil {
					r.HarnessError("start worker: %v", err)
				}
				// hang detection only (not an oracle for passing): very generous, proportional to the work
				timeout := 20*time.Minute + time.Duration(int64(len(todo))*limits[len(limits)-1]/1_000_000)*6*time.Second
				timer := time.AfterFunc(timeout, func() { cmd.Process.Kill() })
				got := map[string]wres{}
				sc := bufio.NewScanner(out)
				sc.Buffer(make([]byte, 1<<20), 1<<20)
				for sc.Scan() {
					if line := sc.Text(); strings.HasPrefix(line, "WRES ") {
						var w wres
						if json.Unmarshal([]byte(line[5:]), &w) == nil {
							got[fmt.Sprintf("%s@%d", w.Prog, w.Gas)] = w
						}
					}
				}
				werr := cmd.Wait()
				timer.Stop()
				next := []int(nil)
				for ti, pi := range todo {
					p := progs[pi]
					died := false
					for _, g := range limits {
						label := fmt.Sprintf("%s@gas=%d", p.name, g)
						w, ok := got[fmt.Sprintf("%s@%d", p.name, g)]
						if !ok {
							r.Eval()
							r.Outcome("termination:WORKER-DIED-OR-HUNG")
							r.Violation("program-did-not-terminate-within-caps:"+label, map[string]any{"worker_error": fmt.Sprint(werr), "source": p.src,
								"caps": fmt.Sprintf("address space %d GiB, watchdog %s", memCapBytes>>30, timeout)})
							died = true
							break
						}
						r.Eval()
						nTx.Add(1)
						det := map[string]any{"program": p.name, "source": p.src, "run": w}
						cls := w.Err
						if strings.Contains(w.Log, "allocation limit exceeded") {
							cls = "allocation-limit"
						}
						r.Outcome("termination:" + cls)
						r.Distinct("term|" + label + "|" + cls)
						mu.Lock()
						maxHWM, maxMs = max(maxHWM, w.HWMkB), max(maxMs, w.Millis)
						mu.Unlock()
						if w.Err != "ok" && w.GasWanted != g {
							r.Outcome("termination:rejected-by-ante-handler(gas below ante cost)") // reporting defect of ante aborts: see part (a)
							continue
						}
						if w.Err == "ok" {
							r.Violation("unbounded-program-succeeded:"+label, det)
							continue
						}
						if w.Charged > g {
							r.Violation("block-meter-charged-more-than-gas-wanted:"+label, det)
						}
						if w.Effects != "ante-only" && w.Effects != "none" {
							r.Violation("failed-unbounded-program-has-non-ante-effects:"+label, det)
						}
						if w.HWMkB > hwmLimitKB {
							r.Violation("memory-high-water-mark-above-cap:"+label, det)
						}
						if w.Err != "std.OutOfGasError" && cls != "allocation-limit" {
							// e.g. static rejection of an over-wide constant: terminates, but not through metering — record the class
							r.Outcome("termination:other-error:" + p.name + ":" + w.Err)
						}
					}
					if died {
						next = todo[ti+1:] // the remaining programs get a new worker
						break
					}
				}
				todo = next
			}
		}(wi)
	}
	wg.Wait()
	fmt.Printf("termination: max resident high-water mark %d kB (limit %d kB)\n", maxHWM, int64(hwmLimitKB))
	r.Sample(map[string]any{"termination_resident_limit_kB": int64(hwmLimitKB), "programs": len(progs), "gas_limits": limits})
	_ = maxMs
}

func main() {
	debug.SetGCPercent(400)
	wk := flag.String("worker", "", "worker mode: comma-separated program indices")
	if len(os.Args) > 2 && os.Args[1] == "-worker" {
		flag.Parse()
		worker(*wk)
		return
	}
	r = vk.New("exploration")
	r.SetBudget(6*time.Minute, 28*time.Minute)
	only := os.Getenv("C10_ONLY")
	var wg sync.WaitGroup
	if only == "" || only == "e" {
		wg.Add(1)
		go func() { defer wg.Done(); partOutput() }()
	}
	if only == "" || only == "d" {
		wg.Add(1)
		go func() { defer wg.Done(); partTermination() }()
	}
	if only == "" || only == "a" {
		partLadderAndDeterminism()
	}
	if only == "" || only == "c" {
		partBlock()
	}
	wg.Wait()
	r.Assumptions = []string{
		"reading of 'gas used <= gas wanted': it binds successful txs; an out-of-gas tx reports the raw meter value including the charge that crossed the limit (basicGasMeter.ConsumeGas: 'consume gas even if out of gas'), while the amount charged to the block meter is GasConsumedToLimit = GasWanted — both checked",
		"an out-of-gas inside the ante handler (GasWanted below the tx-size/signature costs) leaves no effect at all (the fee cannot be taken before the signature is verified): accepted as 'none'",
		"the ladder is relative to the need G measured with ample gas on an identical chain; GasWanted is varint-encoded in the tx, so the need varies by at most 8 bytes x TxSizeCostPerByte (slack 80)",
		"output part: bytes emitted = bytes reaching the machine's output writer plus, for an unhandled panic, the length of the rendered message; the per-byte price is the repo's constant streamOutputGasPerByte, read through a build-overlay export",
		"VM cycle counts are not observable through ABCI: the work bound is expressed in gas (CPU cycles are charged 1:1 through incrCPU) plus a resident-memory high-water mark; the watchdog only detects hangs",
	}
	r.Finish("(a) 9-tx menu x 11-point GasWanted ladder (thorough +31 points) each on its own chain; (b) each tx under 3-4 history conditions vs fresh chain; (c) all 24 orderings of a 4-tx block menu x 2-4 block gas limits (one chain per limit, one block per ordering); (d) 14 unbounded programs x 4 (5) gas limits in capped worker processes; (e) output metering on bare GnoVM machines: 26 output shapes x 5 string contents x 8 string sizes 0..1 MiB (quick: 416 of the 1040 cases) x K in {0,1,3} emissions x gas limits {need, need-1, price*bytes-1}; distinct = distinct (case, outcome class)",
		true, map[string]any{"transactions": nTx.Load(), "chains": nChains.Load(), "distinct_states": nStates.Load()})
}
