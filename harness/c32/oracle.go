package main

// Spec re-implementation of block validation (the oracle). Deliberately boring and independent:
//  * own RFC-6962 style merkle (no tm2 merkle),
//  * signature validity decided by a table of statements the fixture's validators really signed
//    (no canonicalisation / amino / ed25519 verification code shared with the implementation),
//  * declarative weighted median, declarative quorum (3*tallied > 2*total).
// Trusted inputs: the sm.State the block is validated against (expected hashes are read from it),
// amino encoding of a CommitSig (leaf bytes of LastCommitHash), SHA-256.

import (
	"bytes"
	"crypto/sha256"
	"fmt"
	"sort"
	"sync"
	"time"

	"github.com/gnolang/gno/tm2/pkg/amino"
	sm "github.com/gnolang/gno/tm2/pkg/bft/state"
	"github.com/gnolang/gno/tm2/pkg/bft/types"
)

// ---- merkle (RFC 6962 split, 0x00 leaf prefix, 0x01 inner prefix; empty => nil) ----

func specMerkle(items [][]byte) []byte {
	switch len(items) {
	case 0:
		return nil
	case 1:
		h := sha256.Sum256(append([]byte{0}, items[0]...))
		return h[:]
	}
	k := 1
	for k*2 < len(items) {
		k *= 2
	}
	l, r := specMerkle(items[:k]), specMerkle(items[k:])
	h := sha256.Sum256(append(append([]byte{1}, l...), r...))
	return h[:]
}

func specCommitHash(c *types.Commit) []byte {
	leaves := make([][]byte, len(c.Precommits))
	for i, p := range c.Precommits {
		if p != nil {
			leaves[i] = amino.MustMarshal(p)
		}
	}
	return specMerkle(leaves)
}

func specDataHash(txs types.Txs) []byte {
	leaves := make([][]byte, len(txs))
	for i, tx := range txs {
		h := sha256.Sum256(tx)
		leaves[i] = h[:]
	}
	return specMerkle(leaves)
}

// ---- signed statements table ----

type signedTable struct {
	mu sync.RWMutex
	m  map[string][]byte
}

var signed = &signedTable{m: map[string][]byte{}}

func stmtKey(pub []byte, typ types.SignedMsgType, h int64, round int, bid types.BlockID, ts time.Time) string {
	return fmt.Sprintf("%x|%d|%d|%d|%x|%d|%x|%d|%d", pub, typ, h, round, bid.Hash, bid.PartsHeader.Total, bid.PartsHeader.Hash, ts.Unix(), ts.Nanosecond())
}

func (t *signedTable) record(pub []byte, v *types.CommitSig) {
	t.mu.Lock()
	t.m[stmtKey(pub, v.Type, v.Height, v.Round, v.BlockID, v.Timestamp)] = append([]byte(nil), v.Signature...)
	t.mu.Unlock()
}

func (t *signedTable) valid(pub []byte, v *types.CommitSig) bool {
	t.mu.RLock()
	sig, ok := t.m[stmtKey(pub, v.Type, v.Height, v.Round, v.BlockID, v.Timestamp)]
	t.mu.RUnlock()
	return ok && bytes.Equal(sig, v.Signature)
}

// ---- spec state ----

type specVal struct {
	pub   []byte
	addr  string
	power int64
}

type specState struct {
	chainID, blockVersion, appVersion          string
	initialHeight, lastHeight, lastTotalTx     int64
	lastBlockID                                types.BlockID
	lastBlockTime                              time.Time
	appHash, consHash, resultsHash             []byte
	valsHash, nextValsHash                     []byte
	lastVals                                   []specVal
	valAddrs                                   map[string]bool
}

func specOf(s sm.State) *specState {
	sp := &specState{
		chainID: s.ChainID, blockVersion: s.BlockVersion, appVersion: s.AppVersion,
		initialHeight: s.InitialHeight, lastHeight: s.LastBlockHeight, lastTotalTx: s.LastBlockTotalTx,
		lastBlockID: s.LastBlockID, lastBlockTime: s.LastBlockTime,
		appHash: s.AppHash, consHash: s.ConsensusParams.Hash(), resultsHash: s.LastResultsHash,
		valsHash: s.Validators.Hash(), nextValsHash: s.NextValidators.Hash(),
		valAddrs: map[string]bool{},
	}
	for _, v := range s.LastValidators.Validators {
		sp.lastVals = append(sp.lastVals, specVal{pub: v.PubKey.Bytes(), addr: v.Address.String(), power: v.VotingPower})
	}
	for _, v := range s.Validators.Validators {
		sp.valAddrs[v.Address.String()] = true
	}
	return sp
}

func sameBlockID(a, b types.BlockID) bool {
	return bytes.Equal(a.Hash, b.Hash) && a.PartsHeader.Total == b.PartsHeader.Total && bytes.Equal(a.PartsHeader.Hash, b.PartsHeader.Hash)
}

func zeroBlockID(a types.BlockID) bool {
	return len(a.Hash) == 0 && a.PartsHeader.Total == 0 && len(a.PartsHeader.Hash) == 0
}

// specMedian: the smallest vote timestamp t such that the voting power of the present votes with
// timestamp <= t reaches floor(P/2), P = voting power of all present votes; powers by POSITION.
func specMedian(c *types.Commit, vals []specVal) (time.Time, bool) {
	type wt struct {
		t time.Time
		w int64
	}
	var ws []wt
	var total int64
	for i, p := range c.Precommits {
		if p == nil || i >= len(vals) {
			continue
		}
		ws = append(ws, wt{p.Timestamp, vals[i].power})
		total += vals[i].power
	}
	if len(ws) == 0 {
		return time.Time{}, false
	}
	sort.SliceStable(ws, func(i, j int) bool { return ws[i].t.Before(ws[j].t) })
	var cum int64
	for _, x := range ws {
		cum += x.w
		if cum >= total/2 {
			return x.t, true
		}
	}
	return time.Time{}, false
}

type verdict struct {
	accept           bool
	reason           string // first failing clause (diagnostic only)
	unsignedMismatch bool   // some present precommit carries a ValidatorIndex/ValidatorAddress not matching its position
}

// specValidate decides whether block b is a valid successor of the chain state s.
func specValidate(s *specState, b *types.Block) (v verdict) {
	rej := func(r string) verdict { v.accept = false; v.reason = r; return v }
	if b == nil {
		return rej("nil-block")
	}
	c := b.LastCommit
	if c != nil {
		for i, p := range c.Precommits {
			if p == nil {
				continue
			}
			if p.ValidatorIndex != i || i >= len(s.lastVals) || p.ValidatorAddress.String() != s.lastVals[i].addr {
				v.unsignedMismatch = true
			}
		}
	}
	// height / chain id / versions
	if b.Height <= 0 || b.Height < s.initialHeight || b.Height != s.lastHeight+1 {
		return rej("height")
	}
	if b.ChainID != s.chainID {
		return rej("chain-id")
	}
	if b.Version != s.blockVersion {
		return rej("block-version")
	}
	if b.AppVersion != s.appVersion {
		return rej("app-version")
	}
	// tx counters
	n := int64(len(b.Data.Txs))
	if b.NumTxs != n {
		return rej("num-txs")
	}
	if b.TotalTxs != s.lastTotalTx+n {
		return rej("total-txs")
	}
	// previous block id
	if !sameBlockID(b.LastBlockID, s.lastBlockID) {
		return rej("last-block-id")
	}
	// self-consistency hashes
	if c == nil {
		return rej("nil-last-commit")
	}
	if !bytes.Equal(b.LastCommitHash, specCommitHash(c)) {
		return rej("last-commit-hash")
	}
	if !bytes.Equal(b.DataHash, specDataHash(b.Data.Txs)) {
		return rej("data-hash")
	}
	// state-derived hashes
	if !bytes.Equal(b.AppHash, s.appHash) {
		return rej("app-hash")
	}
	if !bytes.Equal(b.ConsensusHash, s.consHash) {
		return rej("consensus-hash")
	}
	if !bytes.Equal(b.LastResultsHash, s.resultsHash) {
		return rej("last-results-hash")
	}
	if !bytes.Equal(b.ValidatorsHash, s.valsHash) {
		return rej("validators-hash")
	}
	if !bytes.Equal(b.NextValidatorsHash, s.nextValsHash) {
		return rej("next-validators-hash")
	}
	genesis := b.Height == s.initialHeight
	if genesis {
		if len(c.Precommits) != 0 || !zeroBlockID(c.BlockID) {
			return rej("genesis-commit-not-empty")
		}
		if !b.Time.Equal(s.lastBlockTime) {
			return rej("genesis-time")
		}
	} else {
		if len(c.Precommits) != len(s.lastVals) {
			return rej("commit-size")
		}
		if !sameBlockID(c.BlockID, s.lastBlockID) {
			return rej("commit-block-id")
		}
		var tallied, total int64
		round, haveRound := 0, false
		for i, p := range c.Precommits {
			total += s.lastVals[i].power
			if p == nil {
				continue
			}
			if p.Type != types.PrecommitType {
				return rej("commit-vote-type")
			}
			if p.Height != b.Height-1 {
				return rej("commit-vote-height")
			}
			if !haveRound {
				round, haveRound = p.Round, true
			} else if p.Round != round {
				return rej("commit-vote-round")
			}
			if !signed.valid(s.lastVals[i].pub, p) {
				return rej("commit-signature")
			}
			if sameBlockID(p.BlockID, s.lastBlockID) {
				tallied += s.lastVals[i].power
			}
		}
		if !(3*tallied > 2*total) {
			return rej("commit-quorum")
		}
		if !b.Time.After(s.lastBlockTime) {
			return rej("time-not-monotonic")
		}
		med, ok := specMedian(c, s.lastVals)
		if !ok || !b.Time.Equal(med) {
			return rej("time-not-median")
		}
	}
	if !s.valAddrs[b.ProposerAddress.String()] {
		return rej("proposer")
	}
	v.accept = true
	return v
}
