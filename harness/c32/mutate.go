package main

// Structured mutations of the valid block at a target height. Every mutation is applied to a fresh
// decoded copy, optionally followed by "fix-ups" that recompute dependent header fields so that only
// the semantic clause under test is violated (e.g. dropping a signature AND updating LastCommitHash
// and Time, so the block is rejected only if the quorum rule says so).

import (
	"fmt"
	"math"
	"time"

	"github.com/gnolang/gno/tm2/pkg/amino"
	"github.com/gnolang/gno/tm2/pkg/bft/types"
	"github.com/gnolang/gno/tm2/pkg/crypto"
)

func mustMarshal(b *types.Block) []byte {
	bz, err := amino.Marshal(b)
	if err != nil {
		panic(err)
	}
	return bz
}

func decodeBlock(bz []byte) (*types.Block, error) {
	b := new(types.Block)
	if err := amino.Unmarshal(bz, b); err != nil {
		return nil, err
	}
	return b, nil
}

const (
	fxCommitHash = 1 << iota
	fxTime
	fxDataHash
	fxNumTxs
	fxTotalTxs
	fxTimeForged // Time := weighted median with the weights looked up through the (unsigned) CommitSig.ValidatorIndex
)

func fxName(fx int) string {
	s := ""
	for i, n := range []string{"+commithash", "+time", "+datahash", "+numtxs", "+totaltxs", "+timeforged"} {
		if fx&(1<<i) != 0 {
			s += n
		}
	}
	return s
}

type mutation struct {
	name string
	fx   int
	f    func(b *types.Block)
}

func flip(b []byte, bit int) []byte {
	c := append([]byte(nil), b...)
	c[bit/8] ^= 1 << (bit % 8)
	return c
}

// hashVariants: nil, empty, short, long, every single-bit flip, plus the given other values.
func hashVariants(cur []byte, others map[string][]byte) map[string][]byte {
	out := map[string][]byte{"nil": nil, "empty": {}}
	if len(cur) > 0 {
		out["short"] = append([]byte(nil), cur[:len(cur)-1]...)
		out["long"] = append(append([]byte(nil), cur...), 0)
		out["1byte"] = []byte{cur[0]}
		for i := 0; i < len(cur)*8; i++ {
			out[fmt.Sprintf("flip%03d", i)] = flip(cur, i)
		}
	} else {
		out["32zero"] = make([]byte, 32)
		out["1byte"] = []byte{1}
	}
	for k, v := range others {
		out["other:"+k] = v
	}
	return out
}

// perms of 0..n-1
func perms(n int) [][]int {
	var res [][]int
	var rec func(p []int, used int)
	rec = func(p []int, used int) {
		if len(p) == n {
			res = append(res, append([]int(nil), p...))
			return
		}
		for i := 0; i < n; i++ {
			if used&(1<<i) == 0 {
				rec(append(p, i), used|1<<i)
			}
		}
	}
	rec(nil, 0)
	return res
}

// mutationsFor enumerates the structured mutation set for target height h.
func (fx *fixture) mutationsFor(h int64) []mutation {
	st := fx.steps[h]
	blk := st.block
	var ms []mutation
	seen := map[string]bool{}
	add := func(name string, f int, fn func(b *types.Block)) {
		if seen[name+fxName(f)] { // same name = same mutation (names carry the value)
			return
		}
		seen[name+fxName(f)] = true
		ms = append(ms, mutation{name + fxName(f), f, fn})
	}
	otherHashes := map[string][]byte{
		"LastCommitHash": blk.LastCommitHash, "DataHash": blk.DataHash, "ValidatorsHash": blk.ValidatorsHash,
		"NextValidatorsHash": blk.NextValidatorsHash, "ConsensusHash": blk.ConsensusHash, "AppHash": blk.AppHash,
		"LastResultsHash": blk.LastResultsHash, "LastValidatorsHash": st.pre.LastValidators.Hash(), "BlockHash": st.id.Hash,
	}
	if h > 1 {
		otherHashes["PrevAppHash"] = fx.steps[h-1].block.AppHash
		otherHashes["PrevResultsHash"] = fx.steps[h-1].block.LastResultsHash
		otherHashes["PrevValidatorsHash"] = fx.steps[h-1].block.ValidatorsHash
	}
	otherHashes["NextBlockAppHash"] = fx.steps[h+1].block.AppHash
	otherHashes["NextBlockResultsHash"] = fx.steps[h+1].block.LastResultsHash

	add("identity", 0, func(b *types.Block) {})

	// ---- header scalars ----
	for _, v := range []string{"", "v1.0.0-rc.0", blk.Version + "x", "V" + blk.Version[1:]} {
		v := v
		add(fmt.Sprintf("Version=%q", v), 0, func(b *types.Block) { b.Version = v })
	}
	long := ""
	for i := 0; i < 51; i++ {
		long += "c"
	}
	for _, v := range []string{"", "c32-chain2", chainID + "x", chainID[:len(chainID)-1], "C32-chain", long, chainID + "\x00"} {
		v := v
		add(fmt.Sprintf("ChainID=%q", v), 0, func(b *types.Block) { b.ChainID = v })
	}
	for _, v := range []int64{0, -1, h - 1, h + 1, h + 2, 1, math.MaxInt64, math.MinInt64, h + 1<<32} {
		if v == h {
			continue
		}
		v := v
		add(fmt.Sprintf("Height=%d", v), 0, func(b *types.Block) { b.Height = v })
	}
	times := map[string]time.Time{
		"zero": {}, "unix0": time.Unix(0, 0).UTC(), "-1ns": blk.Time.Add(-1), "+1ns": blk.Time.Add(1), "+1s": blk.Time.Add(time.Second),
		"lastBlockTime": st.pre.LastBlockTime, "lastBlockTime-1ns": st.pre.LastBlockTime.Add(-1), "lastBlockTime+1ns": st.pre.LastBlockTime.Add(1),
		"farFuture": time.Date(9999, 1, 1, 0, 0, 0, 0, time.UTC), "genesis": genesisTime, "nextBlockTime": fx.steps[h+1].block.Time,
	}
	if blk.LastCommit != nil {
		for i, p := range blk.LastCommit.Precommits {
			times[fmt.Sprintf("voteTs%d", i)] = p.Timestamp
		}
	}
	for k, v := range times {
		if v.Equal(blk.Time) {
			continue
		}
		v := v
		add("Time="+k, 0, func(b *types.Block) { b.Time = v })
	}
	n := blk.NumTxs
	for _, v := range []int64{0, n - 1, n + 1, -1, math.MaxInt64, math.MinInt64} {
		v := v
		add(fmt.Sprintf("NumTxs=%d", v), 0, func(b *types.Block) { b.NumTxs = v })
	}
	t := blk.TotalTxs
	for _, v := range []int64{0, t - 1, t + 1, -1, n - 1, n, t + n, t - n, math.MaxInt64, math.MinInt64} {
		if v == t {
			continue
		}
		v := v
		add(fmt.Sprintf("TotalTxs=%d", v), 0, func(b *types.Block) { b.TotalTxs = v })
	}
	for _, v := range []string{"", "x", appVersion + "x", appVersion[:len(appVersion)-1]} {
		v := v
		add(fmt.Sprintf("AppVersion=%q", v), 0, func(b *types.Block) { b.AppVersion = v })
	}

	// ---- LastBlockID ----
	for k, v := range hashVariants(blk.LastBlockID.Hash, otherHashes) {
		v := v
		add("LastBlockID.Hash="+k, 0, func(b *types.Block) { b.LastBlockID.Hash = v })
	}
	for k, v := range hashVariants(blk.LastBlockID.PartsHeader.Hash, map[string][]byte{"blockhash": blk.LastBlockID.Hash}) {
		v := v
		add("LastBlockID.Parts.Hash="+k, 0, func(b *types.Block) { b.LastBlockID.PartsHeader.Hash = v })
	}
	pt := blk.LastBlockID.PartsHeader.Total
	for _, v := range []int{0, pt + 1, pt - 1, -1, math.MaxInt32, math.MaxInt64} {
		if v == pt {
			continue
		}
		v := v
		add(fmt.Sprintf("LastBlockID.Parts.Total=%d", v), 0, func(b *types.Block) { b.LastBlockID.PartsHeader.Total = v })
	}
	if h > 2 {
		prev := fx.steps[h-2].id
		add("LastBlockID=grandparent", 0, func(b *types.Block) { b.LastBlockID = prev })
	}
	add("LastBlockID=self", 0, func(b *types.Block) { b.LastBlockID = st.id })
	add("LastBlockID=zero", 0, func(b *types.Block) { b.LastBlockID = types.BlockID{} })

	// ---- header hashes ----
	type hf struct {
		name string
		get  func(b *types.Block) *[]byte
	}
	for _, f := range []hf{
		{"LastCommitHash", func(b *types.Block) *[]byte { return &b.LastCommitHash }},
		{"DataHash", func(b *types.Block) *[]byte { return &b.DataHash }},
		{"ValidatorsHash", func(b *types.Block) *[]byte { return &b.ValidatorsHash }},
		{"NextValidatorsHash", func(b *types.Block) *[]byte { return &b.NextValidatorsHash }},
		{"ConsensusHash", func(b *types.Block) *[]byte { return &b.ConsensusHash }},
		{"AppHash", func(b *types.Block) *[]byte { return &b.AppHash }},
		{"LastResultsHash", func(b *types.Block) *[]byte { return &b.LastResultsHash }},
	} {
		f := f
		cur := *f.get(blk)
		for k, v := range hashVariants(cur, otherHashes) {
			v := v
			add(f.name+"="+k, 0, func(b *types.Block) { *f.get(b) = v })
		}
	}

	// ---- proposer ----
	for i, k := range fx.node.keys {
		a := k.addr
		add(fmt.Sprintf("Proposer=key%d", i), 0, func(b *types.Block) { b.ProposerAddress = a })
	}
	add("Proposer=zero", 0, func(b *types.Block) { b.ProposerAddress = crypto.Address{} })
	for i := 0; i < 160; i++ {
		i := i
		add(fmt.Sprintf("Proposer=flip%03d", i), 0, func(b *types.Block) { b.ProposerAddress[i/8] ^= 1 << (i % 8) })
	}

	// ---- data ----
	dataMuts := map[string]func(b *types.Block){
		"Txs+=new":     func(b *types.Block) { b.Data.Txs = append(b.Data.Txs, types.Tx{9, 9, 9}) },
		"Txs+=dup":     func(b *types.Block) { b.Data.Txs = append(b.Data.Txs, b.Data.Txs[0]) },
		"Txs+=empty":   func(b *types.Block) { b.Data.Txs = append(b.Data.Txs, types.Tx{}) },
		"Txs-=last":    func(b *types.Block) { b.Data.Txs = b.Data.Txs[:len(b.Data.Txs)-1] },
		"Txs-=first":   func(b *types.Block) { b.Data.Txs = b.Data.Txs[1:] },
		"Txs=none":     func(b *types.Block) { b.Data.Txs = nil },
		"Txs.swap01":   func(b *types.Block) { b.Data.Txs[0], b.Data.Txs[1] = b.Data.Txs[1], b.Data.Txs[0] },
		"Txs[1].bit":   func(b *types.Block) { b.Data.Txs[1] = types.Tx(flip(b.Data.Txs[1], 3)) },
		"Txs[2]+=byte": func(b *types.Block) { b.Data.Txs[2] = append(b.Data.Txs[2], 0) },
		"Txs=next":     func(b *types.Block) { b.Data.Txs = makeTxs(h + 1) },
	}
	for k, f := range dataMuts {
		for mask := 0; mask < 8; mask++ {
			f := f
			add("data/"+k, mask<<2, f) // bits fxDataHash|fxNumTxs|fxTotalTxs
		}
	}

	// ---- commit ----
	if h == 1 {
		// genesis block: any non-empty commit shape must be rejected
		c2 := fx.steps[1].commit
		for _, f := range []int{0, fxCommitHash} {
			add("commit=commitForBlock1", f, func(b *types.Block) { b.LastCommit = cloneCommit(c2) })
			add("commit.BlockID=nonzero", f, func(b *types.Block) { b.LastCommit.BlockID = c2.BlockID })
			add("commit.Precommits=[nil]", f, func(b *types.Block) { b.LastCommit.Precommits = []*types.CommitSig{nil} })
			add("commit.Precommits=[sig]", f, func(b *types.Block) { b.LastCommit.Precommits = []*types.CommitSig{cloneSig(c2.Precommits[0])} })
		}
		add("commit=nil", 0, func(b *types.Block) { b.LastCommit = nil })
		return ms
	}
	lastVals := st.pre.LastValidators
	nv := lastVals.Size()
	prevID := st.pre.LastBlockID
	otherID := fx.steps[h].id // a real but different block id
	commitFx := []int{0, fxCommitHash, fxCommitHash | fxTime}

	add("commit=nil", 0, func(b *types.Block) { b.LastCommit = nil })
	add("commit=empty", fxCommitHash, func(b *types.Block) { b.LastCommit = types.NewCommit(types.BlockID{}, nil) })
	add("commit=emptyWithID", fxCommitHash, func(b *types.Block) { b.LastCommit = types.NewCommit(prevID, nil) })

	// every validator independently in one of 5 roles (5^4 = 625 assignments):
	//  0 signs the block, 1 absent, 2 signs nil, 3 signs another block, 4 bad signature (one bit flipped)
	roles := 5
	total := 1
	for i := 0; i < nv; i++ {
		total *= roles
	}
	for code := 0; code < total; code++ {
		code := code
		name := "commit/roles="
		c := code
		rs := make([]int, nv)
		for i := 0; i < nv; i++ {
			rs[i] = c % roles
			c /= roles
			name += string("BaNOx"[rs[i]])
		}
		if code == 0 {
			continue // identity
		}
		for _, f := range commitFx {
			add(name, f, func(b *types.Block) {
				for i, r := range rs {
					switch r {
					case 1:
						b.LastCommit.Precommits[i] = nil
					case 2:
						b.LastCommit.Precommits[i] = fx.node.signVote(lastVals, i, types.PrecommitType, h-1, 0, types.BlockID{}, voteTime(h-1, i), chainID)
					case 3:
						b.LastCommit.Precommits[i] = fx.node.signVote(lastVals, i, types.PrecommitType, h-1, 0, otherID, voteTime(h-1, i), chainID)
					case 4:
						b.LastCommit.Precommits[i].Signature = flip(b.LastCommit.Precommits[i].Signature, 77)
					}
				}
			})
		}
	}
	// whole commit re-signed with a uniformly different statement
	type resign struct {
		name  string
		typ   types.SignedMsgType
		h     int64
		round int
		bid   types.BlockID
		chain string
		cbid  types.BlockID
	}
	for _, rsn := range []resign{
		{"round1", types.PrecommitType, h - 1, 1, prevID, chainID, prevID},             // valid: accepted
		{"round-1", types.PrecommitType, h - 1, -1, prevID, chainID, prevID},           // valid per the stated rules
		{"height=h", types.PrecommitType, h, 0, prevID, chainID, prevID},               // wrong height
		{"height=h-2", types.PrecommitType, h - 2, 0, prevID, chainID, prevID},         // wrong height
		{"type=prevote", types.PrevoteType, h - 1, 0, prevID, chainID, prevID},         // wrong type
		{"type=proposal", types.ProposalType, h - 1, 0, prevID, chainID, prevID},       // wrong type
		{"otherBlock", types.PrecommitType, h - 1, 0, otherID, chainID, otherID},       // commit for another block
		{"otherBlock/commitIDprev", types.PrecommitType, h - 1, 0, otherID, chainID, prevID}, // all stray
		{"otherChain", types.PrecommitType, h - 1, 0, prevID, "c32-other", prevID},     // signed for another chain
	} {
		rsn := rsn
		for _, f := range commitFx {
			add("commit/resigned:"+rsn.name, f, func(b *types.Block) {
				for i := range b.LastCommit.Precommits {
					b.LastCommit.Precommits[i] = fx.node.signVote(lastVals, i, rsn.typ, rsn.h, rsn.round, rsn.bid, voteTime(h-1, i), rsn.chain)
				}
				b.LastCommit.BlockID = rsn.cbid
			})
		}
		// only ONE validator deviates (mixed commit)
		for j := 0; j < nv; j++ {
			j := j
			add(fmt.Sprintf("commit/resigned1:%s@%d", rsn.name, j), fxCommitHash|fxTime, func(b *types.Block) {
				b.LastCommit.Precommits[j] = fx.node.signVote(lastVals, j, rsn.typ, rsn.h, rsn.round, rsn.bid, voteTime(h-1, j), rsn.chain)
			})
		}
	}
	// whole commit re-signed with shifted timestamps: the true median relative to LastBlockTime
	lbt := st.pre.LastBlockTime
	for name, tsf := range map[string]func(i int) time.Time{
		"all=lastBlockTime":     func(i int) time.Time { return lbt },
		"all=lastBlockTime-1s":  func(i int) time.Time { return lbt.Add(-time.Second) },
		"all=lastBlockTime+1ns": func(i int) time.Time { return lbt.Add(1) },
		"spreadAroundLastBlockTime": func(i int) time.Time { return lbt.Add(time.Duration(i-1) * time.Millisecond) },
		"spreadEndingAtLastBlockTime": func(i int) time.Time { return lbt.Add(time.Duration(i-nv+1) * time.Millisecond) },
	} {
		tsf := tsf
		for _, f := range []int{fxCommitHash, fxCommitHash | fxTime} {
			add("commit/resigned-ts:"+name, f, func(b *types.Block) {
				for i := range b.LastCommit.Precommits {
					b.LastCommit.Precommits[i] = fx.node.signVote(lastVals, i, types.PrecommitType, h-1, 0, prevID, tsf(i), chainID)
				}
			})
		}
	}
	// size, duplicates, reorder
	for k := 0; k < nv; k++ {
		k := k
		for _, f := range commitFx {
			add(fmt.Sprintf("commit/truncate=%d", k), f, func(b *types.Block) { b.LastCommit.Precommits = b.LastCommit.Precommits[:k] })
		}
	}
	for _, f := range commitFx {
		add("commit/append=dup0", f, func(b *types.Block) {
			b.LastCommit.Precommits = append(b.LastCommit.Precommits, cloneSig(b.LastCommit.Precommits[0]))
		})
		add("commit/append=nil", f, func(b *types.Block) { b.LastCommit.Precommits = append(b.LastCommit.Precommits, nil) })
		add("commit/prepend=nil", f, func(b *types.Block) {
			b.LastCommit.Precommits = append([]*types.CommitSig{nil}, b.LastCommit.Precommits...)
		})
	}
	for i := 0; i < nv; i++ {
		for j := 0; j < nv; j++ {
			if i == j {
				continue
			}
			i, j := i, j
			for _, f := range commitFx {
				add(fmt.Sprintf("commit/dup %d->%d", i, j), f, func(b *types.Block) {
					b.LastCommit.Precommits[j] = cloneSig(b.LastCommit.Precommits[i])
				})
				add(fmt.Sprintf("commit/dupfix %d->%d", i, j), f, func(b *types.Block) { // also rewrite the unsigned fields
					s := cloneSig(b.LastCommit.Precommits[i])
					s.ValidatorIndex = j
					s.ValidatorAddress = b.LastCommit.Precommits[j].ValidatorAddress
					b.LastCommit.Precommits[j] = s
				})
			}
		}
	}
	for _, p := range perms(nv) {
		p := p
		id := true
		for i, x := range p {
			if i != x {
				id = false
			}
		}
		if id {
			continue
		}
		for _, f := range commitFx {
			add(fmt.Sprintf("commit/perm%v", p), f, func(b *types.Block) {
				old := b.LastCommit.Precommits
				nw := make([]*types.CommitSig, len(old))
				for i, x := range p {
					nw[i] = old[x]
				}
				b.LastCommit.Precommits = nw
			})
		}
	}
	// every assignment of the unsigned ValidatorIndex fields (n^n), with Time = true median and with
	// Time = the median a verifier trusting those indices would compute
	na := 1
	for i := 0; i < nv; i++ {
		na *= nv
	}
	for code := 0; code < na; code++ {
		idx := make([]int, nv)
		c := code
		id := true
		for i := range idx {
			idx[i] = c % nv
			c /= nv
			if idx[i] != i {
				id = false
			}
		}
		if id {
			continue
		}
		for _, f := range []int{fxCommitHash, fxCommitHash | fxTime, fxCommitHash | fxTimeForged} {
			add(fmt.Sprintf("commit/validx=%v", idx), f, func(b *types.Block) {
				for i, p := range b.LastCommit.Precommits {
					p.ValidatorIndex = idx[i]
				}
			})
		}
	}
	// commit.BlockID
	for k, v := range hashVariants(prevID.Hash, map[string][]byte{"other": otherID.Hash}) {
		v := v
		add("commit.BlockID.Hash="+k, 0, func(b *types.Block) { b.LastCommit.BlockID.Hash = v })
	}
	for k, v := range hashVariants(prevID.PartsHeader.Hash, nil) {
		v := v
		add("commit.BlockID.Parts.Hash="+k, 0, func(b *types.Block) { b.LastCommit.BlockID.PartsHeader.Hash = v })
	}
	for _, v := range []int{0, 2, -1, math.MaxInt32} {
		v := v
		add(fmt.Sprintf("commit.BlockID.Parts.Total=%d", v), 0, func(b *types.Block) { b.LastCommit.BlockID.PartsHeader.Total = v })
	}
	add("commit.BlockID=zero", 0, func(b *types.Block) { b.LastCommit.BlockID = types.BlockID{} })
	add("commit.BlockID=other", 0, func(b *types.Block) { b.LastCommit.BlockID = otherID })

	// per-precommit raw field mutations (no re-signing)
	for i := 0; i < nv; i++ {
		i := i
		sigf := func(name string, fn func(s *types.CommitSig)) {
			for _, f := range commitFx {
				add(fmt.Sprintf("commit/sig%d.%s", i, name), f, func(b *types.Block) { fn(b.LastCommit.Precommits[i]) })
			}
		}
		for _, v := range []types.SignedMsgType{0, types.PrevoteType, types.ProposalType, 0xff} {
			v := v
			sigf(fmt.Sprintf("Type=%d", v), func(s *types.CommitSig) { s.Type = v })
		}
		for _, v := range []int64{0, -1, h, h - 2, math.MaxInt64} {
			v := v
			sigf(fmt.Sprintf("Height=%d", v), func(s *types.CommitSig) { s.Height = v })
		}
		for _, v := range []int{1, -1, math.MaxInt32} {
			v := v
			sigf(fmt.Sprintf("Round=%d", v), func(s *types.CommitSig) { s.Round = v })
		}
		for _, d := range []time.Duration{1, -1, time.Second, -time.Hour, 100 * 365 * 24 * time.Hour} {
			d := d
			sigf(fmt.Sprintf("Timestamp%+d", int64(d)), func(s *types.CommitSig) { s.Timestamp = s.Timestamp.Add(d) })
		}
		sigf("Timestamp=zero", func(s *types.CommitSig) { s.Timestamp = time.Time{} })
		sigf("BlockID=zero", func(s *types.CommitSig) { s.BlockID = types.BlockID{} })
		sigf("BlockID=other", func(s *types.CommitSig) { s.BlockID = otherID })
		sigf("BlockID.Hash.flip", func(s *types.CommitSig) { s.BlockID.Hash = flip(s.BlockID.Hash, 5) })
		sigf("BlockID.Parts.Total+1", func(s *types.CommitSig) { s.BlockID.PartsHeader.Total++ })
		// unsigned fields
		for _, v := range []int{-1, (i + 1) % nv, (i + 2) % nv, nv, nv + 1, 1 << 20, math.MaxInt32, math.MinInt32, math.MaxInt64, math.MinInt64} {
			v := v
			sigf(fmt.Sprintf("ValidatorIndex=%d", v), func(s *types.CommitSig) { s.ValidatorIndex = v })
		}
		for j, k := range fx.node.keys {
			a := k.addr
			sigf(fmt.Sprintf("ValidatorAddress=key%d", j), func(s *types.CommitSig) { s.ValidatorAddress = a })
		}
		sigf("ValidatorAddress=zero", func(s *types.CommitSig) { s.ValidatorAddress = crypto.Address{} })
		// signature bytes
		sigf("Signature=nil", func(s *types.CommitSig) { s.Signature = nil })
		sigf("Signature=short", func(s *types.CommitSig) { s.Signature = s.Signature[:63] })
		sigf("Signature=long", func(s *types.CommitSig) { s.Signature = append(s.Signature, 0) })
		sigf("Signature=zero64", func(s *types.CommitSig) { s.Signature = make([]byte, 64) })
		sigf("Signature=other", func(s *types.CommitSig) { s.Signature = blk.LastCommit.Precommits[(i+1)%nv].Signature })
		for bit := 0; bit < 512; bit++ {
			bit := bit
			add(fmt.Sprintf("commit/sig%d.Signature.flip%03d", i, bit), fxCommitHash, func(b *types.Block) {
				b.LastCommit.Precommits[i].Signature = flip(b.LastCommit.Precommits[i].Signature, bit)
			})
		}
	}
	return ms
}

func cloneSig(s *types.CommitSig) *types.CommitSig {
	if s == nil {
		return nil
	}
	c := *s
	c.Signature = append([]byte(nil), s.Signature...)
	c.BlockID.Hash = append([]byte(nil), s.BlockID.Hash...)
	c.BlockID.PartsHeader.Hash = append([]byte(nil), s.BlockID.PartsHeader.Hash...)
	return &c
}

func cloneCommit(c *types.Commit) *types.Commit {
	sigs := make([]*types.CommitSig, len(c.Precommits))
	for i, s := range c.Precommits {
		sigs[i] = cloneSig(s)
	}
	return types.NewCommit(c.BlockID, sigs)
}

// applyFixups recomputes dependent header fields with the SPEC functions.
func (fx *fixture) applyFixups(h int64, b *types.Block, f int) {
	if f&fxNumTxs != 0 {
		b.NumTxs = int64(len(b.Data.Txs))
	}
	if f&fxTotalTxs != 0 {
		b.TotalTxs = fx.steps[h].pre.LastBlockTotalTx + int64(len(b.Data.Txs))
	}
	if f&fxDataHash != 0 {
		b.DataHash = specDataHash(b.Data.Txs)
	}
	if f&fxCommitHash != 0 && b.LastCommit != nil {
		b.LastCommitHash = specCommitHash(b.LastCommit)
	}
	if f&fxTime != 0 && b.LastCommit != nil {
		if m, ok := specMedian(b.LastCommit, fx.specs[h].lastVals); ok {
			b.Time = m
		}
	}
	if f&fxTimeForged != 0 && b.LastCommit != nil {
		lv := fx.specs[h].lastVals
		forged := make([]specVal, len(b.LastCommit.Precommits))
		for i, p := range b.LastCommit.Precommits {
			if p != nil && p.ValidatorIndex >= 0 && p.ValidatorIndex < len(lv) {
				forged[i] = lv[p.ValidatorIndex]
			} else if i < len(lv) {
				forged[i] = lv[i]
			}
		}
		if m, ok := specMedian(b.LastCommit, forged); ok {
			b.Time = m
		}
	}
}
