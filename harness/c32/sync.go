package main

// Block-sync path: the REAL tm2 BlockchainReactor (Receive, BlockPool, poolRoutine verify-then-apply)
// of a fresh node is driven by a scripted p2p Switch with two scripted peers:
//   evil   — connected first; serves the authentic chain except for the scripted corruption;
//   honest — connected once evil was stopped for error (or dropped after a stall); serves the chain.
// Observation: the sequence of blocks that reached the application (BeginBlock/Commit).
// Oracle: it is exactly the authentic chain 1..N-1 (every applied block is the +2/3-committed, valid
// one), and the reactor never dies. Cases run in a worker subprocess because a panic inside the
// reactor's own goroutine cannot be recovered; a dead worker is attributed by re-running the in-flight
// cases alone.

import (
	"bufio"
	"encoding/json"
	"fmt"
	"os"
	"os/exec"
	"sort"
	"strings"
	"sync"
	"sync/atomic"
	"time"

	"github.com/gnolang/gno/tm2/pkg/bft/blockchain"
	"github.com/gnolang/gno/tm2/pkg/bft/store"
	"github.com/gnolang/gno/tm2/pkg/bft/types"
	"github.com/gnolang/gno/tm2/pkg/db/memdb"
	"github.com/gnolang/gno/tm2/pkg/p2p/events"
	"github.com/gnolang/gno/tm2/pkg/log"
	"github.com/gnolang/gno/tm2/pkg/p2p"
	p2pmock "github.com/gnolang/gno/tm2/pkg/p2p/mock"
	p2ptypes "github.com/gnolang/gno/tm2/pkg/p2p/types"
	"verif/engine/vk"
)

// ---- scripted switch / peers ----

type scriptSwitch struct {
	mu      sync.Mutex
	peers   map[p2ptypes.ID]p2p.PeerConn
	stopped map[p2ptypes.ID]string
	reactor *blockchain.BlockchainReactor
}

type scriptPeerSet struct{ sw *scriptSwitch }

func (s scriptPeerSet) Add(p p2p.PeerConn) error { return nil }
func (s scriptPeerSet) Remove(k p2ptypes.ID) bool { return false }
func (s scriptPeerSet) Has(k p2ptypes.ID) bool    { return s.Get(k) != nil }
func (s scriptPeerSet) Get(k p2ptypes.ID) p2p.PeerConn {
	s.sw.mu.Lock()
	defer s.sw.mu.Unlock()
	p, ok := s.sw.peers[k]
	if !ok {
		return nil
	}
	return p
}

func (s scriptPeerSet) List() []p2p.PeerConn {
	s.sw.mu.Lock()
	defer s.sw.mu.Unlock()
	var ids []string
	for k := range s.sw.peers {
		ids = append(ids, string(k))
	}
	sort.Strings(ids)
	var l []p2p.PeerConn
	for _, k := range ids {
		l = append(l, s.sw.peers[p2ptypes.ID(k)])
	}
	return l
}
func (s scriptPeerSet) NumInbound() uint64  { return 0 }
func (s scriptPeerSet) NumOutbound() uint64 { return 0 }

func (sw *scriptSwitch) Broadcast(chID byte, data []byte) {
	for _, p := range sw.Peers().List() {
		p.TrySend(chID, data)
	}
}
func (sw *scriptSwitch) Peers() p2p.PeerSet { return scriptPeerSet{sw} }
func (sw *scriptSwitch) Subscribe(events.EventFilter) (<-chan events.Event, func()) {
	return make(chan events.Event), func() {}
}
func (sw *scriptSwitch) DialPeers(...*p2ptypes.NetAddress) {}
func (sw *scriptSwitch) StopPeerForError(peer p2p.PeerConn, err error) {
	sw.mu.Lock()
	_, present := sw.peers[peer.ID()]
	delete(sw.peers, peer.ID())
	if _, dup := sw.stopped[peer.ID()]; !dup {
		sw.stopped[peer.ID()] = err.Error()
	}
	sw.mu.Unlock()
	if present {
		sw.reactor.RemovePeer(peer, err) // what the real switch does for every reactor
	}
}

func (sw *scriptSwitch) wasStopped(id p2ptypes.ID) (string, bool) {
	sw.mu.Lock()
	defer sw.mu.Unlock()
	s, ok := sw.stopped[id]
	return s, ok
}

func (sw *scriptSwitch) connect(id p2ptypes.ID, claimed int64, serve func(h int64) []byte) {
	var peer *p2pmock.Peer
	send := func(ch byte, bz []byte) bool {
		kind, h := blockchain.VerifDecode(bz)
		switch kind {
		case "block_request":
			go func() {
				if resp := serve(h); resp != nil {
					sw.reactor.Receive(blockchain.BlockchainChannel, peer, resp)
				}
			}()
		case "status_request":
			go sw.reactor.Receive(blockchain.BlockchainChannel, peer, blockchain.VerifEncodeStatusResponse(claimed))
		}
		return true
	}
	peer = &p2pmock.Peer{IDFn: func() p2ptypes.ID { return id }, SendFn: send, TrySendFn: send}
	sw.mu.Lock()
	sw.peers[id] = peer
	sw.mu.Unlock()
	sw.reactor.AddPeer(peer)
	sw.reactor.Receive(blockchain.BlockchainChannel, peer, blockchain.VerifEncodeStatusResponse(claimed))
}

func (sw *scriptSwitch) drop(id p2ptypes.ID) {
	sw.mu.Lock()
	p, ok := sw.peers[id]
	delete(sw.peers, id)
	sw.mu.Unlock()
	if ok {
		sw.reactor.RemovePeer(p, "connection dropped")
	}
}

// ---- cases ----

type syncCase struct {
	Name    string
	Claimed int64                  // height evil claims
	Serve   map[int64]*types.Block // overrides of the authentic chain served by evil (nil entry = "no block")
	build   func() map[int64]*types.Block
}

func (c *syncCase) materialize() {
	if c.Serve == nil && c.build != nil {
		c.Serve = c.build()
	}
}

// quickSyncKeep is the fixed sub-menu of structured mutations used by the quick tier on the sync path.
func quickSyncKeep(base string) bool {
	if strings.HasPrefix(base, "commit/roles=") {
		r := strings.TrimPrefix(base, "commit/roles=")
		if !strings.ContainsAny(r, "NOx") {
			return true
		}
		return strings.Count(r, "B") == len(r)-1
	}
	for _, p := range []string{"commit/resigned:", "commit/truncate", "commit/append", "commit/prepend", "commit=", "commit.BlockID=zero", "commit.BlockID=other",
		"commit/sig0.ValidatorIndex=4", "commit/sig0.ValidatorIndex=-1", "commit/sig0.ValidatorAddress=zero", "commit/sig0.Signature=nil", "commit/sig0.Signature=zero64",
		"commit/sig0.Timestamp+1", "commit/sig0.Type=1", "commit/sig0.Height=0", "commit/sig0.Round=1", "commit/sig0.BlockID=zero",
		"identity", "Version=\"\"", "ChainID=\"c32-chain2\"", "ChainID=\"\"", "Height=0", "Height=-1", "Time=+1ns", "Time=zero", "Time=lastBlockTime", "NumTxs=0", "TotalTxs=0", "AppVersion=\"x\"",
		"data/Txs+=new", "data/Txs=none", "data/Txs.swap01", "Proposer=key", "Proposer=zero", "LastBlockID=",
	} {
		if strings.HasPrefix(base, p) {
			return true
		}
	}
	if strings.HasSuffix(base, "=nil") || strings.HasSuffix(base, "=flip000") {
		return !strings.HasPrefix(base, "commit")
	}
	if m := strings.Index(base, "Height="); m == 0 { // Height=h+1 (relabelled block)
		return true
	}
	return false
}

const syncN = chainLen // honest peers are at height N; N-1 blocks can be synced

// syncMutationMenu: the structured mutation set reduced by a fixed, documented rule:
// bit-flip floods keep bit 0 only; of the fix-up variants of one base mutation only the most fixed-up.
func (fx *fixture) syncCases(thorough bool) []syncCase {
	var cs []syncCase
	for k := int64(1); k <= syncN; k++ {
		var ms []mutation
		if k < chainLen {
			ms = fx.mutationsFor(k)
		} // (no structured set for the last height: it is only ever a `second`; see the commit menu below)
		best := map[string]mutation{}
		for _, m := range ms {
			base := m.name
			if i := strings.Index(base, "+"); i > 0 {
				base = base[:i]
			}
			if strings.Contains(base, "flip") && !strings.HasSuffix(base, "flip000") {
				continue
			}
			if !thorough && !quickSyncKeep(base) {
				continue
			}
			if o, ok := best[base]; !ok || bitsSet(m.fx) > bitsSet(o.fx) {
				best[base] = m
			}
		}
		var names []string
		for b := range best {
			names = append(names, b)
		}
		sort.Strings(names)
		for _, b := range names {
			m := best[b]
			k := k
			cs = append(cs, syncCase{Name: fmt.Sprintf("evil serves h%d/%s", k, m.name), Claimed: syncN, build: func() map[int64]*types.Block {
				blk, _ := decodeBlock(fx.steps[k].bytes)
				m.f(blk)
				fx.applyFixups(k, blk, m.fx)
				return map[int64]*types.Block{k: blk}
			}})
		}
	}
	// the last served height N is only ever used as `second` (its LastCommit vouches for N-1): commit menus
	{
		k := int64(syncN)
		lastVals := fx.steps[k].pre.LastValidators
		nv := lastVals.Size()
		prevID := fx.steps[k-1].id
		for mask := 0; mask < 1<<nv; mask++ { // every subset of signatures kept
			blk, _ := decodeBlock(fx.steps[k].bytes)
			for i := 0; i < nv; i++ {
				if mask&(1<<i) == 0 {
					blk.LastCommit.Precommits[i] = nil
				}
			}
			fx.applyFixups(k, blk, fxCommitHash|fxTime)
			cs = append(cs, syncCase{Name: fmt.Sprintf("evil serves h%d with LastCommit subset %04b", k, mask), Claimed: syncN, Serve: map[int64]*types.Block{k: blk}})
		}
		_ = prevID
	}
	// forged alternative block F at height N-1 plus a block N whose LastCommit "vouches" for F
	{
		k := int64(syncN - 1)
		pre := fx.steps[k].pre
		altTxs := []types.Tx{{0xEE, 1}, {0xEE, 2}}
		F, Fparts := pre.MakeBlock(k, altTxs, cloneCommit(fx.steps[k-1].commit), fx.steps[k].block.ProposerAddress)
		Fid := types.BlockID{Hash: F.Hash(), PartsHeader: Fparts.Header()}
		vals := pre.Validators
		nv := vals.Size()
		type forged struct {
			name string
			sig  func(i int) *types.CommitSig
		}
		strangerSig := func(i int) *types.CommitSig {
			addr, _ := vals.GetByIndex(i)
			v := &types.Vote{Type: types.PrecommitType, Height: k, Round: 0, BlockID: Fid, Timestamp: voteTime(k, i), ValidatorAddress: addr, ValidatorIndex: i}
			sig, _ := fx.node.keys[nVals].priv.Sign(v.SignBytes(chainID))
			v.Signature = sig
			return v.CommitSig()
		}
		one := fx.node.signVote(vals, 0, types.PrecommitType, k, 0, Fid, voteTime(k, 0), chainID)
		two := fx.node.signVote(vals, 1, types.PrecommitType, k, 0, Fid, voteTime(k, 1), chainID)
		for _, fg := range []forged{
			{"1of4", func(i int) *types.CommitSig {
				if i == 0 {
					return cloneSig(one)
				}
				return nil
			}},
			{"2of4", func(i int) *types.CommitSig {
				switch i {
				case 0:
					return cloneSig(one)
				case 1:
					return cloneSig(two)
				}
				return nil
			}},
			{"1valid+3copies", func(i int) *types.CommitSig {
				s := cloneSig(one)
				if i != 0 {
					s.ValidatorIndex = i
					a, _ := vals.GetByIndex(i)
					s.ValidatorAddress = a
				}
				return s
			}},
			{"2valid+2stranger", func(i int) *types.CommitSig {
				switch i {
				case 0:
					return cloneSig(one)
				case 1:
					return cloneSig(two)
				}
				return strangerSig(i)
			}},
			{"allStranger", strangerSig},
			{"authenticCommitRelabelled", func(i int) *types.CommitSig { // real signatures for the authentic block, relabelled to F
				s := cloneSig(fx.steps[k].commit.Precommits[i])
				s.BlockID = Fid
				return s
			}},
		} {
			sigs := make([]*types.CommitSig, nv)
			for i := range sigs {
				sigs[i] = fg.sig(i)
			}
			fc := types.NewCommit(Fid, sigs)
			// block N built on top of F by a state that would have applied F: only header linkage matters here
			nb, _ := decodeBlock(fx.steps[k+1].bytes)
			nb.LastBlockID = Fid
			nb.LastCommit = fc
			nb.LastCommitHash = specCommitHash(fc)
			cs = append(cs, syncCase{Name: "evil serves forged block F at N-1 vouched by " + fg.name, Claimed: syncN, Serve: map[int64]*types.Block{k: F, k + 1: nb}})
		}
		// evil claims more than exists and has no block for it / serves a copy of N as N+1
		cs = append(cs, syncCase{Name: "evil claims N+2, has no blocks beyond N", Claimed: syncN + 2, Serve: map[int64]*types.Block{syncN + 1: nil, syncN + 2: nil}})
		dupN, _ := decodeBlock(fx.steps[syncN].bytes)
		dupN.Height = syncN + 1
		cs = append(cs, syncCase{Name: "evil claims N+1 and serves N relabelled as N+1", Claimed: syncN + 1, Serve: map[int64]*types.Block{syncN + 1: dupN}})
	}
	return cs
}

func bitsSet(x int) int {
	n := 0
	for ; x != 0; x &= x - 1 {
		n++
	}
	return n
}

type syncResult struct {
	Idx        int          `json:"idx"`
	Applied    []appliedRec `json:"applied"`
	Committed  int          `json:"committed"`
	EvilStop   string       `json:"evil_stopped_for"`
	EvilBanned bool         `json:"evil_banned"`
	Stalled    bool         `json:"stalled"` // evil had to be dropped to make progress
	Complete   bool         `json:"complete"`
	HonestStopped int       `json:"honest_stopped"`
}

func (fx *fixture) runSyncCase(idx int, c syncCase, timeout time.Duration) syncResult {
	c.materialize()
	n := newNode()
	defer n.stop()
	bs := store.NewBlockStore(memdb.NewMemDB())
	bcR := blockchain.NewBlockchainReactor(n.state.Copy(), n.exec, bs, true, nil)
	bcR.SetLogger(log.NewNoopLogger())
	sw := &scriptSwitch{peers: map[p2ptypes.ID]p2p.PeerConn{}, stopped: map[p2ptypes.ID]string{}, reactor: bcR}
	bcR.SetSwitch(sw)
	if err := bcR.Start(); err != nil {
		panic(err)
	}
	defer bcR.Stop()

	authentic := func(h int64) []byte {
		if h >= 1 && h <= syncN {
			b, _ := decodeBlock(fx.steps[h].bytes)
			return blockchain.VerifEncodeBlockResponse(b)
		}
		return blockchain.VerifEncodeNoBlockResponse(h)
	}
	evilServe := func(h int64) []byte {
		if b, ok := c.Serve[h]; ok {
			if b == nil {
				return blockchain.VerifEncodeNoBlockResponse(h)
			}
			return blockchain.VerifEncodeBlockResponse(b)
		}
		return authentic(h)
	}
	sw.connect("evil", c.Claimed, evilServe)

	res := syncResult{Idx: idx}
	honestUp := false
	honestGen := 0
	honestID := func() p2ptypes.ID { return p2ptypes.ID(fmt.Sprintf("honest%d", honestGen)) }
	start := time.Now()
	lastProgress := time.Now()
	lastCommitted := 0
	for {
		cm := n.app.committedCount()
		if cm != lastCommitted {
			lastCommitted = cm
			lastProgress = time.Now()
		}
		if cm >= syncN-1 {
			res.Complete = true
			break
		}
		if _, banned := sw.wasStopped("evil"); banned && !honestUp {
			honestUp = true
			sw.connect(honestID(), syncN, authentic)
			lastProgress = time.Now()
		}
		if !honestUp && time.Since(lastProgress) > 400*time.Millisecond {
			res.Stalled = true
			sw.drop("evil")
			honestUp = true
			sw.connect(honestID(), syncN, authentic)
			lastProgress = time.Now()
		}
		if honestUp {
			// The reactor can blame the wrong peer for a stale block of a removed peer (requester reset is
			// asynchronous): an honest peer that gets stopped is replaced by another honest peer.
			if _, st := sw.wasStopped(honestID()); st && honestGen < 50 {
				res.HonestStopped++
				honestGen++
				sw.connect(honestID(), syncN, authentic)
			}
		}
		if time.Since(start) > timeout {
			break
		}
		time.Sleep(time.Millisecond)
	}
	// settle: anything still in flight gets a moment to (wrongly) apply more
	time.Sleep(15 * time.Millisecond)
	res.Applied = n.app.appliedCopy()
	res.Committed = n.app.committedCount()
	res.EvilStop, res.EvilBanned = sw.wasStopped("evil")
	return res
}

// ---- worker side ----

func syncWorkerMain(_ int) {
	fx := newFixture()
	cases := fx.syncCases(r.Thorough())
	timeout := 20 * time.Second
	var outMu sync.Mutex
	emit := func(s string) {
		outMu.Lock()
		fmt.Println(s)
		os.Stdout.Sync()
		outMu.Unlock()
	}
	var idxs []int
	sc := bufio.NewScanner(os.Stdin)
	for sc.Scan() {
		var i int
		if _, err := fmt.Sscan(sc.Text(), &i); err == nil && i >= 0 && i < len(cases) {
			idxs = append(idxs, i)
		}
	}
	par := 8
	if len(idxs) == 1 {
		par = 1
	}
	var next atomic.Int64
	var wg sync.WaitGroup
	for w := 0; w < par; w++ {
		wg.Add(1)
		go func() {
			defer wg.Done()
			for {
				j := int(next.Add(1) - 1)
				if j >= len(idxs) {
					return
				}
				i := idxs[j]
				emit(fmt.Sprintf("S %d", i))
				res := fx.runSyncCase(i, cases[i], timeout)
				emit("D " + vk.J(res))
			}
		}()
	}
	wg.Wait()
	emit("END")
	os.Exit(0)
}

// ---- parent side ----

type workerOut struct {
	results  map[int]syncResult
	inflight []int
	died     bool
	stderr   string
}

func runWorker(idxs []int) workerOut {
	exe, _ := os.Executable()
	cmd := exec.Command(exe, "-syncworker", "-id", r.ID, "-tier", r.Tier)
	var in strings.Builder
	for _, i := range idxs {
		fmt.Fprintln(&in, i)
	}
	cmd.Stdin = strings.NewReader(in.String())
	var errb strings.Builder
	cmd.Stderr = &errb
	stdout, _ := cmd.StdoutPipe()
	out := workerOut{results: map[int]syncResult{}}
	if err := cmd.Start(); err != nil {
		r.HarnessError("cannot start sync worker: %v", err)
	}
	started := map[int]bool{}
	ended := false
	sc := bufio.NewScanner(stdout)
	sc.Buffer(make([]byte, 1<<20), 1<<24)
	for sc.Scan() {
		ln := sc.Text()
		switch {
		case strings.HasPrefix(ln, "S "):
			var i int
			fmt.Sscan(ln[2:], &i)
			started[i] = true
		case strings.HasPrefix(ln, "D "):
			var res syncResult
			if json.Unmarshal([]byte(ln[2:]), &res) == nil {
				out.results[res.Idx] = res
				delete(started, res.Idx)
			}
		case ln == "END":
			ended = true
		}
	}
	err := cmd.Wait()
	if err != nil || !ended {
		out.died = true
		for i := range started {
			out.inflight = append(out.inflight, i)
		}
		sort.Ints(out.inflight)
		out.stderr = errb.String()
	}
	return out
}

func firstLines(s string, n int) string {
	ls := strings.Split(s, "\n")
	if len(ls) > n {
		ls = ls[:n]
	}
	return strings.Join(ls, "\n")
}

func runSync(fx *fixture) map[string]any {
	cases := fx.syncCases(r.Thorough())
	results := map[int]syncResult{}
	crashed := map[int]string{}
	todo := make([]int, len(cases))
	for i := range todo {
		todo[i] = i
	}
	// a few workers side by side, each with its own slice of the case list
	for len(todo) > 0 {
		if r.Expired() {
			break
		}
		nw := 4
		chunks := make([][]int, nw)
		for j, i := range todo {
			chunks[j%nw] = append(chunks[j%nw], i)
		}
		outs := make([]workerOut, nw)
		var wg sync.WaitGroup
		for w := 0; w < nw; w++ {
			if len(chunks[w]) == 0 {
				continue
			}
			wg.Add(1)
			go func(w int) { defer wg.Done(); outs[w] = runWorker(chunks[w]) }(w)
		}
		wg.Wait()
		var retry []int
		for w := 0; w < nw; w++ {
			for i, res := range outs[w].results {
				results[i] = res
			}
			if outs[w].died {
				// attribute: re-run every in-flight case alone
				for _, i := range outs[w].inflight {
					o := runWorker([]int{i})
					if o.died {
						crashed[i] = firstLines(o.stderr, 12)
					} else if res, ok := o.results[i]; ok {
						results[i] = res
					}
				}
				for _, i := range chunks[w] {
					_, done := results[i]
					_, cr := crashed[i]
					if !done && !cr {
						retry = append(retry, i)
					}
				}
			}
		}
		todo = retry
	}
	// incomplete cases are re-run alone once (hang-suspects)
	incomplete := 0
	for i := range cases {
		if res, ok := results[i]; ok && !res.Complete {
			o := runWorker([]int{i})
			if o.died {
				crashed[i] = firstLines(o.stderr, 12)
				delete(results, i)
			} else if r2, ok := o.results[i]; ok {
				results[i] = r2
			}
		}
	}
	var applied, evaluated int64
	var nBanned, nStalled, nUndetected, nHonestStopped int
	for i, c := range cases {
		if msg, ok := crashed[i]; ok {
			r.Eval()
			r.Outcome("sync:REACTOR-DIED")
			cl := "block-sync reactor died: " + panicLine(msg)
			vmu.Lock()
			viol[cl] = append(viol[cl], vrec{Case: c.Name, Impl: msg})
			vmu.Unlock()
			continue
		}
		res, ok := results[i]
		if !ok {
			continue // budget
		}
		evaluated++
		r.Eval()
		r.Distinct("Y:" + c.Name)
		bad := ""
		for j, a := range res.Applied {
			h := int64(j + 1)
			if a.Height != h || h > syncN || a.Hash != fmt.Sprintf("%X", fx.steps[h].id.Hash) {
				bad = fmt.Sprintf("applied[%d] = height %d hash %s is not the authentic block", j, a.Height, a.Hash)
				break
			}
		}
		applied += int64(len(res.Applied))
		switch {
		case bad != "":
			r.Outcome("sync:NON-AUTHENTIC-APPLIED")
			cl := "block-sync applied a block that is not the committed one"
			vmu.Lock()
			viol[cl] = append(viol[cl], vrec{Case: c.Name, Impl: bad, Spec: "only the authentic chain may be applied"})
			vmu.Unlock()
		case len(res.Applied) > syncN-1:
			r.Outcome("sync:APPLIED-UNVOUCHED")
			cl := "block-sync applied a block without a verified commit for it"
			vmu.Lock()
			viol[cl] = append(viol[cl], vrec{Case: c.Name, Impl: fmt.Sprintf("applied %d blocks, only %d have a following commit", len(res.Applied), syncN-1)})
			vmu.Unlock()
		case !res.Complete:
			incomplete++
			r.Outcome("sync:incomplete(hang-suspect)")
		default:
			r.Outcome("sync:exactly-the-authentic-chain-applied")
			if res.EvilBanned {
				nBanned++
			} else if res.Stalled {
				nStalled++
			} else {
				nUndetected++
			}
			nHonestStopped += res.HonestStopped
		}
	}
	// timing-dependent statistics: printed, deliberately NOT part of the evidence
	fmt.Printf("sync (informative, timing-dependent): evil stopped for error=%d, dropped after stall=%d, undetected but harmless=%d, honest peers wrongly stopped=%d\n", nBanned, nStalled, nUndetected, nHonestStopped)
	if incomplete > 0 || int(evaluated)+len(crashed) < len(cases) {
		r.MarkCapped()
	}
	if len(cases) > 0 {
		r.Sample(map[string]any{"sync_case_example": cases[len(cases)/3].Name, "sync_cases": len(cases)})
	}
	return map[string]any{"cases": len(cases), "evaluated": evaluated, "reactor_deaths": len(crashed), "incomplete": incomplete, "blocks_applied_total": applied, "synced_height_per_case": syncN - 1}
}

func panicLine(stderr string) string {
	for _, ln := range strings.Split(stderr, "\n") {
		if strings.HasPrefix(ln, "panic:") || strings.HasPrefix(ln, "fatal error:") {
			if i := strings.IndexAny(ln, "(0123456789"); i > 0 {
				ln = ln[:i]
			}
			return ln
		}
	}
	return "(no panic line)"
}
