package main

// Fixture: a valid chain built with the REAL tm2 types and the REAL BlockExecutor.ApplyBlock:
// 4 validators (deterministic ed25519 keys), two validator-set changes: powers {10,10,10,10} ->
// {30,10,10,10} (in force from height 3; total 60, so that a tally of exactly 2/3 = 40 is reachable at
// height 4) -> {30,5,10,10} (from height 4); at height 3 LastValidators, Validators and NextValidators
// are three different sets,
// non-trivial AppHash / LastResultsHash per height, deterministic vote timestamps.

import (
	"fmt"
	"sync"
	"time"

	abci "github.com/gnolang/gno/tm2/pkg/bft/abci/types"
	"github.com/gnolang/gno/tm2/pkg/bft/appconn"
	"github.com/gnolang/gno/tm2/pkg/bft/mempool/mock"
	"github.com/gnolang/gno/tm2/pkg/bft/proxy"
	sm "github.com/gnolang/gno/tm2/pkg/bft/state"
	"github.com/gnolang/gno/tm2/pkg/bft/types"
	"github.com/gnolang/gno/tm2/pkg/crypto"
	"github.com/gnolang/gno/tm2/pkg/crypto/ed25519"
	"github.com/gnolang/gno/tm2/pkg/crypto/tmhash"
	dbm "github.com/gnolang/gno/tm2/pkg/db"
	"github.com/gnolang/gno/tm2/pkg/db/memdb"
	"github.com/gnolang/gno/tm2/pkg/log"
)

const (
	chainID    = "c32-chain"
	nVals      = 4
	chainLen   = 5 // blocks 1..5 are built; targets are heights 1..4 (+ sync uses 1..5)
	appVersion = "c32-app-1"
)

var genesisTime = time.Date(2024, 1, 2, 3, 4, 5, 0, time.UTC)

type valKey struct {
	priv ed25519.PrivKeyEd25519
	pub  crypto.PubKey
	addr crypto.Address
}

// fixApp is the ABCI application: deterministic, with validator updates at heights 1 and 2.
type fixApp struct {
	abci.BaseApplication
	keys    []valKey // sorted like the validator set? no: by creation index
	height  int64
	mu        sync.Mutex
	applied   []appliedRec // every BeginBlock seen (used by the sync driver)
	committed int
}

func (a *fixApp) committedCount() int { a.mu.Lock(); defer a.mu.Unlock(); return a.committed }
func (a *fixApp) appliedCopy() []appliedRec {
	a.mu.Lock()
	defer a.mu.Unlock()
	return append([]appliedRec(nil), a.applied...)
}

type appliedRec struct {
	Height int64
	Hash   string
}

func (a *fixApp) Info(abci.RequestInfo) abci.ResponseInfo { return abci.ResponseInfo{} }
func (a *fixApp) BeginBlock(req abci.RequestBeginBlock) abci.ResponseBeginBlock {
	a.mu.Lock()
	defer a.mu.Unlock()
	a.height = req.Header.GetHeight()
	a.applied = append(a.applied, appliedRec{a.height, fmt.Sprintf("%X", req.Hash)})
	return abci.ResponseBeginBlock{}
}

func (a *fixApp) DeliverTx(req abci.RequestDeliverTx) abci.ResponseDeliverTx {
	return abci.ResponseDeliverTx{ResponseBase: abci.ResponseBase{Data: append([]byte("r:"), req.Tx...)}, GasUsed: int64(len(req.Tx))}
}

func (a *fixApp) EndBlock(req abci.RequestEndBlock) abci.ResponseEndBlock {
	var ups []abci.ValidatorUpdate
	switch req.Height {
	case 1: // takes effect as Validators at height 3
		ups = append(ups, abci.ValidatorUpdate{Address: a.keys[0].addr, PubKey: a.keys[0].pub, Power: 30})
	case 2: // takes effect as Validators at height 4
		ups = append(ups, abci.ValidatorUpdate{Address: a.keys[1].addr, PubKey: a.keys[1].pub, Power: 5})
	}
	return abci.ResponseEndBlock{ValidatorUpdates: ups}
}

func (a *fixApp) Commit() abci.ResponseCommit {
	a.mu.Lock()
	defer a.mu.Unlock()
	a.committed++
	return abci.ResponseCommit{ResponseBase: abci.ResponseBase{Data: tmhash.Sum([]byte(fmt.Sprintf("app-state-%d", a.height)))}}
}

type node struct {
	app      *fixApp
	conns    appconn.AppConns
	stateDB  dbm.DB
	exec     *sm.BlockExecutor
	state    sm.State
	keys     []valKey
	keyByAdr map[string]valKey
}

func makeKeys() []valKey {
	ks := make([]valKey, nVals+1) // the last one is a non-validator
	for i := range ks {
		pk := ed25519.GenPrivKeyFromSecret([]byte(fmt.Sprintf("c32-val-%d", i)))
		ks[i] = valKey{priv: pk, pub: pk.PubKey(), addr: pk.PubKey().Address()}
	}
	return ks
}

func newNode() *node {
	keys := makeKeys()
	gvals := make([]types.GenesisValidator, nVals)
	for i := 0; i < nVals; i++ {
		gvals[i] = types.GenesisValidator{Address: keys[i].addr, PubKey: keys[i].pub, Power: 10, Name: fmt.Sprintf("v%d", i)}
	}
	st, err := sm.MakeGenesisState(&types.GenesisDoc{GenesisTime: genesisTime, ChainID: chainID, Validators: gvals, AppHash: nil})
	if err != nil {
		panic(err)
	}
	st.AppVersion = appVersion
	app := &fixApp{keys: keys}
	conns := appconn.NewAppConns(proxy.NewLocalClientCreator(app))
	if err := conns.Start(); err != nil {
		panic(err)
	}
	db := memdb.NewMemDB()
	sm.SaveState(db, st)
	n := &node{app: app, conns: conns, stateDB: db, state: st, keys: keys, keyByAdr: map[string]valKey{}}
	n.exec = sm.NewBlockExecutor(db, log.NewNoopLogger(), conns.Consensus(), mock.Mempool{})
	for _, k := range keys {
		n.keyByAdr[k.addr.String()] = k
	}
	return n
}

func (n *node) stop() { n.conns.Stop() }

// voteTime is the deterministic timestamp of validator (by set index) idx voting on block h.
// Spread so that the weighted median is an interior value and differs from min / max.
func voteTime(h int64, idx int) time.Time {
	off := []int{700, 100, 400, 900}[idx%4]
	return genesisTime.Add(time.Duration(h)*10*time.Second + time.Duration(off)*time.Millisecond + time.Duration(idx)*time.Nanosecond)
}

// signVote produces a CommitSig by validator index idx of vals with the given contents.
func (n *node) signVote(vals *types.ValidatorSet, idx int, typ types.SignedMsgType, h int64, round int, bid types.BlockID, ts time.Time, chain string) *types.CommitSig {
	addr, _ := vals.GetByIndex(idx)
	k := n.keyByAdr[addr.String()]
	v := &types.Vote{Type: typ, Height: h, Round: round, BlockID: bid, Timestamp: ts, ValidatorAddress: addr, ValidatorIndex: idx}
	sig, err := k.priv.Sign(v.SignBytes(chain))
	if err != nil {
		panic(err)
	}
	v.Signature = sig
	cs := v.CommitSig()
	if chain == chainID {
		signed.record(k.pub.Bytes(), cs) // the oracle's table of really-signed statements
	}
	return cs
}

func (n *node) fullCommit(vals *types.ValidatorSet, h int64, bid types.BlockID) *types.Commit {
	sigs := make([]*types.CommitSig, vals.Size())
	for i := range sigs {
		sigs[i] = n.signVote(vals, i, types.PrecommitType, h, 0, bid, voteTime(h, i), chainID)
	}
	return types.NewCommit(bid, sigs)
}

func makeTxs(h int64) []types.Tx {
	var txs []types.Tx
	for i := 0; i < 3; i++ {
		txs = append(txs, types.Tx([]byte{byte(h), byte(i), 0xAA}))
	}
	return txs
}

// step holds everything about one height of the valid chain.
type step struct {
	pre    sm.State     // state before the block (what ValidateBlock is called on)
	block  *types.Block // the valid block at this height
	parts  *types.PartSet
	id     types.BlockID
	commit *types.Commit // +2/3 commit FOR this block (becomes next block's LastCommit)
	bytes  []byte        // amino encoding of block
}

// buildChain builds chainLen valid blocks through the real ApplyBlock.
func buildChain(n *node) []step {
	steps := make([]step, chainLen+1)
	lastCommit := types.NewCommit(types.BlockID{}, nil)
	for h := int64(1); h <= chainLen; h++ {
		pre := n.state.Copy()
		// proposer: rotate deterministically over the current set
		prop := pre.Validators.GetProposer().Address
		blk, parts := pre.MakeBlock(h, makeTxs(h), lastCommit, prop)
		id := types.BlockID{Hash: blk.Hash(), PartsHeader: parts.Header()}
		if err := pre.ValidateBlock(blk); err != nil {
			panic(fmt.Sprintf("fixture: valid block %d rejected: %v", h, err))
		}
		ns, err := n.exec.ApplyBlock(n.state, id, blk)
		if err != nil {
			panic(fmt.Sprintf("fixture: ApplyBlock %d: %v", h, err))
		}
		n.state = ns
		commit := n.fullCommit(pre.Validators, h, id)
		steps[h] = step{pre: pre, block: blk, parts: parts, id: id, commit: commit, bytes: mustMarshal(blk)}
		lastCommit = commit
	}
	return steps
}
