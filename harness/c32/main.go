// C32: applied blocks are valid and block validation is robust.
//
// Bounded-exhaustive input enumeration against a spec re-implementation of block validation:
//   A. every structured single-field mutation (header scalars, every hash field x {nil, empty, short, long,
//      each single-bit flip, every other hash value in scope}, LastBlockID, proposer, data with all 8
//      fix-up combinations, commit: all 5^n validator-role assignments, resigned commits, truncations,
//      duplicates, all permutations, raw per-signature field mutations incl. all 512 signature bit flips)
//      of the valid block at each target height of a chain built through the real ApplyBlock;
//   B. every truncation and single-byte substitution of the amino bytes of the target blocks, and all
//      byte strings of length <= 2 — those that decode are validated;
//   C. block-sync: the REAL blockchain reactor (poolRoutine verify-then-apply) is driven by a scripted
//      peer serving mutated first/second blocks; nothing but the authentic chain may reach ApplyBlock.
// Oracle: ValidateBlock accepts <=> spec accepts; ValidateBlock never panics.
package main

import (
	"encoding/hex"
	"flag"
	"fmt"
	"os"
	"runtime/debug"
	"sort"
	"strings"
	"sync"
	"time"

	sm "github.com/gnolang/gno/tm2/pkg/bft/state"
	"github.com/gnolang/gno/tm2/pkg/bft/types"
	"verif/engine/vk"
)

var r *vk.Run

type fixture struct {
	node  *node
	steps []step
	specs []*specState
}

func newFixture() *fixture {
	n := newNode()
	fx := &fixture{node: n}
	fx.steps = buildChain(n)
	fx.specs = make([]*specState, len(fx.steps))
	for h := 1; h < len(fx.steps); h++ {
		st := fx.steps[h].pre
		// pre-warm memoised fields so that concurrent ValidateBlock calls only read
		st.LastValidators.TotalVotingPower()
		st.Validators.TotalVotingPower()
		st.NextValidators.TotalVotingPower()
		fx.specs[h] = specOf(st)
	}
	return fx
}

// ---- violation collection (grouped by class, minimal case reported) ----

type vrec struct {
	Case   string `json:"case"`
	Spec   string `json:"spec"`
	Impl   string `json:"impl"`
	Height int64  `json:"target_height"`
	Block  string `json:"block_amino_hex"`
}

var (
	vmu  sync.Mutex
	viol = map[string][]vrec{}
)

func report(class string, v vrec) {
	vmu.Lock()
	viol[class] = append(viol[class], v)
	vmu.Unlock()
}

func flushViolations() {
	var classes []string
	for c := range viol {
		classes = append(classes, c)
	}
	sort.Strings(classes)
	for _, c := range classes {
		vs := viol[c]
		sort.Slice(vs, func(i, j int) bool {
			if len(vs[i].Block) != len(vs[j].Block) {
				return len(vs[i].Block) < len(vs[j].Block)
			}
			return vs[i].Case < vs[j].Case
		})
		var names []string
		for i, v := range vs {
			if i < 12 {
				names = append(names, v.Case)
			}
		}
		r.Violation(c, map[string]any{"count": len(vs), "minimal": vs[0], "more_cases": names})
	}
}

func panicClass(rec any) string {
	s := fmt.Sprint(rec)
	if i := strings.IndexByte(s, '\n'); i >= 0 {
		s = s[:i]
	}
	if len(s) > 100 {
		s = s[:100]
	}
	return s
}

// catchSite runs f; on panic returns the recovered value and the innermost gno function on the stack.
func catchSite(f func()) (rec any, site string) {
	defer func() {
		if rec = recover(); rec != nil {
			site = "?"
			for _, ln := range strings.Split(string(debug.Stack()), "\n") {
				if strings.HasPrefix(ln, "github.com/gnolang/gno/") {
					fn := strings.TrimPrefix(ln, "github.com/gnolang/gno/")
					if i := strings.LastIndex(fn, "("); i > 0 {
						fn = fn[:i]
					}
					site = fn
					break
				}
			}
		}
	}()
	f()
	return
}

func errClass(err error) string {
	s := err.Error()
	// keep the static prefix of the message
	for _, cut := range []string{".", ":", " Expected", " expected", " got", " %", " 0", " 1", " 2", " 3", " 4", " 5", " 6", " 7", " 8", " 9", " -"} {
		if i := strings.Index(s, cut); i > 0 {
			s = s[:i]
		}
	}
	return s
}

// checkBytes: decode (as a receiving node would) and compare ValidateBlock with the spec.
// Returns false if the bytes do not decode.
func (fx *fixture) checkBytes(h int64, name string, bz []byte) bool {
	var b1, b2 *types.Block
	var derr error
	if rec := vk.Catch(func() {
		b1, derr = decodeBlock(bz)
		if derr == nil {
			b2, derr = decodeBlock(bz)
		}
	}); rec != nil {
		report("amino-decode-panic: "+panicClass(rec), vrec{Case: name, Impl: fmt.Sprint(rec), Height: h, Block: hex.EncodeToString(bz)})
		return false
	}
	r.Eval()
	if derr != nil {
		r.Outcome("undecodable")
		return false
	}
	spec := specValidate(fx.specs[h], b1)
	var err error
	rec, site := catchSite(func() { err = fx.steps[h].pre.ValidateBlock(b2) })
	if rec != nil {
		r.Outcome("impl:PANIC")
		report("ValidateBlock-panic@"+site+": "+panicClass(rec), vrec{Case: name, Spec: fmt.Sprintf("%+v", spec), Impl: "panic: " + fmt.Sprint(rec), Height: h, Block: hex.EncodeToString(bz)})
		return true
	}
	switch {
	case spec.accept && spec.unsignedMismatch:
		// every stated clause holds; only the unsigned CommitSig.ValidatorIndex/ValidatorAddress
		// disagree with the position. The property does not constrain the verdict here.
		if err == nil {
			r.Outcome("spec:accept(unsigned-field-mismatch)/impl:accept")
		} else {
			r.Outcome("spec:accept(unsigned-field-mismatch)/impl:reject")
		}
	case spec.accept && err != nil:
		r.Outcome("MISMATCH")
		report("valid-block-rejected: "+errClass(err), vrec{Case: name, Spec: "accept", Impl: err.Error(), Height: h, Block: hex.EncodeToString(bz)})
	case !spec.accept && err == nil:
		r.Outcome("MISMATCH")
		cl := "invalid-block-accepted: " + spec.reason
		if spec.unsignedMismatch {
			cl += " (with forged ValidatorIndex/Address)"
		}
		report(cl, vrec{Case: name, Spec: "reject: " + spec.reason, Impl: "accept", Height: h, Block: hex.EncodeToString(bz)})
	case spec.accept:
		r.Outcome("accept")
	default:
		r.Outcome("reject:" + spec.reason)
	}
	return true
}

func (fx *fixture) runStructured(heights []int64) (cases int64) {
	for _, h := range heights {
		ms := fx.mutationsFor(h)
		sort.Slice(ms, func(i, j int) bool { return ms[i].name < ms[j].name })
		for i := 1; i < len(ms); i++ {
			if ms[i].name == ms[i-1].name {
				r.HarnessError("duplicate mutation name %s", ms[i].name)
			}
		}
		var dec int64
		var mu sync.Mutex
		r.ParFor(len(ms), func(i int) {
			m := ms[i]
			name := fmt.Sprintf("h%d/%s", h, m.name)
			b, err := decodeBlock(fx.steps[h].bytes)
			if err != nil {
				r.HarnessError("fixture block does not decode: %v", err)
			}
			var bz []byte
			if rec := vk.Catch(func() {
				m.f(b)
				fx.applyFixups(h, b, m.fx)
				bz = mustMarshal(b)
			}); rec != nil {
				r.HarnessError("mutation %s panicked in the harness: %v", name, rec)
			}
			if fx.checkBytes(h, name, bz) {
				r.Distinct("S:" + string(bz))
				mu.Lock()
				dec++
				mu.Unlock()
			}
		})
		cases += dec
		r.Sample(map[string]any{"target_height": h, "structured_mutations": len(ms), "example": ms[len(ms)/2].name})
	}
	return
}

// byte-level: every truncation, every single-byte substitution (vals per position), every single-byte
// deletion and insertion.
func (fx *fixture) runBytes(heights []int64, allValues bool) (decoded int64) {
	var mu sync.Mutex
	for _, h := range heights {
		src := fx.steps[h].bytes
		n := len(src)
		r.ParFor(n+1, func(pos int) {
			var d int64
			// truncation to length pos
			if fx.checkBytes(h, fmt.Sprintf("h%d/bytes/trunc=%d", h, pos), src[:pos]) {
				r.Distinct("B:" + string(src[:pos]))
				d++
			}
			if pos < n {
				var vals []byte
				if allValues {
					for v := 0; v < 256; v++ {
						vals = append(vals, byte(v))
					}
				} else {
					o := src[pos]
					set := map[byte]bool{}
					for bit := 0; bit < 8; bit++ {
						set[o^(1<<bit)] = true
					}
					for _, v := range []byte{0, 1, 0x7f, 0x80, 0xff, o + 1, o - 1} {
						set[v] = true
					}
					for v := 0; v < 256; v++ {
						if set[byte(v)] {
							vals = append(vals, byte(v))
						}
					}
				}
				for _, v := range vals {
					if v == src[pos] {
						continue
					}
					m := append([]byte(nil), src...)
					m[pos] = v
					if fx.checkBytes(h, fmt.Sprintf("h%d/bytes/sub[%d]=%02x", h, pos, v), m) {
						r.Distinct("B:" + string(m))
						d++
					}
				}
				// deletion of one byte
				m := append(append([]byte(nil), src[:pos]...), src[pos+1:]...)
				if fx.checkBytes(h, fmt.Sprintf("h%d/bytes/del[%d]", h, pos), m) {
					r.Distinct("B:" + string(m))
					d++
				}
			}
			// insertion of 0x00 / 0x01 / 0xff at pos
			for _, v := range []byte{0, 1, 0xff} {
				m := append(append(append([]byte(nil), src[:pos]...), v), src[pos:]...)
				if fx.checkBytes(h, fmt.Sprintf("h%d/bytes/ins[%d]=%02x", h, pos, v), m) {
					r.Distinct("B:" + string(m))
					d++
				}
			}
			mu.Lock()
			decoded += d
			mu.Unlock()
		})
	}
	return
}

// all byte strings of length <= 2 validated against every target state.
func (fx *fixture) runShort(heights []int64) (decoded int64) {
	var mu sync.Mutex
	r.ParFor(257, func(i int) {
		var d int64
		var list [][]byte
		if i == 256 {
			list = append(list, []byte{})
			for a := 0; a < 256; a++ {
				list = append(list, []byte{byte(a)})
			}
		} else {
			for b := 0; b < 256; b++ {
				list = append(list, []byte{byte(i), byte(b)})
			}
		}
		for _, bz := range list {
			for _, h := range heights {
				if fx.checkBytes(h, fmt.Sprintf("h%d/short/%x", h, bz), bz) {
					r.Distinct("B:" + string(bz))
					d++
				}
			}
		}
		mu.Lock()
		decoded += d
		mu.Unlock()
	})
	return
}

func main() {
	worker := flag.Bool("syncworker", false, "internal: block-sync worker")
	wfrom := flag.Int("from", 0, "internal: first sync case index")
	r = vk.New("exploration")
	if *worker {
		syncWorkerMain(*wfrom)
		return
	}
	r.SetBudget(5*time.Minute, 25*time.Minute)
	fx := newFixture()
	defer fx.node.stop()

	// sanity of the fixture / oracle: the valid chain is accepted by both
	for h := int64(1); h <= chainLen; h++ {
		b, _ := decodeBlock(fx.steps[h].bytes)
		if v := specValidate(fx.specs[h], b); !v.accept || v.unsignedMismatch {
			r.HarnessError("oracle rejects the valid fixture block %d: %+v", h, v)
		}
	}
	l3, l4 := fx.steps[3].pre.LastValidators, fx.steps[4].pre.LastValidators
	if string(l3.Hash()) == string(l4.Hash()) || string(fx.steps[3].pre.Validators.Hash()) == string(fx.steps[3].pre.NextValidators.Hash()) || string(fx.steps[3].pre.Validators.Hash()) == string(l3.Hash()) {
		r.HarnessError("fixture: validator sets do not differ as intended")
	}

	heights := []int64{1, 2, 3, 4}
	structured := fx.runStructured(heights)
	var byteDecoded int64
	if r.Quick() {
		byteDecoded = fx.runBytes([]int64{1, 4}, false)
	} else {
		byteDecoded = fx.runBytes(heights, true)
	}
	shortDecoded := fx.runShort(heights)

	syncStats := runSync(fx)

	flushViolations()
	r.Assumptions = []string{
		"oracle = spec re-implementation: own merkle, declarative quorum (3*tallied > 2*total) and weighted median by POSITION, signature validity from the table of statements the fixture validators really signed (ed25519 unforgeability assumed)",
		"expected app/results/validators/next-validators/consensus hashes are read from the sm.State the block is validated against (trusted input); amino encoding of CommitSig is trusted for LastCommitHash leaves",
		"CommitSig.ValidatorIndex / ValidatorAddress are not covered by signatures; when all stated clauses hold and only these disagree with the position the accept/reject verdict is not constrained (no-panic still is)",
		"every mutated block is amino-encoded and decoded afresh before validation, as a receiving node would see it (no stale memoised hashes)",
		"block-sync: real BlockchainReactor.poolRoutine with a scripted Switch/peer (see sync.go); timing only decides when a run is considered quiescent (the pool reports caught-up), never the verdict",
	}
	_ = sm.State{}
	_ = os.Args
	r.Finish("structured: every listed single-field/commit/data mutation x fix-up combination at target heights 1..4; bytes: every truncation, single-byte substitution/deletion/insertion of the amino block bytes (quick: heights 1,4 and 15 values per byte; thorough: heights 1..4 and all 255 values) and all byte strings of length <= 2; sync: every scripted corruption of every served block through the real reactor loop. distinct = distinct decodable block encodings validated",
		true, map[string]any{
			"validators": nVals, "chain_length": chainLen, "target_heights": heights,
			"structured_cases_decoded": structured, "byte_level_cases_decoded": byteDecoded, "short_strings_decoded": shortDecoded,
			"block_bytes": map[string]int{"h1": len(fx.steps[1].bytes), "h2": len(fx.steps[2].bytes), "h3": len(fx.steps[3].bytes), "h4": len(fx.steps[4].bytes)},
			"sync": syncStats,
		})
}
