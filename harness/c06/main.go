// C06: the persisted object graph is consistent after every transaction.
//
// The C03 exploration (realm families x all op sequences <= k x all cuts into transactions, each transaction a
// MsgCall through DeliverTx of the real gno.land application) plus a two-realm attach/detach/share/move/delete
// family. After EVERY transaction an independent checker (rx.GraphChecker; it does not use the VM's own child
// walkers) reads the persisted objects of the family's packages from the base store and verifies: stored hash
// prefix == hash of the stored bytes; RefCount == number of persisted references (RefValue occurrences in the
// amino-JSON of all objects); OwnerID recorded iff RefCount==1 and never escaped, and the owner holds a
// reference; no dangling reference; escaped objects <-> oid->hash entries of the main store (with the current
// hash); every object reachable from a package object unless kept by a reference cycle.
//
// Family s11 (shapes.AllC06 only; added after a seeded miss, see mutants/NOTES.md): in-place element shifts of stored
// slices of pointers / maps / interface values through append and copy (remove idiom for every i, copy-shift with and
// without clearing the stale tail slot, insert shift, truncation, append into the spare capacity left behind).
package main

import (
	"flag"
	"fmt"
	"runtime"
	"runtime/debug"
	"strings"
	"sync"
	"time"

	"verif/engine/vk"
	"verif/harness/c03/rx"
	"verif/harness/c03/shapes"
)

func main() {
	fams := flag.String("fams", "", "comma-separated family names (default all)")
	kflag := flag.Int("k", 0, "max sequence length")
	nflag := flag.Int("n", 0, "menu size")
	gcp := flag.Int("gc", 30, "GC percent")
	dbg := flag.String("debug", "", "fam:seg|seg replay and print objects")
	r := vk.New("model_checking")
	debug.SetGCPercent(*gcp)
	r.SetBudget(240*time.Second, 25*time.Minute)
	if r.Quick() && runtime.GOMAXPROCS(0) > 8 {
		runtime.GOMAXPROCS(8) // one chain per worker costs ~4 CPU-s to create: 8 workers keep the quick tier within ~150 CPU-s
	}
	k, n := 4, 4
	if r.Thorough() {
		k, n = 5, 6
	}
	if *kflag > 0 {
		k = *kflag
	}
	if *nflag > 0 {
		n = *nflag
	}
	var sel []*rx.Family
	ownN := map[string][4]int{"s11": {8, 12, 3, 4}}
	for _, f := range shapes.AllC06() {
		if *fams != "" && !strings.Contains(","+*fams+",", ","+f.Name+",") {
			continue
		}
		fn := n
		if r.Quick() && *nflag == 0 && f.QuickN > 0 {
			fn = f.QuickN
		}
		// s11 (in-place shifts of stored slices of objects): its own menu size and maximal sequence length
		// {n quick, n thorough, k quick, k thorough}; most of its ops are cheap and collide under state memoisation
		if o, ok := ownN[f.Name]; ok && *nflag == 0 {
			fn, f.K = o[0], o[2]
			if r.Thorough() {
				fn, f.K = o[1], o[3]
			}
			if *kflag > 0 {
				f.K = 0
			}
		}
		if len(f.Ops) > fn {
			f.Ops = f.Ops[:fn]
		}
		sel = append(sel, f)
	}
	if *dbg != "" {
		// -debug fam:seg|seg : replay on a fresh chain with committed blocks, print the issues and all objects
		parts := strings.SplitN(*dbg, ":", 2)
		for _, f := range sel {
			if f.Name != parts[0] {
				continue
			}
			e, err := rx.NewEnvCommitted(f.Pkgs())
			if err != nil {
				r.HarnessError("%v", err)
			}
			g := rx.NewGraphChecker()
			for _, seg := range strings.Split(parts[1], "|") {
				res := e.Call(f.Path, "Do", seg)
				fmt.Printf("== tx Do(%q): ok=%v %s %s\n", seg, res.OK, res.Data, rx.FirstLine(res.Log))
				pid := rx.PkgID(f.Path)
				for _, n := range []int{2} {
					mh, _ := e.C.Get("main", fmt.Sprintf("%s:%d", pid, n))
					ov, _ := e.C.Get("base", fmt.Sprintf("oid:%s:%d", pid, n))
					oh := ""
					if len(ov) >= 20 {
						oh = ov[:20]
					}
					fmt.Printf("   package block :%d  iavl-hash=%x stored-hash=%x\n", n, mh, oh)
				}
				for _, is := range g.Check(e, f.Paths()) {
					fmt.Printf("   ISSUE %s: %s\n", is.Kind, is.Detail)
				}
			}
			for _, p := range f.Paths() {
				objs := map[string]string{}
				for id, v := range e.Objects(p) {
					objs["oid:"+id] = v
				}
				fmt.Println(rx.DebugObjects(objs))
			}
		}
		return
	}
	var mu sync.Mutex
	checkers := map[*rx.Env]*rx.GraphChecker{}
	var checks, merkle int64
	x := &rx.Explorer{R: r, Fams: sel, K: k, ColdDump: false, Memo: true}
	x.Graph = func(e *rx.Env, f *rx.Family) []rx.GraphIssue {
		mu.Lock()
		g := checkers[e]
		if g == nil {
			g = rx.NewGraphChecker()
			checkers[e] = g
		}
		mu.Unlock()
		is := g.Check(e, f.Paths())
		mu.Lock()
		checks++
		merkle += g.MerkleObs
		g.MerkleObs = 0
		mu.Unlock()
		return is
	}
	t0 := time.Now()
	x.Run()
	fmt.Printf("explore: nodes=%d txs=%d states=%d memo_hits=%d graph_checks=%d stale_merkle_links=%d mismatches=%d in %.1fs\n",
		x.Nodes.Load(), x.Txs.Load(), x.States.Load(), x.MemoHits.Load(), checks, merkle, len(x.Mis), time.Since(t0).Seconds())
	// aborted transactions of the two-realm family: print the minimal history per abort class (observation)
	{
		best := map[string]rx.Mismatch{}
		cnt := map[string]int{}
		for _, a := range x.Aborts {
			cnt[a.Class]++
			b, ok := best[a.Class]
			if !ok || len(a.Seq) < len(b.Seq) || (len(a.Seq) == len(b.Seq) && (len(a.Hist) < len(b.Hist) || (len(a.Hist) == len(b.Hist) && strings.Join(a.Hist, "|") < strings.Join(b.Hist, "|")))) {
				best[a.Class] = a
			}
		}
		for c, a := range best {
			fmt.Printf("OBSERVATION aborted tx (%d): class=%q minimal history %s txs=%v\n", cnt[c], c, a.Fam, a.Hist)
		}
		cls := map[string]int{}
		for _, m := range x.Mis {
			cls[m.Class]++
		}
		fmt.Println("mismatch classes:", cls)
	}
	x.ReportOnly("graph:")
	if merkle > 0 {
		r.Outcome("obs:stale-merkle-link(RefValue.Hash of an owned child != child's stored hash)")
	}
	var names []string
	for _, f := range sel {
		names = append(names, fmt.Sprintf("%s(%s)", f.Name, f.Ops))
	}
	r.Sample(map[string]any{"families": names, "k": k})
	r.Finish("graph invariants after every transaction of: all op sequences <= k x all cuts into transactions, per realm family", !r.Capped(), map[string]any{
		"states": x.States.Load(), "transitions": x.Txs.Load(), "traces_validated_against_impl": x.Txs.Load(), "depth": k,
		"histories": x.Nodes.Load(), "memo_hits": x.MemoHits.Load(), "graph_checks": checks, "stale_merkle_links_observed": merkle,
	})
}
