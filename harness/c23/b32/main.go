// C23 unscaled child: same explorer on the real B=32 code (built without the parameter-scaling overlay).
package main

import "verif/harness/c23/bpx"

func main() { bpx.ChildMain(bpx.ChildC23) }
