// C23: the B+ tree is a correct versioned ordered map (parent binary: B=4 build; spawns the unscaled B=32 child).
package main

import "verif/harness/c23/bpx"

func main() { bpx.MainC23() }
