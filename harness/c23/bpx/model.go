package bpx

import (
	"bytes"
	"fmt"
	"sort"
	"strconv"
	"strings"
)

// ---------- universe ----------

// Universe is the finite key alphabet of one exploration. Values are a function of (key, working version),
// so a Set repeated in one session rewrites the same bytes and a Set in a later session rewrites different ones.
type Universe struct {
	Keys     [][]byte // strictly ascending
	EmptyKey int      // index of the key whose value is the empty slice on even versions (-1: none)
	valCache [][]byte
}

func NewUniverse(keys []string, emptyKey int) *Universe {
	u := &Universe{EmptyKey: emptyKey}
	ks := append([]string(nil), keys...)
	sort.Strings(ks)
	for i, k := range ks {
		if i > 0 && ks[i-1] == k {
			panic("duplicate key in universe")
		}
		u.Keys = append(u.Keys, []byte(k))
	}
	return u
}

// Val is the value written by Set(key ki) in the session whose working version is wv.
func (u *Universe) Val(ki int, wv int16) []byte {
	if ki == u.EmptyKey && wv%2 == 0 {
		return []byte{}
	}
	b := make([]byte, 0, len(u.Keys[ki])+6)
	b = append(b, u.Keys[ki]...)
	b = append(b, '@')
	b = strconv.AppendInt(b, int64(wv), 10)
	return b
}

func (u *Universe) Index(key []byte) int {
	i := sort.Search(len(u.Keys), func(i int) bool { return bytes.Compare(u.Keys[i], key) >= 0 })
	if i < len(u.Keys) && bytes.Equal(u.Keys[i], key) {
		return i
	}
	return -1
}

// ---------- operations ----------

type OpKind uint8

const (
	OpSet OpKind = iota
	OpRemove
	OpSave
	OpRollback
	OpReload   // drop the tree object, open a new one on the same DB, Load()
	OpLoadVer  // LoadVersion(A)
	OpPrune    // DeleteVersionsTo(A)
	OpOpenImm  // GetImmutable(A), kept open
	OpCloseImm // Close the open snapshot
)

type Op struct {
	K OpKind
	A int16 // key index, or version
}

func (o Op) Str(u *Universe) string {
	switch o.K {
	case OpSet:
		return "Set(" + string(u.Keys[o.A]) + ")"
	case OpRemove:
		return "Remove(" + string(u.Keys[o.A]) + ")"
	case OpSave:
		return "SaveVersion"
	case OpRollback:
		return "Rollback"
	case OpReload:
		return "Reopen+Load"
	case OpLoadVer:
		return fmt.Sprintf("LoadVersion(%d)", o.A)
	case OpPrune:
		return fmt.Sprintf("DeleteVersionsTo(%d)", o.A)
	case OpOpenImm:
		return fmt.Sprintf("GetImmutable(%d)", o.A)
	case OpCloseImm:
		return "CloseImmutable"
	}
	return "?"
}

func PathStr(u *Universe, p []Op) string {
	s := make([]string, len(p))
	for i, o := range p {
		s[i] = o.Str(u)
	}
	return strings.Join(s, " ")
}

// ---------- reference model: a per-version sorted map ----------

// Content maps key index -> 0 (absent) or the working version the value was written at (value = Universe.Val).
type Content []int16

func (c Content) Clone() Content { return append(Content(nil), c...) }
func (c Content) Equal(d Content) bool {
	if len(c) != len(d) {
		return false
	}
	for i := range c {
		if c[i] != d[i] {
			return false
		}
	}
	return true
}
func (c Content) Size() int {
	n := 0
	for _, v := range c {
		if v != 0 {
			n++
		}
	}
	return n
}
func (c Content) String() string {
	var sb strings.Builder
	for i, v := range c {
		if v != 0 {
			sb.WriteString(strconv.Itoa(i))
			sb.WriteByte(':')
			sb.WriteString(strconv.Itoa(int(v)))
			sb.WriteByte(',')
		}
	}
	return sb.String()
}

type Model struct {
	U        *Universe
	Vers     map[int64]Content // retained saved versions (never mutated after creation)
	Hashes   map[int64]string  // root hash returned when the version was saved
	First    int64             // 0 = nothing saved
	Latest   int64
	Ver      int64 // version the working tree is based on
	Work     Content
	Dirty    bool // a mutation was published since the last save/rollback/load
	Poisoned bool // a failed SaveVersion left the session unusable until Rollback/Load
	ImmVer   int64
	Imm      Content
}

func NewModel(u *Universe) *Model {
	return &Model{U: u, Vers: map[int64]Content{}, Hashes: map[int64]string{}, Work: make(Content, len(u.Keys))}
}

func (m *Model) Retained() []int64 {
	var vs []int64
	for v := range m.Vers {
		vs = append(vs, v)
	}
	sort.Slice(vs, func(i, j int) bool { return vs[i] < vs[j] })
	return vs
}

func (m *Model) base() Content {
	if c, ok := m.Vers[m.Ver]; ok {
		return c.Clone()
	}
	return make(Content, len(m.U.Keys))
}

// Canon is the canonical string of the model state (part of the state-merging key).
func (m *Model) Canon() string {
	var sb strings.Builder
	fmt.Fprintf(&sb, "f%d l%d v%d d%v p%v i%d|w:%s", m.First, m.Latest, m.Ver, m.Dirty, m.Poisoned, m.ImmVer, m.Work.String())
	for _, v := range m.Retained() {
		fmt.Fprintf(&sb, "|%d:%s", v, m.Vers[v].String())
	}
	return sb.String()
}

// Res is what the real tree answered to one operation.
type Res struct {
	Err     error
	Updated bool
	Found   bool
	Old     []byte
	Ver     int64
	Hash    []byte
}

// Step checks the real answer against the model and advances the model.  It returns "" or a discrepancy.
// Two implementation freedoms are accepted (they are not part of the property): an idempotent re-save of
// identical contents may succeed or be refused as "different hash" (shape-dependent), and pruning may be refused.
func (m *Model) Step(op Op, r Res) string {
	wv := m.Ver + 1
	switch op.K {
	case OpSet:
		if m.Poisoned {
			if r.Err == nil {
				return "Set succeeded on a poisoned session"
			}
			return ""
		}
		if r.Err != nil {
			return "Set failed: " + r.Err.Error()
		}
		existed := m.Work[op.A] != 0
		if r.Updated != existed {
			return fmt.Sprintf("Set returned updated=%v, key existed=%v", r.Updated, existed)
		}
		m.Work[op.A] = int16(wv)
		m.Dirty = true
	case OpRemove:
		if m.Poisoned {
			if r.Err == nil {
				return "Remove succeeded on a poisoned session"
			}
			return ""
		}
		if r.Err != nil {
			return "Remove failed: " + r.Err.Error()
		}
		existed := m.Work[op.A] != 0
		if r.Found != existed {
			return fmt.Sprintf("Remove returned found=%v, key existed=%v", r.Found, existed)
		}
		if existed {
			want := m.U.Val(int(op.A), m.Work[op.A])
			if !bytes.Equal(r.Old, want) {
				return fmt.Sprintf("Remove returned old value %q, want %q", r.Old, want)
			}
			m.Work[op.A] = 0
			m.Dirty = true
		}
	case OpSave:
		if m.Poisoned {
			if r.Err == nil {
				return "SaveVersion succeeded on a poisoned session"
			}
			return ""
		}
		if old, exists := m.Vers[wv]; exists {
			if r.Err != nil {
				m.Poisoned = true // refused: session must be rolled back
				return ""
			}
			if !old.Equal(m.Work) {
				return fmt.Sprintf("SaveVersion overwrote existing version %d with different contents", wv)
			}
			if r.Ver != wv {
				return fmt.Sprintf("idempotent SaveVersion returned version %d, want %d", r.Ver, wv)
			}
			if string(r.Hash) != m.Hashes[wv] {
				return fmt.Sprintf("idempotent SaveVersion of v%d returned a different hash", wv)
			}
			m.Ver, m.Work, m.Dirty = wv, old.Clone(), false
			return ""
		}
		if r.Err != nil {
			return "SaveVersion failed: " + r.Err.Error()
		}
		if r.Ver != wv {
			return fmt.Sprintf("SaveVersion returned version %d, want %d", r.Ver, wv)
		}
		m.Vers[wv] = m.Work.Clone()
		m.Hashes[wv] = string(r.Hash)
		m.Latest = wv
		if m.First == 0 {
			m.First = wv
		}
		m.Ver, m.Dirty = wv, false
	case OpRollback:
		m.Work, m.Dirty, m.Poisoned = m.base(), false, false
	case OpReload:
		if r.Err != nil {
			return "Load failed: " + r.Err.Error()
		}
		if r.Ver != m.Latest {
			return fmt.Sprintf("Load returned version %d, want %d", r.Ver, m.Latest)
		}
		m.Ver = m.Latest
		m.Work, m.Dirty, m.Poisoned = m.base(), false, false
		m.ImmVer, m.Imm = 0, nil
	case OpLoadVer:
		v := int64(op.A)
		if _, ok := m.Vers[v]; !ok {
			if r.Err == nil {
				return fmt.Sprintf("LoadVersion(%d) of a missing version succeeded", v)
			}
			return ""
		}
		if r.Err != nil {
			return fmt.Sprintf("LoadVersion(%d) failed: %v", v, r.Err)
		}
		if r.Ver != m.Latest {
			return fmt.Sprintf("LoadVersion(%d) returned latest=%d, want %d", v, r.Ver, m.Latest)
		}
		m.Ver = v
		m.Work, m.Dirty, m.Poisoned = m.base(), false, false
	case OpPrune:
		if r.Err != nil {
			return "" // refused: nothing may have changed (checked by the observers)
		}
		to := int64(op.A)
		if to < m.First {
			return ""
		}
		for v := m.First; v <= to; v++ {
			delete(m.Vers, v)
			delete(m.Hashes, v)
		}
		m.First = to + 1
		if len(m.Vers) == 0 {
			m.First, m.Latest = 0, 0 // (pruned everything: the observers will object)
		}
	case OpOpenImm:
		v := int64(op.A)
		c, ok := m.Vers[v]
		if !ok {
			if r.Err == nil {
				return fmt.Sprintf("GetImmutable(%d) of a missing version succeeded", v)
			}
			return ""
		}
		if r.Err != nil {
			return fmt.Sprintf("GetImmutable(%d) failed: %v", v, r.Err)
		}
		m.ImmVer, m.Imm = v, c // contents are immutable, sharing is fine
	case OpCloseImm:
		m.ImmVer, m.Imm = 0, nil
	}
	return ""
}

// PruneShouldSucceed tells whether a refusal would be surprising (used for outcome statistics / vacuity guard only).
func (m *Model) PruneShouldSucceed(to int64) bool {
	if to >= m.Latest || to < m.First || m.Dirty || m.Poisoned || m.Ver <= to {
		return false
	}
	if m.ImmVer != 0 && m.ImmVer <= to {
		return false
	}
	return true
}

// KV is one expected entry.
type KV struct {
	K, V []byte
	Idx  int // key index in the universe
}

func (m *Model) Entries(c Content) []KV {
	out := make([]KV, 0, 16)
	for i, v := range c {
		if v != 0 {
			out = append(out, KV{m.U.Keys[i], m.U.Val(i, v), i})
		}
	}
	return out
}
