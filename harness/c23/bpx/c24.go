package bpx

import (
	"bytes"
	"errors"
	"fmt"
	"sync/atomic"
	"time"

	"github.com/gnolang/gno/tm2/pkg/bptree"
	"github.com/gnolang/gno/tm2/pkg/db/memdb"

	"verif/engine/vk"
)

// ---------- C24: hashes depend only on the operation history ----------

// DiffCfg is one configuration of the differential: everything in it must be invisible in hashes and contents.
type DiffCfg struct {
	Reopen uint32 // bit i set: close + reopen + Load after the i-th SaveVersion of the history
	Cache  int
	Fast   int // 0 off, 1 on, 2 toggled at every reopen (starting on)
	Prune  int // 0 never, 1 every version (keep only the latest), 2 keep the two latest
}

func (c DiffCfg) String() string {
	return fmt.Sprintf("reopen=%b cache=%d fast=%s prune=%s", c.Reopen, c.Cache, []string{"off", "on", "toggle"}[c.Fast], []string{"never", "every-version", "keep-2"}[c.Prune])
}

// diffConfigs enumerates the configuration set for a history with `saves` version boundaries.
// thorough: full product {reopen subsets} x {0,1,2,10000} x {off,on,toggle} x {never,every,keep-2}.
// quick: full product over {reopen subsets} x {0,10000} x {off,on} x {never,every}, plus every remaining factor value
// (cache 1, cache 2, fast toggle, keep-2) against reopen-none and reopen-all.
func diffConfigs(saves int, thorough bool) []DiffCfg {
	if saves > 5 {
		saves = 5
	}
	var out []DiffCfg
	nsub := uint32(1) << uint(saves)
	if thorough {
		for r := uint32(0); r < nsub; r++ {
			for _, c := range []int{0, 1, 2, 10000} {
				for f := 0; f < 3; f++ {
					for p := 0; p < 3; p++ {
						out = append(out, DiffCfg{r, c, f, p})
					}
				}
			}
		}
		return out
	}
	for r := uint32(0); r < nsub; r++ {
		for _, c := range []int{0, 10000} {
			for f := 0; f < 2; f++ {
				for p := 0; p < 2; p++ {
					out = append(out, DiffCfg{r, c, f, p})
				}
			}
		}
	}
	for _, r := range []uint32{0, nsub - 1} {
		out = append(out, DiffCfg{r, 1, 0, 2}, DiffCfg{r, 2, 2, 0}, DiffCfg{r, 1, 2, 1}, DiffCfg{r, 2, 1, 2}, DiffCfg{r, 10000, 2, 2})
	}
	return out
}

type hashTrace struct {
	steps [][2]string      // after every op: WorkingHash, Hash
	vers  map[int64]string // root hash of every version ever saved (as returned by SaveVersion)
}

// runHistory executes a logical history (Set/Remove/Save/Rollback) under cfg and returns its hash trace,
// the final system and the final model. start is nil (empty DB) or a DB snapshot to clone and Load.
func runHistory(u *Universe, start *memdb.MemDB, startModel *Model, ops []Op, cfg DiffCfg) (tr hashTrace, s *Sys, m *Model, problem string) {
	fastOn := cfg.Fast != 0
	if start != nil {
		s = NewSysOn(u, Cfg{Cache: cfg.Cache, Fast: fastOn}, CloneDB(start))
		m = startModel.Clone()
		res, p := s.Apply(Op{K: OpReload})
		if p != nil {
			return tr, s, m, fmt.Sprintf("panic while loading the start snapshot: %v", p)
		}
		if d := m.Step(Op{K: OpReload}, res); d != "" {
			return tr, s, m, "loading the start snapshot: " + d
		}
	} else {
		s = NewSys(u, Cfg{Cache: cfg.Cache, Fast: fastOn})
		m = NewModel(u)
	}
	tr.vers = map[int64]string{}
	boundary := 0
	for i, op := range ops {
		res, p := s.Apply(op)
		if p != nil {
			return tr, s, m, fmt.Sprintf("op %d %s: panic: %v", i, op.Str(u), p)
		}
		if d := m.Step(op, res); d != "" {
			return tr, s, m, fmt.Sprintf("op %d %s: %s", i, op.Str(u), d)
		}
		if op.K == OpSave && res.Err == nil {
			tr.vers[res.Ver] = string(res.Hash)
			// configuration actions at the version boundary
			switch cfg.Prune {
			case 1:
				if to := res.Ver - 1; to >= m.First && to >= 1 {
					pr, pp := s.Apply(Op{OpPrune, int16(to)})
					if pp != nil {
						return tr, s, m, fmt.Sprintf("DeleteVersionsTo(%d): panic: %v", to, pp)
					}
					if pr.Err != nil {
						return tr, s, m, fmt.Sprintf("DeleteVersionsTo(%d) refused on a clean session: %v", to, pr.Err)
					}
					m.Step(Op{OpPrune, int16(to)}, pr)
				}
			case 2:
				if to := res.Ver - 2; to >= m.First && to >= 1 {
					pr, pp := s.Apply(Op{OpPrune, int16(to)})
					if pp != nil {
						return tr, s, m, fmt.Sprintf("DeleteVersionsTo(%d): panic: %v", to, pp)
					}
					if pr.Err != nil {
						return tr, s, m, fmt.Sprintf("DeleteVersionsTo(%d) refused on a clean session: %v", to, pr.Err)
					}
					m.Step(Op{OpPrune, int16(to)}, pr)
				}
			}
			if boundary < 32 && cfg.Reopen&(1<<uint(boundary)) != 0 {
				if cfg.Fast == 2 {
					s.Cfg.Fast = !s.Cfg.Fast
				}
				rr, rp := s.Apply(Op{K: OpReload})
				if rp != nil {
					return tr, s, m, fmt.Sprintf("reopen after version %d: panic: %v", res.Ver, rp)
				}
				if d := m.Step(Op{K: OpReload}, rr); d != "" {
					return tr, s, m, fmt.Sprintf("reopen after version %d: %s", res.Ver, d)
				}
			}
			boundary++
		}
		tr.steps = append(tr.steps, [2]string{string(s.T.WorkingHash()), string(s.T.Hash())})
	}
	return tr, s, m, ""
}

func countSaves(ops []Op) int {
	n := 0
	for _, o := range ops {
		if o.K == OpSave {
			n++
		}
	}
	return n
}

// C24Stats are shared counters of the differential.
type C24Stats struct {
	Histories, ConfigRuns, Imports, HashCompares atomic.Int64
}

// C24Hook returns the per-new-state hook: differential over configurations + export/import of a new version.
func C24Hook(sink Sink, st *C24Stats, thorough bool) Hook {
	return func(sc *Scenario, s *Sys, m *Model, work *bptree.VerifNode, path []Op) string {
		if len(path) == 0 || m.Poisoned {
			return ""
		}
		var ops []Op
		var start *memdb.MemDB
		var startModel *Model
		if sc.Snapshot {
			start, startModel = sc.baseDB, sc.baseModel
			ops = path
		} else {
			ops = append(append([]Op(nil), sc.Prefill...), path...)
		}
		st.Histories.Add(1)
		ref, rs, rm, prob := runHistory(sc.U, start, startModel, ops, DiffCfg{0, 10000, 0, 0})
		if prob != "" {
			return "reference run: " + prob
		}
		_ = rs
		saves := countSaves(ops)
		for _, cfg := range diffConfigs(saves, thorough) {
			st.ConfigRuns.Add(1)
			sink.Eval()
			tr, cs, cm, prob := runHistory(sc.U, start, startModel, ops, cfg)
			if prob != "" {
				return fmt.Sprintf("[%s] %s", cfg, prob)
			}
			for i := range ref.steps {
				st.HashCompares.Add(2)
				if tr.steps[i][0] != ref.steps[i][0] {
					return fmt.Sprintf("[%s] WorkingHash() after op %d (%s) differs from the reference configuration", cfg, i, ops[i].Str(sc.U))
				}
				if tr.steps[i][1] != ref.steps[i][1] {
					return fmt.Sprintf("[%s] Hash() after op %d (%s) differs from the reference configuration", cfg, i, ops[i].Str(sc.U))
				}
			}
			for v, h := range ref.vers {
				st.HashCompares.Add(1)
				if tr.vers[v] != h {
					return fmt.Sprintf("[%s] SaveVersion hash of version %d differs from the reference configuration", cfg, v)
				}
			}
			// contents and retained version hashes in this configuration (Get goes through the fast index when enabled)
			if !cm.Work.Equal(rm.Work) {
				return fmt.Sprintf("[%s] HARNESS: model diverged", cfg)
			}
			if d := Observe(cs, cm, sc.Probe, true); d != "" {
				return fmt.Sprintf("[%s] %s", cfg, d)
			}
			if cfg.Fast != 0 {
				sink.Outcome("cfg_fast_index")
			}
			if cfg.Prune != 0 {
				sink.Outcome("cfg_pruned")
			}
			if cfg.Reopen != 0 {
				sink.Outcome("cfg_reopened")
			}
		}
		// export -> import of the version just created
		if path[len(path)-1].K == OpSave && m.Latest > 0 && !m.Dirty {
			for variant := 0; variant < 2; variant++ {
				st.Imports.Add(1)
				sink.Eval()
				if d := exportImport(sc, s, m, m.Latest, variant); d != "" {
					return d
				}
			}
		}
		return ""
	}
}

// exportImport exports version v of s and imports it into an empty DB; hash, contents and shape must be reproduced,
// also after the importing tree is closed and reopened. variant 0: public Export(nil) (value resolver), cache 10000;
// variant 1: Export with the tree's own nodeDB, target cache 0 + fast index.
func exportImport(sc *Scenario, s *Sys, m *Model, v int64, variant int) string {
	imm, err := s.T.GetImmutable(v)
	if err != nil {
		return fmt.Sprintf("export: GetImmutable(%d): %v", v, err)
	}
	defer imm.Close()
	want := m.Vers[v]
	if want.Size() == 0 {
		if _, err := imm.Export(nil); !errors.Is(err, bptree.ErrNotInitializedTree) {
			return fmt.Sprintf("export of an empty version: err=%v", err)
		}
		return ""
	}
	var exp *bptree.Exporter
	if variant == 0 {
		exp, err = imm.Export(nil)
	} else {
		exp, err = bptree.VerifExport(imm)
	}
	if err != nil {
		return fmt.Sprintf("Export(v%d): %v", v, err)
	}
	var nodes []*bptree.ExportNode
	for {
		n, err := exp.Next()
		if errors.Is(err, bptree.ErrExportDone) {
			break
		}
		if err != nil {
			exp.Close()
			return fmt.Sprintf("Exporter.Next: %v", err)
		}
		nodes = append(nodes, n)
	}
	exp.Close()
	cfg := Cfg{Cache: 10000}
	if variant == 1 {
		cfg = Cfg{Cache: 0, Fast: true}
	}
	dst := NewSys(sc.U, cfg)
	imp, err := dst.T.Import(v)
	if err != nil {
		return fmt.Sprintf("Import(%d) into an empty DB: %v", v, err)
	}
	for i, n := range nodes {
		if err := imp.Add(n); err != nil {
			return fmt.Sprintf("Importer.Add(node %d of %d): %v", i, len(nodes), err)
		}
	}
	if err := imp.Commit(); err != nil {
		return fmt.Sprintf("Importer.Commit: %v", err)
	}
	imp.Close()
	check := func(stage string) string {
		if !bytes.Equal(dst.T.Hash(), []byte(m.Hashes[v])) {
			return fmt.Sprintf("import(%s): imported version %d has a different root hash than the exported one", stage, v)
		}
		if dst.T.Version() != v {
			return fmt.Sprintf("import(%s): Version()=%d want %d", stage, dst.T.Version(), v)
		}
		if d := CheckReads(m, want, dst.T, sc.Probe); d != "" {
			return fmt.Sprintf("import(%s): %s", stage, d)
		}
		di, err := bptree.VerifDumpWorking(dst.T)
		if err != nil {
			return fmt.Sprintf("import(%s): walk: %v", stage, err)
		}
		ds, err := bptree.VerifDumpImm(imm)
		if err != nil {
			return fmt.Sprintf("import(%s): walk of the source: %v", stage, err)
		}
		if ShapeString(di, false) != ShapeString(ds, false) {
			return fmt.Sprintf("import(%s): imported tree shape differs from the exported one", stage)
		}
		if p, _ := CheckStructure(di, Params()); p != "" {
			return fmt.Sprintf("import(%s): structure: %s", stage, p)
		}
		return ""
	}
	if d := check("committed"); d != "" {
		return d
	}
	res, p := dst.Apply(Op{K: OpReload})
	if p != nil || res.Err != nil || res.Ver != v {
		return fmt.Sprintf("import: reopen+Load after import: ver=%d err=%v panic=%v", res.Ver, res.Err, p)
	}
	return check("reloaded")
}

// ScenariosC24A: logical alphabet only (Set/Remove/SaveVersion/Rollback); configurations are applied by the hook.
func ScenariosC24A(thorough bool) []*Scenario {
	u := UniverseA()
	type pf struct {
		name   string
		script []string
		keys   []string
	}
	pfs := []pf{
		{"empty", nil, []string{"b", "d", "f", "c"}},
		{"full-leaf", []string{"+b", "+d", "+f", "+h", "S"}, []string{"a", "d", "e", "i"}},
		{"two-level-min-occupancy", []string{"+b", "+d", "+f", "+h", "+j", "+c", "+e", "-c", "S"}, []string{"a", "b", "e", "j"}},
		{"three-level-two-versions", []string{"+a", "+b", "+c", "+d", "+e", "+f", "+g", "+h", "+i", "+j", "+k", "+l", "+m", "+n", "+o", "+p", "+q", "+r", "+s", "+t", "S",
			"-c", "-f", "-i", "-l", "-o", "-r", "S"}, []string{"a", "b", "k", "u"}},
		{"inner-node-full", []string{"+a", "+b", "+c", "+d", "+e", "+f", "+g", "+h", "+i", "+j", "+k", "+l", "+m", "+n", "+o", "+p", "+q", "+r", "+s", "+t", "+u", "+v", "+j0", "S"},
			[]string{"a", "k0", "w"}},
	}
	var out []*Scenario
	for pi, p := range pfs {
		keys := u.idxs(p.keys...)
		depth := 4
		if thorough {
			depth = 5
		}
		out = append(out, &Scenario{
			Name: "A/" + p.name, U: u, Cfg: Cfg{Cache: 10000}, Prefill: u.Ops(p.script...), Snapshot: pi >= 3,
			Keys: keys, Rollback: true, MaxSaves: 3, Depth: depth, Bounds: []int{-1}, Probe: &Probe{Keys: boundsOf(keys, u)[1:]},
		})
	}
	return out
}

// ScenariosC24B: the unscaled code, prefills around node boundaries, logical alphabet, depth 2.
func ScenariosC24B(thorough bool) ([]*Scenario, error) {
	all, err := ScenariosB(true)
	if err != nil {
		return nil, err
	}
	var out []*Scenario
	for _, sc := range all {
		keep := map[string]bool{"B32/n32-asc": true, "B32/n33-desc": true, "B32/n512-desc": true, "B32/n1056-asc": true}
		if thorough {
			keep["B32/n33-mix"], keep["B32/n1024-mix"], keep["B32/n1056-desc"] = true, true, true
		}
		if !keep[sc.Name] {
			continue
		}
		sc.Cfg = Cfg{Cache: 10000}
		sc.Reload, sc.LoadVer, sc.Prune, sc.Imm = false, false, false, false
		sc.Bounds = []int{-1}
		sc.Depth = 2
		if len(sc.Keys) > 4 {
			k := sc.Keys
			sc.Keys = []int{k[0], k[len(k)/3], k[len(k)/2], k[len(k)-1]}
		}
		out = append(out, sc)
	}
	return out, nil
}

// MainC24 is the parent (B=4 build) of harness c24.
func MainC24() {
	r := vk.New("model_checking")
	r.SetBudget(300*time.Second, 28*time.Minute)
	pb := Params()
	if pb.B != 4 || pb.Depth != 2 {
		r.HarnessError("c24 parent must be built with the B=4 overlay, got B=%d depth=%d", pb.B, pb.Depth)
	}
	hit := false
	aBudget, bBudget := 150*time.Second, 120*time.Second
	if r.Thorough() {
		aBudget, bBudget = 15*time.Minute, 10*time.Minute
	}
	sink := BudgetSink{Sink: VKSink{r}, Deadline: time.Now().Add(aBudget), Hit: &hit}
	var st C24Stats
	t0 := time.Now()
	rows, states, trans, _, _, ex := runScenarios(sink, ScenariosC24A(r.Thorough()), C24Hook(sink, &st, r.Thorough()))
	wallA := time.Since(t0).Seconds()
	if hit {
		ex = false
		r.MarkCapped()
	}
	covB := RunChild(r, "c24", bBudget)
	if e, _ := covB["exhaustive_to_depth"].(bool); !e {
		ex = false
	}
	if st.ConfigRuns.Load() == 0 || st.Imports.Load() == 0 {
		r.HarnessError("vacuous: no configuration runs / imports happened")
	}
	r.Sample(map[string]any{"config_example": DiffCfg{5, 0, 2, 1}.String(), "configs_for_3_boundaries": len(diffConfigs(3, r.Thorough()))})
	r.Assumptions = []string{
		"histories: BFS over {Set,Remove,SaveVersion,Rollback} from prefill shapes (states merged on model + implementation structure); every history reaching a NEW state is re-executed under every configuration of the set",
		"configuration set (quick): all reopen subsets of the version boundaries x cache{0,10000} x fast index{off,on} x pruning{never,every version} + every other factor value (cache 1,2; fast toggled at each reopen; keep-2) against reopen-none/all; thorough: the full product",
		"reopen = Close + new MutableTree on the same DB + Load; snapshot-start scenarios clone a DB built under the reference configuration (so enabling the fast index on an existing DB is exercised)",
		"hash equality is checked after EVERY operation (WorkingHash, Hash) and for every saved version; the independent mini-merkle recomputation from contents+shape runs on every new state (both scales)",
		"scale A = B=4/miniMerkleDepth=2 overlay build; scale B = unscaled B=32 child binary",
	}
	r.Finish("differential model checking: every operation history (BFS, depth-bounded) x every configuration {reopen pattern, cache size, fast index, pruning schedule} must produce identical WorkingHash/Hash after every op and identical version hashes, identical contents; export->import of every new version into an empty DB must reproduce hash, contents and shape (also after reload); hashes equal an independent recomputation",
		ex, map[string]any{
			"states": states + CovInt(covB, "states"), "transitions": trans + CovInt(covB, "transitions") + st.ConfigRuns.Load() + CovInt(covB, "config_runs"),
			"traces_validated_against_impl": trans + CovInt(covB, "transitions") + st.ConfigRuns.Load() + CovInt(covB, "config_runs"),
			"depth":  map[string]any{"scaleA": rows, "scaleB": covB["scenarios"]},
			"scaleA": map[string]any{"B": pb.B, "states": states, "bfs_transitions": trans, "histories_differentiated": st.Histories.Load(), "config_runs": st.ConfigRuns.Load(),
				"hash_comparisons": st.HashCompares.Load(), "export_imports": st.Imports.Load(), "wall_s": wallA},
			"scaleB": covB,
		})
}

// ChildC24 is the body of the unscaled child of c24.
func ChildC24(sink Sink) map[string]any {
	pb := Params()
	if pb.B != 32 {
		sink.Violation("HARNESS: child not built with B=32", nil)
		return nil
	}
	scs, err := ScenariosC24B(sink.Thorough())
	if err != nil {
		sink.Violation("B32 prefill failed: "+err.Error(), map[string]any{"error": err.Error()})
		return map[string]any{}
	}
	var st C24Stats
	rows, states, trans, _, _, ex := runScenarios(sink, scs, C24Hook(sink, &st, sink.Thorough()))
	return map[string]any{"B": pb.B, "states": states, "transitions": trans, "bfs_transitions": trans, "histories_differentiated": st.Histories.Load(),
		"config_runs": st.ConfigRuns.Load(), "hash_comparisons": st.HashCompares.Load(), "export_imports": st.Imports.Load(),
		"exhaustive_to_depth": ex, "scenarios": rows}
}
