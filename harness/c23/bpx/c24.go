package bpx

import (
	"bytes"
	"errors"
	"fmt"
	"os"
	"sync/atomic"
	"time"

	"github.com/gnolang/gno/tm2/pkg/bptree"
	"github.com/gnolang/gno/tm2/pkg/db/memdb"

	"verif/engine/vk"
)

// ---------- C24: hashes depend only on the operation history ----------

// DiffCfg is one configuration of the differential: everything in it must be invisible in hashes and contents.
type DiffCfg struct {
	Reopen uint32 // bit i set: close + reopen + Load after the i-th SaveVersion of the history
	Cache  int
	Fast   int // 0 off, 1 on, 2 toggled at every reopen (starting on)
	Prune  int // 0 never, 1 every version (keep only the latest), 2 keep the two latest
	Start  int // how the start state (a committed version) is taken over before the history continues, see startNames
}

// Start modes. 0: the handle that wrote the start state / a plain Load of the start snapshot.
//  1. the start state was committed with the fast index OFF; the DB is reopened with the index ON through
//     LoadVersion(latest) (cache 10000) resp. LoadReadonly (cache 0) — neither verifies nor rebuilds the index, which is
//     then readable but incomplete — and so is every later reopen of the run.
//  2. the latest version of the start state is exported and imported into an EMPTY DB, and the history continues on the
//     importing handle itself, without reopening (Import drops the index and suppresses its stamp until the next Load).
var startNames = []string{"same-handle", "index-enabled+LoadVersion", "import-then-continue"}

func (c DiffCfg) String() string {
	if c.Start != 0 && c.Prune == 0 {
		return fmt.Sprintf("start=%s reopen=%b cache=%d fast=%s", startNames[c.Start], c.Reopen, c.Cache, []string{"off", "on", "toggle"}[c.Fast])
	}
	return fmt.Sprintf("reopen=%b cache=%d fast=%s prune=%s", c.Reopen, c.Cache, []string{"off", "on", "toggle"}[c.Fast], []string{"never", "every-version", "keep-2"}[c.Prune])
}

// diffConfigs enumerates the configuration set for a history with `saves` version boundaries.
// thorough: full product {reopen subsets} x {0,1,2,10000} x {off,on,toggle} x {never,every,keep-2}.
// quick: full product over {reopen subsets} x {0,10000} x {off,on} x {never,every}, plus every remaining factor value
// (cache 1, cache 2, fast toggle, keep-2) against reopen-none and reopen-all.
func diffConfigs(saves int, thorough bool) []DiffCfg {
	if saves > 5 {
		saves = 5
	}
	var out []DiffCfg
	nsub := uint32(1) << uint(saves)
	if thorough {
		for r := uint32(0); r < nsub; r++ {
			for _, c := range []int{0, 1, 2, 10000} {
				for f := 0; f < 3; f++ {
					for p := 0; p < 3; p++ {
						out = append(out, DiffCfg{r, c, f, p, 0})
					}
				}
			}
		}
		return out
	}
	for r := uint32(0); r < nsub; r++ {
		for _, c := range []int{0, 10000} {
			for f := 0; f < 2; f++ {
				for p := 0; p < 2; p++ {
					out = append(out, DiffCfg{r, c, f, p, 0})
				}
			}
		}
	}
	for _, r := range []uint32{0, nsub - 1} {
		out = append(out, DiffCfg{r, 1, 0, 2, 0}, DiffCfg{r, 2, 2, 0, 0}, DiffCfg{r, 1, 2, 1, 0}, DiffCfg{r, 2, 1, 2, 0}, DiffCfg{r, 10000, 2, 2, 0})
	}
	return out
}

// startConfigs enumerates the configurations that take the start state over in another way (Start 1, 2) for a history
// with `saves` version boundaries: reopen none/all (thorough: every subset) x cache {0,10000} x — for the import —
// fast index off/on. The index is never toggled here: an index that was maintained, switched off and on again is
// stale, and only Load (not LoadVersion) is specified to notice.
func startConfigs(saves int, thorough bool) []DiffCfg {
	if saves > 5 {
		saves = 5
	}
	nsub := uint32(1) << uint(saves)
	rs := []uint32{0, nsub - 1}
	if thorough {
		rs = rs[:0]
		for r := uint32(0); r < nsub; r++ {
			rs = append(rs, r)
		}
	}
	var out []DiffCfg
	for i, r := range rs {
		if i > 0 && r == rs[i-1] {
			continue
		}
		for _, c := range []int{0, 10000} {
			out = append(out, DiffCfg{r, c, 1, 0, 1}, DiffCfg{r, c, 0, 0, 2}, DiffCfg{r, c, 1, 0, 2})
		}
	}
	return out
}

type hashTrace struct {
	steps [][2]string      // after every op: WorkingHash, Hash
	vers  map[int64]string // root hash of every version ever saved (as returned by SaveVersion)
}

// importLatest exports version v of src (public Export path unless own) and imports it into an empty DB opened with cfg.
func importLatest(u *Universe, src *Sys, v int64, cfg Cfg, own bool) (dst *Sys, nodes int, problem string) {
	imm, err := src.T.GetImmutable(v)
	if err != nil {
		return nil, 0, fmt.Sprintf("export: GetImmutable(%d): %v", v, err)
	}
	defer imm.Close()
	var exp *bptree.Exporter
	if own {
		exp, err = bptree.VerifExport(imm)
	} else {
		exp, err = imm.Export(nil)
	}
	if err != nil {
		return nil, 0, fmt.Sprintf("Export(v%d): %v", v, err)
	}
	var ns []*bptree.ExportNode
	for {
		n, err := exp.Next()
		if errors.Is(err, bptree.ErrExportDone) {
			break
		}
		if err != nil {
			exp.Close()
			return nil, 0, fmt.Sprintf("Exporter.Next: %v", err)
		}
		ns = append(ns, n)
	}
	exp.Close()
	dst = NewSys(u, cfg)
	imp, err := dst.T.Import(v)
	if err != nil {
		return nil, 0, fmt.Sprintf("Import(%d) into an empty DB: %v", v, err)
	}
	for i, n := range ns {
		if err := imp.Add(n); err != nil {
			return nil, 0, fmt.Sprintf("Importer.Add(node %d of %d): %v", i, len(ns), err)
		}
	}
	if err := imp.Commit(); err != nil {
		return nil, 0, fmt.Sprintf("Importer.Commit: %v", err)
	}
	imp.Close()
	return dst, len(ns), ""
}

// runHistory executes a logical history (Set/Remove/Save/Rollback) under cfg and returns its hash trace,
// the final system and the final model. start is nil (empty DB; the first `pre` ops are the prefill building the start
// state) or a DB snapshot to clone and Load. The start state is taken over as cfg.Start says (only if it is a committed,
// non-empty version).
func runHistory(u *Universe, start *memdb.MemDB, startModel *Model, ops []Op, pre int, cfg DiffCfg) (tr hashTrace, s *Sys, m *Model, problem string) {
	fastOn := cfg.Fast != 0
	loadMode := 0
	if cfg.Start == 1 {
		loadMode = 1
		if cfg.Cache == 0 {
			loadMode = 2
		}
	}
	// takeOver applies the start mode once the start state exists.
	takeOver := func() string {
		if cfg.Start == 0 || m.Latest == 0 || m.Dirty || m.Poisoned || m.Ver != m.Latest {
			return ""
		}
		switch cfg.Start {
		case 1:
			s.Cfg.Fast, s.LoadMode, s.LoadHint = true, loadMode, m.Latest
			res, p := s.Apply(Op{K: OpReload})
			if p != nil {
				return fmt.Sprintf("reopen of the start state with the fast index enabled: panic: %v", p)
			}
			if d := m.Step(Op{K: OpReload}, res); d != "" {
				return "reopen of the start state with the fast index enabled: " + d
			}
		case 2:
			v := m.Latest
			if m.Vers[v].Size() == 0 {
				return ""
			}
			dst, _, prob := importLatest(u, s, v, Cfg{Cache: cfg.Cache, Fast: fastOn}, cfg.Cache == 0)
			if prob != "" {
				return "taking the start state over by import: " + prob
			}
			s.T.Close()
			nm := NewModel(u)
			nm.Vers[v], nm.Hashes[v] = m.Vers[v], m.Hashes[v]
			nm.First, nm.Latest, nm.Ver, nm.Work = v, v, v, m.Vers[v].Clone()
			if !bytes.Equal(dst.T.Hash(), []byte(m.Hashes[v])) {
				return fmt.Sprintf("imported version %d has a different root hash than the exported one", v)
			}
			s, m = dst, nm
		}
		return ""
	}
	if start != nil {
		s = NewSysOn(u, Cfg{Cache: cfg.Cache, Fast: fastOn}, CloneDB(start)) // (snapshots are built with the index off)
		m = startModel.Clone()
		if cfg.Start == 1 {
			s.LoadMode, s.LoadHint = loadMode, m.Latest
		}
		res, p := s.Apply(Op{K: OpReload})
		if p != nil {
			return tr, s, m, fmt.Sprintf("panic while loading the start snapshot: %v", p)
		}
		if d := m.Step(Op{K: OpReload}, res); d != "" {
			return tr, s, m, "loading the start snapshot: " + d
		}
		if cfg.Start == 2 {
			if d := takeOver(); d != "" {
				return tr, s, m, d
			}
		}
	} else {
		s = NewSys(u, Cfg{Cache: cfg.Cache, Fast: fastOn && cfg.Start != 1})
		m = NewModel(u)
	}
	tr.vers = map[int64]string{}
	boundary := 0
	for i, op := range ops {
		if start == nil && i == pre && pre > 0 {
			if d := takeOver(); d != "" {
				return tr, s, m, d
			}
		}
		res, p := s.Apply(op)
		if p != nil {
			return tr, s, m, fmt.Sprintf("op %d %s: panic: %v", i, op.Str(u), p)
		}
		if d := m.Step(op, res); d != "" {
			return tr, s, m, fmt.Sprintf("op %d %s: %s", i, op.Str(u), d)
		}
		if op.K == OpSave && res.Err == nil {
			tr.vers[res.Ver] = string(res.Hash)
			// configuration actions at the version boundary
			switch cfg.Prune {
			case 1:
				if to := res.Ver - 1; to >= m.First && to >= 1 {
					pr, pp := s.Apply(Op{OpPrune, int16(to)})
					if pp != nil {
						return tr, s, m, fmt.Sprintf("DeleteVersionsTo(%d): panic: %v", to, pp)
					}
					if pr.Err != nil {
						return tr, s, m, fmt.Sprintf("DeleteVersionsTo(%d) refused on a clean session: %v", to, pr.Err)
					}
					m.Step(Op{OpPrune, int16(to)}, pr)
				}
			case 2:
				if to := res.Ver - 2; to >= m.First && to >= 1 {
					pr, pp := s.Apply(Op{OpPrune, int16(to)})
					if pp != nil {
						return tr, s, m, fmt.Sprintf("DeleteVersionsTo(%d): panic: %v", to, pp)
					}
					if pr.Err != nil {
						return tr, s, m, fmt.Sprintf("DeleteVersionsTo(%d) refused on a clean session: %v", to, pr.Err)
					}
					m.Step(Op{OpPrune, int16(to)}, pr)
				}
			}
			if boundary < 32 && cfg.Reopen&(1<<uint(boundary)) != 0 {
				if cfg.Fast == 2 {
					s.Cfg.Fast = !s.Cfg.Fast
				}
				s.LoadHint = m.Latest
				rr, rp := s.Apply(Op{K: OpReload})
				if rp != nil {
					return tr, s, m, fmt.Sprintf("reopen after version %d: panic: %v", res.Ver, rp)
				}
				if d := m.Step(Op{K: OpReload}, rr); d != "" {
					return tr, s, m, fmt.Sprintf("reopen after version %d: %s", res.Ver, d)
				}
			}
			boundary++
		}
		tr.steps = append(tr.steps, [2]string{string(s.T.WorkingHash()), string(s.T.Hash())})
	}
	return tr, s, m, ""
}

func countSaves(ops []Op) int {
	n := 0
	for _, o := range ops {
		if o.K == OpSave {
			n++
		}
	}
	return n
}

// C24Stats are shared counters of the differential.
type C24Stats struct {
	Histories, ConfigRuns, Imports, HashCompares, StartRuns atomic.Int64
}


// differentiate runs one history under the reference configuration and under every configuration of cfgs; hash
// trace, version hashes, final contents (through every read API) must agree.
func differentiate(sink Sink, st *C24Stats, sc *Scenario, path []Op, cfgs func(saves int) []DiffCfg) string {
	var ops []Op
	var start *memdb.MemDB
	var startModel *Model
	if sc.Snapshot {
		start, startModel = sc.baseDB, sc.baseModel
		ops = path
	} else {
		ops = append(append([]Op(nil), sc.Prefill...), path...)
	}
	st.Histories.Add(1)
	pre := len(ops) - len(path)
	ref, _, rm, prob := runHistory(sc.U, start, startModel, ops, pre, DiffCfg{0, 10000, 0, 0, 0})
	if prob != "" {
		return "reference run: " + prob
	}
	for _, cfg := range cfgs(countSaves(ops)) {
		st.ConfigRuns.Add(1)
		sink.Eval()
		tr, cs, cm, prob := runHistory(sc.U, start, startModel, ops, pre, cfg)
		if prob != "" {
			return fmt.Sprintf("[%s] %s", cfg, prob)
		}
		for i := range ref.steps {
			st.HashCompares.Add(2)
			if tr.steps[i][0] != ref.steps[i][0] {
				return fmt.Sprintf("[%s] WorkingHash() after op %d (%s) differs from the reference configuration", cfg, i, ops[i].Str(sc.U))
			}
			if tr.steps[i][1] != ref.steps[i][1] {
				return fmt.Sprintf("[%s] Hash() after op %d (%s) differs from the reference configuration", cfg, i, ops[i].Str(sc.U))
			}
		}
		for v, h := range ref.vers {
			st.HashCompares.Add(1)
			if tr.vers[v] != h {
				return fmt.Sprintf("[%s] SaveVersion hash of version %d differs from the reference configuration", cfg, v)
			}
		}
		// contents and retained version hashes in this configuration (Get goes through the fast index when enabled)
		if !cm.Work.Equal(rm.Work) {
			return fmt.Sprintf("[%s] HARNESS: model diverged", cfg)
		}
		if d := Observe(cs, cm, sc.Probe, true); d != "" {
			return fmt.Sprintf("[%s] %s", cfg, d)
		}
		if cfg.Fast != 0 {
			sink.Outcome("cfg_fast_index")
		}
		if cfg.Prune != 0 {
			sink.Outcome("cfg_pruned")
		}
		if cfg.Reopen != 0 {
			sink.Outcome("cfg_reopened")
		}
		if cfg.Start != 0 {
			st.StartRuns.Add(1)
			sink.Outcome("cfg_start:" + startNames[cfg.Start])
		}
	}
	return ""
}

// takeOverEnum (scenarios with TakeOver set, run once from the start state): EVERY sequence of the menu below — not
// only those reaching new states: a Remove of an absent key or a Set of an unchanged key is a no-op for the BFS, but
// it is exactly what has to behave the same on a handle whose fast index is readable but incomplete — is run under
// the reference configuration and under every start-mode configuration (startConfigs).
//
//	wide   (scale A): [x], [x y], [x SaveVersion y]  for all x, y in {Set(k), Remove(k) : k in the alphabet} (+ [x SaveVersion])
//	narrow (scale B): [x] for all x; [x SaveVersion y] for x, y in one representative of each class
//	                  {Remove present, Remove absent, Set present, Set absent}
func takeOverEnum(sink Sink, st *C24Stats, sc *Scenario, thorough bool) string {
	base := sc.baseContent()
	if base == nil {
		return "HARNESS: no start content for the take-over enumeration"
	}
	var alpha []Op
	for _, k := range sc.Keys {
		alpha = append(alpha, Op{OpSet, int16(k)})
	}
	for _, k := range sc.Keys {
		alpha = append(alpha, Op{OpRemove, int16(k)})
	}
	class := func(o Op) string {
		return fmt.Sprintf("%s_of_%s_key", map[OpKind]string{OpSet: "Set", OpRemove: "Remove"}[o.K], map[bool]string{true: "present", false: "absent"}[base[o.A] != 0])
	}
	var hs [][]Op
	for _, x := range alpha {
		hs = append(hs, []Op{x}, []Op{x, {K: OpSave}})
	}
	second := alpha
	if Params().B != 4 && !thorough { // narrow
		seen := map[string]bool{}
		second = nil
		for _, x := range alpha {
			if c := class(x); !seen[c] {
				seen[c] = true
				second = append(second, x)
			}
		}
	} else {
		for _, x := range alpha {
			for _, y := range alpha {
				hs = append(hs, []Op{x, y})
			}
		}
	}
	for _, x := range second {
		for _, y := range second {
			hs = append(hs, []Op{x, {K: OpSave}, y})
		}
	}
	probs := make([]string, len(hs))
	sink.ParFor(len(hs), func(i int) {
		if sink.Expired() {
			return
		}
		h := hs[i]
		if d := differentiate(sink, st, sc, h, func(saves int) []DiffCfg { return startConfigs(saves, thorough) }); d != "" {
			probs[i] = fmt.Sprintf("continued with %s => %s", PathStr(sc.U, h), d)
			return
		}
		sink.Outcome("after_takeover:" + class(h[0]))
		if len(h) == 3 {
			sink.Outcome("after_takeover_and_SaveVersion:" + class(h[2]))
		}
	})
	for _, d := range probs {
		if d != "" {
			return d
		}
	}
	return ""
}

// baseContent is the content of the start state (nil if the prefill does not end in a committed version).
func (sc *Scenario) baseContent() Content {
	if sc.Snapshot {
		if sc.baseModel == nil || sc.baseModel.Latest == 0 {
			return nil
		}
		return sc.baseModel.Vers[sc.baseModel.Latest]
	}
	s, m := NewSys(sc.U, sc.Cfg), NewModel(sc.U)
	if _, d := Run(s, m, sc.Prefill); d != "" || m.Latest == 0 || m.Dirty {
		return nil
	}
	return m.Vers[m.Latest]
}

// C24Hook returns the per-new-state hook: differential over configurations + export/import of a new version.
func C24Hook(sink Sink, st *C24Stats, thorough bool) Hook {
	return func(sc *Scenario, s *Sys, m *Model, work *bptree.VerifNode, path []Op) string {
		if m.Poisoned {
			return ""
		}
		if len(path) == 0 {
			if sc.TakeOver && sc.baseLatest > 0 {
				return takeOverEnum(sink, st, sc, thorough)
			}
			return ""
		}
		if d := differentiate(sink, st, sc, path, func(saves int) []DiffCfg { return diffConfigs(saves, thorough) }); d != "" {
			return d
		}
		// export -> import of the version just created
		if path[len(path)-1].K == OpSave && m.Latest > 0 && !m.Dirty {
			for variant := 0; variant < 2; variant++ {
				st.Imports.Add(1)
				sink.Eval()
				if d := exportImport(sc, s, m, m.Latest, variant); d != "" {
					return d
				}
			}
		}
		return ""
	}
}

// exportImport exports version v of s and imports it into an empty DB; hash, contents and shape must be reproduced,
// also after the importing tree is closed and reopened. variant 0: public Export(nil) (value resolver), cache 10000;
// variant 1: Export with the tree's own nodeDB, target cache 0 + fast index.
func exportImport(sc *Scenario, s *Sys, m *Model, v int64, variant int) string {
	imm, err := s.T.GetImmutable(v)
	if err != nil {
		return fmt.Sprintf("export: GetImmutable(%d): %v", v, err)
	}
	defer imm.Close()
	want := m.Vers[v]
	if want.Size() == 0 {
		if _, err := imm.Export(nil); !errors.Is(err, bptree.ErrNotInitializedTree) {
			return fmt.Sprintf("export of an empty version: err=%v", err)
		}
		return ""
	}
	var exp *bptree.Exporter
	if variant == 0 {
		exp, err = imm.Export(nil)
	} else {
		exp, err = bptree.VerifExport(imm)
	}
	if err != nil {
		return fmt.Sprintf("Export(v%d): %v", v, err)
	}
	var nodes []*bptree.ExportNode
	for {
		n, err := exp.Next()
		if errors.Is(err, bptree.ErrExportDone) {
			break
		}
		if err != nil {
			exp.Close()
			return fmt.Sprintf("Exporter.Next: %v", err)
		}
		nodes = append(nodes, n)
	}
	exp.Close()
	cfg := Cfg{Cache: 10000}
	if variant == 1 {
		cfg = Cfg{Cache: 0, Fast: true}
	}
	dst := NewSys(sc.U, cfg)
	imp, err := dst.T.Import(v)
	if err != nil {
		return fmt.Sprintf("Import(%d) into an empty DB: %v", v, err)
	}
	for i, n := range nodes {
		if err := imp.Add(n); err != nil {
			return fmt.Sprintf("Importer.Add(node %d of %d): %v", i, len(nodes), err)
		}
	}
	if err := imp.Commit(); err != nil {
		return fmt.Sprintf("Importer.Commit: %v", err)
	}
	imp.Close()
	check := func(stage string) string {
		if !bytes.Equal(dst.T.Hash(), []byte(m.Hashes[v])) {
			return fmt.Sprintf("import(%s): imported version %d has a different root hash than the exported one", stage, v)
		}
		if dst.T.Version() != v {
			return fmt.Sprintf("import(%s): Version()=%d want %d", stage, dst.T.Version(), v)
		}
		if d := CheckReads(m, want, dst.T, sc.Probe); d != "" {
			return fmt.Sprintf("import(%s): %s", stage, d)
		}
		di, err := bptree.VerifDumpWorking(dst.T)
		if err != nil {
			return fmt.Sprintf("import(%s): walk: %v", stage, err)
		}
		ds, err := bptree.VerifDumpImm(imm)
		if err != nil {
			return fmt.Sprintf("import(%s): walk of the source: %v", stage, err)
		}
		if ShapeString(di, false) != ShapeString(ds, false) {
			return fmt.Sprintf("import(%s): imported tree shape differs from the exported one", stage)
		}
		if p, _ := CheckStructure(di, Params()); p != "" {
			return fmt.Sprintf("import(%s): structure: %s", stage, p)
		}
		return ""
	}
	if d := check("committed"); d != "" {
		return d
	}
	res, p := dst.Apply(Op{K: OpReload})
	if p != nil || res.Err != nil || res.Ver != v {
		return fmt.Sprintf("import: reopen+Load after import: ver=%d err=%v panic=%v", res.Ver, res.Err, p)
	}
	return check("reloaded")
}

// ScenariosC24A: logical alphabet only (Set/Remove/SaveVersion/Rollback); configurations are applied by the hook.
func ScenariosC24A(thorough bool) []*Scenario {
	u := UniverseA()
	type pf struct {
		name   string
		script []string
		keys   []string
	}
	pfs := []pf{
		{"empty", nil, []string{"b", "d", "f", "c"}},
		{"full-leaf", []string{"+b", "+d", "+f", "+h", "S"}, []string{"a", "d", "e", "i"}},
		{"two-level-min-occupancy", []string{"+b", "+d", "+f", "+h", "+j", "+c", "+e", "-c", "S"}, []string{"a", "b", "e", "j"}},
		{"three-level-two-versions", []string{"+a", "+b", "+c", "+d", "+e", "+f", "+g", "+h", "+i", "+j", "+k", "+l", "+m", "+n", "+o", "+p", "+q", "+r", "+s", "+t", "S",
			"-c", "-f", "-i", "-l", "-o", "-r", "S"}, []string{"a", "b", "k", "u"}},
		{"inner-node-full", []string{"+a", "+b", "+c", "+d", "+e", "+f", "+g", "+h", "+i", "+j", "+k", "+l", "+m", "+n", "+o", "+p", "+q", "+r", "+s", "+t", "+u", "+v", "+j0", "S"},
			[]string{"a", "k0", "w"}},
	}
	var out []*Scenario
	for pi, p := range pfs {
		keys := u.idxs(p.keys...)
		depth := 4
		if thorough {
			depth = 5
		}
		out = append(out, &Scenario{
			Name: "A/" + p.name, U: u, Cfg: Cfg{Cache: 10000}, Prefill: u.Ops(p.script...), Snapshot: pi >= 3,
			Keys: keys, Rollback: true, MaxSaves: 3, Depth: depth, Bounds: []int{-1}, Probe: &Probe{Keys: boundsOf(keys, u)[1:]}, Events: true, TakeOver: true,
		})
	}
	// start states ONE removal away from every rebalancing step at inner level (scen.go prefillsA, shared with C23):
	// borrow from the left / right inner sibling, inner merge + root collapse, three inner nodes, four levels.
	u23 := UniverseA23()
	for _, p := range prefillsA {
		d, ok := map[string]int{"inner-borrow-from-left": 2, "inner-borrow-from-right": 2, "inner-merge-root-collapse": 2, "three-inner-nodes": 2, "four-level-min-occupancy": 2}[p.name]
		if !ok {
			continue
		}
		if thorough {
			d++
		}
		keys := u23.idxs(p.keys...)
		out = append(out, &Scenario{
			Name: "A/" + p.name, U: u23, Cfg: Cfg{Cache: 10000}, Prefill: u23.Ops(p.script...), Snapshot: true,
			Keys: keys, Rollback: true, MaxSaves: 3, Depth: d, Bounds: []int{-1}, Probe: &Probe{Keys: boundsOf(keys, u23)[1:]}, Events: true, TakeOver: p.name == "inner-borrow-from-right" || p.name == "four-level-min-occupancy",
		})
	}
	return out
}

// ScenariosC24B: the unscaled code, prefills around node boundaries, logical alphabet, depth 2.
func ScenariosC24B(thorough bool) ([]*Scenario, error) {
	all, err := ScenariosB(true)
	if err != nil {
		return nil, err
	}
	var out []*Scenario
	for _, sc := range all {
		keep := map[string]bool{"B32/n32-asc": true, "B32/n33-desc": true, "B32/n512-desc": true, "B32/n1056-asc": true}
		if thorough {
			keep["B32/n33-mix"], keep["B32/n1024-mix"], keep["B32/n1056-desc"] = true, true, true
		}
		if !keep[sc.Name] {
			continue
		}
		sc.Cfg = Cfg{Cache: 10000}
		sc.Reload, sc.LoadVer, sc.Prune, sc.Imm = false, false, false, false
		sc.Bounds = []int{-1}
		sc.Depth = 2
		if len(sc.Keys) > 4 {
			k := sc.Keys
			sc.Keys = []int{k[0], k[len(k)/3], k[len(k)/2], k[len(k)-1]}
		}
		sc.Events = true
		sc.TakeOver = sc.Name == "B32/n32-asc" || sc.Name == "B32/n33-desc" || thorough
		out = append(out, sc)
	}
	// start states one removal away from an inner-level borrow (from the left, from the right) and an inner merge
	inner, err := ScenariosBInner(thorough)
	if err != nil {
		return nil, err
	}
	for _, sc := range inner {
		sc.Cfg = Cfg{Cache: 10000}
		sc.Reload, sc.LoadVer, sc.Prune, sc.Imm = false, false, false, false
		sc.Bounds = []int{-1}
		sc.Depth = 2
		sc.Events = true
		sc.TakeOver = sc.Name == "B32/h1-borrow-from-right" || thorough
		if !thorough && len(sc.Keys) == 5 {
			// quick: the key whose removal makes the inner node underflow and the absent key in its leaf (the sorted alphabet is
			// [neighbour's last key, first key of the target, trigger, absent, last key of the target] resp., for the leftmost
			// target, [first key of the target, trigger, absent, last key of the target, neighbour's first key])
			k := sc.Keys
			if sc.Name == "B32/h1-borrow-from-right" {
				sc.Keys = []int{k[1], k[2]}
			} else {
				sc.Keys = []int{k[2], k[3]}
			}
		}
		out = append(out, sc)
	}
	return out, nil
}

// Rebalancing steps a complete C24 run must have executed (and therefore re-executed under every configuration):
// every step at INNER level that C23 requires of its own runs (c23.go needRebalanceA/B), plus leaf split / merge / borrow.
var (
	needRebalanceC24A = []string{"inner_h1_split", "root_split", "inner_h1_merge", "inner_h2_merge", "root_collapse",
		"inner_h1_borrow_from_left", "inner_h1_borrow_from_right", "inner_h2_borrow_from_left", "leaf_split", "leaf_merge", "leaf_borrow_from_left"}
	needRebalanceC24B = []string{"inner_h1_merge", "inner_h1_borrow_from_left", "inner_h1_borrow_from_right", "leaf_split", "leaf_merge", "leaf_borrow_from_left"}
	needStartC24      = []string{"cfg_start:" + startNames[1], "cfg_start:" + startNames[2], "after_takeover:Remove_of_present_key", "after_takeover:Remove_of_absent_key",
		"after_takeover:Set_of_present_key", "after_takeover:Set_of_absent_key", "after_takeover_and_SaveVersion:Remove_of_present_key", "after_takeover_and_SaveVersion:Remove_of_absent_key",
		"after_takeover_and_SaveVersion:Set_of_present_key", "after_takeover_and_SaveVersion:Set_of_absent_key"}
)

// MainC24 is the parent (B=4 build) of harness c24.
func MainC24() {
	r := vk.New("model_checking")
	r.SetBudget(300*time.Second, 28*time.Minute)
	pb := Params()
	if pb.B != 4 || pb.Depth != 2 {
		r.HarnessError("c24 parent must be built with the B=4 overlay, got B=%d depth=%d", pb.B, pb.Depth)
	}
	hit := false
	aBudget, bBudget := 150*time.Second, 120*time.Second
	if r.Thorough() {
		aBudget, bBudget = 15*time.Minute, 10*time.Minute
	}
	histA := newHistSink(VKSink{r})
	sink := BudgetSink{Sink: histA, Deadline: time.Now().Add(aBudget), Hit: &hit}
	var st C24Stats
	t0 := time.Now()
	rows, states, trans, _, _, ex := runScenarios(sink, ScenariosC24A(r.Thorough()), C24Hook(sink, &st, r.Thorough()))
	wallA := time.Since(t0).Seconds()
	if hit {
		ex = false
		r.MarkCapped()
	}
	covB := RunChild(r, "c24", bBudget)
	if e, _ := covB["exhaustive_to_depth"].(bool); !e {
		ex = false
	}
	if st.ConfigRuns.Load() == 0 || st.Imports.Load() == 0 {
		r.HarnessError("vacuous: no configuration runs / imports happened")
	}
	if ex && r.Violations() == 0 && os.Getenv("VERIF_ONLY") == "" { // complete run: every rebalancing step and every take-over must have happened
		vacuityGuard(r, histA.hist, needRebalanceC24A...)
		vacuityGuard(r, histA.other, needStartC24...)
		hb, ho := map[string]int64{}, map[string]int64{}
		if mb, ok := covB["rebalancing_steps"].(map[string]any); ok {
			for k := range mb {
				hb[k] = CovInt(mb, k)
			}
		}
		if mb, ok := covB["start_modes"].(map[string]any); ok {
			for k := range mb {
				ho[k] = CovInt(mb, k)
			}
		}
		vacuityGuard(r, hb, needRebalanceC24B...)
		vacuityGuard(r, ho, needStartC24...)
	}
	r.Sample(map[string]any{"config_example": DiffCfg{5, 0, 2, 1, 0}.String(), "configs_for_3_boundaries": len(diffConfigs(3, r.Thorough()))})
	r.Assumptions = []string{
		"histories: BFS over {Set,Remove,SaveVersion,Rollback} from prefill shapes (states merged on model + implementation structure); every history reaching a NEW state is re-executed under every configuration of the set",
		"configuration set (quick): all reopen subsets of the version boundaries x cache{0,10000} x fast index{off,on} x pruning{never,every version} + every other factor value (cache 1,2; fast toggled at each reopen; keep-2) against reopen-none/all; thorough: the full product",
		"reopen = Close + new MutableTree on the same DB + Load; snapshot-start scenarios clone a DB built under the reference configuration (so enabling the fast index on an existing DB is exercised)",
		"hash equality is checked after EVERY operation (WorkingHash, Hash) and for every saved version; the independent mini-merkle recomputation from contents+shape runs on every new state (both scales)",
		"scale A = B=4/miniMerkleDepth=2 overlay build; scale B = unscaled B=32 child binary",
		"start states include the shapes one removal away from every inner-level rebalancing step (borrow from the left / right inner sibling, inner merge, root collapse; three inner nodes; four levels; B=32: 529/785-key trees); steps are classified from the tree dumps (events.go) and a complete run must have executed every one of them (else HARNESS-ERROR)",
		"start modes (histories of up to 3 operations in the quick tier, all in thorough): (1) start state committed with the fast index off, reopened with it ON through LoadVersion(latest)/LoadReadonly (index readable but incomplete), also at every later reopen; (2) latest version exported, imported into an empty DB, history continued on the importing handle; a complete run must have continued with Remove and Set of present and of absent keys under both",
	}
	r.Finish("differential model checking: every operation history (BFS, depth-bounded) x every configuration {reopen pattern, cache size, fast index, pruning schedule} must produce identical WorkingHash/Hash after every op and identical version hashes, identical contents; export->import of every new version into an empty DB must reproduce hash, contents and shape (also after reload); hashes equal an independent recomputation",
		ex, map[string]any{
			"states": states + CovInt(covB, "states"), "transitions": trans + CovInt(covB, "transitions") + st.ConfigRuns.Load() + CovInt(covB, "config_runs"),
			"traces_validated_against_impl": trans + CovInt(covB, "transitions") + st.ConfigRuns.Load() + CovInt(covB, "config_runs"),
			"depth":  map[string]any{"scaleA": rows, "scaleB": covB["scenarios"]},
			"scaleA": map[string]any{"B": pb.B, "states": states, "bfs_transitions": trans, "histories_differentiated": st.Histories.Load(), "config_runs": st.ConfigRuns.Load(),
				"hash_comparisons": st.HashCompares.Load(), "export_imports": st.Imports.Load(), "wall_s": wallA,
				"start_mode_runs": st.StartRuns.Load(), "rebalancing_steps": histA.hist, "start_modes": histA.other},
			"scaleB": covB,
		})
}

// ChildC24 is the body of the unscaled child of c24.
func ChildC24(sink Sink) map[string]any {
	pb := Params()
	if pb.B != 32 {
		sink.Violation("HARNESS: child not built with B=32", nil)
		return nil
	}
	scs, err := ScenariosC24B(sink.Thorough())
	if err != nil {
		sink.Violation("B32 prefill failed: "+err.Error(), map[string]any{"error": err.Error()})
		return map[string]any{}
	}
	var st C24Stats
	hs := newHistSink(sink)
	rows, states, trans, _, _, ex := runScenarios(hs, scs, C24Hook(hs, &st, sink.Thorough()))
	return map[string]any{"B": pb.B, "states": states, "transitions": trans, "bfs_transitions": trans, "histories_differentiated": st.Histories.Load(),
		"start_mode_runs": st.StartRuns.Load(), "rebalancing_steps": hs.hist, "start_modes": hs.other,
		"config_runs": st.ConfigRuns.Load(), "hash_comparisons": st.HashCompares.Load(), "export_imports": st.Imports.Load(),
		"exhaustive_to_depth": ex, "scenarios": rows}
}
