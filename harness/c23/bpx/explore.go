package bpx

import (
	"bytes"
	"crypto/sha256"
	"fmt"
	"sort"
	"sync"
	"sync/atomic"

	"github.com/gnolang/gno/tm2/pkg/bptree"
	"github.com/gnolang/gno/tm2/pkg/db/memdb"

	"verif/engine/vk"
)

// Scenario = start state + operation alphabet + depth bound of one exhaustive BFS.
type Scenario struct {
	Name        string
	U           *Universe
	Cfg         Cfg
	Prefill     []Op // builds the start state
	Snapshot    bool // true: prefill runs once; every run starts from a clone of the resulting DB, freshly Load()ed
	Keys        []int
	Rollback    bool
	Reload      bool
	LoadVer     bool
	Prune       bool
	Imm         bool
	MaxSaves    int // versions that may be created beyond the prefill
	Depth       int
	Probe       *Probe // nil = every universe key gets point lookups
	Bounds      []int  // range-iterator bounds (universe indexes, -1 = nil)
	Hidden      bool   // merge states only if the persisted orphan lists and the size of the uncommitted batch agree too
	Tail        bool   // run the deterministic save/save/prune-every-prefix/reopen continuation (tail.go) from every new state …
	TailAbandon bool   // … and after EVERY Rollback / LoadVersion(current version) transition, new state or not (a session-abandoning op is expected to lead back to a known state: exactly where a leftover would be merged away)
	Events      bool   // classify the rebalancing steps of every Set/Remove (events.go)
	TakeOver    bool   // C24: from the start state, enumerate every short Set/Remove sequence under the start-mode configurations (c24.go takeOverEnum)

	shapeCache sync.Map
	baseDB     *memdb.MemDB
	baseModel  *Model
	baseShape  map[int64]string
	baseLatest int64
}

func (m *Model) Clone() *Model {
	n := &Model{U: m.U, Vers: make(map[int64]Content, len(m.Vers)), Hashes: make(map[int64]string, len(m.Hashes)),
		First: m.First, Latest: m.Latest, Ver: m.Ver, Work: m.Work.Clone(), Dirty: m.Dirty, Poisoned: m.Poisoned, ImmVer: m.ImmVer, Imm: m.Imm}
	for k, v := range m.Vers {
		n.Vers[k] = v // contents of saved versions are immutable
	}
	for k, v := range m.Hashes {
		n.Hashes[k] = v
	}
	return n
}

// Prepare runs the prefill once (validating it against the model) and records the base state.
func (sc *Scenario) Prepare() error {
	s := NewSys(sc.U, sc.Cfg)
	m := NewModel(sc.U)
	if i, d := Run(s, m, sc.Prefill); d != "" {
		return fmt.Errorf("prefill op %d (%s): %s", i, sc.Prefill[i].Str(sc.U), d)
	}
	sc.baseLatest = m.Latest
	if sc.Snapshot {
		if m.Dirty {
			return fmt.Errorf("snapshot prefill must end with SaveVersion")
		}
		sc.baseDB = CloneDB(s.DB)
		sc.baseModel = m
		sc.baseShape = s.VerShape
	}
	return nil
}

// Start returns a fresh (real tree, model) pair in the start state.
func (sc *Scenario) Start() (*Sys, *Model, string) {
	if sc.Snapshot {
		s := NewSysOn(sc.U, sc.Cfg, CloneDB(sc.baseDB))
		s.ShapeCache = &sc.shapeCache
		for k, v := range sc.baseShape {
			s.VerShape[k] = v
		}
		m := sc.baseModel.Clone()
		res, p := s.Apply(Op{K: OpReload})
		if p != nil {
			return s, m, fmt.Sprintf("panic: %v", p)
		}
		if d := m.Step(Op{K: OpReload}, res); d != "" {
			return s, m, d
		}
		return s, m, ""
	}
	s := NewSys(sc.U, sc.Cfg)
	s.ShapeCache = &sc.shapeCache
	m := NewModel(sc.U)
	if _, d := Run(s, m, sc.Prefill); d != "" {
		return s, m, d
	}
	return s, m, ""
}

// Enabled lists the operations of the alphabet enabled in model state m (a function of the model only).
func (sc *Scenario) Enabled(m *Model) []Op {
	var ops []Op
	for _, k := range sc.Keys {
		ops = append(ops, Op{OpSet, int16(k)})
	}
	for _, k := range sc.Keys {
		ops = append(ops, Op{OpRemove, int16(k)})
	}
	if m.Latest < sc.baseLatest+int64(sc.MaxSaves) || m.Ver < m.Latest {
		ops = append(ops, Op{K: OpSave})
	}
	if sc.Rollback {
		ops = append(ops, Op{K: OpRollback})
	}
	if sc.Reload && (!m.Dirty || m.Poisoned) {
		ops = append(ops, Op{K: OpReload})
	}
	ret := m.Retained()
	if sc.LoadVer {
		for _, v := range ret {
			ops = append(ops, Op{OpLoadVer, int16(v)})
		}
		ops = append(ops, Op{OpLoadVer, int16(m.Latest + 1)})
		if m.First > 1 {
			ops = append(ops, Op{OpLoadVer, int16(m.First - 1)})
		}
	}
	if sc.Prune {
		for _, v := range ret {
			ops = append(ops, Op{OpPrune, int16(v)})
		}
	}
	if sc.Imm {
		if m.ImmVer == 0 {
			for _, v := range ret {
				ops = append(ops, Op{OpOpenImm, int16(v)})
			}
		} else {
			ops = append(ops, Op{K: OpCloseImm})
		}
	}
	return ops
}

// ShapeOfVersion returns (and caches) the record-identity shape of a retained version.
func (s *Sys) ShapeOfVersion(v int64) string {
	if sh, ok := s.VerShape[v]; ok {
		return sh
	}
	imm, err := s.T.GetImmutable(v)
	if err != nil {
		return "ERR:" + err.Error()
	}
	defer imm.Close()
	d, err := bptree.VerifDumpImm(imm)
	if err != nil {
		return "ERR:" + err.Error()
	}
	sh := ShapeString(d, true)
	s.VerShape[v] = sh
	return sh
}

// Observe compares everything readable with the model after a transition. On every transition: all read APIs
// of the working tree, and size + full ordered contents + root hash of every retained version and of the open
// snapshot. With deep (every NEW state): all read APIs on the retained versions and the snapshot as well.
func Observe(s *Sys, m *Model, probe *Probe, deep bool) string {
	if deep {
		return ObserveMode(s, m, probe, ObsDeep)
	}
	return ObserveMode(s, m, probe, ObsLight)
}

// Observer strengths.
const (
	ObsContents = iota // Size + full ordered contents (+ root hash of saved versions) of the working tree, every retained version, the open snapshot
	ObsLight           // + every read API on the working tree
	ObsDeep            // + every read API on every retained version and the snapshot; on the working tree by-index lookups for EVERY index (Probe.AllIdx)
)

func ObserveMode(s *Sys, m *Model, probe *Probe, mode int) string {
	deep := mode == ObsDeep
	wprobe := probe
	if probe != nil && probe.AllIdx { // every index: on the working tree of a new state only (every saved version was a working tree once)
		probe = &Probe{Keys: probe.Keys}
		if !deep {
			wprobe = probe
		}
	}
	if got := s.T.Version(); got != m.Ver {
		return fmt.Sprintf("Version()=%d, model %d", got, m.Ver)
	}
	if !m.Poisoned {
		var d string
		if mode == ObsContents {
			d = CheckContents(m, m.Work, s.T)
		} else {
			d = CheckReads(m, m.Work, s.T, wprobe)
		}
		if d != "" {
			return "working tree: " + d
		}
	}
	ret := m.Retained()
	for _, v := range ret {
		if !s.T.VersionExists(v) {
			return fmt.Sprintf("VersionExists(%d)=false for a retained version", v)
		}
		imm, err := s.T.GetImmutable(v)
		if err != nil {
			return fmt.Sprintf("GetImmutable(%d) of a retained version failed: %v", v, err)
		}
		var d string
		if deep {
			d = CheckReads(m, m.Vers[v], imm, probe)
		} else {
			d = CheckContents(m, m.Vers[v], imm)
		}
		h := imm.Hash()
		imm.Close()
		if d != "" {
			return fmt.Sprintf("saved version %d: %s", v, d)
		}
		if string(h) != m.Hashes[v] {
			return fmt.Sprintf("saved version %d: root hash changed after it was saved", v)
		}
	}
	av := s.T.AvailableVersions()
	if len(av) != len(ret) {
		return fmt.Sprintf("AvailableVersions()=%v, model retains %v", av, ret)
	}
	for i := range av {
		if int64(av[i]) != ret[i] {
			return fmt.Sprintf("AvailableVersions()=%v, model retains %v", av, ret)
		}
	}
	if m.First > 1 && s.T.VersionExists(m.First-1) {
		return fmt.Sprintf("VersionExists(%d)=true for a pruned version", m.First-1)
	}
	if m.ImmVer != 0 {
		var d string
		if deep {
			d = CheckReads(m, m.Imm, s.Imm, probe)
		} else {
			d = CheckContents(m, m.Imm, s.Imm)
		}
		if d != "" {
			return fmt.Sprintf("open snapshot of version %d: %s", m.ImmVer, d)
		}
	}
	if h, ok := m.Hashes[m.Ver]; ok && string(s.T.Hash()) != h {
		return fmt.Sprintf("Hash() differs from the hash version %d was saved with", m.Ver)
	}
	if !m.Dirty && !m.Poisoned && !bytes.Equal(s.T.WorkingHash(), s.T.Hash()) {
		return "WorkingHash() != Hash() on a clean session"
	}
	return ""
}

type cand struct {
	path []Op
}

type violation struct {
	key    string
	detail map[string]any
}

// Stats of one BFS.
type Stats struct {
	States      int64
	Transitions int64
	DepthDone   int
	Exhaustive  bool
	Ranges      int64
	DeepChecks  int64
	Tails       int64 // continuations run (tail.go)
	TailTrans   int64 // transitions executed inside continuations (included in Transitions)
	Underfull   int64
}

const shards = 64

type digestSet struct {
	mu [shards]sync.Mutex
	m  [shards]map[[16]byte]struct{}
}

func newDigestSet() *digestSet {
	d := &digestSet{}
	for i := range d.m {
		d.m[i] = map[[16]byte]struct{}{}
	}
	return d
}
func (d *digestSet) has(k [16]byte) bool {
	i := int(k[0]) % shards
	d.mu[i].Lock()
	_, ok := d.m[i][k]
	d.mu[i].Unlock()
	return ok
}
func (d *digestSet) add(k [16]byte) bool {
	i := int(k[0]) % shards
	d.mu[i].Lock()
	_, ok := d.m[i][k]
	if !ok {
		d.m[i][k] = struct{}{}
	}
	d.mu[i].Unlock()
	return !ok
}

func lessPath(a, b []Op) bool {
	for i := 0; i < len(a) && i < len(b); i++ {
		if a[i] != b[i] {
			if a[i].K != b[i].K {
				return a[i].K < b[i].K
			}
			return a[i].A < b[i].A
		}
	}
	return len(a) < len(b)
}

// Digest is the state-merging key: model state AND implementation structure (working tree shape with record
// identities, dirty marks and in-memory child pointers; record-identity shape of every retained version; session flags).
func Digest(s *Sys, m *Model, workShape string, hidden bool) [16]byte {
	h := sha256.New()
	h.Write([]byte(m.Canon()))
	fmt.Fprintf(h, "|cfg%d%v|", s.Cfg.Cache, s.Cfg.Fast)
	h.Write([]byte(workShape))
	for _, v := range m.Retained() {
		fmt.Fprintf(h, "|v%d=", v)
		h.Write([]byte(s.ShapeOfVersion(v)))
	}
	nonce, orph, pois, pend, clean := bptree.VerifSession(s.T)
	fmt.Fprintf(h, "|s%v,%d,%v,%v,%v", nonce > 0, orph, pois, pend > 0, clean)
	if hidden {
		h.Write([]byte(HiddenState(s)))
	}
	var out [16]byte
	copy(out[:], h.Sum(nil))
	return out
}

// Hook lets a property add its own per-state checks (C24/C25) on every NEW state. Returns discrepancy or "".
type Hook func(sc *Scenario, s *Sys, m *Model, work *bptree.VerifNode, path []Op) string

// Explore runs the BFS of one scenario. Every transition is executed on the real tree (fresh instance + replay).
func Explore(sink Sink, sc *Scenario, hook Hook) Stats {
	var st Stats
	pb := Params()
	if err := sc.Prepare(); err != nil {
		sink.Violation(sc.Name+": prefill: "+err.Error(), map[string]any{"scenario": sc.Name, "prefill": PathStr(sc.U, sc.Prefill), "error": err.Error()})
		return st
	}
	visited := newDigestSet()
	shapesSeen := newDigestSet()
	var trans, ranges, deep, underfull, tails, tailTrans atomic.Int64

	var vmu sync.Mutex
	var viols []violation
	report := func(path []Op, reason string) {
		full := PathStr(sc.U, path)
		vmu.Lock()
		viols = append(viols, violation{
			key: fmt.Sprintf("%s: %s => %s", sc.Name, full, trunc(reason, 160)),
			detail: map[string]any{"scenario": sc.Name, "B": pb.B, "prefill": PathStr(sc.U, sc.Prefill), "snapshot_start": sc.Snapshot,
				"cache": sc.Cfg.Cache, "fast_index": sc.Cfg.Fast, "ops": full, "discrepancy": reason},
		})
		vmu.Unlock()
	}

	// deepCheck runs on every NEW state.
	deepCheck := func(s *Sys, m *Model, work *bptree.VerifNode, path []Op) string {
		deep.Add(1)
		prob, uf := CheckStructure(work, pb)
		if prob != "" {
			return "structure: " + prob
		}
		underfull.Add(int64(uf))
		wh := RefHash(work, pb.B)
		if !bytes.Equal(wh[:], s.T.WorkingHash()) {
			return "WorkingHash() differs from the independent recomputation over contents and shape"
		}
		if !m.Poisoned {
			sh := sha256.Sum256([]byte(ShapeString(work, false)))
			var k [16]byte
			copy(k[:], sh[:])
			if shapesSeen.add(k) {
				d, n := CheckRanges(m, m.Work, s.T, sc.Bounds)
				ranges.Add(int64(n))
				if d != "" {
					return "working tree: " + d
				}
			}
		}
		if d := Observe(s, m, sc.Probe, true); d != "" {
			return d
		}
		if hook != nil {
			return hook(sc, s, m, work, path)
		}
		return ""
	}

	var nmu [shards]sync.Mutex
	var next [shards]map[[16]byte][]Op

	// successor executes ONE transition (op appended to an already replayed path) with all its checks. It returns the
	// history to blame if it panics half-way (the path plus the tail ops executed so far).
	successor := func(s *Sys, m *Model, full []Op, op Op, blame *[]Op) {
		trans.Add(1)
		sink.Eval()
		wasPruneOK := op.K == OpPrune && m.PruneShouldSucceed(int64(op.A))
		abandons := op.K == OpRollback || op.K == OpLoadVer && int64(op.A) == m.Ver // ops that drop the session and stay on the same version
		var before *bptree.VerifNode
		effective := false
		if sc.Events && !m.Poisoned && (op.K == OpSet && m.Work[op.A] == 0 || op.K == OpRemove && m.Work[op.A] != 0) {
			effective = true
			before, _ = bptree.VerifDumpWorking(s.T)
		}
		res, p := s.Apply(op)
		if p != nil {
			report(full, fmt.Sprintf("panic: %v", p))
			return
		}
		if d := m.Step(op, res); d != "" {
			report(full, d)
			return
		}
		switch {
		case op.K == OpPrune && res.Err == nil && int64(op.A) >= 0:
			sink.Outcome("prune_ok")
		case op.K == OpPrune && wasPruneOK:
			sink.Outcome("prune_refused_unexpectedly")
		case op.K == OpPrune:
			sink.Outcome("prune_refused")
		case op.K == OpSave && res.Err != nil:
			sink.Outcome("save_refused")
		case op.K == OpSave:
			sink.Outcome("save_ok")
		case res.Err != nil:
			sink.Outcome("op_error_expected")
		default:
			sink.Outcome("op_ok")
		}
		if d := Observe(s, m, sc.Probe, false); d != "" {
			report(full, d)
			return
		}
		work, err := bptree.VerifDumpWorking(s.T)
		if err != nil {
			if !m.Poisoned {
				report(full, "working tree walk: "+err.Error())
				return
			}
			work = nil
		}
		if effective {
			for _, e := range ClassifyStructural(before, work, sc.U.Keys[op.A], op.K == OpRemove) {
				sink.Outcome("rebalance:" + e)
			}
		}
		dg := Digest(s, m, ShapeString(work, true), sc.Hidden)
		isNew := false
		if !visited.has(dg) {
			i := int(dg[0]) % shards
			nmu[i].Lock()
			old, seen := next[i][dg]
			if !seen || lessPath(full, old) {
				next[i][dg] = full
			}
			nmu[i].Unlock()
			isNew = !seen
		}
		if isNew {
			if d := deepCheck(s, m, work, full); d != "" {
				report(full, d)
				return
			}
		}
		// deterministic continuation (consumes s and m, which are discarded afterwards anyway)
		if sc.Tail && (isNew || sc.TailAbandon && abandons) {
			tails.Add(1)
			tops, d := sc.RunTail(s, m, pb, func(n int) { tailTrans.Add(int64(n)); sink.EvalN(int64(n)) }, blame, full)
			if d != "" {
				report(append(append([]Op(nil), full...), tops...), "[tail] "+d)
			}
		}
		return
	}

	// level 0
	if p := vk.Catch(func() {
		s0, m0, d0 := sc.Start()
		if d0 != "" {
			report(nil, "start state: "+d0)
		} else if d := Observe(s0, m0, sc.Probe, true); d != "" {
			report(nil, "start state: "+d)
		} else {
			w0, err := bptree.VerifDumpWorking(s0.T)
			if err != nil {
				report(nil, "start state dump: "+err.Error())
				return
			}
			visited.add(Digest(s0, m0, ShapeString(w0, true), sc.Hidden))
			if d := deepCheck(s0, m0, w0, nil); d != "" {
				report(nil, "start state: "+d)
				return
			}
			if sc.Tail {
				tails.Add(1)
				var blame []Op
				tops, d := sc.RunTail(s0, m0, pb, func(n int) { tailTrans.Add(int64(n)); sink.EvalN(int64(n)) }, &blame, nil)
				if d != "" {
					report(tops, "[tail] "+d)
				}
			}
		}
	}); p != nil {
		report(nil, fmt.Sprintf("start state: panic: %v", p))
	}
	st.States = 1
	frontier := [][]Op{{}}
	exhaustive := true

	for depth := 0; depth < sc.Depth && len(frontier) > 0 && len(viols) == 0; depth++ {
		for i := range next {
			next[i] = map[[16]byte][]Op{}
		}
		var aborted atomic.Bool
		sink.ParFor(len(frontier), func(fi int) {
			path := frontier[fi]
			s, m, d := sc.Start()
			if d == "" {
				_, d = Run(s, m, path)
			}
			if d != "" {
				report(path, "HARNESS replay divergence: "+d)
				return
			}
			ops := sc.Enabled(m)
			for oi, op := range ops {
				if sink.Expired() {
					aborted.Store(true)
					return
				}
				if oi > 0 { // fresh instance for every further successor
					s, m, _ = sc.Start()
					if _, d := Run(s, m, path); d != "" {
						report(path, "HARNESS replay divergence: "+d)
						return
					}
				}
				full := append(append(make([]Op, 0, len(path)+1), path...), op)
				// A panic anywhere below (operation, observer, structure walk) is a finding about this history,
				// never a crash of the check.
				blame := full
				if p := vk.Catch(func() { successor(s, m, full, op, &blame) }); p != nil {
					report(blame, fmt.Sprintf("panic: %v", p))
				}
			}
		})
		if aborted.Load() || sink.Expired() {
			exhaustive = false
			break
		}
		frontier = frontier[:0]
		for i := range next {
			for dg, p := range next[i] {
				visited.add(dg)
				sink.Distinct(sc.Name + string(dg[:]))
				frontier = append(frontier, p)
			}
		}
		sort.Slice(frontier, func(a, b int) bool { return lessPath(frontier[a], frontier[b]) })
		st.States += int64(len(frontier))
		st.DepthDone = depth + 1
	}
	if len(viols) > 0 {
		sort.Slice(viols, func(a, b int) bool { return viols[a].key < viols[b].key })
		// shortest counterexamples first
		sort.SliceStable(viols, func(a, b int) bool { return len(viols[a].key) < len(viols[b].key) })
		for i, v := range viols {
			if i >= 3 {
				break
			}
			sink.Violation(v.key, v.detail)
		}
	}
	st.Transitions = trans.Load() + tailTrans.Load()
	st.Tails = tails.Load()
	st.TailTrans = tailTrans.Load()
	st.Ranges = ranges.Load()
	st.DeepChecks = deep.Load()
	st.Underfull = underfull.Load()
	st.Exhaustive = exhaustive && len(viols) == 0
	return st
}
