package bpx

import (
	"bytes"
	"fmt"
	"os"
	"sort"
	"strings"
	"sync"
	"sync/atomic"
	"time"

	ics23 "github.com/cosmos/ics23/go"

	"github.com/gnolang/gno/tm2/pkg/bptree"

	"verif/engine/vk"
)

// ---------- C25 part 1b: completeness of proofs after deletions ----------
//
// Removing the FIRST key of a non-first leaf without underflow leaves the separator above the leaf naming a key that
// no longer exists; merges and borrows rewrite separators. Proof generation that leans on separators, by-index
// arithmetic or neighbour lookups across leaf boundaries has to be exercised on exactly those trees — and the BFS
// alphabets (3-4 keys) rarely hold the first key of a non-first leaf together with the absent key just below it. So,
// from every start shape (both scales), this part visits EVERY tree reached by
//
//	Remove(first key of leaf i) SaveVersion                         for every non-first leaf i
//	Remove(first key of leaf i) SaveVersion Remove(first key of leaf j) SaveVersion
//	                                                                for every non-first leaf j of the resulting tree (scale A),
//	                                                                for the leaf now holding the successor of the removed key (scale B)
//
// and requires for EVERY key of the universe (universes of up to 200 keys: scale A — whose universe holds an absent key
// in every gap — and the two-leaf B=32 trees) resp. for the "window" = every universe key from the leaf before to the
// leaf after each deletion, one absent key in every leaf-boundary gap of the whole tree, the first and the last universe
// key (big B=32 trees): a present key gets a membership proof that verifies against the committed root; an absent key —
// the just-deleted keys and the gaps across leaf boundaries included — gets a non-membership proof that verifies and
// brackets the key with exactly the model's neighbours; on scale A also from a cold tree (reopened). With battery set
// (scale A, single deletions) the soundness battery of CheckTreeProofs (every other key, other values, other roots,
// opposite statement) runs over the window as well.

// DelStats are the counters of the part.
type DelStats struct {
	Trees, Member, NonMember atomic.Int64
	mu                       sync.Mutex
	Classes                  map[string]int64 // what the last removal did + which kinds of absent keys were proven
}

func (d *DelStats) class(k string, n int64) {
	d.mu.Lock()
	if d.Classes == nil {
		d.Classes = map[string]int64{}
	}
	d.Classes[k] += n
	d.mu.Unlock()
}

// leavesOf lists the leaves (universe indexes of their keys) of a dumped tree, left to right.
func leavesOf(u *Universe, root *bptree.VerifNode) [][]int {
	var out [][]int
	var walk func(n *bptree.VerifNode)
	walk = func(n *bptree.VerifNode) {
		if n == nil {
			return
		}
		if n.Leaf {
			var l []int
			for _, k := range n.Keys {
				l = append(l, u.Index(k))
			}
			out = append(out, l)
			return
		}
		for _, c := range n.Children {
			walk(c)
		}
	}
	walk(root)
	return out
}

// checkCompleteness: every probe key gets the proof matching its status, verifying against root, with the right neighbours.
func checkCompleteness(ds *DelStats, sink Sink, m *Model, c Content, imm *bptree.ImmutableTree, root []byte, probe []int) string {
	u := m.U
	spec := bptree.BptreeSpec
	for _, ki := range probe {
		key := u.Keys[ki]
		sink.Eval()
		if c[ki] != 0 {
			ds.Member.Add(1)
			value := u.Val(ki, c[ki])
			proof, err := imm.GetMembershipProof(key)
			if err != nil {
				return fmt.Sprintf("GetMembershipProof(%q) of a present key failed: %v", key, err)
			}
			if !ics23.VerifyMembership(spec, root, proof, key, value) {
				return fmt.Sprintf("membership proof of present key %q does not verify against the root", key)
			}
			if _, err := imm.GetNonMembershipProof(key); err == nil {
				return fmt.Sprintf("GetNonMembershipProof(%q) succeeded for a present key", key)
			}
			continue
		}
		ds.NonMember.Add(1)
		proof, err := imm.GetNonMembershipProof(key)
		if err != nil {
			return fmt.Sprintf("GetNonMembershipProof(%q) of an absent key failed: %v", key, err)
		}
		if !ics23.VerifyNonMembership(spec, root, proof, key) {
			return fmt.Sprintf("non-membership proof of absent key %q does not verify against the root", key)
		}
		lo, hi := -1, len(c)
		for j := ki - 1; j >= 0; j-- {
			if c[j] != 0 {
				lo = j
				break
			}
		}
		for j := ki + 1; j < len(c); j++ {
			if c[j] != 0 {
				hi = j
				break
			}
		}
		ne := proof.GetNonexist()
		if ne == nil || (lo >= 0) != (ne.Left != nil) || (hi < len(c)) != (ne.Right != nil) {
			return fmt.Sprintf("non-membership proof of %q has the wrong neighbours", key)
		}
		if lo >= 0 && !bytes.Equal(ne.Left.Key, u.Keys[lo]) || hi < len(c) && !bytes.Equal(ne.Right.Key, u.Keys[hi]) {
			return fmt.Sprintf("non-membership proof of %q brackets it with the wrong neighbour keys", key)
		}
		if _, err := imm.GetMembershipProof(key); err == nil {
			return fmt.Sprintf("GetMembershipProof(%q) succeeded for an absent key", key)
		}
	}
	return ""
}

// CheckDeletionProofs runs the part on one start shape. second: 0 no second deletion, 1 in the leaf holding the
// successor of the first removed key, 2 in every non-first leaf. cold: repeat the completeness check after a reopen.
func CheckDeletionProofs(sink Sink, st *C25Stats, ds *DelStats, sc *Scenario, battery, cold bool, second int) {
	pb := Params()
	full := len(sc.U.Keys) <= 200
	if os.Getenv("VERIF_VERBOSE") != "" {
		c0, t0, n0 := CPUSeconds(), time.Now(), ds.Trees.Load()
		defer func() {
			fmt.Printf("  %-44s first-key deletions: trees=%d cpu=%.1fs wall=%.1fs\n", sc.Name, ds.Trees.Load()-n0, CPUSeconds()-c0, time.Since(t0).Seconds())
		}()
	}
	if err := sc.Prepare(); err != nil {
		sink.Violation(sc.Name+": prefill: "+err.Error(), nil)
		return
	}
	var vmu sync.Mutex
	var viols []violation
	report := func(path []Op, reason string) {
		vmu.Lock()
		viols = append(viols, violation{
			key:    fmt.Sprintf("%s [first-key deletions]: %s => %s", sc.Name, PathStr(sc.U, path), trunc(reason, 160)),
			detail: map[string]any{"scenario": sc.Name, "B": pb.B, "prefill": trunc(PathStr(sc.U, sc.Prefill), 400), "ops": PathStr(sc.U, path), "discrepancy": reason},
		})
		vmu.Unlock()
	}
	// visit replays path on a fresh instance (the last op of path is a SaveVersion), checks the proofs of the committed tree and
	// returns its leaves.
	visit := func(path []Op) (leaves [][]int, ok bool) {
		s, m, d := sc.Start()
		if d != "" {
			report(path, "start state: "+d)
			return nil, false
		}
		var before, after *bptree.VerifNode
		var removed []int
		for i, op := range path {
			if op.K == OpRemove {
				before, _ = bptree.VerifDumpWorking(s.T)
				removed = append(removed, int(op.A))
			}
			res, p := s.Apply(op)
			if p != nil {
				report(path[:i+1], fmt.Sprintf("panic: %v", p))
				return nil, false
			}
			if d := m.Step(op, res); d != "" {
				report(path[:i+1], d)
				return nil, false
			}
			if op.K == OpRemove {
				after, _ = bptree.VerifDumpWorking(s.T)
			}
		}
		work, err := bptree.VerifDumpWorking(s.T)
		if err != nil {
			report(path, "working tree walk: "+err.Error())
			return nil, false
		}
		leaves = leavesOf(sc.U, work)
		if len(path) == 0 {
			return leaves, true
		}
		sink.Distinct(sc.Name + "|del|" + m.Work.String())
		ds.Trees.Add(1)
		if prob, _ := CheckStructure(work, pb); prob != "" {
			report(path, "structure: "+prob)
			return nil, false
		}
		// what did the last removal do?
		ev := ClassifyStructural(before, after, sc.U.Keys[removed[len(removed)-1]], true)
		if len(ev) == 0 {
			ds.class("first_key_removed:no_rebalancing(separator_above_the_leaf_goes_stale)", 1)
		}
		for _, e := range ev {
			ds.class("first_key_removed:"+e, 1)
		}
		// probe menus
		c := m.Vers[m.Latest]
		var probe, window []int
		{
			set := map[int]bool{0: true, len(sc.U.Keys) - 1: true}
			for _, r := range removed {
				// the three leaves around the removed key
				for li, l := range leaves {
					if l[0] > r || li+1 < len(leaves) && leaves[li+1][0] <= r {
						continue
					}
					lo, hi := max(li-1, 0), min(li+1, len(leaves)-1)
					for k := leaves[lo][0] - 1; k <= leaves[hi][len(leaves[hi])-1]+1; k++ {
						if k >= 0 && k < len(sc.U.Keys) {
							set[k] = true
						}
					}
				}
			}
			for li := 0; li+1 < len(leaves); li++ { // one absent key in every leaf-boundary gap
				if k := leaves[li][len(leaves[li])-1] + 1; k < leaves[li+1][0] {
					set[k] = true
				}
			}
			for k := range set {
				window = append(window, k)
			}
			sort.Ints(window)
		}
		if full {
			for i := range sc.U.Keys {
				probe = append(probe, i)
			}
		} else {
			probe = window
		}
		// which kinds of absent keys are in the menu (vacuity guard)
		firstOf := map[int]int{} // universe index -> leaf index it is the first key of
		lastOf := map[int]int{}
		for li, l := range leaves {
			firstOf[l[0]], lastOf[l[len(l)-1]] = li, li
		}
		for _, ki := range probe {
			if c[ki] != 0 {
				continue
			}
			lo, hi := ki-1, ki+1
			for lo >= 0 && c[lo] == 0 {
				lo--
			}
			for hi < len(c) && c[hi] == 0 {
				hi++
			}
			isRemoved := false
			for _, r := range removed {
				if r == ki {
					isRemoved = true
				}
			}
			switch {
			case isRemoved:
				ds.class("absent_probe:just_deleted_key", 1)
			case lo < 0:
				ds.class("absent_probe:before_first", 1)
			case hi >= len(c):
				ds.class("absent_probe:after_last", 1)
			default:
				_, l := lastOf[lo]
				_, f := firstOf[hi]
				if l && f {
					ds.class("absent_probe:gap_across_leaf_boundary", 1)
					for _, r := range removed {
						if r > ki && r < hi {
							ds.class("absent_probe:between_previous_leaf_and_deleted_first_key", 1)
						}
					}
				} else {
					ds.class("absent_probe:inside_a_leaf", 1)
				}
			}
		}
		imm, err := s.T.GetImmutable(m.Latest)
		if err != nil {
			report(path, "GetImmutable(latest): "+err.Error())
			return nil, false
		}
		defer imm.Close()
		root := []byte(m.Hashes[m.Latest])
		var d2 string
		if rec := vk.Catch(func() {
			d2 = checkCompleteness(ds, sink, m, c, imm, root, probe)
			if d2 == "" && battery && len(removed) == 1 {
				d2 = CheckTreeProofs(st, sink, m, c, imm, root, nil, window, false)
			}
		}); rec != nil {
			d2 = fmt.Sprintf("panic while generating/verifying proofs: %v", rec)
		}
		if d2 != "" {
			report(path, d2)
			return nil, false
		}
		// the same statements from a cold tree (nodes deserialised from the DB)
		if cold {
			res, p := s.Apply(Op{K: OpReload})
			if p != nil || res.Err != nil {
				report(path, fmt.Sprintf("reopen: %v %v", p, res.Err))
				return nil, false
			}
			m.Step(Op{K: OpReload}, res)
			cimm, err := s.T.GetImmutable(m.Latest)
			if err != nil {
				report(path, "GetImmutable(latest) after reopen: "+err.Error())
				return nil, false
			}
			var d3 string
			if rec := vk.Catch(func() { d3 = checkCompleteness(ds, sink, m, c, cimm, root, probe) }); rec != nil {
				d3 = fmt.Sprintf("panic while generating/verifying proofs: %v", rec)
			}
			cimm.Close()
			if d3 != "" {
				report(path, "after reopen: "+d3)
				return nil, false
			}
		}
		return leaves, true
	}

	if base, ok := visit(nil); ok {
		sink.ParFor(len(base), func(li int) {
			if li == 0 || sink.Expired() {
				return
			}
			k1 := base[li][0]
			p1 := []Op{{OpRemove, int16(k1)}, {K: OpSave}}
			l1, ok := visit(p1)
			if !ok || second == 0 {
				return
			}
			for lj := 1; lj < len(l1); lj++ {
				if second == 1 { // only the leaf that now holds the successor of the removed key
					holds := l1[lj][len(l1[lj])-1] > k1 && l1[lj-1][len(l1[lj-1])-1] < k1
					if !holds {
						continue
					}
				}
				if sink.Expired() {
					return
				}
				visit(append(append([]Op(nil), p1...), Op{OpRemove, int16(l1[lj][0])}, Op{K: OpSave}))
			}
		})
	}
	if len(viols) > 0 {
		sort.Slice(viols, func(a, b int) bool { return viols[a].key < viols[b].key })
		sort.SliceStable(viols, func(a, b int) bool { return len(viols[a].key) < len(viols[b].key) })
		for i, v := range viols {
			if i >= 3 {
				break
			}
			sink.Violation(v.key, v.detail)
		}
	}
}

// ---------- start shapes ----------

// UniverseDel is the scale-A universe of this part: the C23 universe plus, after every key k, the key k+"!" that no
// prefill inserts — so every gap between two neighbouring keys of any prefill holds an absent key to probe.
func UniverseDel() *Universe {
	u := UniverseA23()
	var ks []string
	for _, k := range u.Keys {
		ks = append(ks, string(k), string(k)+"!")
	}
	return NewUniverse(ks, -1)
}

// ScenariosC25DelA: every multi-leaf prefill shape of scale A (scen.go) + two shapes with FULL leaves in the middle.
func ScenariosC25DelA() []*Scenario {
	u := UniverseDel()
	var out []*Scenario
	add := func(name string, script []string) {
		out = append(out, &Scenario{Name: "A/" + name, U: u, Cfg: Cfg{Cache: 10000}, Prefill: u.Ops(script...), Snapshot: true})
	}
	for _, p := range prefillsA {
		if len(p.script) < 6 {
			continue // empty tree, single leaf
		}
		add(p.name, p.script)
	}
	// leaves filled up after the splits: (a b b0 c | d e e0 f | g h i j | k l m n o ...)
	add("full-inner-leaves", words("+a +c +e +g +i +k +m +o +q +s +u +w +y +b +d +f +h +j +l +n +p +r +t +v +x +b0 +e0 +j0 +k0 S"))
	add("three-key-leaves", words("+a +c +e +g +i +k +m +o +q +s +b +h +n +r S"))
	return out
}

// ScenariosC25DelB: the unscaled start shapes with more than one leaf: two leaves (33 keys), 17-32 leaves under one root
// (512 keys), three levels (1024 / 1056 keys), each inserted in ascending (90/10 splits: nearly full leaves), descending
// (50/50 splits: every leaf at minimum occupancy) and interleaved order (quick: 8 of the 12: n33 x3, n512 asc/desc,
// n1024 mix, n1056 asc/desc).
func ScenariosC25DelB(thorough bool) ([]*Scenario, error) {
	all, err := ScenariosB(true)
	if err != nil {
		return nil, err
	}
	var out []*Scenario
	for _, sc := range all {
		if strings.HasPrefix(sc.Name, "B32/n31-") || strings.HasPrefix(sc.Name, "B32/n32-") {
			continue // a single leaf
		}
		if !thorough && (sc.Name == "B32/n1024-asc" || sc.Name == "B32/n1024-desc" || sc.Name == "B32/n1056-mix" || sc.Name == "B32/n512-mix") {
			continue // quick: interleaved insertion is represented by n33-mix and n1024-mix
		}
		sc.Cfg = Cfg{Cache: 10000}
		out = append(out, sc)
	}
	return out, nil
}

// Classes a complete run of the part must have met (at each scale).
var needDelClasses = []string{
	"first_key_removed:no_rebalancing(separator_above_the_leaf_goes_stale)", "first_key_removed:leaf_merge", "first_key_removed:leaf_borrow_from_left", "first_key_removed:leaf_borrow_from_right",
	"absent_probe:just_deleted_key", "absent_probe:gap_across_leaf_boundary", "absent_probe:between_previous_leaf_and_deleted_first_key", "absent_probe:inside_a_leaf",
	"absent_probe:before_first", "absent_probe:after_last",
}
