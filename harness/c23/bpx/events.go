package bpx

import (
	"bytes"
	"fmt"

	"github.com/gnolang/gno/tm2/pkg/bptree"
)

// Structural-event classification: which rebalancing step a Set/Remove performed, inferred ONLY from the tree
// dumps before and after the operation (no instrumentation of the code under test, so a refactoring of
// insert.go/remove.go cannot break the build of the check). The classes are outcome statistics and feed the
// vacuity guard: every rebalancing step — split, merge, borrow-from-left, borrow-from-right, at leaf AND at inner
// level, root split and root collapse — must have been executed (and therefore observed through every read API,
// by-index lookups and sizes included) at both scales.

// levelProfile lists, per height (0 = leaves), the fan-out of every node left to right.
func levelProfile(root *bptree.VerifNode) [][]int {
	if root == nil {
		return nil
	}
	h := root.Height
	if root.Leaf {
		h = 0
	}
	prof := make([][]int, h+1)
	var walk func(n *bptree.VerifNode, lvl int)
	walk = func(n *bptree.VerifNode, lvl int) {
		if n.Leaf {
			prof[0] = append(prof[0], len(n.Keys))
			return
		}
		prof[lvl] = append(prof[lvl], len(n.Children))
		for _, c := range n.Children {
			walk(c, lvl-1)
		}
	}
	walk(root, h)
	return prof
}

// pathIndexes returns, per height, the left-to-right index (within its level) of the node on the search path of key.
func pathIndexes(root *bptree.VerifNode, key []byte) []int {
	if root == nil {
		return nil
	}
	h := root.Height
	if root.Leaf {
		h = 0
	}
	idx := make([]int, h+1)
	count := make([]int, h+1)
	found := false
	var walk func(n *bptree.VerifNode, lvl int, onPath bool)
	walk = func(n *bptree.VerifNode, lvl int, onPath bool) {
		if onPath {
			idx[lvl] = count[lvl]
			if lvl == 0 {
				found = true
			}
		}
		count[lvl]++
		if n.Leaf {
			return
		}
		ci := 0
		for ci < len(n.Keys) && bytes.Compare(key, n.Keys[ci]) >= 0 {
			ci++
		}
		for i, c := range n.Children {
			walk(c, lvl-1, onPath && i == ci)
		}
	}
	walk(root, h, true)
	if !found {
		return nil
	}
	return idx
}

func lvlName(h int) string {
	if h == 0 {
		return "leaf"
	}
	return fmt.Sprintf("inner_h%d", h)
}

// ClassifyStructural names the rebalancing steps of one effective Set-insert (remove=false) or Remove (remove=true)
// of key, from the dumps before and after. It returns nil for an operation that only touched one leaf.
func ClassifyStructural(before, after *bptree.VerifNode, key []byte, remove bool) []string {
	pb, pa := levelProfile(before), levelProfile(after)
	var ev []string
	if !remove {
		if len(pa) > len(pb) && len(pb) > 0 {
			ev = append(ev, "root_split")
		}
		for h := 0; h < len(pb) && h < len(pa); h++ {
			if len(pa[h]) > len(pb[h]) {
				ev = append(ev, lvlName(h)+"_split")
			}
		}
		return ev
	}
	if len(pa) < len(pb) && len(pa) > 0 {
		ev = append(ev, "root_collapse")
	}
	path := pathIndexes(before, key)
	if path == nil {
		return ev
	}
	for h := 0; h < len(pb); h++ {
		if h >= len(pa) {
			break // the level disappeared (root collapse)
		}
		if len(pa[h]) < len(pb[h]) {
			ev = append(ev, lvlName(h)+"_merge")
			continue
		}
		if len(pa[h]) != len(pb[h]) {
			continue
		}
		// same number of nodes on this level: did the node on the path lose an entry and get one back from a sibling?
		lost := h == 0 || (h-1 < len(pa) && len(pa[h-1]) < len(pb[h-1])) // an entry of the path node went away below
		if !lost {
			continue
		}
		p := path[h]
		if pa[h][p] != pb[h][p] {
			continue // plain shrink, no borrowing
		}
		switch {
		case p > 0 && pa[h][p-1] == pb[h][p-1]-1:
			ev = append(ev, lvlName(h)+"_borrow_from_left")
		case p+1 < len(pb[h]) && pa[h][p+1] == pb[h][p+1]-1:
			ev = append(ev, lvlName(h)+"_borrow_from_right")
		}
	}
	return ev
}
