package bpx

import (
	"fmt"
	"os"
	"runtime"
	"runtime/debug"
	"runtime/pprof"
	"strings"
	"sync"
	"syscall"
	"time"

	"github.com/gnolang/gno/tm2/pkg/bptree"

	"verif/engine/vk"
)

type scenRow struct {
	Name        string `json:"scenario"`
	Depth       int    `json:"depth_done"`
	States      int64  `json:"states"`
	Transitions int64  `json:"transitions"`
	Ranges      int64  `json:"range_iterators"`
	Alphabet    int    `json:"alphabet_keys"`
	Tails       int64  `json:"continuations,omitempty"`
	Exhaustive  bool   `json:"exhaustive"`
}

func tailsOf(rows []scenRow) (n int64) {
	for _, r := range rows {
		n += r.Tails
	}
	return
}

// runScenarios explores every scenario and aggregates.
func runScenarios(sink Sink, scs []*Scenario, hook Hook) (rows []scenRow, states, trans, ranges, underfull int64, exhaustive bool) {
	exhaustive = true
	only := os.Getenv("VERIF_ONLY")
	for _, sc := range scs {
		if only != "" && !strings.Contains(sc.Name, only) {
			continue
		}
		if sink.Expired() {
			exhaustive = false
			break
		}
		c0, t0, a0 := CPUSeconds(), time.Now(), allocGB()
		st := Explore(sink, sc, hook)
		if os.Getenv("VERIF_VERBOSE") != "" {
			fmt.Printf("  %-44s depth=%d states=%d transitions=%d (tails=%d, %d of the transitions) cpu=%.1fs wall=%.1fs alloc=%.2fGB\n", sc.Name, st.DepthDone, st.States, st.Transitions, st.Tails, st.TailTrans, CPUSeconds()-c0, time.Since(t0).Seconds(), allocGB()-a0)
		}
		rows = append(rows, scenRow{sc.Name, st.DepthDone, st.States, st.Transitions, st.Ranges, len(sc.Keys), st.Tails, st.Exhaustive})
		states += st.States
		trans += st.Transitions
		ranges += st.Ranges
		underfull += st.Underfull
		if !st.Exhaustive {
			exhaustive = false
		}
	}
	return
}

func vacuityGuard(r *vk.Run, hist map[string]int64, need ...string) {
	for _, k := range need {
		if hist[k] == 0 {
			r.HarnessError("vacuous exploration: outcome class %q never occurred", k)
		}
	}
}

// histSink additionally keeps the "rebalance:*" outcome classes for the vacuity guard and the coverage map.
type histSink struct {
	Sink
	mu    sync.Mutex
	hist  map[string]int64
	other map[string]int64 // C24: "cfg_start:*" / "after_takeover:*" classes
}

func newHistSink(s Sink) *histSink {
	return &histSink{Sink: s, hist: map[string]int64{}, other: map[string]int64{}}
}

func (h *histSink) Outcome(class string) {
	switch {
	case strings.HasPrefix(class, "rebalance:"):
		h.mu.Lock()
		h.hist[strings.TrimPrefix(class, "rebalance:")]++
		h.mu.Unlock()
	case strings.HasPrefix(class, "cfg_start:"), strings.HasPrefix(class, "after_takeover"):
		h.mu.Lock()
		h.other[class]++
		h.mu.Unlock()
	}
	h.Sink.Outcome(class)
}

// Rebalancing steps that must have been executed — and therefore observed through every read API — at each scale.
var (
	needRebalanceA = []string{"leaf_split", "inner_h1_split", "root_split", "leaf_merge", "inner_h1_merge", "inner_h2_merge", "root_collapse",
		"leaf_borrow_from_left", "leaf_borrow_from_right", "inner_h1_borrow_from_left", "inner_h1_borrow_from_right", "inner_h2_borrow_from_left"}
	needRebalanceB = []string{"leaf_split", "root_split", "leaf_merge", "inner_h1_merge", "root_collapse",
		"leaf_borrow_from_left", "leaf_borrow_from_right", "inner_h1_borrow_from_left", "inner_h1_borrow_from_right"}
)

// DumpPrefills prints the shapes of all scale-appropriate prefills (developer aid: `-dump` is passed after `--`).
func DumpPrefills() {
	pb := Params()
	fmt.Printf("B=%d MinKeys=%d depth=%d\n", pb.B, pb.MinKeys, pb.Depth)
	if scr := os.Getenv("VERIF_SCRIPT"); scr != "" && pb.B == 4 { // shape after each word of an ad-hoc script
		u := UniverseA23()
		s := NewSys(u, Cfg{Cache: 10000})
		m := NewModel(u)
		for _, w := range strings.Fields(scr) {
			if i, d := Run(s, m, u.Ops(w)); d != "" {
				fmt.Printf("op %d: %s\n", i, d)
				return
			}
			d, _ := bptree.VerifDumpWorking(s.T)
			fmt.Printf("%-4s %s\n", w, ShapeString(d, false))
		}
		return
	}
	if v := os.Getenv("VERIF_DESC"); v != "" && pb.B == 32 { // fan-outs per level while inserting keys in descending order
		var n int
		fmt.Sscan(v, &n)
		var ks []string
		for i := 0; i <= n; i++ {
			ks = append(ks, keyB(i))
		}
		u := NewUniverse(ks, -1)
		s := NewSys(u, Cfg{Cache: 10000})
		m := NewModel(u)
		last := ""
		for i := n; i >= 0; i-- {
			Run(s, m, []Op{{OpSet, int16(i)}})
			d, _ := bptree.VerifDumpWorking(s.T)
			pr := levelProfile(d)
			if len(pr) >= 3 {
				cur := fmt.Sprint(pr[1:], " first leaves ", pr[0][:4])
				if fmt.Sprint(pr[1:]) != last {
					fmt.Printf("n=%d %s\n", n-i+1, cur)
					last = fmt.Sprint(pr[1:])
				}
			}
		}
		return
	}
	var scs []*Scenario
	if pb.B == 4 {
		scs = ScenariosA(false)
	} else {
		scs, _ = ScenariosB(false)
		inner, err := ScenariosBInner(false)
		if err != nil {
			fmt.Println(err)
		}
		scs = append(scs, inner...)
	}
	for _, sc := range scs {
		s := NewSys(sc.U, sc.Cfg)
		m := NewModel(sc.U)
		if i, d := Run(s, m, sc.Prefill); d != "" {
			fmt.Printf("%s: prefill op %d: %s\n", sc.Name, i, d)
			continue
		}
		d, _ := bptree.VerifDumpWorking(s.T)
		sh := ShapeString(d, false)
		if len(sh) > 400 {
			sh = sh[:400] + "…"
		}
		var ks []string
		for _, k := range sc.Keys {
			ks = append(ks, string(sc.U.Keys[k]))
		}
		fmt.Printf("%s depth=%d keys=%v\n   %s\n", sc.Name, sc.Depth, ks, sh)
	}
}

// allocGB is the cumulative number of bytes allocated by this process (load-independent cost measure, developer aid).
func allocGB() float64 {
	if os.Getenv("VERIF_VERBOSE") == "" {
		return 0
	}
	var ms runtime.MemStats
	runtime.ReadMemStats(&ms)
	return float64(ms.TotalAlloc) / 1e9
}

// CPUSeconds is the user+system CPU time consumed by this process so far.
func CPUSeconds() float64 {
	var ru syscall.Rusage
	syscall.Getrusage(syscall.RUSAGE_SELF, &ru)
	return float64(ru.Utime.Sec+ru.Stime.Sec) + float64(ru.Utime.Usec+ru.Stime.Usec)/1e6
}

// StartProfile writes a CPU profile when VERIF_PPROF names a file (developer aid).
func StartProfile() func() {
	p := os.Getenv("VERIF_PPROF")
	if p == "" {
		return func() {}
	}
	f, err := os.Create(p)
	if err != nil {
		return func() {}
	}
	pprof.StartCPUProfile(f)
	return func() { pprof.StopCPUProfile(); f.Close() }
}

// c23Opts switches on what only C23 explores: hidden-state-aware merging, the save/prune continuation from every
// new state and after every Rollback/LoadVersion, rebalancing-step classification, by-index lookups for every index.
func c23Opts(scs []*Scenario) []*Scenario {
	for _, sc := range scs {
		sc.Hidden, sc.Tail, sc.TailAbandon, sc.Events = true, true, sc.Rollback, true
		if sc.Probe != nil {
			sc.Probe = &Probe{Keys: sc.Probe.Keys, AllIdx: true}
		}
	}
	return scs
}

// gcForC23: the explorers allocate fast over a live heap of a few MB; measured (two-versions scenario, loaded
// machine) GOGC=100..200 is about twice as fast as the package default of 400 and far faster than a memory-limit
// driven collector, because the small heap stays cache-hot and is not re-faulted from the OS.
func gcForC23() {
	if os.Getenv("VERIF_GC") == "" {
		debug.SetGCPercent(100)
	}
}

// MainC23 is the parent (B=4 build) of harness c23.
func MainC23() {
	gcForC23()
	for _, a := range os.Args[1:] {
		if a == "-dump" {
			DumpPrefills()
			return
		}
	}
	r := vk.New("model_checking")
	stopProf := StartProfile()
	r.SetBudget(300*time.Second, 28*time.Minute)
	pb := Params()
	if pb.B != 4 || pb.Depth != 2 {
		r.HarnessError("c23 parent must be built with the B=4 overlay, got B=%d depth=%d", pb.B, pb.Depth)
	}
	hitA := false
	aBudget := 150 * time.Second // nominal (idle 16 cores): ~25 s; the caps only matter on an overloaded machine
	bBudget := 120 * time.Second
	if r.Thorough() {
		aBudget, bBudget = 14*time.Minute, 10*time.Minute
	}
	histA := newHistSink(VKSink{r})
	sinkA := BudgetSink{Sink: histA, Deadline: time.Now().Add(aBudget), Hit: &hitA}
	t0 := time.Now()
	rows, states, trans, ranges, underfull, exA := runScenarios(sinkA, c23Opts(ScenariosA(r.Thorough())), nil)
	wallA := time.Since(t0).Seconds()
	if hitA {
		exA = false
		r.MarkCapped()
	}
	stopProf()
	covB := RunChild(r, "c23", bBudget)
	statesB, transB := CovInt(covB, "states"), CovInt(covB, "transitions")
	if ex, _ := covB["exhaustive_to_depth"].(bool); !ex {
		exA = false
	}
	if exA && r.Violations() == 0 && os.Getenv("VERIF_ONLY") == "" { // complete run: every rebalancing step must have been exercised
		vacuityGuard(r, histA.hist, needRebalanceA...)
		hb := map[string]int64{}
		if mb, ok := covB["rebalancing_steps"].(map[string]any); ok {
			for k := range mb {
				hb[k] = CovInt(mb, k)
			}
		}
		vacuityGuard(r, hb, needRebalanceB...)
	}

	if len(rows) > 0 {
		r.Sample(map[string]any{"scale": "A (B=4)", "example_scenario": rows[len(rows)-1]})
	}
	r.Assumptions = []string{
		"scale A is the working-tree code with const.go regex-scaled to B=4/miniMerkleDepth=2 (overlay subst); scale B is the unscaled B=32 code in a second binary built from the same tree",
		"states are merged only when model state AND implementation structure agree (working-tree shape with record identities/dirty marks, record-identity shape of every retained version, session flags)",
		"values are a function of (key, working version); value-key nonces are not part of the merging key",
		"minimum node occupancy is not asserted: the 90/10 append split legitimately creates 2-key leaves (counted as underfull_nodes)",
		"accepted implementation freedoms: an idempotent re-save of identical contents may succeed or be refused; DeleteVersionsTo may refuse (then nothing may change)",
		"in-memory DB (memdb); no fault injection (C27/C28 cover crashes)",
		"hidden bookkeeping is part of the merging key: the orphan list persisted for every version (raw record) and the byte size of the uncommitted batch, so histories that differ only in what a later prune/commit will consume are both continued",
		"continuation (tail.go): from every new state, and after every Rollback / LoadVersion(current) whether new or not, the fixed sequence [close snapshot, Rollback if refused, LoadVersion(latest)] SaveVersion Set(k) SaveVersion DeleteVersionsTo(v) for every retained v ascending, Reopen+Load is executed on the real tree with the observers after the 2nd save, each prune and the reopen; continuation states are not merged/expanded further",
		"rebalancing steps are classified from the tree dumps before/after each Set/Remove (no instrumentation); a complete run must have exercised split/merge/borrow-left/borrow-right at leaf and inner level, root split and collapse at both scales (else HARNESS-ERROR)",
	}
	r.Finish("BFS over operation histories {Set,Remove,SaveVersion,Rollback,reopen+Load,LoadVersion(v),DeleteVersionsTo(v),GetImmutable(v)/Close} from prefill shapes; after EVERY transition all read APIs (Get/Has/Size/GetByIndex/GetWithIndex/Iterate) of the working tree and the ordered contents + hash of every retained version and the open snapshot are compared with a per-version sorted-map model, saved hashes must never change; on every new state all read APIs on every retained version, GetByIndex for EVERY index, structural invariants + independent hash recomputation + all (start,end) range iterators asc/desc; from every new state and after every Rollback a save/save/prune-every-retained-prefix/reopen continuation with the same observers",
		exA, map[string]any{
			"states": states + statesB, "transitions": trans + transB, "traces_validated_against_impl": trans + transB,
			"depth": map[string]any{"scaleA": rows, "scaleB": covB["scenarios"]},
			"scaleA": map[string]any{"B": pb.B, "states": states, "transitions": trans, "range_iterators": ranges, "underfull_nodes_seen": underfull, "wall_s": wallA, "exhaustive_to_depth": exA,
				"continuations": tailsOf(rows), "rebalancing_steps": histA.hist},
			"scaleB": covB,
		})
}

// ChildC23 is the body of the unscaled child.
func ChildC23(sink Sink) map[string]any {
	gcForC23()
	pb := Params()
	if pb.B != 32 {
		sink.Violation("HARNESS: child not built with B=32", nil)
		return nil
	}
	scs, err := scenariosB(sink.Thorough(), !sink.Thorough())
	if err != nil {
		sink.Violation("B32 prefill failed: "+err.Error(), map[string]any{"error": err.Error()})
		return map[string]any{}
	}
	inner, err := ScenariosBInner(sink.Thorough())
	if err != nil {
		sink.Violation("B32 prefill failed: "+err.Error(), map[string]any{"error": err.Error()})
		return map[string]any{}
	}
	scs = append(scs, inner...)
	hs := newHistSink(sink)
	rows, states, trans, ranges, underfull, ex := runScenarios(hs, c23Opts(scs), nil)
	if len(rows) > 0 {
		sink.Sample(map[string]any{"scale": "B (B=32)", "example_scenario": rows[len(rows)-1]})
	}
	return map[string]any{"B": pb.B, "states": states, "transitions": trans, "range_iterators": ranges, "underfull_nodes_seen": underfull,
		"exhaustive_to_depth": ex, "scenarios": rows, "continuations": tailsOf(rows), "rebalancing_steps": hs.hist}
}
