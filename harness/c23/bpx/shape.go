package bpx

import (
	"bytes"
	"crypto/sha256"
	"encoding/binary"
	"fmt"
	"strings"

	"github.com/gnolang/gno/tm2/pkg/bptree"
)

// ShapeString renders the node structure of a dumped tree: per node its keys, optionally its record identity
// (node key or "*" for an unsaved node), the version part of every value key and which children are held in memory.
func ShapeString(n *bptree.VerifNode, withIdentity bool) string {
	var sb strings.Builder
	shapeRec(&sb, n, withIdentity)
	return sb.String()
}

func shapeRec(sb *strings.Builder, n *bptree.VerifNode, id bool) {
	if n == nil {
		sb.WriteString("-")
		return
	}
	if n.Leaf {
		sb.WriteByte('[')
		if id {
			if n.NodeKey == "" {
				sb.WriteByte('*')
			} else {
				sb.WriteString(n.NodeKey)
			}
			sb.WriteByte(' ')
		}
		for i, k := range n.Keys {
			if i > 0 {
				sb.WriteByte(',')
			}
			sb.Write(k)
			if id {
				fmt.Fprintf(sb, "~%d", n.ValueKeyVer[i])
			}
		}
		sb.WriteByte(']')
		return
	}
	sb.WriteByte('(')
	if id {
		if n.NodeKey == "" {
			sb.WriteByte('*')
		} else {
			sb.WriteString(n.NodeKey)
		}
		sb.WriteByte(' ')
	}
	for i, c := range n.Children {
		if i > 0 {
			sb.WriteByte('|')
			sb.Write(n.Keys[i-1])
			sb.WriteByte('|')
		}
		if id {
			if n.ChildInMem[i] {
				sb.WriteByte('m')
			}
			fmt.Fprintf(sb, "#%d", n.ChildSizes[i]) // the size the parent caches for this child (by-index routing depends on it)
		}
		shapeRec(sb, c, id)
	}
	sb.WriteByte(')')
}

// ---------- independent hash recomputation (from the description in hash.go / mini_merkle.go) ----------

var sentinel = sha256.Sum256([]byte{0x02})

func refLeafSlot(key []byte, valueHash [32]byte) [32]byte {
	h := sha256.New()
	h.Write([]byte{0x00})
	var vb [binary.MaxVarintLen64]byte
	n := binary.PutUvarint(vb[:], uint64(len(key)))
	h.Write(vb[:n])
	h.Write(key)
	h.Write([]byte{0x20})
	h.Write(valueHash[:])
	var out [32]byte
	h.Sum(out[:0])
	return out
}

func refInner(l, r [32]byte) [32]byte {
	if l == sentinel && r == sentinel {
		return sentinel
	}
	var buf [65]byte
	buf[0] = 0x01
	copy(buf[1:], l[:])
	copy(buf[33:], r[:])
	return sha256.Sum256(buf[:])
}

// refMini is the root of a perfect binary merkle tree over exactly b slots (b a power of two), unused slots = sentinel.
func refMini(slots [][32]byte, b int) [32]byte {
	level := make([][32]byte, b)
	for i := range level {
		if i < len(slots) {
			level[i] = slots[i]
		} else {
			level[i] = sentinel
		}
	}
	for len(level) > 1 {
		next := make([][32]byte, len(level)/2)
		for i := range next {
			next[i] = refInner(level[2*i], level[2*i+1])
		}
		level = next
	}
	return level[0]
}

// RefHash recomputes the root hash of a dumped tree from keys, value hashes and structure only.
func RefHash(n *bptree.VerifNode, b int) [32]byte {
	if n == nil {
		return sha256.Sum256(nil)
	}
	var slots [][32]byte
	if n.Leaf {
		for i, k := range n.Keys {
			slots = append(slots, refLeafSlot(k, n.ValueHashes[i]))
		}
	} else {
		for _, c := range n.Children {
			slots = append(slots, RefHash(c, b))
		}
	}
	return refMini(slots, b)
}

// ---------- structural invariants ----------

type Bounds struct{ B, MinKeys, Depth int }

func Params() Bounds {
	b, mk, d := bptree.VerifParams()
	return Bounds{b, mk, d}
}

// CheckStructure verifies what every read path relies on: capacity, non-empty nodes, strictly sorted keys,
// separator windows (max(left) < sep <= min(right)), uniform leaf depth, child sizes, cached child hashes and each
// node's own hash (against the independent recomputation), and that every occupied leaf slot has a value key.
// Minimum occupancy is NOT required (the 90/10 split legitimately creates 2-key leaves); it is returned as a statistic.
func CheckStructure(root *bptree.VerifNode, pb Bounds) (problem string, underfull int) {
	if root == nil {
		return "", 0
	}
	var walk func(n *bptree.VerifNode, lo, hi []byte, isRoot bool) (size int64, height int, minK, maxK []byte, prob string)
	walk = func(n *bptree.VerifNode, lo, hi []byte, isRoot bool) (int64, int, []byte, []byte, string) {
		if n == nil {
			return 0, 0, nil, nil, "nil child"
		}
		for i := 1; i < len(n.Keys); i++ {
			if bytes.Compare(n.Keys[i-1], n.Keys[i]) >= 0 {
				return 0, 0, nil, nil, fmt.Sprintf("keys not strictly ascending in node %q", n.NodeKey)
			}
		}
		if n.Leaf {
			if len(n.Keys) < 1 || len(n.Keys) > pb.B {
				return 0, 0, nil, nil, fmt.Sprintf("leaf with %d keys", len(n.Keys))
			}
			if !isRoot && len(n.Keys) < pb.MinKeys {
				underfull++
			}
			for i, k := range n.Keys {
				if lo != nil && bytes.Compare(k, lo) < 0 {
					return 0, 0, nil, nil, fmt.Sprintf("leaf key %q below separator %q", k, lo)
				}
				if hi != nil && bytes.Compare(k, hi) >= 0 {
					return 0, 0, nil, nil, fmt.Sprintf("leaf key %q not below separator %q", k, hi)
				}
				if n.ValueKeyVer[i] < 0 {
					return 0, 0, nil, nil, fmt.Sprintf("leaf key %q has no value key", k)
				}
			}
			var slots [][32]byte
			for i, k := range n.Keys {
				slots = append(slots, refLeafSlot(k, n.ValueHashes[i]))
			}
			if refMini(slots, pb.B) != n.Hash {
				return 0, 0, nil, nil, fmt.Sprintf("leaf %q hash differs from recomputation over its keys/value hashes", n.NodeKey)
			}
			return int64(len(n.Keys)), 0, n.Keys[0], n.Keys[len(n.Keys)-1], ""
		}
		if len(n.Keys) < 1 || len(n.Keys) > pb.B-1 || len(n.Children) != len(n.Keys)+1 {
			return 0, 0, nil, nil, fmt.Sprintf("inner node with %d separators / %d children", len(n.Keys), len(n.Children))
		}
		if !isRoot && len(n.Keys) < pb.MinKeys-1 {
			underfull++
		}
		var total int64
		var minK, maxK []byte
		var slots [][32]byte
		for i, c := range n.Children {
			clo, chi := lo, hi
			if i > 0 {
				clo = n.Keys[i-1]
			}
			if i < len(n.Keys) {
				chi = n.Keys[i]
			}
			sz, h, mn, mx, prob := walk(c, clo, chi, false)
			if prob != "" {
				return 0, 0, nil, nil, prob
			}
			if h != n.Height-1 {
				return 0, 0, nil, nil, fmt.Sprintf("child %d of %q has height %d under a node of height %d", i, n.NodeKey, h, n.Height)
			}
			if sz != n.ChildSizes[i] {
				return 0, 0, nil, nil, fmt.Sprintf("childSizes[%d]=%d but the subtree holds %d keys", i, n.ChildSizes[i], sz)
			}
			if c.Hash != n.ChildHashes[i] {
				return 0, 0, nil, nil, fmt.Sprintf("cached child hash %d of node %q is stale", i, n.NodeKey)
			}
			slots = append(slots, c.Hash)
			total += sz
			if i == 0 {
				minK = mn
			}
			maxK = mx
		}
		if refMini(slots, pb.B) != n.Hash {
			return 0, 0, nil, nil, fmt.Sprintf("inner %q hash differs from recomputation over its child hashes", n.NodeKey)
		}
		return total, n.Height, minK, maxK, ""
	}
	_, _, _, _, prob := walk(root, nil, nil, true)
	return prob, underfull
}
