package bpx

import (
	"bytes"
	"crypto/sha256"
	"fmt"
	"os"
	"sort"
	"sync"
	"sync/atomic"
	"time"

	ics23 "github.com/cosmos/ics23/go"

	abci "github.com/gnolang/gno/tm2/pkg/bft/abci/types"
	"github.com/gnolang/gno/tm2/pkg/bptree"
	"github.com/gnolang/gno/tm2/pkg/crypto/merkle"
	"github.com/gnolang/gno/tm2/pkg/db/memdb"
	storebptree "github.com/gnolang/gno/tm2/pkg/store/bptree"
	"github.com/gnolang/gno/tm2/pkg/store/rootmulti"
	storetypes "github.com/gnolang/gno/tm2/pkg/store/types"

	"verif/engine/vk"
)

// ---------- C25 part 1: ics23 proofs of the B+ tree ----------

type C25Stats struct {
	Trees, Member, NonMember, Negative, Mutations, MutRejectedDecode, MutRejectedVerify, MutIdentical atomic.Int64
}

func flipRoot(r []byte) []byte {
	c := append([]byte(nil), r...)
	c[0] ^= 1
	return c
}

// mutateProofBytes tries every single-bit mutation class (bit 0 and bit 7 of every byte) of an encoded proof.
// verify must say whether the decoded mutant still verifies the original statement; normalize strips fields the
// verifier never reads (so "semantically identical" mutants can be recognised). Returns "" or a description.
func mutateProofBytes(st *C25Stats, enc []byte, verify func(p *ics23.CommitmentProof) bool, normalize func(p *ics23.CommitmentProof)) string {
	for i := range enc {
		for _, bit := range []byte{0x01, 0x80} {
			st.Mutations.Add(1)
			mut := append([]byte(nil), enc...)
			mut[i] ^= bit
			p := &ics23.CommitmentProof{}
			if err := p.Unmarshal(mut); err != nil {
				st.MutRejectedDecode.Add(1)
				continue
			}
			var ok bool
			if rec := vk.Catch(func() { ok = verify(p) }); rec != nil {
				return fmt.Sprintf("verifier panics on proof byte %d ^ %#x: %v", i, bit, rec)
			}
			if !ok {
				st.MutRejectedVerify.Add(1)
				continue
			}
			if normalize != nil {
				normalize(p)
			}
			re, err := p.Marshal()
			if err == nil && bytes.Equal(re, enc) {
				st.MutIdentical.Add(1) // decodes to the same proof (ignored/unknown field): verdict must stay correct, and it did
				continue
			}
			return fmt.Sprintf("proof byte %d ^ %#x (of %d) changes the proof but it still verifies", i, bit, len(enc))
		}
	}
	return ""
}

// CheckTreeProofs checks soundness and completeness of membership / non-membership proofs of one committed tree.
// probe: universe indexes to prove (present -> membership, absent -> non-membership); every statement is also
// verified against every OTHER probe key, other values and other roots; every proof is byte-mutated.
func CheckTreeProofs(st *C25Stats, sink Sink, m *Model, c Content, imm *bptree.ImmutableTree, root []byte, otherRoots [][]byte, probe []int, mutate bool) string {
	u := m.U
	spec := bptree.BptreeSpec
	st.Trees.Add(1)
	if !bytes.Equal(imm.Hash(), root) {
		return "snapshot hash differs from the committed root hash"
	}
	present := func(ki int) bool { return c[ki] != 0 }
	badRoots := append([][]byte{flipRoot(root), {}, sha256sum(nil)}, otherRoots...)
	for _, ki := range probe {
		key := u.Keys[ki]
		if present(ki) {
			st.Member.Add(1)
			sink.Eval()
			value := u.Val(ki, c[ki])
			proof, err := imm.GetMembershipProof(key)
			if err != nil {
				return fmt.Sprintf("GetMembershipProof(%q) of a present key failed: %v", key, err)
			}
			if !ics23.VerifyMembership(spec, root, proof, key, value) {
				return fmt.Sprintf("membership proof of present key %q does not verify against the root", key)
			}
			if ok, err := imm.VerifyMembership(proof, key); !ok || err != nil {
				return fmt.Sprintf("ImmutableTree.VerifyMembership(%q) = %v, %v", key, ok, err)
			}
			if _, err := imm.GetNonMembershipProof(key); err == nil {
				return fmt.Sprintf("GetNonMembershipProof(%q) succeeded for a present key", key)
			}
			if ics23.VerifyNonMembership(spec, root, proof, key) {
				return fmt.Sprintf("membership proof of %q verifies as NON-membership", key)
			}
			for _, kj := range probe {
				if kj == ki {
					continue
				}
				st.Negative.Add(1)
				if ics23.VerifyMembership(spec, root, proof, u.Keys[kj], value) {
					return fmt.Sprintf("membership proof of %q verifies for key %q", key, u.Keys[kj])
				}
			}
			for _, ov := range [][]byte{append(append([]byte(nil), value...), 'x'), value[:len(value)-1], {}, u.Val((ki+1)%len(u.Keys), c[ki]), u.Val(ki, c[ki]+1)} {
				st.Negative.Add(1)
				if !bytes.Equal(ov, value) && ics23.VerifyMembership(spec, root, proof, key, ov) {
					return fmt.Sprintf("membership proof of %q verifies for value %q (real %q)", key, ov, value)
				}
			}
			for _, br := range badRoots {
				st.Negative.Add(1)
				if !bytes.Equal(br, root) && ics23.VerifyMembership(spec, br, proof, key, value) {
					return fmt.Sprintf("membership proof of %q verifies against a different root %x", key, br)
				}
			}
			// store-level operator
			op := storebptree.NewBptreeCommitmentOp(key, proof)
			dec, err := storebptree.BptreeCommitmentOpDecoder(op.ProofOp())
			if err != nil {
				return fmt.Sprintf("BptreeCommitmentOpDecoder(%q): %v", key, err)
			}
			out, err := dec.Run([][]byte{value})
			if err != nil || len(out) != 1 || !bytes.Equal(out[0], root) {
				return fmt.Sprintf("CommitmentOp.Run(%q, value) = %x, %v; want the root", key, out, err)
			}
			if _, err := dec.Run(nil); err == nil {
				return fmt.Sprintf("CommitmentOp.Run(%q) verifies absence with a membership proof", key)
			}
			if mutate {
				enc, _ := proof.Marshal()
				if d := mutateProofBytes(st, enc, func(p *ics23.CommitmentProof) bool { return ics23.VerifyMembership(spec, root, p, key, value) }, nil); d != "" {
					return fmt.Sprintf("membership proof of %q: %s", key, d)
				}
			}
			continue
		}
		// absent key
		if c.Size() == 0 {
			if _, err := imm.GetNonMembershipProof(key); err == nil {
				return "GetNonMembershipProof on an empty tree succeeded"
			}
			sink.Outcome("empty_tree_no_absence_proof")
			continue
		}
		st.NonMember.Add(1)
		sink.Eval()
		proof, err := imm.GetNonMembershipProof(key)
		if err != nil {
			return fmt.Sprintf("GetNonMembershipProof(%q) of an absent key failed: %v", key, err)
		}
		if !ics23.VerifyNonMembership(spec, root, proof, key) {
			return fmt.Sprintf("non-membership proof of absent key %q does not verify against the root", key)
		}
		if ok, err := imm.VerifyNonMembership(proof, key); !ok || err != nil {
			return fmt.Sprintf("ImmutableTree.VerifyNonMembership(%q) = %v, %v", key, ok, err)
		}
		if _, err := imm.GetMembershipProof(key); err == nil {
			return fmt.Sprintf("GetMembershipProof(%q) succeeded for an absent key", key)
		}
		// the gap this proof is about
		lo, hi := -1, len(c)
		for j := ki - 1; j >= 0; j-- {
			if c[j] != 0 {
				lo = j
				break
			}
		}
		for j := ki + 1; j < len(c); j++ {
			if c[j] != 0 {
				hi = j
				break
			}
		}
		ne := proof.GetNonexist()
		if (lo >= 0) != (ne.Left != nil) || (hi < len(c)) != (ne.Right != nil) {
			return fmt.Sprintf("non-membership proof of %q has the wrong neighbours (left=%v right=%v)", key, ne.Left != nil, ne.Right != nil)
		}
		if lo >= 0 && !bytes.Equal(ne.Left.Key, u.Keys[lo]) || hi < len(c) && !bytes.Equal(ne.Right.Key, u.Keys[hi]) {
			return fmt.Sprintf("non-membership proof of %q brackets it with the wrong neighbour keys", key)
		}
		for _, kj := range probe {
			st.Negative.Add(1)
			got := ics23.VerifyNonMembership(spec, root, proof, u.Keys[kj])
			want := kj > lo && kj < hi // exactly the keys of the proven gap (all of them absent)
			if got != want {
				return fmt.Sprintf("non-membership proof of %q: verifies for %q = %v, but that key is %s", key, u.Keys[kj], got,
					map[bool]string{true: "inside the proven gap", false: "outside the proven gap / present"}[want])
			}
		}
		for _, br := range badRoots {
			st.Negative.Add(1)
			if !bytes.Equal(br, root) && ics23.VerifyNonMembership(spec, br, proof, key) {
				return fmt.Sprintf("non-membership proof of %q verifies against a different root %x", key, br)
			}
		}
		if ics23.VerifyMembership(spec, root, proof, key, []byte("x")) {
			return fmt.Sprintf("non-membership proof of %q verifies as membership", key)
		}
		op := storebptree.NewBptreeCommitmentOp(key, proof)
		dec, err := storebptree.BptreeCommitmentOpDecoder(op.ProofOp())
		if err != nil {
			return fmt.Sprintf("BptreeCommitmentOpDecoder(%q): %v", key, err)
		}
		out, err := dec.Run(nil)
		if err != nil || len(out) != 1 || !bytes.Equal(out[0], root) {
			return fmt.Sprintf("CommitmentOp.Run(%q) absence = %x, %v; want the root", key, out, err)
		}
		if mutate {
			enc, _ := proof.Marshal()
			origKey := append([]byte(nil), ne.Key...)
			norm := func(p *ics23.CommitmentProof) {
				if n := p.GetNonexist(); n != nil {
					n.Key = origKey // NonExistenceProof.Key is never read by the verifier (the key is an argument)
				}
			}
			if d := mutateProofBytes(st, enc, func(p *ics23.CommitmentProof) bool { return ics23.VerifyNonMembership(spec, root, p, key) }, norm); d != "" {
				return fmt.Sprintf("non-membership proof of %q: %s", key, d)
			}
		}
	}
	return ""
}

func sha256sum(b []byte) []byte { h := sha256.Sum256(b); return h[:] }

// C25Hook checks the proofs of every newly committed distinct tree (last op = SaveVersion).
func C25Hook(sink Sink, st *C25Stats, seen *digestSet) Hook {
	return func(sc *Scenario, s *Sys, m *Model, work *bptree.VerifNode, path []Op) string {
		if m.Latest == 0 || m.Dirty || m.Poisoned || m.Ver != m.Latest {
			return ""
		}
		if len(path) > 0 && path[len(path)-1].K != OpSave {
			return ""
		}
		h := sha256.Sum256([]byte(sc.Name[:1] + ShapeString(work, false) + "|" + m.Work.String()))
		var k [16]byte
		copy(k[:], h[:])
		if !seen.add(k) {
			return ""
		}
		imm, err := s.T.GetImmutable(m.Latest)
		if err != nil {
			return "GetImmutable(latest): " + err.Error()
		}
		defer imm.Close()
		var others [][]byte
		for v, hh := range m.Hashes {
			if v != m.Latest && hh != m.Hashes[m.Latest] {
				others = append(others, []byte(hh))
			}
		}
		sort.Slice(others, func(i, j int) bool { return bytes.Compare(others[i], others[j]) < 0 })
		probe := sc.Probe.Keys
		if d := CheckTreeProofs(st, sink, m, m.Vers[m.Latest], imm, []byte(m.Hashes[m.Latest]), others, probe, true); d != "" {
			return d
		}
		// the MutableTree wrappers prove against the last committed version
		for _, ki := range probe[:1] {
			key := sc.U.Keys[ki]
			if m.Work[ki] != 0 {
				p, err := s.T.GetMembershipProof(key)
				if err != nil || !ics23.VerifyMembership(bptree.BptreeSpec, s.T.Hash(), p, key, sc.U.Val(ki, m.Work[ki])) {
					return fmt.Sprintf("MutableTree.GetMembershipProof(%q): err=%v / does not verify against Hash()", key, err)
				}
			} else if m.Work.Size() > 0 {
				p, err := s.T.GetNonMembershipProof(key)
				if err != nil || !ics23.VerifyNonMembership(bptree.BptreeSpec, s.T.Hash(), p, key) {
					return fmt.Sprintf("MutableTree.GetNonMembershipProof(%q): err=%v / does not verify against Hash()", key, err)
				}
			}
		}
		return ""
	}
}

// ScenariosC25A: Set/Remove/SaveVersion over prefill shapes, non-empty values only (the empty-value limitation
// is probed separately), probing EVERY universe key around the alphabet (present, absent, before-first, after-last, between neighbours).
func ScenariosC25A(thorough bool) []*Scenario {
	u := NewUniverse(keysA, -1)
	type pf struct {
		name   string
		script []string
		keys   []string
	}
	pfs := []pf{
		{"empty", nil, []string{"b", "d", "f"}},
		{"full-leaf", []string{"+b", "+d", "+f", "+h", "S"}, []string{"a", "d", "e", "i"}},
		{"two-level-min-occupancy", []string{"+b", "+d", "+f", "+h", "+j", "+c", "+e", "-c", "S"}, []string{"a", "b", "e", "j"}},
		{"three-level-min-occupancy", []string{"+a", "+b", "+c", "+d", "+e", "+f", "+g", "+h", "+i", "+j", "+k", "+l", "+m", "+n", "+o", "+p", "+q", "+r", "+s", "+t",
			"-c", "-f", "-i", "-l", "-o", "-r", "S"}, []string{"a", "k", "t", "u"}},
		{"inner-node-full", []string{"+b", "+c", "+d", "+e", "+f", "+g", "+h", "+i", "+j", "+k", "+l", "+m", "+n", "+o", "+p", "+q", "+r", "+s", "+t", "+u", "+v", "+j0", "S"},
			[]string{"a", "k0", "w"}},
	}
	var out []*Scenario
	for _, p := range pfs {
		keys := u.idxs(p.keys...)
		depth := 4
		if thorough {
			depth = 5
		}
		// probe: alphabet keys, their neighbours, plus the first and last universe keys (before-first / after-last)
		pr := boundsOf(keys, u)[1:]
		pr = append(pr, 0, len(u.Keys)-1)
		sort.Ints(pr)
		var uniq []int
		for i, k := range pr {
			if i == 0 || pr[i-1] != k {
				uniq = append(uniq, k)
			}
		}
		out = append(out, &Scenario{
			Name: "A/" + p.name, U: u, Cfg: Cfg{Cache: 10000}, Prefill: u.Ops(p.script...), Snapshot: false,
			Keys: keys, MaxSaves: 2, Depth: depth, Bounds: []int{-1}, Probe: &Probe{Keys: uniq},
		})
	}
	return out
}

// ScenariosC25B: six unscaled shapes, depth 2, real BptreeSpec (MinDepth 5).
func ScenariosC25B(thorough bool) ([]*Scenario, error) {
	all, err := ScenariosB(true)
	if err != nil {
		return nil, err
	}
	keep := map[string]bool{"B32/n31-asc": true, "B32/n32-desc": true, "B32/n33-mix": true, "B32/n512-asc": true, "B32/n1024-mix": true, "B32/n1056-desc": true}
	var out []*Scenario
	for _, sc := range all {
		if !keep[sc.Name] {
			continue
		}
		sc.Cfg = Cfg{Cache: 10000}
		sc.Rollback, sc.Reload, sc.LoadVer, sc.Prune, sc.Imm = false, false, false, false, false
		sc.Bounds = []int{-1}
		sc.Depth = 2
		if thorough {
			sc.Depth = 3
		}
		k := sc.Keys
		if len(k) > 3 {
			sc.Keys = []int{k[0], k[len(k)/2], k[len(k)-1]}
		}
		pr := append([]int(nil), sc.Probe.Keys...)
		if len(pr) > 14 {
			pr = append(append([]int(nil), pr[:7]...), pr[len(pr)-7:]...)
		}
		sc.Probe = &Probe{Keys: pr}
		out = append(out, sc)
	}
	return out, nil
}

// emptyValueProbe: documented limitation (ics23 rejects empty values): a present key with an empty value has no
// verifiable membership proof, and its neighbours' absence cannot be proven. Reported with stable keys.
func emptyValueProbe(sink Sink) {
	u := NewUniverse([]string{"a", "b", "c", "d"}, -1)
	t := bptree.NewMutableTreeWithDB(memdb.NewMemDB(), 100, bptree.NewNopLogger())
	t.Set(u.Keys[0], []byte("x"))
	t.Set(u.Keys[1], []byte{})
	t.Set(u.Keys[3], []byte("y"))
	root, _, err := t.SaveVersion()
	if err != nil {
		sink.Violation("empty-value probe: SaveVersion failed", err.Error())
		return
	}
	imm, _ := t.GetImmutable(1)
	defer imm.Close()
	p, err := imm.GetMembershipProof(u.Keys[1])
	if err != nil || !ics23.VerifyMembership(bptree.BptreeSpec, root, p, u.Keys[1], []byte{}) {
		sink.Outcome("empty_value_membership_unverifiable")
		sink.Violation("completeness: present key with EMPTY value has no verifiable membership proof",
			map[string]any{"tree": "{a:x, b:<empty>, d:y}", "key": "b", "generate_err": fmt.Sprint(err), "where": "bptree/proof.go GetMembershipProof -> ics23 LeafOp.Apply rejects len(value)==0; store accepts empty values (AssertValidValue only rejects nil)"})
	}
	p, err = imm.GetNonMembershipProof(u.Keys[2])
	if err != nil || !ics23.VerifyNonMembership(bptree.BptreeSpec, root, p, u.Keys[2]) {
		sink.Outcome("empty_value_neighbour_absence_unverifiable")
		sink.Violation("completeness: absent key next to an EMPTY-valued key has no verifiable non-membership proof",
			map[string]any{"tree": "{a:x, b:<empty>, d:y}", "key": "c", "generate_err": fmt.Sprint(err)})
	}
}

// ---------- C25 part 2: simple Merkle proofs (lists, maps, multistore) ----------

func refLeaf(item []byte) []byte { return sha256sum(append([]byte{0}, item...)) }
func refNode(l, r []byte) []byte {
	return sha256sum(append(append([]byte{1}, l...), r...))
}

// refSimpleRoot: RFC-6962 style root, split at the largest power of two strictly less than n.
func refSimpleRoot(items [][]byte) []byte {
	switch len(items) {
	case 0:
		return nil
	case 1:
		return refLeaf(items[0])
	}
	k := 1
	for k*2 < len(items) {
		k *= 2
	}
	return refNode(refSimpleRoot(items[:k]), refSimpleRoot(items[k:]))
}

func cloneProof(p *merkle.SimpleProof) *merkle.SimpleProof {
	c := &merkle.SimpleProof{Total: p.Total, Index: p.Index, LeafHash: append([]byte(nil), p.LeafHash...)}
	for _, a := range p.Aunts {
		c.Aunts = append(c.Aunts, append([]byte(nil), a...))
	}
	return c
}

type simpleCand struct {
	p    *merkle.SimpleProof
	item int // the item whose leaf hash the proof carries
	desc string
}

// CheckSimpleLists: every list length 0..maxN x every index; soundness over a pool of every valid proof of every
// length and all their structural mutations, verified against the root of EVERY list length.
func CheckSimpleLists(sink Sink, maxN int) (evals int64) {
	items := make([][]byte, maxN+1)
	for i := range items {
		items[i] = []byte(fmt.Sprintf("item-%02d", i))
	}
	items[3] = []byte{} // an empty item is a legal leaf
	roots := make([][]byte, maxN+1)
	var pool []simpleCand
	for n := 0; n <= maxN; n++ {
		list := items[:n]
		var root []byte
		var proofs []*merkle.SimpleProof
		if rec := vk.Catch(func() { root, proofs = merkle.SimpleProofsFromByteSlices(list) }); rec != nil {
			sink.Violation(fmt.Sprintf("simple: SimpleProofsFromByteSlices panics for a list of %d items", n),
				map[string]any{"panic": fmt.Sprint(rec), "list_length": n, "where": "tm2/pkg/crypto/merkle/simple_proof.go SimpleProofsFromByteSlices: trailsFromByteSlices returns a nil root node for 0 items and rootSPN.Hash dereferences it; SimpleHashFromByteSlices(nil) returns nil without panicking"})
			root = merkle.SimpleHashFromByteSlices(list)
		}
		roots[n] = root
		if !bytes.Equal(root, merkle.SimpleHashFromByteSlices(list)) || !bytes.Equal(root, merkle.SimpleHashFromByteSlicesIterative(list)) || !bytes.Equal(root, refSimpleRoot(list)) {
			sink.Violation(fmt.Sprintf("simple: root of a %d-item list differs between SimpleProofsFromByteSlices / SimpleHashFromByteSlices / iterative / reference", n), nil)
		}
		if len(proofs) != n {
			sink.Violation(fmt.Sprintf("simple: %d proofs for %d items", len(proofs), n), nil)
			continue
		}
		for i, p := range proofs {
			evals++
			if err := p.Verify(root, list[i]); err != nil || p.ValidateBasic() != nil || p.Total != n || p.Index != i {
				sink.Violation(fmt.Sprintf("simple: proof %d/%d does not verify: %v", i, n, err), nil)
			}
			sink.Distinct(fmt.Sprintf("simple:%d/%d", i, n))
			for j := 0; j <= maxN; j++ { // every other item (members and non-members)
				evals++
				if j != i && p.Verify(root, items[j]) == nil {
					sink.Violation(fmt.Sprintf("simple: proof %d/%d verifies for item %d", i, n, j), nil)
				}
			}
			pool = append(pool, simpleCand{p, i, fmt.Sprintf("valid proof %d/%d", i, n)})
			// structural mutations
			for t := 0; t <= n+2; t++ {
				if t != n {
					c := cloneProof(p)
					c.Total = t
					pool = append(pool, simpleCand{c, i, fmt.Sprintf("proof %d/%d with Total=%d", i, n, t)})
				}
			}
			for x := -1; x <= n; x++ {
				if x != i {
					c := cloneProof(p)
					c.Index = x
					pool = append(pool, simpleCand{c, i, fmt.Sprintf("proof %d/%d with Index=%d", i, n, x)})
				}
			}
			if len(p.Aunts) > 0 {
				c := cloneProof(p)
				c.Aunts = c.Aunts[:len(c.Aunts)-1]
				pool = append(pool, simpleCand{c, i, fmt.Sprintf("proof %d/%d minus last aunt", i, n)})
				c = cloneProof(p)
				c.Aunts = c.Aunts[1:]
				pool = append(pool, simpleCand{c, i, fmt.Sprintf("proof %d/%d minus first aunt", i, n)})
			}
			c := cloneProof(p)
			c.Aunts = append(c.Aunts, refLeaf([]byte("extra")))
			pool = append(pool, simpleCand{c, i, fmt.Sprintf("proof %d/%d plus a trailing aunt", i, n)})
			c = cloneProof(p)
			c.Aunts = append([][]byte{refLeaf([]byte("extra"))}, c.Aunts...)
			pool = append(pool, simpleCand{c, i, fmt.Sprintf("proof %d/%d plus a leading aunt", i, n)})
			for a := range p.Aunts {
				c := cloneProof(p)
				c.Aunts[a][0] ^= 1
				pool = append(pool, simpleCand{c, i, fmt.Sprintf("proof %d/%d aunt %d bit flipped", i, n, a)})
				c = cloneProof(p)
				c.Aunts[a][31] ^= 0x80
				pool = append(pool, simpleCand{c, i, fmt.Sprintf("proof %d/%d aunt %d high bit flipped", i, n, a)})
				if a+1 < len(p.Aunts) && !bytes.Equal(p.Aunts[a], p.Aunts[a+1]) {
					c = cloneProof(p)
					c.Aunts[a], c.Aunts[a+1] = c.Aunts[a+1], c.Aunts[a]
					pool = append(pool, simpleCand{c, i, fmt.Sprintf("proof %d/%d aunts %d,%d swapped", i, n, a, a+1)})
				}
			}
			c = cloneProof(p)
			c.LeafHash[5] ^= 4
			pool = append(pool, simpleCand{c, i, fmt.Sprintf("proof %d/%d leaf hash flipped", i, n)})
		}
	}
	// soundness: a candidate may verify against root_n with item x only if x is the item at its claimed index of list n
	// and the candidate is structurally the valid proof for it.
	valid := map[[2]int]string{}
	for n := 1; n <= maxN; n++ {
		_, proofs := merkle.SimpleProofsFromByteSlices(items[:n])
		for i, p := range proofs {
			valid[[2]int{n, i}] = fmt.Sprintf("%x|%x", p.LeafHash, p.Aunts)
		}
	}
	var mu sync.Mutex
	var ev atomic.Int64
	reported := map[string]bool{}
	sink.ParFor(len(pool), func(ci int) {
		c := pool[ci]
		for n := 0; n <= maxN; n++ {
			ev.Add(1)
			var err error
			if rec := vk.Catch(func() { err = c.p.Verify(roots[n], items[c.item]) }); rec != nil {
				sink.Violation("simple: Verify panics on "+c.desc, fmt.Sprint(rec))
				continue
			}
			if err != nil {
				continue
			}
			// SimpleProof.Verify vouches for membership at Index only ("check Index/Total manually"): Total is not
			// bound by the root for shape-compatible totals, so only the position and the item are required to be right.
			if c.item < n && c.p.Index == c.item && valid[[2]int{n, c.item}] == fmt.Sprintf("%x|%x", c.p.LeafHash, c.p.Aunts) {
				if c.p.Total != n {
					sink.Outcome("simple_total_altered_but_shape_compatible")
				}
				continue
			}
			member := c.item < n
			var key string
			switch {
			case n == 0:
				key = "simple: SimpleProof.Verify(root of the EMPTY list = nil, item) accepts a malformed proof (ComputeRootHash()==nil compares equal to the empty root)"
			case !member:
				key = fmt.Sprintf("simple: %s verifies a NON-member item against the root of the %d-item list", c.desc, n)
			default:
				key = fmt.Sprintf("simple: %s verifies against the root of the %d-item list (wrong index or altered aunts)", c.desc, n)
			}
			mu.Lock()
			if !reported[key] {
				reported[key] = true
				sink.Violation(key, map[string]any{"candidate": c.desc, "total": c.p.Total, "index": c.p.Index, "aunts": len(c.p.Aunts), "list_length": n, "item": c.item,
					"where": "tm2/pkg/crypto/merkle/simple_proof.go Verify/computeHashFromAunts"})
			}
			mu.Unlock()
		}
	})
	sink.OutcomeN("simple_candidates", int64(len(pool)))
	return evals + ev.Load()
}

// CheckSimpleMaps: SimpleProofsFromMap / SimpleHashFromMap / ProofOpFromMap for every subset of a 5-key map.
func CheckSimpleMaps(sink Sink) (evals int64) {
	keys := []string{"acc", "bank", "main", "params", "vm"}
	vals := map[string][]byte{}
	for i, k := range keys {
		vals[k] = sha256sum([]byte{byte(i)})
	}
	for mask := 0; mask < 1<<len(keys); mask++ {
		sub := map[string][]byte{}
		var names []string
		for i, k := range keys {
			if mask&(1<<i) != 0 {
				sub[k] = vals[k]
				names = append(names, k)
			}
		}
		var root []byte
		var proofs map[string]*merkle.SimpleProof
		var sorted []string
		if rec := vk.Catch(func() { root, proofs, sorted = merkle.SimpleProofsFromMap(sub) }); rec != nil {
			sink.Violation(fmt.Sprintf("simplemap: SimpleProofsFromMap panics for a map of %d entries", len(sub)), map[string]any{"panic": fmt.Sprint(rec)})
			continue
		}
		if !bytes.Equal(root, merkle.SimpleHashFromMap(sub)) {
			sink.Violation(fmt.Sprintf("simplemap: root mismatch for subset %v", names), nil)
		}
		if fmt.Sprint(sorted) != fmt.Sprint(names) {
			sink.Violation(fmt.Sprintf("simplemap: keys %v not the sorted subset %v", sorted, names), nil)
		}
		// independent root: leaves = amino-length-prefixed key || length-prefixed sha256(value), sorted by key
		var leaves [][]byte
		for _, k := range names {
			leaves = append(leaves, merkle.KVPair{Key: []byte(k), Value: sha256sum(vals[k])}.Bytes())
		}
		if !bytes.Equal(root, refSimpleRoot(leaves)) {
			sink.Violation(fmt.Sprintf("simplemap: root of subset %v differs from the reference construction", names), nil)
		}
		sink.Distinct(fmt.Sprintf("simplemap:%d", mask))
		for i, k := range keys {
			p := proofs[k]
			if mask&(1<<i) == 0 {
				if p != nil {
					sink.Violation(fmt.Sprintf("simplemap: proof for absent key %s in subset %v", k, names), nil)
				}
				if _, err := storetypes.ProofOpFromMap(sub, k); err == nil {
					sink.Violation(fmt.Sprintf("simplemap: ProofOpFromMap for unregistered store %s in %v succeeded", k, names), nil)
				}
				continue
			}
			for j, k2 := range keys {
				for _, v := range [][]byte{vals[k2], sha256sum([]byte("other"))} {
					evals++
					leaf := merkle.KVPair{Key: []byte(k2), Value: sha256sum(v)}.Bytes()
					err := p.Verify(root, leaf)
					want := j == i && bytes.Equal(v, vals[k])
					if (err == nil) != want {
						sink.Violation(fmt.Sprintf("simplemap: proof of %s in %v verifies (%v) for pair (%s, %x…)", k, names, err == nil, k2, v[:4]), nil)
					}
				}
			}
			// the multistore operator built from the same map
			pop, err := storetypes.ProofOpFromMap(sub, k)
			if err != nil {
				sink.Violation(fmt.Sprintf("simplemap: ProofOpFromMap(%v,%s): %v", names, k, err), nil)
				continue
			}
			if d := checkSimpleOp(pop, root, k, vals[k], keys, vals); d != "" {
				sink.Violation(fmt.Sprintf("simplemap: subset %v store %s: %s", names, k, d), nil)
			}
			evals += 8
		}
	}
	return
}

func checkSimpleOp(pop merkle.ProofOp, root []byte, name string, value []byte, keys []string, vals map[string][]byte) string {
	op, err := storetypes.CommitmentOpDecoder(pop)
	if err != nil {
		return "CommitmentOpDecoder: " + err.Error()
	}
	out, err := op.Run([][]byte{value})
	if err != nil || len(out) != 1 || !bytes.Equal(out[0], root) {
		return fmt.Sprintf("Run(value) = %x, %v; want root", out, err)
	}
	if _, err := op.Run([][]byte{sha256sum([]byte("other"))}); err == nil {
		return "Run verifies a different commit hash"
	}
	if _, err := op.Run(nil); err == nil {
		return "Run verifies absence of a present store"
	}
	for _, k2 := range keys {
		if k2 == name {
			continue
		}
		p2 := pop
		p2.Key = []byte(k2)
		op2, err := storetypes.CommitmentOpDecoder(p2)
		if err != nil {
			continue
		}
		if _, err := op2.Run([][]byte{value}); err == nil {
			return "operator re-keyed to store " + k2 + " still verifies"
		}
	}
	return ""
}

// CheckMultiStore: a 3-store rootmulti commit (bptree stores); every (store, key) query proof verified through the
// proof runtime against the app hash; wrong value / key / store / app hash and every single-bit-class mutation of
// every proof operator's bytes must fail.
func CheckMultiStore(sink Sink, st *C25Stats) (evals int64) {
	db := memdb.NewMemDB()
	ms := rootmulti.NewMultiStore(db)
	ms.SetStoreOptions(storetypes.StoreOptions{PruningOptions: storetypes.PruneSyncable})
	names := []string{"acc", "main", "vm"}
	skeys := map[string]storetypes.StoreKey{}
	for _, n := range names {
		skeys[n] = storetypes.NewStoreKey(n)
		ms.MountStoreWithDB(skeys[n], storebptree.StoreConstructor, nil)
	}
	if err := ms.LoadLatestVersion(); err != nil {
		sink.Violation("multistore: LoadLatestVersion: "+err.Error(), nil)
		return
	}
	type kv struct{ k, v string }
	data := map[string][]kv{
		"acc":  {{"a1", "alice"}, {"a3", "carol"}, {"a5", "eve"}},
		"main": {{"m2", "x"}, {"m4", "yy"}, {"m6", "zzz"}, {"m8", "w"}, {"ma", "v"}, {"mc", "u"}},
		"vm":   {{"v1", "pkg"}},
	}
	for _, n := range names {
		s := ms.GetStore(skeys[n])
		for _, e := range data[n] {
			s.Set(nil, []byte(e.k), []byte(e.v))
		}
	}
	cid1 := ms.Commit()
	ms.GetStore(skeys["main"]).Set(nil, []byte("m4"), []byte("changed"))
	ms.GetStore(skeys["acc"]).Delete(nil, []byte("a3"))
	cid2 := ms.Commit()
	prt := rootmulti.DefaultProofRuntime()
	content := func(ver int64, store string) map[string]string {
		out := map[string]string{}
		for _, e := range data[store] {
			out[e.k] = e.v
		}
		if ver == 2 {
			if store == "main" {
				out["m4"] = "changed"
			}
			if store == "acc" {
				delete(out, "a3")
			}
		}
		return out
	}
	probes := map[string][]string{"acc": {"a0", "a1", "a2", "a3", "a4", "a5", "a6"}, "main": {"m1", "m2", "m3", "m4", "m8", "mc", "md"}, "vm": {"v0", "v1", "v2"}}
	for _, cid := range []storetypes.CommitID{cid1, cid2} {
		other := cid1.Hash
		if cid.Version == 1 {
			other = cid2.Hash
		}
		for _, store := range names {
			c := content(cid.Version, store)
			for _, key := range probes[store] {
				evals++
				sink.Eval()
				res := ms.Query(abci.RequestQuery{Path: "/" + store + "/key", Data: []byte(key), Height: cid.Version, Prove: true})
				id := fmt.Sprintf("multistore: v%d /%s/%s", cid.Version, store, key)
				if res.Error != nil || res.Proof == nil {
					sink.Violation(id+": query with proof failed", fmt.Sprint(res.Error, " ", res.Log))
					continue
				}
				want, present := c[key]
				if present != (res.Value != nil) || string(res.Value) != want {
					sink.Violation(id+": wrong value returned", string(res.Value))
					continue
				}
				kp := "/" + store + "/" + key
				verify := func(proof *merkle.Proof, root []byte, path string, val []byte, absence bool) error {
					if absence {
						return prt.VerifyAbsence(proof, root, path)
					}
					return prt.VerifyValue(proof, root, path, val)
				}
				if err := verify(res.Proof, cid.Hash, kp, res.Value, !present); err != nil {
					sink.Violation(id+": genuine proof does not verify against the app hash", err.Error())
					continue
				}
				sink.Distinct(id)
				neg := func(what string, proof *merkle.Proof, root []byte, path string, val []byte, absence bool) {
					evals++
					var err error
					if rec := vk.Catch(func() { err = verify(proof, root, path, val, absence) }); rec != nil {
						sink.Violation(id+": verifier panics: "+what, fmt.Sprint(rec))
						return
					}
					if err == nil {
						sink.Violation(id+": proof still verifies with "+what, nil)
					}
				}
				neg("the other version's app hash", res.Proof, other, kp, res.Value, !present)
				neg("a flipped app hash", res.Proof, flipRoot(cid.Hash), kp, res.Value, !present)
				neg("another store name", res.Proof, cid.Hash, "/"+names[(indexOf(names, store)+1)%3]+"/"+key, res.Value, !present)
				neg("another key", res.Proof, cid.Hash, "/"+store+"/"+key+"x", res.Value, !present)
				if present {
					neg("another value", res.Proof, cid.Hash, kp, []byte(want+"!"), false)
					neg("absence claimed for a present key", res.Proof, cid.Hash, kp, nil, true)
				} else {
					neg("presence claimed for an absent key", res.Proof, cid.Hash, kp, []byte("x"), false)
				}
				// byte mutations of every operator
				for oi := range res.Proof.Ops {
					orig := res.Proof.Ops[oi].Data
					for bi := range orig {
						for _, bit := range []byte{0x01, 0x80} {
							st.Mutations.Add(1)
							evals++
							mp := &merkle.Proof{Ops: append([]merkle.ProofOp(nil), res.Proof.Ops...)}
							md := append([]byte(nil), orig...)
							md[bi] ^= bit
							mp.Ops[oi].Data = md
							var err error
							if rec := vk.Catch(func() { err = verify(mp, cid.Hash, kp, res.Value, !present) }); rec != nil {
								sink.Violation(id+": verifier panics on a mutated operator", fmt.Sprint(rec))
								continue
							}
							if err != nil {
								st.MutRejectedVerify.Add(1)
								continue
							}
							// still verifies: only acceptable if it decodes to the same proof
							p1, p2 := &ics23.CommitmentProof{}, &ics23.CommitmentProof{}
							if p1.Unmarshal(orig) == nil && p2.Unmarshal(md) == nil {
								if n := p2.GetNonexist(); n != nil && p1.GetNonexist() != nil {
									n.Key = p1.GetNonexist().Key
								}
								b1, _ := p1.Marshal()
								b2, _ := p2.Marshal()
								if bytes.Equal(b1, b2) {
									st.MutIdentical.Add(1)
									continue
								}
							}
							sink.Violation(fmt.Sprintf("%s: operator %d byte %d ^ %#x changes the proof but it still verifies", id, oi, bi, bit), nil)
						}
					}
				}
			}
		}
	}
	return
}

func indexOf(s []string, x string) int {
	for i, v := range s {
		if v == x {
			return i
		}
	}
	return 0
}

// MainC25 is the parent (B=4 build) of harness c25.
func MainC25() {
	r := vk.New("exploration")
	r.SetBudget(300*time.Second, 25*time.Minute)
	pb := Params()
	if pb.B != 4 || pb.Depth != 2 || bptree.BptreeSpec.MinDepth != 2 {
		r.HarnessError("c25 parent must be built with the B=4 overlay (B=%d depth=%d MinDepth=%d)", pb.B, pb.Depth, bptree.BptreeSpec.MinDepth)
	}
	sink0 := VKSink{r}
	// part 2 first (cheap, deterministic)
	evL := CheckSimpleLists(sink0, 33)
	evM := CheckSimpleMaps(sink0)
	var stMS C25Stats
	evS := CheckMultiStore(sink0, &stMS)
	r.EvalN(evL + evM)
	emptyValueProbe(sink0)

	hit := false
	aBudget, bBudget := 150*time.Second, 100*time.Second
	if r.Thorough() {
		aBudget, bBudget = 14*time.Minute, 8*time.Minute
	}
	sink := BudgetSink{Sink: sink0, Deadline: time.Now().Add(aBudget), Hit: &hit}
	var st C25Stats
	seen := newDigestSet()
	t0 := time.Now()
	rows, states, trans, _, _, ex := runScenarios(sink, ScenariosC25A(r.Thorough()), C25Hook(sink, &st, seen))
	// part 1b: completeness after first-key deletions (c25del.go)
	var ds DelStats
	for _, sc := range ScenariosC25DelA() {
		if sink.Expired() {
			break
		}
		CheckDeletionProofs(sink, &st, &ds, sc, true, true, 2)
	}
	wallA := time.Since(t0).Seconds()
	if hit {
		ex = false
		r.MarkCapped()
	}
	covB := RunChild(r, "c25", bBudget)
	if e, _ := covB["exhaustive_to_depth"].(bool); !e {
		ex = false
	}
	if st.Member.Load() == 0 || st.NonMember.Load() == 0 || st.MutRejectedVerify.Load() == 0 {
		r.HarnessError("vacuous: no membership / non-membership proofs or no rejected mutations")
	}
	if ex && r.Violations() == 0 && os.Getenv("VERIF_ONLY") == "" { // complete run: the deletion part must have met every class at both scales
		vacuityGuard(r, ds.Classes, needDelClasses...)
		hb := map[string]int64{}
		if mb, ok := covB["deletion_classes"].(map[string]any); ok {
			for k := range mb {
				hb[k] = CovInt(mb, k)
			}
		}
		vacuityGuard(r, hb, needDelClasses...)
	}
	for k, n := range ds.Classes {
		r.OutcomeN("deletions:"+k, n)
	}
	r.OutcomeN("proof_mutation_rejected_at_decode", st.MutRejectedDecode.Load())
	r.OutcomeN("proof_mutation_rejected_at_verify", st.MutRejectedVerify.Load())
	r.OutcomeN("proof_mutation_decodes_to_identical_proof", st.MutIdentical.Load())
	r.OutcomeN("membership_proofs", st.Member.Load())
	r.OutcomeN("non_membership_proofs", st.NonMember.Load())
	r.OutcomeN("negative_statements_rejected", st.Negative.Load())
	r.Sample(map[string]any{"tree_proofs": "every committed distinct tree reached by BFS x every probe key (present/absent/before-first/after-last/between neighbours)"})
	r.Assumptions = []string{
		"tree states: BFS over {Set,Remove,SaveVersion} from prefill shapes, every distinct committed (shape, contents) gets its proofs checked once",
		"deletions: from every multi-leaf start shape, the trees after Remove(first key of leaf i)+SaveVersion for EVERY non-first leaf i, and after a second such removal (scale A: every leaf j; scale B: the leaf holding the successor); completeness for every universe key (scale A, universe with an absent key in every gap; hot and reopened) resp. the three leaves around each deletion + every leaf-boundary gap + first/last key (big B=32 trees); a complete run must have seen removals without rebalancing, with leaf merge and with leaf borrow, and absent probes of all kinds (just-deleted key, gap across a leaf boundary, between the previous leaf and the deleted first key) at both scales",
		"scale A: B=4/miniMerkleDepth=2 and BptreeSpec.MinDepth 5->2 (overlay subst, otherwise no B=4 proof could satisfy the spec); scale B: unscaled B=32 code with the real BptreeSpec",
		"a non-membership proof is expected to verify for exactly the keys strictly inside the proven gap (all absent) and for no other key",
		"byte mutations: bit 0 and bit 7 of every byte of the protobuf-encoded proof; a mutant that decodes to the identical proof (unknown/ignored field, or the never-read NonExistenceProof.Key) must keep the correct verdict",
		"values are non-empty in the explored trees; the documented empty-value limitation is probed separately and reported",
		"simple Merkle: pool of every valid proof for every list length 0..33 and all structural mutations (Total, Index, aunts dropped/added/flipped/swapped, leaf hash), each verified against the root of EVERY list length",
	}
	r.Finish("ics23 membership/non-membership proofs of every explored committed tree: complete (verify with the true statement, also through the store CommitmentOp) and sound (fail for every other key/value/root and every single-bit-class mutation of the proof bytes); simple Merkle proofs for every list length 0..33 x index incl. cross-length soundness; SimpleProofsFromMap/ProofOpFromMap for every subset of a 5-key map; rootmulti 3-store query proofs through the proof runtime",
		ex, map[string]any{
			"states": states + CovInt(covB, "states"), "transitions": trans + CovInt(covB, "transitions"),
			"depth":  map[string]any{"scaleA": rows, "scaleB": covB["scenarios"]},
			"scaleA": map[string]any{"B": pb.B, "trees_with_proofs_checked": st.Trees.Load(), "membership_proofs": st.Member.Load(), "non_membership_proofs": st.NonMember.Load(),
				"negative_statements": st.Negative.Load(), "proof_byte_mutations": st.Mutations.Load(), "wall_s": wallA,
				"deletion_trees": ds.Trees.Load(), "deletion_membership_proofs": ds.Member.Load(), "deletion_non_membership_proofs": ds.NonMember.Load(), "deletion_classes": ds.Classes},
			"scaleB":      covB,
			"simple_list": map[string]any{"lengths": "0..33", "evaluations": evL},
			"simple_map":  map[string]any{"subsets": 32, "evaluations": evM},
			"multistore":  map[string]any{"stores": 3, "versions": 2, "evaluations": evS, "operator_byte_mutations": stMS.Mutations.Load(), "identical_after_decode": stMS.MutIdentical.Load()},
		})
}

// ChildC25 is the body of the unscaled child of c25.
func ChildC25(sink Sink) map[string]any {
	pb := Params()
	if pb.B != 32 || bptree.BptreeSpec.MinDepth != 5 {
		sink.Violation("HARNESS: child not built with the unscaled parameters", nil)
		return nil
	}
	scs, err := ScenariosC25B(sink.Thorough())
	if err != nil {
		sink.Violation("B32 prefill failed: "+err.Error(), map[string]any{"error": err.Error()})
		return map[string]any{}
	}
	var st C25Stats
	seen := newDigestSet()
	rows, states, trans, _, _, ex := runScenarios(sink, scs, C25Hook(sink, &st, seen))
	var ds DelStats
	if del, err := ScenariosC25DelB(sink.Thorough()); err != nil {
		sink.Violation("B32 prefill failed: "+err.Error(), map[string]any{"error": err.Error()})
	} else {
		for _, sc := range del {
			if sink.Expired() {
				ex = false
				break
			}
			CheckDeletionProofs(sink, &st, &ds, sc, false, false, 1)
		}
	}
	for k, n := range ds.Classes {
		sink.OutcomeN("deletions:"+k, n)
	}
	var stMS C25Stats
	evS := CheckMultiStore(sink, &stMS)
	return map[string]any{"B": pb.B, "states": states, "transitions": trans, "trees_with_proofs_checked": st.Trees.Load(), "membership_proofs": st.Member.Load(),
		"deletion_trees": ds.Trees.Load(), "deletion_membership_proofs": ds.Member.Load(), "deletion_non_membership_proofs": ds.NonMember.Load(), "deletion_classes": ds.Classes,
		"non_membership_proofs": st.NonMember.Load(), "negative_statements": st.Negative.Load(), "proof_byte_mutations": st.Mutations.Load(),
		"mutations_identical_after_decode": st.MutIdentical.Load(), "multistore_evaluations": evS,
		"exhaustive_to_depth": ex, "scenarios": rows}
}
