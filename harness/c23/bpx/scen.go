package bpx

import (
	"fmt"
	"sort"
	"strings"
	"time"

	"github.com/gnolang/gno/tm2/pkg/bptree"
)

// ---------- scale A (B=4 build): small alphabet, deep ----------

var keysA = []string{"a", "b", "b0", "c", "d", "e", "e0", "f", "g", "h", "i", "j", "j0", "k", "k0", "l", "m", "n", "o", "p", "q", "r", "s", "t", "u", "v", "w", "x"}

func UniverseA() *Universe { return NewUniverse(keysA, 3 /* "c" is empty-valued on even versions */) }

// UniverseA23 is the C23 universe: keysA plus four keys above "x" (same indexes for the old keys), so that descending
// insertion — which leaves every node at minimum occupancy — can build a four-level tree.
func UniverseA23() *Universe {
	return NewUniverse(append(append([]string(nil), keysA...), "y", "y0", "z", "z0"), 3)
}

func (u *Universe) idx(k string) int {
	i := u.Index([]byte(k))
	if i < 0 {
		panic("key not in universe: " + k)
	}
	return i
}

// Ops builds an op list from a compact script: "+k" Set, "-k" Remove, "S" SaveVersion, "R" Rollback, "L" reopen.
func (u *Universe) Ops(script ...string) []Op {
	var out []Op
	for _, w := range script {
		switch {
		case w == "S":
			out = append(out, Op{K: OpSave})
		case w == "R":
			out = append(out, Op{K: OpRollback})
		case w == "L":
			out = append(out, Op{K: OpReload})
		case w[0] == '+':
			out = append(out, Op{OpSet, int16(u.idx(w[1:]))})
		case w[0] == '-':
			out = append(out, Op{OpRemove, int16(u.idx(w[1:]))})
		default:
			panic("bad script word " + w)
		}
	}
	return out
}

func (u *Universe) idxs(ks ...string) []int {
	var out []int
	for _, k := range ks {
		out = append(out, u.idx(k))
	}
	sort.Ints(out)
	return out
}

func boundsOf(keys []int, u *Universe) []int {
	// nil bound + every alphabet key + its immediate universe neighbours
	set := map[int]bool{-1: true}
	for _, k := range keys {
		set[k] = true
		if k > 0 {
			set[k-1] = true
		}
		if k+1 < len(u.Keys) {
			set[k+1] = true
		}
	}
	var out []int
	for k := range set {
		out = append(out, k)
	}
	sort.Ints(out)
	return out
}

type prefillA struct {
	name   string
	script []string
	keys   []string // alphabet
	ds, dv int      // quick-tier depth of the struct / versions family (0: default 4 / 5, -1: family not run in the quick tier); the
	// versions family runs to depth 5 from the one-leaf prefills and to depth 4 (+ continuation) from the bigger ones
}

// words splits a compact script.
func words(s string) []string { return strings.Fields(s) }

// desc is the script inserting the C23 universe in DESCENDING order from "z0" down to and including key `last`
// (every leaf split is then a 50/50 split: all nodes right of the insertion point stay at minimum occupancy).
func desc(last string) []string {
	u := UniverseA23()
	var out []string
	for i := len(u.Keys) - 1; i >= 0; i-- {
		out = append(out, "+"+string(u.Keys[i]))
		if string(u.Keys[i]) == last {
			return out
		}
	}
	panic("desc: key not in universe: " + last)
}

// Prefill shapes of scale A (B=4: leaf capacity 4, min 2; inner capacity 4 children, min 2).
var prefillsA = []prefillA{
	{"empty", nil, []string{"b", "d", "f", "h", "j", "c"}, 0, 0},
	{"full-leaf", []string{"+b", "+d", "+f", "+h", "S"}, []string{"a", "c", "d", "e", "h", "i"}, 0, 0},
	{"just-split-90-10", []string{"+b", "+d", "+f", "+h", "+j", "S"}, []string{"a", "c", "f", "g", "h", "k"}, 0, 0},
	{"two-level-min-occupancy", []string{"+b", "+d", "+f", "+h", "+j", "+c", "+e", "-c", "S"}, []string{"a", "b", "d", "e", "g", "j"}, 0, 4},
	{"append-chain", []string{"+a", "+b", "+c", "+d", "+e", "+f", "+g", "+h", "+i", "+j", "+k", "+l", "+m", "+n", "S"}, []string{"c", "d", "g", "m", "n", "o"}, 0, 4},
	{"three-level-min-occupancy", []string{"+a", "+b", "+c", "+d", "+e", "+f", "+g", "+h", "+i", "+j", "+k", "+l", "+m", "+n", "+o", "+p", "+q", "+r", "+s", "+t",
		"-c", "-f", "-i", "-l", "-o", "-r", "S"}, []string{"a", "b", "e", "k", "t", "u"}, 0, 4},
	{"inner-node-full", []string{"+a", "+b", "+c", "+d", "+e", "+f", "+g", "+h", "+i", "+j", "+k", "+l", "+m", "+n", "+o", "+p", "+q", "+r", "+s", "+t", "+u", "+v", "+j0", "S"},
		[]string{"a", "k0", "w"}, 0, 4},
	{"two-versions", []string{"+b", "+d", "+f", "+h", "+j", "S", "+c", "-h", "S"}, []string{"b", "c", "e", "j"}, 0, 4},
	{name: "three-versions-deep", script: []string{"+a", "+b", "+c", "+d", "+e", "+f", "+g", "+h", "+i", "+j", "S", "-b", "-e", "+k", "S", "+e0", "-j", "S"}, keys: []string{"a", "d", "e0", "k"}, dv: 4},
	// Rebalancing at INNER level, one or two removals away (fan-outs in the comments; B=4: inner nodes hold 2..4 children):
	// ((3|2|2)|(2|2)): a removal on the right merges two leaves, the right inner node underflows and borrows the left one's last child
	{name: "inner-borrow-from-left", script: append(desc("r"), "S"), keys: []string{"q", "s", "w", "y", "z0"}, dv: 4},
	// ((2|2)|(2|2|2)): mirror image — the leftmost inner node underflows and borrows the right one's first child
	{name: "inner-borrow-from-right", script: words("+a +b +c +d +e +f +g +h +i +j +k +l +m +n +o +p +q -c -f -i -l -o -a -d S"), keys: []string{"b", "c", "h", "j", "q"}, dv: -1},
	// ((2|2)|(2|2)): nobody can spare — the inner nodes merge and the root collapses
	{name: "inner-merge-root-collapse", script: words("+a +b +c +d +e +f +g +h +i +j +k +l +m +n -c -f -i -l -a -d S"), keys: []string{"b", "g", "j", "n", "o"}, dv: -1},
	// ((3|2|2)|(2|2)|(2|2)): three inner nodes — the middle one borrows from the left, the right one merges into the middle
	{name: "three-inner-nodes", script: append(desc("n"), "S"), keys: []string{"m", "n", "u", "x", "z"}, dv: -1},
	// FOUR levels (((3|2|2)|(2|2)|(2|2))|((2|2)|(2|2))): one removal on the right cascades leaf merge -> inner merge ->
	// underflow at height 2 -> borrow of an INNER child (sizes are sums); in the middle: borrow / merge at height 1 under height 2
	{name: "four-level-min-occupancy", script: append(desc("h"), "S"), keys: []string{"g", "m", "t", "u", "z0"}, ds: 3, dv: 4},
}

// ScenariosA returns the scale-A scenario list. Two families per prefill:
//
//	struct: Set/Remove/Save/Reopen over a wide key alphabet (splits, merges, redistribution, root collapse),
//	versions: the full alphabet (Rollback, LoadVersion, DeleteVersionsTo, GetImmutable) over a narrow key alphabet.
func ScenariosA(thorough bool) []*Scenario {
	u := UniverseA23()
	var out []*Scenario
	for pi, p := range prefillsA {
		keys := u.idxs(p.keys...)
		ds, dv := 4, 5
		if p.ds != 0 {
			ds = p.ds
		}
		if p.dv != 0 {
			dv = p.dv
		}
		if thorough {
			ds, dv = max(ds, 4)+1, max(dv, 4)+1
		}
		cache := []int{10000, 0, 2, 10000}[pi%4]
		if ds > 0 {
			out = append(out, &Scenario{
				Name: "A/struct/" + p.name, U: u, Cfg: Cfg{Cache: cache}, Prefill: u.Ops(p.script...), Snapshot: false,
				Keys: keys, Reload: true, MaxSaves: 2, Depth: ds, Bounds: boundsOf(keys, u), Probe: &Probe{Keys: boundsOf(keys, u)[1:]},
			})
		}
		if dv <= 0 {
			continue
		}
		vk := keys
		if len(vk) > 3 {
			vk = []int{keys[0], keys[len(keys)/2], keys[len(keys)-1]}
		}
		out = append(out, &Scenario{
			Name: "A/versions/" + p.name, U: u, Cfg: Cfg{Cache: []int{2, 10000, 10000, 0}[pi%4]}, Prefill: u.Ops(p.script...), Snapshot: pi%2 == 1,
			Keys: vk, Rollback: true, Reload: true, LoadVer: true, Prune: true, Imm: true, MaxSaves: 3, Depth: dv, Bounds: boundsOf(vk, u), Probe: &Probe{Keys: boundsOf(vk, u)[1:]},
		})
	}
	return out
}

// ---------- scale B (unscaled B=32 build): big prefills, alphabet around node boundaries ----------

func keyB(i int) string { return fmt.Sprintf("k%05d", i) }

type prefillB struct {
	n     int
	order string // asc | desc | mix
}

// ScenariosB builds the B=32 scenarios: prefill of n keys (odd universe indexes, so every gap is insertable)
// in ascending / descending / interleaved order, then an alphabet of keys adjacent to leaf boundaries.
func ScenariosB(thorough bool) ([]*Scenario, error) { return scenariosB(thorough, false) }

func scenariosB(thorough, quick23 bool) ([]*Scenario, error) {
	sizes := []int{31, 32, 33, 512, 1024, 1056}
	var out []*Scenario
	for _, n := range sizes {
		for oi, order := range []string{"asc", "desc", "mix"} {
			if !thorough && ((n == 512 || n == 1056) && order == "mix" || n == 1024 && order != "mix") {
				continue // quick: two insertion orders for 512/1056, one for 1024
			}
			if quick23 && (n == 1024 || n == 1056 && order == "desc") {
				continue // C23 quick runs the three descending-order inner-rebalancing start states (ScenariosBInner) instead
			}
			var ks []string
			for i := 0; i <= 2*n+2; i++ {
				ks = append(ks, keyB(i))
			}
			u := NewUniverse(ks, -1)
			var seq []int
			for i := 0; i < n; i++ {
				seq = append(seq, 2*i+1)
			}
			switch order {
			case "desc":
				for i, j := 0, len(seq)-1; i < j; i, j = i+1, j-1 {
					seq[i], seq[j] = seq[j], seq[i]
				}
			case "mix": // low/high interleaved: 0, n-1, 1, n-2, ...
				var m []int
				for i, j := 0, len(seq)-1; i <= j; i, j = i+1, j-1 {
					m = append(m, seq[i])
					if i != j {
						m = append(m, seq[j])
					}
				}
				seq = m
			}
			var pre []Op
			for i, k := range seq {
				pre = append(pre, Op{OpSet, int16(k)})
				if i == len(seq)/2 {
					pre = append(pre, Op{K: OpSave}) // two versions in the prefill
				}
			}
			pre = append(pre, Op{K: OpSave})
			// find the alphabet from the real structure of the prefilled tree
			s := NewSys(u, Cfg{Cache: 10000})
			m := NewModel(u)
			if i, d := Run(s, m, pre); d != "" {
				return nil, fmt.Errorf("B32 prefill n=%d %s op %d: %s", n, order, i, d)
			}
			d, err := bptree.VerifDumpWorking(s.T)
			if err != nil {
				return nil, err
			}
			var leaves [][]int
			var walk func(x *bptree.VerifNode)
			walk = func(x *bptree.VerifNode) {
				if x.Leaf {
					var l []int
					for _, k := range x.Keys {
						l = append(l, u.Index(k))
					}
					leaves = append(leaves, l)
					return
				}
				for _, c := range x.Children {
					walk(c)
				}
			}
			walk(d)
			set := map[int]bool{}
			addBoundary := func(li int) {
				if li < 0 || li+1 >= len(leaves) {
					return
				}
				l, r := leaves[li], leaves[li+1]
				set[l[len(l)-1]] = true   // max of left leaf (present)
				set[l[len(l)-1]+1] = true // gap key between the leaves (absent)
				set[r[0]] = true          // min of right leaf (present)
			}
			if len(leaves) == 1 {
				l := leaves[0]
				set[l[0]] = true
				set[l[0]-1] = true
				set[l[len(l)/2]] = true
				set[l[len(l)/2]+1] = true
			} else {
				addBoundary(0)
				addBoundary(len(leaves)/2 - 1)
				addBoundary(len(leaves) - 2)
			}
			last := leaves[len(leaves)-1]
			set[last[len(last)-1]+1] = true // append beyond the maximum
			set[0] = true                   // prepend below the minimum
			var keys []int
			for k := range set {
				keys = append(keys, k)
			}
			sort.Ints(keys)
			depth := 2
			if n <= 33 {
				depth = 3
			}
			if thorough {
				depth++
			}
			probe := &Probe{Keys: boundsOf(keys, u)[1:]}
			out = append(out, &Scenario{
				Name: fmt.Sprintf("B32/n%d-%s", n, order), U: u, Cfg: Cfg{Cache: cacheB(n, oi)}, Prefill: pre, Snapshot: true,
				Keys: keys, Rollback: true, Reload: true, LoadVer: false, Prune: true, Imm: false, MaxSaves: 2, Depth: depth,
				Probe: probe, Bounds: boundsOf(keys, u),
			})
		}
	}
	return out, nil
}

// cacheB: node-cache sizes of the B=32 scenarios by insertion order: unlimited / none / 3 nodes. Without a cache every
// lookup deserialises and re-hashes a 32-slot node per level, so from 512 keys on "none" becomes 64 nodes (still
// evicting: those trees have 17-35 nodes in each of 3-4 versions); the cache-less big tree is B32/h1-borrow-from-left.
func cacheB(n, oi int) int {
	if n >= 512 {
		return []int{10000, 64, 3}[oi]
	}
	return []int{10000, 0, 3}[oi]
}

// BudgetSink caps a sub-phase at its own deadline (in addition to the run's budget).
type BudgetSink struct {
	Sink
	Deadline time.Time
	Hit      *bool
}

func (b BudgetSink) Expired() bool {
	if time.Now().After(b.Deadline) {
		*b.Hit = true
		return true
	}
	return b.Sink.Expired()
}
func (b BudgetSink) ParFor(n int, f func(i int)) {
	b.Sink.ParFor(n, func(i int) {
		if b.Expired() {
			return
		}
		f(i)
	})
}

// ---------- scale B, inner-level rebalancing one removal away ----------

// ScenariosBInner builds three B=32 start states in which ONE removal rebalances at INNER level (descending insertion
// leaves every node but the leftmost of each level at minimum occupancy, 16 keys / 16 children):
//
//	h1-borrow-from-left : 529 keys, inner fan-outs [17 16] — a removal under the right inner node merges two 16-key
//	                      leaves, the node underflows to 15 children and takes the left node's last child
//	h1-merge            : 785 keys, [17 16 16] — under the third inner node: nobody can spare, it merges into the second
//	h1-borrow-from-right: the first one reshaped to [16 17] (one leaf merge on the left, 17 insertions splitting a leaf on
//	                      the right) — a removal under the LEFTMOST inner node makes it take the right node's first child
//
// The alphabet is computed from the real structure: keys whose leaf and both leaf siblings are at minimum occupancy
// under the node that has to underflow, the keys next to the inner-node boundary, an absent key, a key on the far side.
func ScenariosBInner(thorough bool) ([]*Scenario, error) {
	type kind struct {
		name   string
		n      int
		target int // index of the inner node that must underflow
		cache  int
	}
	var out []*Scenario
	for _, kd := range []kind{{"h1-borrow-from-left", 529, 1, 0}, {"h1-merge", 785, 2, 64}, {"h1-borrow-from-right", 529, 0, 10000}} {
		const stride = 3 // prefill keys are universe indexes 3i+1: two absent keys in every gap
		var ks []string
		for i := 0; i <= stride*kd.n+1; i++ {
			ks = append(ks, keyB(i))
		}
		u := NewUniverse(ks, -1)
		s := NewSys(u, Cfg{Cache: 10000})
		m := NewModel(u)
		var pre []Op
		do := func(ops ...Op) error {
			if i, d := Run(s, m, ops); d != "" {
				return fmt.Errorf("B32 %s prefill op %d: %s", kd.name, len(pre)+i, d)
			}
			pre = append(pre, ops...)
			return nil
		}
		for i := kd.n - 1; i >= 0; i-- {
			if err := do(Op{OpSet, int16(stride*i + 1)}); err != nil {
				return nil, err
			}
			if i == kd.n/2 {
				if err := do(Op{K: OpSave}); err != nil {
					return nil, err
				}
			}
		}
		// inner(i) = leaves (as universe indexes) under the i-th child of the root
		inner := func(i int) ([][]int, error) {
			d, err := bptree.VerifDumpWorking(s.T)
			if err != nil {
				return nil, err
			}
			if d == nil || d.Leaf || d.Height != 2 || i >= len(d.Children) {
				return nil, fmt.Errorf("B32 %s: unexpected prefill shape (height/fan-out)", kd.name)
			}
			var ls [][]int
			for _, lf := range d.Children[i].Children {
				var l []int
				for _, k := range lf.Keys {
					l = append(l, u.Index(k))
				}
				ls = append(ls, l)
			}
			return ls, nil
		}
		if kd.name == "h1-borrow-from-right" {
			l0, err := inner(0)
			if err != nil {
				return nil, err
			}
			if err := do(Op{OpRemove, int16(l0[2][0])}); err != nil { // leaves 1 and 2 (16 keys each) merge: 17 -> 16 children
				return nil, err
			}
			l1, err := inner(1)
			if err != nil {
				return nil, err
			}
			lf := l1[len(l1)/2]
			for j := 0; j < 17; j++ { // 16 + 17 keys: the leaf splits, 16 -> 17 children
				if err := do(Op{OpSet, int16(lf[j/2] + 1 + j%2)}); err != nil {
					return nil, err
				}
			}
		}
		if err := do(Op{K: OpSave}); err != nil {
			return nil, err
		}
		tl, err := inner(kd.target)
		if err != nil {
			return nil, err
		}
		other := kd.target - 1
		if kd.target == 0 {
			other = 1
		}
		ol, err := inner(other)
		if err != nil {
			return nil, err
		}
		minLeaf := func(ls [][]int, from int) int { // first leaf >= from that is at minimum occupancy together with both siblings
			for i := from; i+1 < len(ls); i++ {
				if i > 0 && len(ls[i-1]) == 16 && len(ls[i]) == 16 && len(ls[i+1]) == 16 {
					return i
				}
			}
			return -1
		}
		a := minLeaf(tl, 1)
		if a < 0 {
			return nil, fmt.Errorf("B32 %s: no leaf at minimum occupancy with both siblings under the target inner node", kd.name)
		}
		set := map[int]bool{}
		set[tl[a][0]] = true                            // removal => leaf merge => the target underflows
		set[tl[a][7]+1] = true                          // absent key in that leaf
		set[tl[0][0]] = true                            // first key of the target (the separator above it)
		set[tl[len(tl)-1][len(tl[len(tl)-1])-1]] = true // its last key
		if kd.target == 0 {
			set[ol[0][0]] = true // first key of the right neighbour: the child that will be handed over
		} else {
			lo := ol[len(ol)-1]
			set[lo[len(lo)-1]] = true // last key of the left neighbour
		}
		var keys []int
		for k := range set {
			keys = append(keys, k)
		}
		sort.Ints(keys)
		depth := 2
		if thorough {
			depth = 3
		}
		out = append(out, &Scenario{
			Name: "B32/" + kd.name, U: u, Cfg: Cfg{Cache: kd.cache}, Prefill: pre, Snapshot: true,
			Keys: keys, Rollback: true, Reload: true, Prune: true, MaxSaves: 2, Depth: depth,
			Probe: &Probe{Keys: boundsOf(keys, u)[1:]}, Bounds: boundsOf(keys, u),
		})
	}
	return out, nil
}
