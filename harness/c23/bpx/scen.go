package bpx

import (
	"fmt"
	"sort"
	"time"

	"github.com/gnolang/gno/tm2/pkg/bptree"
)

// ---------- scale A (B=4 build): small alphabet, deep ----------

var keysA = []string{"a", "b", "b0", "c", "d", "e", "e0", "f", "g", "h", "i", "j", "j0", "k", "k0", "l", "m", "n", "o", "p", "q", "r", "s", "t", "u", "v", "w", "x"}

func UniverseA() *Universe { return NewUniverse(keysA, 3 /* "c" is empty-valued on even versions */) }

func (u *Universe) idx(k string) int {
	i := u.Index([]byte(k))
	if i < 0 {
		panic("key not in universe: " + k)
	}
	return i
}

// Ops builds an op list from a compact script: "+k" Set, "-k" Remove, "S" SaveVersion, "R" Rollback, "L" reopen.
func (u *Universe) Ops(script ...string) []Op {
	var out []Op
	for _, w := range script {
		switch {
		case w == "S":
			out = append(out, Op{K: OpSave})
		case w == "R":
			out = append(out, Op{K: OpRollback})
		case w == "L":
			out = append(out, Op{K: OpReload})
		case w[0] == '+':
			out = append(out, Op{OpSet, int16(u.idx(w[1:]))})
		case w[0] == '-':
			out = append(out, Op{OpRemove, int16(u.idx(w[1:]))})
		default:
			panic("bad script word " + w)
		}
	}
	return out
}

func (u *Universe) idxs(ks ...string) []int {
	var out []int
	for _, k := range ks {
		out = append(out, u.idx(k))
	}
	sort.Ints(out)
	return out
}

func boundsOf(keys []int, u *Universe) []int {
	// nil bound + every alphabet key + its immediate universe neighbours
	set := map[int]bool{-1: true}
	for _, k := range keys {
		set[k] = true
		if k > 0 {
			set[k-1] = true
		}
		if k+1 < len(u.Keys) {
			set[k+1] = true
		}
	}
	var out []int
	for k := range set {
		out = append(out, k)
	}
	sort.Ints(out)
	return out
}

type prefillA struct {
	name   string
	script []string
	keys   []string // alphabet
}

// Prefill shapes of scale A (B=4: leaf capacity 4, min 2; inner capacity 4 children, min 2).
var prefillsA = []prefillA{
	{"empty", nil, []string{"b", "d", "f", "h", "j", "c"}},
	{"full-leaf", []string{"+b", "+d", "+f", "+h", "S"}, []string{"a", "c", "d", "e", "h", "i"}},
	{"just-split-90-10", []string{"+b", "+d", "+f", "+h", "+j", "S"}, []string{"a", "c", "f", "g", "h", "k"}},
	{"two-level-min-occupancy", []string{"+b", "+d", "+f", "+h", "+j", "+c", "+e", "-c", "S"}, []string{"a", "b", "d", "e", "g", "j"}},
	{"append-chain", []string{"+a", "+b", "+c", "+d", "+e", "+f", "+g", "+h", "+i", "+j", "+k", "+l", "+m", "+n", "S"}, []string{"c", "d", "g", "m", "n", "o"}},
	{"three-level-min-occupancy", []string{"+a", "+b", "+c", "+d", "+e", "+f", "+g", "+h", "+i", "+j", "+k", "+l", "+m", "+n", "+o", "+p", "+q", "+r", "+s", "+t",
		"-c", "-f", "-i", "-l", "-o", "-r", "S"}, []string{"a", "b", "e", "k", "t", "u"}},
	{"inner-node-full", []string{"+a", "+b", "+c", "+d", "+e", "+f", "+g", "+h", "+i", "+j", "+k", "+l", "+m", "+n", "+o", "+p", "+q", "+r", "+s", "+t", "+u", "+v", "+j0", "S"},
		[]string{"a", "k0", "w"}},
	{"two-versions", []string{"+b", "+d", "+f", "+h", "+j", "S", "+c", "-h", "S"}, []string{"b", "c", "e", "j"}},
	{"three-versions-deep", []string{"+a", "+b", "+c", "+d", "+e", "+f", "+g", "+h", "+i", "+j", "S", "-b", "-e", "+k", "S", "+e0", "-j", "S"}, []string{"a", "d", "e0", "k"}},
}

// ScenariosA returns the scale-A scenario list. Two families per prefill:
//   struct: Set/Remove/Save/Reopen over a wide key alphabet (splits, merges, redistribution, root collapse),
//   versions: the full alphabet (Rollback, LoadVersion, DeleteVersionsTo, GetImmutable) over a narrow key alphabet.
func ScenariosA(thorough bool) []*Scenario {
	u := UniverseA()
	var out []*Scenario
	for pi, p := range prefillsA {
		keys := u.idxs(p.keys...)
		ds, dv := 4, 5
		if thorough {
			ds, dv = 5, 6
		}
		cache := []int{10000, 0, 2, 10000}[pi%4]
		out = append(out, &Scenario{
			Name: "A/struct/" + p.name, U: u, Cfg: Cfg{Cache: cache}, Prefill: u.Ops(p.script...), Snapshot: false,
			Keys: keys, Reload: true, MaxSaves: 2, Depth: ds, Bounds: boundsOf(keys, u), Probe: &Probe{Keys: boundsOf(keys, u)[1:]},
		})
		vk := keys
		if len(vk) > 3 {
			vk = []int{keys[0], keys[len(keys)/2], keys[len(keys)-1]}
		}
		out = append(out, &Scenario{
			Name: "A/versions/" + p.name, U: u, Cfg: Cfg{Cache: []int{2, 10000, 10000, 0}[pi%4]}, Prefill: u.Ops(p.script...), Snapshot: pi%2 == 1,
			Keys: vk, Rollback: true, Reload: true, LoadVer: true, Prune: true, Imm: true, MaxSaves: 3, Depth: dv, Bounds: boundsOf(vk, u), Probe: &Probe{Keys: boundsOf(vk, u)[1:]},
		})
	}
	return out
}

// ---------- scale B (unscaled B=32 build): big prefills, alphabet around node boundaries ----------

func keyB(i int) string { return fmt.Sprintf("k%05d", i) }

type prefillB struct {
	n     int
	order string // asc | desc | mix
}

// ScenariosB builds the B=32 scenarios: prefill of n keys (odd universe indexes, so every gap is insertable)
// in ascending / descending / interleaved order, then an alphabet of keys adjacent to leaf boundaries.
func ScenariosB(thorough bool) ([]*Scenario, error) {
	sizes := []int{31, 32, 33, 512, 1024, 1056}
	var out []*Scenario
	for _, n := range sizes {
		for oi, order := range []string{"asc", "desc", "mix"} {
			if !thorough && ((n == 512 || n == 1056) && order == "mix" || n == 1024 && order != "mix") {
				continue // quick: two insertion orders for 512/1056, one for 1024
			}
			var ks []string
			for i := 0; i <= 2*n+2; i++ {
				ks = append(ks, keyB(i))
			}
			u := NewUniverse(ks, -1)
			var seq []int
			for i := 0; i < n; i++ {
				seq = append(seq, 2*i+1)
			}
			switch order {
			case "desc":
				for i, j := 0, len(seq)-1; i < j; i, j = i+1, j-1 {
					seq[i], seq[j] = seq[j], seq[i]
				}
			case "mix": // low/high interleaved: 0, n-1, 1, n-2, ...
				var m []int
				for i, j := 0, len(seq)-1; i <= j; i, j = i+1, j-1 {
					m = append(m, seq[i])
					if i != j {
						m = append(m, seq[j])
					}
				}
				seq = m
			}
			var pre []Op
			for i, k := range seq {
				pre = append(pre, Op{OpSet, int16(k)})
				if i == len(seq)/2 {
					pre = append(pre, Op{K: OpSave}) // two versions in the prefill
				}
			}
			pre = append(pre, Op{K: OpSave})
			// find the alphabet from the real structure of the prefilled tree
			s := NewSys(u, Cfg{Cache: 10000})
			m := NewModel(u)
			if i, d := Run(s, m, pre); d != "" {
				return nil, fmt.Errorf("B32 prefill n=%d %s op %d: %s", n, order, i, d)
			}
			d, err := bptree.VerifDumpWorking(s.T)
			if err != nil {
				return nil, err
			}
			var leaves [][]int
			var walk func(x *bptree.VerifNode)
			walk = func(x *bptree.VerifNode) {
				if x.Leaf {
					var l []int
					for _, k := range x.Keys {
						l = append(l, u.Index(k))
					}
					leaves = append(leaves, l)
					return
				}
				for _, c := range x.Children {
					walk(c)
				}
			}
			walk(d)
			set := map[int]bool{}
			addBoundary := func(li int) {
				if li < 0 || li+1 >= len(leaves) {
					return
				}
				l, r := leaves[li], leaves[li+1]
				set[l[len(l)-1]] = true   // max of left leaf (present)
				set[l[len(l)-1]+1] = true // gap key between the leaves (absent)
				set[r[0]] = true          // min of right leaf (present)
			}
			if len(leaves) == 1 {
				l := leaves[0]
				set[l[0]] = true
				set[l[0]-1] = true
				set[l[len(l)/2]] = true
				set[l[len(l)/2]+1] = true
			} else {
				addBoundary(0)
				addBoundary(len(leaves)/2 - 1)
				addBoundary(len(leaves) - 2)
			}
			last := leaves[len(leaves)-1]
			set[last[len(last)-1]+1] = true // append beyond the maximum
			set[0] = true                   // prepend below the minimum
			var keys []int
			for k := range set {
				keys = append(keys, k)
			}
			sort.Ints(keys)
			depth := 2
			if n <= 33 {
				depth = 3
			}
			if thorough {
				depth++
			}
			probe := &Probe{Keys: boundsOf(keys, u)[1:]}
			out = append(out, &Scenario{
				Name: fmt.Sprintf("B32/n%d-%s", n, order), U: u, Cfg: Cfg{Cache: []int{10000, 0, 3}[oi]}, Prefill: pre, Snapshot: true,
				Keys: keys, Rollback: true, Reload: true, LoadVer: false, Prune: true, Imm: false, MaxSaves: 2, Depth: depth,
				Probe: probe, Bounds: boundsOf(keys, u),
			})
		}
	}
	return out, nil
}

// BudgetSink caps a sub-phase at its own deadline (in addition to the run's budget).
type BudgetSink struct {
	Sink
	Deadline time.Time
	Hit      *bool
}

func (b BudgetSink) Expired() bool {
	if time.Now().After(b.Deadline) {
		*b.Hit = true
		return true
	}
	return b.Sink.Expired()
}
func (b BudgetSink) ParFor(n int, f func(i int)) {
	b.Sink.ParFor(n, func(i int) {
		if b.Expired() {
			return
		}
		f(i)
	})
}
