// Package bpx is the shared B+ tree exploration kit of harnesses c23/c24/c25:
// reference model, driver of the real tree, observers, shape/invariant/hash oracles,
// a BFS explorer with deterministic state merging, and the two-binary (B=4 / B=32) plumbing.
package bpx

import (
	"crypto/sha256"
	"encoding/hex"
	"encoding/json"
	"flag"
	"fmt"
	"os"
	"os/exec"
	"path/filepath"
	"runtime"
	"runtime/debug"
	"sort"
	"strings"
	"sync"
	"sync/atomic"
	"time"

	"verif/engine/vk"
)

// Sink is where explorers report. Implemented by *vk.Run (through VKSink) in the parent binary and
// by *Collector in the unscaled (B=32) child binary.
type Sink interface {
	Violation(key string, detail any)
	Eval()
	EvalN(n int64)
	Distinct(key string) bool
	Outcome(class string)
	OutcomeN(class string, n int64)
	Sample(v any)
	Expired() bool
	ParFor(n int, f func(i int))
	Thorough() bool
}

// VKSink adapts *vk.Run.
type VKSink struct{ R *vk.Run }

func (s VKSink) Violation(key string, detail any) { s.R.Violation(key, detail) }
func (s VKSink) Eval()                            { s.R.Eval() }
func (s VKSink) EvalN(n int64)                    { s.R.EvalN(n) }
func (s VKSink) Distinct(key string) bool         { return s.R.Distinct(key) }
func (s VKSink) Outcome(c string)                 { s.R.Outcome(c) }
func (s VKSink) OutcomeN(c string, n int64)       { s.R.OutcomeN(c, n) }
func (s VKSink) Sample(v any)                     { s.R.Sample(v) }
func (s VKSink) Expired() bool                    { return s.R.Expired() }
func (s VKSink) ParFor(n int, f func(i int))      { s.R.ParFor(n, f) }
func (s VKSink) Thorough() bool                   { return s.R.Thorough() }

// Collector is the child-side sink: everything is written to one JSON file read back by the parent.
type Collector struct {
	Tier   string
	Budget time.Duration
	start  time.Time
	capped atomic.Bool

	mu       sync.Mutex
	viol     []ChildViolation
	seen     map[string]bool
	hist     map[string]int64
	samples  []any
	evals    atomic.Int64
	distinct sync.Map
	dkeys    []string
}

type ChildViolation struct {
	Key    string `json:"key"`
	Detail any    `json:"detail"`
}

// ChildResult is the file format between child and parent.
type ChildResult struct {
	Violations []ChildViolation `json:"violations"`
	Hist       map[string]int64 `json:"hist"`
	Samples    []any            `json:"samples"`
	Evals      int64            `json:"evals"`
	Distinct   []string         `json:"distinct"` // 12-hex-digit digests of distinct keys
	Capped     bool             `json:"capped"`
	Cov        map[string]any   `json:"cov"`
	WallS      float64          `json:"wall_s"`
}

func NewCollector(tier string, budget time.Duration) *Collector {
	return &Collector{Tier: tier, Budget: budget, start: time.Now(), seen: map[string]bool{}, hist: map[string]int64{}}
}

func (c *Collector) Violation(key string, detail any) {
	c.mu.Lock()
	defer c.mu.Unlock()
	if c.seen[key] || len(c.viol) >= 20 {
		return
	}
	c.seen[key] = true
	c.viol = append(c.viol, ChildViolation{key, detail})
}
func (c *Collector) Eval()         { c.evals.Add(1) }
func (c *Collector) EvalN(n int64) { c.evals.Add(n) }
func (c *Collector) Distinct(key string) bool {
	h := sha256.Sum256([]byte(key))
	_, loaded := c.distinct.LoadOrStore(h, struct{}{})
	if !loaded {
		c.mu.Lock()
		c.dkeys = append(c.dkeys, hex.EncodeToString(h[:6]))
		c.mu.Unlock()
	}
	return !loaded
}
func (c *Collector) Outcome(class string) { c.OutcomeN(class, 1) }
func (c *Collector) OutcomeN(class string, n int64) {
	c.mu.Lock()
	c.hist[class] += n
	c.mu.Unlock()
}
func (c *Collector) Sample(v any) {
	c.mu.Lock()
	if len(c.samples) < 3 {
		c.samples = append(c.samples, v)
	}
	c.mu.Unlock()
}
func (c *Collector) Expired() bool {
	if c.Budget > 0 && time.Since(c.start) > c.Budget {
		c.capped.Store(true)
		return true
	}
	return false
}
func (c *Collector) Thorough() bool { return c.Tier == "thorough" }
func (c *Collector) ParFor(n int, f func(i int)) {
	w := runtime.GOMAXPROCS(0)
	if w > n {
		w = n
	}
	var next atomic.Int64
	var wg sync.WaitGroup
	for k := 0; k < w; k++ {
		wg.Add(1)
		go func() {
			defer wg.Done()
			for {
				i := int(next.Add(1) - 1)
				if i >= n || c.Expired() {
					return
				}
				f(i)
			}
		}()
	}
	wg.Wait()
}

func (c *Collector) Write(path string, cov map[string]any) error {
	c.mu.Lock()
	defer c.mu.Unlock()
	sort.Strings(c.dkeys)
	res := ChildResult{Violations: c.viol, Hist: c.hist, Samples: c.samples, Evals: c.evals.Load(), Distinct: c.dkeys,
		Capped: c.capped.Load(), Cov: cov, WallS: time.Since(c.start).Seconds()}
	b, err := json.Marshal(res)
	if err != nil {
		return err
	}
	return os.WriteFile(path, b, 0o644)
}

// ChildMain is the main() of an unscaled child binary: flags -tier -budget -out, then body.
func ChildMain(body func(s Sink) map[string]any) {
	for _, a := range os.Args[1:] {
		if a == "-dump" {
			DumpPrefills()
			return
		}
	}
	tier := flag.String("tier", "quick", "")
	budget := flag.Duration("budget", 60*time.Second, "")
	out := flag.String("out", "", "")
	flag.Parse()
	c := NewCollector(*tier, *budget)
	if p := os.Getenv("VERIF_PPROF_CHILD"); p != "" { // developer aid
		os.Setenv("VERIF_PPROF", p)
		defer StartProfile()()
	} else {
		os.Unsetenv("VERIF_PPROF")
	}
	cov := body(c)
	if err := c.Write(*out, cov); err != nil {
		fmt.Println("HARNESS-ERROR: child cannot write result:", err)
		os.Exit(2)
	}
}

// RunChild builds (same repo tree, same mutant overlay, NO parameter scaling) and runs the unscaled child of
// harness id ("c23"), and merges its result into r. It mirrors what vcheck does for the parent, using the
// artefacts vcheck already prepared (.work/<id>/mut, .work/<id>/go.mod).
func RunChild(r *vk.Run, id string, budget time.Duration) (cov map[string]any) {
	V := vk.Root
	repo := os.Getenv("VERIF_REPO")
	if repo == "" {
		repo = "/repo"
	}
	sub := id + "/b32"
	work := filepath.Join(V, ".work", id, "b32")
	os.MkdirAll(work, 0o755)
	ovl := filepath.Join(work, "overlay.json")
	mutdir := ""
	if os.Getenv("VERIF_MUTANT") != "" {
		mutdir = filepath.Join(V, ".work", id, "mut")
	}
	env := append(os.Environ(), "GOFLAGS=-mod=mod", "GOPROXY=off", "GOCACHE="+filepath.Join(V, ".cache/go-build"), "GOTOOLCHAIN=auto")
	cmd := exec.Command("python3", filepath.Join(V, "mkoverlay.py"), sub, repo, ovl, mutdir)
	cmd.Dir = V
	if outb, err := cmd.CombinedOutput(); err != nil {
		r.HarnessError("child overlay generation failed: %v\n%s", err, outb)
	}
	bin := filepath.Join(work, "bin")
	args := []string{"build"}
	if repo != "/repo" {
		args = append(args, "-modfile="+filepath.Join(V, ".work", id, "go.mod"))
	}
	args = append(args, "-tags", "verif", "-overlay", ovl, "-o", bin, "./harness/"+sub)
	cmd = exec.Command("go", args...)
	cmd.Dir = V
	cmd.Env = env
	if outb, err := cmd.CombinedOutput(); err != nil {
		s := string(outb)
		if len(s) > 3000 {
			s = s[len(s)-3000:]
		}
		r.HarnessError("child build failed: %v\n%s", err, s)
	}
	outf := filepath.Join(work, "result.json")
	os.Remove(outf)
	cmd = exec.Command(bin, "-tier", r.Tier, "-budget", budget.String(), "-out", outf)
	cmd.Dir = V
	cmd.Env = env
	outb, err := cmd.CombinedOutput()
	if len(outb) > 0 {
		fmt.Print(string(outb))
	}
	if err != nil {
		r.HarnessError("child run failed: %v", err)
	}
	b, err := os.ReadFile(outf)
	if err != nil {
		r.HarnessError("child result missing: %v", err)
	}
	var res ChildResult
	if err := json.Unmarshal(b, &res); err != nil {
		r.HarnessError("child result unreadable: %v", err)
	}
	for _, v := range res.Violations {
		r.Violation(v.Key, v.Detail)
	}
	for k, n := range res.Hist {
		r.OutcomeN("B32:"+k, n)
	}
	for _, s := range res.Samples {
		r.Sample(s)
	}
	r.EvalN(res.Evals)
	for _, d := range res.Distinct {
		r.Distinct("B32:" + d)
	}
	if res.Capped {
		r.MarkCapped()
	}
	if res.Cov == nil {
		res.Cov = map[string]any{}
	}
	res.Cov["wall_s"] = res.WallS
	return res.Cov
}

// CovInt reads an integer out of a JSON-decoded coverage map.
func CovInt(m map[string]any, k string) int64 {
	switch v := m[k].(type) {
	case float64:
		return int64(v)
	case int64:
		return v
	case int:
		return int64(v)
	}
	return 0
}

func trunc(s string, n int) string {
	if len(s) > n {
		return s[:n] + "…"
	}
	return s
}

var _ = strings.Join

var ballast []byte

func init() {
	// The explorers allocate at a very high rate over a tiny live heap: with the default GC pacing the
	// collector runs thousands of cycles per second and serialises the workers. Collect by memory limit instead.
	pct := 400
	if v := os.Getenv("VERIF_GC"); v != "" {
		fmt.Sscan(v, &pct)
	}
	debug.SetGCPercent(pct)
	mb := 0
	if v := os.Getenv("VERIF_BALLAST"); v != "" {
		fmt.Sscan(v, &mb)
	}
	if mb > 0 {
		ballast = make([]byte, mb<<20)
	}
}
