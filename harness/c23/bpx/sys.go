package bpx

import (
	"fmt"
	"sync"

	"github.com/gnolang/gno/tm2/pkg/bptree"
	"github.com/gnolang/gno/tm2/pkg/db/memdb"

	"verif/engine/vk"
)

// Cfg is a tree configuration (none of it may influence contents or hashes).
type Cfg struct {
	Cache int
	Fast  bool
}

// Sys is one real tree instance on a private in-memory DB.
type Sys struct {
	U        *Universe
	DB       *memdb.MemDB
	T        *bptree.MutableTree
	Cfg      Cfg
	Imm      *bptree.ImmutableTree
	VerShape map[int64]string // shape (with node keys) of each version as it was when saved / first loaded

	// Every run is a deterministic function of its operation history, so the shape a SaveVersion produced is
	// looked up by history instead of being dumped again on every replay of the same prefix.
	hist       []byte
	ShapeCache *sync.Map // history (as string) -> shape; shared by all instances of one scenario (nil: no caching)

	// How OpReload loads after reopening (C24 start modes): 0 Load() (verifies / rebuilds the fast index),
	// 1 LoadVersion(LoadHint) and 2 LoadReadonly() (no fast-index maintenance: an index enabled on a DB committed
	// without it stays incomplete).
	LoadMode int
	LoadHint int64
}

func NewSys(u *Universe, cfg Cfg) *Sys {
	return NewSysOn(u, cfg, memdb.NewMemDB())
}

func NewSysOn(u *Universe, cfg Cfg, db *memdb.MemDB) *Sys {
	s := &Sys{U: u, DB: db, Cfg: cfg, VerShape: map[int64]string{}}
	s.open()
	return s
}

func (s *Sys) open() {
	var opts []bptree.Option
	if s.Cfg.Fast {
		opts = append(opts, bptree.FastIndexOption(true))
	}
	s.T = bptree.NewMutableTreeWithDB(s.DB, s.Cfg.Cache, bptree.NewNopLogger(), opts...)
}

// CloneDB copies a memdb.
func CloneDB(src *memdb.MemDB) *memdb.MemDB {
	dst := memdb.NewMemDB()
	it, err := src.Iterator(nil, nil)
	if err != nil {
		panic(err)
	}
	for ; it.Valid(); it.Next() {
		k := append([]byte(nil), it.Key()...)
		v := append([]byte(nil), it.Value()...)
		dst.Set(k, v)
	}
	it.Close()
	return dst
}

// Apply performs one operation on the real tree. A panic inside the tree is returned as an error with Panic set.
func (s *Sys) Apply(op Op) (res Res, panicked any) {
	s.hist = append(s.hist, byte(op.K), byte(op.A>>8), byte(op.A))
	panicked = vk.Catch(func() { res = s.apply(op) })
	return
}

func (s *Sys) apply(op Op) (r Res) {
	switch op.K {
	case OpSet:
		wv := s.T.WorkingVersion()
		r.Updated, r.Err = s.T.Set(s.U.Keys[op.A], s.U.Val(int(op.A), int16(wv)))
	case OpRemove:
		r.Old, r.Found, r.Err = s.T.Remove(s.U.Keys[op.A])
	case OpSave:
		r.Hash, r.Ver, r.Err = s.T.SaveVersion()
		if r.Err == nil {
			if _, ok := s.VerShape[r.Ver]; !ok {
				if s.ShapeCache != nil {
					if sh, hit := s.ShapeCache.Load(string(s.hist)); hit {
						s.VerShape[r.Ver] = sh.(string)
						break
					}
				}
				if d, err := bptree.VerifDumpSaved(s.T); err == nil {
					s.VerShape[r.Ver] = ShapeString(d, true)
				} else {
					s.VerShape[r.Ver] = "ERR:" + err.Error()
				}
				if s.ShapeCache != nil {
					s.ShapeCache.Store(string(s.hist), s.VerShape[r.Ver])
				}
			}
		}
	case OpRollback:
		s.T.Rollback()
	case OpReload:
		if s.Imm != nil {
			s.Imm.Close()
			s.Imm = nil
		}
		s.T.Close()
		s.open()
		switch {
		case s.LoadMode == 1 && s.LoadHint > 0:
			r.Ver, r.Err = s.T.LoadVersion(s.LoadHint)
		case s.LoadMode == 2:
			r.Ver, r.Err = s.T.LoadReadonly()
		default:
			r.Ver, r.Err = s.T.Load()
		}
	case OpLoadVer:
		r.Ver, r.Err = s.T.LoadVersion(int64(op.A))
	case OpPrune:
		r.Err = s.T.DeleteVersionsTo(int64(op.A))
	case OpOpenImm:
		if s.Imm != nil {
			s.Imm.Close()
			s.Imm = nil
		}
		imm, err := s.T.GetImmutable(int64(op.A))
		r.Err = err
		if err == nil {
			s.Imm = imm
		}
	case OpCloseImm:
		if s.Imm != nil {
			s.Imm.Close()
			s.Imm = nil
		}
	default:
		panic(fmt.Sprint("unknown op ", op.K))
	}
	return
}

// Run replays ops on (s, m) without observing; returns the index and reason of the first discrepancy (-1 if none).
func Run(s *Sys, m *Model, ops []Op) (int, string) {
	for i, op := range ops {
		res, p := s.Apply(op)
		if p != nil {
			return i, fmt.Sprintf("panic: %v", p)
		}
		if d := m.Step(op, res); d != "" {
			return i, d
		}
	}
	return -1, ""
}
