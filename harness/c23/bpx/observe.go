package bpx

import (
	"bytes"
	"errors"
	"fmt"

	"github.com/gnolang/gno/tm2/pkg/bptree"
)

// Reader is the read API shared by the working tree and immutable snapshots.
type Reader interface {
	Get(key []byte) ([]byte, error)
	Has(key []byte) (bool, error)
	Size() int64
	IsEmpty() bool
	GetByIndex(index int64) ([]byte, []byte, error)
	GetWithIndex(key []byte) (int64, []byte, error)
	Iterate(fn func(key, value []byte) bool) (bool, error)
	Iterator(start, end []byte, ascending bool) (*bptree.Iterator, error)
}

// Probe selects which keys get point lookups / which indexes get by-index lookups (nil = all of them).
type Probe struct {
	Keys   []int // universe indexes
	AllIdx bool  // GetByIndex for EVERY index even on big trees (default: all indexes only up to 64 entries)
}

// CheckContents is the light observer: Size + full ordered iteration only.
func CheckContents(m *Model, c Content, rd Reader) string {
	exp := m.Entries(c)
	if got := rd.Size(); got != int64(len(exp)) {
		return fmt.Sprintf("Size()=%d, model has %d keys", got, len(exp))
	}
	i := 0
	var bad string
	_, err := rd.Iterate(func(k, v []byte) bool {
		if i >= len(exp) {
			bad = fmt.Sprintf("Iterate yields extra key %q", k)
			return true
		}
		if !bytes.Equal(k, exp[i].K) || !bytes.Equal(v, exp[i].V) {
			bad = fmt.Sprintf("Iterate item %d = (%q,%q), model has (%q,%q)", i, k, v, exp[i].K, exp[i].V)
			return true
		}
		i++
		return false
	})
	if err != nil {
		return "Iterate error: " + err.Error()
	}
	if bad != "" {
		return bad
	}
	if i != len(exp) {
		return fmt.Sprintf("Iterate yielded %d items, model has %d", i, len(exp))
	}
	return ""
}

// CheckReads compares every read API of rd with the expected contents. Returns "" or the first discrepancy.
func CheckReads(m *Model, c Content, rd Reader, probe *Probe) string {
	exp := m.Entries(c)
	if got := rd.Size(); got != int64(len(exp)) {
		return fmt.Sprintf("Size()=%d, model has %d keys", got, len(exp))
	}
	if got := rd.IsEmpty(); got != (len(exp) == 0) {
		return fmt.Sprintf("IsEmpty()=%v, model has %d keys", got, len(exp))
	}
	// full ordered iteration
	i := 0
	var bad string
	stopped, err := rd.Iterate(func(k, v []byte) bool {
		if i >= len(exp) {
			bad = fmt.Sprintf("Iterate yields extra key %q", k)
			return true
		}
		if !bytes.Equal(k, exp[i].K) || !bytes.Equal(v, exp[i].V) {
			bad = fmt.Sprintf("Iterate item %d = (%q,%q), model has (%q,%q)", i, k, v, exp[i].K, exp[i].V)
			return true
		}
		i++
		return false
	})
	if err != nil {
		return "Iterate error: " + err.Error()
	}
	if bad != "" {
		return bad
	}
	if stopped {
		return "Iterate reported stopped without the callback asking"
	}
	if i != len(exp) {
		return fmt.Sprintf("Iterate yielded %d items, model has %d", i, len(exp))
	}
	if len(exp) > 1 {
		n := 0
		stopped, err := rd.Iterate(func(k, v []byte) bool { n++; return n == 2 })
		if err != nil || !stopped || n != 2 {
			return fmt.Sprintf("Iterate early stop: stopped=%v n=%d err=%v", stopped, n, err)
		}
	}
	// point lookups
	rank := make([]int, len(c)+1) // rank[i] = number of present keys with index < i
	for i := range c {
		rank[i+1] = rank[i]
		if c[i] != 0 {
			rank[i+1]++
		}
	}
	check := func(ki int) string {
		key := m.U.Keys[ki]
		present := c[ki] != 0
		var want []byte
		if present {
			want = m.U.Val(ki, c[ki])
		}
		v, err := rd.Get(key)
		if err != nil {
			return fmt.Sprintf("Get(%q) error: %v", key, err)
		}
		if present != (v != nil) || !bytes.Equal(v, want) {
			return fmt.Sprintf("Get(%q)=%q (nil=%v), model: present=%v value=%q", key, v, v == nil, present, want)
		}
		h, err := rd.Has(key)
		if err != nil || h != present {
			return fmt.Sprintf("Has(%q)=%v err=%v, model present=%v", key, h, err, present)
		}
		idx, v2, err := rd.GetWithIndex(key)
		if err != nil {
			return fmt.Sprintf("GetWithIndex(%q) error: %v", key, err)
		}
		if len(exp) > 0 && idx != int64(rank[ki]) {
			return fmt.Sprintf("GetWithIndex(%q) index=%d, model rank=%d", key, idx, rank[ki])
		}
		if present != (v2 != nil) || !bytes.Equal(v2, want) {
			return fmt.Sprintf("GetWithIndex(%q) value=%q, model: present=%v value=%q", key, v2, present, want)
		}
		return ""
	}
	if probe == nil {
		for ki := range c {
			if d := check(ki); d != "" {
				return d
			}
		}
	} else {
		for _, ki := range probe.Keys {
			if d := check(ki); d != "" {
				return d
			}
		}
	}
	// by-index lookups
	byIdx := func(j int) string {
		k, v, err := rd.GetByIndex(int64(j))
		if err != nil {
			return fmt.Sprintf("GetByIndex(%d) error: %v", j, err)
		}
		if !bytes.Equal(k, exp[j].K) || !bytes.Equal(v, exp[j].V) {
			return fmt.Sprintf("GetByIndex(%d)=(%q,%q), model has (%q,%q)", j, k, v, exp[j].K, exp[j].V)
		}
		return ""
	}
	if probe == nil || probe.AllIdx || len(exp) <= 64 {
		for j := range exp {
			if d := byIdx(j); d != "" {
				return d
			}
		}
	} else {
		for _, ki := range probe.Keys { // indexes around the probed keys
			for _, j := range []int{rank[ki] - 1, rank[ki], rank[ki] + 1} {
				if j >= 0 && j < len(exp) {
					if d := byIdx(j); d != "" {
						return d
					}
				}
			}
		}
		for _, j := range []int{0, len(exp) - 1} {
			if d := byIdx(j); d != "" {
				return d
			}
		}
	}
	for _, j := range []int64{-1, int64(len(exp))} {
		if _, _, err := rd.GetByIndex(j); !errors.Is(err, bptree.ErrKeyDoesNotExist) {
			return fmt.Sprintf("GetByIndex(%d) out of range: err=%v", j, err)
		}
	}
	return ""
}

// CheckRanges compares range iterators for every (start,end) over bounds (universe indexes; -1 = nil bound),
// ascending and descending. Returns "" or the first discrepancy, and the number of iterators opened.
func CheckRanges(m *Model, c Content, rd Reader, bounds []int) (string, int) {
	exp := m.Entries(c)
	n := 0
	for _, si := range bounds {
		for _, ei := range bounds {
			var start, end []byte
			if si >= 0 {
				start = m.U.Keys[si]
			}
			if ei >= 0 {
				end = m.U.Keys[ei]
			}
			// expected window
			lo, hi := 0, len(exp)
			for lo < len(exp) && si >= 0 && exp[lo].Idx < si {
				lo++
			}
			for hi > 0 && ei >= 0 && exp[hi-1].Idx >= ei {
				hi--
			}
			for _, asc := range []bool{true, false} {
				n++
				it, err := rd.Iterator(start, end, asc)
				if err != nil {
					return fmt.Sprintf("Iterator(%q,%q,%v) error: %v", start, end, asc, err), n
				}
				j, step := lo, 1
				if !asc {
					j, step = hi-1, -1
				}
				cnt := 0
				for ; it.Valid(); it.Next() {
					if j < lo || j >= hi {
						k := it.Key()
						it.Close()
						return fmt.Sprintf("Iterator(%q,%q,asc=%v) yields extra key %q", start, end, asc, k), n
					}
					k, v := it.Key(), it.Value()
					if !bytes.Equal(k, exp[j].K) || !bytes.Equal(v, exp[j].V) {
						it.Close()
						return fmt.Sprintf("Iterator(%q,%q,asc=%v) item %d = (%q,%q), model has (%q,%q)", start, end, asc, cnt, k, v, exp[j].K, exp[j].V), n
					}
					j += step
					cnt++
				}
				ierr := it.Error()
				it.Close()
				if ierr != nil {
					return fmt.Sprintf("Iterator(%q,%q,asc=%v) error: %v", start, end, asc, ierr), n
				}
				want := hi - lo
				if want < 0 {
					want = 0
				}
				if cnt != want {
					return fmt.Sprintf("Iterator(%q,%q,asc=%v) yielded %d items, model has %d", start, end, asc, cnt, want), n
				}
			}
		}
	}
	return "", n
}
