package bpx

import (
	"bytes"
	"fmt"

	"github.com/gnolang/gno/tm2/pkg/bptree"
)

// HiddenState renders the persistent bookkeeping that no read API shows but that later operations consume: the
// orphan list stored for every version and the size of the shared uncommitted batch. It is part of the
// state-merging key (Scenario.Hidden): two histories whose trees look alike but whose orphan lists differ must both
// be continued, because a later DeleteVersionsTo acts on those lists.
func HiddenState(s *Sys) string {
	var sb bytes.Buffer
	it, err := s.DB.Iterator([]byte{bptree.PrefixOrphan}, []byte{bptree.PrefixOrphan + 1})
	if err != nil {
		return "ERR:" + err.Error()
	}
	for ; it.Valid(); it.Next() {
		fmt.Fprintf(&sb, "|O%x=%x", it.Key()[1:], it.Value())
	}
	it.Close()
	fmt.Fprintf(&sb, "|batch%d", bptree.VerifBatchSize(s.T))
	return sb.String()
}

// RunTail is the deterministic continuation run from a state (it consumes s and m): end whatever session is
// open the way a caller would (close the snapshot, Rollback a refused save, go back to the latest version), then
//
//	SaveVersion · Set(k) · SaveVersion · DeleteVersionsTo(v) for EVERY retained v below the latest, ascending · Reopen+Load
//
// with every answer checked against the model; after the second save Size + the full ordered contents (every value
// is fetched) + saved hash of the working tree and of every retained version are compared, after EACH pruning step
// those of the working tree and of the oldest version still retained (what pruning deletes stays deleted, so
// damage to a younger version is seen at the latest when that version has become the oldest); after the cold reopen
// ALL read APIs (every key, every index, Size, iteration) of the working tree
// and of every retained version, then structural invariants and the independent hash recomputation. It makes visible what a finished or abandoned session left behind
// in places no read API shows (orphan lists, staged batch entries, cached nodes): those only matter several
// operations later, when a save persists them and a prune consumes them — deeper than the BFS bound.
func (sc *Scenario) RunTail(s *Sys, m *Model, pb Bounds, count func(n int), blame *[]Op, prefix []Op) (ops []Op, discrepancy string) {
	n := 0
	defer func() { count(n) }()
	// obs < 0: the step's answer is checked against the model only (every single-operation successor is already
	// observed by the BFS itself); otherwise an observer strength.
	step := func(op Op, obs int) string {
		ops = append(ops, op)
		*blame = append(append([]Op(nil), prefix...), ops...)
		n++
		res, p := s.Apply(op)
		if p != nil {
			return fmt.Sprintf("panic: %v", p)
		}
		if d := m.Step(op, res); d != "" {
			return d
		}
		switch {
		case obs < 0:
			return ""
		case obs == obsOldest:
			return observeOldest(s, m)
		}
		return ObserveMode(s, m, sc.Probe, obs)
	}
	if m.ImmVer != 0 {
		if d := step(Op{K: OpCloseImm}, -1); d != "" {
			return ops, d
		}
	}
	if m.Poisoned {
		if d := step(Op{K: OpRollback}, -1); d != "" {
			return ops, d
		}
	}
	if m.Ver != m.Latest {
		if d := step(Op{OpLoadVer, int16(m.Latest)}, -1); d != "" {
			return ops, d
		}
	}
	if d := step(Op{K: OpSave}, -1); d != "" {
		return ops, d
	}
	if m.Poisoned { // (cannot happen after the preparation above; never continue on a refused save)
		return ops, ""
	}
	if d := step(Op{OpSet, int16(sc.Keys[0])}, -1); d != "" {
		return ops, d
	}
	if d := step(Op{K: OpSave}, ObsContents); d != "" {
		return ops, d
	}
	for _, v := range m.Retained() {
		if v >= m.Latest {
			break
		}
		if d := step(Op{OpPrune, int16(v)}, obsOldest); d != "" {
			return ops, d
		}
	}
	if d := step(Op{K: OpReload}, ObsDeep); d != "" {
		return ops, d
	}
	work, err := bptree.VerifDumpWorking(s.T)
	if err != nil {
		return ops, "working tree walk: " + err.Error()
	}
	if prob, _ := CheckStructure(work, pb); prob != "" {
		return ops, "structure: " + prob
	}
	wh := RefHash(work, pb.B)
	if !bytes.Equal(wh[:], s.T.WorkingHash()) {
		return ops, "WorkingHash() differs from the independent recomputation over contents and shape"
	}
	return ops, ""
}

const obsOldest = 100

// observeOldest: Size + full ordered contents of the working tree and of the oldest retained version (+ its saved hash),
// and the version bookkeeping.
func observeOldest(s *Sys, m *Model) string {
	if got := s.T.Version(); got != m.Ver {
		return fmt.Sprintf("Version()=%d, model %d", got, m.Ver)
	}
	if d := CheckContents(m, m.Work, s.T); d != "" {
		return "working tree: " + d
	}
	ret := m.Retained()
	av := s.T.AvailableVersions()
	if len(av) != len(ret) {
		return fmt.Sprintf("AvailableVersions()=%v, model retains %v", av, ret)
	}
	if len(ret) == 0 {
		return ""
	}
	v := ret[0]
	imm, err := s.T.GetImmutable(v)
	if err != nil {
		return fmt.Sprintf("GetImmutable(%d) of a retained version failed: %v", v, err)
	}
	d := CheckContents(m, m.Vers[v], imm)
	h := imm.Hash()
	imm.Close()
	if d != "" {
		return fmt.Sprintf("saved version %d: %s", v, d)
	}
	if string(h) != m.Hashes[v] {
		return fmt.Sprintf("saved version %d: root hash changed after it was saved", v)
	}
	if m.First > 1 && s.T.VersionExists(m.First-1) {
		return fmt.Sprintf("VersionExists(%d)=true for a pruned version", m.First-1)
	}
	return ""
}
