// C51: examples/gno.land/p/demo/tokens/grc20 conserves supply and honours allowances.
//
// The explorer is a generated Gno realm (explorer.gno.tmpl) executed by the GnoVM through the store the `gno run`
// command uses (gnovm/pkg/test.ProdStore rooted at $VERIF_REPO, so gno.land/p/demo/tokens/grc20 and its imports are
// the real packages from examples/).  Breadth-first search over Mint/Burn/Transfer/Approve/TransferFrom/
// SpendAllowance histories over a few accounts (plus an invalid address) and boundary amounts, de-duplicated on the
// observable ledger state; ledger model, oracle and every call into the package are written in Gno.  The Go side
// cuts each BFS level into jobs, runs them in GnoVM worker processes, de-duplicates the successor state keys the
// Gno program prints and relays its violations.
package main

import (
	"bufio"
	"bytes"
	"context"
	_ "embed"
	"fmt"
	"io"
	"os"
	"os/exec"
	"path/filepath"
	"runtime"
	"sort"
	"strconv"
	"strings"
	"sync"
	"sync/atomic"
	"time"

	gno "github.com/gnolang/gno/gnovm/pkg/gnolang"
	"github.com/gnolang/gno/gnovm/pkg/test"
	"verif/engine/vk"
)

//go:embed explorer.gno.tmpl
var tmpl string

// ---------------------------------------------------------------------------------------------
// worker: run one Gno main package in a fresh GnoVM (same set-up as gnovm/cmd/gno run)

func repoRoot() string {
	if v := os.Getenv("VERIF_REPO"); v != "" {
		return v
	}
	return "/repo"
}

const grc20Path = "gno.land/p/demo/tokens/grc20"

// workerLoop is a persistent GnoVM worker: it builds the store once, pre-loads grc20 and its imports (parsing and
// preprocessing them costs seconds), then runs every job named on stdin in its own transaction store (never
// committed, so jobs are isolated from each other) and terminates each job's output with WORKER-DONE / WORKER-ERROR.
func workerLoop() {
	out := os.Stdout
	output := test.OutputWithError(out, out)
	_, testStore := test.ProdStore(repoRoot(), output, nil)
	func() {
		defer func() {
			if rec := recover(); rec != nil {
				fmt.Println("WORKER-ERROR\tpreload: " + strings.ReplaceAll(fmt.Sprint(rec), "\n", " | "))
				os.Exit(3)
			}
		}()
		if pv := testStore.GetPackage(grc20Path, true); pv == nil {
			panic("cannot load " + grc20Path + " from " + repoRoot())
		}
	}()
	fmt.Println("WORKER-READY")
	sc := bufio.NewScanner(os.Stdin)
	for sc.Scan() {
		runOne(testStore, output, sc.Text())
	}
}

func runOne(testStore gno.Store, output io.Writer, file string) {
	defer func() {
		if rec := recover(); rec != nil {
			msg := fmt.Sprint(rec)
			if len(msg) > 2000 {
				msg = msg[:2000]
			}
			fmt.Println("WORKER-ERROR\t" + strings.ReplaceAll(msg, "\n", " | "))
		}
	}()
	src, err := os.ReadFile(file)
	if err != nil {
		panic(err)
	}
	const pkgPath = "gno.land/r/verif/c51x"
	st := testStore.BeginTransaction(nil, nil, nil, nil) // realm packages persist state: transaction store
	ctx := test.Context("", pkgPath, nil)
	m := gno.NewMachineWithOptions(gno.MachineOptions{
		Output: output, Store: st, MaxAllocBytes: 3_000_000_000, Context: ctx,
	})
	defer m.Release()
	pn := gno.NewPackageNode("c51x", pkgPath, &gno.FileSet{})
	pv := pn.NewPackage(m.Alloc)
	m.Store.SetBlockNode(pn)
	m.Store.SetCachePackage(pv)
	m.SetActivePackage(pv)
	t0 := time.Now()
	f := m.MustParseFile(filepath.Base(file), string(src))
	ctx.OriginCaller = test.DefaultCaller
	m.RunFiles(f)
	if os.Getenv("C51_TIMING") != "" {
		fmt.Fprintln(os.Stderr, "load", time.Since(t0))
		defer func() { fmt.Fprintln(os.Stderr, "total", time.Since(t0), "cycles", m.Cycles) }()
	}
	m.SetActivePackage(m.Store.GetPackage(pkgPath, false))
	ex, err := m.ParseExpr("main()")
	if err != nil {
		panic(err)
	}
	m.MaybeInjectCurForEval(ex)
	m.Eval(ex)
	fmt.Println("WORKER-DONE")
}

// ---------------------------------------------------------------------------------------------
// parent

var r *vk.Run

type jobResult struct {
	lines []string
	err   string
}

type wproc struct {
	cmd   *exec.Cmd
	in    io.WriteCloser
	out   *bufio.Reader
	errb  *bytes.Buffer
	ready bool
	dead  string
}

type pool struct {
	ctx context.Context
	ws  []*wproc
}

func startPool(ctx context.Context, n int) *pool {
	self, _ := os.Executable()
	p := &pool{ctx: ctx}
	for i := 0; i < n; i++ {
		cmd := exec.CommandContext(ctx, self, "-worker-loop")
		cmd.Env = append(os.Environ(), "GOMAXPROCS=2", "GOMEMLIMIT=3GiB")
		in, _ := cmd.StdinPipe()
		op, _ := cmd.StdoutPipe()
		w := &wproc{cmd: cmd, in: in, out: bufio.NewReaderSize(op, 1<<20), errb: &bytes.Buffer{}}
		cmd.Stderr = w.errb
		if err := cmd.Start(); err != nil {
			w.dead = err.Error()
		}
		p.ws = append(p.ws, w)
	}
	return p
}

func (p *pool) stop() {
	for _, w := range p.ws {
		w.in.Close()
		if w.cmd.Process != nil {
			w.cmd.Process.Kill()
		}
		w.cmd.Wait()
	}
}

// readUntilDone collects the worker's output lines up to its terminator line.
func (w *wproc) readUntilDone(term string) ([]string, string) {
	var lines []string
	for {
		ln, err := w.out.ReadString('\n')
		ln = strings.TrimRight(ln, "\n")
		if ln == term {
			return lines, ""
		}
		if strings.HasPrefix(ln, "WORKER-ERROR") {
			return lines, ln
		}
		if ln != "" {
			lines = append(lines, ln)
		}
		if err != nil {
			tail := strings.Join(lines, "\n")
			if len(tail) > 1200 {
				tail = tail[len(tail)-1200:]
			}
			return lines, fmt.Sprintf("worker died: %v stdout-tail=%q stderr=%q", err, tail, w.errb.String())
		}
	}
}

func (p *pool) runJobs(dir string, level int, srcs []string) []jobResult {
	res := make([]jobResult, len(srcs))
	var next atomic.Int64
	var wg sync.WaitGroup
	nw := len(p.ws)
	if nw > len(srcs) {
		nw = len(srcs)
	}
	for wi := 0; wi < nw; wi++ {
		wg.Add(1)
		go func(w *wproc) {
			defer wg.Done()
			for {
				i := int(next.Add(1) - 1)
				if i >= len(srcs) {
					return
				}
				if p.ctx.Err() != nil {
					res[i].err = "budget"
					continue
				}
				if w.dead == "" && !w.ready {
					if _, e := w.readUntilDone("WORKER-READY"); e != "" {
						w.dead = e
					}
					w.ready = true
					if p.ctx.Err() != nil {
						res[i].err = "budget"
						continue
					}
				}
				if w.dead != "" {
					res[i].err = w.dead
					continue
				}
				file := filepath.Join(dir, fmt.Sprintf("l%02d_j%03d.gno", level, i))
				if err := os.WriteFile(file, []byte(srcs[i]), 0o644); err != nil {
					res[i].err = err.Error()
					continue
				}
				fmt.Fprintln(w.in, file)
				lines, e := w.readUntilDone("WORKER-DONE")
				res[i].lines = lines
				if p.ctx.Err() != nil {
					res[i].err = "budget"
					continue
				}
				if e != "" {
					res[i].err = e
					w.dead = e
				}
			}
		}(p.ws[wi])
	}
	wg.Wait()
	return res
}

func gnoStrings(ss []string) string {
	q := make([]string, len(ss))
	for i, s := range ss {
		q[i] = strconv.Quote(s)
	}
	return strings.Join(q, ", ")
}

func main() {
	if len(os.Args) == 2 && os.Args[1] == "-worker-loop" {
		workerLoop()
		return
	}
	r = vk.New("model_checking")
	r.SetBudget(75*time.Second, 20*time.Minute)

	na, amounts, depth := 2, []string{"-1", "0", "1", "2", "maxI64"}, 3
	if r.Thorough() {
		na, amounts, depth = 3, []string{"-1", "0", "1", "2", "maxI64 - 1", "maxI64"}, 5
	}
	if v := os.Getenv("C51_DEPTH"); v != "" {
		depth, _ = strconv.Atoi(v)
	}
	n1, nam := na+1, len(amounts)
	nops := 2*n1*nam + 3*n1*n1*nam + n1*n1*n1*nam
	dir := filepath.Join(vk.Root, ".work", "c51", "jobs-"+r.Tier)
	os.RemoveAll(dir)
	os.MkdirAll(dir, 0o755)

	ctx, cancel := context.WithDeadline(context.Background(), time.Now().Add(r.Budget))
	defer cancel()
	pl := startPool(ctx, runtime.GOMAXPROCS(0))
	defer pl.stop()

	seen := map[string]bool{}
	frontier := []string{""}
	var states, transitions, selfloops, checks, builds int64
	perLevel := []map[string]int{}
	completeDepth := -1
	type viol struct{ path, check, detail string }
	var viols []viol
	harnessErr := ""
	initialSeen := false

levels:
	for d := 0; d <= depth; d++ {
		expand := d < depth
		// few, large jobs: loading grc20 and its imports into a fresh VM costs seconds
		njobs := runtime.GOMAXPROCS(0)
		if njobs > len(frontier) {
			njobs = len(frontier)
		}
		srcs := make([]string, njobs)
		for j := 0; j < njobs; j++ {
			var part []string
			for i := j; i < len(frontier); i += njobs {
				part = append(part, frontier[i])
			}
			s := strings.Replace(tmpl, "/*NA*/", strconv.Itoa(na), 1)
			s = strings.Replace(s, "/*AMOUNTS*/", strings.Join(amounts, ", "), 1)
			s = strings.Replace(s, "/*PATHS*/", gnoStrings(part), 1)
			s = strings.Replace(s, "/*EXPAND*/", strconv.FormatBool(expand), 1)
			srcs[j] = s
		}
		results := pl.runJobs(dir, d, srcs)
		lv := map[string]int{"depth": d, "frontier_states": len(frontier), "jobs": njobs}
		type succ struct{ path, key string }
		var succs []succ
		for _, jr := range results { // a level cut short by the budget is discarded as a whole
			if jr.err == "budget" || (jr.err != "" && ctx.Err() != nil) {
				r.MarkCapped()
				break levels
			}
		}
		for _, jr := range results {
			if jr.err != "" {
				harnessErr = jr.err
				break levels
			}
			for _, ln := range jr.lines {
				f := strings.Split(ln, "\t")
				switch f[0] {
				case "T":
					if len(f) != 4 {
						harnessErr = "bad T line: " + ln
						break levels
					}
					r.Outcome(f[2])
					succs = append(succs, succ{f[1], f[3]})
				case "V":
					if len(f) != 4 {
						harnessErr = "bad V line: " + ln
						break levels
					}
					viols = append(viols, viol{f[1], f[2], f[3]})
				case "SUM":
					for _, kvp := range f[1:] {
						k, v, _ := strings.Cut(kvp, "=")
						n, _ := strconv.ParseInt(v, 10, 64)
						switch k {
						case "states":
							states += n
						case "transitions":
							transitions += n
						case "selfloops":
							selfloops += n
						case "checks":
							checks += n
						case "builds":
							builds += n
						}
					}
				case "WORKER-DONE":
				default:
					harnessErr = "unexpected explorer output: " + ln
					break levels
				}
			}
		}
		if !initialSeen {
			initialSeen = true
			r.Distinct("key:initial")
		}
		if len(viols) > 0 {
			perLevel = append(perLevel, lv)
			break
		}
		sort.Slice(succs, func(i, j int) bool { return succs[i].path < succs[j].path })
		var next []string
		for _, s := range succs {
			if !seen[s.key] {
				seen[s.key] = true
				r.Distinct("key:" + s.key)
				next = append(next, s.path)
			}
		}
		lv["state_changing_transitions"] = len(succs)
		lv["new_states"] = len(next)
		perLevel = append(perLevel, lv)
		completeDepth = d
		frontier = next
		if len(frontier) == 0 {
			break
		}
		if r.Expired() && d < depth {
			break
		}
	}
	if harnessErr != "" {
		pl.stop()
		r.HarnessError("%s", harnessErr)
	}
	r.EvalN(checks)
	r.OutcomeN("no-state-change(self-loop)", selfloops)
	// violations: only the shallowest BFS level at which any occur is reported (deeper levels are not explored);
	// they are grouped by signature (check + kind of the last operation) and at most 3 histories per signature,
	// in canonical order, become VIOLATION keys - so that one defect does not drown another.
	sort.Slice(viols, func(i, j int) bool {
		if viols[i].path != viols[j].path {
			return viols[i].path < viols[j].path
		}
		return viols[i].check < viols[j].check
	})
	perSig := map[string]int{}
	for _, v := range viols {
		last := v.path[strings.LastIndex(v.path, ";")+1:]
		if i := strings.Index(last, "("); i > 0 {
			last = last[:i]
		}
		chk := v.check
		if i := strings.IndexAny(chk, " ("); i > 0 {
			chk = chk[:i]
		}
		sig := chk + "/" + last
		perSig[sig]++
		if perSig[sig] > 3 || len(perSig) > 12 {
			continue
		}
		r.Violation(fmt.Sprintf("history=%s :: %s", v.path, v.check), map[string]any{"history": v.path, "check": v.check, "detail": v.detail, "signature": sig})
	}
	r.Sample(map[string]any{"accounts": na, "plus_invalid_address": true, "amounts": amounts, "ops_per_state": nops,
		"ops": "Mint(x,a) Burn(x,a) Transfer(x,y,a) Approve(x,y,a) TransferFrom(owner,spender,to,a) SpendAllowance(x,y,a)"})
	if len(frontier) > 0 {
		r.Sample(map[string]any{"example_frontier_history_encoded": frontier[len(frontier)/2], "encoding": "two letters per op: 'A'+op/26, 'a'+op%26"})
	}
	r.Assumptions = []string{
		"accounts and amounts are drawn from the menu (boundary amounts -1,0,1,2,MAX); one invalid (empty) address stands for all invalid addresses",
		"reference = ledger model: invalid address, negative amount, insufficient balance/allowance, self transfer and supply overflow fail and change nothing; everything else succeeds with the obvious effect",
		"expansion calls the PrivateLedger API; replays of histories go through ImpersonateTeller for Transfer/Approve/TransferFrom; CallerTeller/RealmTeller (caller derived from the realm call stack) are not driven",
		"HasAddr/KnownAccounts are part of the compared observable state for 'failing operations change nothing' but their success semantics are not modelled beyond internal consistency",
	}
	pl.stop()
	exhaustive := completeDepth >= depth || len(frontier) == 0
	r.Finish(fmt.Sprintf("BFS (written in Gno, executed by the GnoVM as a realm) over all histories of %d ledger operations (%d accounts + invalid address, %d amounts) up to depth %d with de-duplication on the observable state; every transition: success/failure and post-state (balances, allowances, supply) vs ledger model, supply==sum(balances), failing operation leaves every observable unchanged", nops, na, nam, depth),
		exhaustive, map[string]any{
			"states": states, "transitions": transitions, "traces_validated_against_impl": transitions,
			"state_changing_transitions": transitions - selfloops, "depth": depth, "complete_depth": completeDepth,
			"levels": perLevel, "api_checks": checks, "ledger_replays": builds, "ops_per_state": nops, "violating_observations": len(viols), "violation_signatures": perSig,
		})
}
