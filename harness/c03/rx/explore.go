package rx

import (
	"crypto/sha256"
	"encoding/hex"
	"fmt"
	"sort"
	"strings"
	"sync"
	"sync/atomic"
	"time"

	"verif/engine/vk"
)

// Family is a purpose-built realm: a state shape plus an operation menu. The logic file is valid Go AND valid
// Gno; the same text is compiled by Go into Reset/Op/Dump (third opinion) and deployed as <Path>/logic.gno.
type Family struct {
	Name  string // package name, e.g. "s1"
	Path  string // gno.land/r/verif/s1
	Logic string // source text of the logic file (package clause `package <Name>`)
	Ops   string // operation alphabet (one byte per op), most interesting first
	Desc  map[byte]string
	Reset func()
	Op    func(c byte) string
	Dump  func() string
	// Extra packages deployed before the realm (e.g. a /p/ library or a second realm).
	Extra []Pkg
	// ExtraPaths: further package paths whose persisted objects belong to the family's state.
	ExtraPaths []string
	// QuickN overrides the quick-tier menu size for this family (0 = harness default).
	QuickN int
	// Wrapper overrides the default gno-only wrapper file (must define Do(cur realm, ops string) string).
	Wrapper string
	// NoRef: the family has no Go / in-memory reference (multi-realm logic). Observations of the different cuts of a
	// sequence are compared with each other instead; a transaction may legitimately abort (state unchanged).
	NoRef bool
	// Quiet: the transaction that runs the ops does NOT dump the realm (entry point Ops instead of Do), so the realm is
	// finalized while whatever the ops did not touch is still unloaded; the state is observed by the cold-dump
	// transaction that follows every transaction (compared with the reference dump).
	Quiet bool
	// K overrides the explorer's maximal sequence length for this family (0 = Explorer.K).
	K int

	mu  sync.Mutex
	ref map[string]RefEntry
	mem *MemVM
}

// MemRef is the primary reference: the op sequence evaluated by the real GnoVM in one in-memory execution
// without any store (see MemVM).
func (f *Family) MemRef(seq string) (RefEntry, bool) {
	f.mu.Lock()
	if f.mem == nil {
		vm, err := NewMemVM(f)
		if err != nil {
			f.mu.Unlock()
			panic(err)
		}
		f.mem = vm
	}
	vm := f.mem
	f.mu.Unlock()
	return vm.Ref(seq)
}

type RefEntry struct {
	Rets []string
	Dump string
}

const wrapperTmpl = `package %s

func Do(cur realm, ops string) string {
	out := ""
	for i := 0; i < len(ops); i++ {
		out += op(ops[i]) + ";"
	}
	return out + "#" + dump()
}

// Ops runs the ops without dumping (quiet families).
func Ops(cur realm, ops string) string {
	out := ""
	for i := 0; i < len(ops); i++ {
		out += op(ops[i]) + ";"
	}
	return out + "#"
}

func Op(cur realm, c string) string { return op(c[0]) }

func Dump() string { return dump() }
`

// Pkgs returns the genesis packages of the family.
func (f *Family) Pkgs() []Pkg {
	w := f.Wrapper
	if w == "" {
		w = fmt.Sprintf(wrapperTmpl, f.Name)
	}
	return append(append([]Pkg{}, f.Extra...), Pkg{Path: f.Path, Files: map[string]string{"logic.gno": f.Logic, "wrap.gno": w}})
}

// entry is the realm function that runs a transaction segment ("" = the cold-dump transaction).
func (f *Family) entry(seg string) string {
	if f.Quiet && seg != "" {
		return "Ops"
	}
	return "Do"
}

// Paths lists every package path whose objects make up the family's persisted state.
func (f *Family) Paths() []string { return append([]string{f.Path}, f.ExtraPaths...) }

// Ref runs the op sequence natively in Go (from the reset state) and returns every return string and the dump.
// Go panics are turned into the return string "PANIC" of the op (the remaining ops still run).
func (f *Family) Ref(seq string) RefEntry {
	f.mu.Lock()
	defer f.mu.Unlock()
	if e, ok := f.ref[seq]; ok {
		return e
	}
	if f.ref == nil {
		f.ref = map[string]RefEntry{}
	}
	f.Reset()
	var e RefEntry
	for i := 0; i < len(seq); i++ {
		c := seq[i]
		ret := "PANIC"
		func() {
			defer func() { recover() }()
			ret = f.Op(c)
		}()
		e.Rets = append(e.Rets, ret)
	}
	e.Dump = f.Dump()
	f.ref[seq] = e
	return e
}

// ParseDo splits the result of Do: "r1;r2;...;#dump".
func ParseDo(s string) (rets []string, dump string, ok bool) {
	i := strings.Index(s, "#")
	if i < 0 {
		return nil, "", false
	}
	head := s[:i]
	if head != "" {
		if !strings.HasSuffix(head, ";") {
			return nil, "", false
		}
		rets = strings.Split(strings.TrimSuffix(head, ";"), ";")
	}
	return rets, s[i+1:], true
}

// Mismatch is one observed deviation (candidate violation; classified and minimised at the end).
type Mismatch struct {
	Fam   string
	Class string   // ret | dump-hot | dump-cold | tx-failed | graph:<kind>
	Hist  []string // transactions (segments of ops)
	Seq   string
	Got   string
	Want  string
	Extra string
}

func (m Mismatch) cuts() int { return len(m.Hist) }

// Explorer enumerates, for every family, all op sequences of length <= K and every cut of each sequence into
// transactions (= every list of non-empty segments of total length <= K), executing each transaction as its own
// MsgCall on the real application.
type Explorer struct {
	R    *vk.Run
	Fams []*Family
	K    int
	// Graph, when set, is called after every executed transaction (C06 oracle); returns violations (kind, detail).
	Graph func(e *Env, f *Family) []GraphIssue
	// ColdDump: after every transaction run an extra transaction Do("") and compare its dump (persist-reload identity).
	ColdDump bool
	// Memo: skip the subtree of a node whose persisted state (bytes of all objects of the family's packages + realm
	// record) was already expanded with at least the same remaining depth in the same task.
	Memo bool

	envs chan *Env
	nenv atomic.Int64

	Nodes, Txs, MemoHits, ColdHits, States, EnvNanos, RunTxs atomic.Int64
	nsample                                                  atomic.Int64
	stateSet                                                 sync.Map
	mu                                                       sync.Mutex
	Mis                                                      []Mismatch
	Aborts                                                   []Mismatch        // aborted transactions of reference-less families (observations)
	single                                                   map[string]string // fam|seq -> observed "rets#dump" of the single-tx history
}

// kOf is the maximal op-sequence length explored for f.
func (x *Explorer) kOf(f *Family) int {
	if f.K > 0 {
		return f.K
	}
	return x.K
}

func (x *Explorer) pkgs() []Pkg {
	var ps []Pkg
	seen := map[string]bool{}
	for _, f := range x.Fams {
		for _, p := range f.Pkgs() {
			if !seen[p.Path] {
				seen[p.Path] = true
				ps = append(ps, p)
			}
		}
	}
	return ps
}

func (x *Explorer) getEnv() *Env {
	select {
	case e := <-x.envs:
		return e
	default:
	}
	t0 := time.Now()
	e, err := NewEnv(x.pkgs())
	x.EnvNanos.Add(int64(time.Since(t0)))
	if err != nil {
		x.R.HarnessError("env: %v", err)
	}
	x.nenv.Add(1)
	return e
}

func (x *Explorer) putEnv(e *Env) {
	select {
	case x.envs <- e:
	default:
	}
}

func (x *Explorer) addMis(m Mismatch) {
	x.mu.Lock()
	if len(x.Mis) < 200000 {
		x.Mis = append(x.Mis, m)
	}
	x.mu.Unlock()
}

// taskMemo: per-task (hence deterministic) memo tables keyed by the hash of the persisted bytes.
type taskMemo struct {
	sub  map[string]int    // state -> largest remaining depth already expanded from it
	cold map[string]string // state -> result of the cold-dump transaction
	obs  map[string][]obsEntry
}

type obsEntry struct{ hist, dump string }

func abortClass(log string) string {
	l := FirstLine(log)
	for _, k := range []string{"readonly", "cannot allocate", "illegal conversion", "out of gas", "nil pointer", "cannot persist", "unexpected unreal object", "invariant violation"} {
		if strings.Contains(log, k) {
			return k
		}
	}
	if len(l) > 60 {
		l = l[:60]
	}
	return l
}

func taskRank(t task) int {
	r := 0
	for i := 0; i < len(t.prefix); i++ {
		r = r*64 + strings.IndexByte(t.f.Ops, t.prefix[i])
	}
	return r
}

type task struct {
	f      *Family
	prefix string // op prefix (length min(2,K)) every history of the task starts with
}

// StateHash hashes the persisted bytes of the family's packages.
func StateHash(e *Env, f *Family) string {
	h := sha256.New()
	for _, p := range f.Paths() {
		d := e.Objects(p)
		t, _ := e.RealmTime(p)
		fmt.Fprintf(h, "time=%d;", t)
		ks := make([]string, 0, len(d))
		for k := range d {
			ks = append(ks, k)
		}
		sort.Strings(ks)
		for _, k := range ks {
			fmt.Fprintf(h, "%d:%s=%d:", len(k), k, len(d[k]))
			h.Write([]byte(d[k]))
		}
	}
	return hex.EncodeToString(h.Sum(nil)[:12])
}

// Run explores everything; returns when done or the budget expired.
func (x *Explorer) Run() {
	x.envs = make(chan *Env, 64)
	x.single = map[string]string{}
	var tasks []task
	for _, f := range x.Fams {
		pl := 2
		if x.kOf(f) < 2 {
			pl = x.kOf(f)
		}
		var gen func(p string)
		gen = func(p string) {
			if len(p) == pl {
				tasks = append(tasks, task{f, p})
				return
			}
			for i := 0; i < len(f.Ops); i++ {
				gen(p + string(f.Ops[i]))
			}
		}
		gen("")
	}
	// interleave the families so that a budget-capped run covers all of them partially
	sort.SliceStable(tasks, func(i, j int) bool { return taskRank(tasks[i]) < taskRank(tasks[j]) })
	// warm one env first (the first stdlib load is process-wide and slow)
	x.putEnv(x.getEnv())
	x.R.ParFor(len(tasks), func(i int) {
		e := x.getEnv()
		t := tasks[i]
		memo := &taskMemo{sub: map[string]int{}, cold: map[string]string{}, obs: map[string][]obsEntry{}}
		x.dfs(e, t, nil, "", memo)
		// families without a reference: all cuts of one op sequence must agree on the final dump
		var seqs []string
		for q := range memo.obs {
			seqs = append(seqs, q)
		}
		sort.Strings(seqs)
		for _, q := range seqs {
			os := memo.obs[q]
			for _, o := range os[1:] {
				if o.dump != os[0].dump {
					x.addMis(Mismatch{Fam: t.f.Name, Class: "cuts-disagree", Hist: strings.Split(o.hist, "|"), Seq: q, Got: o.dump, Want: os[0].dump, Extra: "reference cut: " + os[0].hist})
					break
				}
			}
		}
		x.putEnv(e)
	})
}

func (x *Explorer) dfs(e *Env, t task, hist []string, seq string, memo *taskMemo) {
	remaining := x.kOf(t.f) - len(seq)
	if remaining <= 0 || x.R.Expired() {
		return
	}
	f := t.f
	var segs []string
	var gen func(s string)
	gen = func(s string) {
		if len(s) > 0 {
			full := seq + s
			// stay inside the task: the op sequence must be a prefix of / extend the task prefix
			n := len(full)
			if n > len(t.prefix) {
				n = len(t.prefix)
			}
			if full[:n] != t.prefix[:n] {
				return
			}
			segs = append(segs, s)
		}
		if len(s) == remaining {
			return
		}
		for i := 0; i < len(f.Ops); i++ {
			gen(s + string(f.Ops[i]))
		}
	}
	gen("")
	for _, seg := range segs {
		if x.R.Expired() {
			return
		}
		x.node(e, t, append(append([]string{}, hist...), seg), seq+seg, memo)
	}
}

func (x *Explorer) node(e *Env, t task, hist []string, seq string, memo *taskMemo) {
	f := t.f
	seg := hist[len(hist)-1]
	pop := e.Push()
	defer pop()
	res := e.Call(f.Path, f.entry(seg), seg)
	x.Txs.Add(1)
	x.R.Eval()
	x.Nodes.Add(1)
	hkey := f.Name + ":" + strings.Join(hist, "|")
	x.R.Distinct(hkey)
	var ref RefEntry
	want := ""
	if !f.NoRef {
		var refOK bool
		ref, refOK = f.MemRef(seq)
		if !refOK {
			x.R.HarnessError("in-memory GnoVM run of %s %q failed: %s", f.Name, seq, LastMemPanic)
		}
		want = strings.Join(ref.Rets[len(seq)-len(seg):], ";") + ";#" + ref.Dump
	}
	s, ok := res.Str()
	if f.NoRef && !res.OK {
		// aborted transaction: nothing may have changed; the graph must still be consistent
		x.R.Outcome("tx-aborted:" + abortClass(res.Log))
		x.mu.Lock()
		x.Aborts = append(x.Aborts, Mismatch{Fam: f.Name, Class: abortClass(res.Log), Hist: hist, Seq: seq, Got: FirstLine(res.Log)})
		x.mu.Unlock()
		memo.obs[seq] = append(memo.obs[seq], obsEntry{strings.Join(hist, "|"), "TX ABORTED: " + abortClass(res.Log)})
		if x.Graph != nil {
			for _, gi := range x.Graph(e, f) {
				x.addMis(Mismatch{Fam: f.Name, Class: "graph:" + gi.Kind, Hist: hist, Seq: seq, Got: gi.Detail})
			}
		}
		return
	}
	if !res.OK || !ok {
		x.R.Outcome("tx-failed")
		x.addMis(Mismatch{Fam: f.Name, Class: "tx-failed", Hist: hist, Seq: seq, Got: FirstLine(res.Log), Want: want})
		return
	}
	rets, dump, ok := ParseDo(s)
	if !ok || len(rets) != len(seg) {
		x.addMis(Mismatch{Fam: f.Name, Class: "tx-failed", Hist: hist, Seq: seq, Got: "unparsable result " + s, Want: want})
		return
	}
	if f.Quiet {
		if dump != "" {
			x.R.HarnessError("quiet family %s returned a dump", f.Name)
		}
		dump = ref.Dump // not observed in this transaction: the cold-dump transaction below must show the reference dump
	}
	if len(hist) == 1 {
		x.mu.Lock()
		x.single[f.Name+"|"+seq] = s
		x.mu.Unlock()
	}
	if len(hist) == 3 && len(seq) == x.kOf(f) && x.nsample.Add(1) <= 3 {
		x.R.Sample(map[string]any{"family": f.Name, "transactions": hist, "ops": f.Describe(seq), "result_of_last_tx": s})
	}
	bad, graphBad := false, false
	if f.NoRef {
		memo.obs[seq] = append(memo.obs[seq], obsEntry{strings.Join(hist, "|"), dump})
	}
	for i := range rets {
		if f.NoRef {
			break
		}
		if rets[i] != ref.Rets[len(seq)-len(seg)+i] {
			x.addMis(Mismatch{Fam: f.Name, Class: "ret", Hist: hist, Seq: seq, Got: s, Want: want, Extra: fmt.Sprintf("op #%d '%c'", len(seq)-len(seg)+i, seg[i])})
			bad = true
			break
		}
	}
	if !f.NoRef && dump != ref.Dump {
		x.addMis(Mismatch{Fam: f.Name, Class: "dump-hot", Hist: hist, Seq: seq, Got: s, Want: want})
		bad = true
	}
	if x.Graph != nil {
		for _, gi := range x.Graph(e, f) {
			x.addMis(Mismatch{Fam: f.Name, Class: "graph:" + gi.Kind, Hist: hist, Seq: seq, Got: gi.Detail})
			graphBad = true
		}
	}
	sh := StateHash(e, f)
	if _, loaded := x.stateSet.LoadOrStore(f.Name+sh, true); !loaded {
		x.States.Add(1)
	}
	if f.Quiet && !x.ColdDump {
		x.R.HarnessError("quiet family %s needs the cold-dump transaction", f.Name)
	}
	if x.ColdDump {
		// the cold dump is a function of the persisted bytes: run it once per distinct persisted state of the task
		s2, ok2, r2 := "", true, Res{OK: true}
		if c, hit := memo.cold[sh]; hit {
			s2 = c
			x.ColdHits.Add(1)
		} else {
			pop2 := e.Push()
			r2 = e.Call(f.Path, "Do", "")
			x.Txs.Add(1)
			x.R.Eval()
			pop2()
			s2, ok2 = r2.Str()
			if r2.OK && ok2 {
				memo.cold[sh] = s2
			}
		}
		if !r2.OK || !ok2 {
			x.addMis(Mismatch{Fam: f.Name, Class: "tx-failed", Hist: append(append([]string{}, hist...), ""), Seq: seq, Got: FirstLine(r2.Log), Want: "#" + ref.Dump})
			bad = true
		} else if s2 != "#"+dump {
			extra := "dump in the tx that ran the ops vs dump in a following tx (reloaded from the store)"
			if f.Quiet {
				extra = "quiet family: dump in the tx following the ops (reloaded from the store) vs dump of the in-memory GnoVM run"
			}
			x.addMis(Mismatch{Fam: f.Name, Class: "dump-cold", Hist: hist, Seq: seq, Got: s2, Want: "#" + dump, Extra: extra})
			bad = true
		}
	}
	if bad {
		x.R.Outcome("mismatch")
		return // do not expand below a deviating node (its descendants would only repeat it)
	}
	if graphBad {
		x.R.Outcome("graph-issue") // the realm still works: keep expanding
	} else {
		x.R.Outcome(fmt.Sprintf("ok:txs=%d", len(hist)))
	}
	remaining := x.kOf(f) - len(seq)
	if remaining <= 0 {
		return
	}
	if x.Memo {
		if r, ok := memo.sub[sh]; ok && r >= remaining {
			x.MemoHits.Add(1)
			x.R.Outcome("memo-hit(subtree already expanded from the byte-identical persisted state)")
			return
		}
		memo.sub[sh] = remaining
	}
	x.dfs(e, t, hist, seq, memo)
}

// Report minimises the mismatches (per family and class: shortest sequence, fewest transactions, lexicographic)
// and reports them as violations.
func (x *Explorer) Report() { x.ReportOnly("") }

// ReportOnly reports only the mismatch classes with the given prefix ("" = all).
func (x *Explorer) ReportOnly(prefix string) {
	x.mu.Lock()
	var mis []Mismatch
	for _, m := range x.Mis {
		if strings.HasPrefix(m.Class, prefix) {
			mis = append(mis, m)
		}
	}
	x.mu.Unlock()
	type key struct{ fam, class string }
	best := map[key]Mismatch{}
	count := map[key]int{}
	for _, m := range mis {
		k := key{m.Fam, m.Class}
		if strings.HasPrefix(m.Class, "graph:") {
			k.fam = "" // graph invariants: one key per kind (minimal history over all families)
		}
		count[k]++
		b, ok := best[k]
		if !ok || len(m.Seq) < len(b.Seq) || (len(m.Seq) == len(b.Seq) && (m.cuts() < b.cuts() || (m.cuts() == b.cuts() && strings.Join(m.Hist, "|") < strings.Join(b.Hist, "|")))) {
			best[k] = m
		}
	}
	var ks []key
	for k := range best {
		ks = append(ks, k)
	}
	sort.Slice(ks, func(i, j int) bool {
		if ks[i].fam != ks[j].fam {
			return ks[i].fam < ks[j].fam
		}
		return ks[i].class < ks[j].class
	})
	for _, k := range ks {
		m := best[k]
		f := x.fam(m.Fam)
		confirmed := "n/a"
		if !strings.HasPrefix(m.Class, "graph:") && !strings.HasPrefix(m.Class, "msgrun") {
			got, err := x.Replay(f, m)
			switch {
			case err != nil:
				x.R.HarnessError("replay of %s %v on a fresh chain failed: %v", m.Fam, m.Hist, err)
			case got != m.Got:
				x.R.HarnessError("%s %v: deviation %q seen in the snapshot explorer is not reproduced on a fresh chain with committed blocks (got %q)", m.Fam, m.Hist, m.Got, got)
			}
			confirmed = "reproduced on a fresh chain, every transaction in its own committed block"
		}
		single := ""
		x.mu.Lock()
		if s, ok := x.single[m.Fam+"|"+m.Seq]; ok {
			single = s
		}
		x.mu.Unlock()
		vkey := fmt.Sprintf("%s:%s:txs=[%s]", m.Fam, k.class, strings.Join(m.Hist, "|"))
		if k.fam == "" {
			vkey = k.class
		}
		x.R.Violation(vkey, map[string]any{
			"family": m.Fam, "class": k.class, "transactions": m.Hist, "ops": f.Describe(m.Seq), "got": m.Got, "want_in_memory_gnovm": m.Want, "extra": m.Extra,
			"go_native": f.goNative(m.Seq), "same_ops_in_one_tx": single,
			"confirmation": confirmed, "same_class_count": count[k], "note": "minimal history of its class (shortest sequence, fewest transactions)",
		})
	}
}

// Replay runs the history of a mismatch on a fresh chain, every transaction in its own committed block, and returns
// the observation corresponding to m.Got.
func (x *Explorer) Replay(f *Family, m Mismatch) (string, error) {
	e, err := NewEnvCommitted(x.pkgs())
	if err != nil {
		return "", err
	}
	var last Res
	for _, seg := range m.Hist {
		last = e.Call(f.Path, f.entry(seg), seg)
	}
	if m.Class == "dump-cold" {
		last = e.Call(f.Path, "Do", "")
	}
	if s, ok := last.Str(); ok && last.OK {
		if m.Class == "cuts-disagree" {
			_, d, _ := ParseDo(s)
			return d, nil
		}
		return s, nil
	}
	if m.Class == "cuts-disagree" {
		return "TX ABORTED: " + abortClass(last.Log), nil
	}
	return FirstLine(last.Log), nil
}

func (f *Family) goNative(seq string) string {
	if f.NoRef || f.Op == nil {
		return "n/a"
	}
	g := f.Ref(seq)
	return strings.Join(g.Rets, ";") + ";#" + g.Dump
}

// Describe spells out an op sequence.
func (f *Family) Describe(seq string) []string {
	var ops []string
	for i := 0; i < len(seq); i++ {
		ops = append(ops, fmt.Sprintf("%c: %s", seq[i], f.Desc[seq[i]]))
	}
	return ops
}

// GoDiff is the minimal op sequence on which the in-memory GnoVM run and the native Go run of the same logic differ
// (third opinion; a Go/Gno language difference, not a persistence effect).
type GoDiff struct {
	Family string
	Seq    string
	Ops    []string
	Gno    string
	Go     string
	Count  int
}

// GoDiffs compares, for all sequences <= K, the in-memory GnoVM run with native Go.
func (x *Explorer) GoDiffs() []GoDiff {
	var out []GoDiff
	for _, f := range x.Fams {
		if f.NoRef {
			continue
		}
		var d *GoDiff
		var gen func(s string)
		gen = func(s string) {
			if len(s) > 0 {
				g := f.Ref(s)
				m, ok := f.MemRef(s)
				gs := strings.Join(g.Rets, ";") + ";#" + g.Dump
				ms := strings.Join(m.Rets, ";") + ";#" + m.Dump
				if !ok {
					ms = "(VM panic)"
				}
				if gs != ms {
					if d == nil {
						d = &GoDiff{Family: f.Name, Seq: s, Ops: f.Describe(s), Gno: ms, Go: gs}
					} else if len(s) < len(d.Seq) {
						d.Seq, d.Ops, d.Gno, d.Go = s, f.Describe(s), ms, gs
					}
					d.Count++
				}
			}
			if len(s) == x.kOf(f) {
				return
			}
			for i := 0; i < len(f.Ops); i++ {
				gen(s + string(f.Ops[i]))
			}
		}
		gen("")
		if d != nil {
			out = append(out, *d)
		}
	}
	return out
}

func (x *Explorer) fam(name string) *Family {
	for _, f := range x.Fams {
		if f.Name == name {
			return f
		}
	}
	return nil
}

// RunScripts: every op sequence of length <= kmax as ONE MsgRun script that calls each op through a crossing
// call (the realm is finalized at every call boundary; the object cache is kept) — a third cut pattern between
// "one call" and "one transaction per op". Compared with the in-memory GnoVM reference.
func (x *Explorer) RunScripts(kmax int) {
	type rt struct {
		f *Family
		o byte
	}
	var tasks []rt
	for _, f := range x.Fams {
		if f.NoRef {
			continue // no Op() entry point / reference for multi-realm families
		}
		for i := 0; i < len(f.Ops); i++ {
			tasks = append(tasks, rt{f, f.Ops[i]})
		}
	}
	x.R.ParFor(len(tasks), func(i int) {
		e := x.getEnv()
		defer x.putEnv(e)
		t := tasks[i]
		var gen func(s string)
		gen = func(s string) {
			if x.R.Expired() {
				return
			}
			x.runScript(e, t.f, s)
			if len(s) >= kmax+x.kOf(t.f)-x.K {
				return
			}
			for j := 0; j < len(t.f.Ops); j++ {
				gen(s + string(t.f.Ops[j]))
			}
		}
		gen(string(t.o))
	})
}

func (x *Explorer) runScript(e *Env, f *Family, seq string) {
	var b strings.Builder
	fmt.Fprintf(&b, "package main\n\nimport r %q\n\nfunc main(cur realm) {\n", f.Path)
	for i := 0; i < len(seq); i++ {
		fmt.Fprintf(&b, "\tprintln(r.Op(cross(cur), %q))\n", string(seq[i]))
	}
	b.WriteString("\tprintln(\"#\" + r.Dump())\n}\n")
	pop := e.Push()
	res := e.Run(b.String())
	pop()
	x.RunTxs.Add(1)
	x.Txs.Add(1)
	x.R.Eval()
	x.R.Distinct(f.Name + ":run:" + seq)
	ref, _ := f.MemRef(seq)
	want := strings.Join(ref.Rets, "\n") + "\n#" + ref.Dump + "\n"
	if !res.OK {
		x.R.Outcome("tx-failed")
		x.addMis(Mismatch{Fam: f.Name, Class: "msgrun:tx-failed", Hist: []string{"MsgRun(" + seq + ")"}, Seq: seq, Got: FirstLine(res.Log), Want: want})
		return
	}
	if res.Data != want {
		x.R.Outcome("mismatch")
		x.addMis(Mismatch{Fam: f.Name, Class: "msgrun", Hist: []string{"MsgRun(" + seq + ")"}, Seq: seq, Got: res.Data, Want: want})
		return
	}
	x.R.Outcome("ok:msgrun")
}
