package rx

import (
	"crypto/sha256"
	"encoding/json"
	"fmt"
	"sort"
	"strings"

	"github.com/gnolang/gno/gnovm/pkg/gnolang"
	"github.com/gnolang/gno/tm2/pkg/amino"
)

// PkgID returns the hex package id used in "oid:<pkgid>:<n>" keys.
func PkgID(path string) string {
	s := gnolang.ObjectIDFromPkgPath(path).String()
	return s[:strings.IndexByte(s, ':')]
}

// ObjJSON decodes a stored object value (hash || amino) into amino JSON.
func ObjJSON(v string) (string, error) {
	if len(v) < gnolang.HashSize {
		return "", fmt.Errorf("short value")
	}
	var oo gnolang.Object
	if err := amino.Unmarshal([]byte(v[gnolang.HashSize:]), &oo); err != nil {
		return "", err
	}
	b, err := amino.MarshalJSON(oo)
	return string(b), err
}

// DebugObjects renders all objects of the given dump (keys "oid:...") as indented JSON, sorted.
func DebugObjects(d map[string]string) string {
	var ks []string
	for k := range d {
		ks = append(ks, k)
	}
	sort.Strings(ks)
	var b strings.Builder
	for _, k := range ks {
		if strings.HasSuffix(k, "#realm") {
			fmt.Fprintf(&b, "%s = %q\n", k, d[k])
			continue
		}
		js, err := ObjJSON(d[k])
		if err != nil {
			fmt.Fprintf(&b, "%s: ERR %v\n", k, err)
			continue
		}
		var x any
		json.Unmarshal([]byte(js), &x)
		p, _ := json.MarshalIndent(x, "", " ")
		fmt.Fprintf(&b, "%s = %s\n", k, p)
	}
	return b.String()
}

// ---- C06 oracle: independent checker of the persisted object graph --------------------------------------

type GraphIssue struct {
	Kind   string
	Detail string
}

// pobj is what the checker extracts from one stored object, independently of the VM's own child walkers:
// the ObjectInfo fields and every RefValue.ObjectID occurring anywhere in the amino-JSON form.
type pobj struct {
	err      string
	id       string
	kind     string // top-level field fingerprint (Package / Block / Func / ...)
	refCount int
	owner    string
	escaped  bool
	hashOK   bool
	hash     string   // stored hash prefix (hex)
	edges    []string // target object ids, one per RefValue occurrence
	ehash    []string // RefValue.Hash per edge ("" if none)
	isPkg    bool
}

// GraphChecker caches the decoding of stored values (most objects do not change between transactions).
type GraphChecker struct {
	cache map[string]*pobj
	// MerkleObs counts stale RefValue.Hash links (observation; not part of the property statement).
	MerkleObs int64
}

func NewGraphChecker() *GraphChecker { return &GraphChecker{cache: map[string]*pobj{}} }

func (g *GraphChecker) decode(v string) *pobj {
	if p, ok := g.cache[v]; ok {
		return p
	}
	p := &pobj{}
	defer func() {
		if len(g.cache) > 200000 {
			g.cache = map[string]*pobj{}
		}
		g.cache[v] = p
	}()
	if len(v) < gnolang.HashSize {
		p.err = "value shorter than a hash"
		return p
	}
	sum := sha256Sum(v[gnolang.HashSize:])
	p.hashOK = string(sum[:gnolang.HashSize]) == v[:gnolang.HashSize]
	p.hash = fmt.Sprintf("%x", v[:gnolang.HashSize])
	js, err := ObjJSON(v)
	if err != nil {
		p.err = "undecodable: " + err.Error()
		return p
	}
	var x map[string]any
	if err := json.Unmarshal([]byte(js), &x); err != nil {
		p.err = "bad json: " + err.Error()
		return p
	}
	oi, _ := x["ObjectInfo"].(map[string]any)
	if oi == nil {
		p.err = "no ObjectInfo"
		return p
	}
	p.id, _ = oi["ID"].(string)
	p.owner, _ = oi["OwnerID"].(string)
	p.escaped, _ = oi["IsEscaped"].(bool)
	if s, ok := oi["RefCount"].(string); ok {
		fmt.Sscanf(s, "%d", &p.refCount)
	}
	_, p.isPkg = x["PkgPath"]
	if _, isFunc := x["FileName"]; isFunc {
		p.isPkg = false
	}
	delete(x, "ObjectInfo")
	var walk func(v any)
	walk = func(v any) {
		switch t := v.(type) {
		case map[string]any:
			if t["@type"] == "/gno.RefValue" {
				if id, _ := t["ObjectID"].(string); id != "" && !strings.HasSuffix(id, ":0") {
					h, _ := t["Hash"].(string)
					p.edges = append(p.edges, id)
					p.ehash = append(p.ehash, h)
				}
				return
			}
			ks := make([]string, 0, len(t))
			for k := range t {
				ks = append(ks, k)
			}
			sort.Strings(ks)
			for _, k := range ks {
				walk(t[k])
			}
		case []any:
			for _, e := range t {
				walk(e)
			}
		}
	}
	walk(x)
	return p
}

func pkgOf(oid string) string {
	if i := strings.IndexByte(oid, ':'); i >= 0 {
		return oid[:i]
	}
	return oid
}

// immutablePkg mirrors the documented flag nibble of a PkgID (bit 0x40: stdlib or /p/): such objects are
// frozen after deployment and are not ref-counted from other packages.
func immutablePkg(pid string) bool {
	if len(pid) < 1 {
		return false
	}
	c := pid[0]
	var n byte
	switch {
	case c >= '0' && c <= '9':
		n = c - '0'
	case c >= 'a' && c <= 'f':
		n = c - 'a' + 10
	}
	return n&0x4 != 0
}

// Check verifies the C06 invariants on the persisted state the next transaction would see.
// paths: packages under test (their objects form the universe; edges leaving it are only checked for existence).
func (g *GraphChecker) Check(e *Env, paths []string) []GraphIssue {
	var issues []GraphIssue
	add := func(kind, format string, a ...any) {
		if len(issues) < 8 {
			issues = append(issues, GraphIssue{kind, fmt.Sprintf(format, a...)})
		}
	}
	objs := map[string]*pobj{}
	pids := map[string]bool{}
	for _, p := range paths {
		pid := PkgID(p)
		pids[pid] = true
		for id, v := range e.Objects(p) {
			po := g.decode(v)
			if po.err != "" {
				add("undecodable", "%s: %s", id, po.err)
				continue
			}
			if po.id != id {
				add("id-mismatch", "key %s holds object with ID %s", id, po.id)
			}
			objs[id] = po
		}
	}
	indeg := map[string]int{}
	holders := map[string][]string{}
	for id, o := range objs {
		for i, t := range o.edges {
			indeg[t]++
			holders[t] = append(holders[t], id)
			to, ok := objs[t]
			if !ok {
				// outside the universe: must at least exist
				if pids[pkgOf(t)] {
					add("dangling-reference", "%s references %s which is not in the store", id, t)
				} else if _, ok := e.C.Get("base", "oid:"+t); !ok {
					add("dangling-reference", "%s references %s (other package) which is not in the store", id, t)
				}
				continue
			}
			if h := o.ehash[i]; h != "" && h != to.hash {
				g.MerkleObs++
			}
		}
	}
	// escaped index: point reads for every id up to the realm counter (covers entries of deleted objects too)
	esc := map[string]string{}
	for _, p := range paths {
		pid := PkgID(p)
		t, _ := e.RealmTime(p)
		for n := uint64(1); n <= t+8; n++ {
			id := fmt.Sprintf("%s:%d", pid, n)
			if v, ok := e.C.Get("main", id); ok {
				esc[id] = fmt.Sprintf("%x", v)
			}
		}
	}
	ids := make([]string, 0, len(objs))
	for id := range objs {
		ids = append(ids, id)
	}
	sort.Strings(ids)
	for _, id := range ids {
		o := objs[id]
		if !o.hashOK {
			add("hash-mismatch", "%s: stored hash prefix is not the hash of the stored bytes", id)
		}
		imm := immutablePkg(pkgOf(id))
		if o.isPkg {
			if o.refCount != 1 || indeg[id] != 0 || o.owner != "" {
				add("package-object", "%s: package object RefCount=%d in-degree=%d owner=%q", id, o.refCount, indeg[id], o.owner)
			}
		} else if !imm {
			if o.refCount != indeg[id] {
				add("refcount", "%s: RefCount=%d but %d persisted references (held by %v)", id, o.refCount, indeg[id], holders[id])
			}
			wantOwner := o.refCount == 1 && !o.escaped
			if (o.owner != "") != wantOwner {
				add("owner-presence", "%s: OwnerID=%q RefCount=%d IsEscaped=%v", id, o.owner, o.refCount, o.escaped)
			} else if o.owner != "" {
				ow, ok := objs[o.owner]
				if !ok {
					add("owner-missing", "%s: owner %s is not in the store", id, o.owner)
				} else {
					has := false
					for _, t := range ow.edges {
						if t == id {
							has = true
						}
					}
					if !has {
						add("owner-does-not-hold-reference", "%s: recorded owner %s has no reference to it (held by %v)", id, o.owner, holders[id])
					}
				}
			}
		}
		if !imm {
			h, inMain := esc[id]
			if o.escaped != inMain {
				add("escaped-index", "%s: IsEscaped=%v but oid->hash entry in the main store present=%v", id, o.escaped, inMain)
			} else if inMain && h != o.hash {
				add("escaped-index-hash", "%s: main-store hash %s != stored object hash %s", id, h, o.hash)
			}
		}
	}
	for k := range esc {
		if _, ok := objs[k]; !ok {
			add("escaped-index", "main store has oid->hash entry %s for an object that is not in the store", k)
		}
	}
	// reachability from package objects
	reach := map[string]bool{}
	var stack []string
	for _, id := range ids {
		if objs[id].isPkg {
			reach[id] = true
			stack = append(stack, id)
		}
	}
	for len(stack) > 0 {
		id := stack[len(stack)-1]
		stack = stack[:len(stack)-1]
		for _, t := range objs[id].edges {
			if _, ok := objs[t]; ok && !reach[t] {
				reach[t] = true
				stack = append(stack, t)
			}
		}
	}
	for _, id := range ids {
		if reach[id] {
			continue
		}
		// unreachable: acceptable only as garbage kept alive by a reference cycle, i.e. it must be referenced by
		// another unreachable object
		fromUnreach := false
		for _, h := range holders[id] {
			if !reach[h] {
				fromUnreach = true
			}
		}
		if !fromUnreach {
			add("unreachable", "%s is not reachable from any package object and not kept by a reference cycle", id)
		}
	}
	return issues
}

func sha256Sum(s string) [32]byte { return sha256.Sum256([]byte(s)) }
