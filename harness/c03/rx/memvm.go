package rx

import (
	"fmt"
	"io"
	"sync"

	"github.com/gnolang/gno/gnovm/pkg/gnolang"
	"github.com/gnolang/gno/tm2/pkg/db/memdb"
	"github.com/gnolang/gno/tm2/pkg/std"
	"github.com/gnolang/gno/tm2/pkg/store/dbadapter"
	stypes "github.com/gnolang/gno/tm2/pkg/store/types"
)

// LastMemPanic keeps the last panic of an in-memory run (diagnostics).
var LastMemPanic string

// MemVM runs a family's logic in the real GnoVM with NO persistence at all: the logic file is loaded as a
// non-realm package into one machine and every op sequence is evaluated inside that machine from reset().
// This is the "single in-memory execution" the property statement compares against.
type MemVM struct {
	mu  sync.Mutex
	m   *gnolang.Machine
	ref map[string]RefEntry
}

const memRunner = `package %s

func memrun(ops string) string {
	reset()
	out := ""
	for i := 0; i < len(ops); i++ {
		out += op(ops[i]) + ";"
	}
	return out + "#" + dump()
}
`

func NewMemVM(f *Family) (vm *MemVM, err error) {
	defer func() {
		if r := recover(); r != nil {
			err = fmt.Errorf("memvm %s: %v", f.Name, r)
		}
	}()
	db := memdb.NewMemDB()
	bs := dbadapter.StoreConstructor(db, stypes.StoreOptions{})
	st := gnolang.NewStore(nil, bs, bs)
	path := "gno.land/p/verif/" + f.Name
	m := gnolang.NewMachineWithOptions(gnolang.MachineOptions{PkgPath: path, Store: st, Output: io.Discard})
	_, pv := m.RunMemPackage(&std.MemPackage{
		Type: gnolang.MPUserProd, Name: f.Name, Path: path,
		Files: []*std.MemFile{{Name: "logic.gno", Body: f.Logic}, {Name: "memrun.gno", Body: fmt.Sprintf(memRunner, f.Name)}},
	}, false)
	m.SetActivePackage(pv)
	return &MemVM{m: m, ref: map[string]RefEntry{}}, nil
}

// Ref evaluates the sequence in memory; ok=false if the VM panicked.
func (v *MemVM) Ref(seq string) (e RefEntry, ok bool) {
	v.mu.Lock()
	defer v.mu.Unlock()
	if e, ok := v.ref[seq]; ok {
		return e, e.Dump != "\x00panic"
	}
	var out string
	func() {
		defer func() {
			if r := recover(); r != nil {
				out = ""
				LastMemPanic = fmt.Sprint(r)
			}
		}()
		res := v.m.Eval(gnolang.Call(gnolang.X("memrun"), gnolang.Str(seq)))
		if len(res) == 1 {
			out = res[0].GetString()
		}
	}()
	rets, dump, pok := ParseDo(out)
	if !pok || len(rets) != len(seq) {
		v.ref[seq] = RefEntry{Dump: "\x00panic"}
		return RefEntry{}, false
	}
	e = RefEntry{Rets: rets, Dump: dump}
	v.ref[seq] = e
	return e, true
}
