// Package rx is the realm-program explorer shared by the C03/C06/C07 harnesses (engine E7 of the design):
// purpose-built realms are deployed at genesis on the real gno.land application (engine chainx); every
// transaction goes through the unmodified DeliverTx path; the explorer snapshots/rolls back the deliver
// state between transactions (chainx.Push) so that a tree of transaction histories is explored without
// re-creating the chain.
package rx

import (
	"fmt"
	"strconv"
	"strings"
	"sync/atomic"
	"time"

	"github.com/gnolang/gno/gnovm/pkg/gnolang"
	"github.com/gnolang/gno/tm2/pkg/amino"
	abci "github.com/gnolang/gno/tm2/pkg/bft/abci/types"
	"github.com/gnolang/gno/tm2/pkg/db/memdb"
	"github.com/gnolang/gno/tm2/pkg/std"
	"verif/engine/chainx"
)

// Pkg is a package deployed at genesis.
type Pkg struct {
	Path  string
	Files map[string]string
}

// TxNanos accumulates the wall time spent inside DeliverTx (all workers).
var TxNanos atomic.Int64

type Env struct {
	C    *chainx.Chain
	A, B chainx.Key
	Keys []chainx.Key
	NTx  int64
	// AutoCommit: every transaction is delivered in its own block which is committed (no open block, no Push).
	AutoCommit bool
}

// NewEnvCommitted is NewEnv for confirmation runs: no block is left open, every tx gets its own committed block.
func NewEnvCommitted(pkgs []Pkg) (*Env, error) {
	e, err := NewEnv(pkgs)
	if err != nil {
		return nil, err
	}
	e.C.EndBlockCommit()
	e.AutoCommit = true
	return e, nil
}

// NewEnv creates a chain with pkgs deployed at genesis (in order) and opens block 1 (never committed:
// the explorer works inside it with Push/pop snapshots).
func NewEnv(pkgs []Pkg) (*Env, error) {
	e := &Env{A: chainx.NewKey("A"), B: chainx.NewKey("B")}
	e.Keys = []chainx.Key{e.A, e.B}
	spec := chainx.Spec{Keys: e.Keys, Fund: 1_000_000_000_000_000, MaxGas: -1}
	for _, p := range pkgs {
		spec.GenesisTxs = append(spec.GenesisTxs, std.Tx{
			Msgs:       []std.Msg{chainx.AddPkg(e.A.Addr, p.Path, p.Files)},
			Fee:        std.NewFee(300_000_000, std.NewCoin("ugnot", 1_000_000)),
			Signatures: []std.Signature{{}},
		})
	}
	c, err := chainx.New(memdb.NewMemDB(), spec)
	if err != nil {
		return nil, err
	}
	for i, tr := range c.Init.TxResponses {
		if tr.Error != nil {
			return nil, fmt.Errorf("genesis tx %d (%s) failed: %v\n%s", i, pkgs[i].Path, tr.Error, tr.Log)
		}
	}
	e.C = c
	c.BeginBlock()
	return e, nil
}

type Res struct {
	OK   bool
	Data string // raw result data
	Log  string
	Gas  int64
	Raw  abci.ResponseDeliverTx
}

func (e *Env) deliver(msg std.Msg) Res {
	tx := e.C.MakeTx(e.Keys, []std.Msg{msg}, chainx.TxOpt{GasWanted: 200_000_000})
	t0 := time.Now()
	if e.AutoCommit {
		e.C.BeginBlock()
	}
	r := e.C.DeliverTx(tx)
	if e.AutoCommit {
		e.C.EndBlockCommit()
	}
	TxNanos.Add(int64(time.Since(t0)))
	e.NTx++
	return Res{OK: r.Error == nil, Data: string(r.Data), Log: r.Log, Gas: r.GasUsed, Raw: r}
}

// Call delivers one tx with one MsgCall signed by key A.
func (e *Env) Call(pkg, fn string, args ...string) Res {
	return e.deliver(chainx.Call(e.A.Addr, nil, pkg, fn, args...))
}

// CallAs delivers one tx with one MsgCall signed by k.
func (e *Env) CallAs(k chainx.Key, pkg, fn string, args ...string) Res {
	return e.deliver(chainx.Call(k.Addr, nil, pkg, fn, args...))
}

// Run delivers one tx with one MsgRun signed by key A.
func (e *Env) Run(body string) Res { return e.deliver(chainx.Run(e.A.Addr, nil, body)) }

// AddPkg delivers one tx with one MsgAddPackage signed by key A.
func (e *Env) AddPkg(path string, files map[string]string) Res {
	return e.deliver(chainx.AddPkg(e.A.Addr, path, files))
}

// Push snapshots the chain; the returned function rolls back to the snapshot.
func (e *Env) Push() func() { return e.C.Push() }

// Str extracts the single string result of a MsgCall: `("..." string)`.
func (r Res) Str() (string, bool) {
	d := strings.TrimSpace(r.Data)
	if !strings.HasPrefix(d, "(") || !strings.HasSuffix(d, " string)") {
		return "", false
	}
	q := strings.TrimSuffix(strings.TrimPrefix(d, "("), " string)")
	s, err := strconv.Unquote(q)
	if err != nil {
		return "", false
	}
	return s, true
}

// FirstLine abbreviates a log.
func FirstLine(s string) string {
	if i := strings.IndexByte(s, '\n'); i >= 0 {
		s = s[:i]
	}
	if len(s) > 300 {
		s = s[:300]
	}
	return s
}

// RealmTime decodes the persisted realm record of a package and returns its object-id counter.
func (e *Env) RealmTime(path string) (uint64, bool) {
	v, ok := e.C.Get("base", "oid:"+PkgID(path)+":1#realm")
	if !ok {
		return 0, false
	}
	var rlm gnolang.Realm
	if err := amino.Unmarshal([]byte(v), &rlm); err != nil {
		return 0, false
	}
	return rlm.Time, true
}

// Objects returns the persisted objects of a package ("<pkgid>:<n>" -> stored bytes) by point reads of every
// id up to the realm's counter (store iteration on memdb sorts the whole key space on every call).
// /p/ packages have no realm record: ids are probed until 64 consecutive misses.
func (e *Env) Objects(path string) map[string]string {
	pid := PkgID(path)
	out := map[string]string{}
	t, ok := e.RealmTime(path)
	if ok {
		for n := uint64(1); n <= t+8; n++ {
			id := fmt.Sprintf("%s:%d", pid, n)
			if v, ok := e.C.Get("base", "oid:"+id); ok {
				out[id] = v
			}
		}
		return out
	}
	miss := 0
	for n := uint64(1); miss < 64; n++ {
		id := fmt.Sprintf("%s:%d", pid, n)
		if v, ok := e.C.Get("base", "oid:"+id); ok {
			out[id] = v
			miss = 0
		} else {
			miss++
		}
	}
	return out
}
