package s11

import (
	_ "embed"

	"verif/harness/c03/rx"
)

//go:embed logic.go
var logic string

// Family s11 exists for C06 only (registered in shapes.AllC06): in-place element shifts of stored slices of
// pointers / maps / interface values through append and copy, each followed by further ops in later transactions.
func Family() *rx.Family {
	return &rx.Family{
		Name: "s11", Path: "gno.land/r/verif/s11", Logic: logic,
		Ops: "acdbekgfhlmi", QuickN: 8,
		Desc: map[byte]string{
			'a': "s=append(s[:1],s[2:]...) (remove idiom, i=1)", 'b': "s=append(s[:0],s[1:]...) (i=0)", 'f': "s=append(s[:n-2],s[n-1:]...) (i=n-2)",
			'c': "s=append(s,fresh) (into spare capacity if any: overwrites the stale tail slot)", 'd': "copy(s[1:],s[2:]); s=s[:n-1] (stale tail slot kept)",
			'h': "copy(s[0:],s[1:]); s[n-1]=nil; s=s[:n-1]", 'i': "copy(s[2:],s[3:]); s=s[:n-1]", 'e': "s=s[:n-1] (truncate)", 'k': "keep=ps[1] (share an element)", 'l': "keep=nil",
			'g': "s=append(s[:2],s[1:]...); s[1]=fresh (insert shift)", 'm': "write through every element",
		},
		Reset: reset, Op: op, Dump: dump,
	}
}
