package s11

// Shape S11 (C06 only): IN-PLACE ELEMENT SHIFTS of stored slices whose elements are objects — a slice of pointers
// ([]*T), a slice of maps ([]map[int]int) and a slice of interface values holding pointers ([]any) — through the
// builtins: the remove idiom append(s[:i], s[i+1:]...) for every i, copy(s[i:], s[i+1:]) with and without clearing
// the stale tail slot, the insert shift append(s[:i+1], s[i:]...), truncation, and appends into the spare capacity
// left behind (which overwrite the stale tail slot). One element can additionally be shared with a global.
// Every op applies the same surgery to all three slices. Initial length 4, capacity 5.

type T struct{ V int }

var (
	ps   []*T
	ms   []map[int]int
	as   []any
	keep *T
	next int
)

func fresh() *T {
	next++
	return &T{V: next}
}

func freshm() map[int]int {
	next++
	return map[int]int{0: next}
}

func reset() {
	next = 0
	ps = make([]*T, 0, 5)
	ms = make([]map[int]int, 0, 5)
	as = make([]any, 0, 5)
	for i := 0; i < 4; i++ {
		ps = append(ps, fresh())
		ms = append(ms, freshm())
		as = append(as, fresh())
	}
	keep = nil
}

func init() { reset() }

func itoa(n int) string {
	if n == 0 {
		return "0"
	}
	neg := n < 0
	if neg {
		n = -n
	}
	s := ""
	for n > 0 {
		s = string(rune(48+n%10)) + s
		n /= 10
	}
	if neg {
		s = "-" + s
	}
	return s
}

// removeAt: the remove idiom through append (source and destination share the backing array).
func removeAt(i int) string {
	if i < 0 || i >= len(ps) {
		return "-"
	}
	ps = append(ps[:i], ps[i+1:]...)
	ms = append(ms[:i], ms[i+1:]...)
	as = append(as[:i], as[i+1:]...)
	return itoa(len(ps))
}

// copyShift: the remove idiom through copy; clear says whether the stale tail slot is nil-ed before truncation.
func copyShift(i int, clear bool) string {
	n := len(ps)
	if i < 0 || i >= n {
		return "-"
	}
	c := copy(ps[i:], ps[i+1:])
	copy(ms[i:], ms[i+1:])
	copy(as[i:], as[i+1:])
	if clear {
		ps[n-1] = nil
		ms[n-1] = nil
		as[n-1] = nil
	}
	ps = ps[:n-1]
	ms = ms[:n-1]
	as = as[:n-1]
	return itoa(c)
}

// insertAt: the insert shift through append (overlapping, towards the tail) when there is spare capacity,
// a reallocating append otherwise; then the slot is overwritten with a fresh element.
func insertAt(i int) string {
	if i < 0 || i >= len(ps) {
		return "-"
	}
	ps = append(ps[:i+1], ps[i:]...)
	ps[i] = fresh()
	ms = append(ms[:i+1], ms[i:]...)
	ms[i] = freshm()
	as = append(as[:i+1], as[i:]...)
	as[i] = fresh()
	return itoa(len(ps))
}

func op(c byte) string {
	switch c {
	case 'a':
		return removeAt(1)
	case 'c': // append (into the spare capacity when there is some: overwrites a stale tail slot)
		ps = append(ps, fresh())
		ms = append(ms, freshm())
		as = append(as, fresh())
		return itoa(len(ps)) + "/" + itoa(cap(ps))
	case 'd':
		return copyShift(1, false)
	case 'b':
		return removeAt(0)
	case 'e': // truncation (the tail slot keeps its element)
		if len(ps) == 0 {
			return "-"
		}
		ps = ps[:len(ps)-1]
		ms = ms[:len(ms)-1]
		as = as[:len(as)-1]
		return itoa(len(ps))
	case 'k': // share one element with a global (escapes)
		if len(ps) < 2 {
			return "-"
		}
		keep = ps[1]
		return itoa(keep.V)
	case 'g':
		return insertAt(1)
	case 'f':
		return removeAt(len(ps) - 2)
	case 'h':
		return copyShift(0, true)
	case 'l':
		keep = nil
		return "nil"
	case 'm': // write through every element (all of them must still exist)
		t := 0
		for i := range ps {
			ps[i].V += 100
			ms[i][0] += 100
			as[i].(*T).V += 100
			t += ps[i].V
		}
		return itoa(t)
	case 'i':
		return copyShift(2, false)
	}
	return "?"
}

func dump() string {
	r := "ps=" + itoa(len(ps)) + "/" + itoa(cap(ps)) + "["
	for i := range ps {
		r += itoa(ps[i].V) + ","
	}
	r += "] ms=" + itoa(len(ms)) + "["
	for i := range ms {
		r += itoa(ms[i][0]) + ","
	}
	r += "] as=" + itoa(len(as)) + "["
	for i := range as {
		r += itoa(as[i].(*T).V) + ","
	}
	r += "] keep="
	if keep == nil {
		r += "nil"
	} else {
		r += itoa(keep.V)
	}
	return r + " next=" + itoa(next)
}
