// Package x2 is the two-realm ownership family of C06: realm "own" (explored), realm "other" (stores objects
// handed over / hands out objects it allocated) and the /p/ library declaring the shared types.
package x2

import (
	_ "embed"

	"verif/harness/c03/rx"
)

//go:embed lib.gno.txt
var lib string

//go:embed other.gno.txt
var other string

//go:embed own.gno.txt
var own string

//go:embed wrap.gno.txt
var wrap string

func Family() *rx.Family {
	return &rx.Family{
		Name: "own", Path: "gno.land/r/verif/own", Logic: own, Wrapper: wrap, NoRef: true,
		Ops: "abdgichefklmnjop", QuickN: 6,
		Desc: map[byte]string{'a': "a=&Item{fresh}", 'b': "b=a (share)", 'c': "b=nil (unshare)", 'd': "box.It=a;a=nil (move owner in one tx)", 'e': "a=&Item{Next:x};b=x;a=nil (delete parent of shared child)",
			'f': "box.It=fresh;box.It=nil (create+delete in one tx)", 'g': "other.Keep(a)", 'h': "other.Drop()", 'i': "fromOther=other.Make()", 'j': "fromOther=nil",
			'k': "a=cycle of two", 'l': "a.Next=nil;a=nil", 'm': "other.Push(fresh);b=fresh", 'n': "other.Pop()", 'o': "fromOther=other.MakeKept();a.Next=fromOther", 'p': "a=box.It;box.It=nil"},
		Extra: []rx.Pkg{
			{Path: "gno.land/p/verif/lib", Files: map[string]string{"lib.gno": lib}},
			{Path: "gno.land/r/verif/other", Files: map[string]string{"other.gno": other}},
		},
		ExtraPaths: []string{"gno.land/r/verif/other", "gno.land/p/verif/lib"},
	}
}
