package s2

// Shape S2: [3]T array with two *T pointing into it, an array copy, and pointers re-pointed between the arrays.

type T struct{ V int }

var (
	arr  [3]T
	cp   [3]T
	p, q *T
	cnt  int
)

func reset() {
	arr = [3]T{{V: 1}, {V: 2}, {V: 3}}
	cp = [3]T{}
	p = &arr[0]
	q = &arr[1]
	cnt = 0
}

func init() { reset() }

func itoa(n int) string {
	if n == 0 {
		return "0"
	}
	neg := n < 0
	if neg {
		n = -n
	}
	s := ""
	for n > 0 {
		s = string(rune(48+n%10)) + s
		n /= 10
	}
	if neg {
		s = "-" + s
	}
	return s
}

func op(c byte) string {
	switch c {
	case 'a': // write through pointer P
		if p == nil {
			return "nil"
		}
		p.V++
		return itoa(p.V)
	case 'b': // write through pointer Q
		if q == nil {
			return "nil"
		}
		q.V += 10
		return itoa(q.V)
	case 'c': // direct element write
		arr[1].V += 100
		return itoa(arr[1].V)
	case 'd': // re-point P inside the array
		p = &arr[2]
		return "ok"
	case 'e': // alias
		q = p
		return "ok"
	case 'f': // copy the array value out
		cp = arr
		return itoa(cp[0].V + cp[1].V + cp[2].V)
	case 'g': // copy back (in place: pointers into arr stay valid)
		arr = cp
		return itoa(arr[0].V + arr[1].V + arr[2].V)
	case 'h': // re-point P into the other array
		p = &cp[0]
		return "ok"
	case 'i': // replace an element wholesale
		cnt++
		arr[0] = T{V: 1000 * cnt}
		return itoa(arr[0].V)
	case 'j': // swap pointers
		p, q = q, p
		return "ok"
	case 'k': // nil out
		p = nil
		return "ok"
	case 'l': // pointer to a fresh heap object
		cnt++
		q = &T{V: 7 * cnt}
		return itoa(q.V)
	}
	return "?"
}

func where(x *T) string {
	if x == nil {
		return "nil"
	}
	for i := 0; i < 3; i++ {
		if x == &arr[i] {
			return "arr" + itoa(i)
		}
		if x == &cp[i] {
			return "cp" + itoa(i)
		}
	}
	return "heap{" + itoa(x.V) + "}"
}

func dump() string {
	s := "arr="
	for i := 0; i < 3; i++ {
		s += itoa(arr[i].V) + ","
	}
	s += " cp="
	for i := 0; i < 3; i++ {
		s += itoa(cp[i].V) + ","
	}
	s += " p=" + where(p) + " q=" + where(q)
	if p != nil && q != nil && p == q {
		s += " p==q"
	}
	return s + " cnt=" + itoa(cnt)
}
