package s2

import (
	_ "embed"

	"verif/harness/c03/rx"
)

//go:embed logic.go
var logic string

func Family() *rx.Family {
	return &rx.Family{
		Name: "s2", Path: "gno.land/r/verif/s2", Logic: logic,
		Ops: "afcdbgehijkl",
		Desc: map[byte]string{'a': "p.V++", 'b': "q.V+=10", 'c': "arr[1].V+=100", 'd': "p=&arr[2]", 'e': "q=p", 'f': "cp=arr", 'g': "arr=cp",
			'h': "p=&cp[0]", 'i': "arr[0]=T{fresh}", 'j': "p,q=q,p", 'k': "p=nil", 'l': "q=&T{fresh}"},
		Reset: reset, Op: op, Dump: dump,
	}
}
