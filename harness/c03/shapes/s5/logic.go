package s5

// Shape S5: maps with declared-type keys (struct, named int, array) and interface keys of mixed dynamic types,
// map of maps, map with struct VALUES (copy semantics).

type K struct {
	A int
	B string
}

type E int

type V struct{ N int }

var (
	mk  map[K]int
	ma  map[interface{}]string
	me  map[E]*V
	mv  map[string]V
	mm  map[string]map[E]int
	cnt int
)

func reset() {
	mk = map[K]int{K{1, "x"}: 1}
	ma = map[interface{}]string{1: "int1", "1": "str1"}
	me = map[E]*V{E(3): &V{N: 3}}
	mv = map[string]V{"p": V{N: 7}}
	mm = map[string]map[E]int{"in": map[E]int{E(1): 1}}
	cnt = 0
}

func init() { reset() }

func itoa(n int) string {
	if n == 0 {
		return "0"
	}
	neg := n < 0
	if neg {
		n = -n
	}
	s := ""
	for n > 0 {
		s = string(rune(48+n%10)) + s
		n /= 10
	}
	if neg {
		s = "-" + s
	}
	return s
}

func op(c byte) string {
	switch c {
	case 'a': // increment under a struct key
		mk[K{1, "x"}]++
		return itoa(mk[K{1, "x"}])
	case 'b': // insert a new struct key
		cnt++
		mk[K{2, "y"}] = cnt
		return itoa(len(mk))
	case 'c': // delete a struct key
		delete(mk, K{1, "x"})
		return itoa(len(mk))
	case 'd': // interface keys of several dynamic types that print alike
		ma[K{1, "x"}] = "K"
		ma[E(1)] = "E1"
		ma[[2]int{1, 2}] = "arr"
		ma[true] = "bool"
		return itoa(len(ma))
	case 'e': // delete the int key 1 (must not touch "1", E(1))
		delete(ma, 1)
		return itoa(len(ma))
	case 'f': // overwrite under interface key
		ma["1"] += "+"
		ma[E(1)] += "!"
		return ma["1"] + ma[E(1)]
	case 'g': // write through pointer value under a named-int key
		v := me[E(3)]
		if v == nil {
			return "nil"
		}
		v.N += 10
		return itoa(v.N)
	case 'h': // add / replace pointer value
		cnt++
		me[E(cnt)] = &V{N: 100 * cnt}
		return itoa(len(me))
	case 'i': // struct VALUE in a map: read-modify-write
		t := mv["p"]
		t.N++
		mv["p"] = t
		mv["q"] = t
		return itoa(mv["p"].N + mv["q"].N)
	case 'j': // nested map write
		in := mm["in"]
		if in == nil {
			in = map[E]int{}
			mm["in"] = in
		}
		in[E(1)] += 5
		in[E(2)]++
		return itoa(in[E(1)] + in[E(2)])
	case 'k': // drop the nested map, create another one
		delete(mm, "in")
		mm["other"] = map[E]int{E(9): 9}
		return itoa(len(mm))
	case 'l': // delete pointer key
		delete(me, E(3))
		return itoa(len(me))
	}
	return "?"
}

func dump() string {
	r := "mk=" + itoa(len(mk)) + "["
	for _, k := range []K{{1, "x"}, {2, "y"}, {1, "y"}} {
		if v, ok := mk[k]; ok {
			r += itoa(k.A) + k.B + ":" + itoa(v) + ","
		}
	}
	r += "] ma=" + itoa(len(ma)) + "["
	probes := []interface{}{1, "1", K{1, "x"}, E(1), [2]int{1, 2}, true, int8(1)}
	for i, k := range probes {
		if v, ok := ma[k]; ok {
			r += itoa(i) + ":" + v + ","
		}
	}
	r += "] me=" + itoa(len(me)) + "["
	for i := 0; i <= 8; i++ {
		if v, ok := me[E(i)]; ok {
			if v == nil {
				r += itoa(i) + ":nil,"
			} else {
				r += itoa(i) + ":" + itoa(v.N) + ","
			}
		}
	}
	r += "] mv=" + itoa(len(mv)) + "["
	for _, k := range []string{"p", "q"} {
		if v, ok := mv[k]; ok {
			r += k + ":" + itoa(v.N) + ","
		}
	}
	r += "] mm=" + itoa(len(mm)) + "["
	for _, k := range []string{"in", "other"} {
		if in, ok := mm[k]; ok {
			r += k + "{"
			for i := 0; i <= 9; i++ {
				if v, ok := in[E(i)]; ok {
					r += itoa(i) + ":" + itoa(v) + ","
				}
			}
			r += "}"
		}
	}
	return r + "] cnt=" + itoa(cnt)
}
