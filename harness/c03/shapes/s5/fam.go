package s5

import (
	_ "embed"

	"verif/harness/c03/rx"
)

//go:embed logic.go
var logic string

func Family() *rx.Family {
	return &rx.Family{
		Name: "s5", Path: "gno.land/r/verif/s5", Logic: logic,
		Ops: "adeigjbcfhkl",
		Desc: map[byte]string{'a': "mk[K{1,x}]++", 'b': "mk[K{2,y}]=cnt", 'c': "delete(mk,K{1,x})", 'd': "ma[K..]=,ma[E(1)]=,ma[[2]int]=,ma[true]=", 'e': "delete(ma,1)",
			'f': "ma[\"1\"]+=;ma[E(1)]+=", 'g': "me[E(3)].N+=10", 'h': "me[E(cnt)]=&V{fresh}", 'i': "t:=mv[p];t.N++;mv[p]=t;mv[q]=t", 'j': "mm[in][E(1)]+=5", 'k': "delete(mm,in);mm[other]=map", 'l': "delete(me,E(3))"},
		Reset: reset, Op: op, Dump: dump,
	}
}
