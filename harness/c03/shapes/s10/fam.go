package s10

import (
	_ "embed"

	"verif/harness/c03/rx"
)

//go:embed logic.go
var logic string

func Family() *rx.Family {
	return &rx.Family{
		Name: "s10", Path: "gno.land/r/verif/s10", Logic: logic,
		Ops: "abcdepjlfghi",
		Desc: map[byte]string{
			'a': "c:=append([]E(nil),items...); c[0].A=701 (same for [][2]int)", 'b': "c:=append(items[:n:n],E{}) (grow); c[1].A=702", 'c': "c:=make+copy(c,items); c[2].A=703",
			'e': "for _,e:=range items {e.A=705}", 'p': "out=append([]E(nil),items...) (persist a clone, once)", 'j': "out[0].A=710 (write through the persisted clone)", 'l': "out=nil (release the clone)",
			'd': "c:=append(make([]E,0,8),items...); c[0].A=704", 'f': "x:=items[1]; x.A=706; keep=x", 'g': "items[1].A=22 (write the original)", 'h': "c:=append(items[:2],E{}) in place; c[0].A=718 (legit alias)", 'i': "c:=append(items,items...); c[0].A=709",
		},
		Reset: reset, Op: op, Dump: dump,
	}
}
