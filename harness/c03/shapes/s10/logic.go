package s10

// Shape S10: builtins that must COPY composite elements (append in its nil / grow / spare-capacity branches, copy,
// range value copies, element value copies) applied to a stored slice of struct values and a stored slice of array
// values, followed by a write through the result and a read of the original. The element struct is flat (no nested
// struct/array field).

type E struct {
	A int
	S string
}

var (
	items []E
	arrs  [][2]int
	out   []E
	outa  [][2]int
	keep  E
	keepa [2]int
)

func reset() {
	items = make([]E, 3, 4)
	items[0] = E{A: 1, S: "a"}
	items[1] = E{A: 2, S: "b"}
	items[2] = E{A: 3, S: "c"}
	arrs = [][2]int{{1, 2}, {3, 4}}
	out = nil
	outa = nil
	keep = E{}
	keepa = [2]int{}
}

func init() { reset() }

func itoa(n int) string {
	if n == 0 {
		return "0"
	}
	neg := n < 0
	if neg {
		n = -n
	}
	s := ""
	for n > 0 {
		s = string(rune(48+n%10)) + s
		n /= 10
	}
	if neg {
		s = "-" + s
	}
	return s
}

// sum reads the ORIGINAL lists.
func sum() string {
	t := 0
	for i := range items {
		t += items[i].A
	}
	for i := range arrs {
		t += arrs[i][0] + arrs[i][1]
	}
	return itoa(t)
}

func op(c byte) string {
	switch c {
	case 'a': // clone idiom: append to a nil slice
		cl := append([]E(nil), items...)
		cl[0].A = 701
		ca := append([][2]int(nil), arrs...)
		ca[0][0] = 711
		return sum() + "/" + itoa(cl[0].A+ca[0][0])
	case 'b': // append over capacity (new backing array)
		cl := append(items[:len(items):len(items)], E{A: 5, S: "n"})
		cl[1].A = 702
		ca := append(arrs[:len(arrs):len(arrs)], [2]int{5, 6})
		ca[1][1] = 712
		return sum() + "/" + itoa(cl[1].A+ca[1][1])
	case 'c': // copy builtin
		cl := make([]E, len(items))
		copy(cl, items)
		cl[2].A = 703
		ca := make([][2]int, len(arrs))
		copy(ca, arrs)
		ca[0][1] = 713
		return sum() + "/" + itoa(cl[2].A+ca[0][1])
	case 'e': // range value copies
		t := 0
		for _, e := range items {
			e.A = 705
			t += e.A
		}
		for _, ar := range arrs {
			ar[0] = 715
			t += ar[0]
		}
		return sum() + "/" + itoa(t)
	case 'p': // persist a clone (once)
		if out != nil {
			return "set"
		}
		out = append([]E(nil), items...)
		outa = append([][2]int(nil), arrs...)
		return sum()
	case 'j': // write through the persisted clone
		if len(out) > 0 {
			out[0].A = 710
		}
		if len(outa) > 0 {
			outa[0][0] = 720
		}
		return sum()
	case 'l': // release the clone
		out = nil
		outa = nil
		return sum()
	case 'd': // append into spare capacity of a fresh destination
		cl := append(make([]E, 0, 8), items...)
		cl[0].A = 704
		ca := append(make([][2]int, 0, 8), arrs...)
		ca[1][0] = 714
		return sum() + "/" + itoa(cl[0].A+ca[1][0])
	case 'f': // element value copies
		x := items[1]
		x.A = 706
		keep = x
		y := arrs[1]
		y[1] = 716
		keepa = y
		return sum()
	case 'g': // write the original
		items[1].A = 22
		arrs[1][0] = 33
		return sum()
	case 'h': // append within capacity: legitimately shares the backing array
		cl := append(items[:2], E{A: 708, S: "h"})
		cl[0].A = 718
		return sum() + "/" + itoa(len(cl))
	case 'i': // self-append over capacity
		cl := append(items, items...)
		cl[0].A = 709
		ca := append(arrs, arrs...)
		ca[0][0] = 719
		return sum() + "/" + itoa(len(cl)+len(ca))
	}
	return "?"
}

func showE(x []E, orig []E) string {
	if x == nil {
		return "nil"
	}
	r := itoa(len(x)) + "["
	for i := 0; i < len(x); i++ {
		r += itoa(x[i].A) + x[i].S + ","
	}
	r += "]"
	if len(x) > 0 && len(orig) > 0 && &x[0] == &orig[0] {
		r += "=orig"
	}
	return r
}

func showA(x [][2]int, orig [][2]int) string {
	if x == nil {
		return "nil"
	}
	r := itoa(len(x)) + "["
	for i := 0; i < len(x); i++ {
		r += itoa(x[i][0]) + ":" + itoa(x[i][1]) + ","
	}
	r += "]"
	if len(x) > 0 && len(orig) > 0 && &x[0] == &orig[0] {
		r += "=orig"
	}
	return r
}

func dump() string {
	return "items=" + itoa(cap(items)) + "/" + showE(items, nil) + " arrs=" + showA(arrs, nil) + " out=" + showE(out, items) + " outa=" + showA(outa, arrs) +
		" keep=" + itoa(keep.A) + keep.S + " keepa=" + itoa(keepa[0]) + ":" + itoa(keepa[1])
}
