package s3

import (
	_ "embed"

	"verif/harness/c03/rx"
)

//go:embed logic.go
var logic string

func Family() *rx.Family {
	return &rx.Family{
		Name: "s3", Path: "gno.land/r/verif/s3", Logic: logic,
		Ops: "bcdeafghlijk",
		Desc: map[byte]string{'a': "s[0]++", 'b': "t[0]+=10", 'c': "s=append(s,x) (within cap if room)", 'd': "t=append(t[:len:len],x) (over cap)", 'e': "s=s[1:]",
			'f': "t=t[:cap(t)]", 'g': "t=s", 'h': "copy(s,t)", 'i': "s=s[:1]", 'j': "s=nil", 'k': "s,t=t,s", 'l': "base[1]+=100"},
		Reset: reset, Op: op, Dump: dump,
	}
}
