package s3

// Shape S3: two slices sharing a backing array (one re-sliced past the other's length), appends within and
// over capacity, re-slicing, copy.

var (
	base []int
	s, t []int
	cnt  int
)

func reset() {
	base = make([]int, 3, 6)
	base[0], base[1], base[2] = 1, 2, 3
	s = base[0:2]
	t = base[1:3]
	cnt = 0
}

func init() { reset() }

func itoa(n int) string {
	if n == 0 {
		return "0"
	}
	neg := n < 0
	if neg {
		n = -n
	}
	s := ""
	for n > 0 {
		s = string(rune(48+n%10)) + s
		n /= 10
	}
	if neg {
		s = "-" + s
	}
	return s
}

func op(c byte) string {
	switch c {
	case 'a': // write through slice S
		if len(s) == 0 {
			return "empty"
		}
		s[0]++
		return itoa(s[0])
	case 'b': // write through slice T
		if len(t) == 0 {
			return "empty"
		}
		t[0] += 10
		return itoa(t[0])
	case 'c': // append to S within capacity when there is room (overwrites what T sees), else over capacity
		cnt++
		if len(s) < cap(s) {
			s = append(s, 50+cnt)
		} else {
			s = append(s, 50+cnt)
			s = s[:len(s):len(s)] // growth policy is implementation-defined: clip
		}
		return itoa(len(s))
	case 'd': // forced over-capacity append to T: detaches T from the shared array
		cnt++
		t = append(t[:len(t):len(t)], 70+cnt)
		t = t[:len(t):len(t)]
		return itoa(len(t))
	case 'e': // re-slice S from the front
		if len(s) == 0 {
			return "empty"
		}
		s = s[1:]
		return itoa(len(s))
	case 'f': // extend T to its full capacity (reveals elements written through others)
		t = t[:cap(t)]
		return itoa(len(t))
	case 'g': // alias
		t = s
		return "ok"
	case 'h': // copy overlapping
		n := copy(s, t)
		return itoa(n)
	case 'i': // shrink S to length 1 (keeps capacity)
		if len(s) > 1 {
			s = s[:1]
		}
		return itoa(len(s))
	case 'j': // nil out
		s = nil
		return "ok"
	case 'k': // swap
		s, t = t, s
		return "ok"
	case 'l': // write through the base slice
		base[1] += 100
		return itoa(base[1])
	}
	return "?"
}

func show(x []int) string {
	if x == nil {
		return "nil"
	}
	r := itoa(len(x)) + "/" + itoa(cap(x)) + "["
	f := x[:cap(x)]
	for i := 0; i < len(f); i++ {
		r += itoa(f[i]) + ","
	}
	r += "]"
	// where does it start relative to base?
	if cap(x) > 0 {
		fb := base[:cap(base)]
		for i := 0; i < len(fb); i++ {
			if &fb[i] == &f[0] {
				r += "@base+" + itoa(i)
			}
		}
	}
	return r
}

func dump() string {
	r := "base=" + show(base) + " s=" + show(s) + " t=" + show(t)
	if cap(s) > 0 && cap(t) > 0 {
		fs, ft := s[:cap(s)], t[:cap(t)]
		for i := 0; i < len(fs); i++ {
			if &fs[i] == &ft[0] {
				r += " t@s+" + itoa(i)
			}
		}
		for i := 1; i < len(ft); i++ {
			if &ft[i] == &fs[0] {
				r += " s@t+" + itoa(i)
			}
		}
	}
	return r + " cnt=" + itoa(cnt)
}
