package s6

import (
	_ "embed"

	"verif/harness/c03/rx"
)

//go:embed logic.go
var logic string

func Family() *rx.Family {
	return &rx.Family{
		Name: "s6", Path: "gno.land/r/verif/s6", Logic: logic,
		Ops: "acdebfghijkl",
		Desc: map[byte]string{'a': "inc()", 'b': "peek()", 'c': "g=inc", 'd': "g()", 'e': "inc,peek=mk(fresh)", 'f': "fns[1]() (loop var)", 'g': "fns[0]=inc",
			'h': "fns[0]()", 'i': "g=closure over local *T, writes global", 'j': "g=nested closures", 'k': "fns=append(fns[:1],fns[2:]...)", 'l': "peek=nil"},
		Reset: reset, Op: op, Dump: dump,
	}
}
