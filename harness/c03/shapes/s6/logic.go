package s6

// Shape S6: closures capturing heap items (shared captured variable, loop variable, captured pointer),
// closure aliases, slices of closures.

type T struct{ V int }

var (
	inc, peek func() int
	g         func() int
	fns       []func() int
	acc       int
	cnt       int
)

func mk(start int) (func() int, func() int) {
	c := start
	return func() int { c++; return c }, func() int { return c }
}

func reset() {
	inc, peek = mk(0)
	g = nil
	fns = nil
	for i := 0; i < 3; i++ {
		fns = append(fns, func() int { i += 10; return i })
	}
	acc = 0
	cnt = 0
}

func init() { reset() }

func itoa(n int) string {
	if n == 0 {
		return "0"
	}
	neg := n < 0
	if neg {
		n = -n
	}
	s := ""
	for n > 0 {
		s = string(rune(48+n%10)) + s
		n /= 10
	}
	if neg {
		s = "-" + s
	}
	return s
}

func op(c byte) string {
	switch c {
	case 'a': // call closure: mutates the captured variable
		if inc == nil {
			return "nil"
		}
		return itoa(inc())
	case 'b': // sibling closure sharing the captured variable
		if peek == nil {
			return "nil"
		}
		return itoa(peek())
	case 'c': // alias the closure
		g = inc
		return "ok"
	case 'd': // call through the alias
		if g == nil {
			return "nil"
		}
		return itoa(g())
	case 'e': // fresh pair
		cnt++
		inc, peek = mk(100 * cnt)
		return "ok"
	case 'f': // closure over a loop variable
		if len(fns) < 2 {
			return "short"
		}
		return itoa(fns[1]())
	case 'g': // put the shared closure into the slice
		if len(fns) < 1 {
			return "short"
		}
		fns[0] = inc
		return "ok"
	case 'h':
		if len(fns) < 1 || fns[0] == nil {
			return "nil"
		}
		return itoa(fns[0]())
	case 'i': // closure capturing a local pointer and writing a global
		cnt++
		t := &T{V: cnt}
		g = func() int { t.V++; acc += t.V; return t.V }
		return "ok"
	case 'j': // nested closures over one variable
		outer := 5 + cnt
		g = func() int {
			in := func() int { outer++; return outer }
			return in() + in()
		}
		return "ok"
	case 'k': // drop one closure from the slice
		if len(fns) < 3 {
			return "short"
		}
		fns = append(fns[:1], fns[2:]...)
		return itoa(len(fns))
	case 'l': // nil out
		peek = nil
		return "ok"
	}
	return "?"
}

func dump() string {
	r := "peek="
	if peek == nil {
		r += "nil"
	} else {
		r += itoa(peek())
	}
	r += " inc="
	if inc == nil {
		r += "nil"
	} else {
		r += "set"
	}
	r += " g="
	if g == nil {
		r += "nil"
	} else {
		r += "set"
	}
	return r + " fns=" + itoa(len(fns)) + " acc=" + itoa(acc) + " cnt=" + itoa(cnt)
}
