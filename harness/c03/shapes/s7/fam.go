package s7

import (
	_ "embed"

	"verif/harness/c03/rx"
)

//go:embed logic.go
var logic string

func Family() *rx.Family {
	return &rx.Family{
		Name: "s7", Path: "gno.land/r/verif/s7", Logic: logic,
		Ops: "acijbhkdefgl",
		Desc: map[byte]string{'a': "sh.Grow(1)", 'b': "sq.S+=10", 'c': "sh2=sh", 'd': "sh=&Sq{fresh}", 'e': "sh=Val{..}", 'f': "sh.(*Sq).S*=2", 'g': "sh=nil",
			'h': "sh,sh2=sh2,sh", 'i': "mv=sh.Grow", 'j': "mv(5)", 'k': "cn+=7", 'l': "anyv=cn / anyv=*sq"},
		Reset: reset, Op: op, Dump: dump,
	}
}
