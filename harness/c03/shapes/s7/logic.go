package s7

// Shape S7: interfaces holding declared types with pointer receivers, a value-receiver type, pointer to a
// package-level variable of a declared primitive type, bound method values, type assertions.

type Shape interface {
	Area() int
	Grow(n int)
}

type Sq struct{ S int }

func (s *Sq) Area() int  { return s.S * s.S }
func (s *Sq) Grow(n int) { s.S += n }

type Cnt int

func (c *Cnt) Area() int  { return int(*c) }
func (c *Cnt) Grow(n int) { *c += Cnt(n) }

type Val struct{ N int }

func (v Val) Area() int  { return v.N }
func (v Val) Grow(n int) {}

var (
	sh, sh2 Shape
	sq      *Sq
	cn      Cnt
	mv      func(int)
	anyv    interface{}
	cnt     int
)

func reset() {
	sq = &Sq{S: 2}
	sh = sq
	cn = 5
	sh2 = &cn
	mv = nil
	anyv = nil
	cnt = 0
}

func init() { reset() }

func itoa(n int) string {
	if n == 0 {
		return "0"
	}
	neg := n < 0
	if neg {
		n = -n
	}
	s := ""
	for n > 0 {
		s = string(rune(48+n%10)) + s
		n /= 10
	}
	if neg {
		s = "-" + s
	}
	return s
}

func op(c byte) string {
	switch c {
	case 'a': // method call through the interface (pointer receiver)
		if sh == nil {
			return "nil"
		}
		sh.Grow(1)
		return itoa(sh.Area())
	case 'b': // write through the concrete pointer the interface aliases
		sq.S += 10
		return itoa(sq.Area())
	case 'c': // copy the interface value
		sh2 = sh
		return "ok"
	case 'd': // attach a fresh object
		cnt++
		sh = &Sq{S: cnt}
		return itoa(sh.Area())
	case 'e': // struct VALUE inside an interface
		sh = Val{N: 3 + cnt}
		return itoa(sh.Area())
	case 'f': // type assertion then write
		if v, ok := sh.(*Sq); ok {
			v.S *= 2
			return itoa(v.S)
		}
		return "no"
	case 'g': // nil out
		sh = nil
		return "ok"
	case 'h': // swap
		sh, sh2 = sh2, sh
		return "ok"
	case 'i': // bound method value
		if sh == nil {
			return "nil"
		}
		mv = sh.Grow
		return "ok"
	case 'j': // call the stored method value
		if mv == nil {
			return "nil"
		}
		mv(5)
		return "ok"
	case 'k': // write the variable a pointer inside an interface may point to
		cn += 7
		return itoa(int(cn))
	case 'l': // copy values of declared types into an empty interface
		if cnt%2 == 0 {
			anyv = cn
		} else {
			anyv = *sq
		}
		cnt++
		return "ok"
	}
	return "?"
}

func describe(x interface{}) string {
	switch v := x.(type) {
	case nil:
		return "nil"
	case *Sq:
		if v == nil {
			return "*Sq(nil)"
		}
		r := "*Sq{" + itoa(v.S) + "}"
		if v == sq {
			r += "==sq"
		}
		return r
	case *Cnt:
		r := "*Cnt{" + itoa(int(*v)) + "}"
		if v == &cn {
			r += "==&cn"
		}
		return r
	case Val:
		return "Val{" + itoa(v.N) + "}"
	case Cnt:
		return "Cnt(" + itoa(int(v)) + ")"
	case Sq:
		return "Sq{" + itoa(v.S) + "}"
	}
	return "?"
}

func dump() string {
	r := "sh=" + describe(sh) + " sh2=" + describe(sh2) + " any=" + describe(anyv) + " sq=" + itoa(sq.S) + " cn=" + itoa(int(cn)) + " mv="
	if mv == nil {
		r += "nil"
	} else {
		r += "set"
	}
	return r + " cnt=" + itoa(cnt)
}
