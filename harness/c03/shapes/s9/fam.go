package s9

import (
	_ "embed"

	"verif/harness/c03/rx"
)

//go:embed logic.go
var logic string

// Family s9 is explored in QUIET mode (rx.Family.Quiet): the transaction that runs the ops does not dump, so the
// realm is finalized while the children of freshly attached / deleted objects are still unloaded RefValues.
func Family() *rx.Family {
	return &rx.Family{
		Name: "s9", Path: "gno.land/r/verif/s9", Logic: logic, Quiet: true,
		Ops: "ohtxefgwvd",
		Desc: map[byte]string{
			'o': "view=&View{two slices of log.data, log.m twice, log.p twice} (headers only, nothing dereferenced)",
			'h': "clear the FIRST slot of each pair in view", 't': "clear the SECOND slot of each pair in view",
			'x': "the owner re-points log.data/m/p to fresh objects (once)", 'w': "write through the owner", 'v': "write through the view's second slots",
			'd': "view=nil (drop the whole view)", 'e': "pair=[2][]int{two slices of log.data}; reg=map{a,b: two slices of log.data} (new array object, new map object)",
			'f': "pair[0]=nil; delete(reg,a)", 'g': "pair[1]=nil; delete(reg,b)",
		},
		Reset: reset, Op: op, Dump: dump,
	}
}
