package s9

// Shape S9: ONE object referenced from SEVERAL slots of one parent (two slice windows over one backing array, the
// same map twice, the same pointer twice; in a struct, in an array value, in a map), attached by copying headers
// only (the child is never dereferenced in that transaction), then released one slot at a time.

type Cell struct{ V int }

type Log struct {
	data []int
	m    map[string]int
	p    *Cell
}

type View struct {
	head, tail []int
	m1, m2     map[string]int
	p1, p2     *Cell
}

var (
	log   *Log
	view  *View
	pair  [2][]int
	reg   map[string][]int
	moved int
)

func reset() {
	log = &Log{data: []int{10, 20, 30, 40, 50, 60}, m: map[string]int{"k": 1}, p: &Cell{V: 2}}
	view = nil
	pair = [2][]int{}
	reg = nil
	moved = 0
}

func init() { reset() }

func itoa(n int) string {
	if n == 0 {
		return "0"
	}
	neg := n < 0
	if neg {
		n = -n
	}
	s := ""
	for n > 0 {
		s = string(rune(48+n%10)) + s
		n /= 10
	}
	if neg {
		s = "-" + s
	}
	return s
}

func op(c byte) string {
	switch c {
	case 'o': // attach a new object whose slots share children of the stored log; headers only
		if view != nil {
			return "open"
		}
		view = &View{head: log.data[:2], tail: log.data[4:], m1: log.m, m2: log.m, p1: log.p, p2: log.p}
		return itoa(len(view.head) + len(view.tail))
	case 'h': // release the first slot of each pair
		if view == nil {
			return "none"
		}
		view.head = nil
		view.m1 = nil
		view.p1 = nil
		return itoa(len(view.tail))
	case 't': // release the second slot of each pair
		if view == nil {
			return "none"
		}
		view.tail = nil
		view.m2 = nil
		view.p2 = nil
		return itoa(len(view.head))
	case 'x': // the original owner lets go (once): the view may become the only owner
		if moved != 0 {
			return "moved"
		}
		moved = 1
		log.data = []int{1, 2, 3, 4, 5, 6}
		log.m = map[string]int{"k": 7}
		log.p = &Cell{V: 8}
		return "ok"
	case 'w': // write through the owner
		log.data[3] = 41
		log.data[5] = 61
		log.m["k"] = 42
		log.p.V = 43
		return itoa(log.data[3] + log.m["k"] + log.p.V)
	case 'v': // write through the second slots of the view
		if view == nil {
			return "none"
		}
		r := 0
		if view.tail != nil {
			view.tail[1] = 51
			r += view.tail[0]
		}
		if view.m2 != nil {
			view.m2["k"] = 52
			r += 1000
		}
		if view.p2 != nil {
			view.p2.V = 53
			r += 100000
		}
		return itoa(r)
	case 'd': // drop the whole view (deleted object with unloaded children)
		view = nil
		return "ok"
	case 'e': // new ARRAY object and new MAP object, each with two slots over one backing array
		if pair[0] != nil || pair[1] != nil || reg != nil {
			return "set"
		}
		pair = [2][]int{log.data[1:2], log.data[2:3]}
		reg = map[string][]int{"a": log.data[:1], "b": log.data[3:]}
		return itoa(len(pair[0]) + len(pair[1]) + len(reg))
	case 'f': // release the first slot of each
		pair[0] = nil
		delete(reg, "a")
		return itoa(len(reg))
	case 'g': // release the second slot of each
		pair[1] = nil
		delete(reg, "b")
		return itoa(len(reg))
	}
	return "?"
}

func show(x []int) string {
	if x == nil {
		return "nil"
	}
	r := itoa(len(x)) + "/" + itoa(cap(x)) + "["
	f := x[:cap(x)]
	for i := 0; i < len(f); i++ {
		r += itoa(f[i]) + ","
	}
	r += "]"
	if cap(x) > 0 {
		fb := log.data[:cap(log.data)]
		for i := 0; i < len(fb); i++ {
			if &fb[i] == &f[0] {
				r += "@data+" + itoa(i)
			}
		}
	}
	return r
}

func showm(m map[string]int) string {
	if m == nil {
		return "nil"
	}
	return itoa(len(m)) + ":" + itoa(m["k"])
}

func showp(p *Cell) string {
	if p == nil {
		return "nil"
	}
	r := itoa(p.V)
	if p == log.p {
		r += "=log.p"
	}
	return r
}

func dump() string {
	r := "data=" + show(log.data) + " m=" + showm(log.m) + " p=" + showp(log.p)
	if view == nil {
		r += " view=nil"
	} else {
		r += " head=" + show(view.head) + " tail=" + show(view.tail) + " m1=" + showm(view.m1) + " m2=" + showm(view.m2) + " p1=" + showp(view.p1) + " p2=" + showp(view.p2)
	}
	r += " pair=" + show(pair[0]) + "|" + show(pair[1])
	if reg == nil {
		r += " reg=nil"
	} else {
		r += " reg=" + itoa(len(reg)) + ":" + show(reg["a"]) + "|" + show(reg["b"])
	}
	return r + " moved=" + itoa(moved)
}
