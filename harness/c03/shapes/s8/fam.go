package s8

import (
	_ "embed"

	"verif/harness/c03/rx"
)

//go:embed logic.go
var logic string

func Family() *rx.Family {
	return &rx.Family{
		Name: "s8", Path: "gno.land/r/verif/s8", Logic: logic,
		Ops: "acdfebgijkhl",
		Desc: map[byte]string{'a': "al.V++ (al=&root.Arr[1])", 'b': "root.Kids[0].V+=10", 'c': "snap=*root", 'd': "root.Arr[0].V+=100;root.In.L.V+=1000", 'e': "snap.Arr[1].V+=7;snap.In.L.V+=9",
			'f': "sl=append(sl,&Leaf{fresh})", 'g': "root.M[y]=root.Kids[1]", 'h': "delete(root.M,x)", 'i': "al=&root.In.L", 'j': "root.In.P.V+=5", 'k': "root=&Node{re-attach parts}", 'l': "*root=snap"},
		Reset: reset, Op: op, Dump: dump,
	}
}
