package s8

// Shape S8: nested combination: struct holding a slice of pointers, a map, an array of structs and a nested
// struct value; pointers into the array / into the nested struct; a struct VALUE copy of the whole node.

type Leaf struct{ V int }

type Inner struct {
	L Leaf
	P *Leaf
}

type Node struct {
	Kids []*Leaf
	M    map[string]*Leaf
	Arr  [2]Leaf
	In   Inner
}

var (
	root *Node
	al   *Leaf
	sl   []*Leaf
	snap Node
	cnt  int
)

func reset() {
	l0, l1 := &Leaf{V: 1}, &Leaf{V: 2}
	root = &Node{
		Kids: make([]*Leaf, 2, 4),
		M:    map[string]*Leaf{"x": l0},
		Arr:  [2]Leaf{{V: 10}, {V: 20}},
		In:   Inner{L: Leaf{V: 30}, P: l1},
	}
	root.Kids[0], root.Kids[1] = l0, l1
	al = &root.Arr[1]
	sl = root.Kids[:1]
	snap = Node{}
	cnt = 0
}

func init() { reset() }

func itoa(n int) string {
	if n == 0 {
		return "0"
	}
	neg := n < 0
	if neg {
		n = -n
	}
	s := ""
	for n > 0 {
		s = string(rune(48+n%10)) + s
		n /= 10
	}
	if neg {
		s = "-" + s
	}
	return s
}

func op(c byte) string {
	switch c {
	case 'a': // write through a pointer into the nested array
		if al == nil {
			return "nil"
		}
		al.V++
		return itoa(al.V)
	case 'b': // write through the slice of pointers
		if len(root.Kids) == 0 || root.Kids[0] == nil {
			return "nil"
		}
		root.Kids[0].V += 10
		return itoa(root.Kids[0].V)
	case 'c': // copy the whole node VALUE (array / nested struct by value, slice / map shared)
		snap = *root
		return itoa(snap.Arr[0].V + snap.In.L.V)
	case 'd': // direct write into the nested array and nested struct
		root.Arr[0].V += 100
		root.In.L.V += 1000
		return itoa(root.Arr[0].V + root.In.L.V)
	case 'e': // write the copy (must not reach root)
		snap.Arr[1].V += 7
		snap.In.L.V += 9
		return itoa(snap.Arr[1].V + snap.In.L.V)
	case 'f': // append through the alias slice: within capacity it overwrites root.Kids[1]
		cnt++
		if len(sl) < cap(sl) {
			sl = append(sl, &Leaf{V: 50 + cnt})
		} else {
			sl = append(sl, &Leaf{V: 50 + cnt})
			sl = sl[:len(sl):len(sl)]
		}
		return itoa(len(sl))
	case 'g': // share a leaf in the map
		if len(root.Kids) > 1 {
			root.M["y"] = root.Kids[1]
		}
		return itoa(len(root.M))
	case 'h': // delete
		delete(root.M, "x")
		return itoa(len(root.M))
	case 'i': // pointer to a field of the nested struct value
		al = &root.In.L
		return itoa(al.V)
	case 'j': // write through the pointer field of the nested struct
		if root.In.P == nil {
			return "nil"
		}
		root.In.P.V += 5
		return itoa(root.In.P.V)
	case 'k': // fresh node re-attaching existing parts
		cnt++
		root = &Node{Kids: sl, M: root.M, Arr: [2]Leaf{{V: cnt}, {V: cnt}}, In: Inner{P: al}}
		return itoa(len(root.Kids))
	case 'l': // copy back from the snapshot value
		*root = snap
		return itoa(len(root.Kids))
	}
	return "?"
}

func dump() string {
	var seen []*Leaf
	show := func(p *Leaf) string {
		if p == nil {
			return "nil"
		}
		for i, q := range seen {
			if q == p {
				return "#" + itoa(i)
			}
		}
		seen = append(seen, p)
		return "#" + itoa(len(seen)-1) + "{" + itoa(p.V) + "}"
	}
	node := func(n *Node) string {
		r := "Kids=" + itoa(len(n.Kids)) + "/" + itoa(cap(n.Kids)) + "["
		for _, k := range n.Kids[:cap(n.Kids)] {
			r += show(k) + ","
		}
		r += "] M="
		if n.M == nil {
			r += "nil"
		} else {
			r += itoa(len(n.M)) + "["
			for _, k := range []string{"x", "y"} {
				if v, ok := n.M[k]; ok {
					r += k + ":" + show(v) + ","
				}
			}
			r += "]"
		}
		r += " Arr=" + show(&n.Arr[0]) + "," + show(&n.Arr[1]) + " In.L=" + show(&n.In.L) + " In.P=" + show(n.In.P)
		return r
	}
	r := "root{" + node(root) + "} snap{" + node(&snap) + "} al=" + show(al) + " sl=" + itoa(len(sl)) + "/" + itoa(cap(sl)) + "["
	for _, k := range sl[:cap(sl)] {
		r += show(k) + ","
	}
	return r + "] cnt=" + itoa(cnt)
}
