// Package shapes lists the realm families of the C03/C06 exploration.
package shapes

import (
	"verif/harness/c03/rx"
	"verif/harness/c03/shapes/s1"
	"verif/harness/c03/shapes/s10"
	"verif/harness/c03/shapes/s11"
	"verif/harness/c03/shapes/s2"
	"verif/harness/c03/shapes/s3"
	"verif/harness/c03/shapes/s4"
	"verif/harness/c03/shapes/s5"
	"verif/harness/c03/shapes/s6"
	"verif/harness/c03/shapes/s7"
	"verif/harness/c03/shapes/s8"
	"verif/harness/c03/shapes/s9"
	"verif/harness/c03/shapes/x2"
)

func All() []*rx.Family {
	return []*rx.Family{s1.Family(), s2.Family(), s3.Family(), s4.Family(), s5.Family(), s6.Family(), s7.Family(), s8.Family()}
}

// common: the 8 single-realm families + the two-realm ownership family (explored by C03 and C06).
func common() []*rx.Family { return append(All(), x2.Family()) }

// AllC06 adds the family that exists only for C06: s11 (in-place element shifts of stored slices of pointers / maps /
// interface values through append and copy).
func AllC06() []*rx.Family { return append(common(), s11.Family()) }

// AllC03 adds the families that exist only for C03: s9 (one child in several slots of a parent, attached unloaded,
// released slot by slot; quiet mode) and s10 (copying builtins on reloaded composite elements).
func AllC03() []*rx.Family { return append(common(), s9.Family(), s10.Family()) }
