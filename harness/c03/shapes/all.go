// Package shapes lists the realm families of the C03/C06 exploration.
package shapes

import (
	"verif/harness/c03/rx"
	"verif/harness/c03/shapes/s1"
	"verif/harness/c03/shapes/s2"
	"verif/harness/c03/shapes/s3"
	"verif/harness/c03/shapes/s4"
	"verif/harness/c03/shapes/s5"
	"verif/harness/c03/shapes/s6"
	"verif/harness/c03/shapes/s7"
	"verif/harness/c03/shapes/s8"
	"verif/harness/c03/shapes/x2"
)

func All() []*rx.Family {
	return []*rx.Family{s1.Family(), s2.Family(), s3.Family(), s4.Family(), s5.Family(), s6.Family(), s7.Family(), s8.Family()}
}

// AllC06 adds the two-realm ownership family to the C03 families.
func AllC06() []*rx.Family { return append(All(), x2.Family()) }
