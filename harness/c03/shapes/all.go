// Package shapes lists the realm families of the C03/C06 exploration.
package shapes

import (
	"verif/harness/c03/rx"
	"verif/harness/c03/shapes/s1"
	"verif/harness/c03/shapes/s2"
	"verif/harness/c03/shapes/s3"
)

func All() []*rx.Family {
	return []*rx.Family{s1.Family(), s2.Family(), s3.Family()}
}
