package s1

// Shape S1: struct with a pointer field; two root pointers that may alias, a struct VALUE holding a copy,
// pointer to a package-level struct variable, cycles.

type N struct {
	V    int
	Next *N
}

var (
	a, b *N
	hold N
	cnt  int
)

func reset() {
	a = &N{V: 1}
	b = &N{V: 2}
	hold = N{}
	cnt = 0
}

func init() { reset() }

func itoa(n int) string {
	if n == 0 {
		return "0"
	}
	neg := n < 0
	if neg {
		n = -n
	}
	s := ""
	for n > 0 {
		s = string(rune(48+n%10)) + s
		n /= 10
	}
	if neg {
		s = "-" + s
	}
	return s
}

func op(c byte) string {
	switch c {
	case 'a': // write through alias A
		if a == nil {
			return "nil"
		}
		a.V++
		return itoa(a.V)
	case 'b': // write through alias B
		if b == nil {
			return "nil"
		}
		b.V += 10
		return itoa(b.V)
	case 'c': // re-point B at A's object (share)
		b = a
		return "ok"
	case 'd': // attach a fresh object
		cnt++
		a = &N{V: 100 * cnt}
		return itoa(a.V)
	case 'e': // link (may create a cycle, incl. a self cycle)
		if a == nil {
			return "nil"
		}
		a.Next = b
		return "ok"
	case 'f': // detach
		if a == nil {
			return "nil"
		}
		a.Next = nil
		return "ok"
	case 'g': // swap
		a, b = b, a
		return "ok"
	case 'h': // copy the struct value (shares Next)
		if a == nil {
			return "nil"
		}
		hold = *a
		return itoa(hold.V)
	case 'i': // nil out
		b = nil
		return "ok"
	case 'j': // write through a two-step path
		if a == nil || a.Next == nil {
			return "nil"
		}
		a.Next.V += 1000
		return itoa(a.Next.V)
	case 'k': // write the struct value and through its pointer field
		hold.V += 5
		if hold.Next != nil {
			hold.Next.V += 7
		}
		return itoa(hold.V)
	case 'l': // pointer to a package-level struct variable
		a = &hold
		return "ok"
	}
	return "?"
}

func dump() string {
	seen := []*N{&hold}
	var show func(p *N) string
	show = func(p *N) string {
		if p == nil {
			return "nil"
		}
		for i, q := range seen {
			if q == p {
				return "#" + itoa(i)
			}
		}
		seen = append(seen, p)
		id := len(seen) - 1
		return "#" + itoa(id) + "{" + itoa(p.V) + "," + show(p.Next) + "}"
	}
	return "hold={" + itoa(hold.V) + "," + show(hold.Next) + "} a=" + show(a) + " b=" + show(b) + " cnt=" + itoa(cnt)
}
