package s1

import (
	_ "embed"

	"verif/harness/c03/rx"
)

//go:embed logic.go
var logic string

func Family() *rx.Family {
	return &rx.Family{
		Name: "s1", Path: "gno.land/r/verif/s1", Logic: logic,
		Ops: "acdeghjkbfil",
		Desc: map[byte]string{'a': "a.V++", 'b': "b.V+=10", 'c': "b=a", 'd': "a=&N{fresh}", 'e': "a.Next=b", 'f': "a.Next=nil",
			'g': "a,b=b,a", 'h': "hold=*a", 'i': "b=nil", 'j': "a.Next.V+=1000", 'k': "hold.V+=5;hold.Next.V+=7", 'l': "a=&hold"},
		Reset: reset, Op: op, Dump: dump,
	}
}
