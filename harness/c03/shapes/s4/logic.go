package s4

// Shape S4: map[string]*T with shared values, a second variable aliasing the map, deletes, re-attach.

type T struct{ V int }

var (
	m, m2 map[string]*T
	x, y  *T
	cnt   int
)

func reset() {
	x = &T{V: 1}
	y = &T{V: 2}
	m = map[string]*T{"a": x, "b": x, "c": y}
	m2 = nil
	cnt = 0
}

func init() { reset() }

func itoa(n int) string {
	if n == 0 {
		return "0"
	}
	neg := n < 0
	if neg {
		n = -n
	}
	s := ""
	for n > 0 {
		s = string(rune(48+n%10)) + s
		n /= 10
	}
	if neg {
		s = "-" + s
	}
	return s
}

func op(c byte) string {
	switch c {
	case 'a': // write through a map value
		v := m["a"]
		if v == nil {
			return "nil"
		}
		v.V++
		return itoa(v.V)
	case 'b': // write through the variable sharing the value
		if x == nil {
			return "nil"
		}
		x.V += 10
		return itoa(x.V)
	case 'c': // delete a key whose value is shared
		delete(m, "b")
		return itoa(len(m))
	case 'd': // share a value under a second key
		m["d"] = y
		return itoa(len(m))
	case 'e': // attach a fresh value (replaces a shared one)
		cnt++
		m["a"] = &T{V: 100 * cnt}
		return itoa(len(m))
	case 'f': // re-attach
		m["b"] = x
		return itoa(len(m))
	case 'g': // re-point a variable at a map value
		x = m["c"]
		if x == nil {
			return "nil"
		}
		return itoa(x.V)
	case 'h': // alias the map
		m2 = m
		return "ok"
	case 'i': // replace the map (the old one survives only through the alias)
		m = map[string]*T{"c": y}
		return itoa(len(m))
	case 'j': // write inside range (a shared value is visited once per key)
		n := 0
		for _, v := range m {
			if v != nil {
				v.V += 1000
				n++
			}
		}
		return itoa(n)
	case 'k': // delete through the alias
		if m2 == nil {
			return "nil"
		}
		delete(m2, "a")
		return itoa(len(m2))
	case 'l': // nil out
		y = nil
		return "ok"
	}
	return "?"
}

func dump() string {
	var seen []*T
	show := func(p *T) string {
		if p == nil {
			return "nil"
		}
		for i, q := range seen {
			if q == p {
				return "#" + itoa(i)
			}
		}
		seen = append(seen, p)
		return "#" + itoa(len(seen)-1) + "{" + itoa(p.V) + "}"
	}
	keys := []string{"a", "b", "c", "d"}
	showMap := func(mm map[string]*T) string {
		if mm == nil {
			return "nil"
		}
		r := itoa(len(mm)) + "["
		for _, k := range keys {
			if v, ok := mm[k]; ok {
				r += k + ":" + show(v) + ","
			}
		}
		return r + "]"
	}
	return "x=" + show(x) + " y=" + show(y) + " m=" + showMap(m) + " m2=" + showMap(m2) + " cnt=" + itoa(cnt)
}
