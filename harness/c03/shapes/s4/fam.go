package s4

import (
	_ "embed"

	"verif/harness/c03/rx"
)

//go:embed logic.go
var logic string

func Family() *rx.Family {
	return &rx.Family{
		Name: "s4", Path: "gno.land/r/verif/s4", Logic: logic,
		Ops: "aecjbfhikdgl",
		Desc: map[byte]string{'a': "m[a].V++", 'b': "x.V+=10", 'c': "delete(m,b)", 'd': "m[d]=y", 'e': "m[a]=&T{fresh}", 'f': "m[b]=x",
			'g': "x=m[c]", 'h': "m2=m", 'i': "m=map{c:y}", 'j': "range m: v.V+=1000", 'k': "delete(m2,a)", 'l': "y=nil"},
		Reset: reset, Op: op, Dump: dump,
	}
}
