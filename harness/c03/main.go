// C03: realm behaviour is independent of persistence boundaries.
//
// Purpose-built realm families (state shape x operation menu, see shapes/) are deployed on the real gno.land
// application (engine chainx). For every op sequence of length <= k and EVERY cut of the sequence into
// transactions (each transaction = its own MsgCall through DeliverTx, so the VM object cache is dropped and every
// object is re-loaded from the store), the return string of every op and the canonical Dump() of the realm are
// compared with the same pure logic compiled and run natively by Go; the single-transaction history [whole
// sequence] is one of the explored cuts, so "cut == single in-memory execution" follows by transitivity and
// deviations are classified (persistence effect vs Go/Gno difference). After every transaction a further
// transaction re-reads the dump from the store ("persisting and reloading never changes a value").
// In addition every sequence (<= k-1) is run as ONE MsgRun script that calls each op through a crossing call
// (realm finalization at every boundary, object cache kept).
//
// Families s9 and s10 were added after seeded misses (see mutants/NOTES.md): s9 puts ONE child into SEVERAL slots of a
// new parent while the child is unloaded and releases the slots one per op; it is explored in quiet mode
// (rx.Family.Quiet: the op transaction does not dump, the cold-dump transaction observes). s10 applies the copying
// builtins to stored slices of composite values and writes through the result.
package main

import (
	"flag"
	"fmt"
	"os"
	"runtime"
	"runtime/debug"
	"runtime/pprof"
	"strings"
	"time"

	"verif/engine/vk"
	"verif/harness/c03/rx"
	"verif/harness/c03/shapes"
)

func main() {
	fams := flag.String("fams", "", "comma-separated family names (default all)")
	kflag := flag.Int("k", 0, "max sequence length (default 4 quick / 5 thorough)")
	nflag := flag.Int("n", 0, "menu size (default 4 quick / 6 thorough; menus have 12 ops)")
	nomemo := flag.Bool("nomemo", false, "disable state memoisation")
	gcp := flag.Int("gc", 30, "GC percent")
	r := vk.New("model_checking")
	debug.SetGCPercent(*gcp)
	r.SetBudget(240*time.Second, 25*time.Minute)
	if r.Quick() && runtime.GOMAXPROCS(0) > 8 {
		runtime.GOMAXPROCS(8) // one chain per worker costs ~4 CPU-s to create: 8 workers keep the quick tier within ~150 CPU-s
	}
	k, n := 4, 4
	if r.Thorough() {
		k, n = 5, 6
	}
	if *kflag > 0 {
		k = *kflag
	}
	if *nflag > 0 {
		n = *nflag
	}
	var sel []*rx.Family
	// menu sizes (quick, thorough) of the families whose ops are mostly idempotent / self-loops (cheap under state memoisation)
	// and their maximal sequence lengths: {n quick, n thorough, k quick, k thorough}
	ownN := map[string][4]int{"s9": {4, 10, 4, 5}, "s10": {8, 10, 3, 4}}
	for _, f := range shapes.AllC03() { // the 8 single-realm families + the two-realm family (no reference: its cuts are compared with each other) + s9 (quiet) + s10
		if *fams != "" && !strings.Contains(","+*fams+",", ","+f.Name+",") {
			continue
		}
		fn := n
		// (QuickN is the C06 menu size of the two-realm family; C03 uses the common size)
		if o, ok := ownN[f.Name]; ok && *nflag == 0 {
			fn, f.K = o[0], o[2]
			if r.Thorough() {
				fn, f.K = o[1], o[3]
			}
			if *kflag > 0 {
				f.K = 0
			}
		}
		if len(f.Ops) > fn {
			f.Ops = f.Ops[:fn]
		}
		sel = append(sel, f)
	}
	x := &rx.Explorer{R: r, Fams: sel, K: k, ColdDump: true, Memo: !*nomemo}
	if pf := os.Getenv("VERIF_CPUPROFILE"); pf != "" {
		f, _ := os.Create(pf)
		pprof.StartCPUProfile(f)
		defer pprof.StopCPUProfile()
	}
	t0 := time.Now()
	x.Run()
	t1 := time.Now()
	x.RunScripts(k - 1)
	fmt.Printf("msgrun scripts: %d in %.1fs\n", x.RunTxs.Load(), time.Since(t1).Seconds())
	pprof.StopCPUProfile()
	fmt.Printf("explore: nodes=%d txs=%d states=%d memo_hits=%d cold_hits=%d mismatches=%d in %.1fs (env creation %.1f s, DeliverTx %.1f s summed over workers)\n", x.Nodes.Load(), x.Txs.Load(), x.States.Load(), x.MemoHits.Load(), x.ColdHits.Load(), len(x.Mis), time.Since(t0).Seconds(), float64(x.EnvNanos.Load())/1e9, float64(rx.TxNanos.Load())/1e9)
	x.Report()
	gd := x.GoDiffs()
	for _, d := range gd {
		fmt.Printf("OBSERVATION go-vs-gno (no persistence involved): %s seq=%q gno=%q go=%q (%d sequences differ)\n", d.Family, d.Seq, d.Gno, d.Go, d.Count)
		r.Outcome("obs:go-vs-gno-in-memory-difference:" + d.Family)
	}
	var names []string
	for _, f := range sel {
		names = append(names, fmt.Sprintf("%s(%s)", f.Name, f.Ops))
	}
	r.Sample(map[string]any{"families": names, "k": k})
	r.Assumptions = []string{
		"reference = the same logic file run by the real GnoVM in one in-memory machine without any store (rx.MemVM); native Go is a third opinion whose differences are reported as observations (Go/Gno language differences are C04's subject)",
		"state memoisation: the subtree below a history is skipped when the persisted bytes of the realm (all objects + realm record) equal those of a history already expanded with at least the same remaining depth in the same task; the cold-dump transaction is run once per distinct persisted state per task (a transaction is a deterministic function of the store)",
		"snapshots between transactions use a cache-wrapped deliver state (chainx.Push); every reported deviation is first reproduced on a fresh chain with one committed block per transaction",
	}
	r.Finish(fmt.Sprintf("per realm family (%d families, menu of %d ops): all op sequences of length <= %d (s9: first 4 quick / 10 thorough ops, quiet mode = no dump in the op tx; s10: length <= 3 over 8 ops quick, <= 4 over 10 ops thorough) x every cut of the sequence into transactions (each tx one MsgCall via DeliverTx) + cold re-dump after every tx + every sequence <= %d as one MsgRun with a crossing call per op; oracle: op return strings and canonical Dump() equal to the in-memory GnoVM run; distinct = distinct transaction histories", len(sel), n, k, k-1), !r.Capped(), map[string]any{
		"states": x.States.Load(), "transitions": x.Txs.Load(), "traces_validated_against_impl": x.Txs.Load(), "depth": k,
		"histories": x.Nodes.Load(), "memo_hits": x.MemoHits.Load(), "cold_dump_memo_hits": x.ColdHits.Load(), "msgrun_scripts": x.RunTxs.Load(), "menu_size": n, "go_vs_gno_in_memory_differences": gd,
	})
}
