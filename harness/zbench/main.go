package main

import (
	"fmt"
	"sync"
	"time"

	"github.com/gnolang/gno/tm2/pkg/db/memdb"
	"verif/engine/chainx"
)

func main() {
	A := chainx.NewKey("A")
	spec := chainx.Spec{Keys: []chainx.Key{A}, Fund: 1_000_000_000_000}
	t := time.Now()
	c, _ := chainx.New(memdb.NewMemDB(), spec)
	fmt.Println("first new", time.Since(t))
	for i := 0; i < 3; i++ {
		t = time.Now()
		chainx.New(memdb.NewMemDB(), spec)
		fmt.Println("new", time.Since(t))
	}
	for i := 0; i < 3; i++ {
		t = time.Now()
		c.Restart()
		fmt.Println("restart", time.Since(t))
	}
	for _, par := range []int{4, 16} {
		t = time.Now()
		var wg sync.WaitGroup
		for i := 0; i < par; i++ {
			wg.Add(1)
			go func() { defer wg.Done(); chainx.New(memdb.NewMemDB(), spec) }()
		}
		wg.Wait()
		fmt.Println("parallel new x", par, time.Since(t))
	}
}
