// C34: the private validator (tm2/pkg/bft/privval) never double-signs, even across crashes.
//
// Explicit-state model checking of the REAL PrivValidator.SignVote / SignProposal / NewPrivValidator /
// FileState.save / WriteFileAtomic code. The file system under the sign-state file is the verifos shim
// (overlay rewrite of the "os" import of tm2/pkg/os/{tempfile,os}.go and privval/state/state.go): an in-memory
// fs that counts mutating calls and injects a crash (or a torn write, or an I/O error) at the k-th one.
//
// State      = (sign-state file content [+ leftover temp files], in-memory FileState, history of released
//
//	signatures per (height, round, step)).
//
// Transition = one sign request out of the full alphabet, executed on the real code either normally or with
//
//	EVERY crash point inside it (before each mutating fs call, torn write, after completion but before
//	the caller gets the result) followed by a reload; plus a clean restart after every state.
//
// Search     = breadth first, level = number of requests, duplicate states merged, bounded depth.
// Oracle     = invariant over the whole history of released signatures (see checkRelease) + "a crash never leaves
//
//	a sign-state file that cannot be loaded".
package main

import (
	"bytes"
	"crypto/sha256"
	"encoding/json"
	"fmt"
	"os"
	"sort"
	"strings"
	"sync"
	"sync/atomic"
	"time"

	"github.com/gnolang/gno/tm2/pkg/amino"
	"github.com/gnolang/gno/tm2/pkg/bft/privval"
	fstate "github.com/gnolang/gno/tm2/pkg/bft/privval/state"
	"github.com/gnolang/gno/tm2/pkg/bft/types"
	"github.com/gnolang/gno/tm2/pkg/crypto"
	"github.com/gnolang/gno/tm2/pkg/crypto/ed25519"
	"github.com/gnolang/gno/tm2/pkg/verifos"
	"verif/engine/vk"
)

const chainID = "verif-c34"

var (
	r      *vk.Run
	times  = [2]time.Time{time.Unix(1700000000, 0).UTC(), time.Unix(1700000007, 500).UTC()}
	signer *memoSigner
)

// ---------------------------------------------------------------------------------------------
// signer: real ed25519, memoised (deterministic signatures)

type memoSigner struct {
	inner types.Signer
	pub   *memoPub
	mu    sync.RWMutex
	cache map[string][]byte
	count atomic.Int64
}

type memoPub struct {
	crypto.PubKey
	cache sync.Map
}

func (p *memoPub) VerifyBytes(msg, sig []byte) bool {
	k := string(msg) + "\xff" + string(sig)
	if v, ok := p.cache.Load(k); ok {
		return v.(bool)
	}
	ok := p.PubKey.VerifyBytes(msg, sig)
	p.cache.Store(k, ok)
	return ok
}

func (m *memoSigner) PubKey() crypto.PubKey { return m.pub }
func (m *memoSigner) Close() error          { return nil }
func (m *memoSigner) Sign(b []byte) ([]byte, error) {
	m.count.Add(1)
	m.mu.RLock()
	s, ok := m.cache[string(b)]
	m.mu.RUnlock()
	if ok {
		return append([]byte(nil), s...), nil
	}
	s, err := m.inner.Sign(b)
	if err != nil {
		return nil, err
	}
	m.mu.Lock()
	m.cache[string(b)] = append([]byte(nil), s...)
	m.mu.Unlock()
	return s, nil
}

// ---------------------------------------------------------------------------------------------
// request alphabet

type req struct {
	kind byte // 'P' proposal, 'V' prevote, 'C' precommit
	H    int64
	R    int
	blk  int // 0 = A, 1 = B, 2 = nil
	ts   int
}

var (
	nH, nR  = 2, 2
	blkName = []string{"A", "B", "nil"}
)

func (q req) step() fstate.Step {
	switch q.kind {
	case 'P':
		return fstate.StepPropose
	case 'V':
		return fstate.StepPrevote
	}
	return fstate.StepPrecommit
}

func (q req) hrs() int { return (int(q.H-1)*nR+q.R)*3 + int(q.step()) - 1 }

func (q req) String() string {
	return fmt.Sprintf("%c%d.%d.%s.t%d", q.kind, q.H, q.R, blkName[q.blk], q.ts)
}

func blockID(b int) types.BlockID {
	if b == 2 {
		return types.BlockID{}
	}
	h := bytes.Repeat([]byte{byte(0xA0 + b)}, 32)
	return types.BlockID{Hash: h, PartsHeader: types.PartSetHeader{Total: 1, Hash: bytes.Repeat([]byte{byte(0xC0 + b)}, 32)}}
}

type result struct {
	err error
	rec any
	fsb string // sign bytes of the message as returned (timestamp possibly replaced)
	sig string
}

func doSign(pv *privval.PrivValidator, q req) (res result) {
	res.rec = vk.Catch(func() {
		if q.kind == 'P' {
			p := &types.Proposal{Type: types.ProposalType, Height: q.H, Round: q.R, POLRound: -1, BlockID: blockID(q.blk), Timestamp: times[q.ts]}
			res.err = pv.SignProposal(chainID, p)
			if res.err == nil {
				res.fsb, res.sig = string(p.SignBytes(chainID)), string(p.Signature)
			}
			return
		}
		t := types.PrevoteType
		if q.kind == 'C' {
			t = types.PrecommitType
		}
		v := &types.Vote{Type: t, Height: q.H, Round: q.R, BlockID: blockID(q.blk), Timestamp: times[q.ts],
			ValidatorAddress: signer.pub.Address(), ValidatorIndex: 0}
		res.err = pv.SignVote(chainID, v)
		if res.err == nil {
			res.fsb, res.sig = string(v.SignBytes(chainID)), string(v.Signature)
		}
	})
	return
}

// onlyTimestampDiffers: harness-side comparison of two canonical sign-bytes.
func onlyTimestampDiffers(kind byte, a, b string) bool {
	if kind == 'P' {
		var x, y types.CanonicalProposal
		if amino.UnmarshalSized([]byte(a), &x) != nil || amino.UnmarshalSized([]byte(b), &y) != nil {
			return false
		}
		x.Timestamp, y.Timestamp = time.Time{}, time.Time{}
		return bytes.Equal(amino.MustMarshalSized(x), amino.MustMarshalSized(y))
	}
	var x, y types.CanonicalVote
	if amino.UnmarshalSized([]byte(a), &x) != nil || amino.UnmarshalSized([]byte(b), &y) != nil {
		return false
	}
	x.Timestamp, y.Timestamp = time.Time{}, time.Time{}
	return bytes.Equal(amino.MustMarshalSized(x), amino.MustMarshalSized(y))
}

// ---------------------------------------------------------------------------------------------
// states

type memState struct {
	H             int64
	R             int
	S             uint8
	SB, Sig       string
	hasSB, hasSig bool
}

type diskState struct {
	has   bool
	state string
	left  []string // contents of leftover temp files, sorted (names are random, so they are canonicalised away)
}

const maxHRS = 12 // nH * nR * 3

type state struct {
	disk   diskState
	mem    memState
	hist   [maxHRS]string // per (H,R,step): first released fsb + 0xff + sig
	maxRel int            // highest released hrs index, -1 if none
	trace  string
	key    [20]byte
}

func (s *state) computeKey() {
	h := sha256.New()
	w := func(x string) { fmt.Fprintf(h, "%d:", len(x)); h.Write([]byte(x)) }
	fmt.Fprintf(h, "%v|", s.disk.has)
	w(s.disk.state)
	for _, l := range s.disk.left {
		w(l)
	}
	fmt.Fprintf(h, "|%d,%d,%d,%v,%v|", s.mem.H, s.mem.R, s.mem.S, s.mem.hasSB, s.mem.hasSig)
	w(s.mem.SB)
	w(s.mem.Sig)
	for i := range s.hist {
		if s.hist[i] != "" {
			fmt.Fprintf(h, "h%d=", i)
			w(s.hist[i])
		}
	}
	fmt.Fprintf(h, "|%d", s.maxRel)
	copy(s.key[:], h.Sum(nil))
}

func (s *state) memDiskLabel() string {
	d := "absent"
	if s.disk.has {
		d = fmt.Sprintf("%x", sha256.Sum256([]byte(s.disk.state)))[:8]
	}
	m := fmt.Sprintf("%x", sha256.Sum256([]byte(s.mem.SB+"|"+s.mem.Sig)))[:8]
	return fmt.Sprintf("mem(%d,%d,%d,%s)disk(%s,left=%d)", s.mem.H, s.mem.R, s.mem.S, m, d, len(s.disk.left))
}

// ---------------------------------------------------------------------------------------------
// workers (one in-memory fs each)

type worker struct {
	id   int
	fs   *verifos.MemFS
	root string
	path string
	hist map[string]int64
}

var workerPool chan *worker

func initWorkers(n int) {
	workerPool = make(chan *worker, n)
	for i := 0; i < n; i++ {
		root := fmt.Sprintf("%s%d/", verifos.MemPrefix, i)
		workerPool <- &worker{id: i, fs: verifos.Mem(i), root: root, path: root + "priv_validator_state.json", hist: map[string]int64{}}
	}
}

func (w *worker) restore(s *state) *privval.PrivValidator {
	files := map[string]string{}
	if s.disk.has {
		files[w.path] = s.disk.state
	}
	for i, c := range s.disk.left {
		files[fmt.Sprintf("%swrite-file-atomic-leftover%d", w.root, i)] = c
	}
	w.fs.Reset(files)
	var sb, sig []byte
	if s.mem.hasSB {
		sb = []byte(s.mem.SB)
	}
	if s.mem.hasSig {
		sig = []byte(s.mem.Sig)
	}
	return privval.VerifNew(signer, fstate.VerifMake(s.mem.H, s.mem.R, fstate.Step(s.mem.S), sb, sig, w.path))
}

func (w *worker) capture(pv *privval.PrivValidator, keepLeft bool) (diskState, memState) {
	var d diskState
	snap := w.fs.Snapshot()
	for p, c := range snap {
		if p == w.path {
			d.has, d.state = true, c
		} else if keepLeft {
			d.left = append(d.left, c)
		}
	}
	sort.Strings(d.left)
	st := pv.VerifState()
	m := memState{H: st.Height, R: st.Round, S: uint8(st.Step), SB: string(st.SignBytes), Sig: string(st.Signature),
		hasSB: st.SignBytes != nil, hasSig: st.Signature != nil}
	return d, m
}

// ---------------------------------------------------------------------------------------------
// violations (class key -> minimal witness)

type witness struct {
	trace  string
	detail any
	count  int64
}

var (
	vmu    sync.Mutex
	vmap   = map[string]*witness{}
	ioCons = map[string]*witness{} // sub-classes of the single io-error finding
)

func traceLess(a, b string) bool {
	na, nb := strings.Count(a, " "), strings.Count(b, " ")
	if na != nb {
		return na < nb
	}
	return a < b
}

const ioErrKey = "with-injected-save-error:signature-released-while-sign-state-on-disk-is-older(double-sign-after-restart)" // observation key

// fail records a violation. Anything that happens on a path with an injected I/O error (fault model beyond
// crashes) is one finding with one key; its sub-classes are listed in the detail.
func fail(key, trace string, detail any) {
	vmu.Lock()
	defer vmu.Unlock()
	if strings.Contains(trace, "!EIO") {
		c := ioCons[key]
		if c == nil {
			ioCons[key] = &witness{trace: trace, detail: detail, count: 1}
		} else {
			c.count++
			if traceLess(trace, c.trace) {
				c.trace, c.detail = trace, detail
			}
		}
		return
	}
	w := vmap[key]
	if w == nil {
		vmap[key] = &witness{trace: trace, detail: detail, count: 1}
		return
	}
	w.count++
	if traceLess(trace, w.trace) {
		w.trace, w.detail = trace, detail
	}
}

// ---------------------------------------------------------------------------------------------
// exploration

type config struct {
	name     string
	depth    int
	alphabet []req
	keepLeft bool    // keep leftover temp files in the state (full fidelity) instead of pruning them after the reload
	ioErr    bool    // additionally inject I/O errors (EIO, process lives on) at every mutating call
	share    float64 // cumulative share of the run budget after which this configuration stops (capped)
}

type levelMap struct {
	shards [64]struct {
		mu sync.Mutex
		m  map[[20]byte]*state
	}
}

func newLevelMap() *levelMap {
	l := &levelMap{}
	for i := range l.shards {
		l.shards[i].m = map[[20]byte]*state{}
	}
	return l
}

type explorer struct {
	cfg         config
	visited     *levelMap
	next        *levelMap
	transitions atomic.Int64
	states      atomic.Int64
	crashRuns   atomic.Int64
	released    atomic.Int64
	capped      bool
	replay      bool   // scripted single-path execution (vcheck ... replay)
	last        *state // state produced by the last action in replay mode
}

func (e *explorer) offer(s *state) {
	if e.replay {
		e.last = s
		return
	}
	s.computeKey()
	sh := &e.visited.shards[s.key[0]%64]
	sh.mu.Lock()
	_, seen := sh.m[s.key]
	sh.mu.Unlock()
	if seen {
		return
	}
	nh := &e.next.shards[s.key[0]%64]
	nh.mu.Lock()
	if old, ok := nh.m[s.key]; !ok {
		nh.m[s.key] = s
		e.states.Add(1)
	} else if traceLess(s.trace, old.trace) {
		old.trace = s.trace
	}
	nh.mu.Unlock()
}

func (e *explorer) promote() []*state {
	var out []*state
	for i := range e.next.shards {
		for k, s := range e.next.shards[i].m {
			e.visited.shards[i].m[k] = nil // only membership matters for earlier levels
			out = append(out, s)
		}
	}
	e.next = newLevelMap()
	sort.Slice(out, func(i, j int) bool { return bytes.Compare(out[i].key[:], out[j].key[:]) < 0 })
	return out
}

const crashAfter = verifos.FaultKind(100)

type fault struct {
	kind verifos.FaultKind
	k    int
}

func (f fault) String() string {
	switch f.kind {
	case verifos.CrashBefore:
		return fmt.Sprintf("!crash-before-fs-call-%d", f.k)
	case verifos.CrashTorn:
		return fmt.Sprintf("!crash-in-torn-write-%d", f.k)
	case verifos.ErrBefore:
		return fmt.Sprintf("!EIO-at-fs-call-%d", f.k)
	case crashAfter:
		return "!crash-before-result-reaches-caller"
	}
	return ""
}

func errClass(err error) string {
	e := err.Error()
	if i := strings.Index(e, " from "+verifos.MemPrefix); i > 0 {
		e = e[:i]
	}
	if i := strings.IndexAny(e, ":0123456789"); i > 0 {
		e = e[:i]
	}
	return strings.TrimSpace(e)
}

// reload = process restart: NewPrivValidator on whatever the disk holds. Returns nil if it cannot start.
func (e *explorer) reload(w *worker, from *state, trace string, afterCrash bool) *state {
	w.fs.Thaw()
	var pv *privval.PrivValidator
	var err error
	rec := vk.Catch(func() { pv, err = privval.NewPrivValidator(signer, w.path) })
	if rec != nil || err != nil {
		cls := fmt.Sprint(rec)
		if err != nil {
			cls = errClass(err)
		}
		what := "restart:sign-state-unloadable-after-clean-stop("
		if afterCrash {
			what = "crash:leaves-unloadable-sign-state("
		}
		fail(what+cls+")", trace, map[string]any{"trace": trace, "error": fmt.Sprint(err), "panic": fmt.Sprint(rec), "disk": w.fs.Snapshot()})
		w.hist["reload_failed"]++
		return nil
	}
	ns := &state{hist: from.hist, maxRel: from.maxRel, trace: trace}
	ns.disk, ns.mem = w.capture(pv, e.cfg.keepLeft)
	return ns
}

// exec runs request q from state s with fault f on the real code. ok=false: the fault was not applicable.
func (e *explorer) exec(w *worker, s *state, q req, f fault) (calls []string, ok bool) {
	pv := w.restore(s)
	switch f.kind {
	case verifos.CrashBefore, verifos.CrashTorn, verifos.ErrBefore:
		w.fs.Arm(f.k, f.kind)
	default:
		w.fs.Arm(0, verifos.NoFault)
	}
	res := doSign(pv, q)
	calls = w.fs.Trace()
	if f.kind != verifos.NoFault && f.kind != crashAfter && !w.fs.Fired() {
		return calls, false
	}
	e.transitions.Add(1)
	r.Eval()
	trace := strings.TrimSpace(s.trace + " " + q.String() + f.String())
	crashed := res.rec != nil && verifos.IsCrash(res.rec)
	if res.rec != nil && !crashed {
		fail("panic("+errClass(fmt.Errorf("%v", res.rec))+")", trace, map[string]any{"trace": trace, "panic": fmt.Sprint(res.rec)})
		w.hist["panic"]++
		return calls, true
	}
	if crashed || f.kind == crashAfter {
		e.crashRuns.Add(1)
		if crashed {
			w.hist["crash_inside_"+calls[len(calls)-1]]++
		} else {
			w.hist["crash_after_completion_result_lost"]++
		}
		if ns := e.reload(w, s, trace, true); ns != nil {
			if !e.cfg.keepLeft {
				ns.disk.left = nil
			}
			e.offer(ns)
		}
		return calls, true
	}
	ns := &state{hist: s.hist, maxRel: s.maxRel, trace: trace}
	ns.disk, ns.mem = w.capture(pv, e.cfg.keepLeft)
	outcome := ""
	if res.err != nil {
		outcome = "refused(" + errClass(res.err) + ")"
	} else {
		e.released.Add(1)
		outcome = e.checkRelease(s, ns, q, res, trace)
		if !diskHolds(ns.disk, q, res.sig) {
			fail("released-signature-not-persisted:sign-state-on-disk-is-older-than-a-signature-already-returned", trace,
				map[string]any{"trace": trace, "request": q.String(), "disk_state_file": ns.disk.state})
			outcome += "+NOT_PERSISTED"
		}
	}
	if f.kind == verifos.ErrBefore {
		outcome = "EIO:" + outcome
	}
	w.hist[outcome]++
	r.Distinct(fmt.Sprintf("%s|%s|%s|%s", s.memDiskLabel(), q, f, outcome))
	e.offer(ns)
	return calls, true
}

// checkRelease is the property: q was answered with a signature (nil error).
func (e *explorer) checkRelease(s, ns *state, q req, res result, trace string) string {
	idx := q.hrs()
	rec := res.fsb + "\xff" + res.sig
	outcome := "signed_new_HRS"
	det := func(extra map[string]any) map[string]any {
		m := map[string]any{"trace": trace, "request": q.String(), "released_signbytes_hex": fmt.Sprintf("%x", res.fsb), "released_sig_hex": fmt.Sprintf("%x", res.sig)}
		for k, v := range extra {
			m[k] = v
		}
		return m
	}
	if prev := s.hist[idx]; prev != "" {
		outcome = "replayed_identical"
		if prev != rec {
			pf := prev[:strings.IndexByte(prev, 0xff)]
			if pf != res.fsb && !onlyTimestampDiffers(q.kind, pf, res.fsb) {
				fail("double-sign:two-different-messages-signed-at-same-HRS", trace, det(map[string]any{"earlier_signbytes_hex": fmt.Sprintf("%x", pf)}))
				outcome = "VIOLATION_double_sign"
			} else {
				fail("same-HRS:original-signature-and-timestamp-not-returned", trace, det(map[string]any{"earlier_signbytes_hex": fmt.Sprintf("%x", pf)}))
				outcome = "VIOLATION_not_original"
			}
		} else if want := signBytesOf(q); want != res.fsb {
			outcome = "replayed_original_timestamp"
		}
	} else {
		ns.hist[idx] = rec
	}
	if idx < s.maxRel {
		fail("regression:signed-an-HRS-lower-than-one-already-signed", trace, det(map[string]any{"highest_released_hrs_index": s.maxRel, "this_hrs_index": idx}))
		outcome = "VIOLATION_regression"
	}
	if idx > ns.maxRel {
		ns.maxRel = idx
	}
	return outcome
}

// diskHolds: would a reload of the sign-state file know about the signature just released?
func diskHolds(d diskState, q req, sig string) bool {
	if !d.has {
		return false
	}
	var fs fstate.FileState
	if err := amino.UnmarshalJSON([]byte(d.state), &fs); err != nil {
		return false
	}
	return fs.Height == q.H && fs.Round == q.R && fs.Step == q.step() && string(fs.Signature) == sig
}

func signBytesOf(q req) string {
	if q.kind == 'P' {
		p := &types.Proposal{Type: types.ProposalType, Height: q.H, Round: q.R, POLRound: -1, BlockID: blockID(q.blk), Timestamp: times[q.ts]}
		return string(p.SignBytes(chainID))
	}
	t := types.PrevoteType
	if q.kind == 'C' {
		t = types.PrecommitType
	}
	v := &types.Vote{Type: t, Height: q.H, Round: q.R, BlockID: blockID(q.blk), Timestamp: times[q.ts]}
	return string(v.SignBytes(chainID))
}

func (e *explorer) expand(w *worker, s *state) {
	for _, q := range e.cfg.alphabet {
		calls, _ := e.exec(w, s, q, fault{})
		n := len(calls)
		for k := 1; k <= n; k++ {
			e.exec(w, s, q, fault{verifos.CrashBefore, k})
			if calls[k-1] == "write" {
				e.exec(w, s, q, fault{verifos.CrashTorn, k})
			}
			if e.cfg.ioErr {
				e.exec(w, s, q, fault{verifos.ErrBefore, k})
			}
		}
		if n > 0 {
			e.exec(w, s, q, fault{crashAfter, 0})
		}
	}
}

// closure: a clean restart after every new state (no request consumed).
func (e *explorer) restartClosure() {
	var list []*state
	for i := range e.next.shards {
		for _, s := range e.next.shards[i].m {
			list = append(list, s)
		}
	}
	r.ParFor(len(list), func(i int) {
		w := <-workerPool
		defer func() { workerPool <- w }()
		s := list[i]
		w.restore(s)
		e.transitions.Add(1)
		r.Eval()
		if ns := e.reload(w, s, strings.TrimSpace(s.trace+" restart"), false); ns != nil {
			if !e.cfg.keepLeft {
				ns.disk.left = nil
			}
			w.hist["clean_restart"]++
			e.offer(ns)
		}
	})
}

func (e *explorer) run() {
	e.visited, e.next = newLevelMap(), newLevelMap()
	// level 0: first start on an empty directory, with every crash point inside the initial save
	w := <-workerPool
	startOnce := func(f fault) (int, bool) { return e.start(w, f) }
	n, _ := startOnce(fault{})
	for k := 1; k <= n; k++ {
		startOnce(fault{verifos.CrashBefore, k})
		startOnce(fault{verifos.CrashTorn, k})
		if e.cfg.ioErr {
			startOnce(fault{verifos.ErrBefore, k})
		}
	}
	workerPool <- w
	e.restartClosure()
	e.bfs()
}

// start = first start of the validator on an empty directory (creates the sign-state file), with fault f.
func (e *explorer) start(w *worker, f fault) (n int, fired bool) {
	empty := &state{maxRel: -1}
	{
		w.fs.Reset(nil)
		if f.kind != verifos.NoFault {
			w.fs.Arm(f.k, f.kind)
		}
		var pv *privval.PrivValidator
		var err error
		rec := vk.Catch(func() { pv, err = privval.NewPrivValidator(signer, w.path) })
		n, fired = len(w.fs.Trace()), w.fs.Fired()
		if f.kind != verifos.NoFault && !fired {
			return
		}
		e.transitions.Add(1)
		r.Eval()
		tr := "first-start" + f.String()
		switch {
		case rec != nil && verifos.IsCrash(rec):
			w.hist["crash_inside_first_start"]++
			if ns := e.reload(w, empty, tr, true); ns != nil {
				if !e.cfg.keepLeft {
					ns.disk.left = nil
				}
				e.offer(ns)
			}
		case rec != nil || err != nil:
			if f.kind == verifos.ErrBefore {
				w.hist["first_start_refused_on_EIO"]++
				return
			}
			fail("first-start-fails", tr, map[string]any{"err": fmt.Sprint(err), "panic": fmt.Sprint(rec)})
		default:
			ns := &state{maxRel: -1, trace: tr}
			ns.disk, ns.mem = w.capture(pv, e.cfg.keepLeft)
			e.offer(ns)
		}
		return
	}
}

func (e *explorer) bfs() {
	frontier := e.promote()
	for d := 0; d < e.cfg.depth && len(frontier) > 0; d++ {
		deadline := t0.Add(time.Duration(float64(r.Budget) * e.cfg.share))
		var hit atomic.Bool
		r.ParFor(len(frontier), func(i int) {
			if hit.Load() || time.Now().After(deadline) {
				hit.Store(true)
				return
			}
			w := <-workerPool
			defer func() { workerPool <- w }()
			e.expand(w, frontier[i])
		})
		if hit.Load() {
			r.MarkCapped()
		}
		if hit.Load() || r.Capped() || r.Expired() {
			e.capped = true
			fmt.Printf("  [%s] budget reached while expanding level %d\n", e.cfg.name, d)
			break
		}
		e.restartClosure()
		frontier = e.promote()
		fmt.Printf("  [%s] level %d: %d new states, %d states total, %d transitions, %.1fs\n", e.cfg.name, d+1, len(frontier), e.states.Load(), e.transitions.Load(), time.Since(t0).Seconds())
	}
}

var t0 = time.Now()

// report turns the collected findings into VIOLATION lines (one per class key).
func report() {
	keys := make([]string, 0, len(vmap))
	for k := range vmap {
		keys = append(keys, k)
	}
	sort.Strings(keys)
	for _, k := range keys {
		r.Violation(k, map[string]any{"minimal_witness": vmap[k].detail, "failing_transitions": vmap[k].count})
		fmt.Printf("  %s: %d; minimal trace: %s\n", k, vmap[k].count, vmap[k].trace)
	}
	if len(ioCons) > 0 {
		// Outside the property's fault model (crash points only): recorded as an observation, never a violation.
		sub := map[string]any{}
		var ks []string
		for k := range ioCons {
			ks = append(ks, k)
		}
		sort.Strings(ks)
		for _, k := range ks {
			sub[k] = map[string]any{"count": ioCons[k].count, "minimal_trace": ioCons[k].trace}
		}
		observations[ioErrKey] = map[string]any{"fault_model": "one mutating fs call of the sign-state save returns EIO (the process lives on) - an extension, not part of C34's quantifier", "sub_findings": sub}
		for _, k := range ks {
			fmt.Printf("  OBSERVATION (io-error model, not judged) %s: %d; minimal trace: %s\n", k, ioCons[k].count, ioCons[k].trace)
		}
	}
}

var observations = map[string]any{}

// ---------------------------------------------------------------------------------------------
// replay of a recorded trace on the real code (vcheck C34 replay <file>)

func parseFault(s string) fault {
	var k int
	switch {
	case s == "":
		return fault{}
	case s == "crash-before-result-reaches-caller":
		return fault{crashAfter, 0}
	case strings.HasPrefix(s, "crash-before-fs-call-"):
		fmt.Sscanf(s, "crash-before-fs-call-%d", &k)
		return fault{verifos.CrashBefore, k}
	case strings.HasPrefix(s, "crash-in-torn-write-"):
		fmt.Sscanf(s, "crash-in-torn-write-%d", &k)
		return fault{verifos.CrashTorn, k}
	case strings.HasPrefix(s, "EIO-at-fs-call-"):
		fmt.Sscanf(s, "EIO-at-fs-call-%d", &k)
		return fault{verifos.ErrBefore, k}
	}
	r.HarnessError("replay: bad fault %q", s)
	return fault{}
}

func parseReq(s string) req {
	var q req
	parts := strings.Split(s[1:], ".")
	if len(parts) != 4 {
		r.HarnessError("replay: bad request %q", s)
	}
	q.kind = s[0]
	fmt.Sscanf(parts[0], "%d", &q.H)
	fmt.Sscanf(parts[1], "%d", &q.R)
	for i, n := range blkName {
		if n == parts[2] {
			q.blk = i
		}
	}
	fmt.Sscanf(parts[3], "t%d", &q.ts)
	return q
}

func runTrace(trace string) {
	e := &explorer{cfg: config{name: "replay", keepLeft: true, ioErr: true}, replay: true}
	w := <-workerPool
	defer func() { workerPool <- w }()
	var cur *state
	fmt.Println("replaying:", trace)
	for _, tok := range strings.Fields(trace) {
		act, flt, _ := strings.Cut(tok, "!")
		f := parseFault(flt)
		e.last = nil
		switch {
		case act == "first-start":
			e.start(w, f)
		case cur == nil:
			r.HarnessError("replay: trace does not begin with first-start")
		case act == "restart":
			w.restore(cur)
			if ns := e.reload(w, cur, strings.TrimSpace(cur.trace+" restart"), false); ns != nil {
				e.offer(ns)
			}
		default:
			e.exec(w, cur, parseReq(act), f)
		}
		if e.last != nil {
			cur = e.last
		}
		if cur != nil {
			fmt.Printf("  after %-45s mem=(H%d R%d S%d) disk=%s\n", tok, cur.mem.H, cur.mem.R, cur.mem.S, strings.Join(strings.Fields(cur.disk.state), ""))
		}
	}
}

func replay(path string) {
	raw, err := os.ReadFile(path)
	if err != nil {
		r.HarnessError("replay: %v", err)
	}
	var doc struct {
		Detail struct {
			MinimalWitness struct {
				Trace string `json:"trace"`
			} `json:"minimal_witness"`
			SubFindings map[string]struct {
				MinimalTrace string `json:"minimal_trace"`
			} `json:"sub_findings"`
		} `json:"detail"`
	}
	if err := json.Unmarshal(raw, &doc); err != nil {
		r.HarnessError("replay: %v", err)
	}
	var traces []string
	if t := doc.Detail.MinimalWitness.Trace; t != "" {
		traces = append(traces, t)
	}
	var ks []string
	for k := range doc.Detail.SubFindings {
		ks = append(ks, k)
	}
	sort.Strings(ks)
	for _, k := range ks {
		traces = append(traces, doc.Detail.SubFindings[k].MinimalTrace)
	}
	if len(traces) == 0 {
		r.HarnessError("replay: no trace in %s", path)
	}
	for _, t := range traces {
		runTrace(t)
	}
	report()
	if r.Violations() == 0 {
		fmt.Println("replay: no violation reproduced")
		os.Exit(0)
	}
	os.Exit(1) // VIOLATION lines were printed by report()
}

func alphabet(hs, rs int, vals [][2]int) []req {
	var out []req
	for h := 1; h <= hs; h++ {
		for rd := 0; rd < rs; rd++ {
			for _, k := range []byte{'P', 'V', 'C'} {
				for _, v := range vals {
					out = append(out, req{kind: k, H: int64(h), R: rd, blk: v[0], ts: v[1]})
				}
			}
		}
	}
	return out
}

func main() {
	r = vk.New("model_checking")
	r.SetBudget(80*time.Second, 20*time.Minute)
	priv := ed25519.GenPrivKeyFromSecret([]byte("verif-c34-validator"))
	signer = &memoSigner{inner: types.NewMockSignerWithPrivKey(priv), cache: map[string][]byte{}}
	signer.pub = &memoPub{PubKey: priv.PubKey()}
	initWorkers(64)
	if r.ReplayIn != "" {
		replay(r.ReplayIn)
	}

	// value alphabet per HRS: (block, timestamp): same message, timestamp-only change, conflicting block, nil block
	v3 := [][2]int{{0, 0}, {0, 1}, {1, 0}}
	v4 := [][2]int{{0, 0}, {0, 1}, {1, 0}, {2, 0}}
	var cfgs []config
	if r.Quick() {
		cfgs = []config{
			{name: "crash-points", depth: 4, alphabet: alphabet(2, 2, v3), share: 0.65},
			{name: "crash-points+io-errors", depth: 3, alphabet: alphabet(2, 2, v3), ioErr: true, share: 0.88},
			{name: "crash-points+leftover-temp-files", depth: 2, alphabet: alphabet(1, 2, v3), keepLeft: true, share: 1.0},
		}
	} else {
		cfgs = []config{
			{name: "crash-points", depth: 6, alphabet: alphabet(2, 2, v3), share: 0.60},
			{name: "crash-points-with-nil-block", depth: 4, alphabet: alphabet(2, 2, v4), share: 0.75},
			{name: "crash-points+io-errors", depth: 4, alphabet: alphabet(2, 2, v3), ioErr: true, share: 0.88},
			{name: "crash-points+leftover-temp-files", depth: 3, alphabet: alphabet(1, 2, v3), keepLeft: true, share: 1.0},
		}
	}
	if only := os.Getenv("C34_CFG"); only != "" {
		var keep []config
		for _, c := range cfgs {
			for _, tok := range strings.Split(only, ",") {
				if tok == c.name || (tok != "crash-points" && strings.Contains(c.name, tok)) {
					keep = append(keep, c)
				}
			}
		}
		cfgs = keep
	}
	if d := os.Getenv("C34_DEPTH"); d != "" { // experiments only
		fmt.Sscanf(d, "%d", &cfgs[0].depth)
	}
	var totalStates, totalTrans, crashRuns, released int64
	exhaustive := true
	var perCfg []map[string]any
	for _, c := range cfgs {
		e := &explorer{cfg: c}
		e.run()
		totalStates += e.states.Load()
		totalTrans += e.transitions.Load()
		crashRuns += e.crashRuns.Load()
		released += e.released.Load()
		exhaustive = exhaustive && !e.capped
		perCfg = append(perCfg, map[string]any{"config": c.name, "depth": c.depth, "alphabet": len(c.alphabet), "states": e.states.Load(), "transitions": e.transitions.Load(), "crash_and_reload_runs": e.crashRuns.Load(), "released_signatures": e.released.Load(), "complete": !e.capped})
		fmt.Printf("[%s] depth=%d alphabet=%d states=%d transitions=%d crash-runs=%d %.1fs\n", c.name, c.depth, len(c.alphabet), e.states.Load(), e.transitions.Load(), e.crashRuns.Load(), time.Since(t0).Seconds())
	}
	// merge outcome histograms
	for len(workerPool) > 0 {
		w := <-workerPool
		for k, v := range w.hist {
			r.OutcomeN(k, v)
		}
	}
	report()
	r.Sample(map[string]any{"request_alphabet_example": []string{cfgs[0].alphabet[0].String(), cfgs[0].alphabet[1].String(), cfgs[0].alphabet[len(cfgs[0].alphabet)-1].String()},
		"legend": "kind(P proposal,V prevote,C precommit) height.round.block.timestamp; !crash-before-fs-call-k = process dies before the k-th mutating fs call of the request, then reload"})
	r.Sample(map[string]any{"trace_example": "first-start V1.0.A.t0 V1.0.A.t1!crash-before-fs-call-3 restart C1.0.B.t0"})
	r.Assumptions = []string{
		"crash model = process crash: every completed fs call is durable, the interrupted one has no effect (or, for a write, half of it); power-loss reordering (rename not durable because the directory is never fsynced) is NOT modelled",
		"the file system under the sign-state file is the verifos in-memory shim (import rewrite of \"os\" in tm2/pkg/os/tempfile.go, os.go and privval/state/state.go); everything else is the unmodified code",
		"a signature counts as released only when SignVote/SignProposal return nil (the caller never sends a message after an error or a crash)",
		"in the deep configuration leftover temp files are pruned after the post-crash reload (the reload itself runs with them present); the leftover configuration keeps them in the state at a smaller depth",
		"signer = real ed25519 (memoised); sign-bytes comparison in the oracle uses the types package",
	}
	r.Finish("breadth-first exploration of (disk, memory, released-history) states of the real PrivValidator; every request of the alphabet x every crash point (before each mutating fs call, torn write, after completion) + clean restart after every state; distinct = distinct (pv state, request, fault, outcome) transition classes",
		exhaustive, map[string]any{"states": totalStates, "transitions": totalTrans, "traces_validated_against_impl": totalTrans,
			"depth": cfgs[0].depth, "crash_and_reload_runs": crashRuns, "released_signatures_checked": released, "signer_calls": signer.count.Load(), "configs": perCfg, "observations": observations})
}
