package main

import (
	"encoding/hex"
	"fmt"
	"strings"

	"github.com/gnolang/gno/tm2/pkg/crypto/bip39"
	"github.com/gnolang/gno/tm2/pkg/crypto/hd"
	"verif/engine/vk"
)

type tok struct {
	s string
	i uint32
}

func hdTokens() []tok {
	base := []uint32{0, 1, 1<<31 - 1}
	if r.Thorough() {
		base = []uint32{0, 1, 2, 1<<31 - 1}
	}
	var t []tok
	for _, b := range base {
		t = append(t, tok{fmt.Sprint(b), b})
	}
	for _, b := range base {
		t = append(t, tok{fmt.Sprintf("%d'", b), b | 0x80000000})
	}
	return t
}

func implDerive(master, chain [32]byte, path string) (k [32]byte, err error, rec any) {
	rec = vk.Catch(func() { k, err = hd.DerivePrivateKeyForPath(master, chain, path) })
	r.Eval()
	nHD.Add(1)
	return
}

func hdWalk(ord *int64, seedName string, m xkey, cur xkey, path []string, toks []tok, maxDepth int) {
	if len(path) > 0 {
		p := strings.Join(path, "/")
		*ord++
		k, err, rec := implDerive(m.k, m.chain, p)
		key := fmt.Sprintf("seed=%s path=%s", seedName, p)
		switch {
		case rec != nil:
			report("hd DerivePrivateKeyForPath panics on a valid path", *ord, key, fmt.Sprint(rec))
		case err != nil:
			report("hd DerivePrivateKeyForPath rejects a valid path", *ord, key, err.Error())
		case k != cur.k:
			report("hd derived key differs from the BIP-32 reference", *ord, key, map[string]string{"got": hex.EncodeToString(k[:]), "want": hex.EncodeToString(cur.k[:])})
		default:
			outcome(fmt.Sprintf("hd:key_equals_reference:depth%d", len(path)))
		}
		r.Distinct("hd:" + key)
	}
	if len(path) == maxDepth {
		return
	}
	for _, t := range toks {
		child, err := refCKDpriv(cur, t.i)
		if err != nil {
			outcome("hd:reference_invalid_child_skipped")
			continue
		}
		hdWalk(ord, seedName, m, child, append(path, t.s), toks, maxDepth)
	}
}

func hdAll() {
	// --- BIP-32 published test vectors 1 and 2 (private keys and chain codes decoded from the xprv strings)
	type step struct{ path, priv string }
	tvs := []struct {
		seed  string
		mpriv string
		chain string
		steps []step
	}{
		{"000102030405060708090a0b0c0d0e0f", "e8f32e723decf4051aefac8e2c93c9c5b214313817cdb01a1494b917c8436b35", "873dff81c02f525623fd1fe5167eac3a55a049de3d314bb42ee227ffed37d508",
			[]step{{"0'", "edb2e14f9ee77d26dd93b4ecede8d16ed408ce149b6cd80b0715a2d911a0afea"},
				{"0'/1", "3c6cb8d0f6a264c91ea8b5030fadaa8e538b020f0a387421a12de9319dc93368"},
				{"0'/1/2'", "cbce0d719ecf7431d88e6a89fa1483e02e35092af60c042b1df2ff59fa424dca"},
				{"0'/1/2'/2", "0f479245fb19a38a1954c5c7c0ebab2f9bdfd96a17563ef28a6a4b1a2a764ef4"},
				{"0'/1/2'/2/1000000000", "471b76e389e528d6de6d816857e012c5455051cad6660850e58372a6c3e6e7c8"}}},
		{"fffcf9f6f3f0edeae7e4e1dedbd8d5d2cfccc9c6c3c0bdbab7b4b1aeaba8a5a29f9c999693908d8a8784817e7b7875726f6c696663605d5a5754514e4b484542",
			"4b03d6fc340455b363f51020ad3ecca4f0850280cf436c70c727923f6db46c3e", "60499f801b896d83179a4374aeb7822aaeaceaa0db1f85ee3e904c4defbd9689",
			[]step{{"0", "abe74a98f6c7eabee0428f53798f0ab8aa1bd37873999041703c742f15ac7e1e"},
				{"0/2147483647'", "877c779ad9687164e9c2f4f0f4ff0340814392330693ce95a58fe18fd52e6e93"},
				{"0/2147483647'/1", "704addf544a06e5ee4bea37098463c23613da32020d604506da8c0518e1da4b7"},
				{"0/2147483647'/1/2147483646'", "f1c7c871a54a804afe328b4c83a1c33b8e5ff48f5087273f04efa83b247d6a2d"},
				{"0/2147483647'/1/2147483646'/2", "bb7d39bdb83ecf58f2fd82b6d918341cbef428661ef01ab97c28a4842125ac23"}}},
	}
	var seeds [][]byte
	var seedNames []string
	for ti, tv := range tvs {
		seed, _ := hex.DecodeString(tv.seed)
		seeds = append(seeds, seed)
		seedNames = append(seedNames, fmt.Sprintf("bip32-tv%d", ti+1))
		ms, mc := hd.ComputeMastersFromSeed(seed)
		r.Eval()
		ref := refMaster(seed)
		if hex.EncodeToString(ms[:]) != tv.mpriv || hex.EncodeToString(mc[:]) != tv.chain {
			report("hd ComputeMastersFromSeed differs from BIP-32 published vector", int64(ti), seedNames[ti], hex.EncodeToString(ms[:]))
		}
		if ref.k != ms || ref.chain != mc {
			report("hd ComputeMastersFromSeed differs from the reference", int64(ti), seedNames[ti], hex.EncodeToString(ms[:]))
		}
		for si, st := range tv.steps {
			k, err, rec := implDerive(ms, mc, st.path)
			idx, _ := refParsePath(st.path)
			rk, rerr := refDerive(ref, idx)
			if rerr != nil || hex.EncodeToString(rk.k[:]) != st.priv {
				// the harness's own reference must reproduce the published vector, otherwise it is not a reference
				r.HarnessError("BIP-32 reference does not reproduce published vector %d step %s: %x", ti+1, st.path, rk.k)
			}
			if rec != nil || err != nil || hex.EncodeToString(k[:]) != st.priv {
				report("hd derived key differs from BIP-32 published vector", int64(ti*10+si), fmt.Sprintf("tv%d m/%s", ti+1, st.path), fmt.Sprint(rec, err, hex.EncodeToString(k[:])))
			} else {
				outcome("hd:published_vector_ok")
			}
		}
	}
	// anchors taken from the package's own documentation example (externally generated keys)
	docs := []struct{ mn, path, priv string }{
		{"barrel original fuel morning among eternal filter ball stove pluck matrix mechanic", "44'/118'/0'/0/0", "bfcb217c058d8bbafd5e186eae936106ca3e943889b0b4a093ae13822fd3170c"},
		{"barrel original fuel morning among eternal filter ball stove pluck matrix mechanic", "44'/60'/0'/0/0", "7fc4d8a8146dea344ba04c593517d3f377fa6cded36cd55aee0a0bb968e651bc"},
		{"monitor flock loyal sick object grunt duty ride develop assault harsh history", "0/7", "c4c11d8c03625515905d7e89d25dfc66126fbc629ecca6db489a1a72fc4bda78"},
	}
	for i, d := range docs {
		seed := bip39.NewSeed(d.mn, "")
		ref := refMaster(seed)
		idx, _ := refParsePath(d.path)
		rk, _ := refDerive(ref, idx)
		ms, mc := hd.ComputeMastersFromSeed(seed)
		k, err, rec := implDerive(ms, mc, d.path)
		if hex.EncodeToString(rk.k[:]) != d.priv || rec != nil || err != nil || k != rk.k {
			report("hd/bip39 differs from externally generated wallet key", int64(i), d.path, map[string]string{"impl": hex.EncodeToString(k[:]), "ref": hex.EncodeToString(rk.k[:]), "published": d.priv})
		} else {
			outcome("hd:published_vector_ok")
		}
	}
	seeds = append(seeds, bip39.NewSeed("abandon abandon abandon abandon abandon abandon abandon abandon abandon abandon abandon about", ""))
	seedNames = append(seedNames, "bip39(abandon..about)")

	// --- every path of depth <= 5 over the token menu
	toks := hdTokens()
	type job struct {
		seed int
		a, b int
	}
	var jobs []job
	for s := range seeds {
		for a := range toks {
			for b := range toks {
				jobs = append(jobs, job{s, a, b})
			}
		}
	}
	depthFor := func(seed int) int {
		if r.Quick() && seed > 0 {
			return 4
		}
		return 5
	}
	// depth-1 nodes
	for s := range seeds {
		m := refMaster(seeds[s])
		ms, mc := hd.ComputeMastersFromSeed(seeds[s])
		if ms != m.k || mc != m.chain {
			report("hd ComputeMastersFromSeed differs from the reference", int64(s), seedNames[s], hex.EncodeToString(ms[:]))
		}
		for a, t := range toks {
			c, err := refCKDpriv(m, t.i)
			if err != nil {
				continue
			}
			ord := int64(s*100+a) << 32
			hdWalk(&ord, seedNames[s], m, c, []string{t.s}, toks, 1)
		}
	}
	r.ParFor(len(jobs), func(i int) {
		j := jobs[i]
		m := refMaster(seeds[j.seed])
		c1, err := refCKDpriv(m, toks[j.a].i)
		if err != nil {
			return
		}
		c2, err := refCKDpriv(c1, toks[j.b].i)
		if err != nil {
			return
		}
		ord := int64(10000+i) << 32
		hdWalk(&ord, seedNames[j.seed], m, c2, []string{toks[j.a].s, toks[j.b].s}, toks, depthFor(j.seed))
	})

	// --- BIP-44 parameter objects: String() -> NewParamsFromPath round trip and derivation through the string
	m0 := refMaster(seeds[0])
	vals := []uint32{0, 1, 118, 1<<31 - 1}
	n := int64(0)
	for _, coin := range vals {
		for _, acct := range vals {
			for _, change := range []bool{false, true} {
				for _, ai := range vals {
					n++
					p := hd.NewParams(44, coin, acct, change, ai)
					s := p.String()
					q, err := hd.NewParamsFromPath(s)
					r.Eval()
					if err != nil || *q != *p {
						report("hd BIP44Params String/NewParamsFromPath round trip fails", n, s, fmt.Sprint(err))
						continue
					}
					ch := uint32(0)
					if change {
						ch = 1
					}
					rk, rerr := refDerive(m0, []uint32{44 | 0x80000000, coin | 0x80000000, acct | 0x80000000, ch, ai})
					k, err, rec := implDerive(m0.k, m0.chain, s)
					if rerr == nil && (rec != nil || err != nil || k != rk.k) {
						report("hd derived key differs from the BIP-32 reference", (1<<50)+n, "seed=bip32-tv1 path="+s, fmt.Sprint(rec, err))
					} else {
						outcome("hd:bip44_params_ok")
					}
					r.Distinct("hd44:" + s)
				}
			}
		}
	}

	// --- invalid paths: the strict reference yields no key; the implementation must not yield one either
	invalid := []string{"", "/", "0/", "/0", "0//1", "'", "0''", "'0", "-1", "0x1", " 0", "0 ", "1e3", "m/0", "m", "a", "0'/x",
		"2147483648", "2147483648'", "4294967295", "4294967296", "4294967296'", "4294967297", "18446744073709551616", "99999999999999999999", "٣"}
	for i, p := range invalid {
		if _, err := refParsePath(p); err == nil {
			panic("harness: invalid-path menu entry accepted by the reference: " + p)
		}
		k, err, rec := implDerive(m0.k, m0.chain, p)
		switch {
		case rec != nil:
			outcome("hd:invalid_path_panics(observation)")
			invalidPanics = append(invalidPanics, fmt.Sprintf("%q: %v", p, rec))
		case err == nil:
			report("hd DerivePrivateKeyForPath derives a key for a path that is not a BIP-32 path", int64(i), fmt.Sprintf("path=%q", p),
				map[string]string{"derived": hex.EncodeToString(k[:]), "why_invalid": "index >= 2^31 (or otherwise malformed): no BIP-32 child is denoted by this string"})
		default:
			outcome("hd:invalid_path_rejected")
		}
		r.Distinct("hdinv:" + p)
	}
	// lenient spellings of valid indices: either rejected or the key of the canonical spelling (recorded, never a third key)
	for i, sp := range [][2]string{{"-0", "0"}, {"+1", "1"}, {"00", "0"}, {"01'", "1'"}, {"+0'", "0'"}, {"0/-0", "0/0"}} {
		idx, _ := refParsePath(sp[1])
		rk, _ := refDerive(m0, idx)
		k, err, rec := implDerive(m0.k, m0.chain, sp[0])
		switch {
		case rec != nil:
			outcome("hd:invalid_path_panics(observation)")
			invalidPanics = append(invalidPanics, fmt.Sprintf("%q: %v", sp[0], rec))
		case err != nil:
			outcome("hd:lenient_spelling_rejected")
		case k == rk.k:
			outcome("hd:lenient_spelling_accepted_as_canonical_index")
		default:
			report("hd derived key differs from the BIP-32 reference", (1<<51)+int64(i), fmt.Sprintf("seed=bip32-tv1 path=%q (canonical %q)", sp[0], sp[1]), hex.EncodeToString(k[:]))
		}
	}
	r.Sample(map[string]any{"part": "hd", "seed": "bip32-tv1", "path": "2147483647'/0/1'/2147483647/0", "oracle": "independent CKDpriv chain (HMAC-SHA512, math/big secp256k1)"})
	if len(invalidPanics) > 0 {
		r.Sample(map[string]any{"part": "hd", "observation": "malformed paths that make DerivePrivateKeyForPath panic (not counted as violations)", "inputs": invalidPanics})
	}
}

var invalidPanics []string
