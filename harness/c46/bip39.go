package main

import (
	"bytes"
	"crypto/sha256"
	"encoding/hex"
	"fmt"
	"math/big"
	"strings"

	"github.com/gnolang/gno/tm2/pkg/crypto/bip39"
	"verif/engine/vk"
)

// ---- independent reference (BIP-39 text: ENT bits || first ENT/32 bits of SHA-256(ENT), 11-bit groups) ----

var refWordIdx map[string]int

func refMnemonic(ent []byte) []string {
	cs := len(ent) * 8 / 32
	h := sha256.Sum256(ent)
	v := new(big.Int).SetBytes(ent)
	v.Lsh(v, uint(cs))
	v.Or(v, big.NewInt(int64(h[0]>>(8-uint(cs)))))
	n := (len(ent)*8 + cs) / 11
	words := make([]string, n)
	mask := big.NewInt(2047)
	for i := n - 1; i >= 0; i-- {
		words[i] = bip39.WordList[new(big.Int).And(v, mask).Int64()]
		v.Rsh(v, 11)
	}
	return words
}

// refCheck: accept <=> 12/15/18/21/24 known words and checksum bits match. Returns entropy and packed (ENT||CS) value.
func refCheck(words []string) (ent []byte, packed *big.Int, ok bool) {
	n := len(words)
	if n < 12 || n > 24 || n%3 != 0 {
		return nil, nil, false
	}
	v := new(big.Int)
	for _, w := range words {
		i, found := refWordIdx[w]
		if !found {
			return nil, nil, false
		}
		v.Lsh(v, 11)
		v.Or(v, big.NewInt(int64(i)))
	}
	cs := n / 3
	entBytes := (n*11 - cs) / 8
	e := new(big.Int).Rsh(v, uint(cs))
	ent = e.FillBytes(make([]byte, entBytes))
	got := new(big.Int).And(v, big.NewInt(int64(1<<uint(cs)-1))).Int64()
	h := sha256.Sum256(ent)
	return ent, v, got == int64(h[0]>>(8-uint(cs)))
}

func entropyMenu() (out [][]byte, names []string) {
	for _, l := range []int{16, 20, 24, 28, 32} {
		add := func(name string, b []byte) {
			out = append(out, b)
			names = append(names, fmt.Sprintf("%s/%d", name, l))
		}
		add("00", bytes.Repeat([]byte{0}, l))
		add("ff", bytes.Repeat([]byte{0xff}, l))
		c := make([]byte, l)
		for i := range c {
			c[i] = byte(i)
		}
		add("ctr", c)
		b := make([]byte, l)
		b[0] = 0x80
		add("80,00..", b)
		b = make([]byte, l)
		b[l-1] = 1
		add("00..,01", b)
		add("7f", bytes.Repeat([]byte{0x7f}, l))
		add("aa", bytes.Repeat([]byte{0xaa}, l))
		add("55", bytes.Repeat([]byte{0x55}, l))
	}
	return
}

func mnemonicToBytes(m string) (out []byte, err error, rec any) {
	rec = vk.Catch(func() { out, err = bip39.MnemonicToByteArray(m) })
	r.Eval()
	nBip39.Add(1)
	return
}

// roundTrip: entropy -> NewMnemonic -> MnemonicToByteArray, all against the reference
func roundTrip(ord int64, name string, ent []byte) (words []string, ok bool) {
	var m string
	var err error
	if rec := vk.Catch(func() { m, err = bip39.NewMnemonic(ent) }); rec != nil || err != nil {
		report("bip39 NewMnemonic fails on valid entropy", ord, name, fmt.Sprint(rec, err))
		return nil, false
	}
	r.Eval()
	want := refMnemonic(ent)
	if m != strings.Join(want, " ") {
		report("bip39 NewMnemonic differs from the reference encoding", ord, name, map[string]string{"got": m, "want": strings.Join(want, " ")})
		return nil, false
	}
	if !bip39.IsMnemonicValid(m) {
		report("bip39 IsMnemonicValid rejects a generated mnemonic", ord, name, m)
	}
	out, err, rec := mnemonicToBytes(m)
	if rec != nil || err != nil {
		report("bip39 MnemonicToByteArray rejects a generated mnemonic", ord, name, fmt.Sprint(rec, err))
		return want, false
	}
	e2, packed, good := refCheck(want)
	if !good || !bytes.Equal(e2, ent) {
		panic("harness reference inconsistent")
	}
	if !bytes.Equal(out, packed.FillBytes(make([]byte, len(ent)+1))) {
		report("bip39 MnemonicToByteArray result does not carry the original entropy", ord, name, map[string]string{"got": hex.EncodeToString(out), "entropy": hex.EncodeToString(ent)})
		return want, false
	}
	// entropy recovered from the returned bytes (documented layout: ENT||CS right-aligned in ENT/8+1 bytes)
	rec2 := new(big.Int).Rsh(new(big.Int).SetBytes(out), uint(len(ent)*8/32)).FillBytes(make([]byte, len(ent)))
	if !bytes.Equal(rec2, ent) {
		report("bip39 entropy -> mnemonic -> entropy differs", ord, name, hex.EncodeToString(rec2))
		return want, false
	}
	outcome("bip39:roundtrip_ok")
	r.Distinct("bip39:" + m)
	return want, true
}

func bip39All() {
	refWordIdx = map[string]int{}
	for i, w := range bip39.WordList {
		refWordIdx[w] = i
	}
	// anchor the word list itself
	hs := sha256.Sum256([]byte(strings.Join(bip39.WordList, "\n") + "\n"))
	if len(bip39.WordList) != 2048 || len(refWordIdx) != 2048 || hex.EncodeToString(hs[:]) != "2f5eed53a4727b4bf8880d8f3f199efc90e58503646d9ff8eff3a2ed3b24dbda" {
		report("bip39 WordList is not the published english list", 0, "sha256(english.txt)", hex.EncodeToString(hs[:]))
	}
	if len(bip39.ReverseWordMap) != 2048 {
		report("bip39 ReverseWordMap incomplete", 0, "len", len(bip39.ReverseWordMap))
	}
	// published vectors (trezor python-mnemonic vectors.json, passphrase TREZOR)
	vectors := []struct{ ent, mn, seed string }{
		{"00000000000000000000000000000000", "abandon abandon abandon abandon abandon abandon abandon abandon abandon abandon abandon about",
			"c55257c360c07c72029aebc1b53c05ed0362ada38ead3e3e9efa3708e53495531f09a6987599d18264c1e1c92f2cf141630c7a3c4ab7c81b2f001698e7463b04"},
		{"7f7f7f7f7f7f7f7f7f7f7f7f7f7f7f7f", "legal winner thank year wave sausage worth useful legal winner thank yellow",
			"2e8905819b8723fe2c1d161860e5ee1830318dbf49a83bd451cfb8440c28bd6fa457fe1296106559a3c80937a1c1069be3a3a5bd381ee6260e8d9739fce1f607"},
		{"80808080808080808080808080808080", "letter advice cage absurd amount doctor acoustic avoid letter advice cage above",
			"d71de856f81a8acc65e6fc851a38d4d7ec216fd0796d0a6827a3ad6ed5511a30fa280f12eb2e47ed2ac03b5c462a0358d18d69fe4f985ec81778c1b370b652a8"},
		{"ffffffffffffffffffffffffffffffff", "zoo zoo zoo zoo zoo zoo zoo zoo zoo zoo zoo wrong",
			"ac27495480225222079d7be181583751e86f571027b0497b5b5d11218e0a8a13332572917f0f8e5a589620c6f15b11c61dee327651a14c34e18231052e48c069"},
		{"0000000000000000000000000000000000000000000000000000000000000000",
			"abandon abandon abandon abandon abandon abandon abandon abandon abandon abandon abandon abandon abandon abandon abandon abandon abandon abandon abandon abandon abandon abandon abandon art",
			"bda85446c68413707090a52022edd26a1c9462295029f2e60cd7c4f2bbd3097170af7a4d73245cafa9c3cca8d561a7c3de6f5d4a10be8ed2a5e608d68f92fcc8"},
	}
	for i, v := range vectors {
		ent, _ := hex.DecodeString(v.ent)
		m, err := bip39.NewMnemonic(ent)
		r.Eval()
		if err != nil || m != v.mn {
			report("bip39 NewMnemonic differs from published vector", int64(i), v.ent, m)
		}
		s := bip39.NewSeed(v.mn, "TREZOR")
		r.Eval()
		if hex.EncodeToString(s) != v.seed {
			report("bip39 NewSeed differs from published vector", int64(i), v.ent, hex.EncodeToString(s))
		} else {
			outcome("bip39:published_vector_ok")
		}
	}

	// entropy menu + every single-bit entropy
	ents, names := entropyMenu()
	nMenu := len(ents)
	for _, l := range []int{16, 20, 24, 28, 32} {
		for bit := 0; bit < l*8; bit++ {
			b := make([]byte, l)
			b[bit/8] = 0x80 >> (bit % 8)
			ents = append(ents, b)
			names = append(names, fmt.Sprintf("bit%d/%d", bit, l))
		}
	}
	bases := make([][]string, len(ents))
	r.ParFor(len(ents), func(i int) {
		w, ok := roundTrip(int64(i), names[i], ents[i])
		if ok {
			bases[i] = w
		}
	})
	// invalid entropy sizes
	for _, l := range []int{0, 1, 4, 15, 17, 31, 33, 36, 64} {
		_, err := bip39.NewMnemonic(make([]byte, l))
		r.Eval()
		if err == nil {
			report("bip39 NewMnemonic accepts invalid entropy size", int64(l), fmt.Sprintf("len=%d", l), nil)
		} else {
			outcome("bip39:bad_entropy_size_rejected")
		}
	}

	// every single-word substitution on the menu mnemonics (quick: 4 patterns per length; thorough: all 8)
	type sub struct{ base, pos int }
	var subs []sub
	for i := 0; i < nMenu; i++ {
		if bases[i] == nil || (r.Quick() && i%8 >= 4) {
			continue
		}
		for p := range bases[i] {
			subs = append(subs, sub{i, p})
		}
	}
	r.ParFor(len(subs), func(si int) {
		s := subs[si]
		base := bases[s.base]
		words := append([]string{}, base...)
		for wi, w := range bip39.WordList {
			if w == base[s.pos] {
				continue
			}
			words[s.pos] = w
			m := strings.Join(words, " ")
			_, _, want := refCheck(words)
			out, err, rec := mnemonicToBytes(m)
			ord := (int64(s.base)*32+int64(s.pos))*2048 + int64(wi)
			key := fmt.Sprintf("%s word#%d -> %s", names[s.base], s.pos, w)
			switch {
			case rec != nil:
				report("bip39 MnemonicToByteArray panics", ord, key, fmt.Sprint(rec))
			case err == nil && !want:
				report("bip39 accepts a mnemonic with a bad checksum", ord, key, m)
			case err != nil && want:
				report("bip39 rejects a mnemonic with a good checksum", ord, key, m)
			case want:
				_, packed, _ := refCheck(words)
				if !bytes.Equal(out, packed.FillBytes(make([]byte, len(out)))) {
					report("bip39 MnemonicToByteArray returns wrong bytes for a valid mnemonic", ord, key, hex.EncodeToString(out))
				}
				outcome("bip39:substitution_checksum_still_good_accepted")
				r.Distinct("bip39:" + m)
			default:
				outcome("bip39:substitution_bad_checksum_rejected")
			}
			if want && wi%8 != 0 {
				continue // NewSeedWithErrorChecking runs PBKDF2 on success: checked on every 8th accepted word only
			}
			_, err2 := bip39.NewSeedWithErrorChecking(m, "")
			if (err2 == nil) != want && rec == nil {
				report("bip39 NewSeedWithErrorChecking disagrees with the checksum", ord, key, m)
			}
		}
	})

	// wrong word counts, unknown words
	for i := 0; i < nMenu; i += 8 {
		base := bases[i]
		if base == nil {
			continue
		}
		try := func(what string, words []string) {
			m := strings.Join(words, " ")
			_, _, want := refCheck(words)
			_, err, rec := mnemonicToBytes(m)
			key := fmt.Sprintf("%s %s", names[i], what)
			switch {
			case rec != nil:
				report("bip39 MnemonicToByteArray panics", int64(i), key, fmt.Sprint(rec))
			case err == nil && !want:
				report("bip39 accepts a malformed mnemonic ("+what+")", int64(i), key, m)
			case err != nil && want:
				report("bip39 rejects a mnemonic with a good checksum", int64(i), key, m)
			case want:
				outcome("bip39:malformed_menu_entry_happens_to_be_valid_accepted:" + what)
			default:
				outcome("bip39:malformed_rejected:" + what)
			}
			// IsMnemonicValid is documented as word-count + word-membership only (no checksum)
			wantIV := (len(words) == 12 || len(words) == 15 || len(words) == 18 || len(words) == 21 || len(words) == 24)
			for _, w := range words {
				if _, ok := refWordIdx[w]; !ok {
					wantIV = false
				}
			}
			if bip39.IsMnemonicValid(m) != wantIV {
				report("bip39 IsMnemonicValid disagrees with count+membership ("+what+")", int64(i), key, m)
			}
		}
		for drop := 1; drop <= 3; drop++ {
			try(fmt.Sprintf("count-%d", drop), base[:len(base)-drop])
		}
		try("count+1", append(append([]string{}, base...), "abandon"))
		try("count+3", append(append([]string{}, base...), "abandon", "abandon", "abandon"))
		try("count=0", nil)
		try("count=9", base[:9])
		try("count=27", append(append(append([]string{}, base...), base...), base...)[:27])
		for p := range base {
			for _, bad := range []string{"abandonx", "Abandon", "zzz", "0"} {
				w := append([]string{}, base...)
				w[p] = bad
				try("unknown-word", w)
			}
		}
		// whitespace variants: recorded only
		for _, v := range []string{" " + strings.Join(base, " "), strings.Join(base, " ") + " ", strings.Join(base, "  "), strings.Join(base, "\n"), strings.Join(base, "\t")} {
			_, err, rec := mnemonicToBytes(v)
			switch {
			case rec != nil:
				report("bip39 MnemonicToByteArray panics", int64(i), names[i]+" whitespace variant", fmt.Sprint(rec))
			case err == nil:
				outcome("bip39:whitespace_variant_accepted")
			default:
				outcome("bip39:whitespace_variant_rejected")
			}
		}
	}
	r.Sample(map[string]any{"part": "bip39", "entropy": "80 00*15", "mnemonic": strings.Join(refMnemonic(append([]byte{0x80}, make([]byte, 15)...)), " "), "mutation": "word#11 -> every other word", "expect": "accepted iff 4 checksum bits match SHA-256"})
}
