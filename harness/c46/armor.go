package main

import (
	"bytes"
	"encoding/hex"
	"flag"
	"fmt"
	"os"
	"os/exec"
	"path/filepath"
	"strings"

	"github.com/gnolang/gno/tm2/pkg/crypto"
	carmor "github.com/gnolang/gno/tm2/pkg/crypto/armor"
	"github.com/gnolang/gno/tm2/pkg/crypto/bip39"
	"github.com/gnolang/gno/tm2/pkg/crypto/ed25519"
	"github.com/gnolang/gno/tm2/pkg/crypto/keys"
	"github.com/gnolang/gno/tm2/pkg/crypto/keys/armor"
	"github.com/gnolang/gno/tm2/pkg/crypto/secp256k1"
	"verif/engine/vk"
)

var workerFlag = flag.String("worker", "", "internal: file with an armored key to decrypt in a subprocess")

const blockTypePrivKey = "TENDERMINT PRIVATE KEY"

type passT struct{ name, val string }

type keyT struct {
	name string
	k    crypto.PrivKey
}

func passMenu() []passT {
	p72 := strings.Repeat("0123456789abcdef", 4) + "01234567"
	return []passT{{"empty", ""}, {"a", "a"}, {"b", "b"}, {"72bytes", p72}, {"73bytes(=72bytes+y)", p72 + "y"}, {"unicode", "pässwörd✓鍵"}, {"a\\x00a", "a\x00a"},
		{"long-1", "correct horse battery staple 1"}, {"long-2", "correct horse battery staple 2"}}
}

type task struct {
	ord   int64
	class string // what is being varied
	desc  string
	text  string
	pass  string
	want  crypto.PrivKey // nil = must fail
	kdf   bool           // reaches bcrypt
}

// semantics of an armored text as the oracle sees it
type sem struct {
	ok    bool
	bt    string
	nhdr  int
	kdf   string
	salt  []byte
	saltE bool
	data  []byte
}

func semOf(text string) sem {
	bt, hdr, data, err := carmor.DecodeArmor(text)
	if err != nil {
		return sem{}
	}
	s := sem{ok: true, bt: bt, nhdr: len(hdr), kdf: hdr["kdf"], data: data}
	sb, e := hex.DecodeString(hdr["salt"])
	s.salt, s.saltE = sb, e != nil || hdr["salt"] == ""
	return s
}

// expectation for a mutated text given the original semantics: same content => same key, anything else => failure
func (o sem) sameAs(m sem) bool {
	return m.ok && m.bt == o.bt && (m.nhdr == 0) == (o.nhdr == 0) && m.kdf == o.kdf && !m.saltE == !o.saltE && bytes.Equal(m.salt, o.salt) && bytes.Equal(m.data, o.data)
}

func (m sem) reachesKDF(pass string) bool {
	if !m.ok || m.bt != blockTypePrivKey {
		return false
	}
	if m.nhdr == 0 && pass == "" {
		return false
	}
	return m.kdf == "bcrypt" && !m.saltE
}

func runTask(t task) {
	m := semOf(t.text)
	if m.reachesKDF(t.pass) && len(m.salt) != 16 {
		// bcrypt rejects the salt and the library calls os.Exit: must not run in this process
		outcome("armor:skipped_in_process(bad salt length -> os.Exit)")
		return
	}
	var k crypto.PrivKey
	var err error
	rec := vk.Catch(func() { k, err = armor.UnarmorDecryptPrivKey(t.text, t.pass) })
	r.Eval()
	if m.reachesKDF(t.pass) {
		nBcrypt.Add(1)
	}
	switch {
	case rec != nil:
		report("armor UnarmorDecryptPrivKey panics ("+t.class+")", t.ord, t.desc, fmt.Sprint(rec))
	case t.want == nil && err == nil:
		report("armor decrypts although it must fail ("+t.class+")", t.ord, t.desc, map[string]any{"returned_key_type": fmt.Sprintf("%T", k)})
	case t.want != nil && err != nil:
		report("armor fails to decrypt with the right passphrase ("+t.class+")", t.ord, t.desc, err.Error())
	case t.want != nil && !k.Equals(t.want):
		report("armor decrypts to a different key ("+t.class+")", t.ord, t.desc, nil)
	case t.want != nil:
		outcome("armor:decrypted_to_original:" + t.class)
	case strings.HasPrefix(t.class, "other-passphrase"):
		outcome("armor:rejected:other-passphrase")
	case strings.HasPrefix(t.class, "near-miss passphrase"):
		outcome("armor:rejected:near-miss-passphrase")
	default:
		outcome("armor:rejected:" + t.class)
	}
	r.Distinct("armor:" + t.class + ":" + t.desc)
}

func armorWorker(file string) {
	b, _ := os.ReadFile(file)
	k, err := armor.UnarmorDecryptPrivKey(string(b), "a")
	fmt.Printf("WORKER-RESULT key=%v err=%v\n", k != nil, err)
	os.Exit(0)
}

func armorAll() {
	ed := ed25519.GenPrivKeyFromSecret([]byte("c46-armor-ed25519"))
	sp := secp256k1.GenPrivKeySecp256k1([]byte("c46-armor-secp256k1"))
	keysL := []keyT{{"ed25519", ed}, {"secp256k1", sp}}
	passes := passMenu()

	var tasks []task
	ord := int64(0)
	add := func(class, desc, text, pass string, want crypto.PrivKey) {
		ord++
		tasks = append(tasks, task{ord: ord, class: class, desc: desc, text: text, pass: pass, want: want})
	}

	// ---- phase 1: encrypt sequentially (salt/nonce come from the deterministic reader)
	armors := map[string]string{}
	for ki, k := range keysL {
		for pi, p := range passes {
			if r.Quick() && ki == 1 && !(pi == 1 || pi == 3 || pi == 5) {
				continue // quick: second key type with 3 passphrases
			}
			var a string
			if rec := vk.Catch(func() { a = armor.EncryptArmorPrivKey(k.k, p.val) }); rec != nil {
				report("armor EncryptArmorPrivKey panics", ord, k.name+"/"+p.name, fmt.Sprint(rec))
				continue
			}
			r.Eval()
			if p.val != "" {
				nBcrypt.Add(1)
			}
			armors[k.name+"/"+p.name] = a
			add("right-passphrase", fmt.Sprintf("key=%s pass=%s", k.name, p.name), a, p.val, k.k)
			for _, q := range passes {
				if q.val != p.val {
					add(fmt.Sprintf("other-passphrase: encrypted with %q, opened with %q", p.name, q.name), fmt.Sprintf("key=%s", k.name), a, q.val, nil)
				}
			}
		}
	}
	// unencrypted helpers
	ua := armor.ArmorPrivateKey(ed)
	if k, err := armor.UnarmorPrivateKey(ua); err != nil || !k.Equals(ed) {
		report("armor ArmorPrivateKey/UnarmorPrivateKey round trip fails", 0, "ed25519", fmt.Sprint(err))
	}
	if _, err := armor.UnarmorPrivateKey(armors["ed25519/a"]); err == nil {
		report("armor UnarmorPrivateKey accepts an encrypted armor", 0, "ed25519/a", nil)
	}

	// ---- phase 2: raw ciphertext mutations (re-armored with a correct CRC)
	mutKeys := []string{"ed25519/a"}
	if r.Thorough() {
		mutKeys = append(mutKeys, "secp256k1/unicode")
	}
	for _, mk := range mutKeys {
		base := armors[mk]
		pass := "a"
		if mk != "ed25519/a" {
			pass = passes[5].val
		}
		bt, hdr, enc, err := carmor.DecodeArmor(base)
		if err != nil {
			r.HarnessError("cannot decode own armor: %v", err)
		}
		for bit := 0; bit < len(enc)*8; bit++ {
			if r.Quick() && bit%8 != (bit/8)%8 {
				continue
			}
			m := append([]byte{}, enc...)
			m[bit/8] ^= 1 << (bit % 8)
			region := "body"
			if bit/8 < 24 {
				region = "nonce"
			} else if bit/8 < 40 {
				region = "tag"
			}
			add("ciphertext-bitflip", fmt.Sprintf("%s %s byte %d bit %d", mk, region, bit/8, bit%8), carmor.EncodeArmor(bt, hdr, m), pass, nil)
		}
		for _, l := range []int{0, 1, 23, 24, 39, 40, 41, len(enc) - 1} {
			add("ciphertext-truncated", fmt.Sprintf("%s to %d bytes", mk, l), carmor.EncodeArmor(bt, hdr, enc[:l]), pass, nil)
		}
		for _, x := range []byte{0x00, 0xff} {
			add("ciphertext-extended", fmt.Sprintf("%s + %02x", mk, x), carmor.EncodeArmor(bt, hdr, append(append([]byte{}, enc...), x)), pass, nil)
		}
		// salt bits (header): every bit in thorough, one per byte in quick
		salt, _ := hex.DecodeString(hdr["salt"])
		for bit := 0; bit < len(salt)*8; bit++ {
			if r.Quick() && bit%8 != (bit/8)%8 {
				continue
			}
			s2 := append([]byte{}, salt...)
			s2[bit/8] ^= 1 << (bit % 8)
			add("salt-bitflip", fmt.Sprintf("%s salt byte %d bit %d", mk, bit/8, bit%8), carmor.EncodeArmor(bt, map[string]string{"kdf": "bcrypt", "salt": fmt.Sprintf("%X", s2)}, enc), pass, nil)
		}
	}

	// ---- phase 3: armored-text single-character substitutions, oracle by decoded semantics
	subsChars := []byte{'b', '0'}
	if r.Thorough() {
		subsChars = []byte{'A', 'b', '0', '9', '=', '\n'}
	}
	for _, tk := range []struct{ name, pass string }{{"ed25519/a", "a"}, {"ed25519/empty", ""}} {
		base := armors[tk.name]
		o := semOf(base)
		for i := 0; i < len(base); i++ {
			for _, c := range subsChars {
				if base[i] == c {
					continue
				}
				mt := base[:i] + string(c) + base[i+1:]
				var want crypto.PrivKey
				cls := "armored-text-substitution(content changed or undecodable)"
				if o.sameAs(semOf(mt)) {
					want, cls = ed, "armored-text-substitution(same decoded content)"
				}
				add(cls, fmt.Sprintf("%s char %d %q->%q", tk.name, i, base[i], c), mt, tk.pass, want)
			}
		}
	}

	// ---- phase 4: header surgery on ed25519/a
	{
		base := armors["ed25519/a"]
		bt, hdr, enc, _ := carmor.DecodeArmor(base)
		surgery := func(desc string, nbt string, h map[string]string, want crypto.PrivKey) {
			add("header-surgery", "ed25519/a "+desc, carmor.EncodeArmor(nbt, h, enc), "a", want)
		}
		surgery("unchanged re-encoded", bt, hdr, ed)
		surgery("salt lower-cased", bt, map[string]string{"kdf": "bcrypt", "salt": strings.ToLower(hdr["salt"])}, ed)
		surgery("extra header", bt, map[string]string{"kdf": "bcrypt", "salt": hdr["salt"], "x": "y"}, ed)
		surgery("kdf removed", bt, map[string]string{"salt": hdr["salt"]}, nil)
		surgery("salt removed", bt, map[string]string{"kdf": "bcrypt"}, nil)
		surgery("headers removed", bt, map[string]string{}, nil)
		surgery("kdf=scrypt", bt, map[string]string{"kdf": "scrypt", "salt": hdr["salt"]}, nil)
		surgery("kdf=BCRYPT", bt, map[string]string{"kdf": "BCRYPT", "salt": hdr["salt"]}, nil)
		surgery("salt not hex", bt, map[string]string{"kdf": "bcrypt", "salt": "ZZ" + hdr["salt"][2:]}, nil)
		surgery("block type KEY INFO", "TENDERMINT KEY INFO", hdr, nil)
		surgery("block type PUBLIC KEY", "TENDERMINT PUBLIC KEY", hdr, nil)
		// the unencrypted armor must not open with a passphrase, the encrypted one not without
		add("header-surgery", "ed25519/empty opened with pass a", armors["ed25519/empty"], "a", nil)
		// wrong salt length: bcrypt errors and the library calls os.Exit -> subprocess
		for _, sl := range []string{hdr["salt"][2:], hdr["salt"] + "00"} {
			txt := carmor.EncodeArmor(bt, map[string]string{"kdf": "bcrypt", "salt": sl}, enc)
			dir := filepath.Join(vk.Root, ".work", "c46")
			os.MkdirAll(dir, 0o755)
			f := filepath.Join(dir, fmt.Sprintf("worker-salt%d.txt", len(sl)/2))
			os.WriteFile(f, []byte(txt), 0o644)
			out, err := exec.Command(os.Args[0], "-id", r.ID, "-worker", f).CombinedOutput()
			r.Eval()
			switch {
			case strings.Contains(string(out), "WORKER-RESULT key=true"):
				report("armor decrypts although it must fail (salt length)", int64(len(sl)), fmt.Sprintf("salt of %d bytes", len(sl)/2), string(out))
			case strings.Contains(string(out), "WORKER-RESULT"):
				outcome("armor:rejected:bad-salt-length")
			case err != nil:
				outcome("armor:bad_salt_length_terminates_process_via_os.Exit(observation)")
			}
		}
	}

	// ---- phase 4b: near-miss passphrases (nearmiss.go): every member of N(base) must fail to open a key encrypted with base
	for ki, k := range keysL {
		if r.Quick() && ki != 0 {
			continue // quick: one key type
		}
		for _, b := range nearBases(passes) {
			if r.Quick() && !nearQuickBases[b.name] {
				continue
			}
			a, ok := armors[k.name+"/"+b.name]
			if !ok {
				if rec := vk.Catch(func() { a = armor.EncryptArmorPrivKey(k.k, b.val) }); rec != nil {
					report("armor EncryptArmorPrivKey panics", ord, k.name+"/"+b.name, fmt.Sprint(rec))
					continue
				}
				r.Eval()
				nBcrypt.Add(1)
				add("right-passphrase", fmt.Sprintf("key=%s pass=%s", k.name, b.name), a, b.val, k.k)
			}
			for _, v := range nearMisses(b.val, r.Thorough()) {
				if b.val != "" && bcryptKeyMaterial(v.val) == bcryptKeyMaterial(b.val) {
					outcome("armor:near-miss_not_tried(same 72-byte cyclic bcrypt key material = the known bcrypt aliasing finding)")
					continue
				}
				add("near-miss passphrase, "+v.group, fmt.Sprintf("key=%s encrypted with %q, opened with variant %q", k.name, b.name, v.name), a, v.val, nil)
			}
		}
	}

	r.ParFor(len(tasks), func(i int) { runTask(tasks[i]) })
	if r.Capped() {
		return
	}

	// ---- phase 5: keybase import / export / sign, and account creation from a mnemonic
	keybaseAll(keysL, passes)
	r.Sample(map[string]any{"part": "armor", "key": "ed25519", "encrypted_with": "a", "mutation": "flip bit 3 of tag byte 27, re-armor with correct CRC", "expect": "UnarmorDecryptPrivKey error"})
	r.Sample(map[string]any{"part": "armor", "key": "ed25519", "encrypted_with": "72bytes", "decrypt_with": "73bytes(=72bytes+y)", "expect": "error"})
}

func keybaseAll(keysL []keyT, passes []passT) {
	type kt struct {
		ord    int64
		kname  string
		key    crypto.PrivKey
		enc    passT
		others []passT
	}
	var kts []kt
	encs := []int{1, 5, 3}
	if r.Thorough() {
		encs = []int{0, 1, 2, 3, 4, 5, 6}
	}
	for ki, k := range keysL {
		for _, e := range encs {
			if r.Quick() && ki == 1 && e != 5 {
				continue
			}
			var others []passT
			for oi, o := range passes {
				if oi != e && (r.Thorough() || oi == 0 || oi == 2 || oi == e+1) {
					others = append(others, o)
				}
			}
			kts = append(kts, kt{int64(len(kts)), k.name, k.k, passes[e], others})
		}
	}
	// imports are sequential (deterministic salts), exports parallel; one keybase per import because a keybase keeps a
	// 1-to-1 name<->address mapping (importing the same key under a second name removes the first)
	kbs := make([]keys.Keybase, len(kts))
	for i, t := range kts {
		name := fmt.Sprintf("%s-%d", t.kname, t.ord)
		kbs[i] = keys.NewInMemory()
		if err := kbs[i].ImportPrivKey(name, t.key, t.enc.val); err != nil {
			report("keybase ImportPrivKey fails", t.ord, name, err.Error())
		}
		r.Eval()
		if t.enc.val != "" {
			nBcrypt.Add(1)
		}
	}
	r.ParFor(len(kts), func(i int) {
		t := kts[i]
		kb := kbs[i]
		name := fmt.Sprintf("%s-%d", t.kname, t.ord)
		desc := fmt.Sprintf("key=%s pass=%s", t.kname, t.enc.name)
		k, err := kb.ExportPrivKey(name, t.enc.val)
		r.Eval()
		nBcrypt.Add(1)
		if err != nil || !k.Equals(t.key) {
			report("keybase export with the right passphrase does not return the imported key", t.ord, desc, fmt.Sprint(err))
		} else {
			outcome("keybase:export_roundtrip_ok")
		}
		msg := []byte("c46 keybase sign")
		sig, pub, err := kb.Sign(name, t.enc.val, msg)
		r.Eval()
		nBcrypt.Add(1)
		if err != nil || !pub.Equals(t.key.PubKey()) || !pub.VerifyBytes(msg, sig) {
			report("keybase Sign with the right passphrase fails", t.ord, desc, fmt.Sprint(err))
		}
		for oi, o := range t.others {
			k, err := kb.ExportPrivKey(name, o.val)
			r.Eval()
			nBcrypt.Add(1)
			d := fmt.Sprintf("%s export-with=%s", desc, o.name)
			if err == nil {
				report(fmt.Sprintf("keybase exports the key with another passphrase: imported with %q, exported with %q", t.enc.name, o.name), t.ord*100+int64(oi), "key="+t.kname, k != nil)
			} else {
				outcome("keybase:export_wrong_pass_rejected")
			}
			r.Distinct("keybase:" + d)
		}
	})
	keybaseNearMiss(keysL[0], passes)
	// account from mnemonic: keybase (bip39 -> hd -> secp256k1 -> armor) against the independent reference chain
	mn := "abandon abandon abandon abandon abandon abandon abandon abandon abandon abandon abandon about"
	type acct struct {
		bipPass     string
		account, ix uint32
	}
	accts := []acct{{"", 0, 0}, {"TREZOR", 1, 2147483647}}
	if r.Thorough() {
		accts = append(accts, acct{"", 2147483647, 1}, acct{"pässwörd", 0, 1})
	}
	kb := keys.NewInMemory()
	for i, a := range accts {
		name := fmt.Sprintf("acct-%d", i)
		info, err := kb.CreateAccount(name, mn, a.bipPass, "a", a.account, a.ix)
		r.Eval()
		nBcrypt.Add(1)
		if err != nil {
			report("keybase CreateAccount fails", int64(i), name, err.Error())
			continue
		}
		m := refMaster(bip39.NewSeed(mn, a.bipPass))
		rk, _ := refDerive(m, []uint32{44 | 0x80000000, 118 | 0x80000000, a.account | 0x80000000, 0, a.ix})
		var want secp256k1.PubKeySecp256k1
		copy(want[:], refPubFromPriv(rk.k[:]))
		if !info.GetPubKey().Equals(want) {
			report("keybase CreateAccount public key differs from the BIP-39/32/44 reference", int64(i), fmt.Sprintf("bip39pass=%q 44'/118'/%d'/0/%d", a.bipPass, a.account, a.ix), nil)
			continue
		}
		k, err := kb.ExportPrivKey(name, "a")
		r.Eval()
		nBcrypt.Add(1)
		if err != nil || !k.Equals(secp256k1.PrivKeySecp256k1(rk.k)) {
			report("keybase CreateAccount private key differs from the BIP-39/32/44 reference", int64(i), name, fmt.Sprint(err))
		} else {
			outcome("keybase:account_from_mnemonic_equals_reference")
		}
	}
	if _, err := kb.CreateAccount("bad", "abandon abandon abandon abandon abandon abandon abandon abandon abandon abandon abandon abandon", "", "a", 0, 0); err == nil {
		report("keybase CreateAccount accepts a mnemonic with a bad checksum", 0, "abandon x12", nil)
	} else {
		outcome("keybase:bad_mnemonic_rejected")
	}
}

// keybaseNearMiss: a key imported with passphrase base; Sign with every near-miss of base must fail; ExportPrivKey,
// Delete (key must still be there afterwards) and Rotate (new-passphrase callback must not run) with a near-miss must
// fail too (quick: one base, Sign for the first variant of every group + the common paddings, the other three calls
// for a 3-variant subset; thorough: every base, every variant, all four calls).
func keybaseNearMiss(k keyT, passes []passT) {
	type nt struct {
		ord   int64
		base  passT
		v     nearT
		kb    keys.Keybase
		name  string
		full  bool // also Export / Delete / Rotate
		delKb keys.Keybase
	}
	var nts []nt
	for bi, b := range nearBases(passes) {
		if b.val == "" || (r.Quick() && b.name != nearQuickKeybaseBase) {
			continue
		}
		name := fmt.Sprintf("near-%d", bi)
		kb := keys.NewInMemory()
		if err := kb.ImportPrivKey(name, k.k, b.val); err != nil {
			report("keybase ImportPrivKey fails", int64(bi), name, err.Error())
			continue
		}
		r.Eval()
		nBcrypt.Add(1)
		groupSeen := map[string]bool{}
		for vi, v := range nearMisses(b.val, r.Thorough()) {
			if bcryptKeyMaterial(v.val) == bcryptKeyMaterial(b.val) {
				outcome("keybase:near-miss_not_tried(known bcrypt aliasing finding)")
				continue
			}
			first := !groupSeen[v.group]
			groupSeen[v.group] = true
			if r.Quick() && !first && !nearQuickKeybaseVariants[v.name] {
				continue // quick: the first variant of every group + the line-end / space paddings; the armor phase has the whole family
			}
			full := r.Thorough() || v.name == "trailing LF" || v.name == "leading space" || strings.HasPrefix(v.name, "case of letter at byte 0 ")
			t := nt{int64(bi*1000 + vi), b, v, kb, name, full, nil}
			if full { // Delete gets a keybase of its own: a (wrongly) successful Delete must not disturb the other attempts
				t.delKb = keys.NewInMemory()
				if err := t.delKb.ImportPrivKey(name, k.k, b.val); err != nil {
					report("keybase ImportPrivKey fails", t.ord, name, err.Error())
					continue
				}
				r.Eval()
				nBcrypt.Add(1)
			}
			nts = append(nts, t)
		}
	}
	msg := []byte("c46 keybase near-miss")
	r.ParFor(len(nts), func(i int) {
		t := nts[i]
		desc := fmt.Sprintf("key=%s imported with %q, variant %q", k.name, t.base.name, t.v.name)
		try := func(api string, f func() error) {
			var err error
			rec := vk.Catch(func() { err = f() })
			r.Eval()
			nBcrypt.Add(1)
			switch {
			case rec != nil:
				report("keybase "+api+" panics (near-miss passphrase, "+t.v.group+")", t.ord, desc, fmt.Sprint(rec))
			case err == nil:
				report("keybase "+api+" succeeds with a near-miss passphrase ("+t.v.group+")", t.ord, desc, nil)
			default:
				outcome("keybase:" + api + "_near-miss_rejected")
			}
			r.Distinct("keybase-near:" + api + ":" + desc)
		}
		try("Sign", func() error { _, _, err := t.kb.Sign(t.name, t.v.val, msg); return err })
		if !t.full {
			return
		}
		try("ExportPrivKey", func() error { _, err := t.kb.ExportPrivKey(t.name, t.v.val); return err })
		try("Rotate", func() error {
			called := false
			err := t.kb.Rotate(t.name, t.v.val, func() (string, error) { called = true; return "", fmt.Errorf("c46: refused") })
			if called {
				return nil // the old passphrase was accepted
			}
			return err
		})
		try("Delete", func() error { return t.delKb.Delete(t.name, t.v.val, false) })
		if has, err := t.delKb.HasByName(t.name); err != nil || !has {
			report("keybase key is gone after Delete with a near-miss passphrase ("+t.v.group+")", t.ord, desc, fmt.Sprint(err))
		}
	})
	// the right passphrase still signs afterwards (nothing above may have changed the stored key)
	seen := map[string]bool{}
	for _, t := range nts {
		if seen[t.name] {
			continue
		}
		seen[t.name] = true
		sig, pub, err := t.kb.Sign(t.name, t.base.val, msg)
		r.Eval()
		nBcrypt.Add(1)
		if err != nil || !pub.Equals(k.k.PubKey()) || !pub.VerifyBytes(msg, sig) {
			report("keybase Sign with the right passphrase fails after near-miss attempts", t.ord, fmt.Sprintf("key=%s imported with %q", k.name, t.base.name), fmt.Sprint(err))
		} else {
			outcome("keybase:sign_right_pass_ok_after_near-miss_attempts")
		}
	}
}
