package main

// Near-miss passphrases: for a passphrase p the family N(p) of strings a sloppy "canonicalisation" of the passphrase
// (trimming, case folding, Unicode normalisation, control-character stripping, length clamping, de-duplication) would
// identify with p. The property says ONLY the passphrase used for encryption opens the key, so every member of N(p)
// (all are != p) must fail - both ways round: the padded bases carry the whitespace themselves and their stripped
// forms are in their family.

import (
	"fmt"
	"strings"
	"unicode"
	"unicode/utf8"
)

type nearT struct{ group, name, val string } // group = kind of canonicalisation that would identify val with the base

// precomposed <-> base + combining mark (the pairs NFC/NFD map onto each other) for the letters the menus use
var composed = []struct {
	pre rune
	dec string
}{
	{'\u00e4', "a\u0308"},
	{'\u00f6', "o\u0308"},
	{'\u00fc', "u\u0308"},
	{'\u00c4', "A\u0308"},
	{'\u00d6', "O\u0308"},
	{'\u00dc', "U\u0308"},
	{'\u00e9', "e\u0301"},
	{'\u00e8', "e\u0300"},
	{'\u00ea', "e\u0302"},
	{'\u00e1', "a\u0301"},
	{'\u00e0', "a\u0300"},
	{'\u00e2', "a\u0302"},
	{'\u00ed', "i\u0301"},
	{'\u00f3', "o\u0301"},
	{'\u00fa', "u\u0301"},
	{'\u00f1', "n\u0303"},
	{'\u00e7', "c\u0327"},
	{'\u00e5', "a\u030a"},
	{'\u00c5', "A\u030a"},
}

func nfd(s string) string {
	for _, c := range composed {
		s = strings.ReplaceAll(s, string(c.pre), c.dec)
	}
	return s
}

func nfc(s string) string {
	for _, c := range composed {
		s = strings.ReplaceAll(s, c.dec, string(c.pre))
	}
	return s
}

func flipCase(s string, at int) string { // at = byte offset of a cased rune
	c, n := utf8.DecodeRuneInString(s[at:])
	f := c
	switch {
	case unicode.IsUpper(c):
		f = unicode.ToLower(c)
	case unicode.IsLower(c):
		f = unicode.ToUpper(c)
	}
	return s[:at] + string(f) + s[at+n:]
}

// nearMisses returns N(p) in a fixed order, without duplicates and without p itself. all=false (quick) keeps one case flip
// per end (first and last cased letter) and leaves out four exotic trailing characters and three compound variants;
// all=true (thorough) flips every cased letter and has everything.
func nearMisses(p string, all bool) []nearT {
	var out []nearT
	seen := map[string]bool{p: true}
	group := "padding added"
	add := func(name, v string) {
		if !seen[v] {
			seen[v] = true
			out = append(out, nearT{group, name, v})
		}
	}
	pads := []struct{ name, s string }{
		{"space", " "}, {"tab", "\t"}, {"LF", "\n"}, {"CRLF", "\r\n"}, {"CR", "\r"}, {"VT", "\v"}, {"FF", "\f"}, {"NUL", "\x00"},
		{"U+0085 NEL", "\u0085"}, {"U+00A0 NBSP", "\u00a0"}, {"U+2028 LS", "\u2028"}, {"U+3000 ideographic space", "\u3000"},
		{"U+200B zero-width space", "\u200b"}, {"U+200D zero-width joiner", "\u200d"}, {"U+FEFF BOM", "\ufeff"},
	}
	for _, w := range pads {
		switch w.name {
		case "VT", "FF", "U+2028 LS", "U+200D zero-width joiner":
			if !all {
				continue
			}
		}
		add("trailing "+w.name, p+w.s)
	}
	for _, w := range pads {
		switch w.name {
		case "space", "tab", "LF", "CRLF", "NUL", "U+00A0 NBSP", "U+200B zero-width space", "U+FEFF BOM":
			add("leading "+w.name, w.s+p)
		}
	}
	if all {
		add("space on both sides", " "+p+" ")
		add("trailing space+LF", p+" \n")
	}
	group = "padding stripped"
	// stripped forms (non-trivial when p itself carries padding)
	add("strings.TrimSpace", strings.TrimSpace(p))
	add("TrimRight CR/LF", strings.TrimRight(p, "\r\n"))
	add("TrimLeft whitespace", strings.TrimLeftFunc(p, unicode.IsSpace))
	add("control characters removed", strings.Map(func(c rune) rune {
		if c < 0x20 || c == 0x7f {
			return -1
		}
		return c
	}, p))
	group = "letter case"
	// case
	var cased []int
	for i, c := range p {
		if unicode.IsUpper(c) || unicode.IsLower(c) {
			cased = append(cased, i)
		}
	}
	for n, i := range cased {
		if all || n == 0 || n == len(cased)-1 {
			add(fmt.Sprintf("case of letter at byte %d flipped", i), flipCase(p, i))
		}
	}
	add("strings.ToLower", strings.ToLower(p))
	add("strings.ToUpper", strings.ToUpper(p))
	group = "Unicode normalisation"
	// Unicode normalisation forms
	add("NFD (combining marks)", nfd(p))
	add("NFC (precomposed)", nfc(p))
	group = "inner whitespace"
	// inner whitespace
	if i := strings.Index(strings.TrimSpace(p), " "); i >= 0 {
		i += len(p) - len(strings.TrimLeftFunc(p, unicode.IsSpace))
		add("first inner space doubled", p[:i]+" "+p[i:])
		add("first inner space -> NBSP", p[:i]+"\u00a0"+p[i+1:])
		add("first inner space -> tab", p[:i]+"\t"+p[i+1:])
	}
	add("whitespace runs collapsed (strings.Fields)", strings.Join(strings.Fields(p), " "))
	group = "length"
	// length
	add("doubled", p+p)
	if len(p) > 0 {
		add("truncated by one byte", p[:len(p)-1])
		_, n := utf8.DecodeLastRuneInString(p)
		add("truncated by one rune", p[:len(p)-n])
		add("first byte dropped", p[1:])
		if all {
			add("last byte repeated", p+p[len(p)-1:])
		}
	}
	return out
}

// bcryptKeyMaterial is what tm2/pkg/crypto/bcrypt (like classic bcrypt) feeds the Blowfish key schedule: the 72
// bytes of (passphrase + NUL) repeated cyclically. Two passphrases with the same material are the already reported
// bcrypt aliasing finding (72-byte limit / cyclic key, known_findings.jsonl); such near-miss variants are not tried
// again under new keys, they are counted in the outcome histogram instead.
func bcryptKeyMaterial(p string) string {
	k := p + "\x00"
	var b strings.Builder
	for b.Len() < 72 {
		b.WriteString(k)
	}
	return b.String()[:72]
}

// nearBases: every menu passphrase plus bases that carry the padding / the combining marks / mixed case themselves.
func nearBases(passes []passT) []passT {
	extra := []passT{
		{"padded( Tr0ub4dor&3 LF)", " Tr0ub4dor&3 \n"},
		{"combining(pa+U+0308 ss)", "pa\u0308ssWord"},
	}
	return append(append([]passT{}, passes...), extra...)
}

// quick tier: the full family for these bases on one key type (bcrypt cost 12: ~0.25 s per try)
var nearQuickBases = map[string]bool{"empty": true, "unicode": true, "long-1": true, "padded( Tr0ub4dor&3 LF)": true}

const nearQuickKeybaseBase = "long-1"

// quick tier, keybase: besides the first variant of every group
var nearQuickKeybaseVariants = map[string]bool{"trailing space": true, "trailing LF": true, "trailing CRLF": true, "trailing NUL": true,
	"trailing U+00A0 NBSP": true, "leading space": true, "leading LF": true, "strings.ToLower": true, "truncated by one byte": true}
