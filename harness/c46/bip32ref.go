// Independent secp256k1 + BIP-32 reference (math/big, affine coordinates, HMAC-SHA512). Nothing here imports btcec/dcrd
// or the hd package under test.
package main

import (
	"crypto/hmac"
	"crypto/sha512"
	"encoding/binary"
	"errors"
	"math/big"
	"strconv"
	"strings"
)

var (
	secP, _  = new(big.Int).SetString("FFFFFFFFFFFFFFFFFFFFFFFFFFFFFFFFFFFFFFFFFFFFFFFFFFFFFFFEFFFFFC2F", 16)
	secN, _  = new(big.Int).SetString("FFFFFFFFFFFFFFFFFFFFFFFFFFFFFFFEBAAEDCE6AF48A03BBFD25E8CD0364141", 16)
	secGx, _ = new(big.Int).SetString("79BE667EF9DCBBAC55A06295CE870B07029BFCDB2DCE28D959F2815B16F81798", 16)
	secGy, _ = new(big.Int).SetString("483ADA7726A3C4655DA4FBFC0E1108A8FD17B448A68554199C47D08FFB10D4B8", 16)
)

type pt struct{ x, y *big.Int } // nil x = infinity

func ptAdd(a, b pt) pt {
	if a.x == nil {
		return b
	}
	if b.x == nil {
		return a
	}
	var l *big.Int
	if a.x.Cmp(b.x) == 0 {
		if new(big.Int).Mod(new(big.Int).Add(a.y, b.y), secP).Sign() == 0 {
			return pt{}
		}
		// doubling: l = 3x^2 / 2y
		num := new(big.Int).Mul(a.x, a.x)
		num.Mul(num, big.NewInt(3))
		den := new(big.Int).Lsh(a.y, 1)
		den.ModInverse(den, secP)
		l = num.Mul(num, den)
	} else {
		num := new(big.Int).Sub(b.y, a.y)
		den := new(big.Int).Sub(b.x, a.x)
		den.Mod(den, secP)
		den.ModInverse(den, secP)
		l = num.Mul(num, den)
	}
	l.Mod(l, secP)
	x := new(big.Int).Mul(l, l)
	x.Sub(x, a.x)
	x.Sub(x, b.x)
	x.Mod(x, secP)
	y := new(big.Int).Sub(a.x, x)
	y.Mul(y, l)
	y.Sub(y, a.y)
	y.Mod(y, secP)
	return pt{x, y}
}

func ptMul(k *big.Int, p pt) pt {
	r := pt{}
	k = new(big.Int).Mod(k, secN)
	for i := k.BitLen() - 1; i >= 0; i-- {
		r = ptAdd(r, r)
		if k.Bit(i) == 1 {
			r = ptAdd(r, p)
		}
	}
	return r
}

func ptCompress(p pt) []byte {
	out := make([]byte, 33)
	out[0] = 2 + byte(p.y.Bit(0))
	p.x.FillBytes(out[1:])
	return out
}

func ptDecompress(b []byte) (pt, bool) {
	if len(b) != 33 || (b[0] != 2 && b[0] != 3) {
		return pt{}, false
	}
	x := new(big.Int).SetBytes(b[1:])
	if x.Cmp(secP) >= 0 {
		return pt{}, false
	}
	y2 := new(big.Int).Mul(x, x)
	y2.Mul(y2, x)
	y2.Add(y2, big.NewInt(7))
	y2.Mod(y2, secP)
	e := new(big.Int).Add(secP, big.NewInt(1))
	e.Rsh(e, 2)
	y := new(big.Int).Exp(y2, e, secP)
	if new(big.Int).Mod(new(big.Int).Mul(y, y), secP).Cmp(y2) != 0 {
		return pt{}, false
	}
	if y.Bit(0) != uint(b[0]&1) {
		y.Sub(secP, y)
	}
	return pt{x, y}, true
}

func refPubFromPriv(d []byte) []byte {
	return ptCompress(ptMul(new(big.Int).SetBytes(d), pt{secGx, secGy}))
}

// ---- BIP-32 (private parent -> private child), written from the BIP text ----

type xkey struct {
	k     [32]byte
	chain [32]byte
}

func hmac512(key, data []byte) (l, r [32]byte) {
	m := hmac.New(sha512.New, key)
	m.Write(data)
	s := m.Sum(nil)
	copy(l[:], s[:32])
	copy(r[:], s[32:])
	return
}

func refMaster(seed []byte) xkey {
	l, r := hmac512([]byte("Bitcoin seed"), seed)
	return xkey{l, r}
}

var errInvalidChild = errors.New("bip32: invalid child (IL >= n or child key zero)")

// refCKDpriv: i >= 2^31 is hardened (data = 0x00 || ser256(k) || ser32(i)), else data = serP(point(k)) || ser32(i);
// child = (parse256(IL) + k) mod n, chain = IR.
func refCKDpriv(p xkey, i uint32) (xkey, error) {
	var data []byte
	if i >= 0x80000000 {
		data = append([]byte{0}, p.k[:]...)
	} else {
		data = refPubFromPriv(p.k[:])
	}
	var ib [4]byte
	binary.BigEndian.PutUint32(ib[:], i)
	data = append(data, ib[:]...)
	il, ir := hmac512(p.chain[:], data)
	ilN := new(big.Int).SetBytes(il[:])
	if ilN.Cmp(secN) >= 0 {
		return xkey{}, errInvalidChild
	}
	c := new(big.Int).Add(ilN, new(big.Int).SetBytes(p.k[:]))
	c.Mod(c, secN)
	if c.Sign() == 0 {
		return xkey{}, errInvalidChild
	}
	var out xkey
	c.FillBytes(out.k[:])
	out.chain = ir
	return out, nil
}

// refParsePath: strict parser of "a/b'/c" (no leading m/): decimal digits only, optional trailing ', index < 2^31.
func refParsePath(path string) ([]uint32, error) {
	if path == "" {
		return nil, errors.New("empty path")
	}
	var out []uint32
	for _, part := range strings.Split(path, "/") {
		hard := strings.HasSuffix(part, "'")
		if hard {
			part = part[:len(part)-1]
		}
		if part == "" {
			return nil, errors.New("empty component")
		}
		for _, c := range part {
			if c < '0' || c > '9' {
				return nil, errors.New("non-digit in component")
			}
		}
		v, err := strconv.ParseUint(part, 10, 64)
		if err != nil || v >= 1<<31 {
			return nil, errors.New("index out of range")
		}
		i := uint32(v)
		if hard {
			i |= 0x80000000
		}
		out = append(out, i)
	}
	return out, nil
}

func refDerive(m xkey, idx []uint32) (xkey, error) {
	cur := m
	for _, i := range idx {
		var err error
		if cur, err = refCKDpriv(cur, i); err != nil {
			return xkey{}, err
		}
	}
	return cur, nil
}
