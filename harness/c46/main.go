// C46: key encryption (armor / keybase), bip39 mnemonics and HD derivation are faithful.
//
// Real code under test: tm2/pkg/crypto/bip39, tm2/pkg/crypto/hd, tm2/pkg/crypto/keys/armor, tm2/pkg/crypto/keys
// (keybase), and underneath tm2/pkg/crypto/bcrypt + xsalsa20symmetric.
//
//   - bip39: every entropy of the menu (5 lengths x patterns + every single-bit entropy) -> mnemonic -> bytes, compared
//     with an independent SHA-256 checksum computation; EVERY single-word substitution (all 2047 other words at every
//     position) accepted <=> the independent checksum accepts; wrong word counts / unknown words rejected; published vectors.
//   - hd: EVERY path of depth <= 5 over {0,1,2^31-1} x {plain,hardened} on 3 seeds compared with an independent BIP-32
//     (HMAC-SHA512 + math/big secp256k1, bip32ref.go); BIP-32 test vectors 1 and 2; invalid paths must not yield a key.
//   - armor/keybase: keys x passphrase menu: decrypt(right) == key, every other passphrase fails; single-bit flips of the
//     raw ciphertext, single-character substitutions of the armored text, header surgery (bcrypt cost 12 makes each
//     decryption ~0.25 s: quick flips one bit per ciphertext byte, thorough every bit).
//   - near-miss passphrases (nearmiss.go): for a base passphrase the whole family of strings a passphrase
//     "canonicalisation" would identify with it (padding added / stripped, letter case, Unicode normalisation, inner
//     whitespace, doubled / truncated) must each FAIL to decrypt, also through keybase Sign / Export / Rotate / Delete.
package main

import (
	crand "crypto/rand"
	"sort"
	"sync"
	"sync/atomic"
	"time"

	"verif/engine/vk"
)

var r *vk.Run

// ---- per-class minimal violation reporting (stable keys) ----

type classMin struct {
	ord    int64
	key    string
	detail any
	n      int64
}

var (
	classes   = map[string]*classMin{}
	classesMu sync.Mutex
)

func report(class string, ord int64, key string, detail any) {
	classesMu.Lock()
	c := classes[class]
	if c == nil {
		c = &classMin{ord: ord, key: key, detail: detail}
		classes[class] = c
	} else if ord < c.ord {
		c.ord, c.key, c.detail = ord, key, detail
	}
	c.n++
	classesMu.Unlock()
}

func flushReports() {
	names := make([]string, 0, len(classes))
	for k := range classes {
		names = append(names, k)
	}
	sort.Strings(names)
	for _, n := range names {
		c := classes[n]
		r.Violation(n+": "+c.key, map[string]any{"class": n, "minimal_case": c.detail, "failing_cases_in_class": c.n})
	}
}

var hist sync.Map

func outcome(c string) {
	v, ok := hist.Load(c)
	if !ok {
		v, _ = hist.LoadOrStore(c, new(atomic.Int64))
	}
	v.(*atomic.Int64).Add(1)
}

func flushHist() {
	hist.Range(func(k, v any) bool { r.OutcomeN(k.(string), v.(*atomic.Int64).Load()); return true })
}

// deterministic replacement of crypto/rand.Reader: a counter stream (salt and nonce of the armor come from it)
type ctrReader struct{ c byte }

func (p *ctrReader) Read(b []byte) (int, error) {
	for i := range b {
		b[i] = p.c
		p.c = p.c*31 + 7
	}
	return len(b), nil
}

func main() {
	r = vk.New("exploration")
	r.SetBudget(400*time.Second, 25*time.Minute)
	if *workerFlag != "" {
		armorWorker(*workerFlag)
	}
	crand.Reader = &ctrReader{c: 1}

	bip39All()
	hdAll()
	armorAll()

	flushReports()
	flushHist()
	r.Assumptions = []string{
		"bip39.WordList is data (anchored by the SHA-256 of the published english.txt); golang.org/x/crypto/openpgp/armor and amino are trusted for parsing in the oracle",
		"BIP-32 'IL >= n / child key = 0' cases (probability 2^-127) are not reachable by enumeration and are not covered",
		"crypto/rand.Reader is replaced by a deterministic stream so that salts/nonces are owned by the harness",
		"quick: raw-ciphertext mutations are one bit per byte (bit = index mod 8) for one key; thorough: every bit, both key types",
		"near-miss passphrases: quick = full quick family (no VT/FF/LS/ZWJ pads, one case flip per end) for bases empty, unicode, long-1, padded on ed25519, keybase (base long-1) Sign for the first variant of every group + the common paddings (11 variants) and Export/Rotate/Delete for 3 variants; thorough = every menu passphrase + padded + combining bases, both key types, every cased letter flipped, all four keybase calls for every variant. Variants with the same 72 bytes of cyclic bcrypt key material as the base are the known bcrypt aliasing finding: counted, not tried",
		"whitespace variants of mnemonics and panics on malformed HD paths are recorded as outcomes only (outside the letter of the property)",
	}
	r.Finish("bip39: entropy menu + all single-bit entropies x round trip, every single-word substitution (pos x 2047 words) vs independent checksum; hd: every path of depth<=5 over 6 index tokens x 3 seeds vs independent BIP-32; armor/keybase: keys x passphrase pairs, base passphrase x near-miss family (padding, case, normalisation, length) via armor and keybase Sign/Export/Rotate/Delete, ciphertext bit flips, armored-text substitutions. distinct = distinct (mnemonic|path+seed|armor mutation) cases",
		true, map[string]any{"bip39_cases": nBip39.Load(), "hd_paths": nHD.Load(), "bcrypt_decryptions": nBcrypt.Load()})
}

var nBip39, nHD, nBcrypt atomic.Int64
