// C13: chain parameters can be written only by their owners.
//
// Real gno.land app (engine chainx). One chain per worker with one open block; every case is ONE transaction
// delivered from the same seeded state (cache-wrap snapshot before, rollback after) and judged by the diff of ALL
// params keys (main store, prefix /pv/) before/after the tx:
//
//	A. chain/params from user realms: every key string of <=3 atoms over the hostile menu
//	   {a : / p vm auth bank . space NUL empty "vm:p:chain_domain"} through each of the 9 write entry points
//	   (SetString/Bool/Int64/Uint64/Bytes, SetBytes(nil), SetStrings, UpdateParamStrings add/remove) from realms
//	   whose paths are built to collide (gno.land/r/vm, .../ab, .../ab/cd, .../abc, gno.land/r/sys/params/sub).
//	   Oracle: a failed tx changes nothing; otherwise every created/changed/deleted key is exactly
//	   "vm:<executing realm>:<name>" with a ':'-free name, or that realm's byte counter "_realmmeta_<realm>".
//	B. sys/params (module setters) from code that is NOT the designated realm gno.land/r/sys/params: direct call,
//	   function value, defer, closure, package-level function variable, a /p/ wrapper, a MsgRun script, a realm
//	   living UNDER the designated path. Oracle: no params key changes at all.
//	C. the designated realm (a stub standing for an executed governance proposal) writes module parameters:
//	   every field of auth/bank/vm/node at its validation boundary, wrong value types, unknown names, foreign
//	   namespaces. Oracle: a failed tx changes nothing; a changed key must be a module parameter
//	   (<module>:p:<field of that module's Params> or node:valset:{dirty,proposed}); afterwards each module's
//	   Params struct re-decoded from the raw store values must decode and pass the module's own Validate().
package main

import (
	"fmt"
	"os"
	"reflect"
	"runtime/debug"
	"runtime/pprof"
	"sort"
	"strings"
	"sync"
	"sync/atomic"
	"time"

	"github.com/gnolang/gno/gno.land/pkg/sdk/vm"
	"github.com/gnolang/gno/tm2/pkg/amino"
	"github.com/gnolang/gno/tm2/pkg/db/memdb"
	"github.com/gnolang/gno/tm2/pkg/sdk/auth"
	"github.com/gnolang/gno/tm2/pkg/sdk/bank"
	"github.com/gnolang/gno/tm2/pkg/std"
	"verif/engine/chainx"
	"verif/engine/vk"
)

const pathD = "gno.land/r/sys/params"

// designated-realm stub: the only package path the sys/params natives accept
const realmD = `package params

import sp "sys/params"

func SetString(cur realm, m, s, n, v string)          { sp.SetSysParamString(m, s, n, v) }
func SetBool(cur realm, m, s, n string, v bool)       { sp.SetSysParamBool(m, s, n, v) }
func SetInt64(cur realm, m, s, n string, v int64)     { sp.SetSysParamInt64(m, s, n, v) }
func SetUint64(cur realm, m, s, n string, v uint64)   { sp.SetSysParamUint64(m, s, n, v) }
func SetBytes(cur realm, m, s, n, v string)           { sp.SetSysParamBytes(m, s, n, []byte(v)) }
func DelBytes(cur realm, m, s, n string)              { sp.SetSysParamBytes(m, s, n, nil) }
func EmptyBytes(cur realm, m, s, n string)            { sp.SetSysParamBytes(m, s, n, []byte{}) }
func SetStrings(cur realm, m, s, n string, v ...string) { sp.SetSysParamStrings(m, s, n, v) }
func AddStrings(cur realm, m, s, n string, v ...string) { sp.UpdateSysParamStrings(m, s, n, v, true) }
func RemStrings(cur realm, m, s, n string, v ...string) { sp.UpdateSysParamStrings(m, s, n, v, false) }
`

func realmT(name string) string {
	return `package ` + name + `

import "chain/params"

func SetString(cur realm, k string)  { params.SetString(k, "S") }
func SetBool(cur realm, k string)    { params.SetBool(k, true) }
func SetInt64(cur realm, k string)   { params.SetInt64(k, -7) }
func SetUint64(cur realm, k string)  { params.SetUint64(k, 7) }
func SetBytes(cur realm, k string)   { params.SetBytes(k, []byte("B")) }
func DelBytes(cur realm, k string)   { params.SetBytes(k, nil) }
func SetStrings(cur realm, k string) { params.SetStrings(k, []string{"s1", "s2"}) }
func AddStrings(cur realm, k string) { params.UpdateParamStrings(k, []string{"u"}, true) }
func RemStrings(cur realm, k string) { params.UpdateParamStrings(k, []string{"s1"}, false) }

// non-crossing helper: runs in the CALLER's realm context
func Helper(k string) { params.SetString(k, "H") }
`
}

var tSetters = []string{"SetString", "SetBool", "SetInt64", "SetUint64", "SetBytes", "DelBytes", "SetStrings", "AddStrings", "RemStrings"}

func pkgWrap(name string) string {
	return `package ` + name + `

import sp "sys/params"

func Set(m, s, n, v string) { sp.SetSysParamString(m, s, n, v) }
func Del(m, s, n string)    { sp.SetSysParamBytes(m, s, n, nil) }
`
}

func realmEvil(name, wrapPath string) string {
	return `package ` + name + `

import (
	sp "sys/params"

	wrap "` + wrapPath + `"
	ab "gno.land/r/verif/ab"
)

var pkgVar = sp.SetSysParamString

func Direct(cur realm, m, s, n, v string)       { sp.SetSysParamString(m, s, n, v) }
func DirectBool(cur realm, m, s, n string)      { sp.SetSysParamBool(m, s, n, true) }
func DirectInt64(cur realm, m, s, n string)     { sp.SetSysParamInt64(m, s, n, 1) }
func DirectUint64(cur realm, m, s, n string)    { sp.SetSysParamUint64(m, s, n, 1) }
func DirectBytes(cur realm, m, s, n, v string)  { sp.SetSysParamBytes(m, s, n, []byte(v)) }
func DirectDel(cur realm, m, s, n string)       { sp.SetSysParamBytes(m, s, n, nil) }
func WrappedDel(cur realm, m, s, n string)      { wrap.Del(m, s, n) }
func DirectStrings(cur realm, m, s, n, v string) { sp.SetSysParamStrings(m, s, n, []string{v}) }
func DirectUpdate(cur realm, m, s, n, v string) { sp.UpdateSysParamStrings(m, s, n, []string{v}, true) }
func FuncValue(cur realm, m, s, n, v string)    { f := sp.SetSysParamString; f(m, s, n, v) }
func Deferred(cur realm, m, s, n, v string)     { defer sp.SetSysParamString(m, s, n, v) }
func Closure(cur realm, m, s, n, v string)      { func() { sp.SetSysParamString(m, s, n, v) }() }
func PkgVar(cur realm, m, s, n, v string)       { pkgVar(m, s, n, v) }
func Wrapped(cur realm, m, s, n, v string)      { wrap.Set(m, s, n, v) }
func ReadBack(cur realm, m, s, n string) string { v, _ := sp.GetSysParamString(m, s, n); return v }

// calls another realm's NON-crossing helper: the write must land in THIS realm's namespace
func ViaHelper(cur realm, k string) { ab.Helper(k) }
`
}

var evilFns = []string{"Direct", "DirectBytes", "DirectStrings", "DirectUpdate", "FuncValue", "Deferred", "Closure", "PkgVar", "Wrapped"}
var evilFns3 = []string{"DirectBool", "DirectInt64", "DirectUint64", "DirectDel", "WrappedDel"}

var (
	A    = chainx.NewKey("A")
	keys = []chainx.Key{A}
	r    *vk.Run

	targets = []string{"gno.land/r/vm", "gno.land/r/verif/ab", "gno.land/r/verif/ab/cd", "gno.land/r/verif/abc", "gno.land/r/sys/params/sub"}
	evils   = []string{"gno.land/r/verif/evil", "gno.land/r/sys/params/evil"}

	// attacker realm PATH menu: every deployable way a path can embed / extend / truncate / imitate the designated path
	// gno.land/r/sys/params (suffix, prefix, both, last element(s), parent, versioned twin, one-letter extensions).
	lookalikes = []string{
		"gno.land/r/verif/r/sys/params",        // ends in /r/sys/params
		"gno.land/r/verif/sys/params",          // ends in /sys/params
		"gno.land/r/verif/params",              // same last element
		"gno.land/r/verif/gno-land/r/sys/params", // embeds the whole designated path after a prefix
		"gno.land/r/sys/params2",               // designated path + one character
		"gno.land/r/sys/paramsx",               //
		"gno.land/r/sys/params_x",              //
		"gno.land/r/sys/param",                 // designated path minus one character
		"gno.land/r/sys",                       // parent of the designated path
		"gno.land/r/sys/params/v2",             // versioned twin: same package NAME (params), other path
		"gno.land/r/sys/params/params",         // under the designated path, same last element
		"gno.land/r/sys/params/r/sys/params",   // starts with AND ends in the designated path
		"gno.land/r/params",                    // last element directly under /r/
		"gno.land/r/sys-params/params",         //
	}
	// /p/ wrappers (the immediate caller frame of the native is the wrapper package)
	wrappers = []string{"gno.land/p/verif/wrap", "gno.land/p/sys/params", "gno.land/p/verif/r/sys/params"}
	// paths outside the chain domain: not deployable on the unchanged tree; each case is ONE tx {MsgAddPackage, MsgCall}
	foreignDomain = []string{"xgno.land/r/sys/params", "evil.land/r/sys/params", "gno.land.evil.land/r/sys/params", "land/r/sys/params"}
)

func last(p string) string { return p[strings.LastIndex(p, "/")+1:] }

// pkgName: the package name a path must declare (version suffix elements are skipped, like gno.LastPathElement)
func pkgName(p string) string {
	n := last(p)
	if len(n) >= 2 && n[0] == 'v' && strings.Trim(n[1:], "0123456789") == "" {
		return last(p[:strings.LastIndex(p, "/")])
	}
	return n
}

func evilWrap(e string) string {
	if e == "gno.land/r/verif/evil" || e == "gno.land/r/sys/params/evil" {
		return wrappers[0]
	}
	return wrappers[1]
}

func gtx(msg std.Msg) std.Tx {
	return std.Tx{Msgs: []std.Msg{msg}, Fee: std.NewFee(100_000_000, std.NewCoin("ugnot", 1_000_000)), Signatures: []std.Signature{{}}}
}

// newChain: full = with the whole attacker path menu and all wrappers deployed (parts B and C run there); the lite
// genesis (part A) carries only the two original attacker realms and the first wrapper, which makes it much cheaper.
func newChain(full bool) *chainx.Chain {
	s := chainx.Spec{Keys: keys, Fund: 1_000_000_000_000_000}
	s.GenesisTxs = []std.Tx{gtx(chainx.AddPkg(A.Addr, pathD, map[string]string{"p.gno": realmD}))}
	for _, t := range targets {
		s.GenesisTxs = append(s.GenesisTxs, gtx(chainx.AddPkg(A.Addr, t, map[string]string{"t.gno": realmT(last(t))})))
	}
	ws, es := wrappers[:1], evils
	if full {
		ws, es = wrappers, append(append([]string{}, evils...), lookalikes...)
	}
	for _, w := range ws {
		s.GenesisTxs = append(s.GenesisTxs, gtx(chainx.AddPkg(A.Addr, w, map[string]string{"w.gno": pkgWrap(pkgName(w))})))
	}
	for _, e := range es {
		s.GenesisTxs = append(s.GenesisTxs, gtx(chainx.AddPkg(A.Addr, e, map[string]string{"e.gno": realmEvil(pkgName(e), evilWrap(e))})))
	}
	c, err := chainx.New(memdb.NewMemDB(), s)
	if err != nil {
		r.HarnessError("chain init: %v", err)
	}
	for i, tr := range c.Init.TxResponses {
		if tr.Error != nil {
			r.HarnessError("genesis tx %d failed: %v %s", i, tr.Error, tr.Log)
		}
	}
	c.BeginBlock()
	// seed: every target realm owns a string, a bytes and a strings parameter (victims of overwrite attempts)
	for _, t := range targets {
		for _, fn := range []string{"SetString", "SetStrings"} {
			res := c.DeliverTx(c.MakeTx(keys, []std.Msg{chainx.Call(A.Addr, nil, t, fn, "seed"+fn)}, chainx.TxOpt{}))
			if res.Error != nil {
				r.HarnessError("seeding %s failed: %s", t, res.Log)
			}
		}
	}
	return c
}

// ---- observation ------------------------------------------------------------------------------------------------

func pv(c *chainx.Chain) map[string]string {
	out := map[string]string{}
	for k, v := range c.Items("main", "/pv/") {
		out[k[len("/pv/"):]] = v
	}
	return out
}

func changed(a, b map[string]string) []string {
	var d []string
	for k, v := range a {
		if w, ok := b[k]; !ok || w != v {
			d = append(d, k)
		}
	}
	for k := range b {
		if _, ok := a[k]; !ok {
			d = append(d, k)
		}
	}
	sort.Strings(d)
	return d
}

func show(s string) string {
	var b strings.Builder
	for _, c := range []byte(s) {
		if c > 32 && c < 127 {
			b.WriteByte(c)
		} else {
			fmt.Fprintf(&b, "\\x%02x", c)
		}
	}
	return b.String()
}

func jsonFields(t reflect.Type) map[string]int {
	out := map[string]int{}
	for i := 0; i < t.NumField(); i++ {
		tag := strings.Split(t.Field(i).Tag.Get("json"), ",")[0]
		if tag != "" {
			out[tag] = i
		}
	}
	return out
}

var moduleStructs = map[string]reflect.Type{
	"auth": reflect.TypeOf(auth.Params{}), "bank": reflect.TypeOf(bank.Params{}), "vm": reflect.TypeOf(vm.Params{}),
}

// isModuleKey: <module>:p:<field of the module's Params>, or a node parameter the node module defines.
func isModuleKey(k string) bool {
	parts := strings.Split(k, ":")
	if len(parts) != 3 {
		return false
	}
	if parts[0] == "node" {
		switch parts[1] + ":" + parts[2] {
		case "p:halt_height", "p:halt_min_version", "valset:dirty", "valset:proposed":
			return true
		}
		return false
	}
	t, ok := moduleStructs[parts[0]]
	if !ok || parts[1] != "p" {
		return false
	}
	_, ok = jsonFields(t)[parts[2]]
	return ok
}

// moduleOwned: keys under a registered module's own prefix (auth:*, bank:*, node:*, vm:p:*); vm:<realm>:* belongs to that realm.
func moduleOwned(k string) bool {
	parts := strings.Split(k, ":")
	switch parts[0] {
	case "auth", "bank", "node":
		return len(parts) >= 2
	case "vm":
		return len(parts) >= 2 && parts[1] == "p"
	}
	return false
}

// validateModules re-decodes every module's Params from raw store values and runs the module's own Validate.
func validateModules(p map[string]string) (string, string) {
	for _, mod := range []string{"auth", "bank", "vm"} {
		t := moduleStructs[mod]
		ptr := reflect.New(t)
		for tag, i := range jsonFields(t) {
			raw, ok := p[mod+":p:"+tag]
			if !ok {
				continue
			}
			if err := amino.UnmarshalJSON([]byte(raw), ptr.Elem().Field(i).Addr().Interface()); err != nil {
				return mod + ":p:" + tag, fmt.Sprintf("stored value %s does not decode into %s.Params.%s (%s): %v", raw, mod, t.Field(i).Name, t.Field(i).Type, err)
			}
		}
		var err error
		switch v := ptr.Interface().(type) {
		case *auth.Params:
			err = v.Validate()
		case *bank.Params:
			err = v.Validate()
		case *vm.Params:
			err = v.Validate()
		}
		if err != nil {
			return mod + ":p", "module Validate() rejects the stored parameters: " + err.Error()
		}
	}
	return "", ""
}

// ---- cases ------------------------------------------------------------------------------------------------------

type caseDef struct {
	part  string // A, B, C
	label string
	msg   func() std.Msg
	msgs  func() []std.Msg // alternative to msg: a multi-message transaction
	realm string // part A: executing realm whose namespace the write may touch
	alt   string // part A: an additional acceptable namespace (code of another realm executing on behalf)
}

var (
	nTx      atomic.Int64
	stateSet sync.Map
	nStates  atomic.Int64
)

func firstLine(s string) string {
	if i := strings.Index(s, "Msg Traces"); i >= 0 {
		s = s[:i]
	}
	s = strings.ReplaceAll(s, "\n", " ")
	if len(s) > 260 {
		s = s[:260]
	}
	return s
}

func runCase(c *chainx.Chain, pre map[string]string, cd caseDef) {
	pop := c.Push()
	defer pop()
	var msgs []std.Msg
	if cd.msgs != nil {
		msgs = cd.msgs()
	} else {
		msgs = []std.Msg{cd.msg()}
	}
	tx := c.MakeTx(keys, msgs, chainx.TxOpt{GasWanted: 50_000_000})
	res := c.DeliverTx(tx)
	nTx.Add(1)
	r.Eval()
	// keys written by this tx = dirty entries of the cache layer pushed right before it (no store iteration needed)
	_, mainKey := c.Base.VerifStoreKeys()
	dk, ok := c.Base.VerifDeliverMultiStore().GetStore(mainKey).(interface{ VerifDirtyKeys() []string })
	if !ok {
		r.HarnessError("main store of the deliver state is not a cache store")
	}
	post := map[string]string{}
	for k, v := range pre {
		post[k] = v
	}
	for _, k := range dk.VerifDirtyKeys() {
		if !strings.HasPrefix(k, "/pv/") {
			continue
		}
		if v, ok := c.ReadKey("main", k); ok {
			post[k[len("/pv/"):]] = v
		} else {
			delete(post, k[len("/pv/"):])
		}
	}
	diff := changed(pre, post)
	if r.Thorough() || nTx.Load()%64 == 0 {
		// cross-check of the shortcut against a full iteration of the params store (every case in thorough, every 64th in quick)
		if full := changed(pre, pv(c)); fmt.Sprint(full) != fmt.Sprint(diff) {
			r.HarnessError("dirty-key diff %v != full-scan diff %v in %s", diff, full, cd.label)
		}
	}
	failed := res.Error != nil
	if len(diff) > 0 {
		if _, loaded := stateSet.LoadOrStore(chainx.HashDump(post), true); !loaded {
			nStates.Add(1)
		}
	}
	det := func(extra map[string]any) map[string]any {
		m := map[string]any{"case": cd.label, "tx_failed": failed, "log": firstLine(res.Log)}
		var ch []string
		for _, k := range diff {
			ch = append(ch, fmt.Sprintf("%s: %q -> %q", show(k), pre[k], post[k]))
		}
		m["changed_keys"] = ch
		for k, v := range extra {
			m[k] = v
		}
		return m
	}
	cls := cd.part + ":"
	if failed {
		cls += "rejected"
		if cd.part == "B" {
			// make vacuity visible: did the attempt reach the native's caller gate, or fail earlier (undeployable path)?
			switch {
			case strings.Contains(res.Log, "can only be used from"):
				cls += "-by-caller-gate"
			case strings.Contains(res.Log, "invalid domain"):
				cls += "-undeployable-path"
			default:
				cls += "-other"
			}
		}
		if len(diff) > 0 {
			r.Violation("failed-tx-changed-params:"+cd.part+":"+cd.label, det(nil))
		}
		r.Outcome(cls)
		return
	}
	if len(diff) == 0 {
		cls += "ok-no-change"
	} else {
		cls += "ok-wrote"
	}
	r.Outcome(cls)
	switch cd.part {
	case "A":
		for _, k := range diff {
			if k == "_realmmeta_"+cd.realm || (cd.alt != "" && k == "_realmmeta_"+cd.alt) {
				continue
			}
			okNS := func(rlm string) bool {
				p := "vm:" + rlm + ":"
				return rlm != "" && strings.HasPrefix(k, p) && len(k) > len(p) && !strings.Contains(k[len(p):], ":")
			}
			if !okNS(cd.realm) && !okNS(cd.alt) {
				r.Violation("realm-write-outside-own-namespace:"+cd.label, det(map[string]any{"offending_key": show(k), "executing_realm": cd.realm}))
				return
			}
		}
	case "B":
		if len(diff) > 0 {
			r.Violation("non-designated-code-changed-params:"+cd.label, det(nil))
			return
		}
	case "C":
		for _, k := range diff {
			own := "vm:" + pathD + ":"
			if isModuleKey(k) || k == "_realmmeta_"+pathD || strings.HasPrefix(k, own) && !strings.Contains(k[len(own):], ":") {
				continue // a module parameter, or the designated realm's own realm-scoped namespace
			}
			class := "designated-realm-created-a-key-that-is-no-module-parameter"
			if strings.HasPrefix(k, "vm:") && strings.Contains(k, "/") || strings.HasPrefix(k, "_realmmeta_") {
				class = "designated-realm-wrote-into-another-realms-namespace"
			}
			r.Violation(class, det(map[string]any{"offending_key": show(k)}))
		}
		for _, k := range diff {
			if _, was := pre[k]; !was || !moduleOwned(k) {
				continue
			}
			if _, still := post[k]; !still {
				// no module's validation accepts "no value": an accepted write that removes a module-owned key bypassed it
				r.Violation("module-owned-parameter-deleted:"+k, det(map[string]any{"deleted_key": k}))
			}
		}
		if bad, why := validateModules(post); bad != "" {
			// not part of the oracle: what the next ordinary transaction experiences (written into the replay artefact)
			fu := c.DeliverTx(c.MakeTx(keys, []std.Msg{bank.MsgSend{FromAddress: A.Addr, ToAddress: chainx.NewKey("Z").Addr, Amount: std.Coins{std.NewCoin("ugnot", 1)}}}, chainx.TxOpt{}))
			r.Violation("stored-module-parameter-fails-module-validation:"+bad, det(map[string]any{"why": why, "next_plain_bank_send": map[string]any{"failed": fu.Error != nil, "log": firstLine(fu.Log)}}))
		}
	}
}

func callT(realm, fn, key string) func() std.Msg {
	return func() std.Msg { return chainx.Call(A.Addr, nil, realm, fn, key) }
}

func callD(fn string, args ...string) func() std.Msg {
	return func() std.Msg { return chainx.Call(A.Addr, nil, pathD, fn, args...) }
}

func main() {
	debug.SetGCPercent(400)
	if pf := os.Getenv("C13_CPUPROFILE"); pf != "" {
		f, _ := os.Create(pf)
		pprof.StartCPUProfile(f)
		defer pprof.StopCPUProfile()
	}
	r = vk.New("exploration")
	r.SetBudget(150*time.Second, 25*time.Minute)

	atoms := []string{"a", ":", "/", "p", "vm", "auth", "bank", ".", " ", "\x00", "", "vm:p:chain_domain"}
	keyset := map[string]bool{}
	var keys1, keys2, keys3 []string
	for _, a := range atoms {
		if !keyset[a] {
			keyset[a] = true
			keys1 = append(keys1, a)
		}
	}
	for _, a := range atoms {
		for _, b := range atoms {
			if k := a + b; !keyset[k] {
				keyset[k] = true
				keys2 = append(keys2, k)
			}
		}
	}
	for _, a := range atoms {
		for _, b := range atoms {
			for _, c := range atoms {
				if k := a + b + c; !keyset[k] {
					keyset[k] = true
					keys3 = append(keys3, k)
				}
			}
		}
	}
	// keys aimed at the victims' existing parameters and at the byte counters
	special := []string{"seedSetString", "seedSetStrings", "cd:seedSetString", "cd/seedSetString", "gno.land/r/verif/ab:seedSetString", "_realmmeta_gno.land/r/verif/ab", "p:storage_price", "#x", "ab#x:y"}

	var cases []caseDef
	// ---- part A
	addA := func(ks []string, realms []string, setters []string) {
		for _, rl := range realms {
			for _, fn := range setters {
				for _, k := range ks {
					cases = append(cases, caseDef{part: "A", label: fmt.Sprintf("%s.%s(%s)", rl, fn, show(k)), msg: callT(rl, fn, k), realm: rl})
				}
			}
		}
	}
	addA(append(append(append([]string{}, keys1...), keys2...), special...), targets, tSetters)
	if r.Quick() {
		addA(keys3, []string{"gno.land/r/verif/ab"}, []string{"SetString", "AddStrings"})
	} else {
		addA(keys3, targets, tSetters)
	}
	for _, e := range evils {
		for _, k := range append(append([]string{}, keys1...), special...) {
			cases = append(cases, caseDef{part: "A", label: fmt.Sprintf("%s.ViaHelper(%s)", e, show(k)), msg: callT(e, "ViaHelper", k), realm: e})
		}
	}
	// ---- part B: module setters from non-designated code
	victims := [][]string{
		{"vm", "p", "chain_domain", "evil.land"},
		{"vm", "p", "storage_price", "1ugnot"},
		{"auth", "p", "fee_collector", A.Addr.String()},
		{"bank", "p", "restricted_denoms", "ugnot"},
		{"node", "p", "halt_min_version", "v9"},
		{"node", "valset", "proposed", "x"},
		{"vm", "gno.land/r/verif/ab", "seedSetString", "pwned"},
		{"vm", "gno.land/r/verif/evil", "mine", "x"},
		{"node", "valset", "current", "x"},
		{"auth", "p", "unrestricted_addrs", A.Addr.String()},
	}
	for _, e := range append(append([]string{}, evils...), lookalikes...) {
		for _, v := range victims {
			for _, fn := range evilFns {
				e, v, fn := e, v, fn
				cases = append(cases, caseDef{part: "B", label: fmt.Sprintf("%s.%s(%s)", e, fn, strings.Join(v, ",")), msg: func() std.Msg { return chainx.Call(A.Addr, nil, e, fn, v...) }})
			}
			for _, fn := range evilFns3 {
				e, v, fn := e, v, fn
				cases = append(cases, caseDef{part: "B", label: fmt.Sprintf("%s.%s(%s)", e, fn, strings.Join(v[:3], ",")), msg: func() std.Msg { return chainx.Call(A.Addr, nil, e, fn, v[:3]...) }})
			}
		}
	}
	for _, v := range victims {
		v := v
		for _, body := range []string{
			"package main\n\nimport sp \"sys/params\"\n\nfunc main() { sp.SetSysParamString(%q, %q, %q, %q) }\n",
			"package main\n\nimport sp \"sys/params\"\n\nfunc main(cur realm) { sp.SetSysParamString(%q, %q, %q, %q) }\n",
			"package main\n\nimport sp \"sys/params\"\n\nfunc main() { defer sp.SetSysParamString(%q, %q, %q, %q) }\n",
			"package main\n\nimport \"gno.land/p/verif/wrap\"\n\nfunc main() { wrap.Set(%q, %q, %q, %q) }\n",
		} {
			src := fmt.Sprintf(body, v[0], v[1], v[2], v[3])
			cases = append(cases, caseDef{part: "B", label: "MsgRun{" + strings.Join(v, ",") + "}#" + fmt.Sprint(len(body)), msg: func() std.Msg { return chainx.Run(A.Addr, nil, src) }})
		}
		for _, w := range wrappers[1:] {
			src := fmt.Sprintf("package main\n\nimport w %q\n\nfunc main() { w.Set(%q, %q, %q, %q) }\n", w, v[0], v[1], v[2], v[3])
			cases = append(cases, caseDef{part: "B", label: "MsgRun{" + strings.Join(v, ",") + "}via:" + w, msg: func() std.Msg { return chainx.Run(A.Addr, nil, src) }})
		}
		for _, w := range wrappers {
			src := fmt.Sprintf("package main\n\nimport w %q\n\nfunc main() { w.Del(%q, %q, %q) }\n", w, v[0], v[1], v[2])
			cases = append(cases, caseDef{part: "B", label: "MsgRun{" + strings.Join(v[:3], ",") + "}del-via:" + w, msg: func() std.Msg { return chainx.Run(A.Addr, nil, src) }})
		}
		src := fmt.Sprintf("package main\n\nimport sp \"sys/params\"\n\nfunc main() { sp.SetSysParamBytes(%q, %q, %q, nil) }\n", v[0], v[1], v[2])
		cases = append(cases, caseDef{part: "B", label: "MsgRun{" + strings.Join(v[:3], ",") + "}del", msg: func() std.Msg { return chainx.Run(A.Addr, nil, src) }})
		// realms outside the chain domain: deploy + call in ONE transaction (the deploy must fail, or the call must)
		for _, e := range foreignDomain {
			e := e
			for _, fn := range []string{"Direct", "DirectDel"} {
				fn := fn
				args := v
				if fn == "DirectDel" {
					args = v[:3]
				}
				cases = append(cases, caseDef{part: "B", label: fmt.Sprintf("deploy+call %s.%s(%s)", e, fn, strings.Join(args, ",")), msgs: func() []std.Msg {
					return []std.Msg{chainx.AddPkg(A.Addr, e, map[string]string{"e.gno": realmEvil(pkgName(e), wrappers[0])}), chainx.Call(A.Addr, nil, e, fn, args...)}
				}})
			}
		}
	}
	// ---- part C: the designated realm
	// one chain is created now (serially: stdlib cache warm-up); its seeded params store gives the list of EXISTING keys
	t0 := time.Now()
	first := newChain(true)
	firstPre := pv(first)
	var preKeys []string
	for k := range firstPre {
		preKeys = append(preKeys, k)
	}
	sort.Strings(preKeys)
	addr := A.Addr.String()
	type w struct {
		fn   string
		args []string
	}
	var ws []w
	ints := []string{"-1", "0", "1", "100", "101", "10000", "10001", "100000", "100001", "9223372036854775807", "-9223372036854775808"}
	for _, f := range []string{"max_memo_bytes", "tx_sig_limit", "tx_size_cost_per_byte", "sig_verify_cost_ed25519", "sig_verify_cost_secp256k1", "gas_price_change_compressor", "target_gas_ratio"} {
		for _, v := range ints {
			ws = append(ws, w{"SetInt64", []string{"auth", "p", f, v}})
		}
	}
	for _, f := range []string{"min_get_read_depth_100", "min_set_read_depth_100", "min_write_depth_100", "fixed_get_read_depth_100", "fixed_set_read_depth_100", "fixed_write_depth_100", "iter_next_cost_flat", "preprocess_gas_per_byte"} {
		for _, v := range ints {
			ws = append(ws, w{"SetInt64", []string{"vm", "p", f, v}})
		}
	}
	strVals := map[string][]string{
		"auth:p:fee_collector":       {addr, "", "garbage", "g1qqqqqqqqqqqqqqqqqqqqqqqqqqqqqqqqluuxe"},
		"auth:p:initial_gasprice":    {"1ugnot/1000gas", "0ugnot/1gas", "garbage", "", "-1ugnot/1gas", "1ugnot/0gas"},
		"vm:p:sysnames_pkgpath":      {"gno.land/r/sys/names", "", "not a path", "gno.land/r/verif/ab"},
		"vm:p:syscla_pkgpath":        {"gno.land/r/sys/cla", "", "Not/A/Path"},
		"vm:p:chain_domain":          {"gno.land", "evil.land", "", "no_dot", "UPPER.land"},
		"vm:p:default_deposit":       {"600000000ugnot", "", "0ugnot", "garbage", "1ugnot,2foo"},
		"vm:p:storage_price":         {"100ugnot", "", "0ugnot", "garbage", "1ugnot,2foo", "-5ugnot"},
		"vm:p:storage_fee_collector": {addr, "", "garbage"},
		"node:p:halt_min_version":    {"v1", ""},
	}
	var sk []string
	for k := range strVals {
		sk = append(sk, k)
	}
	sort.Strings(sk)
	for _, k := range sk {
		p := strings.Split(k, ":")
		for _, v := range strVals[k] {
			ws = append(ws, w{"SetString", []string{p[0], p[1], p[2], v}})
		}
	}
	for _, v := range [][]string{{}, {"ugnot"}, {"ugnot", "foo"}, {"BAD DENOM"}, {""}, {"/gno.land/r/verif/ab:coin"}} {
		ws = append(ws, w{"SetStrings", append([]string{"bank", "p", "restricted_denoms"}, v...)})
		ws = append(ws, w{"AddStrings", append([]string{"bank", "p", "restricted_denoms"}, v...)})
	}
	for _, v := range [][]string{{}, {addr}, {"garbage"}, {addr, "garbage"}} {
		ws = append(ws, w{"SetStrings", append([]string{"auth", "p", "unrestricted_addrs"}, v...)})
		ws = append(ws, w{"AddStrings", append([]string{"auth", "p", "unrestricted_addrs"}, v...)})
		ws = append(ws, w{"RemStrings", append([]string{"auth", "p", "unrestricted_addrs"}, v...)})
	}
	for _, v := range []string{"-1", "0", "1", "2", "1000"} {
		ws = append(ws, w{"SetInt64", []string{"node", "p", "halt_height", v}})
	}
	ws = append(ws, w{"SetBool", []string{"node", "valset", "dirty", "true"}}, w{"SetStrings", []string{"node", "valset", "proposed", "garbage"}},
		w{"SetStrings", []string{"node", "valset", "current", "garbage"}}, w{"SetStrings", []string{"node", "valset", "pubkey_types", "x"}}, w{"SetStrings", []string{"node", "valset", "proposed"}})
	// every known parameter name through every setter type (type confusion), plus unknown names / modules / foreign namespaces
	names := [][]string{{"vm", "p", "chain_domain"}, {"vm", "p", "storage_price"}, {"vm", "p", "iter_next_cost_flat"}, {"vm", "p", "storage_fee_collector"},
		{"auth", "p", "max_memo_bytes"}, {"auth", "p", "fee_collector"}, {"auth", "p", "initial_gasprice"}, {"auth", "p", "unrestricted_addrs"},
		{"bank", "p", "restricted_denoms"}, {"node", "p", "halt_height"}, {"node", "valset", "dirty"},
		{"vm", "p", "nope"}, {"auth", "p", "nope"}, {"bank", "p", "nope"}, {"bank", "q", "restricted_denoms"}, {"node", "p", "nope"}, {"node", "q", "zz"}, {"vm", "q", "zz"}, {"auth", "q", "zz"},
		{"nomodule", "p", "x"}, {"", "p", "x"}, {"vm", "", "x"}, {"vm", "p", ""}, {"vm", "p", "a:b"}, {"vm:p", "chain_domain", "x"}, {"vm", "p:chain_domain", "x"},
		{"vm", "gno.land/r/verif/ab", "seedSetString"}, {"vm", "gno.land/r/verif/ab", "newkey"}, {"vm", "gno.land/r/sys/params", "own"}, {"_realmmeta_gno.land/r/verif/ab", "p", "x"}, {"params", "p", "x"}}
	for _, n := range names {
		ws = append(ws, w{"SetString", append(append([]string{}, n...), "gno.land")}, w{"SetBool", append(append([]string{}, n...), "true")},
			w{"SetInt64", append(append([]string{}, n...), "5")}, w{"SetUint64", append(append([]string{}, n...), "5")},
			w{"SetBytes", append(append([]string{}, n...), "gno.land")}, w{"SetStrings", append(append([]string{}, n...), "ugnot")},
			w{"AddStrings", append(append([]string{}, n...), "ugnot")}, w{"RemStrings", append(append([]string{}, n...), "ugnot")})
	}
	// delete / empty / zero-value menu: EVERY key that exists in the seeded params store (module parameters, chain-managed node
	// keys, realm-scoped keys) x every setter with its nil / zero-length / zero value (SetBytes(nil) is the keeper's delete)
	nExisting := 0
	for _, k := range preKeys {
		i, j := strings.Index(k, ":"), strings.LastIndex(k, ":")
		if i < 0 || j <= i {
			continue // byte counters (_realmmeta_<realm>) are not addressable as module:submodule:name
		}
		nExisting++
		n := []string{k[:i], k[i+1 : j], k[j+1:]}
		ws = append(ws, w{"DelBytes", n}, w{"EmptyBytes", n}, w{"SetString", append(append([]string{}, n...), "")}, w{"SetBool", append(append([]string{}, n...), "false")},
			w{"SetInt64", append(append([]string{}, n...), "0")}, w{"SetUint64", append(append([]string{}, n...), "0")},
			w{"SetStrings", n}, w{"AddStrings", n}, w{"RemStrings", n})
	}
	for _, n := range names {
		ws = append(ws, w{"DelBytes", n}, w{"EmptyBytes", n})
	}
	seenC := map[string]bool{}
	for _, x := range ws {
		lbl := fmt.Sprintf("%s(%s)", x.fn, show(strings.Join(x.args, ",")))
		if seenC[lbl] {
			continue
		}
		seenC[lbl] = true
		cases = append(cases, caseDef{part: "C", label: lbl, msg: callD(x.fn, x.args...)})
	}

	// the small parts first (B, C), then A: a budget cap can then only cut the tail of the key enumeration
	sort.SliceStable(cases, func(i, j int) bool { return cases[i].part != "A" && cases[j].part == "A" })
	r.Sample(map[string]any{"case": "gno.land/r/verif/ab.SetString(cd:seedSetString)", "meaning": "a realm whose path is a prefix of gno.land/r/verif/ab/cd aims at that realm's existing parameter"})
	r.Sample(map[string]any{"case": "gno.land/r/sys/params/evil.Deferred(vm,p,chain_domain,evil.land)", "meaning": "a realm living under the designated path calls the module setter in a deferred call"})
	r.Sample(map[string]any{"case": "gno.land/r/verif/r/sys/params.DirectDel(vm,p,storage_price)", "meaning": "a user realm whose path ENDS in /r/sys/params tries to delete a module parameter through SetSysParamBytes(nil)"})
	r.Sample(map[string]any{"case": "DelBytes(vm,p,storage_price)", "meaning": "the designated realm deletes a module-owned key (SetSysParamBytes(nil)): must be rejected by the module's validation, the key must survive"})
	r.Sample(map[string]any{"case": "SetString(auth,p,initial_gasprice,1ugnot/1000gas)", "meaning": "the designated realm writes a module parameter; the stored bytes must decode into auth.Params and validate"})

	// Two tracks. Parts B and C (first in the case order) run on the FULL warm-up chain, part A beside it on up to 6 lite
	// chains created lazily; every chain is owned by one goroutine at a time.
	fmt.Printf("warm-up chain: %.1fs, %d cases\n", time.Since(t0).Seconds(), len(cases))
	nBC := 0
	for nBC < len(cases) && cases[nBC].part != "A" {
		nBC++
	}
	var done atomic.Int64
	const chunk = 64
	runChunk := func(c *chainx.Chain, pre map[string]string, cs []caseDef) {
		for _, cd := range cs {
			if r.Expired() {
				return
			}
			runCase(c, pre, cd)
			r.Distinct(cd.part + cd.label)
			done.Add(1)
		}
	}
	preOf := func(c *chainx.Chain) map[string]string {
		pre := pv(c)
		if bad, why := validateModules(pre); bad != "" {
			r.HarnessError("genesis module params do not validate: %s %s", bad, why)
		}
		return pre
	}
	var wg sync.WaitGroup
	wg.Add(1)
	go func() {
		defer wg.Done()
		if bad, why := validateModules(firstPre); bad != "" {
			r.HarnessError("genesis module params do not validate: %s %s", bad, why)
		}
		runChunk(first, firstPre, cases[:nBC])
		fmt.Printf("parts B+C track done: %.1fs\n", time.Since(t0).Seconds())
	}()
	pool := make(chan *chainx.Chain, 64)
	var created atomic.Int64
	pres := sync.Map{}
	nChunks := (len(cases) - nBC + chunk - 1) / chunk
	r.ParFor(nChunks, func(ci int) {
		var c *chainx.Chain
		select {
		case c = <-pool:
		default:
			if created.Add(1) <= 6 {
				c = newChain(false)
			} else {
				c = <-pool
			}
		}
		defer func() { pool <- c }()
		var pre map[string]string
		if v, ok := pres.Load(c); ok {
			pre = v.(map[string]string)
		} else {
			pre = preOf(c)
			pres.Store(c, pre)
		}
		lo := nBC + ci*chunk
		runChunk(c, pre, cases[lo:min(lo+chunk, len(cases))])
	})
	fmt.Printf("part A track done: %.1fs\n", time.Since(t0).Seconds())
	wg.Wait()
	nA, nB, nC := 0, 0, 0
	for _, c := range cases {
		switch c.part {
		case "A":
			nA++
		case "B":
			nB++
		default:
			nC++
		}
	}
	r.Assumptions = []string{
		"the designated realm is a stub deployed at gno.land/r/sys/params exposing the seven sys/params setters; it stands for an executed governance proposal (the real realm puts GovDAO in front of the same natives)",
		"every case is a single transaction from the same seeded state (open block, cache-wrap snapshot/rollback); the params store is read from the deliver state after the tx",
		"an accepted write that REMOVES a module-owned key (auth:*, bank:*, node:*, vm:p:*) that existed before counts as a validation bypass: no module's WillSetParam accepts a nil value",
		"attacker realm paths are deployed in genesis (all menu paths are deployable on the unchanged tree); paths outside the chain domain cannot be deployed and are tried as one {MsgAddPackage, MsgCall} transaction",
		"a key belongs to realm R iff it is exactly vm:<R>:<name> with a ':'-free name (or R's byte counter _realmmeta_<R>); module parameter = <module>:p:<field of the module's Params struct> or node:{p:halt_height,p:halt_min_version,valset:dirty,valset:proposed}",
	}
	pprof.StopCPUProfile()
	r.Finish(fmt.Sprintf("A: %d (realm, write entry point, key) cases: all key strings of <=2 atoms (+ <=3 atoms on a subset in quick, everywhere in thorough) over a 12-atom hostile menu x 9 entry points x 5 colliding realms; B: %d attempts to reach the module setters (all 7 + delete) from non-designated code: 16 deployed attacker realms whose paths embed/extend/truncate/imitate the designated path x 10 victim keys x 14 caller shapes, 3 /p/ wrappers and MsgRun scripts, 4 foreign-domain paths as deploy+call transactions; C: %d writes by the designated realm at validation boundaries / wrong types / unknown names, plus every existing key x {delete, empty bytes, zero value of every setter}; each one tx on the real app, judged by the diff of all params keys and by re-validating the stored module parameters", nA, nB, nC),
		done.Load() == int64(len(cases)), map[string]any{"cases": len(cases), "cases_done": done.Load(), "distinct_param_states": nStates.Load(), "transactions": nTx.Load(), "atoms": len(atoms),
			"attacker_realm_paths": len(evils) + len(lookalikes) + len(foreignDomain), "wrapper_packages": len(wrappers), "existing_keys_in_value_menu": nExisting})
}
