package main

import (
	"encoding/json"
	"fmt"
	"os"

	"verif/harness/c03/rx"
)

// probe mode (diagnostics only, never part of a tier): `-probe file.json` runs a hand-written scenario through the
// same keeper path (MsgAddPackage / MsgCall / MsgRun in one open block) and prints, per step, the tx result and the
// masked diff of every watched realm's persisted objects.
//
//	{"pkgs":[{"path":..,"files":{..}}], "watch":["gno.land/r/verif/victim"],
//	 "steps":[{"add":"gno.land/r/verif/atk","files":{..}}, {"run":"package main ..."}, {"call":"gno.land/r/..","fn":"F","args":[]}, {"rollback":true}]}
type probeStep struct {
	Add      string            `json:"add"`
	Files    map[string]string `json:"files"`
	Run      string            `json:"run"`
	Call     string            `json:"call"`
	Fn       string            `json:"fn"`
	Args     []string          `json:"args"`
	Rollback bool              `json:"rollback"` // undo this step afterwards
}

type probeSpec struct {
	Pkgs []struct {
		Path  string            `json:"path"`
		Files map[string]string `json:"files"`
	} `json:"pkgs"`
	NoDefault bool        `json:"no_default"`
	Watch     []string    `json:"watch"`
	Steps     []probeStep `json:"steps"`
}

func runProbe(file string) {
	b, err := os.ReadFile(file)
	if err != nil {
		r.HarnessError("probe: %v", err)
	}
	var sp probeSpec
	if err := json.Unmarshal(b, &sp); err != nil {
		r.HarnessError("probe: %v", err)
	}
	var pkgs []rx.Pkg
	if !sp.NoDefault {
		pkgs = basePkgs()
	}
	for _, p := range sp.Pkgs {
		pkgs = append(pkgs, rx.Pkg{Path: p.Path, Files: p.Files})
	}
	if len(sp.Watch) == 0 {
		sp.Watch = []string{victimPath}
	}
	e, err := rx.NewEnv(pkgs)
	if err != nil {
		r.HarnessError("probe env: %v", err)
	}
	for i, st := range sp.Steps {
		before := map[string]snap{}
		for _, w := range sp.Watch {
			before[w] = snapshot(e, w)
		}
		pop := e.Push()
		var res rx.Res
		what := ""
		switch {
		case st.Add != "":
			res = e.AddPkg(st.Add, st.Files)
			what = "add " + st.Add
		case st.Run != "":
			res = e.Run(st.Run)
			what = "run"
		case st.Call != "":
			res = e.Call(st.Call, st.Fn, st.Args...)
			what = "call " + st.Call + "." + st.Fn
		}
		fmt.Printf("step %d %s: ok=%v data=%q\n", i, what, res.OK, res.Data)
		if !res.OK {
			fmt.Printf("   log: %s\n", reason(res.Log))
			if os.Getenv("PROBE_FULL") != "" {
				fmt.Println(res.Log)
			}
		}
		for _, w := range sp.Watch {
			after := snapshot(e, w)
			d := diff(before[w], after)
			fmt.Printf("   %s changes: %v\n", w, d)
			if os.Getenv("PROBE_OBJ") != "" {
				for id, v := range after {
					if before[w][id] != v {
						fmt.Printf("      %s = %s\n", short(id), v)
					}
				}
			}
		}
		if st.Rollback {
			pop()
		}
	}
	os.Exit(0)
}
