package main

import (
	"fmt"
	"regexp"
	"sort"
	"strings"
)

// ---- wrapped attack classes ---------------------------------------------------------------------------------
//
// The plain grammar (gen.go) executes one write statement W at the top level of the attacker's entry function.
// The wrappers below deliver the same statements W through the other ways foreign code gets to run while it can
// reach the victim's objects:
//
//   recover   W runs inside a function that recovers the readonly panic; the transaction CONTINUES and then makes a
//             legitimate call into the victim (Touch: the victim rewrites sibling parts of all its containers, so
//             its own finalization re-saves them). Also observed inside the tx through the victim's own eyes
//             (vic.Dump() before/after: values, lengths, capacities, key sets).
//   callback  W is the body of an attacker callable (closure, top-level function, method value, interface
//             implementation) that is INVOKED BY the victim's side: a /p/ method on a victim-owned receiver that takes
//             a callback (avl.Tree.Iterate style), a victim function (crossing or not), a victim-minted closure, an
//             interface method call made by the victim.
//   handout   the victim creates a FRESH object (&T{}, new(T), make, literal, &local, &fresh[i]), links it into its state
//             and in the same call hands it to the attacker's callable; W is generated type-directed over the
//             handed parameter x (unreal, not yet finalized objects).
//   typepun   W is the body of a method declared on an ATTACKER-declared named type; the receiver is a victim value
//             converted (explicitly or by assignment) to that type.
//
// Oracle (reference model = the same program with W replaced by a no-op): the transaction aborts, or the victim's
// persisted objects after P(W) equal those after P(no-op) (bookkeeping masked), and — recover class — the victim's own
// Dump() is the same before and after the recovered W.

type wrapper struct {
	group, route, carrier string
	ctxs                  []string // E (MsgRun script), R (another realm's crossing function via MsgCall), N (that realm's non-crossing function called from a MsgRun)
	modes                 int      // hand-out creation modes (0 = not a hand-out)
	kind                  string   // hand-out kind
	handed                string   // hand-out type name
	build                 func(W, sfx, ctx, mode string) (decls, body string)
	payloads              []program
	obs                   bool
	allowed               bool // by design: the victim itself calls /p/ code (runs with the victim's authority)
}

type wprog struct {
	pi       int // index of the payload within its wrapper
	w        *wrapper
	ctx      string
	mode     int
	pl       program
	isRef    bool
	decls    string
	body     string
	fn       string // entry function name inside a batch package
	refKey   string
	classKey string
	uid      int
}

func (p *wprog) label() string {
	m := ""
	if p.w.modes > 0 {
		m = fmt.Sprintf("/mode%d", p.mode)
	}
	return fmt.Sprintf("[%s/%s/%s%s] %s", p.w.group, p.w.route, p.w.carrier, m, p.pl.label())
}

const nop = "_ = 0"

func recWrap(W string) string {
	return "func() {\n\tdefer func() { recover() }()\n" + indent(W) + "}()"
}

// callable builds an attacker callable of the given signature around W.
func callable(kind, sig, W, sfx string) (decls, expr string) {
	params, ret, tail := "()", "", ""
	switch sig {
	case "each":
		params, ret, tail = "(i int)", " bool", "\nreturn true"
	case "PS":
		params = "(x *vic.S)"
	case "Sl":
		params = "(x []int)"
	case "Map":
		params = "(x map[string]int)"
	case "PI":
		params = "(x *int)"
	case "PT":
		params = "(x *ptypes.T)"
	}
	body := " {\n" + indent(W+tail) + "}"
	switch kind {
	case "closure":
		return "", "func" + params + ret + body
	case "closure-recovering":
		return "", "func" + params + ret + " {\n\tdefer func() { recover() }()\n" + indent(W+tail) + "}"
	case "toplevel-func":
		return "func cb" + sfx + params + ret + body + "\n", "cb" + sfx
	case "method-value(struct)":
		return "type ct" + sfx + " struct{}\n\nfunc (ct" + sfx + ") M" + params + ret + body + "\n", "ct" + sfx + "{}.M"
	case "method-value(named int)":
		return "type cn" + sfx + " int\n\nfunc (cn" + sfx + ") M" + params + ret + body + "\n", "cn" + sfx + "(0).M"
	case "iface(struct)":
		return "type ht" + sfx + " struct{}\n\nfunc (ht" + sfx + ") On()" + body + "\n", "ht" + sfx + "{}"
	case "iface(*struct)":
		return "type hp" + sfx + " struct{ K int }\n\nfunc (h *hp" + sfx + ") On()" + body + "\n", "&hp" + sfx + "{}"
	case "iface(named int)":
		return "type hn" + sfx + " int\n\nfunc (hn" + sfx + ") On()" + body + "\n", "hn" + sfx + "(0)"
	}
	panic("carrier " + kind)
}

// directVarAssign: the statement assigns a package variable of the victim by name (vic.X = .., vic.X++, ...). The
// preprocessor rejects that when the attacker's code is deployed/run, whatever it is wrapped in, so these statements are
// exercised by the plain programs only (3 contexts) and are not repeated inside wrappers.
func directVarAssign(p program) bool {
	if p.base != "var" || p.steps != 0 {
		return false
	}
	re := regexp.MustCompile(`(^|[{\s])` + regexp.QuoteMeta(p.path) + `(\+\+| [-+]?= |, tmp = )`)
	return re.MatchString(p.code)
}

// reprPayloads: one forbidden write per (type of the written location, write form) — the first in grammar order that is
// not a direct assignment of a victim package variable.
func reprPayloads(all []program) []program {
	seen := map[string]bool{}
	var out []program
	for _, p := range all {
		if p.kind != "write" || p.allowed || strings.HasPrefix(p.path, "(") || directVarAssign(p) {
			continue
		}
		k := fmt.Sprintf("%d|%s", p.t, p.form)
		if seen[k] {
			continue
		}
		seen[k] = true
		out = append(out, p)
	}
	return out
}

// corePayloads: the members of the representative set with a basic form of each write mechanism (plain assignment,
// write through a pointer, the builtins append/copy/delete, map insert, whole-value replacement).
var coreForms = map[string]bool{"=": true, "through &x": true, "insert": true, "delete": true, "append within capacity (result dropped)": true,
	"copy(dst, ..)": true, "= nil": true, "= (copy of another victim struct)": true, "= array literal": true, "element swap": true,
	"passed to /p/ helper": true, "= re-point": true, "= /p/ struct literal": true, "= 5": true}

func corePayloads(repr []program) []program {
	var out []program
	for _, p := range repr {
		if coreForms[p.form] {
			out = append(out, p)
		}
	}
	return out
}

// reprByBase: one write per (type of the written location, write form, kind of base expression).
func reprByBase(all []program) []program {
	seen := map[string]bool{}
	var out []program
	for _, p := range all {
		k := fmt.Sprintf("%d|%s|%s|%v", p.t, p.form, p.base, p.steps == 0)
		if seen[k] {
			continue
		}
		seen[k] = true
		out = append(out, p)
	}
	return out
}

// core forms (quick tier) for the hand-out payloads; thorough uses every form.
var nonCoreForms = map[string]bool{"op=": true, "++": true, "deferred =": true, "= inside closure": true, "tuple swap": true,
	"&x passed to /p/ method on /p/-global receiver": true, "&x passed to /p/ method on attacker-made receiver": true,
	"passed to /p/ method on /p/-global receiver": true, "passed to /p/ method on attacker-made receiver": true,
	"= re-slice": true, "append then index write": true, "passed to /p/ helper (append)": true, "passed to /p/ helper (delete)": true}

func handPayloads(t typ, thorough bool) []program {
	var out []program
	seen := map[string]bool{}
	var rec func(e expr, d int)
	rec = func(e expr, d int) {
		for _, p := range writes(e) {
			if p.allowed || seen[p.code] || (!thorough && nonCoreForms[p.form]) {
				continue
			}
			seen[p.code] = true
			out = append(out, p)
		}
		if d == 1 {
			return
		}
		for _, s := range steps(e) {
			rec(expr{code: s.suffix(e.code), t: s.t, assign: s.assign, addr: s.addr, base: "handed-out", steps: e.steps + 1}, d+1)
		}
	}
	rec(expr{code: "x", t: t, base: "handed-out"}, 0)
	return out
}

func wrappers(all, depth1 []program, thorough bool) []*wrapper {
	var ws []*wrapper
	var writesAll []program
	for _, p := range all {
		if p.kind == "write" && !p.allowed && !strings.HasPrefix(p.path, "(") && !directVarAssign(p) {
			writesAll = append(writesAll, p)
		}
	}
	repr := reprPayloads(all)
	cbPayloads := repr
	corePl := corePayloads(repr)
	recPl := reprByBase(writesAll)
	if thorough {
		// thorough: every forbidden write of the depth-1 grammar inside every callback / type-pun wrapper, every write of the
		// tier's grammar (depth 2) in the recover class
		var d1 []program
		for _, p := range depth1 {
			if p.kind == "write" && !p.allowed && !strings.HasPrefix(p.path, "(") && !directVarAssign(p) {
				d1 = append(d1, p)
			}
		}
		cbPayloads, corePl, recPl = d1, d1, writesAll
	}

	// --- recover-and-continue
	type rv struct {
		touch string
		ctxs  []string
		pls   []program
	}
	rvs := []rv{{"cross", []string{"R"}, recPl}, {"cross", []string{"E"}, repr}, {"nc", []string{"R", "N"}, repr}}
	if thorough {
		rvs = []rv{{"cross", []string{"E", "R"}, writesAll}, {"nc", []string{"R", "N"}, writesAll}}
	}
	for _, v := range rvs {
		touch, ctxs, pls := v.touch, v.ctxs, v.pls
		ws = append(ws, &wrapper{group: "recover", route: "recovered write, then legitimate victim call", carrier: "touch-" + touch, ctxs: ctxs, payloads: pls, obs: true,
			build: func(W, sfx, ctx, mode string) (string, string) {
				t := "vic.Touch(cross(cur))"
				if touch == "nc" || ctx == "N" {
					t = "vic.TouchNc()"
				}
				return "", "b0 := vic.Dump()\n" + recWrap(W) + "\nif vic.Dump() != b0 {\n\tobs = \"C07-OBS-DIFF\"\n}\n" + t
			}})
	}

	// --- callbacks invoked from the victim's side
	type route struct{ name, sig, call string }
	routes := []route{
		{"/p/ method on victim-owned receiver calls back", "each", "vic.XPPT.Each(%s)"},
		{"victim non-crossing function calls back", "f0", "vic.ApplyNc(%s)"},
		{"victim crossing function calls back", "f0", "vic.Apply(cross(cur), %s)"},
		{"victim-minted closure calls back", "f0", "vic.XApply(%s)"},
	}
	for _, rt := range routes {
		for _, ck := range []string{"closure", "toplevel-func", "method-value(struct)", "method-value(named int)"} {
			rt, ck := rt, ck
			pls := cbPayloads
			if strings.HasPrefix(ck, "method-value") {
				pls = corePl
			}
			ws = append(ws, &wrapper{group: "callback", route: rt.name, carrier: ck, ctxs: []string{"E", "R"}, payloads: pls,
				build: func(W, sfx, ctx, mode string) (string, string) {
					d, x := callable(ck, rt.sig, W, sfx)
					return d, fmt.Sprintf(rt.call, x)
				}})
		}
	}
	for _, rt := range []route{{"victim non-crossing function calls an interface method", "f0", "vic.ApplyHookNc(%s)"}, {"victim crossing function calls an interface method", "f0", "vic.ApplyHook(cross(cur), %s)"}} {
		for _, ck := range []string{"iface(struct)", "iface(*struct)", "iface(named int)"} {
			rt, ck := rt, ck
			ws = append(ws, &wrapper{group: "callback", route: rt.name, carrier: ck, ctxs: []string{"E", "R"}, payloads: corePl,
				build: func(W, sfx, ctx, mode string) (string, string) {
					d, x := callable(ck, rt.sig, W, sfx)
					return d, fmt.Sprintf(rt.call, x)
				}})
		}
	}
	ws = append(ws, &wrapper{group: "callback", route: "victim crossing function calls back, then touches its state", carrier: "closure-recovering", ctxs: []string{"E", "R"}, payloads: cbPayloads,
		build: func(W, sfx, ctx, mode string) (string, string) {
			_, x := callable("closure-recovering", "f0", W, sfx)
			return "", "vic.ApplyThenTouch(cross(cur), " + x + ")"
		}})

	// --- type puns: method on an attacker-declared named type (declared in the entry package: /e/ script or attacker /r/)
	type pun struct{ name, decl, use string }
	puns := []pun{
		{"victim closure -> named func", "type pf%[1]s func() int\n\nfunc (f pf%[1]s) M() {\n%[2]s}\n", "pf%[1]s(vic.XFn).M()"},
		{"victim closure -> named func (assignment)", "type pf%[1]s func() int\n\nfunc (f pf%[1]s) M() {\n%[2]s}\n", "var f pf%[1]s = vic.XFn\nf.M()"},
		{"victim top-level func -> named func", "type pf%[1]s func() int\n\nfunc (f pf%[1]s) M() {\n%[2]s}\n", "pf%[1]s(vic.Zero).M()"},
		{"victim bound method -> named func", "type pf%[1]s func() int\n\nfunc (f pf%[1]s) M() {\n%[2]s}\n", "pf%[1]s(vic.XPS.Get).M()"},
		{"victim slice -> named slice", "type ps%[1]s []int\n\nfunc (s ps%[1]s) M() {\n%[2]s}\n", "ps%[1]s(vic.XSl).M()"},
		{"victim map -> named map", "type pm%[1]s map[string]int\n\nfunc (m pm%[1]s) M() {\n%[2]s}\n", "pm%[1]s(vic.XMap).M()"},
		{"victim *(/p/ struct) -> *named struct", "type pt%[1]s struct {\n\tN int\n\tL []int\n\tK int\n}\n\nfunc (t *pt%[1]s) M() {\n%[2]s}\n", "(*pt%[1]s)(vic.XPPT).M()"},
	}
	for i, pn := range puns {
		pn := pn
		pls := cbPayloads
		if i > 0 {
			pls = corePl
		}
		ws = append(ws, &wrapper{group: "typepun", route: pn.name, carrier: "method of entry-package type", ctxs: []string{"E", "R"}, payloads: pls,
			build: func(W, sfx, ctx, mode string) (string, string) {
				return fmt.Sprintf(pn.decl, sfx, indent(W)), fmt.Sprintf(pn.use, sfx)
			}})
	}

	// --- hand-outs of fresh (unreal) victim objects
	type hk struct {
		kind  string
		t     typ
		modes int
		pmint string // attacker-/p/-minted closure writing through the parameter
		pfunc string // plain /p/ top-level function value (by design runs with the victim's authority when the victim calls it)
	}
	for _, k := range []hk{{"PS", tPS, 6, "", ""}, {"Sl", tSlI, 4, "alib.MkWSl()", "ptypes.WSl"}, {"Map", tMapI, 4, "alib.MkWMap()", "ptypes.WMapNew"}, {"PI", tPInt, 4, "alib.MkWPI()", "ptypes.WInt"}, {"PT", tPPT, 4, "", "ptypes.WT"}} {
		pls := handPayloads(k.t, thorough)
		for _, cr := range []string{"crossing", "non-crossing"} {
			for _, ck := range []string{"closure", "toplevel-func"} {
				if !thorough && cr == "non-crossing" && ck == "toplevel-func" {
					continue // quick: the top-level-function carrier only on the crossing variant
				}
				k, cr, ck := k, cr, ck
				ws = append(ws, &wrapper{group: "handout", route: "victim " + cr + " function hands out fresh " + typName[k.t], carrier: ck, ctxs: []string{"E", "R"}, payloads: pls, modes: k.modes, kind: k.kind, handed: typName[k.t],
					build: func(W, sfx, ctx, mode string) (string, string) {
						d, x := callable(ck, k.kind, W, sfx)
						if cr == "crossing" {
							return d, "vic.Open" + k.kind + "(cross(cur), " + mode + ", " + x + ")"
						}
						return d, "vic.Open" + k.kind + "Nc(" + mode + ", " + x + ")"
					}})
			}
			for _, fx := range []struct {
				carrier, expr string
				allowed       bool
			}{{"closure minted by attacker /p/ code", k.pmint, false}, {"/p/ top-level function value", k.pfunc, true}} {
				if fx.expr == "" {
					continue
				}
				k, cr, fx := k, cr, fx
				ws = append(ws, &wrapper{group: "handout", route: "victim " + cr + " function hands out fresh " + typName[k.t], carrier: fx.carrier, ctxs: []string{"E", "R"}, modes: k.modes, kind: k.kind, handed: typName[k.t], allowed: fx.allowed,
					payloads: []program{{path: "x", form: "write through the parameter (fixed /p/ code)", code: "FIXED", kind: "write"}},
					build: func(W, sfx, ctx, mode string) (string, string) {
						x := fx.expr
						if W == nop {
							x = "func" + map[string]string{"Sl": "(x []int)", "Map": "(x map[string]int)", "PI": "(x *int)", "PT": "(x *ptypes.T)"}[k.kind] + " {}"
						}
						if cr == "crossing" {
							return "", "vic.Open" + k.kind + "(cross(cur), " + mode + ", " + x + ")"
						}
						return "", "vic.Open" + k.kind + "Nc(" + mode + ", " + x + ")"
					}})
			}
		}
	}
	return ws
}

// expand instantiates every wrapper: reference programs (no-op payload) and attack programs.
func expand(ws []*wrapper) (refs, atks []*wprog) {
	uid := 0
	for _, w := range ws {
		nm := w.modes
		if nm == 0 {
			nm = 1
		}
		for _, ctx := range w.ctxs {
			for m := 0; m < nm; m++ {
				rk := fmt.Sprintf("%s|%s|%s|%s|%d", w.group, w.route, w.carrier, ctx, m)
				mk := func(pl program, isRef bool) *wprog {
					uid++
					p := &wprog{w: w, ctx: ctx, mode: m, pl: pl, isRef: isRef, refKey: rk, uid: uid}
					sfx := fmt.Sprintf("_%d", uid)
					W := pl.code
					if isRef {
						W = nop
					}
					modeArg := fmt.Sprint(m)
					p.decls, p.body = w.build(W, sfx, ctx, modeArg)
					p.fn = "Atk" + sfx
					if ctx == "N" {
						p.fn = "Nc" + sfx
					}
					return p
				}
				refs = append(refs, mk(program{path: "(reference)", form: "no-op", code: nop, kind: "write"}, true))
				for i, pl := range w.payloads {
					p := mk(pl, false)
					p.pi = i
					atks = append(atks, p)
				}
			}
		}
	}
	// payload-major order: a budget-capped run still covers every wrapper (with its first payloads)
	sort.SliceStable(atks, func(i, j int) bool { return atks[i].pi < atks[j].pi })
	return
}

const wrapHeader = "import vic \"gno.land/r/verif/victim\"\nimport \"gno.land/p/verif/ptypes\"\nimport \"gno.land/p/verif/alib\"\n\nvar _ = ptypes.WInt\nvar _ = vic.Ping\nvar _ = alib.MkWSl\n"

// script for the E context (MsgRun)
func (p *wprog) script() string {
	return "package main\n\n" + wrapHeader + atkDecls + "\n" + p.decls + "\nfunc main(cur realm) {\n\tobs := \"\"\n" + indent(p.body) + "\tprintln(\"OBS:\" + obs)\n}\n"
}

// one attacker realm holding a batch of R / N programs
func batchRealm(pkg string, ps []*wprog) string {
	var b strings.Builder
	b.WriteString("package " + pkg + "\n\n" + wrapHeader + atkDecls + "\n")
	for _, p := range ps {
		b.WriteString(p.decls + "\n")
		if p.ctx == "N" {
			b.WriteString("func " + p.fn + "() string {\n\tobs := \"\"\n" + indent(p.body) + "\treturn \"OBS:\" + obs\n}\n\n")
		} else {
			b.WriteString("func " + p.fn + "(cur realm) string {\n\tobs := \"\"\n" + indent(p.body) + "\treturn \"OBS:\" + obs\n}\n\n")
		}
	}
	return b.String()
}

func ncScript(path string, p *wprog) string {
	return "package main\n\nimport atk \"" + path + "\"\n\nfunc main() {\n\tprintln(atk." + p.fn + "())\n}\n"
}

// class key of a wrapped finding: one key per (class, route, carrier, declaring package kind); the payloads that got
// through are listed in the detail and summarised in the key by the set of written location types.
func ctxName(ctx string) string {
	switch ctx {
	case "E":
		return "MsgRun /e/ script"
	case "R":
		return "attacker /r/ realm (MsgCall)"
	}
	return "attacker /r/ realm non-crossing function called from MsgRun"
}

type wfinding struct {
	kind, group, route, carrier, ctx string
	handed                           string // type of the handed-out fresh object
	mode                             int
	hasMode                          bool
	payload                          string
	ptype                            string
	program                          string
	changes                          []string
}

func aggregateWrapped(fs []wfinding) []finding {
	type agg struct {
		types    map[string]bool
		routes   map[string]bool
		payloads []string
		sample   wfinding
	}
	m := map[string]*agg{}
	for _, f := range fs {
		// class key: what kind of attacker code, declared where, got the victim's authority in which class of situation.
		// (Routes of the callback/hand-out classes and the payloads that got through are listed in the detail: the key must
		// not depend on how much of the enumeration a budget-capped run completed.)
		k := f.kind + ":" + f.group + ":" + f.carrier + ":" + ctxName(f.ctx)
		if f.group == "typepun" || f.group == "recover" {
			k = f.kind + ":" + f.group + ":" + f.route + ":" + f.carrier + ":" + ctxName(f.ctx)
		}
		if f.group == "handout" {
			k = f.kind + ":" + f.group + ":fresh " + f.handed + ":" + f.carrier + ":" + ctxName(f.ctx)
		}
		a := m[k]
		if a == nil {
			a = &agg{types: map[string]bool{}, routes: map[string]bool{}, sample: f}
			m[k] = a
		}
		a.types[f.ptype] = true
		a.routes[f.route] = true
		pl := f.route + ": " + f.payload
		if f.hasMode {
			pl = fmt.Sprintf("%s mode%d: %s", f.route, f.mode, f.payload)
		}
		a.payloads = append(a.payloads, pl)
		if f.program < a.sample.program {
			a.sample = f
		}
	}
	keys := func(m map[string]bool) []string {
		var ts []string
		for t := range m {
			ts = append(ts, t)
		}
		sort.Strings(ts)
		return ts
	}
	var out []finding
	for k, a := range m {
		sort.Strings(a.payloads)
		out = append(out, finding{k, map[string]any{"payloads_that_got_through": a.payloads, "count": len(a.payloads), "routes": keys(a.routes),
			"types_of_written_locations": keys(a.types), "example_program": a.sample.program, "example_victim_object_changes": a.sample.changes}})
	}
	sort.Slice(out, func(i, j int) bool { return out[i].key < out[j].key })
	return out
}
