package main

import (
	"fmt"
	"strings"
)

// ---- type-directed generator of attacker programs ---------------------------------------------------------
//
// An access path is a base expression (an exported variable of the victim, a getter result, or one of these
// wrapped: local alias / interface round trip) followed by <= depth selector steps; a program applies one write
// form to the location (or container value) the path denotes. Everything is generated from the victim's type
// structure, so every program type-checks (validated by the control context: the same statement compiled INTO a
// copy of the victim must succeed and change that copy's state).

type typ int

const (
	tInt typ = iota
	tD
	tS
	tPS
	tInner
	tArrI
	tArrS
	tSlI
	tSlS
	tMapI
	tMapS
	tPInt
	tPArr
	tPT
	tPPT
	tIf
	tFn
)

var typName = map[typ]string{tInt: "int", tD: "D", tS: "S", tPS: "*S", tInner: "Inner", tArrI: "[2]int", tArrS: "[2]S", tSlI: "[]int", tSlS: "[]*S",
	tMapI: "map[string]int", tMapS: "map[string]*S", tPInt: "*int", tPArr: "*[2]int", tPT: "ptypes.T", tPPT: "*ptypes.T", tIf: "interface{}", tFn: "func() int"}

type expr struct {
	code   string
	t      typ
	assign bool // may appear on the left of '='
	addr   bool // addressable (&x allowed)
	pre    string
	base   string // base class (for reporting)
	steps  int
}

type step struct {
	suffix func(string) string
	t      typ
	assign bool
	addr   bool
}

func sel(f string, t typ) step {
	return step{func(x string) string { return x + "." + f }, t, true, true}
}

func steps(e expr) []step {
	switch e.t {
	case tS:
		if !e.assign { // fields of a non-addressable struct value are not assignable
			return nil
		}
		return []step{sel("N", tInt), sel("P", tPS), sel("A", tArrI), sel("L", tSlI), sel("M", tMapI), sel("In", tInner)}
	case tPS:
		return []step{sel("N", tInt), sel("P", tPS), sel("A", tArrI), sel("L", tSlI), sel("M", tMapI), sel("In", tInner),
			{func(x string) string { return "(*" + x + ")" }, tS, true, true}}
	case tInner:
		if !e.assign {
			return nil
		}
		return []step{sel("X", tInt)}
	case tArrI:
		if !e.assign {
			return nil
		}
		return []step{{func(x string) string { return x + "[1]" }, tInt, true, true}}
	case tArrS:
		if !e.assign {
			return nil
		}
		return []step{{func(x string) string { return x + "[0]" }, tS, true, true}}
	case tSlI:
		return []step{{func(x string) string { return x + "[0]" }, tInt, true, true}}
	case tSlS:
		return []step{{func(x string) string { return x + "[0]" }, tPS, true, true}}
	case tMapI:
		return []step{{func(x string) string { return x + `["a"]` }, tInt, true, false}}
	case tMapS:
		return []step{{func(x string) string { return x + `["a"]` }, tPS, true, false}}
	case tPInt:
		return []step{{func(x string) string { return "(*" + x + ")" }, tInt, true, true}}
	case tPArr:
		return []step{{func(x string) string { return x + "[1]" }, tInt, true, true}, {func(x string) string { return "(*" + x + ")" }, tArrI, true, true}}
	case tPT:
		if !e.assign {
			return nil
		}
		return []step{sel("N", tInt), sel("L", tSlI)}
	case tPPT:
		return []step{sel("N", tInt), sel("L", tSlI)}
	}
	return nil
}

func bases() []expr {
	v := func(name string, t typ) expr {
		return expr{code: "vic." + name, t: t, assign: true, addr: true, base: "var"}
	}
	g := func(call string, t typ) expr { return expr{code: "vic." + call, t: t, base: "getter"} }
	bs := []expr{
		v("XInt", tInt), v("XD", tD), v("XS", tS), v("XPS", tPS), v("XArr", tArrI), v("XArrS", tArrS), v("XSl", tSlI), v("XSlS", tSlS),
		v("XMap", tMapI), v("XMapS", tMapS), v("XPT", tPT), v("XPPT", tPPT), v("XPInt", tPInt), v("XIf", tIf), v("XFn", tFn),
		g("GetP()", tPS), g("GetPI()", tPInt), g("GetS()", tSlI), g("GetM()", tMapI), g("GetSS()", tSlS), g("GetMS()", tMapS),
		g("GetPArr()", tPArr), g("GetPPT()", tPPT), g("GetPS2()", tPS), g("GetIf().(*vic.S)", tPS), g("GetFn()", tFn),
	}
	// wrapped bases for reference types: local alias, interface round trip
	var out []expr
	out = append(out, bs...)
	for _, b := range bs {
		switch b.t {
		case tPS, tSlI, tSlS, tMapI, tMapS, tPInt, tPArr, tPPT:
			if b.base == "getter" && b.code != "vic.GetP()" && b.code != "vic.GetS()" && b.code != "vic.GetM()" {
				continue // aliases of every var, and of one getter per kind
			}
			out = append(out, expr{code: "al", t: b.t, pre: "al := " + b.code + "\n", base: "alias-of-" + b.base})
			tn := strings.ReplaceAll(typName[b.t], "S", "vic.S")
			out = append(out, expr{code: "iw", t: b.t, pre: "var ifc interface{} = " + b.code + "\niw := ifc.(" + tn + ")\n", base: "iface-wrapped-" + b.base})
		}
	}
	return out
}

// paths enumerates base + <= depth steps.
func paths(depth int) []expr {
	var out []expr
	var rec func(e expr, d int)
	rec = func(e expr, d int) {
		out = append(out, e)
		if d == depth {
			return
		}
		for _, s := range steps(e) {
			if e.t == tPS && s.t == tPS && strings.HasSuffix(e.code, ".P") {
				continue // X.P.P is nil in the victim: do not dereference further
			}
			n := expr{code: s.suffix(e.code), t: s.t, assign: s.assign, addr: s.addr, pre: e.pre, base: e.base, steps: e.steps + 1}
			if e.t == tPS && strings.HasSuffix(e.code, ".P") && s.t != tPS && e.steps >= 1 && strings.Contains(e.code, ".P.P") {
				continue
			}
			rec(n, d+1)
		}
	}
	for _, b := range bases() {
		rec(b, 0)
	}
	return out
}

type program struct {
	id      int
	path    string // access path (code)
	form    string // write form name
	code    string // statements (use the import alias `vic.` and `ptypes.`)
	allowed bool   // the interrealm specification allows this write (runs with the victim's storage authority)
	kind    string // write | construct | persist-realm
	base    string
	t       typ    // type of the written location / container
	steps   int    // selector steps of the access path
	class   string // finding class (key) shared by several programs; default: the program's own label
	// needs: which contexts make sense
	realmOnly bool
}

func (p program) label() string { return fmt.Sprintf("%s <%s>", p.path, p.form) }

func writes(e expr) []program {
	var ps []program
	add := func(form, code string, allowed bool) {
		ps = append(ps, program{path: e.code, form: form, code: e.pre + code, allowed: allowed, kind: "write", base: e.base, t: e.t, steps: e.steps})
	}
	L := e.code
	switch e.t {
	case tInt:
		if e.assign {
			add("=", L+" = 9", false)
			add("op=", L+" += 1", false)
			add("++", L+"++", false)
			add("deferred =", "defer func() { "+L+" = 9 }()", false)
			add("= inside closure", "fn := func() { "+L+" = 9 }\nfn()", false)
			add("tuple swap", "tmp := 9\n"+L+", tmp = tmp, "+L, false)
		}
		if e.addr {
			add("through &x", "ptr := &"+L+"\n*ptr = 9", false)
			add("&x passed to /p/ helper", "ptypes.WInt(&"+L+")", false)
			add("&x passed to attacker func", "setInt(&"+L+")", false)
			add("&x passed to /p/ method on /p/-global receiver", "ptypes.G.WInt(&"+L+")", false)
			add("&x passed to /p/ method on attacker-made receiver", "w := &ptypes.W{}\nw.WInt(&"+L+")", false)
		}
	case tD:
		if e.assign {
			add("=", L+" = 5", false)
			add("++", L+"++", false)
		}
	case tS:
		if e.assign && L != "vic.XArrS[1]" {
			add("= (copy of another victim struct)", L+" = vic.XArrS[1]", false)
		}
	case tInner:
		if e.assign {
			add("= (copy of another victim struct)", L+" = vic.XArrS[1].In", false)
		}
	case tPS:
		if e.assign {
			add("= nil", L+" = nil", false)
			add("= re-point", L+" = vic.XSlS[1]", false)
		}
	case tArrI:
		if e.assign {
			add("= array literal", L+" = [2]int{9, 9}", false)
		}
	case tArrS:
		if e.assign {
			add("element swap", L+"[0], "+L+"[1] = "+L+"[1], "+L+"[0]", false)
		}
	case tSlI:
		if e.assign {
			add("= nil", L+" = nil", false)
			add("= append(x, ..)", L+" = append("+L+", 9)", false)
			add("= re-slice", L+" = "+L+"[:1]", false)
		}
		add("append within capacity (result dropped)", "_ = append("+L+"[:1], 9)", false)
		add("append then index write", "tmp := append("+L+"[:1], 7)\ntmp[0] = 9", false)
		add("copy(dst, ..)", "copy("+L+", []int{9, 9})", false)
		add("write inside range", "for i := range "+L+" {\n\t"+L+"[i] = 9\n}", false)
		add("passed to /p/ helper (index write)", "ptypes.WSl("+L+")", false)
		add("passed to /p/ helper (append)", "ptypes.WApp("+L+")", false)
		add("passed to attacker func", "setSl("+L+")", false)
		add("passed to /p/ method on /p/-global receiver", "ptypes.G.WSl("+L+")", false)
		add("passed to /p/ method on attacker-made receiver", "w := &ptypes.W{}\nw.WSl("+L+")", false)
	case tSlS:
		if e.assign {
			add("= nil", L+" = nil", false)
		}
		add("element swap", L+"[0], "+L+"[1] = "+L+"[1], "+L+"[0]", false)
		add("write inside range", "for _, e := range "+L+" {\n\te.N = 9\n}", false)
	case tMapI:
		if e.assign {
			add("= nil", L+" = nil", false)
		}
		add("insert", L+`["zz"] = 9`, false)
		add("delete", "delete("+L+`, "a")`, false)
		add("write inside range", "for k := range "+L+" {\n\t"+L+"[k] = 9\n}", false)
		add("passed to /p/ helper (write)", "ptypes.WMap("+L+")", false)
		add("passed to /p/ helper (delete)", "ptypes.WDel("+L+")", false)
		add("passed to /p/ method on /p/-global receiver", "ptypes.G.WMap("+L+")", false)
		add("passed to /p/ method on attacker-made receiver", "w := &ptypes.W{}\nw.WMap("+L+")", false)
	case tMapS:
		if e.assign {
			add("= nil", L+" = nil", false)
		}
		add("insert", L+`["zz"] = nil`, false)
		add("delete", "delete("+L+`, "a")`, false)
		add("write inside range", "for _, e := range "+L+" {\n\te.N = 9\n}", false)
	case tPInt:
		if e.assign {
			add("= nil", L+" = nil", false)
		}
		add("passed to /p/ helper", "ptypes.WInt("+L+")", false)
	case tPArr:
		add("passed to /p/ helper", "ptypes.WArr("+L+")", false)
	case tPT:
		if e.assign {
			add("= /p/ struct literal", L+" = ptypes.T{N: 9}", false)
		}
		if e.addr {
			add("/p/ method on victim receiver", L+".Set(9)", true)
			add("&x passed to /p/ top-level func", "ptypes.WT(&"+L+")", false)
		}
	case tPPT:
		if e.assign {
			add("= nil", L+" = nil", false)
			add("= &/p/ literal", L+" = &ptypes.T{N: 9}", false)
		}
		add("/p/ method on victim receiver", L+".Set(9)", true)
		add("/p/ method value", "mv := "+L+".Set\nmv(9)", true)
		add("/p/ method expression", "(*ptypes.T).Set("+L+", 9)", true)
		add("passed to /p/ top-level func (field write)", "ptypes.WT("+L+")", false)
		add("passed to /p/ top-level func (slice elem write)", "ptypes.WTL("+L+")", false)
	case tIf:
		if e.assign {
			add("= nil", L+" = nil", false)
			add("= 5", L+" = 5", false)
		}
	case tFn:
		add("call victim-minted closure", "_ = "+L+"()", true)
		if e.assign {
			add("= nil", L+" = nil", false)
		}
	}
	return ps
}

func constructions() []program {
	var ps []program
	add := func(form, code string) {
		ps = append(ps, program{path: "(construct)", form: form, code: code, kind: "construct", base: "construct"})
	}
	add("composite literal S{}", "x := vic.S{N: 1}\nkeep = x")
	add("&S{}", "x := &vic.S{N: 1}\nkeep = x")
	add("new(S)", "x := new(vic.S)\nkeep = x")
	add("make([]S)", "x := make([]vic.S, 1)\nkeep = x")
	add("[]S literal", "x := []vic.S{{N: 1}}\nkeep = x")
	add("[1]S literal", "x := [1]vic.S{{N: 1}}\nkeep = x")
	add("map[string]S literal", "x := map[string]vic.S{\"k\": {N: 1}}\nkeep = x")
	add("Inner{} literal", "x := vic.Inner{X: 1}\nkeep = x")
	add("anonymous struct with S field", "x := struct{ F vic.S }{}\nx.F.N = 3\nkeep = x")
	add("var zero value S, field write, persist", "var x vic.S\nx.N = 3\nkeep = x")
	add("var zero value *S persist", "var x *vic.S\nkeep = x")
	add("conversion D(5)", "x := vic.D(5)\nkeep = x")
	add("copy of victim struct value persisted", "x := vic.XS\nkeep = x")
	add("copy of victim struct, write own copy, persist", "x := vic.XS\nx.N = 77\nkeep = x")
	add("pointer to victim object persisted", "keep = vic.XPS")
	add("victim slice persisted", "keep = vic.XSl")
	return ps
}

func realmPersist() []program {
	var ps []program
	add := func(form, code string) {
		ps = append(ps, program{path: "(realm value)", form: form, code: code, kind: "persist-realm", base: "realm-value", realmOnly: true})
	}
	add("package var of type realm", "keepR = cur")
	add("interface var", "keep = cur")
	add("struct field", "keepSt.R = cur")
	add("slice element", "keepSl = append(keepSl, cur)")
	add("map value", "keepMp[\"k\"] = cur")
	add("closure capture", "keepFn = func() { _ = cur }")
	add("pointer to cur", "ptr := &cur\nkeep = ptr")
	add("cur.Previous()", "keep = cur.Previous()")
	add("array element", "keepAr[0] = cur")
	add("nested struct in interface", "keep = struct{ R realm }{cur}")
	return ps
}

// typePuns: convert a victim value to a named type of the ATTACKER-authored /p/ library alib and call its mutator
// method (receiver = victim-stamped object: borrow rule #2 would run the attacker's method with the victim's authority;
// doOpConvert is supposed to refuse the conversion).
func typePuns() []program {
	var ps []program
	class := ""
	add := func(t typ, form, code string) {
		ps = append(ps, program{path: "(type pun via attacker /p/ type)", form: form, code: code, kind: "write", base: "typepun", t: t, class: "(type pun via attacker /p/ type) <" + class + ">"})
	}
	for _, src := range []struct{ name, code string }{{"victim closure", "vic.XFn"}, {"victim closure from getter", "vic.GetFn()"}, {"victim top-level func", "vic.Zero"}, {"victim bound method", "vic.XPS.Get"}} {
		class = src.name + " -> named func type, method writes its arguments"
		add(tSlI, src.name+" -> alib.FI, method writes []int argument", "alib.FI("+src.code+").PokeSl(vic.XSl)")
		add(tMapI, src.name+" -> alib.FI, method inserts into map argument", "alib.FI("+src.code+").PokeM(vic.XMap)")
		add(tInt, src.name+" -> alib.FI, method writes *int argument (&package var)", "alib.FI("+src.code+").PokeP(&vic.XInt)")
		add(tPInt, src.name+" -> alib.FI, method writes *int argument (victim pointer)", "alib.FI("+src.code+").PokeP(vic.XPInt)")
		add(tInt, src.name+" -> alib.FI, method writes *int argument (&field behind pointer)", "alib.FI("+src.code+").PokeP(&vic.XPS.N)")
	}
	class = "victim closure -> named func type by assignment, method writes its arguments"
	add(tSlI, "victim closure -> alib.FI by assignment, method writes []int argument", "var f alib.FI = vic.XFn\nf.PokeSl(vic.GetS())")
	class = "victim slice/map/pointer -> named type, method writes the receiver"
	add(tSlI, "victim slice -> alib.Ints, method writes receiver", "alib.Ints(vic.XSl).Set()")
	add(tSlI, "victim slice -> alib.Ints by assignment, method writes receiver", "var s alib.Ints = vic.XSl\ns.Set()")
	add(tSlI, "victim slice (getter) -> alib.Ints, method writes receiver", "alib.Ints(vic.GetS()).Set()")
	add(tMapI, "victim map -> alib.MapI, method inserts", "alib.MapI(vic.XMap).Ins()")
	add(tMapI, "victim map -> alib.MapI by assignment, method deletes", "var m alib.MapI = vic.GetM()\nm.Del()")
	add(tPPT, "victim *ptypes.T -> *alib.T2, method writes receiver", "(*alib.T2)(vic.XPPT).Set()")
	add(tPPT, "victim &ptypes.T var -> *alib.T2, method writes receiver", "(*alib.T2)(&vic.XPT).Set()")
	add(tInner, "victim &Inner -> *alib.In2, method writes receiver", "(*alib.In2)(&vic.XS.In).Set()")
	add(tPArr, "victim &[2]int -> *alib.Arr2, method writes receiver", "(*alib.Arr2)(&vic.XArr).Set()")
	add(tPArr, "victim *[2]int (getter) -> *alib.Arr2, method writes receiver", "(*alib.Arr2)(vic.GetPArr()).Set()")
	add(tD, "victim &D -> *alib.D2, method writes receiver", "(*alib.D2)(&vic.XD).Set()")
	add(tPInt, "victim *int -> *alib.D2, method writes receiver", "(*alib.D2)(vic.XPInt).Set()")
	return ps
}

func allPrograms(depth int) []program {
	var ps []program
	// construction / realm-value programs first: a budget-capped run still covers them
	ps = append(ps, constructions()...)
	ps = append(ps, realmPersist()...)
	seen := map[string]bool{}
	for _, e := range paths(depth) {
		for _, p := range writes(e) {
			if seen[p.code] {
				continue
			}
			seen[p.code] = true
			ps = append(ps, p)
		}
	}
	ps = append(ps, typePuns()...)
	for i := range ps {
		ps[i].id = i
	}
	return ps
}

const atkDecls = `
var keep interface{}
var keepR realm
var keepSt struct{ R realm }
var keepSl []realm
var keepMp = map[string]realm{}
var keepFn func()
var keepAr [1]realm

func setInt(p *int) { *p = 9 }
func setSl(s []int) { s[0] = 9 }
`

func indent(code string) string {
	return "\t" + strings.ReplaceAll(strings.TrimRight(code, "\n"), "\n", "\n\t") + "\n"
}

// source of the attacker realm for one program.
func atkRealm(p program, pkg string) string {
	return "package " + pkg + "\n\nimport vic \"gno.land/r/verif/victim\"\nimport \"gno.land/p/verif/ptypes\"\nimport \"gno.land/p/verif/alib\"\n\nvar _ = ptypes.WInt\nvar _ = vic.Ping\nvar _ = alib.MkWSl\n" + atkDecls +
		"\nfunc Atk(cur realm) {\n" + indent(p.code) + "}\n\nfunc Nc() {\n" + indent(strings.ReplaceAll(p.code, "cur", "curUnavailable")) + "}\n"
}

func atkRealmCrossingOnly(p program, pkg string) string {
	return "package " + pkg + "\n\nimport vic \"gno.land/r/verif/victim\"\nimport \"gno.land/p/verif/ptypes\"\nimport \"gno.land/p/verif/alib\"\n\nvar _ = ptypes.WInt\nvar _ = vic.Ping\nvar _ = alib.MkWSl\n" + atkDecls +
		"\nfunc Atk(cur realm) {\n" + indent(p.code) + "}\n"
}

func runScript(p program) string {
	return "package main\n\nimport vic \"gno.land/r/verif/victim\"\nimport \"gno.land/p/verif/ptypes\"\nimport \"gno.land/p/verif/alib\"\n\nvar _ = ptypes.WInt\nvar _ = vic.Ping\nvar _ = alib.MkWSl\n" + atkDecls +
		"\nfunc main(cur realm) {\n" + indent(p.code) + "}\n"
}

// control: the statement inside a copy of the victim (its own authority).
func ctlRealm(p program, victimSrc string) string {
	src := strings.Replace(victimSrc, "package victim", "package ctl", 1)
	code := strings.ReplaceAll(p.code, "vic.", "")
	if strings.Contains(code, "alib.") {
		src = strings.Replace(src, "import \"gno.land/p/verif/ptypes\"", "import \"gno.land/p/verif/ptypes\"\nimport \"gno.land/p/verif/alib\"", 1)
	}
	// SEEN/BLIND: does the victim's own Dump() (the in-transaction observer of the recover class) see this write?
	return src + "\nvar keep interface{}\n\nfunc setInt(p *int) { *p = 9 }\nfunc setSl(s []int) { s[0] = 9 }\n\nfunc ctlW() {\n" + indent(code) + "}\n\nfunc Ctl(cur realm) string {\n\tb0 := Dump()\n\tctlW()\n\tif Dump() != b0 {\n\t\treturn \"SEEN\"\n\t}\n\treturn \"BLIND\"\n}\n"
}
